/-
Model of the per-candidate admission logic of the scheduler
(`ExistingNode.CanAdd`, `NodeClaim.CanAdd` → `filterInstanceTypesByRequirements` / `fits` / `compatible`,
`newPodRequirements`, `Preferences.Relax`), over the requirement algebra of `Karp.Model.Req`.
Topology and volume-topology enter as an extra requirement set that can only narrow (their own guarantees are C02).
-/
import Karp.Model.Req
import Karp.Spec.Scenario

namespace Karp.Sched
open Karp.Req Karp.Scn

/-! ### Pod requirements (`newPodRequirements`) -/

/-- `Req.new` for operands that cannot panic (the pod was validated: comparison operators carry one value) -/
def newReq (e : KExpr) : Req :=
  match Req.new e.key e.op none e.vals with
  | .ok r => r
  | .error _ => { key := normalizeKey e.key, complement := true, values := [] }

def selectorExprs (sel : Labels) : List KExpr := sel.map (fun (k, v) => { key := k, op := .in_, vals := [v] })

/-- `NewLabelRequirements(nodeSelector)`, then the heaviest preferred term (unless preferences are ignored),
    then the FIRST required term — each added with `Requirements.Add` -/
def podExprs (sel : Labels) (firstTerm : List KExpr) (heaviestPreferred : List KExpr) : List KExpr :=
  selectorExprs sel ++ heaviestPreferred ++ firstTerm

def podReqs (es : List KExpr) : Reqs := Reqs.add [] (es.map newReq)

/-! ### Relaxation (`Preferences.Relax`), node-affinity part -/

structure PodAffinitySpec where
  required : List (List KExpr)
  preferred : List (List KExpr)     -- sorted by weight, heaviest first

/-- `removeRequiredNodeAffinityTerm`: drops the first OR-ed term only while more than one is left -/
def removeRequiredTerm (a : PodAffinitySpec) : Option PodAffinitySpec :=
  match a.required with
  | _ :: t2 :: rest => some { a with required := t2 :: rest }
  | _ => none

/-- `removePreferredNodeAffinityTerm`: drops the heaviest preferred term -/
def removePreferredTerm (a : PodAffinitySpec) : Option PodAffinitySpec :=
  match a.preferred with
  | _ :: rest => some { a with preferred := rest }
  | [] => none

/-- one relaxation step on the node-affinity part, in the order of `Preferences.Relax` -/
def relaxStep (a : PodAffinitySpec) : Option PodAffinitySpec :=
  match removeRequiredTerm a with
  | some a' => some a'
  | none => removePreferredTerm a

/-! ### Existing nodes -/

structure ExNode where
  labels  : Labels                       -- node labels incl. hostname
  taints  : List Taint                   -- `StateNode.Taints()` (ephemeral / startup taints already hidden)
  remCPU  : Int                          -- allocatable − bound pods − pods placed so far − remaining daemon reservation
  remMem  : Int
  remPods : Int
  ports   : List HostPort                -- host ports in use (bound pods + pods placed so far)

structure PodD where
  cpu : Int
  mem : Int
  tolerations : List Toleration
  ports : List HostPort
  exprs : List KExpr                     -- what `podData.Requirements` was built from

/-- `Toleration.ToleratesTaint` -/
def tolerates (tol : Toleration) (t : Taint) : Bool :=
  (tol.effect == "" || tol.effect == t.effect) &&
  (tol.key == "" || tol.key == t.key) &&
  (match tol.operator with
   | "Exists" => true
   | "" => tol.value == t.value
   | "Equal" => tol.value == t.value
   | _ => false)

/-- `Taints.ToleratesPod`: EVERY taint must be tolerated (also `PreferNoSchedule`, until relaxation adds the toleration) -/
def toleratesAll (tols : List Toleration) (taints : List Taint) : Bool :=
  taints.all (fun t => tols.any (fun tol => tolerates tol t))

def wildIP (ip : String) : Bool := ip == "" || ip == "0.0.0.0"
/-- `HostPortUsage.Conflicts` entry test -/
def portConflict (a b : HostPort) : Bool :=
  a.port == b.port && a.proto == b.proto && (wildIP a.ip || wildIP b.ip || a.ip == b.ip)

def portsFree (used new : List HostPort) : Bool := new.all (fun p => !used.any (fun u => portConflict u p))

/-- `resources.Fits(requests, remaining)` on the three tracked resources (a pod consumes one "pods") -/
def fits (cpu mem pods remCPU remMem remPods : Int) : Bool :=
  decide (cpu ≤ remCPU) && decide (mem ≤ remMem) && decide (pods ≤ remPods)

/-- `NewLabelRequirements(labels)` for labels with distinct, already-normalised keys (node labels): one `In [v]` per label -/
def labelReqs (ls : Labels) : Reqs := ls.map (fun (k, v) => (k, { key := k, complement := false, values := [v] }))

/-- `ExistingNode.CanAdd` without topology / volumes: taints, host ports, resources, requirement compatibility
    against the node's (label) requirements with NO undefined keys allowed -/
def existingCanAdd (n : ExNode) (p : PodD) : Bool :=
  toleratesAll p.tolerations n.taints &&
  portsFree n.ports p.ports &&
  fits p.cpu p.mem 1 n.remCPU n.remMem n.remPods &&
  (labelReqs n.labels).compatible (podReqs p.exprs) []

/-- `ExistingNode.Add`: the node's own requirements stay fixed (repaired: they used to absorb the pod's) -/
def existingAdd (n : ExNode) (p : PodD) : ExNode :=
  { n with remCPU := n.remCPU - p.cpu, remMem := n.remMem - p.mem, remPods := n.remPods - 1, ports := n.ports ++ p.ports }

/-! ### `trySchedule` against one existing node: try, relax, try again -/

structure PodSpecM where
  cpu : Int
  mem : Int
  tolerations : List Toleration
  ports : List HostPort
  sel : Labels
  aff : PodAffinitySpec

/-- `updateCachedPodData`: requirements from the node selector, the heaviest preferred term (unless preferences are
    ignored) and the first required term -/
def podDOf (ignorePrefs : Bool) (p : PodSpecM) : PodD :=
  { cpu := p.cpu, mem := p.mem, tolerations := p.tolerations, ports := p.ports,
    exprs := podExprs p.sel (p.aff.required.head?.getD []) (if ignorePrefs then [] else p.aff.preferred.head?.getD []) }

def pnsToleration : Toleration := { key := "", operator := "Exists", value := "", effect := "PreferNoSchedule" }

/-- `Toleration.MatchToleration` against the PreferNoSchedule toleration -/
def hasPNS (ts : List Toleration) : Bool :=
  ts.any (fun t => t.key == "" && t.operator == "Exists" && t.value == "" && t.effect == "PreferNoSchedule")

/-- the `trySchedule` loop restricted to one existing node: `fuel` bounds the (finite) number of relaxations -/
def tryExisting : Nat → ExNode → PodSpecM → Bool → Bool → Bool
  | 0, _, _, _, _ => false
  | f + 1, n, p, ignorePrefs, tolPNS =>
    if existingCanAdd n (podDOf ignorePrefs p) then true else
    match relaxStep p.aff with
    | some a' => tryExisting f n { p with aff := a' } ignorePrefs tolPNS
    | none =>
      if tolPNS && !hasPNS p.tolerations then
        tryExisting f n { p with tolerations := p.tolerations ++ [pnsToleration] } ignorePrefs tolPNS
      else false

/-! ### The scheduler's view of a node (`state.StateNode` accessors at each lifecycle stage) -/

def ephemeralTaint (t : Taint) : Bool :=
  (t.key == "node.kubernetes.io/not-ready" && (t.effect == "NoSchedule" || t.effect == "NoExecute")) ||
  (t.key == "node.kubernetes.io/unreachable" && t.effect == "NoSchedule") ||
  (t.key == "node.cloudprovider.kubernetes.io/uninitialized" && t.effect == "NoSchedule" && t.value == "true") ||
  (t.key == "karpenter.sh/unregistered" && t.effect == "NoExecute") ||
  t.key.startsWith "readiness.k8s.io/"

/-- `Taint.MatchTaint`: same key and effect -/
def matchTaint (a b : Taint) : Bool := a.key == b.key && a.effect == b.effect

/-- labels as `StateNode.Labels()` reports them, plus the hostname requirement `NewExistingNode` adds -/
def viewLabels (s : Scenario) (n : Node) : Labels :=
  let poolLabels : Labels := match s.pool? n.pool with
    | some p => (Karp.Gen.Labels.nodePoolLabelKey, p.name) :: p.labels
    | none => []
  let stageLabels : Labels :=
    if !n.managed then [] else
    if n.stage == "registered" then [("karpenter.sh/registered", "true")]
    else if n.stage == "initialized" then [("karpenter.sh/registered", "true"), ("karpenter.sh/initialized", "true")]
    else []
  n.labels ++ poolLabels ++ stageLabels ++
  [("node.kubernetes.io/instance-type", n.it), ("topology.kubernetes.io/zone", n.zone),
   (Karp.Gen.Labels.capacityTypeLabelKey, n.ct), ("kubernetes.io/arch", "amd64"), ("kubernetes.io/os", "linux"),
   ("kubernetes.io/hostname", n.name)]

/-- `StateNode.Taints()` -/
def viewTaints (s : Scenario) (n : Node) : List Taint :=
  let pool := s.pool? n.pool
  let poolTaints := match pool with | some p => p.taints | none => []
  let startup := match pool with | some p => p.startupTaints | none => []
  let unregistered := n.managed && (n.stage == "claim" || n.stage == "node")
  if unregistered then
    -- the NodeClaim's taints
    poolTaints.filter (fun t => !(ephemeralTaint t || startup.any (fun st => matchTaint st t)))
  else
    let nodeTaints := n.taints ++ poolTaints ++ (if n.managed && n.stage == "registered" then startup else [])
    if n.managed && n.stage != "initialized" then
      nodeTaints.filter (fun t => !(ephemeralTaint t || startup.any (fun st => matchTaint st t)))
    else nodeTaints

/-- is daemonset `d` counted for the node (`isDaemonPodCompatibleWithNode`; daemon pods carry the PreferNoSchedule
    toleration that `isDaemonPodCompatible` adds to them while the overhead groups are built) -/
def dsCounted (d : DaemonSet) (ls : Labels) (taints : List Taint) : Bool :=
  toleratesAll (d.tolerations ++ [pnsToleration]) taints &&
  (labelReqs ls).compatible (podReqs (selectorExprs d.nodeSelector)) []

/-- `NewExistingNode`: what is left on the node for this pass -/
def viewNode (s : Scenario) (n : Node) : Option ExNode :=
  match s.it? n.it with
  | none => none
  | some it =>
    let ls := viewLabels s n
    let taints := viewTaints s n
    let bound := n.pods
    let bCPU := bound.foldl (fun a p => a + p.cpu) 0
    let bMem := bound.foldl (fun a p => a + p.mem) 0
    let daemons := s.daemonsets.filter (fun d => dsCounted d ls taints)
    let bd := bound.filter (·.daemon)
    let rdCPU := max 0 (daemons.foldl (fun a d => a + d.cpu) 0 - bd.foldl (fun a p => a + p.cpu) 0)
    let rdMem := max 0 (daemons.foldl (fun a d => a + d.mem) 0 - bd.foldl (fun a p => a + p.mem) 0)
    let rdPods : Int := max 0 ((daemons.length : Int) - (bd.length : Int))
    some { labels := ls, taints := taints,
           remCPU := it.allocCPU - bCPU - rdCPU, remMem := it.mem - bMem - rdMem,
           remPods := it.pods - (bound.length : Int) - rdPods,
           ports := bound.flatMap (·.hostPorts) }

/-- the scheduler-level pod description of a scenario pod (preferred terms heaviest first, stable) -/
def podSpecOf (p : Pod) : PodSpecM :=
  let prefs := (p.preferred.toArray.insertionSort (fun a b => a.weight > b.weight)).toList
  { cpu := p.cpu, mem := p.mem, tolerations := p.tolerations, ports := p.hostPorts, sel := p.nodeSelector,
    aff := { required := p.required, preferred := prefs.map (·.exprs) } }

end Karp.Sched
namespace Karp.Sched
open Karp.Req Karp.Scn

/-! ### New NodeClaims: `fits` / `compatible` / `filterInstanceTypesByRequirements` -/

structure OfferingM where
  reqs : Reqs
  available : Bool

structure ITM where
  name : String
  reqs : Reqs
  allocCPU : Int
  allocMem : Int
  allocPods : Int
  offerings : List OfferingM     -- one allocatable group (no capacity overrides)

/-- `compatible(it, requirements)` = `it.Requirements.Intersects(requirements) == nil` -/
def itCompatible (it : ITM) (R : Reqs) : Bool := it.reqs.intersects R

/-- `fits(it, requests, requirements)`: (resource fit ∧ some available offering compatible, has some offering) -/
def itFits (it : ITM) (cpu mem pods : Int) (R : Reqs) (wellKnown : List String) : Bool × Bool :=
  let hasOffering := (it.offerings.filter (·.available)).any (fun o => R.compatible o.reqs wellKnown)
  (hasOffering && fits cpu mem pods it.allocCPU it.allocMem it.allocPods, hasOffering)

/-- one daemon-overhead group: the instance types sharing a daemon set, its overhead and the host ports it uses -/
structure Group where
  its : List String
  dCPU : Int
  dMem : Int
  dPods : Int
  ports : List HostPort

/-- `filterInstanceTypesByRequirements` (minValues handled separately): the surviving instance types -/
def filterITs (options : List ITM) (groups : List Group) (R : Reqs) (podPorts : List HostPort)
    (cpu mem pods : Int) (wellKnown : List String) : List ITM :=
  groups.flatMap (fun g =>
    if !portsFree g.ports podPorts then [] else
    (options.filter (fun it => g.its.contains it.name)).filter (fun it =>
      itCompatible it R && (itFits it (cpu + g.dCPU) (mem + g.dMem) (pods + g.dPods) R wellKnown).1))

end Karp.Sched
