/-
Model of the per-candidate admission logic of the scheduler
(`ExistingNode.CanAdd`, `NodeClaim.CanAdd` → `filterInstanceTypesByRequirements` / `fits` / `compatible`,
`newPodRequirements`, `Preferences.Relax`), over the requirement algebra of `Karp.Model.Req`.
Topology and volume-topology enter as an extra requirement set that can only narrow (their own guarantees are C02).
-/
import Karp.Model.Req
import Karp.Spec.Scenario

namespace Karp.Sched
open Karp.Req Karp.Scn

/-! ### Pod requirements (`newPodRequirements`) -/

/-- `Req.new` for operands that cannot panic (the pod was validated: comparison operators carry one value) -/
def newReq (e : KExpr) : Req :=
  match Req.new e.key e.op none e.vals with
  | .ok r => r
  | .error _ => { key := normalizeKey e.key, complement := true, values := [] }

def selectorExprs (sel : Labels) : List KExpr := sel.map (fun (k, v) => { key := k, op := .in_, vals := [v] })

/-- `NewLabelRequirements(nodeSelector)`, then the heaviest preferred term (unless preferences are ignored),
    then the FIRST required term — each added with `Requirements.Add` -/
def podExprs (sel : Labels) (firstTerm : List KExpr) (heaviestPreferred : List KExpr) : List KExpr :=
  selectorExprs sel ++ heaviestPreferred ++ firstTerm

def podReqs (es : List KExpr) : Reqs := Reqs.add [] (es.map newReq)

/-! ### Relaxation (`Preferences.Relax`), node-affinity part -/

structure PodAffinitySpec where
  required : List (List KExpr)
  preferred : List (List KExpr)     -- sorted by weight, heaviest first

/-- `removeRequiredNodeAffinityTerm`: drops the first OR-ed term only while more than one is left -/
def removeRequiredTerm (a : PodAffinitySpec) : Option PodAffinitySpec :=
  match a.required with
  | _ :: t2 :: rest => some { a with required := t2 :: rest }
  | _ => none

/-- `removePreferredNodeAffinityTerm`: drops the heaviest preferred term -/
def removePreferredTerm (a : PodAffinitySpec) : Option PodAffinitySpec :=
  match a.preferred with
  | _ :: rest => some { a with preferred := rest }
  | [] => none

/-- one relaxation step on the node-affinity part, in the order of `Preferences.Relax` -/
def relaxStep (a : PodAffinitySpec) : Option PodAffinitySpec :=
  match removeRequiredTerm a with
  | some a' => some a'
  | none => removePreferredTerm a

/-! ### Existing nodes -/

structure ExNode where
  labels  : Labels                       -- node labels incl. hostname
  taints  : List Taint                   -- `StateNode.Taints()` (ephemeral / startup taints already hidden)
  remCPU  : Int                          -- allocatable − bound pods − pods placed so far − remaining daemon reservation
  remMem  : Int
  remPods : Int
  ports   : List HostPort                -- host ports in use (bound pods + pods placed so far)

structure PodD where
  cpu : Int
  mem : Int
  tolerations : List Toleration
  ports : List HostPort
  exprs : List KExpr                     -- what `podData.Requirements` was built from

/-- `Toleration.ToleratesTaint` -/
def tolerates (tol : Toleration) (t : Taint) : Bool :=
  (tol.effect == "" || tol.effect == t.effect) &&
  (tol.key == "" || tol.key == t.key) &&
  (match tol.operator with
   | "Exists" => true
   | "" => tol.value == t.value
   | "Equal" => tol.value == t.value
   | _ => false)

/-- `Taints.ToleratesPod`: EVERY taint must be tolerated (also `PreferNoSchedule`, until relaxation adds the toleration) -/
def toleratesAll (tols : List Toleration) (taints : List Taint) : Bool :=
  taints.all (fun t => tols.any (fun tol => tolerates tol t))

def wildIP (ip : String) : Bool := ip == "" || ip == "0.0.0.0"
/-- `HostPortUsage.Conflicts` entry test -/
def portConflict (a b : HostPort) : Bool :=
  a.port == b.port && a.proto == b.proto && (wildIP a.ip || wildIP b.ip || a.ip == b.ip)

def portsFree (used new : List HostPort) : Bool := new.all (fun p => !used.any (fun u => portConflict u p))

/-- `resources.Fits(requests, remaining)` on the three tracked resources (a pod consumes one "pods") -/
def fits (cpu mem pods remCPU remMem remPods : Int) : Bool :=
  decide (cpu ≤ remCPU) && decide (mem ≤ remMem) && decide (pods ≤ remPods)

def labelReqs (ls : Labels) : Reqs := Reqs.add [] (ls.map (fun (k, v) => newReq { key := k, op := .in_, vals := [v] }))

/-- `ExistingNode.CanAdd` without topology / volumes: taints, host ports, resources, requirement compatibility
    against the node's (label) requirements with NO undefined keys allowed -/
def existingCanAdd (n : ExNode) (p : PodD) : Bool :=
  toleratesAll p.tolerations n.taints &&
  portsFree n.ports p.ports &&
  fits p.cpu p.mem 1 n.remCPU n.remMem n.remPods &&
  (labelReqs n.labels).compatible (podReqs p.exprs) []

/-- `ExistingNode.Add`: the node's own requirements stay fixed (repaired: they used to absorb the pod's) -/
def existingAdd (n : ExNode) (p : PodD) : ExNode :=
  { n with remCPU := n.remCPU - p.cpu, remMem := n.remMem - p.mem, remPods := n.remPods - 1, ports := n.ports ++ p.ports }

/-! ### New NodeClaims: `fits` / `compatible` / `filterInstanceTypesByRequirements` -/

structure OfferingM where
  reqs : Reqs
  available : Bool

structure ITM where
  name : String
  reqs : Reqs
  allocCPU : Int
  allocMem : Int
  allocPods : Int
  offerings : List OfferingM     -- one allocatable group (no capacity overrides)

/-- `compatible(it, requirements)` = `it.Requirements.Intersects(requirements) == nil` -/
def itCompatible (it : ITM) (R : Reqs) : Bool := it.reqs.intersects R

/-- `fits(it, requests, requirements)`: (resource fit ∧ some available offering compatible, has some offering) -/
def itFits (it : ITM) (cpu mem pods : Int) (R : Reqs) (wellKnown : List String) : Bool × Bool :=
  let hasOffering := (it.offerings.filter (·.available)).any (fun o => R.compatible o.reqs wellKnown)
  (hasOffering && fits cpu mem pods it.allocCPU it.allocMem it.allocPods, hasOffering)

/-- one daemon-overhead group: the instance types sharing a daemon set, its overhead and the host ports it uses -/
structure Group where
  its : List String
  dCPU : Int
  dMem : Int
  dPods : Int
  ports : List HostPort

/-- `filterInstanceTypesByRequirements` (minValues handled separately): the surviving instance types -/
def filterITs (options : List ITM) (groups : List Group) (R : Reqs) (podPorts : List HostPort)
    (cpu mem pods : Int) (wellKnown : List String) : List ITM :=
  groups.flatMap (fun g =>
    if !portsFree g.ports podPorts then [] else
    (options.filter (fun it => g.its.contains it.name)).filter (fun it =>
      itCompatible it R && (itFits it (cpu + g.dCPU) (mem + g.dMem) (pods + g.dPods) R wellKnown).1))

end Karp.Sched
