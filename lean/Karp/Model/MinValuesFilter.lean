/-
Model of the two places where a NodePool's `minValues` (on the instance-type key) decides whether the pool is a
candidate for a pod that needs a new node (C19)
(pkg/controllers/provisioning/scheduling/scheduler.go, nodeclaim.go):

    filterInstanceTypesByRequirements(its, reqs, pod, …, relaxMinValues):
        remaining := the instance types that are compatible, fit and have an offering
        if reqs.HasMinValues() && remaining does not satisfy them { if !relaxMinValues { remaining = nil } }
        if len(remaining) == 0 { return nil, …, err }
    NewScheduler (once per pass, no pod):
        templates := FilterMap(nodePools, np => nct.InstanceTypeOptions = filter(its[np], nct.Requirements, emptyPod, …,
                                                   minValuesPolicy == BestEffort); keep iff len(options) > 0)
    addToNewNodeClaim → NodeClaim.CanAdd (per pod and kept template):
        filter(nct.InstanceTypeOptions, template ∧ pod requirements, pod, …, minValuesPolicy == BestEffort)

Both sites relax under the SAME condition (pinned by a regenerated fact).  For the instance-type key "satisfies
minValues n" is "at least n distinct instance types remain", so the filter's verdict is a function of how many types
remain.  Core Lean only.
-/
namespace Karp.MinValuesFilter

/-- `filterInstanceTypesByRequirements` returns a non-empty list: `n` types are compatible, fit and have an offering;
    `minValues` = the requirement's minValues (0 = none) -/
def filterKeeps (relax : Bool) (minValues n : Nat) : Bool :=
  decide (0 < n) && (relax || decide (minValues ≤ n))

/-- `NewScheduler`: the NodePool becomes a template (`nPool` = what its own requirements leave of its catalog);
    `relaxAtPool` = the relaxMinValues argument of that call -/
def templateKept (relaxAtPool : Bool) (minValues nPool : Nat) : Bool := filterKeeps relaxAtPool minValues nPool

/-- the pod's evaluation of the pool succeeds as far as instance types go: the template exists and `CanAdd`'s filter
    (`nPod` = what template ∧ pod requirements and the pod's requests leave) keeps something -/
def poolOffers (bestEffort : Bool) (minValues nPool nPod : Nat) : Bool :=
  templateKept bestEffort minValues nPool && filterKeeps bestEffort minValues nPod

end Karp.MinValuesFilter
