/-
C11, extensions of the cluster-state model (kept apart from `ClusterState.lean` so that the refinement proofs over single
events apply unchanged):

* `Cluster.MarkForDeletion(providerIDs...)` / `UnmarkForDeletion(providerIDs...)` with SEVERAL provider ids (one call of a
  multi-node disruption command): a fold of the single-id functions — an id the cache does not track is skipped, the
  remaining ids are still processed.
* a Pod reconcile during which the volume lookup (`scheduling.GetVolumes`, the only fallible step of
  `StateNode.updateForPod`) fails: `updateForPod` performs every fallible lookup BEFORE it writes anything
  (`Gen.ClusterStateFacts.updateForPodCalls`, `fact_volume_lookup_before_writes`), `updateNodeUsageFromPod` returns the error
  before `cleanupOldBindings` / the binding is recorded: the cache is unchanged and the key is retried.
* the per-DaemonSet pod cache (`Cluster.UpdateDaemonSet` / `DeleteDaemonSet` / `GetDaemonSetPod`), which is independent of
  the rest of the cluster state (a `sync.Map` touched by these three functions only).
-/
import Karp.Model.ClusterState

namespace Karp.ClusterState

/-! ## Several provider ids in one call -/

/-- `MarkForDeletion(providerIDs...)` -/
def Cluster.markMany (c : Cluster) (pids : List String) : Cluster := pids.foldl Cluster.markForDeletion c

/-- `UnmarkForDeletion(providerIDs...)` -/
def Cluster.unmarkMany (c : Cluster) (pids : List String) : Cluster := pids.foldl Cluster.unmarkForDeletion c

/-! ## A Pod reconcile whose volume lookup fails -/

/-- `UpdatePod(pod)` reaches `n.updateForPod` (and with it the volume lookup): the pod is not terminal, bound, and its node
    is tracked -/
def Cluster.lookupReached (c : Cluster) (p : PodObj) : Bool :=
  !p.terminal && p.node ≠ "" && (c.nodeByName p.node).isSome

/-- the lookup reads a PersistentVolume / StorageClass only for the pod's PVCs that exist (`p.vols`, resolved) -/
def Cluster.lookupFails (c : Cluster) (api : Api) (name : String) : Bool :=
  match api.pods.get name with
  | none => false
  | some p => c.lookupReached p && !p.vols.isEmpty

/-- the Pod controller's reconcile while PersistentVolume / StorageClass reads fail; `true` = it returned the error -/
def Cluster.recPodFaulty (fx : Fixes) (c : Cluster) (api : Api) (name : String) : M ((Cluster × RecResult) × Bool) :=
  if c.lookupFails api name then .ok ((c, .none), true)
  else match c.step fx api (.recPod name) with
    | .ok r => .ok (r, false)
    | .error e => .error e

/-! ## The DaemonSet pod cache -/

structure DsObj where
  name : String
  uid : String
deriving Repr, DecidableEq

structure DPod where
  name : String
  uid : String
  /-- version of the object (an in-place update keeps `uid` and `ct`) -/
  ver : Nat
  /-- creationTimestamp (seconds) -/
  ct : Nat
  /-- UID of the controlling owner reference, "" = none -/
  own : String
  cpu : Int
  tol : Nat
deriving Repr, DecidableEq

structure DsApi where
  dss : Map DsObj := []
  pods : Map DPod := []
deriving Repr

inductive DsEvent
  | setDs (d : DsObj)
  | delDs (name : String)
  | setPod (p : DPod)
  | delPod (name : String)
  /-- the DaemonSet informer controller reconciles the key (on create, then polled every minute) -/
  | recDs (name : String)
deriving Repr

def DsEvent.isApi : DsEvent → Bool
  | .recDs _ => false
  | _ => true

def DsApi.step (a : DsApi) : DsEvent → DsApi
  | .setDs d => { a with dss := a.dss.put d.name d }
  | .delDs k => { a with dss := a.dss.erase k }
  | .setPod p => { a with pods := a.pods.put p.name p }
  | .delPod k => { a with pods := a.pods.erase k }
  | .recDs _ => a

/-- `metav1.IsControlledBy(pod, daemonset)`: the controller reference carries the DaemonSet's UID -/
def controlledBy (d : DsObj) (p : DPod) : Bool := p.own ≠ "" && p.own = d.uid

/-- the loop of `UpdateDaemonSet` over the pods as listed: a controlled pod replaces the kept one when its creation time is
    strictly later -/
def pickNewest (d : DsObj) : Option DPod → List DPod → Option DPod
  | acc, [] => acc
  | acc, p :: ps =>
    if controlledBy d p && (match acc with | none => true | some a => decide (a.ct < p.ct)) then pickNewest d (some p) ps
    else pickNewest d acc ps

abbrev DsCache := Map DPod

/-- `UpdateDaemonSet`; `forget` = the proposed repair (drop the entry when the DaemonSet controls no pod any more);
    `listed` = the namespace's pods in the order the List call returned them (unspecified) -/
def DsCache.update (forget : Bool) (cache : DsCache) (d : DsObj) (listed : List DPod) : DsCache :=
  match pickNewest d none listed with
  | some p => cache.put d.name p
  | none => if forget then cache.erase d.name else cache

/-- `DaemonSetController.Reconcile(name)` -/
def DsCache.recDs (forget : Bool) (cache : DsCache) (api : DsApi) (listed : List DPod) (name : String) : DsCache :=
  match api.dss.get name with
  | none => cache.erase name
  | some d => cache.update forget d listed

/-- the switch is read off the source: does `UpdateDaemonSet` ever delete from `daemonSetPods` -/
def dsForgetCurrent : Bool := Karp.Gen.ClusterStateFacts.updateDaemonSetCalls.contains "Delete"

/-- every order in which the List call may return the pods matters only through which pod comes first among equals: the
    candidate orders `p :: (rest)` for every pod `p`, plus the stored order -/
def listOrders (pods : List DPod) : List (List DPod) :=
  pods :: pods.map (fun p => p :: pods.filter (· ≠ p))

/-- the outcomes the model allows for the entry of `name` after a reconcile -/
def recDsAllowed (forget : Bool) (cache : DsCache) (api : DsApi) (name : String) (out : Option DPod) : Bool :=
  (listOrders api.pods.vals).any (fun l => decide ((cache.recDs forget api l name).get name = out))

end Karp.ClusterState
