/-
Model of `parallelizeUntil` and of the publication protocol inside `Scheduler.addToNewNodeClaim`
(pkg/controllers/provisioning/scheduling/scheduler.go):

    toProcess := buffered channel holding 0,1,…,pieces-1 (ascending), closed
    workers   := min(workers, pieces) goroutines, each:
                   for work := range toProcess { if !doWorkPiece(work) { return } }
    doWorkPiece(i) (addToNewNodeClaim):
        evaluate template i            -- no lock; reads only state that is fixed during the call
        failure            -> return true               (keep going)
        reserved-offering  -> lock; if i >= idx {return false}; claim = nil; idx = i; return false
        success            -> lock; if i >= idx {return false}; claim = i;   idx = i; return false

The scheduler is the interleaving of the workers' atomic steps; a schedule is the list of worker ids
that move next.  An evaluation touches no shared mutable state, so "finish piece `i`" (evaluate, then
publish under the mutex) is one atomic step; dequeuing from the channel is another.
Core Lean only.
-/
namespace Karp.FirstSuccess

/-- outcome of evaluating one template for the pod (`NodeClaim.CanAdd` on a fresh claim) -/
inductive Outcome | fail | ok | reserved
deriving Repr, DecidableEq

/-- a worker goroutine: waiting at the channel, evaluating piece `i`, or returned -/
inductive W | idle | busy (i : Nat) | done
deriving Repr, DecidableEq

structure St where
  /-- next index the channel will hand out (it holds `next, …, pieces-1`) -/
  next    : Nat
  workers : List W
  /-- `idx` (`none` = `math.MaxInt`) -/
  idx     : Option Nat
  /-- `newNodeClaim`: the template index of the published claim, `none` = nil -/
  claim   : Option Nat
deriving Repr, DecidableEq

/-- `numConcurrentReconciles: lo.Ternary(n > 0, n, 1)` in `NewScheduler` -/
def effectiveWorkers (n : Int) : Nat := if 0 < n then n.toNat else 1

/-- state on entry: `if pieces < workers { workers = pieces }` -/
def init (workers : Nat) (outcomes : List Outcome) : St :=
  { next := 0, workers := List.replicate (min workers outcomes.length) W.idle, idx := none, claim := none }

/-- `if i >= idx { return false }` -/
def rejects (idx : Option Nat) (i : Nat) : Bool :=
  match idx with
  | none => false
  | some j => decide (j ≤ i)

/-- worker `w` finishes the piece it holds -/
def finish (outcomes : List Outcome) (s : St) (w i : Nat) : St :=
  match outcomes.getD i .fail with
  | .fail => { s with workers := s.workers.set w .idle }
  | .ok =>
    if rejects s.idx i then { s with workers := s.workers.set w .done }
    else { s with workers := s.workers.set w .done, idx := some i, claim := some i }
  | .reserved =>
    if rejects s.idx i then { s with workers := s.workers.set w .done }
    else { s with workers := s.workers.set w .done, idx := some i, claim := none }

/-- one atomic step of worker `w` (a worker id out of range, or a returned worker, stutters) -/
def step (outcomes : List Outcome) (s : St) (w : Nat) : St :=
  match s.workers[w]? with
  | none => s
  | some .done => s
  | some (.busy i) => finish outcomes s w i
  | some .idle =>
    if s.next < outcomes.length then { s with next := s.next + 1, workers := s.workers.set w (.busy s.next) }
    else { s with workers := s.workers.set w .done }   -- channel closed and drained: the range loop ends

def run (outcomes : List Outcome) (s : St) : List Nat → St
  | [] => s
  | w :: ws => run outcomes (step outcomes s w) ws

/-- `wg.Wait()` returns -/
def allDone (s : St) : Bool := s.workers.all (· == W.done)

/-- what `addToNewNodeClaim` does after `parallelizeUntil` returned: the pod opens a claim from template
    `i` (`some i`), or the call fails (`none`) -/
def result (s : St) : Option Nat := s.claim

/-- the sequential reference: walk the templates in order, stop at the first that is not a plain failure -/
def firstDecisive : List Outcome → Option (Nat × Outcome)
  | [] => none
  | .fail :: os => (firstDecisive os).map (fun (i, o) => (i + 1, o))
  | o :: _ => some (0, o)

def sequentialResult (outcomes : List Outcome) : Option Nat :=
  match firstDecisive outcomes with
  | some (i, .ok) => some i
  | _ => none

/-- which prefixes `0..k-1` of the pieces can have been evaluated when `parallelizeUntil` returns
    (`stops` = the pieces whose evaluation returns false): the channel hands pieces out in order; a worker
    leaves only after a stopping piece or when the channel is drained.  So either everything was handed out, or
    every one of the `min workers pieces` workers met exactly one stopping piece. -/
def allowedEvaluated (workers : Nat) (stops : List Bool) (k : Nat) : Bool :=
  let w := min workers stops.length
  let met := ((stops.take k).filter id).length
  decide (k ≤ stops.length) && decide (met ≤ w) &&
  (if w = 0 then k == 0 else (k == stops.length || met == w)) &&
  -- the last evaluated piece of an early exit is a stopping piece
  (k == stops.length || k == 0 || stops.getD (k - 1) false)

def W.isBusy : W → Bool
  | .busy _ => true
  | _ => false

def W.notDone : W → Bool
  | .done => false
  | _ => true

/-- progress measure: every non-stuttering step decreases it -/
def progressMeasure (outcomes : List Outcome) (s : St) : Nat :=
  2 * (outcomes.length - s.next)
  + (s.workers.filter W.isBusy).length
  + 2 * (s.workers.filter W.notDone).length

end Karp.FirstSuccess
