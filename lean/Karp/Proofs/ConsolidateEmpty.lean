/-
Lemmas about the validation of an Emptiness command (C06): `mapCandidates`, the budget / nomination filter and
`emptinessValidate` of `Karp/Model/Consolidate.lean`.  Core Lean only.
-/
import Karp.Model.Consolidate

namespace Karp.Consolidate

theorem mapCandidates_mem (proposed current : List String) (n : String) :
    n ∈ mapCandidates proposed current ↔ n ∈ current ∧ n ∈ proposed := by
  unfold mapCandidates
  simp [List.mem_filter]

variable (poolOf : String → String) (nominated : String → Bool)

theorem budgetFilter_cons_nominated (b : List (String × Nat)) (x : String) (xs : List String) (h : nominated x = true) :
    budgetFilter poolOf nominated b (x :: xs) = budgetFilter poolOf nominated b xs := by
  simp [budgetFilter, h]

theorem budgetFilter_cons_zero (b : List (String × Nat)) (x : String) (xs : List String) (h : nominated x = false)
    (h0 : (b.lookup (poolOf x)).getD 0 = 0) :
    budgetFilter poolOf nominated b (x :: xs) = budgetFilter poolOf nominated b xs := by
  simp [budgetFilter, h, h0]

theorem budgetFilter_cons_succ (b : List (String × Nat)) (x : String) (xs : List String) (k : Nat) (h : nominated x = false)
    (hk : (b.lookup (poolOf x)).getD 0 = k + 1) :
    budgetFilter poolOf nominated b (x :: xs) = x :: budgetFilter poolOf nominated ((poolOf x, k) :: b) xs := by
  simp [budgetFilter, h, hk]

/-- the budget / nomination filter only drops candidates, and drops every nominated one -/
theorem budgetFilter_mem :
    ∀ (l : List String) (b : List (String × Nat)) (n : String),
      n ∈ budgetFilter poolOf nominated b l → n ∈ l ∧ nominated n = false := by
  intro l
  induction l with
  | nil => intro b n h; simp [budgetFilter] at h
  | cons x xs ih =>
    intro b n h
    cases hx : nominated x with
    | true =>
      rw [budgetFilter_cons_nominated poolOf nominated b x xs hx] at h
      have := ih b n h
      exact ⟨List.mem_cons_of_mem _ this.1, this.2⟩
    | false =>
      cases hk : (b.lookup (poolOf x)).getD 0 with
      | zero =>
        rw [budgetFilter_cons_zero poolOf nominated b x xs hx hk] at h
        have := ih b n h
        exact ⟨List.mem_cons_of_mem _ this.1, this.2⟩
      | succ k =>
        rw [budgetFilter_cons_succ poolOf nominated b x xs k hx hk] at h
        rcases List.mem_cons.mp h with rfl | h'
        · exact ⟨List.mem_cons_self, hx⟩
        · have := ih _ n h'
          exact ⟨List.mem_cons_of_mem _ this.1, this.2⟩

theorem lookup_cons_self (b : List (String × Nat)) (q : String) (k : Nat) : (((q, k) :: b).lookup q).getD 0 = k := by
  simp

theorem lookup_cons_ne (b : List (String × Nat)) (p q : String) (k : Nat) (h : p ≠ q) :
    (((q, k) :: b).lookup p).getD 0 = (b.lookup p).getD 0 := by
  have : (p == q) = false := by simpa using h
  simp [List.lookup_cons, this]

/-- a kept candidate uses up one disruption of its pool: no pool loses more candidates than its budget allows -/
theorem budgetFilter_budget :
    ∀ (l : List String) (b : List (String × Nat)) (p : String),
      ((budgetFilter poolOf nominated b l).filter (fun n => poolOf n == p)).length ≤ (b.lookup p).getD 0 := by
  intro l
  induction l with
  | nil => intro b p; simp [budgetFilter]
  | cons x xs ih =>
    intro b p
    cases hx : nominated x with
    | true => rw [budgetFilter_cons_nominated poolOf nominated b x xs hx]; exact ih b p
    | false =>
      cases hk : (b.lookup (poolOf x)).getD 0 with
      | zero => rw [budgetFilter_cons_zero poolOf nominated b x xs hx hk]; exact ih b p
      | succ k =>
        rw [budgetFilter_cons_succ poolOf nominated b x xs k hx hk]
        have hrec := ih ((poolOf x, k) :: b) p
        by_cases hp : p = poolOf x
        · subst hp
          rw [lookup_cons_self] at hrec
          simp only [List.filter_cons, beq_self_eq_true, if_true, List.length_cons, hk]
          omega
        · rw [lookup_cons_ne b p (poolOf x) k hp] at hrec
          have : (poolOf x == p) = false := by
            simp only [beq_eq_false_iff_ne, ne_eq]; exact fun h => hp h.symm
          simp only [List.filter_cons, this, Bool.false_eq_true, if_false]
          exact hrec

/-- where no budget binds the filter drops the nominated candidates only -/
theorem budgetFilter_exact :
    ∀ (l : List String) (b : List (String × Nat)),
      (∀ p, (l.filter (fun n => !nominated n && poolOf n == p)).length ≤ (b.lookup p).getD 0) →
      budgetFilter poolOf nominated b l = l.filter (fun n => !nominated n) := by
  intro l
  induction l with
  | nil => intro b _; simp [budgetFilter]
  | cons x xs ih =>
    intro b h
    cases hx : nominated x with
    | true =>
      rw [budgetFilter_cons_nominated poolOf nominated b x xs hx]
      simp only [List.filter_cons, hx, Bool.not_true, Bool.false_eq_true, if_false]
      apply ih
      intro p
      have := h p
      simpa [List.filter_cons, hx] using this
    | false =>
      have hq := h (poolOf x)
      simp only [List.filter_cons, hx, Bool.not_false, Bool.true_and, beq_self_eq_true, if_true, List.length_cons] at hq
      cases hk : (b.lookup (poolOf x)).getD 0 with
      | zero => rw [hk] at hq; omega
      | succ k =>
        rw [budgetFilter_cons_succ poolOf nominated b x xs k hx hk]
        simp only [List.filter_cons, hx, Bool.not_false, if_true]
        congr 1
        apply ih
        intro p
        by_cases hp : p = poolOf x
        · subst hp
          rw [lookup_cons_self]
          rw [hk] at hq
          omega
        · rw [lookup_cons_ne b p (poolOf x) k hp]
          have := h p
          have hp' : (poolOf x == p) = false := by
            simp only [beq_eq_false_iff_ne, ne_eq]; exact fun h' => hp h'.symm
          simp only [List.filter_cons, hx, Bool.not_false, Bool.true_and, hp', Bool.false_eq_true, if_false] at this
          exact this

/-- what validation of an Emptiness command lets through -/
theorem emptinessValidate_some (poolOf : String → String) (nominated : String → Bool) (budgets : List (String × Nat))
    (cmd current rel : List String) (h : emptinessValidate poolOf nominated budgets cmd current = some rel) :
    rel ≠ [] ∧ rel = budgetFilter poolOf nominated budgets (mapCandidates cmd current) := by
  unfold emptinessValidate at h
  simp only at h
  split at h
  · cases h
  · split at h
    · cases h
    · rename_i hne
      injection h with h
      subst h
      refine ⟨?_, rfl⟩
      intro he
      rw [he] at hne
      exact hne rfl

end Karp.Consolidate
