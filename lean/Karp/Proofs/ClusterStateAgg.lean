/-
C11 helper lemmas: the per-pod aggregates of a StateNode (requests, limits, daemonset requests, disruption costs, host
ports, volume usage) are the image of one table of pods, whatever sequence of `updateForPod` / `cleanupForPod` produced them.
-/
import Karp.Proofs.ClusterStateGhost

namespace Karp.ClusterState

/-! ### volume sets -/

theorem volUnion_aux (b : List Vol) : ∀ a : List Vol, a.Nodup →
    (volUnion a b).Nodup ∧ ∀ v, v ∈ volUnion a b ↔ v ∈ a ∨ v ∈ b := by
  unfold volUnion
  induction b with
  | nil => intro a h; exact ⟨h, fun v => by simp⟩
  | cons x b ih =>
    intro a h
    simp only [List.foldl_cons]
    by_cases hc : a.contains x = true
    · rw [if_pos hc]
      refine ⟨(ih a h).1, fun v => ?_⟩
      rw [(ih a h).2 v]
      constructor
      · intro hx
        rcases hx with hx | hx
        · exact Or.inl hx
        · exact Or.inr (List.mem_cons_of_mem _ hx)
      · intro hx
        rcases hx with hx | hx
        · exact Or.inl hx
        · rcases List.mem_cons.mp hx with hx | hx
          · left; rw [hx]; exact List.contains_iff_mem.mp hc
          · exact Or.inr hx
    · rw [if_neg hc]
      have hna : x ∉ a := fun hm => hc (List.contains_iff_mem.mpr hm)
      have h' : (a ++ [x]).Nodup := by
        rw [List.nodup_append]
        refine ⟨h, by simp, ?_⟩
        intro y hy z hz
        simp at hz
        rw [hz]; intro e; exact hna (e ▸ hy)
      refine ⟨(ih _ h').1, fun v => ?_⟩
      rw [(ih _ h').2 v]
      simp only [List.mem_append, List.mem_cons, List.not_mem_nil, or_false]
      constructor
      · intro hx
        rcases hx with (hx | hx) | hx
        · exact Or.inl hx
        · exact Or.inr (Or.inl hx)
        · exact Or.inr (Or.inr hx)
      · intro hx
        rcases hx with hx | hx | hx
        · exact Or.inl (Or.inl hx)
        · exact Or.inl (Or.inr hx)
        · exact Or.inr hx

theorem mem_volUnion (a b : List Vol) (ha : a.Nodup) (v : Vol) : v ∈ volUnion a b ↔ v ∈ a ∨ v ∈ b := (volUnion_aux b a ha).2 v
theorem nodup_volUnion (a b : List Vol) (ha : a.Nodup) : (volUnion a b).Nodup := (volUnion_aux b a ha).1

theorem volUnionAll_aux (ls : List (List Vol)) : ∀ acc : List Vol, acc.Nodup →
    (ls.foldl volUnion acc).Nodup ∧ ∀ v, v ∈ ls.foldl volUnion acc ↔ v ∈ acc ∨ ∃ l ∈ ls, v ∈ l := by
  induction ls with
  | nil => intro acc h; exact ⟨h, fun v => by simp⟩
  | cons l ls ih =>
    intro acc h
    simp only [List.foldl_cons]
    have h' := nodup_volUnion acc l h
    refine ⟨(ih _ h').1, fun v => ?_⟩
    rw [(ih _ h').2 v, mem_volUnion acc l h]
    constructor
    · intro hx
      rcases hx with (hx | hx) | ⟨l', hl', hv⟩
      · exact Or.inl hx
      · exact Or.inr ⟨l, List.mem_cons_self, hx⟩
      · exact Or.inr ⟨l', List.mem_cons_of_mem _ hl', hv⟩
    · intro hx
      rcases hx with hx | ⟨l', hl', hv⟩
      · exact Or.inl (Or.inl hx)
      · rcases List.mem_cons.mp hl' with e | hl'
        · exact Or.inl (Or.inr (e ▸ hv))
        · exact Or.inr ⟨l', hl', hv⟩

/-- the union of all values of a map of volume lists -/
theorem mem_volUnionAll (m : Map (List Vol)) (hn : Map.NoDup m) (v : Vol) :
    v ∈ (Map.vals m).foldl volUnion [] ↔ ∃ k l, Map.get m k = some l ∧ v ∈ l := by
  rw [(volUnionAll_aux (Map.vals m) [] List.nodup_nil).2 v]
  constructor
  · intro h
    rcases h with h | ⟨l, hl, hv⟩
    · simp at h
    · unfold Map.vals at hl
      rw [List.mem_map] at hl
      obtain ⟨e, he, hel⟩ := hl
      exact ⟨e.1, l, by rw [← hel]; exact Map.get_of_mem hn he, hv⟩
  · intro ⟨k, l, hg, hv⟩
    right
    refine ⟨l, ?_, hv⟩
    unfold Map.vals
    rw [List.mem_map]
    exact ⟨(k, l), Map.mem_of_get hg, rfl⟩

theorem nodup_volUnionAll (m : Map (List Vol)) : ((Map.vals m).foldl volUnion []).Nodup :=
  (volUnionAll_aux (Map.vals m) [] List.nodup_nil).1

/-! ### the aggregates as images of one pod table -/

def dsReqOf (p : PodObj) : Option Res := if p.ds then some p.req else none
def dsLimOf (p : PodObj) : Option Res := if p.ds then some p.lim else none
def costOf (p : PodObj) : Option Int := if !p.ds && decide (p.cost > 0) then some p.cost else none

/-- `R` is the table of the pods accounted on the state node `s` -/
structure Agg (s : SNode) (R : Map PodObj) : Prop where
  req : ∀ k, Map.get s.podReq k = (Map.get R k).map (·.req)
  lim : ∀ k, Map.get s.podLim k = (Map.get R k).map (·.lim)
  dreq : ∀ k, Map.get s.dsReq k = (Map.get R k).bind dsReqOf
  dlim : ∀ k, Map.get s.dsLim k = (Map.get R k).bind dsLimOf
  cost : ∀ k, Map.get s.costs k = (Map.get R k).bind costOf
  ports : ∀ k, Map.get s.ports k = (Map.get R k).map (·.ports)
  vols : ∀ k, Map.get s.volPods k = (Map.get R k).map (·.vols)
  ndReq : Map.NoDup s.podReq
  ndLim : Map.NoDup s.podLim
  ndDReq : Map.NoDup s.dsReq
  ndDLim : Map.NoDup s.dsLim
  ndCost : Map.NoDup s.costs
  ndPorts : Map.NoDup s.ports
  ndVols : Map.NoDup s.volPods
  ndVolumes : s.volumes.Nodup
  /-- the union never under-reports -/
  volSup : ∀ v k p, Map.get R k = some p → v ∈ p.vols → v ∈ s.volumes

/-- … and the union holds nothing else (what `VolumeUsage.Add` breaks, see the witness in `Props/C11.lean`) -/
def VolExact (s : SNode) (R : Map PodObj) : Prop := ∀ v, v ∈ s.volumes → ∃ k p, Map.get R k = some p ∧ v ∈ p.vols

theorem agg_new : Agg SNode.new [] ∧ VolExact SNode.new [] := by
  refine ⟨⟨fun _ => rfl, fun _ => rfl, fun _ => rfl, fun _ => rfl, fun _ => rfl, fun _ => rfl, fun _ => rfl,
    Map.noDup_nil, Map.noDup_nil, Map.noDup_nil, Map.noDup_nil, Map.noDup_nil, Map.noDup_nil, Map.noDup_nil, List.nodup_nil, ?_⟩, ?_⟩
  · intro v k p h; simp at h
  · intro v h; simp [SNode.new] at h

theorem get_put_map {α β : Type} (m : Map α) (R : Map PodObj) (f : PodObj → β) (g : α → β) (k : String) (p : PodObj) (a : α)
    (hfa : g a = f p) (h : ∀ k', (Map.get m k').map g = (Map.get R k').map f) :
    ∀ k', (Map.get (Map.put m k a) k').map g = (Map.get (Map.put R k p) k').map f := by
  intro k'
  rw [Map.get_put, Map.get_put]
  by_cases hk : k' = k
  · simp [hk, hfa]
  · simp [hk, h k']

theorem agg_updateForPod (fx : Fixes) (s : SNode) (R : Map PodObj) (p : PodObj) (h : Agg s R)
    (hds : ∀ p0, Map.get R p.name = some p0 → p0.ds = p.ds) :
    Agg (s.updateForPod fx p) (Map.put R p.name p) := by
  have hget : ∀ k', Map.get (Map.put R p.name p) k' = if k' = p.name then some p else Map.get R k' := fun k' => Map.get_put _ _ _ _
  have hvp : (s.updateForPod fx p).volPods = Map.put s.volPods p.name p.vols := rfl
  have hvol : (s.updateForPod fx p).volumes =
      if fx.volRebuild = true then (Map.vals (Map.put s.volPods p.name p.vols)).foldl volUnion [] else volUnion s.volumes p.vols := rfl
  refine ⟨?_, ?_, ?_, ?_, ?_, ?_, ?_, ?_, ?_, ?_, ?_, ?_, ?_, ?_, ?_, ?_⟩
  · intro k; show Map.get (Map.put s.podReq p.name p.req) k = _
    rw [Map.get_put, hget]; by_cases hk : k = p.name <;> simp [hk, h.req k]
  · intro k; show Map.get (Map.put s.podLim p.name p.lim) k = _
    rw [Map.get_put, hget]; by_cases hk : k = p.name <;> simp [hk, h.lim k]
  · intro k
    show Map.get (if p.ds = true then Map.put s.dsReq p.name p.req else s.dsReq) k = _
    rw [hget]
    by_cases hd : p.ds = true
    · rw [if_pos hd, Map.get_put]; by_cases hk : k = p.name <;> simp [hk, h.dreq k, dsReqOf, hd]
    · rw [if_neg hd]
      by_cases hk : k = p.name
      · rw [if_pos hk, hk, h.dreq p.name]
        cases hg : Map.get R p.name with
        | none => simp [dsReqOf, hd]
        | some p0 => simp [dsReqOf, hd, hds p0 hg]
      · rw [if_neg hk]; exact h.dreq k
  · intro k
    show Map.get (if p.ds = true then Map.put s.dsLim p.name p.lim else s.dsLim) k = _
    rw [hget]
    by_cases hd : p.ds = true
    · rw [if_pos hd, Map.get_put]; by_cases hk : k = p.name <;> simp [hk, h.dlim k, dsLimOf, hd]
    · rw [if_neg hd]
      by_cases hk : k = p.name
      · rw [if_pos hk, hk, h.dlim p.name]
        cases hg : Map.get R p.name with
        | none => simp [dsLimOf, hd]
        | some p0 => simp [dsLimOf, hd, hds p0 hg]
      · rw [if_neg hk]; exact h.dlim k
  · intro k
    show Map.get (if p.ds = true then s.costs else (if p.cost > 0 then Map.put s.costs p.name p.cost else Map.erase s.costs p.name)) k = _
    rw [hget]
    by_cases hd : p.ds = true
    · rw [if_pos hd]
      by_cases hk : k = p.name
      · rw [if_pos hk, hk, h.cost p.name]
        cases hg : Map.get R p.name with
        | none => simp [costOf, hd]
        | some p0 => simp [costOf, hd, hds p0 hg]
      · rw [if_neg hk]; exact h.cost k
    · rw [if_neg hd]
      by_cases hc : p.cost > 0
      · rw [if_pos hc, Map.get_put]; by_cases hk : k = p.name <;> simp [hk, h.cost k, costOf, hd, hc]
      · rw [if_neg hc, Map.get_erase]; by_cases hk : k = p.name <;> simp [hk, h.cost k, costOf, hd, hc]
  · intro k; show Map.get (Map.put s.ports p.name p.ports) k = _
    rw [Map.get_put, hget]; by_cases hk : k = p.name <;> simp [hk, h.ports k]
  · intro k; rw [hvp, Map.get_put, hget]; by_cases hk : k = p.name <;> simp [hk, h.vols k]
  · exact Map.noDup_put h.ndReq _ _
  · exact Map.noDup_put h.ndLim _ _
  · show Map.NoDup (if p.ds = true then Map.put s.dsReq p.name p.req else s.dsReq)
    split
    · exact Map.noDup_put h.ndDReq _ _
    · exact h.ndDReq
  · show Map.NoDup (if p.ds = true then Map.put s.dsLim p.name p.lim else s.dsLim)
    split
    · exact Map.noDup_put h.ndDLim _ _
    · exact h.ndDLim
  · show Map.NoDup (if p.ds = true then s.costs else (if p.cost > 0 then Map.put s.costs p.name p.cost else Map.erase s.costs p.name))
    split
    · exact h.ndCost
    · split
      · exact Map.noDup_put h.ndCost _ _
      · exact Map.noDup_erase h.ndCost _
  · exact Map.noDup_put h.ndPorts _ _
  · rw [hvp]; exact Map.noDup_put h.ndVols _ _
  · rw [hvol]
    split
    · exact nodup_volUnionAll _
    · exact nodup_volUnion _ _ h.ndVolumes
  · intro v k q hq hv
    rw [hget] at hq
    rw [hvol]
    by_cases hf : fx.volRebuild = true
    · rw [if_pos hf, mem_volUnionAll _ (Map.noDup_put h.ndVols _ _)]
      refine ⟨k, q.vols, ?_, hv⟩
      rw [Map.get_put]
      by_cases hk : k = p.name
      · rw [if_pos hk] at hq ⊢; rw [Option.some.inj hq]
      · rw [if_neg hk] at hq ⊢; rw [h.vols k, hq]; rfl
    · rw [if_neg hf, mem_volUnion _ _ h.ndVolumes]
      by_cases hk : k = p.name
      · rw [if_pos hk] at hq; right; rw [Option.some.inj hq]; exact hv
      · rw [if_neg hk] at hq; left; exact h.volSup v k q hq hv

/-- with the repaired `VolumeUsage.Add` the union stays exact -/
theorem volExact_updateForPod (fx : Fixes) (s : SNode) (R : Map PodObj) (p : PodObj) (h : Agg s R) (hf : fx.volRebuild = true) :
    VolExact (s.updateForPod fx p) (Map.put R p.name p) := by
  intro v hv
  have hvol : (s.updateForPod fx p).volumes =
      if fx.volRebuild = true then (Map.vals (Map.put s.volPods p.name p.vols)).foldl volUnion [] else volUnion s.volumes p.vols := rfl
  rw [hvol, if_pos hf, mem_volUnionAll _ (Map.noDup_put h.ndVols _ _)] at hv
  obtain ⟨k, l, hg, hvl⟩ := hv
  rw [Map.get_put] at hg
  by_cases hk : k = p.name
  · rw [if_pos hk] at hg
    exact ⟨p.name, p, Map.get_put_self _ _ _, by rw [Option.some.inj hg]; exact hvl⟩
  · rw [if_neg hk, h.vols k] at hg
    cases hr : Map.get R k with
    | none => rw [hr] at hg; simp at hg
    | some q =>
      rw [hr] at hg
      refine ⟨k, q, by rw [Map.get_put, if_neg hk]; exact hr, ?_⟩
      simp only [Option.map_some, Option.some.injEq] at hg
      rw [hg]; exact hvl

/-- `cleanupForPod` removes the pod from the table; `VolumeUsage.DeletePod` recomputes the union, so it is exact afterwards
    whatever it was before -/
theorem agg_cleanupForPod (s : SNode) (R : Map PodObj) (k0 : String) (h : Agg s R) :
    Agg (s.cleanupForPod k0) (Map.erase R k0) ∧ VolExact (s.cleanupForPod k0) (Map.erase R k0) := by
  have hget : ∀ k', Map.get (Map.erase R k0) k' = if k' = k0 then none else Map.get R k' := fun k' => Map.get_erase _ _ _
  have hvp : (s.cleanupForPod k0).volPods = Map.erase s.volPods k0 := rfl
  have hvol : (s.cleanupForPod k0).volumes = (Map.vals (Map.erase s.volPods k0)).foldl volUnion [] := rfl
  have hmem : ∀ v, v ∈ (s.cleanupForPod k0).volumes ↔ ∃ k p, Map.get (Map.erase R k0) k = some p ∧ v ∈ p.vols := by
    intro v
    rw [hvol, mem_volUnionAll _ (Map.noDup_erase h.ndVols _)]
    constructor
    · intro ⟨k, l, hg, hv⟩
      rw [Map.get_erase] at hg
      by_cases hk : k = k0
      · rw [if_pos hk] at hg; simp at hg
      · rw [if_neg hk, h.vols k] at hg
        cases hr : Map.get R k with
        | none => rw [hr] at hg; simp at hg
        | some q =>
          rw [hr] at hg
          simp only [Option.map_some, Option.some.injEq] at hg
          exact ⟨k, q, by rw [hget, if_neg hk]; exact hr, by rw [hg]; exact hv⟩
    · intro ⟨k, q, hg, hv⟩
      rw [hget] at hg
      by_cases hk : k = k0
      · rw [if_pos hk] at hg; simp at hg
      · rw [if_neg hk] at hg
        exact ⟨k, q.vols, by rw [Map.get_erase, if_neg hk, h.vols k, hg]; rfl, hv⟩
  refine ⟨⟨?_, ?_, ?_, ?_, ?_, ?_, ?_, Map.noDup_erase h.ndReq _, Map.noDup_erase h.ndLim _, Map.noDup_erase h.ndDReq _,
    Map.noDup_erase h.ndDLim _, Map.noDup_erase h.ndCost _, Map.noDup_erase h.ndPorts _, ?_, ?_, ?_⟩, fun v hv => (hmem v).mp hv⟩
  · intro k; show Map.get (Map.erase s.podReq k0) k = _
    rw [Map.get_erase, hget]; by_cases hk : k = k0 <;> simp [hk, h.req k]
  · intro k; show Map.get (Map.erase s.podLim k0) k = _
    rw [Map.get_erase, hget]; by_cases hk : k = k0 <;> simp [hk, h.lim k]
  · intro k; show Map.get (Map.erase s.dsReq k0) k = _
    rw [Map.get_erase, hget]; by_cases hk : k = k0 <;> simp [hk, h.dreq k]
  · intro k; show Map.get (Map.erase s.dsLim k0) k = _
    rw [Map.get_erase, hget]; by_cases hk : k = k0 <;> simp [hk, h.dlim k]
  · intro k; show Map.get (Map.erase s.costs k0) k = _
    rw [Map.get_erase, hget]; by_cases hk : k = k0 <;> simp [hk, h.cost k]
  · intro k; show Map.get (Map.erase s.ports k0) k = _
    rw [Map.get_erase, hget]; by_cases hk : k = k0 <;> simp [hk, h.ports k]
  · intro k; rw [hvp, Map.get_erase, hget]; by_cases hk : k = k0 <;> simp [hk, h.vols k]
  · rw [hvp]; exact Map.noDup_erase h.ndVols _
  · rw [hvol]; exact nodup_volUnionAll _
  · intro v k q hq hv; exact (hmem v).mpr ⟨k, q, hq, hv⟩

end Karp.ClusterState

namespace Karp.ClusterState

/-! ### any sequence of per-pod updates -/

inductive PodOp
  | upd (p : PodObj)
  | del (k : String)
deriving Repr

def applyPodOp (fx : Fixes) (s : SNode) : PodOp → SNode
  | .upd p => s.updateForPod fx p
  | .del k => s.cleanupForPod k

/-- the table of pods a sequence of updates leaves: the last update per pod name, unless a cleanup followed -/
def tablePodOp (R : Map PodObj) : PodOp → Map PodObj
  | .upd p => Map.put R p.name p
  | .del k => Map.erase R k

structure TableOK (dsOf : String → Bool) (R : Map PodObj) : Prop where
  nd : Map.NoDup R
  named : ∀ k p, Map.get R k = some p → p.name = k ∧ dsOf k = p.ds

theorem podOps_agg (fx : Fixes) (dsOf : String → Bool) (ops : List PodOp) :
    ∀ (s : SNode) (R : Map PodObj), Agg s R → TableOK dsOf R → (fx.volRebuild = true → VolExact s R) →
      (∀ p, PodOp.upd p ∈ ops → dsOf p.name = p.ds) →
      Agg (ops.foldl (applyPodOp fx) s) (ops.foldl tablePodOp R) ∧ TableOK dsOf (ops.foldl tablePodOp R) ∧
      (fx.volRebuild = true → VolExact (ops.foldl (applyPodOp fx) s) (ops.foldl tablePodOp R)) := by
  induction ops with
  | nil => intro s R h t hv _; exact ⟨h, t, hv⟩
  | cons op ops ih =>
    intro s R h t hv hds
    simp only [List.foldl_cons]
    cases op with
    | upd p =>
      have hp : dsOf p.name = p.ds := hds p List.mem_cons_self
      apply ih
      · exact agg_updateForPod fx s R p h (fun p0 hg => by rw [← (t.named p.name p0 hg).2, hp])
      · refine ⟨Map.noDup_put t.nd _ _, ?_⟩
        intro k q hq
        have hq : Map.get (Map.put R p.name p) k = some q := hq
        rw [Map.get_put] at hq
        by_cases hk : k = p.name
        · rw [if_pos hk] at hq
          rw [← Option.some.inj hq, hk]; exact ⟨rfl, hp⟩
        · rw [if_neg hk] at hq; exact t.named k q hq
      · intro hf; exact volExact_updateForPod fx s R p h hf
      · intro q hq; exact hds q (List.mem_cons_of_mem _ hq)
    | del k0 =>
      apply ih
      · exact (agg_cleanupForPod s R k0 h).1
      · refine ⟨Map.noDup_erase t.nd _, ?_⟩
        intro k q hq
        have hq : Map.get (Map.erase R k0) k = some q := hq
        rw [Map.get_erase] at hq
        by_cases hk : k = k0
        · rw [if_pos hk] at hq; simp at hq
        · rw [if_neg hk] at hq; exact t.named k q hq
      · intro _; exact (agg_cleanupForPod s R k0 h).2
      · intro q hq; exact hds q (List.mem_cons_of_mem _ hq)

end Karp.ClusterState
