/-
C14 helper lemmas, second part: the specification's observable preconditions hold of what the modelled
registration / initialization write; condition flips, the deletion marks, reported errors.
-/
import Karp.Proofs.LifecycleInv
import Karp.Spec.LifecycleOrder
set_option linter.unusedSimpArgs false
namespace Karp.Lifecycle
open Karp.Spec.LifecycleOrder

theorem unregistered_eq : unregistered = unregisteredTaint := by decide

theorem ephemeral_table : Karp.Gen.Lifecycle.knownEphemeralTaints = ephemeralTaints.map (fun e => (e.key, e.effect)) := by decide
theorem ephemeral_prefixes : Karp.Gen.Lifecycle.knownEphemeralTaintKeyPrefixes = ephemeralPrefixes := by decide

theorem isKnownEphemeral_eq (t : Taint) : isKnownEphemeral t = isEphemeral t := by
  unfold isKnownEphemeral isEphemeral
  rw [ephemeral_table, ephemeral_prefixes, List.any_map]
  rfl

theorem matches_eq_sameTaint (a b : Taint) : a.matches b = sameTaint a b := rfl

theorem hasMatch_eq_carries (ts : List Taint) (t : Taint) : hasMatch ts t = carries ts t := rfl

theorem matches_comm (a b : Taint) : a.matches b = b.matches a := by
  unfold Taint.matches
  rw [Bool.beq_comm (a := a.key), Bool.beq_comm (a := a.effect)]

/-- `MatchTaint` only looks at key and effect: two taints that match each other match the same third taints -/
theorem matches_trans {a b c : Taint} (hab : a.matches b = true) (hbc : b.matches c = true) : a.matches c = true := by
  unfold Taint.matches at *
  simp only [Bool.and_eq_true, beq_iff_eq] at *
  exact ⟨hab.1.trans hbc.1, hab.2.trans hbc.2⟩

theorem mem_mergeTaints_left (w ts : List Taint) (t : Taint) (h : t ∈ ts) : t ∈ mergeTaints ts w := by
  unfold mergeTaints
  induction w generalizing ts with
  | nil => simpa using h
  | cons x xs ih =>
    simp only [List.foldl_cons]
    apply ih
    split
    · exact h
    · exact List.mem_append_left _ h

/-- `Taints.Merge` never drops a taint, so what was matched stays matched -/
theorem hasMatch_mergeTaints_left (w ts : List Taint) (t : Taint) (h : hasMatch ts t = true) :
    hasMatch (mergeTaints ts w) t = true := by
  unfold hasMatch at *
  rw [List.any_eq_true] at *
  obtain ⟨x, hx, hm⟩ := h
  exact ⟨x, mem_mergeTaints_left w ts x hx, hm⟩

/-- after `Taints.Merge` every merged-in taint is on the list *by key and effect*: itself, or the taint that was
    already there with the same key and effect (whose value and `timeAdded` are kept) -/
theorem hasMatch_mergeTaints_right (w ts : List Taint) (t : Taint) (h : t ∈ w) : hasMatch (mergeTaints ts w) t = true := by
  induction w generalizing ts with
  | nil => simp at h
  | cons x xs ih =>
    have hstep : mergeTaints ts (x :: xs) = mergeTaints (if hasMatch ts x then ts else ts ++ [x]) xs := by
      simp [mergeTaints, List.foldl_cons]
    rw [hstep]
    rcases List.mem_cons.mp h with rfl | h
    · apply hasMatch_mergeTaints_left
      split
      · rename_i hc; exact hc
      · unfold hasMatch
        rw [List.any_eq_true]
        exact ⟨t, by simp, by simp [Taint.matches]⟩
    · exact ih _ h

/-- a taint that does not match the unregistered taint survives its removal, in the specification's sense -/
theorem carries_filter_unregistered (ts : List Taint) (t : Taint) (hclean : t.matches unregistered = false)
    (h : hasMatch ts t = true) : carries (ts.filter (fun x => !x.matches unregistered)) t = true := by
  unfold hasMatch at h
  unfold carries
  rw [List.any_eq_true] at *
  obtain ⟨x, hx, hm⟩ := h
  refine ⟨x, ?_, hm⟩
  rw [List.mem_filter]
  refine ⟨hx, ?_⟩
  cases hxu : x.matches unregistered
  · rfl
  · rw [matches_trans hm hxu] at hclean; cases hclean

/-- whatever value or `timeAdded` the unregistered taint carried: after the removal no taint with its key and
    effect is left -/
theorem carries_filter_unregistered_none (ts : List Taint) :
    carries (ts.filter (fun x => !x.matches unregistered)) unregisteredTaint = false := by
  unfold carries
  rw [List.any_eq_false]
  intro x hx
  rw [List.mem_filter] at hx
  have h := hx.2
  rw [← unregistered_eq, ← matches_eq_sameTaint, matches_comm]
  simpa using h

theorem registeredPre_registerNode (sp : Spec) (m : Claim) (n : Node) (hpl : m.provLabels = true)
    (h1 : cleanTaints sp.taints) (h2 : cleanTaints sp.startup) :
    registeredPre sp [registerNode sp m n] = true ∧
    registeredPre sp [{ registerNode sp m n with initLabel := true }] = true := by
  have key : ∀ t, t ∈ sp.taints ∨ t ∈ sp.startup → n.doNotSync = false →
      carries (registerNode sp m n).taints t = true := by
    intro t ht hd
    have hne : t.matches unregistered = false := by
      rcases ht with ht | ht
      · exact h1 t ht
      · exact h2 t ht
    simp only [registerNode, hd]
    simp only [Bool.false_eq_true, if_false]
    apply carries_filter_unregistered _ _ hne
    rcases ht with ht | ht
    · exact hasMatch_mergeTaints_left _ _ _ (hasMatch_mergeTaints_right _ _ _ ht)
    · exact hasMatch_mergeTaints_right _ _ _ ht
  have hun : carries (registerNode sp m n).taints unregisteredTaint = false := by
    simp only [registerNode]
    exact carries_filter_unregistered_none _
  have hsync : (registerNode sp m n).doNotSync = true ∨
      (sp.taints.all (fun t => carries (registerNode sp m n).taints t) = true ∧
       sp.startup.all (fun t => carries (registerNode sp m n).taints t) = true) := by
    cases hd : n.doNotSync
    · right
      constructor
      · simp only [List.all_eq_true]; intro t ht; exact key t (Or.inl ht) hd
      · simp only [List.all_eq_true]; intro t ht; exact key t (Or.inr ht) hd
    · left; simp [registerNode, hd]
  have hflags : (registerNode sp m n).regLabel = true ∧ (registerNode sp m n).finalizer = true ∧
      (registerNode sp m n).ownerRef = true ∧ (registerNode sp m n).userLabels = true ∧
      (registerNode sp m n).provLabels = true := by
    simp [registerNode, hpl]
  constructor
  · simp only [registeredPre, hun, hflags.1, hflags.2.1, hflags.2.2.1, hflags.2.2.2.1, hflags.2.2.2.2]
    rcases hsync with hs | ⟨hs1, hs2⟩
    · simp [hs]
    · simp [hs1, hs2]
  · simp only [registeredPre, hun, hflags.1, hflags.2.1, hflags.2.2.1, hflags.2.2.2.1, hflags.2.2.2.2]
    rcases hsync with hs | ⟨hs1, hs2⟩
    · simp [hs]
    · simp [hs1, hs2]

theorem ready_eq_nodeIsReady (n : Node) : n.ready = nodeIsReady n := by
  unfold Node.ready nodeIsReady
  cases n.readyCond <;> rfl

theorem initializedPre_of_blocker (sp : Spec) (n : Node) (h : initBlocker sp n = none) :
    initializedPre sp [{ n with initLabel := true }] = true := by
  unfold initBlocker at h
  split at h; · simp at h
  rename_i hr
  split at h; · simp at h
  rename_i hs
  split at h; · simp at h
  rename_i he
  split at h; · simp at h
  rename_i hres
  simp only [initializedPre]
  simp at hr
  have hr' : nodeIsReady { n with initLabel := true } = true := by
    rw [← ready_eq_nodeIsReady]; exact hr
  unfold firstStartupTaint at hs
  unfold firstEphemeralTaint at he
  rw [List.findSome?_eq_none_iff] at hs
  rw [List.find?_eq_none] at he
  simp only [hr', Bool.true_and, Bool.and_eq_true, List.all_eq_true]
  refine ⟨⟨?_, ?_⟩, ?_⟩
  · intro s hs'
    have := hs s hs'
    rw [List.find?_eq_none] at this
    simp only [Bool.not_eq_true', carries, List.any_eq_false]
    intro x hx
    simpa [sameTaint, Taint.matches] using this x hx
  · intro t ht; have := he t ht; rw [isKnownEphemeral_eq] at this; simpa using this
  · simp at hres
    cases hw : sp.wantsRes
    · simp
    · simp [hres hw]

/-! ### what the two preconditions say about the Node, in plain terms; the two gates -/

theorem registeredPre_elim {sp : Spec} {nodes : List Node} (h : registeredPre sp nodes = true) :
    ∃ n, nodes = [n] ∧ n.regLabel = true ∧
      ∀ t ∈ n.taints, ¬(t.key = "karpenter.sh/unregistered" ∧ t.effect = "NoExecute") := by
  unfold registeredPre at h
  split at h
  · rename_i n
    simp only [Bool.and_eq_true, Bool.not_eq_true'] at h
    refine ⟨n, rfl, h.1.1.1.1.1.1, ?_⟩
    have hc := h.1.1.1.1.1.2
    unfold carries at hc
    rw [List.any_eq_false] at hc
    intro t ht ⟨hk, he⟩
    apply hc t ht
    simp [sameTaint, unregisteredTaint, hk, he]
  · simp at h

theorem initializedPre_elim {sp : Spec} {nodes : List Node} (h : initializedPre sp nodes = true) :
    ∃ n, nodes = [n] ∧ n.readyCond = .true_ ∧
      (∀ s ∈ sp.startup, ∀ t ∈ n.taints, ¬(t.key = s.key ∧ t.effect = s.effect)) ∧
      (∀ t ∈ n.taints, isEphemeral t = false) ∧ (sp.wantsRes = true → n.resOK = true) := by
  unfold initializedPre at h
  split at h
  · rename_i n
    simp only [Bool.and_eq_true, Bool.or_eq_true, Bool.not_eq_true', List.all_eq_true] at h
    obtain ⟨⟨⟨hr, hs⟩, he⟩, hres⟩ := h
    refine ⟨n, rfl, ?_, ?_, ?_, ?_⟩
    · unfold nodeIsReady at hr
      cases hrc : n.readyCond <;> simp [hrc] at hr
      rfl
    · intro s hs' t ht ⟨hk, hef⟩
      have := hs s hs'
      unfold carries at this
      rw [List.any_eq_false] at this
      apply this t ht
      simp [sameTaint, hk, hef]
    · intro t ht; exact he t ht
    · intro hw
      rcases hres with h | h
      · rw [hw] at h; cases h
      · exact h
  · simp at h

/-- the Ready gate of `Initialization.Reconcile`: a Ready condition that is `Unknown`, `False` or was never posted
    blocks, with the reason `NodeNotReady`, before anything else is looked at -/
theorem initBlocker_not_ready (sp : Spec) (n : Node) (h : n.readyCond ≠ .true_) :
    initBlocker sp n = some .nodeNotReady := by
  unfold initBlocker Node.ready
  cases hrc : n.readyCond <;> simp_all

/-- `registerNode` leaves no taint with the unregistered taint's key and effect, whatever value / `timeAdded` -/
theorem registerNode_unregistered_gone (sp : Spec) (m : Claim) (n : Node) :
    ∀ t ∈ (registerNode sp m n).taints, t.matches unregistered = false := by
  intro t ht
  simp only [registerNode, List.mem_filter] at ht
  simpa using ht.2

/-- `Initialization.Reconcile` on a node that is not Ready: no write, Initialized stays Unknown -/
theorem initialization_not_ready (sp : Spec) (f : Faults) (c : Ctx) (n : Node)
    (hi : c.mem.conds.i.status = .unknown) (hr : c.mem.conds.r.status = .true_) (hp : c.mem.providerID = true)
    (hl : f.nodeList = false) (hn : c.w.nodes = [n]) (hrc : n.readyCond ≠ .true_) :
    (initialization sp f c).calls = c.calls ∧ (initialization sp f c).w = c.w ∧
    (initialization sp f c).mem.conds.i.status = .unknown ∧
    (initialization sp f c).mem.conds.i.reason = .nodeNotReady := by
  have hb := initBlocker_not_ready sp n hrc
  simp [initialization, hi, hr, nodeForInit, hp, hl, hn, hb, Ctx.setI, Cond.set]
/-! ### conditions that become true in a pass -/

theorem runSubs_flips (sp : Spec) (f : Faults) (co : CreateOutcome) {w w0 : World} {m0 : Claim}
    (calls : List Call) (h : Inv w)
    (hw0c : w0.claim.conds = w.claim.conds) (hw0cache : w0.cache = w.cache) (hw0inst : w0.instances = w.instances)
    (hm0 : VOK m0)
    (hm0v : ∃ v ∈ w.versions, m0.conds = v.conds ∧ m0.providerID = v.providerID ∧ m0.provLabels = v.provLabels)
    (h1 : cleanTaints sp.taints) (h2 : cleanTaints sp.startup) :
    ((runSubs sp f co w0 m0 calls).w.claim.conds.r.status = .true_ → w.claim.conds.r.status ≠ .true_ →
      m0.conds.r.status = .true_ ∨ registeredPre sp (runSubs sp f co w0 m0 calls).w.nodes = true) ∧
    ((runSubs sp f co w0 m0 calls).w.claim.conds.i.status = .true_ → w.claim.conds.i.status ≠ .true_ →
      m0.conds.i.status = .true_ ∨ initializedPre sp (runSubs sp f co w0 m0 calls).w.nodes = true) := by
  obtain ⟨rv, rfe, rfin, rcache, rinst, mem, hmem, hLM, hmf, hmR, hmI, hkR, hkI, hsame, hclaim⟩ :=
    runSubs_facts sp f co w0 m0 calls
  have hN := runSubs_nodes sp f co w0 m0 calls
  rw [← hmem] at hN
  generalize hlc : launchCase co { w := w0, mem := m0, calls := calls } = lc at rcache rinst hLM
  generalize runSubs sp f co w0 m0 calls = r at *
  have S := memSummary (r := r) h hw0cache hw0inst hm0 hm0v hlc rcache rinst hLM
  rw [hw0c] at hclaim
  -- the new condition list is the server's old one or the in-memory one
  have hc : r.w.claim.conds = w.claim.conds ∨ r.w.claim.conds = mem.conds := by
    rcases hclaim with ⟨ec, _, _⟩ | ⟨ec, _, _⟩
    · exact Or.inl ec
    · split at ec
      · exact Or.inl ec
      · exact Or.inr ec
  constructor
  · intro hr hnr
    rcases hc with ec | ec
    · rw [ec] at hr; exact absurd hr hnr
    · rw [ec] at hr
      by_cases h0 : m0.conds.r.status = .true_
      · exact Or.inl h0
      · right
        obtain ⟨hpl, n, hn⟩ := hN.1 hr h0
        have hmp : mem.providerID = true := by
          rcases hmR hr with h0' | hp
          · exact absurd h0' h0
          · exact hp
        have hml : mem.conds.l.status = .true_ := by
          rcases S.ltrue_or with ht | ⟨_, hpf, _, _⟩
          · exact ht
          · rw [hpf] at hmp; exact absurd hmp (by simp)
        have hmpl := (S.lpid hml).2
        have := registeredPre_registerNode sp (launchMemOf f co w0 m0 calls) n (by rw [hpl]; exact hmpl) h1 h2
        rcases hn with hn | hn
        · rw [hn]; exact this.1
        · rw [hn]; exact this.2
  · intro hi hni
    rcases hc with ec | ec
    · rw [ec] at hi; exact absurd hi hni
    · rw [ec] at hi
      by_cases h0 : m0.conds.i.status = .true_
      · exact Or.inl h0
      · right
        obtain ⟨n, hb, hn⟩ := hN.2 hi h0
        rw [hn]; exact initializedPre_of_blocker sp n hb

/-- with an up-to-date copy, nothing that is true on the API server stops being true -/
theorem runSubs_forward (sp : Spec) (f : Faults) (co : CreateOutcome) {w w0 : World} {m0 : Claim}
    (calls : List Call) (h : Inv w)
    (hw0c : w0.claim.conds = w.claim.conds) (hw0cache : w0.cache = w.cache) (hw0inst : w0.instances = w.instances)
    (hm0 : VOK m0)
    (hm0v : ∃ v ∈ w.versions, m0.conds = v.conds ∧ m0.providerID = v.providerID ∧ m0.provLabels = v.provLabels)
    (hfresh : m0.conds = w.claim.conds) :
    (w.claim.conds.l.status = .true_ → (runSubs sp f co w0 m0 calls).w.claim.conds.l.status = .true_) ∧
    (w.claim.conds.r.status = .true_ → (runSubs sp f co w0 m0 calls).w.claim.conds.r.status = .true_) ∧
    (w.claim.conds.i.status = .true_ → (runSubs sp f co w0 m0 calls).w.claim.conds.i.status = .true_) := by
  obtain ⟨rv, rfe, rfin, rcache, rinst, mem, hmem, hLM, hmf, hmR, hmI, hkR, hkI, hsame, hclaim⟩ :=
    runSubs_facts sp f co w0 m0 calls
  generalize hlc : launchCase co { w := w0, mem := m0, calls := calls } = lc at rcache rinst hLM
  generalize runSubs sp f co w0 m0 calls = r at *
  have S := memSummary (r := r) h hw0cache hw0inst hm0 hm0v hlc rcache rinst hLM
  rw [hw0c] at hclaim
  have hc : r.w.claim.conds = w.claim.conds ∨ r.w.claim.conds = mem.conds := by
    rcases hclaim with ⟨ec, _, _⟩ | ⟨ec, _, _⟩
    · exact Or.inl ec
    · split at ec
      · exact Or.inl ec
      · exact Or.inr ec
  rcases hc with ec | ec
  · rw [ec]; exact ⟨id, id, id⟩
  · rw [ec, ← hfresh]
    exact ⟨fun hl => (S.keepL hl).1, hkR, hkI⟩

/-! ### deletion marks: a terminating or removed NodeClaim stays so -/

/-- terminating or gone -/
def Claim.gone (c : Claim) : Prop := c.deleting = true ∨ c.present = false

theorem deleted_gone (c : Claim) : (c.present = false → c.deleted.present = false) ∧ (c.gone → c.deleted.gone) ∧
    (c.present = true → c.deleted.gone) := by
  unfold Claim.deleted Claim.gone
  split <;> simp <;> (try intro h; try simp [h])
  all_goals (intro h; exact Or.inl h)

/-- `b` is a later state of the NodeClaim object `a` as far as deletion goes -/
def Later (a b : Claim) : Prop := (a.present = false → b.present = false) ∧ (a.gone → b.gone)

theorem Later.refl (a : Claim) : Later a a := ⟨id, id⟩
theorem Later.trans {a b c : Claim} (h1 : Later a b) (h2 : Later b c) : Later a c :=
  ⟨fun h => h2.1 (h1.1 h), fun h => h2.2 (h1.2 h)⟩

theorem later_deleted (a : Claim) : Later a a.deleted := ⟨(deleted_gone a).1, (deleted_gone a).2.1⟩

theorem deleteClaim_later (f : Faults) (c : Ctx) : Later c.w.claim (deleteClaim f c).w.claim := by
  unfold deleteClaim; simp only []
  split
  · exact later_deleted _
  · exact Later.refl _

theorem capacityError_later (f : Faults) (o : Outcome) (c : Ctx) : Later c.w.claim (capacityError f o c).w.claim := by
  unfold capacityError; simp only []
  have := deleteClaim_later f (c.call .create o)
  split <;> simpa using this

theorem launch_later (f : Faults) (co : CreateOutcome) (c : Ctx) : Later c.w.claim (launch f co c).w.claim := by
  unfold launch
  simp only []
  split
  · split <;> exact Later.refl _
  · split
    · simp [launchSuccess]; exact Later.refl _
    · cases co <;> simp only []
      · simp [launchSuccess]; exact Later.refl _
      · exact capacityError_later f .ice { c with mem := { c.mem with conds := { c.mem.conds with init := true } } }
      · exact capacityError_later f .ncnr { c with mem := { c.mem with conds := { c.mem.conds with init := true } } }
      · simp; exact Later.refl _
      · simp; exact Later.refl _

theorem registerOne_claim (sp : Spec) (f : Faults) (c : Ctx) (n : Node) : (registerOne sp f c n).w.claim = c.w.claim := by
  unfold registerOne; simp only []
  split; · simp
  split <;> simp

theorem registration_claim (sp : Spec) (f : Faults) (c : Ctx) : (registration sp f c).w.claim = c.w.claim := by
  unfold registration
  split; · rfl
  split; · simp
  split; · rfl
  split
  · simp
  · exact registerOne_claim sp f c _
  · simp

theorem initOne_claim (f : Faults) (c : Ctx) (n : Node) : (initOne f c n).w.claim = c.w.claim := by
  unfold initOne
  split; · simp [initSuccess]
  split <;> simp [initSuccess]

theorem initialization_claim (sp : Spec) (f : Faults) (c : Ctx) : (initialization sp f c).w.claim = c.w.claim := by
  unfold initialization
  split; · rfl
  split; · rfl
  split; · simp
  split; · simp
  exact initOne_claim f c _

theorem timeoutDelete_later (f : Faults) (c : Ctx) : Later c.w.claim (timeoutDelete f c).w.claim := by
  unfold timeoutDelete; simp only []
  split; · simpa using Later.refl c.w.claim
  have := deleteClaim_later f (poolHealth f c).1
  split <;> simpa using this

theorem livenessLaunch_later (f : Faults) (c : Ctx) : Later c.w.claim (livenessLaunch f c).1.w.claim := by
  unfold livenessLaunch
  split; · exact Later.refl _
  split; · exact Later.refl _
  exact timeoutDelete_later f c

theorem liveness_later (f : Faults) (c : Ctx) : Later c.w.claim (liveness f c).w.claim := by
  unfold liveness
  split; · exact Later.refl _
  simp only []
  have h1 := livenessLaunch_later f c
  split; · exact h1
  split; · simpa using h1
  exact h1.trans (timeoutDelete_later f (livenessLaunch f c).1)

theorem merge_later (stored mem a : Claim) : Later a (mergeMeta stored mem a) ∧
    Later a (mergeStatus stored mem (mergeMeta stored mem a)) := by
  simp [Later, Claim.gone, mergeMeta, mergeStatus]

theorem persist_later (stored : Claim) (f : Faults) (c : Ctx) : Later c.w.claim (persist stored f c).w.claim := by
  rcases (persist_world stored f c).2.2.2.2.2 with h | h | h <;> rw [h]
  · exact Later.refl _
  · exact (merge_later stored c.mem c.w.claim).1
  · exact (merge_later stored c.mem c.w.claim).2

theorem runSubs_later (sp : Spec) (f : Faults) (co : CreateOutcome) (w0 : World) (m0 : Claim) (calls : List Call) :
    Later w0.claim (runSubs sp f co w0 m0 calls).w.claim := by
  unfold runSubs; simp only []
  have h1 := launch_later f co { w := w0, mem := m0, calls := calls }
  have h2 := registration_claim sp f (launch f co { w := w0, mem := m0, calls := calls })
  have h3 := initialization_claim sp f (registration sp f (launch f co { w := w0, mem := m0, calls := calls }))
  have h4 := liveness_later f (initialization sp f (registration sp f (launch f co { w := w0, mem := m0, calls := calls })))
  have h5 := persist_later m0 f (liveness f (initialization sp f (registration sp f (launch f co { w := w0, mem := m0, calls := calls }))))
  rw [h3, h2] at h4
  exact (h1.trans h4).trans h5

theorem reconcileLive_later (sp : Spec) (f : Faults) (co : CreateOutcome) (w : World) (view : Claim) :
    Later w.claim (reconcileLive sp f co w view).w.claim := by
  unfold reconcileLive
  split; · exact runSubs_later sp f co w view []
  simp only []
  split
  · have := runSubs_later sp f co { w with claim := { w.claim with finalizer := true }, finEver := true }
      { w.claim with finalizer := true } [⟨.finPatch, finPatchOutcome f w⟩]
    refine Later.trans ?_ this
    simp [Later, Claim.gone]
  all_goals exact Later.refl _

theorem step_later (sp : Spec) (w : World) (s : Step) : Later w.claim (step sp w s).1.claim := by
  cases s with
  | env e =>
    simp only [step]
    cases e <;> simp [applyEnv] <;> try exact Later.refl _
    · split <;> exact Later.refl _
    · split
      · exact later_deleted _
      · exact Later.refl _
  | reconcile lag co f fin =>
    simp only [step]
    split; · exact Later.refl _
    split
    · simp only [finalizeStep]
      split
      · simp [Later, Claim.gone]
      · exact Later.refl _
    · exact reconcileLive_later sp f co w _


/-! ### errors are reported -/

/-- the `errsNF` flag is backed by a NotFound answer in the call log -/
def NF (c : Ctx) : Prop := c.errsNF = true → ∃ x ∈ c.calls, x.out = .notFound

theorem NF_of_append {c c' : Ctx} (h1 : c'.errsNF = c.errsNF) (h2 : ∃ rest, c'.calls = c.calls ++ rest) (h : NF c) : NF c' := by
  intro hf
  rw [h1] at hf
  obtain ⟨x, hx, hxo⟩ := h hf
  obtain ⟨rest, hr⟩ := h2
  exact ⟨x, by rw [hr]; exact List.mem_append_left _ hx, hxo⟩

theorem capacityError_errs (f : Faults) (o : Outcome) (c : Ctx) :
    (c.errs = true → (capacityError f o c).errs = true) ∧ (capacityError f o c).errsNF = c.errsNF ∧
    (claimDeleteOutcome f c.w ≠ .ok → claimDeleteOutcome f c.w ≠ .notFound → (capacityError f o c).errs = true) := by
  unfold capacityError; simp only []
  split
  · rename_i h; simp; intro h1 h2; rcases h with h | h <;> simp_all
  · simp

theorem launch_errs (f : Faults) (co : CreateOutcome) (c : Ctx) :
    (c.errs = true → (launch f co c).errs = true) ∧ (launch f co c).errsNF = c.errsNF := by
  unfold launch; simp only []
  split
  · split <;> simp
  · split
    · simp [launchSuccess]
    · cases co <;> simp only []
      · simp [launchSuccess]
      · have := capacityError_errs f .ice { c with mem := { c.mem with conds := { c.mem.conds with init := true } } }
        exact ⟨this.1, this.2.1⟩
      · have := capacityError_errs f .ncnr { c with mem := { c.mem with conds := { c.mem.conds with init := true } } }
        exact ⟨this.1, this.2.1⟩
      · simp
      · simp

theorem launch_NF (f : Faults) (co : CreateOutcome) (c : Ctx) (h : NF c) : NF (launch f co c) :=
  NF_of_append (launch_errs f co c).2 (by obtain ⟨r, hr, _⟩ := launch_calls f co c; exact ⟨r, hr⟩) h

theorem registerOne_errs (sp : Spec) (f : Faults) (c : Ctx) (n : Node) :
    (c.errs = true → (registerOne sp f c n).errs = true) ∧ (NF c → NF (registerOne sp f c n)) := by
  unfold registerOne; simp only []
  split; · exact ⟨regSuccess_errs f c, fun h => NF_of_append (by simp) ⟨poolCalls f, by simp⟩ h⟩
  split
  · refine ⟨fun h => regSuccess_errs f _ (by simpa using h), fun h => NF_of_append (by simp) ⟨[⟨.nodePatchLock, .ok⟩] ++ poolCalls f, by simp⟩ h⟩
  · refine ⟨by simp, fun h => NF_of_append (c := c) (by simp) ⟨[⟨.nodePatchLock, .conflict⟩], by simp⟩ h⟩
  · exact ⟨by simp, fun _ _ => ⟨⟨.nodePatchLock, .notFound⟩, by simp, rfl⟩⟩
  · refine ⟨by simp, fun h => NF_of_append (c := c) (by simp) ⟨[⟨.nodePatchLock, .other⟩], by simp⟩ h⟩

theorem registration_errs (sp : Spec) (f : Faults) (c : Ctx) :
    (c.errs = true → (registration sp f c).errs = true) ∧ (NF c → NF (registration sp f c)) := by
  unfold registration
  split; · exact ⟨id, id⟩
  split; · exact ⟨by simp, fun h => NF_of_append (c := c) (by simp) ⟨[], by simp⟩ h⟩
  split; · exact ⟨by simp, fun h => NF_of_append (c := c) (by simp) ⟨[], by simp⟩ h⟩
  split
  · exact ⟨by simp, fun h => NF_of_append (c := c) (by simp) ⟨[], by simp⟩ h⟩
  · exact registerOne_errs sp f c _
  · exact ⟨by simp, fun h => NF_of_append (c := c) (by simp) ⟨[], by simp⟩ h⟩

theorem initOne_errs (f : Faults) (c : Ctx) (n : Node) :
    (c.errs = true → (initOne f c n).errs = true) ∧ (NF c → NF (initOne f c n)) := by
  unfold initOne
  split; · exact ⟨by simp [initSuccess], fun h => NF_of_append (c := c) (by simp [initSuccess]) ⟨[], by simp [initSuccess]⟩ h⟩
  cases hf : f.nodePatch with
  | none => exact ⟨by simp [initSuccess], fun h => NF_of_append (c := c) (by simp [initSuccess]) ⟨[⟨.nodePatch, .ok⟩], by simp [initSuccess]⟩ h⟩
  | some e =>
    cases e
    · exact ⟨by simp, fun h => NF_of_append (c := c) (by simp) ⟨[⟨.nodePatch, .conflict⟩], by simp [Err.toOutcome]⟩ h⟩
    · exact ⟨by simp, fun _ _ => ⟨⟨.nodePatch, .notFound⟩, by simp, rfl⟩⟩
    · exact ⟨by simp, fun h => NF_of_append (c := c) (by simp) ⟨[⟨.nodePatch, .other⟩], by simp [Err.toOutcome]⟩ h⟩

theorem initialization_errs (sp : Spec) (f : Faults) (c : Ctx) :
    (c.errs = true → (initialization sp f c).errs = true) ∧ (NF c → NF (initialization sp f c)) := by
  unfold initialization
  split; · exact ⟨id, id⟩
  split; · exact ⟨id, id⟩
  split; · exact ⟨by simp, fun h => NF_of_append (c := c) (by simp) ⟨[], by simp⟩ h⟩
  split; · exact ⟨by simp, fun h => NF_of_append (c := c) (by simp) ⟨[], by simp⟩ h⟩
  exact initOne_errs f c _

theorem livenessLaunch_errs (f : Faults) (c : Ctx) :
    (c.errs = true → (livenessLaunch f c).1.errs = true) ∧ (livenessLaunch f c).1.errsNF = c.errsNF := by
  unfold livenessLaunch
  split; · simp
  split; · simp
  exact ⟨timeoutDelete_errs f c, by simp⟩

theorem liveness_errs (f : Faults) (c : Ctx) :
    (c.errs = true → (liveness f c).errs = true) ∧ (NF c → NF (liveness f c)) := by
  have key : (c.errs = true → (liveness f c).errs = true) ∧ (liveness f c).errsNF = c.errsNF := by
    unfold liveness
    split; · simp
    simp only []
    have h1 := livenessLaunch_errs f c
    split; · exact h1
    split; · simpa using h1
    exact ⟨fun h => timeoutDelete_errs f _ (h1.1 h), by simp [h1.2]⟩
  exact ⟨key.1, fun h => NF_of_append key.2 (by obtain ⟨r, hr, _⟩ := liveness_calls f c; exact ⟨r, hr⟩) h⟩

/-- an error returned by a sub-reconciler is the reconcile's result, unless an API write said NotFound -/
theorem persist_result (stored : Claim) (f : Faults) (c : Ctx) (he : c.errs = true) (hnf : NF c) :
    (persist stored f c).result = .err ∨ ∃ x ∈ (persist stored f c).calls, x.out = .notFound := by
  have hpf : ∀ (c' : Ctx) (o : Outcome), c'.errsNF = c.errsNF → (∃ rest, c'.calls = c.calls ++ rest) →
      (⟨.metaPatch, o⟩ : Call) ∈ c'.calls ∨ (⟨.statusPatch, o⟩ : Call) ∈ c'.calls →
      patchFailResult c' o = .err ∨ ∃ x ∈ c'.calls, x.out = .notFound := by
    intro c' o h1 h2 h3
    unfold patchFailResult
    cases hnf' : c'.errsNF
    · cases ho : o == .notFound
      · simp
      · right
        have : o = .notFound := by simpa using ho
        rcases h3 with h3 | h3
        · exact ⟨_, h3, this⟩
        · exact ⟨_, h3, this⟩
    · right
      exact NF_of_append h1 h2 hnf hnf'
  unfold persist
  split; · left; simp [finish, he]
  simp only []
  split
  · exact hpf (c.call .metaPatch _) _ rfl ⟨_, rfl⟩ (Or.inl (by simp))
  · split
    · exact hpf ((c.call .metaPatch _).call .statusPatch _) _ rfl ⟨_, by simp; rfl⟩ (Or.inr (by simp))
    · left; simp [finish, he]

/-! ### capacity errors -/

theorem launch_capacity (f : Faults) (co : CreateOutcome) (c : Ctx) (hco : co = .ice ∨ co = .ncnr)
    (hlc : launchCase co c = .failed) :
    (launch f co c).calls = c.calls ++ [⟨.create, co.toOutcome⟩, ⟨.claimDelete, claimDeleteOutcome f c.w⟩] ∧
    (launch f co c).mem.conds.l = c.mem.conds.l ∧
    (claimDeleteOutcome f c.w = .ok → (launch f co c).w.claim = c.w.claim.deleted) ∧
    (claimDeleteOutcome f c.w ≠ .ok → claimDeleteOutcome f c.w ≠ .notFound → (launch f co c).errs = true) := by
  rcases launchCase_cases co c with ⟨h, _⟩ | ⟨h, _⟩ | ⟨h, _⟩ | ⟨h, _⟩ | ⟨_, hs, hc, _⟩
  all_goals try (rw [hlc] at h; exact absurd h (by simp))
  unfold launch; simp only []
  have key : ∀ o : Outcome, ∀ c' : Ctx, c'.w = c.w → c'.calls = c.calls → c'.mem.conds.l = c.mem.conds.l →
      (capacityError f o c').calls = c.calls ++ [⟨.create, o⟩, ⟨.claimDelete, claimDeleteOutcome f c.w⟩] ∧
      (capacityError f o c').mem.conds.l = c.mem.conds.l ∧
      (claimDeleteOutcome f c.w = .ok → (capacityError f o c').w.claim = c.w.claim.deleted) ∧
      (claimDeleteOutcome f c.w ≠ .ok → claimDeleteOutcome f c.w ≠ .notFound → (capacityError f o c').errs = true) := by
    intro o c' hw hcalls hl
    refine ⟨?_, by simp [hl], ?_, ?_⟩
    · unfold capacityError; simp only []; split <;> simp [hw, hcalls]
    · intro hok
      unfold capacityError; simp only [call_w, hw, hok, true_or, if_true]
      unfold deleteClaim; simp [hw, hok]
    · have := (capacityError_errs f o c').2.2
      rw [hw] at this; exact this
  rcases hco with rfl | rfl
  · have := key .ice { c with mem := { c.mem with conds := { c.mem.conds with init := true } } } rfl rfl rfl
    simp only [hs, hc, CreateOutcome.toOutcome]
    simpa using this
  · have := key .ncnr { c with mem := { c.mem with conds := { c.mem.conds with init := true } } } rfl rfl rfl
    simp only [hs, hc, CreateOutcome.toOutcome]
    simpa using this


/-! ### provider calls of one reconcile -/

/-- successful provider `Create` calls in a log -/
def okCreates (l : List Call) : Nat := ((creates l).filter (fun c => c.out == .ok)).length

theorem launchCreates_count (co : CreateOutcome) (c : Ctx) :
    (launchCreates co (launchCase co c)).length ≤ 1 ∧
    launchInst (launchCase co c) c.w.instances =
      c.w.instances + ((launchCreates co (launchCase co c)).filter (fun x => x.out == .ok)).length := by
  rcases launchCase_cases co c with ⟨h, _⟩ | ⟨h, _⟩ | ⟨h, _⟩ | ⟨h, _⟩ | ⟨h, _, _, hco⟩ <;> rw [h]
  all_goals simp [launchCreates, launchInst]
  cases co <;> simp_all [CreateOutcome.toOutcome]

theorem runSubs_creates (sp : Spec) (f : Faults) (co : CreateOutcome) (w0 : World) (m0 : Claim) (calls : List Call)
    (hc : creates calls = []) :
    (creates (runSubs sp f co w0 m0 calls).calls).length ≤ 1 ∧
    (runSubs sp f co w0 m0 calls).w.instances = w0.instances + okCreates (runSubs sp f co w0 m0 calls).calls := by
  obtain ⟨rest, hr, hcr⟩ := runSubs_calls sp f co w0 m0 calls
  have hi := (runSubs_facts sp f co w0 m0 calls).2.2.2.2.1
  have hcount := launchCreates_count co { w := w0, mem := m0, calls := calls }
  simp only [] at hcount
  unfold okCreates
  rw [hr, creates_append, hc, hcr, hi]
  simpa using hcount

theorem reconcileLive_creates (sp : Spec) (f : Faults) (co : CreateOutcome) (w : World) (view : Claim) :
    (creates (reconcileLive sp f co w view).calls).length ≤ 1 ∧
    (reconcileLive sp f co w view).w.instances = w.instances + okCreates (reconcileLive sp f co w view).calls := by
  unfold reconcileLive
  split; · exact runSubs_creates sp f co w view [] rfl
  simp only []
  split
  · exact runSubs_creates sp f co _ _ _ (by simp [creates])
  all_goals simp [creates, okCreates]

/-- no provider `Create` before the finalizer is on the API server's copy -/
theorem reconcileLive_finalizer (sp : Spec) (f : Faults) (co : CreateOutcome) {w : World} (h : Inv w) (view : Claim)
    (hv : view ∈ w.versions) :
    ∀ c ∈ (reconcileLive sp f co w view).calls, c.site = .create →
      (reconcileLive sp f co w view).w.claim.finalizer = true ∧ (reconcileLive sp f co w view).w.finEver = true ∧
      (view.finalizer = true ∨ (reconcileLive sp f co w view).calls.head? = some ⟨.finPatch, .ok⟩) := by
  intro c hc hsite
  unfold reconcileLive at hc ⊢
  by_cases hf : view.finalizer = true
  · simp only [hf, if_true] at hc ⊢
    have hF := runSubs_facts sp f co w view []
    exact ⟨hF.2.2.1.trans (h.finMono view hv hf), hF.2.1.trans (h.finEver view hv hf), Or.inl trivial⟩
  · simp only [hf] at hc ⊢
    simp only [Bool.false_eq_true, if_false] at hc ⊢
    cases ho : finPatchOutcome f w
    case ok =>
      simp only [ho] at hc ⊢
      have hF := runSubs_facts sp f co { w with claim := { w.claim with finalizer := true }, finEver := true }
        { w.claim with finalizer := true } [⟨.finPatch, .ok⟩]
      obtain ⟨rest, hr, _⟩ := runSubs_calls sp f co { w with claim := { w.claim with finalizer := true }, finEver := true }
        { w.claim with finalizer := true } [⟨.finPatch, .ok⟩]
      exact ⟨hF.2.2.1, hF.2.1, Or.inr (by rw [hr]; rfl)⟩
    all_goals
      simp only [ho] at hc
      simp at hc
      rw [hc] at hsite
      simp at hsite

/-! ### the specification's call-log clause -/

theorem capacityCalls_none : ∀ l : List Call, (∀ c ∈ l, isCapacity c = false) → capacityCalls l = true
  | [], _ => rfl
  | c :: rest, h => by
    have hc := h c (by simp)
    simp only [capacityCalls, hc]
    simpa using capacityCalls_none rest (fun x hx => h x (by simp [hx]))

theorem capacityCalls_one (pre post : List Call) (x d : Call) (hpre : ∀ c ∈ pre, isCapacity c = false)
    (hd : d.site = .claimDelete) (hpost : ∀ c ∈ post, isCapacity c = false) :
    capacityCalls (pre ++ [x, d] ++ post) = true := by
  induction pre with
  | nil =>
    have hdc : isCapacity d = false := by simp [isCapacity, hd]
    simp only [List.nil_append, List.cons_append, capacityCalls, hd, hdc]
    simp [capacityCalls_none post hpost]
  | cons c rest ih =>
    have hc := hpre c (by simp)
    simp only [List.cons_append, capacityCalls, hc]
    have := ih (fun x hx => hpre x (by simp [hx]))
    simpa using this

theorem not_capacity_of_creates_nil (l : List Call) (h : creates l = []) : ∀ c ∈ l, isCapacity c = false := by
  intro c hc
  unfold isCapacity
  have : ¬ (c.site == .create) = true := by
    intro hs
    have : c ∈ creates l := by simp [creates, hc]; simpa using hs
    rw [h] at this; simp at this
  simp [this]

/-- a capacity error in a pass: the delete directly follows, no instance, Launched untouched in memory,
    the NodeClaim terminating or gone after a successful delete, a failed delete reported -/
theorem runSubs_capacity (sp : Spec) (f : Faults) (co : CreateOutcome) (w0 : World) (m0 : Claim) (calls : List Call)
    (hcalls : creates calls = []) (hco : co = .ice ∨ co = .ncnr)
    (hlc : launchCase co { w := w0, mem := m0, calls := calls } = .failed) :
    capacityCalls (runSubs sp f co w0 m0 calls).calls = true ∧
    (⟨.create, co.toOutcome⟩ : Call) ∈ (runSubs sp f co w0 m0 calls).calls ∧
    (⟨.claimDelete, claimDeleteOutcome f w0⟩ : Call) ∈ (runSubs sp f co w0 m0 calls).calls ∧
    (runSubs sp f co w0 m0 calls).w.instances = w0.instances ∧
    (runMem sp f co w0 m0 calls).conds.l = m0.conds.l ∧
    (claimDeleteOutcome f w0 = .ok → (runSubs sp f co w0 m0 calls).w.claim.gone) ∧
    (claimDeleteOutcome f w0 ≠ .ok → claimDeleteOutcome f w0 ≠ .notFound →
      (runSubs sp f co w0 m0 calls).result = .err ∨ ∃ x ∈ (runSubs sp f co w0 m0 calls).calls, x.out = .notFound) := by
  have hL := launch_capacity f co { w := w0, mem := m0, calls := calls } hco hlc
  simp only [] at hL
  obtain ⟨hLc, hLl, hLd, hLe⟩ := hL
  have hi := (runSubs_facts sp f co w0 m0 calls).2.2.2.2.1
  rw [hlc] at hi
  unfold runMem
  unfold runSubs at *
  simp only [] at *
  generalize hc1 : launch f co { w := w0, mem := m0, calls := calls } = c1 at *
  obtain ⟨r2, h2, h2'⟩ := registration_calls sp f c1
  obtain ⟨r3, h3, h3'⟩ := initialization_calls sp f (registration sp f c1)
  obtain ⟨r4, h4, h4'⟩ := liveness_calls f (initialization sp f (registration sp f c1))
  obtain ⟨r5, h5, h5'⟩ := persist_calls m0 f (liveness f (initialization sp f (registration sp f c1)))
  have hcallsAll : (persist m0 f (liveness f (initialization sp f (registration sp f c1)))).calls =
      calls ++ [⟨.create, co.toOutcome⟩, ⟨.claimDelete, claimDeleteOutcome f w0⟩] ++ (r2 ++ r3 ++ r4 ++ r5) := by
    rw [h5, h4, h3, h2, hLc]; simp
  have hpost : creates (r2 ++ r3 ++ r4 ++ r5) = [] := by simp [h2', h3', h4', h5']
  have hcap : isCapacity ⟨.create, co.toOutcome⟩ = true := by
    rcases hco with rfl | rfl <;> simp [isCapacity, CreateOutcome.toOutcome]
  refine ⟨?_, ?_, ?_, hi, ?_, ?_, ?_⟩
  · rw [hcallsAll]
    exact capacityCalls_one _ _ _ _ (not_capacity_of_creates_nil _ hcalls) rfl (not_capacity_of_creates_nil _ hpost)
  · rw [hcallsAll]; simp
  · rw [hcallsAll]; simp
  · have hm := liveness_facts f (initialization sp f (registration sp f c1))
    rw [hm.2.2.2, (initialization_mem sp f (registration sp f c1)).1, (registration_mem sp f c1).1]
    exact hLl
  · intro hok
    have hpres : w0.claim.present = true := by
      unfold claimDeleteOutcome at hok
      split at hok
      · rename_i e _; cases e <;> simp [Err.toOutcome] at hok
      · split at hok
        · assumption
        · simp at hok
    have hg : c1.w.claim.gone := by rw [hLd hok]; exact (deleted_gone w0.claim).2.2 hpres
    have l2 := registration_claim sp f c1
    have l3 := initialization_claim sp f (registration sp f c1)
    have l4 := liveness_later f (initialization sp f (registration sp f c1))
    have l5 := persist_later m0 f (liveness f (initialization sp f (registration sp f c1)))
    rw [l3, l2] at l4
    exact (l4.trans l5).2 hg
  · intro h1 h2
    have he := hLe h1 h2
    have e2 := (registration_errs sp f c1).1 he
    have e3 := (initialization_errs sp f (registration sp f c1)).1 e2
    have e4 := (liveness_errs f (initialization sp f (registration sp f c1))).1 e3
    have n0 : NF { w := w0, mem := m0, calls := calls } := by intro h; simp at h
    have n1 : NF c1 := by rw [← hc1]; exact launch_NF f co _ n0
    have n2 := (registration_errs sp f c1).2 n1
    have n3 := (initialization_errs sp f (registration sp f c1)).2 n2
    have n4 := (liveness_errs f (initialization sp f (registration sp f c1))).2 n3
    exact persist_result m0 f _ e4 n4


/-! ### the same facts for one whole `Controller.Reconcile` (with its finalizer patch) -/

theorem vok_withFinalizer {c : Claim} (h : VOK c) : VOK { c with finalizer := true } :=
  ⟨h.ir, h.rl, h.pl, h.lp, h.ppl, h.lnf, fun _ => rfl⟩

theorem reconcileLive_flips (sp : Spec) (f : Faults) (co : CreateOutcome) {w : World} (h : Inv w) (view : Claim)
    (hv : view ∈ w.versions) (h1 : cleanTaints sp.taints) (h2 : cleanTaints sp.startup) :
    ((reconcileLive sp f co w view).w.claim.conds.r.status = .true_ → w.claim.conds.r.status ≠ .true_ →
      view.conds.r.status = .true_ ∨ registeredPre sp (reconcileLive sp f co w view).w.nodes = true) ∧
    ((reconcileLive sp f co w view).w.claim.conds.i.status = .true_ → w.claim.conds.i.status ≠ .true_ →
      view.conds.i.status = .true_ ∨ initializedPre sp (reconcileLive sp f co w view).w.nodes = true) := by
  have hsrv := h.vok w.claim (claim_mem_versions w)
  unfold reconcileLive
  by_cases hf : view.finalizer = true
  · rw [if_pos hf]
    exact runSubs_flips sp f co [] h (w0 := w) (m0 := view) rfl rfl rfl (h.vok _ hv) ⟨_, hv, rfl, rfl, rfl⟩ h1 h2
  · rw [if_neg hf]
    simp only []
    cases ho : finPatchOutcome f w
    case ok =>
      simp only []
      have := runSubs_flips sp f co [⟨.finPatch, .ok⟩] h
        (w0 := { w with claim := { w.claim with finalizer := true }, finEver := true })
        (m0 := { w.claim with finalizer := true }) rfl rfl rfl (vok_withFinalizer hsrv)
        ⟨w.claim, claim_mem_versions w, rfl, rfl, rfl⟩ h1 h2
      constructor
      · intro a b
        rcases this.1 a b with h0 | h0
        · exact absurd h0 b
        · exact Or.inr h0
      · intro a b
        rcases this.2 a b with h0 | h0
        · exact absurd h0 b
        · exact Or.inr h0
    all_goals exact ⟨fun a b => absurd a b, fun a b => absurd a b⟩

theorem reconcileLive_forward (sp : Spec) (f : Faults) (co : CreateOutcome) {w : World} (h : Inv w) :
    (w.claim.conds.l.status = .true_ → (reconcileLive sp f co w w.claim).w.claim.conds.l.status = .true_) ∧
    (w.claim.conds.r.status = .true_ → (reconcileLive sp f co w w.claim).w.claim.conds.r.status = .true_) ∧
    (w.claim.conds.i.status = .true_ → (reconcileLive sp f co w w.claim).w.claim.conds.i.status = .true_) := by
  have hsrv := h.vok w.claim (claim_mem_versions w)
  unfold reconcileLive
  by_cases hf : w.claim.finalizer = true
  · rw [if_pos hf]
    exact runSubs_forward sp f co [] h (w0 := w) (m0 := w.claim) rfl rfl rfl hsrv
      ⟨_, claim_mem_versions w, rfl, rfl, rfl⟩ rfl
  · rw [if_neg hf]
    simp only []
    cases ho : finPatchOutcome f w
    case ok =>
      simp only []
      exact runSubs_forward sp f co [⟨.finPatch, .ok⟩] h
        (w0 := { w with claim := { w.claim with finalizer := true }, finEver := true })
        (m0 := { w.claim with finalizer := true }) rfl rfl rfl (vok_withFinalizer hsrv)
        ⟨w.claim, claim_mem_versions w, rfl, rfl, rfl⟩ rfl
    all_goals exact ⟨id, id, id⟩

/-- a pass in which `Create` answered with a capacity error -/
theorem runSubs_capacity' (sp : Spec) (f : Faults) (co : CreateOutcome) (hco : co = .ice ∨ co = .ncnr)
    (w : World) (w0 : World) (m0 : Claim) (calls : List Call) (hcalls : creates calls = [])
    (hconds : w0.claim.conds = w.claim.conds) (hinst : w0.instances = w.instances)
    (hin : (⟨.create, co.toOutcome⟩ : Call) ∈ (runSubs sp f co w0 m0 calls).calls) :
    capacityCalls (runSubs sp f co w0 m0 calls).calls = true ∧
    (runSubs sp f co w0 m0 calls).w.instances = w.instances ∧
    ((runSubs sp f co w0 m0 calls).w.claim.conds.l.status = .true_ → w.claim.conds.l.status = .true_) ∧
    ∃ d, (⟨.claimDelete, d⟩ : Call) ∈ (runSubs sp f co w0 m0 calls).calls ∧
      (d = .ok → (runSubs sp f co w0 m0 calls).w.claim.gone) ∧
      (d ≠ .ok → d ≠ .notFound → (runSubs sp f co w0 m0 calls).result = .err ∨
        ∃ x ∈ (runSubs sp f co w0 m0 calls).calls, x.out = .notFound) := by
  -- the launch case is `failed`: the log contains `create:<capacity error>`
  obtain ⟨rest, hr, hcr⟩ := runSubs_calls sp f co w0 m0 calls
  have hmem : (⟨.create, co.toOutcome⟩ : Call) ∈ creates (runSubs sp f co w0 m0 calls).calls := by
    simp [creates, hin]
  rw [hr, creates_append, hcalls, List.nil_append, hcr] at hmem
  have hlc : launchCase co { w := w0, mem := m0, calls := calls } = .failed := by
    rcases launchCase_cases co { w := w0, mem := m0, calls := calls } with ⟨hc, _⟩ | ⟨hc, _⟩ | ⟨hc, _⟩ | ⟨hc, _⟩ | ⟨hc, _⟩
    all_goals rw [hc] at hmem
    all_goals try (simp [launchCreates] at hmem)
    · rcases hco with rfl | rfl <;> simp [CreateOutcome.toOutcome] at hmem
    · exact hc
  have hstat : m0.conds.l.status = .unknown := by
    rcases launchCase_cases co { w := w0, mem := m0, calls := calls } with ⟨hc, _⟩ | ⟨hc, _⟩ | ⟨hc, _⟩ | ⟨hc, _⟩ | ⟨_, hs, _⟩
    all_goals try (rw [hlc] at hc; exact absurd hc (by simp))
    exact hs
  obtain ⟨c1, c2, c3, c4, c5, c6, c7⟩ := runSubs_capacity sp f co w0 m0 calls hcalls hco hlc
  obtain ⟨_, _, _, _, _, mem, hmemeq, _, _, _, _, _, _, _, hclaim⟩ := runSubs_facts sp f co w0 m0 calls
  refine ⟨c1, by rw [c4, hinst], ?_, claimDeleteOutcome f w0, c3, c6, c7⟩
  intro hl
  rw [hconds] at hclaim
  have hml : mem.conds.l.status = .unknown := by rw [hmemeq, c5]; exact hstat
  rcases hclaim with ⟨ec, _, _⟩ | ⟨ec, _, _⟩
  · rw [ec] at hl; exact hl
  · split at ec
    · rw [ec] at hl; exact hl
    · rw [ec, hml] at hl; exact absurd hl (by simp)

theorem reconcileLive_capacity (sp : Spec) (f : Faults) (co : CreateOutcome) (hco : co = .ice ∨ co = .ncnr)
    (w : World) (view : Claim)
    (hin : (⟨.create, co.toOutcome⟩ : Call) ∈ (reconcileLive sp f co w view).calls) :
    capacityCalls (reconcileLive sp f co w view).calls = true ∧
    (reconcileLive sp f co w view).w.instances = w.instances ∧
    ((reconcileLive sp f co w view).w.claim.conds.l.status = .true_ → w.claim.conds.l.status = .true_) ∧
    ∃ d, (⟨.claimDelete, d⟩ : Call) ∈ (reconcileLive sp f co w view).calls ∧
      (d = .ok → (reconcileLive sp f co w view).w.claim.gone) ∧
      (d ≠ .ok → d ≠ .notFound → (reconcileLive sp f co w view).result = .err ∨
        ∃ x ∈ (reconcileLive sp f co w view).calls, x.out = .notFound) := by
  unfold reconcileLive at hin ⊢
  by_cases hf : view.finalizer = true
  · rw [if_pos hf] at hin ⊢
    exact runSubs_capacity' sp f co hco w w view [] rfl rfl rfl hin
  · rw [if_neg hf] at hin ⊢
    simp only [] at hin ⊢
    cases ho : finPatchOutcome f w
    case ok =>
      rw [ho] at hin
      simp only [] at hin ⊢
      exact runSubs_capacity' sp f co hco w _ _ [⟨.finPatch, .ok⟩] (by simp [creates]) rfl rfl hin
    all_goals
      rw [ho] at hin
      simp at hin

end Karp.Lifecycle
