/-
C11 helper lemmas: the object-layer invariant that ties the cache to the API and the ghost, and its preservation.
-/
import Karp.Proofs.ClusterStateGhost

namespace Karp.ClusterState
open Karp.Spec.ClusterAbs

/-- every object in the API is stored under its own name and respects the ownership of provider ids -/
structure ApiOK (w : Owners) (api : Api) : Prop where
  nodes : ∀ name v, Map.get api.nodes name = some v → v.name = name ∧ w.okNode v
  claims : ∀ name cl, Map.get api.claims name = some cl → cl.name = name ∧ w.okClaim cl

def Owners.okEvent (w : Owners) : Event → Prop
  | .setNode n => w.okNode n
  | .setClaim c => w.okClaim c
  | _ => True

theorem apiOK_empty (w : Owners) : ApiOK w {} := ⟨by intro n v h; simp at h, by intro n v h; simp at h⟩

theorem apiOK_step {w : Owners} {api : Api} (h : ApiOK w api) (e : Event) (he : w.okEvent e) : ApiOK w (api.step e) := by
  cases e with
  | setNode n =>
    refine ⟨?_, h.claims⟩
    intro name v hg
    simp only [Api.step] at hg
    rw [Map.get_put] at hg
    by_cases hn : name = n.name
    · rw [if_pos hn] at hg
      rw [← Option.some.inj hg]; exact ⟨hn.symm, he⟩
    · rw [if_neg hn] at hg; exact h.nodes name v hg
  | delNode k =>
    refine ⟨?_, h.claims⟩
    intro name v hg
    simp only [Api.step] at hg
    rw [Map.get_erase] at hg
    by_cases hn : name = k
    · rw [if_pos hn] at hg; simp at hg
    · rw [if_neg hn] at hg; exact h.nodes name v hg
  | setClaim c =>
    refine ⟨h.nodes, ?_⟩
    intro name v hg
    simp only [Api.step] at hg
    rw [Map.get_put] at hg
    by_cases hn : name = c.name
    · rw [if_pos hn] at hg
      rw [← Option.some.inj hg]; exact ⟨hn.symm, he⟩
    · rw [if_neg hn] at hg; exact h.claims name v hg
  | delClaim k =>
    refine ⟨h.nodes, ?_⟩
    intro name v hg
    simp only [Api.step] at hg
    rw [Map.get_erase] at hg
    by_cases hn : name = k
    · rw [if_pos hn] at hg; simp at hg
    · rw [if_neg hn] at hg; exact h.claims name v hg
  | setPod p => exact ⟨h.nodes, h.claims⟩
  | delPod k => exact ⟨h.nodes, h.claims⟩
  | recNode _ | recClaim _ | recPod _ | mark _ | unmark _ | nominate _ => exact h

/-- the cache knows the latest version of Node `name` -/
def NodeCons (o : OC) (api : Api) (name : String) : Prop :=
  match Map.get api.nodes name with
  | some v =>
    (match nodeKey v with
     | some k => ∃ s, Map.get o.nodes k = some s ∧ s.node = some (nodeStored v)
     | none => Map.get o.nn name = none)
  | none => Map.get o.nn name = none

/-- the cache knows the latest version of NodeClaim `name` -/
def ClaimCons (o : OC) (api : Api) (name : String) : Prop :=
  match Map.get api.claims name with
  | some cl =>
    if cl.managed then
      Map.get o.cn name = some cl.pid ∧ (cl.pid ≠ "" → ∃ s, Map.get o.nodes cl.pid = some s ∧ s.claim = some cl)
    else Map.get o.cn name = none
  | none => Map.get o.cn name = none

structure OInv (w : Owners) (o : OC) (api : Api) (g : Ghost) : Prop where
  st : Struct w o
  m1 : o.nn = g.obsNodes
  m2 : o.cn = g.obsClaims
  n1 : Map.NoDup o.nn
  n2 : Map.NoDup o.cn
  cn : ∀ name, ("n", name) ∉ g.dirty → NodeCons o api name
  cc : ∀ name, ("c", name) ∉ g.dirty → ClaimCons o api name
  mks : ∀ id s, Map.get o.nodes id = some s → s.marked = g.marked.contains id ∧ s.nominated = g.nominated.contains id
  mt : ∀ id, (g.marked.contains id = true ∨ g.nominated.contains id = true) → (Map.get o.nodes id).isSome = true

theorem oinv_empty (w : Owners) : OInv w {} {} {} :=
  ⟨struct_empty w, rfl, rfl, Map.noDup_nil, Map.noDup_nil, fun _ _ => rfl, fun _ _ => rfl,
   by intro id s h; simp at h, by intro id h; simp at h⟩

theorem OInv.tracked {w : Owners} {o : OC} {api : Api} {g : Ghost} (h : OInv w o api g) (id : String) :
    g.tracked id = true ↔ (Map.get o.nodes id).isSome = true :=
  tracked_iff h.st h.m1 h.m2 h.n1 h.n2 id

theorem OInv.prune_eq {w : Owners} {o : OC} {api : Api} {g : Ghost} (h : OInv w o api g) : g.prune = g := by
  unfold Ghost.prune
  have h1 : g.marked.filter g.tracked = g.marked := by
    rw [List.filter_eq_self]
    intro a ha
    exact (h.tracked a).mpr (h.mt a (Or.inl (List.contains_iff_mem.mpr ha)))
  have h2 : g.nominated.filter g.tracked = g.nominated := by
    rw [List.filter_eq_self]
    intro a ha
    exact (h.tracked a).mpr (h.mt a (Or.inr (List.contains_iff_mem.mpr ha)))
  rw [h1, h2]

/-- marks after a reconcile: whatever the reconcile did to the object layer, if the surviving / new entries carry the
    mark of the entry previously stored under the same id (a new entry starts unmarked), the marks agree with the pruned ghost -/
theorem marks_after {w : Owners} {o o' : OC} {api : Api} {g g1 : Ghost} (h : OInv w o api g)
    (st' : Struct w o') (m1 : o'.nn = g1.obsNodes) (m2 : o'.cn = g1.obsClaims) (n1 : Map.NoDup o'.nn) (n2 : Map.NoDup o'.cn)
    (hm : g1.marked = g.marked) (hn : g1.nominated = g.nominated)
    (carry : ∀ id s', Map.get o'.nodes id = some s' →
      s'.marked = ((Map.get o.nodes id).getD {}).marked ∧ s'.nominated = ((Map.get o.nodes id).getD {}).nominated) :
    (∀ id s, Map.get o'.nodes id = some s → s.marked = g1.prune.marked.contains id ∧ s.nominated = g1.prune.nominated.contains id) ∧
    (∀ id, (g1.prune.marked.contains id = true ∨ g1.prune.nominated.contains id = true) → (Map.get o'.nodes id).isSome = true) := by
  have htr := tracked_iff st' m1 m2 n1 n2
  have hpm : ∀ id, g1.prune.marked.contains id = (g.marked.contains id && g1.tracked id) := by
    intro id; unfold Ghost.prune; dsimp only; rw [contains_filter, hm]
  have hpn : ∀ id, g1.prune.nominated.contains id = (g.nominated.contains id && g1.tracked id) := by
    intro id; unfold Ghost.prune; dsimp only; rw [contains_filter, hn]
  have old : ∀ id, ((Map.get o.nodes id).getD {}).marked = g.marked.contains id ∧
      ((Map.get o.nodes id).getD {}).nominated = g.nominated.contains id := by
    intro id
    cases hg : Map.get o.nodes id with
    | some s => exact h.mks id s hg
    | none =>
      constructor
      · cases hc : g.marked.contains id with
        | false => rfl
        | true => have := h.mt id (Or.inl hc); rw [hg] at this; simp at this
      · cases hc : g.nominated.contains id with
        | false => rfl
        | true => have := h.mt id (Or.inr hc); rw [hg] at this; simp at this
  constructor
  · intro id s hs
    have ht : g1.tracked id = true := (htr id).mpr (by rw [hs]; rfl)
    rw [hpm, hpn, ht, Bool.and_true, Bool.and_true, (carry id s hs).1, (carry id s hs).2]
    exact old id
  · intro id hc
    rw [hpm, hpn] at hc
    apply (htr id).mp
    rcases hc with hc | hc
    · exact (Bool.and_eq_true _ _ ▸ hc).2
    · exact (Bool.and_eq_true _ _ ▸ hc).2

/-! ### API changes and pod reconciles leave the object layer alone -/

theorem nodeCons_congr {o : OC} {api api' : Api} {name : String} (h : Map.get api'.nodes name = Map.get api.nodes name)
    (hc : NodeCons o api name) : NodeCons o api' name := by
  unfold NodeCons at *; rw [h]; exact hc

theorem claimCons_congr {o : OC} {api api' : Api} {name : String} (h : Map.get api'.claims name = Map.get api.claims name)
    (hc : ClaimCons o api name) : ClaimCons o api' name := by
  unfold ClaimCons at *; rw [h]; exact hc

/-- an API change: the changed key becomes dirty, nothing else moves -/
theorem oinv_api {w : Owners} {o : OC} {api api' : Api} {g : Ghost} (h : OInv w o api g) (k n : String)
    (hn : ∀ name, (k = "n" → name ≠ n) → Map.get api'.nodes name = Map.get api.nodes name)
    (hc : ∀ name, (k = "c" → name ≠ n) → Map.get api'.claims name = Map.get api.claims name) :
    OInv w o api' (g.soil k n) := by
  have hd : ∀ x, x ∉ (g.soil k n).dirty → x ∉ g.dirty ∧ x ≠ (k, n) := by
    intro x hx
    rw [mem_soil] at hx
    exact ⟨fun a => hx (Or.inr a), fun a => hx (Or.inl a)⟩
  have e1 : (g.soil k n).obsNodes = g.obsNodes := by unfold Ghost.soil; split <;> rfl
  have e2 : (g.soil k n).obsClaims = g.obsClaims := by unfold Ghost.soil; split <;> rfl
  have e3 : (g.soil k n).marked = g.marked := by unfold Ghost.soil; split <;> rfl
  have e4 : (g.soil k n).nominated = g.nominated := by unfold Ghost.soil; split <;> rfl
  refine ⟨h.st, by rw [e1]; exact h.m1, by rw [e2]; exact h.m2, h.n1, h.n2, ?_, ?_, by rw [e3, e4]; exact h.mks, by rw [e3, e4]; exact h.mt⟩
  · intro name hx
    have := hd _ hx
    apply nodeCons_congr (hn name ?_) (h.cn name this.1)
    intro hk e
    apply this.2
    rw [hk, e]
  · intro name hx
    have := hd _ hx
    apply claimCons_congr (hc name ?_) (h.cc name this.1)
    intro hk e
    apply this.2
    rw [hk, e]

theorem oinv_recPod {w : Owners} {o : OC} {api : Api} {g : Ghost} (h : OInv w o api g) (name : String) :
    OInv w o api (g.clean "p" name) := by
  have hd : ∀ k x, k ≠ "p" → ((k, x) ∉ (g.clean "p" name).dirty ↔ (k, x) ∉ g.dirty) := by
    intro k x hk
    rw [mem_clean]
    constructor
    · intro a b; apply a; refine ⟨b, ?_⟩; intro e; exact hk (Prod.mk.inj e).1
    · intro a b; exact a b.1
  refine ⟨h.st, h.m1, h.m2, h.n1, h.n2, ?_, ?_, h.mks, h.mt⟩
  · intro n hx; exact h.cn n ((hd "n" n (by decide)).mp hx)
  · intro n hx; exact h.cc n ((hd "c" n (by decide)).mp hx)

/-! ### marks and nominations -/

theorem nodeCons_touch {o : OC} {api : Api} {name : String} (id : String) (s s' : Objs) (hs : Map.get o.nodes id = some s)
    (h1 : s'.node = s.node) (hc : NodeCons o api name) : NodeCons { o with nodes := Map.put o.nodes id s' } api name := by
  unfold NodeCons at *
  cases hv : Map.get api.nodes name with
  | none => rw [hv] at hc; exact hc
  | some v =>
    rw [hv] at hc
    dsimp only at hc ⊢
    cases hk : nodeKey v with
    | none => rw [hk] at hc; exact hc
    | some k =>
      rw [hk] at hc
      dsimp only at hc ⊢
      obtain ⟨x, hx, hxv⟩ := hc
      by_cases he : k = id
      · refine ⟨s', by rw [Map.get_put, if_pos he], ?_⟩
        rw [he, hs] at hx
        rw [h1, Option.some.inj hx]; exact hxv
      · exact ⟨x, by rw [Map.get_put, if_neg he]; exact hx, hxv⟩

theorem claimCons_touch {o : OC} {api : Api} {name : String} (id : String) (s s' : Objs) (hs : Map.get o.nodes id = some s)
    (h2 : s'.claim = s.claim) (hc : ClaimCons o api name) : ClaimCons { o with nodes := Map.put o.nodes id s' } api name := by
  unfold ClaimCons at *
  cases hv : Map.get api.claims name with
  | none => rw [hv] at hc; exact hc
  | some cl =>
    rw [hv] at hc
    dsimp only at hc ⊢
    by_cases hm : cl.managed = true
    · rw [if_pos hm] at hc ⊢
      refine ⟨hc.1, ?_⟩
      intro hp
      obtain ⟨x, hx, hxc⟩ := hc.2 hp
      by_cases he : cl.pid = id
      · refine ⟨s', by rw [Map.get_put, if_pos he], ?_⟩
        rw [he, hs] at hx
        rw [h2, Option.some.inj hx]; exact hxc
      · exact ⟨x, by rw [Map.get_put, if_neg he]; exact hx, hxc⟩
    · rw [if_neg hm] at hc ⊢; exact hc

theorem oinv_mark {w : Owners} {o : OC} {api : Api} {g : Ghost} (h : OInv w o api g) (pid : String) :
    OInv w (o.setMark pid true) api (g.step api (.mark pid)) ∧ OInv w (o.setMark pid false) api (g.step api (.unmark pid)) ∧
    OInv w (o.nominate pid) api (g.step api (.nominate pid)) := by
  simp only [Ghost.step]
  unfold OC.setMark OC.nominate
  cases hs : Map.get o.nodes pid with
  | none =>
    have ht : g.tracked pid = false := by
      cases hc : g.tracked pid with
      | false => rfl
      | true => have := (h.tracked pid).mp hc; rw [hs] at this; simp at this
    have hm : g.marked.contains pid = false := by
      cases hc : g.marked.contains pid with
      | false => rfl
      | true => have := h.mt pid (Or.inl hc); rw [hs] at this; simp at this
    rw [ht]
    refine ⟨h, ?_, h⟩
    refine ⟨h.st, h.m1, h.m2, h.n1, h.n2, h.cn, h.cc, ?_, ?_⟩
    · intro id s hx
      dsimp only
      rw [contains_sErase]
      by_cases he : id = pid
      · rw [he, hs] at hx; simp at hx
      · simp only [he, decide_false, Bool.not_false, Bool.true_and]; exact h.mks id s hx
    · intro id hx
      dsimp only at hx
      rw [contains_sErase] at hx
      apply h.mt id
      rcases hx with hx | hx
      · left; exact (Bool.and_eq_true _ _ ▸ hx).2
      · right; exact hx
  | some s =>
    have ht : g.tracked pid = true := (h.tracked pid).mpr (by rw [hs]; rfl)
    rw [ht]
    dsimp only
    have key : ∀ (s' : Objs) (g' : Ghost), s'.node = s.node → s'.claim = s.claim →
        g'.obsNodes = g.obsNodes → g'.obsClaims = g.obsClaims → g'.dirty = g.dirty →
        (s'.marked = g'.marked.contains pid ∧ s'.nominated = g'.nominated.contains pid) →
        (∀ id, id ≠ pid → g'.marked.contains id = g.marked.contains id ∧ g'.nominated.contains id = g.nominated.contains id) →
        OInv w { o with nodes := Map.put o.nodes pid s' } api g' := by
      intro s' g' h1 h2 e1 e2 e3 hp hother
      refine ⟨struct_touch h.st pid s s' hs h1 h2, by rw [e1]; exact h.m1, by rw [e2]; exact h.m2, h.n1, h.n2, ?_, ?_, ?_, ?_⟩
      · intro n hx; rw [e3] at hx; exact nodeCons_touch pid s s' hs h1 (h.cn n hx)
      · intro n hx; rw [e3] at hx; exact claimCons_touch pid s s' hs h2 (h.cc n hx)
      · intro id x hx
        have hx' : Map.get (Map.put o.nodes pid s') id = some x := hx
        rw [Map.get_put] at hx'
        by_cases he : id = pid
        · rw [if_pos he] at hx'
          rw [← Option.some.inj hx', he]; exact hp
        · rw [if_neg he] at hx'
          rw [(hother id he).1, (hother id he).2]; exact h.mks id x hx'
      · intro id hx
        show (Map.get (Map.put o.nodes pid s') id).isSome = true
        rw [Map.get_put]
        by_cases he : id = pid
        · rw [if_pos he]; rfl
        · rw [if_neg he]
          rw [(hother id he).1, (hother id he).2] at hx; exact h.mt id hx
    refine ⟨?_, ?_, ?_⟩
    · apply key { s with marked := true } { g with marked := sInsert pid g.marked } rfl rfl rfl rfl rfl
      · exact ⟨by dsimp only; rw [contains_sInsert]; simp, (h.mks pid s hs).2⟩
      · intro id he; dsimp only; rw [contains_sInsert]; simp [he]
    · apply key { s with marked := false } { g with marked := sErase pid g.marked } rfl rfl rfl rfl rfl
      · exact ⟨by dsimp only; rw [contains_sErase]; simp, (h.mks pid s hs).2⟩
      · intro id he; dsimp only; rw [contains_sErase]; simp [he]
    · apply key { s with nominated := true } { g with nominated := sInsert pid g.nominated } rfl rfl rfl rfl rfl
      · exact ⟨(h.mks pid s hs).1, by dsimp only; rw [contains_sInsert]; simp⟩
      · intro id he; dsimp only; rw [contains_sInsert]; simp [he]

end Karp.ClusterState
