/-
C11 helper lemmas: what the object-layer invariant says once every changed object has been reconciled.
-/
import Karp.Proofs.ClusterStateRun

namespace Karp.ClusterState
open Karp.Spec.ClusterAbs

/-! ### the API maps keep distinct keys -/

structure ApiND (api : Api) : Prop where
  nodes : Map.NoDup api.nodes
  claims : Map.NoDup api.claims
  pods : Map.NoDup api.pods

theorem apiND_empty : ApiND {} := ⟨Map.noDup_nil, Map.noDup_nil, Map.noDup_nil⟩

theorem apiND_step {api : Api} (h : ApiND api) (e : Event) : ApiND (api.step e) := by
  cases e with
  | setNode n => exact ⟨Map.noDup_put h.nodes _ _, h.claims, h.pods⟩
  | delNode k => exact ⟨Map.noDup_erase h.nodes _, h.claims, h.pods⟩
  | setClaim c => exact ⟨h.nodes, Map.noDup_put h.claims _ _, h.pods⟩
  | delClaim k => exact ⟨h.nodes, Map.noDup_erase h.claims _, h.pods⟩
  | setPod p => exact ⟨h.nodes, h.claims, Map.noDup_put h.pods _ _⟩
  | delPod k => exact ⟨h.nodes, h.claims, Map.noDup_erase h.pods _⟩
  | recNode _ | recClaim _ | recPod _ | mark _ | unmark _ | nominate _ => exact h

theorem apiND_run (es : List Event) : ∀ api, ApiND api → ApiND (apiRun api es) := by
  induction es with
  | nil => intro api h; exact h
  | cons e es ih => intro api h; exact ih _ (apiND_step h e)

/-! ### finding the unique value with a property -/

theorem Map.mem_vals {α : Type} {m : Map α} {v : α} (h : v ∈ Map.vals m) : ∃ k, (k, v) ∈ m := by
  unfold Map.vals at h
  rw [List.mem_map] at h
  obtain ⟨e, he, hv⟩ := h
  exact ⟨e.1, by rw [← hv]; exact he⟩

theorem Map.find_vals_none {α : Type} (m : Map α) (p : α → Bool) (h : ∀ k v, (k, v) ∈ m → p v = false) :
    (Map.vals m).find? p = none := by
  rw [List.find?_eq_none]
  intro v hv
  obtain ⟨k, hk⟩ := Map.mem_vals hv
  rw [h k v hk]; simp

theorem Map.find_vals_unique {α : Type} (m : Map α) (p : α → Bool) (k : String) (v : α) (hn : Map.NoDup m)
    (hm : (k, v) ∈ m) (hp : p v = true) (hu : ∀ k' v', (k', v') ∈ m → p v' = true → k' = k) :
    (Map.vals m).find? p = some v := by
  induction m with
  | nil => simp at hm
  | cons e m ih =>
    obtain ⟨k0, v0⟩ := e
    rw [Map.noDup_cons] at hn
    show List.find? p (v0 :: Map.vals m) = some v
    by_cases hp0 : p v0 = true
    · rw [List.find?_cons_of_pos hp0]
      have hk0 : k0 = k := hu k0 v0 List.mem_cons_self hp0
      rcases List.mem_cons.mp hm with hm | hm
      · rw [(Prod.mk.inj hm).2]
      · exfalso
        apply hn.1
        rw [hk0]
        exact Map.mem_keys_of_get (Map.get_of_mem hn.2 hm)
    · rw [List.find?_cons_of_neg hp0]
      rcases List.mem_cons.mp hm with hm | hm
      · rw [(Prod.mk.inj hm).2] at hp; exact absurd hp hp0
      · exact ih hn.2 hm (fun k' v' h' hp' => hu k' v' (List.mem_cons_of_mem _ h') hp')

/-! ### quiescence -/

def absObjs (a : AbsNode) : Objs := ⟨a.node?, a.claim?, a.marked, a.nominated⟩

theorem absNodeAt_objs (api : Api) (g : Ghost) (pid : String) :
    (absNodeAt api g pid).map absObjs =
      (match (api.nodes.vals.find? (fun n => nodeKey n = some pid)).map nodeStored,
             api.claims.vals.find? (fun c => claimKey c = some pid) with
       | none, none => none
       | n, c => some ⟨n, c, g.marked.contains pid, g.nominated.contains pid⟩) := by
  unfold absNodeAt
  dsimp only
  cases (api.nodes.vals.find? (fun n => nodeKey n = some pid)).map nodeStored <;>
    cases api.claims.vals.find? (fun c => claimKey c = some pid) <;> rfl

theorem claimKey_some {cl : ClaimObj} {pid : String} (h : claimKey cl = some pid) : cl.managed = true ∧ cl.pid = pid ∧ pid ≠ "" := by
  unfold claimKey at h
  split at h
  · rename_i hc
    simp only [Bool.and_eq_true, decide_eq_true_eq] at hc
    have := Option.some.inj h
    exact ⟨hc.1, this, by rw [← this]; exact hc.2⟩
  · simp at h

/-- **once every changed object has been reconciled, the cache holds under every provider id exactly the latest Node and
    NodeClaim carrying that id, with the ghost's marks** -/
theorem quiescent_objects {w : Owners} {o : OC} {api : Api} {g : Ghost} (h : OInv w o api g) (hapi : ApiOK w api)
    (hnd : ApiND api) (hq : g.dirty = []) (pid : String) :
    Map.get o.nodes pid = (absNodeAt api g pid).map absObjs := by
  have hcn : ∀ name, NodeCons o api name := fun name => h.cn name (by rw [hq]; simp)
  have hcc : ∀ name, ClaimCons o api name := fun name => h.cc name (by rw [hq]; simp)
  rw [absNodeAt_objs]
  -- an API node with key `pid` is in the cache under `pid`
  have nodeIn : ∀ k v, (k, v) ∈ api.nodes → nodeKey v = some pid →
      ∃ s, Map.get o.nodes pid = some s ∧ s.node = some (nodeStored v) := by
    intro k v hm hk
    have hg := Map.get_of_mem hnd.nodes hm
    have := hcn k
    unfold NodeCons at this
    rw [hg] at this; dsimp only at this
    rw [hk] at this; exact this
  have claimIn : ∀ k cl, (k, cl) ∈ api.claims → claimKey cl = some pid →
      ∃ s, Map.get o.nodes pid = some s ∧ s.claim = some cl := by
    intro k cl hm hk
    have hg := Map.get_of_mem hnd.claims hm
    obtain ⟨hmg, hp, hne⟩ := claimKey_some hk
    have := hcc k
    unfold ClaimCons at this
    rw [hg] at this; dsimp only at this
    rw [if_pos hmg] at this
    rw [← hp]
    exact this.2 (by rw [hp]; exact hne)
  -- the node part
  have nodePart : ∀ s, Map.get o.nodes pid = some s →
      (api.nodes.vals.find? (fun n => nodeKey n = some pid)).map nodeStored = s.node := by
    intro s hs
    cases hv : s.node with
    | none =>
      rw [Map.find_vals_none]; · rfl
      intro k v hm
      cases hd : decide (nodeKey v = some pid) with
      | false => rfl
      | true =>
        obtain ⟨s', hs', hv'⟩ := nodeIn k v hm (of_decide_eq_true hd)
        rw [hs] at hs'
        rw [← Option.some.inj hs', hv] at hv'
        simp at hv'
    | some v =>
      have hb := h.st.nb pid s v hs hv
      have hc := hcn v.name
      unfold NodeCons at hc
      cases hg : Map.get api.nodes v.name with
      | none => rw [hg] at hc; dsimp only at hc; rw [hb.1] at hc; simp at hc
      | some v' =>
        rw [hg] at hc; dsimp only at hc
        have hv'name : v'.name = v.name := (hapi.nodes v.name v' hg).1
        cases hk : nodeKey v' with
        | none => rw [hk] at hc; dsimp only at hc; rw [hb.1] at hc; simp at hc
        | some k =>
          rw [hk] at hc; dsimp only at hc
          obtain ⟨s', hs', hsv'⟩ := hc
          have hb' := h.st.nb k s' _ hs' hsv'
          rw [nodeStored_name, hv'name, hb.1] at hb'
          have hkp : pid = k := Option.some.inj hb'.1
          rw [← hkp, hs] at hs'
          rw [← Option.some.inj hs', hv] at hsv'
          rw [Map.find_vals_unique api.nodes _ v.name v' hnd.nodes (Map.mem_of_get hg) (by rw [hk, hkp]; simp)]
          · simp only [Option.map_some]; exact hsv'.symm
          · intro k2 v2 hm2 hp2
            have hk2 : nodeKey v2 = some pid := of_decide_eq_true hp2
            have hg2 := Map.get_of_mem hnd.nodes hm2
            have ha2 := hapi.nodes k2 v2 hg2
            rw [← ha2.1, ← ha2.2.1, ← nodeKey_some hk2, hb.2.2.1]
  have claimPart : ∀ s, Map.get o.nodes pid = some s →
      api.claims.vals.find? (fun c => claimKey c = some pid) = s.claim := by
    intro s hs
    have hpid : pid ≠ "" := by intro e; rw [e, h.st.k0] at hs; simp at hs
    cases hv : s.claim with
    | none =>
      rw [Map.find_vals_none]
      intro k cl hm
      cases hd : decide (claimKey cl = some pid) with
      | false => rfl
      | true =>
        obtain ⟨s', hs', hv'⟩ := claimIn k cl hm (of_decide_eq_true hd)
        rw [hs] at hs'
        rw [← Option.some.inj hs', hv] at hv'
        simp at hv'
    | some cl =>
      have hb := h.st.cb pid s cl hs hv
      have hc := hcc cl.name
      unfold ClaimCons at hc
      cases hg : Map.get api.claims cl.name with
      | none => rw [hg] at hc; dsimp only at hc; rw [hb.1] at hc; simp at hc
      | some cl' =>
        rw [hg] at hc; dsimp only at hc
        by_cases hm : cl'.managed = true
        · rw [if_pos hm] at hc
          rw [hb.1] at hc
          have hpp : pid = cl'.pid := Option.some.inj hc.1
          obtain ⟨s', hs', hsc'⟩ := hc.2 (by rw [← hpp]; exact hpid)
          rw [← hpp, hs] at hs'
          rw [← Option.some.inj hs', hv] at hsc'
          have hck : claimKey cl' = some pid := by
            unfold claimKey
            rw [hm, ← hpp]
            simp [hpid]
          rw [Map.find_vals_unique api.claims _ cl.name cl' hnd.claims (Map.mem_of_get hg) (by rw [hck]; simp)]
          · exact hsc'.symm
          · intro k2 cl2 hm2 hp2
            have hk2 := claimKey_some (of_decide_eq_true hp2)
            have hg2 := Map.get_of_mem hnd.claims hm2
            have ha2 := hapi.claims k2 cl2 hg2
            rw [← ha2.1, ← ha2.2.1 (by rw [hk2.2.1]; exact hk2.2.2), hk2.2.1, hb.2.2]
        · rw [if_neg hm] at hc; rw [hb.1] at hc; simp at hc
  cases hs : Map.get o.nodes pid with
  | some s =>
    rw [nodePart s hs, claimPart s hs]
    have hmk := h.mks pid s hs
    have hne := h.st.ne pid s hs
    cases hn : s.node with
    | some v =>
      dsimp only
      rw [← hmk.1, ← hmk.2, ← hn]
    | none =>
      cases hc : s.claim with
      | some cl =>
        dsimp only
        rw [← hmk.1, ← hmk.2, ← hn, ← hc]
      | none => rw [hn, hc] at hne; simp at hne
  | none =>
    have h1 : (api.nodes.vals.find? (fun n => nodeKey n = some pid)).map nodeStored = none := by
      rw [Map.find_vals_none]; · rfl
      intro k v hm
      cases hd : decide (nodeKey v = some pid) with
      | false => rfl
      | true =>
        obtain ⟨s', hs', _⟩ := nodeIn k v hm (of_decide_eq_true hd)
        rw [hs] at hs'; simp at hs'
    have h2 : api.claims.vals.find? (fun c => claimKey c = some pid) = none := by
      rw [Map.find_vals_none]
      intro k cl hm
      cases hd : decide (claimKey cl = some pid) with
      | false => rfl
      | true =>
        obtain ⟨s', hs', _⟩ := claimIn k cl hm (of_decide_eq_true hd)
        rw [hs] at hs'; simp at hs'
    rw [h1, h2]

end Karp.ClusterState
