/-
Helper lemmas for the shared-counter half of C17 (`Karp.DraBudget`): the budget the tracker keeps is exactly
`initial − Σ over NodeClaims of the max over instance types` along every sequence of commits and releases, and it never
goes negative when every commit passed the allocator's guard.
-/
import Karp.Model.DraBudget
import Karp.Proofs.DraTrackerLemmas

namespace Karp.DraBudget
open Karp.DraTracker (dedupe dedupe_spec)

/-! ### `maxOf` -/

theorem foldmax_ge_init (l : List (IT × Int)) : ∀ a : Int, a ≤ l.foldl (fun m x => max m x.2) a := by
  induction l with
  | nil => intro a; simp
  | cons x r ih =>
    intro a
    simp only [List.foldl_cons]
    have := ih (max a x.2)
    omega

theorem foldmax_ge_mem (l : List (IT × Int)) : ∀ (a : Int) (x : IT × Int), x ∈ l → x.2 ≤ l.foldl (fun m x => max m x.2) a := by
  induction l with
  | nil => intro a x h; simp at h
  | cons y r ih =>
    intro a x h
    simp only [List.foldl_cons]
    rcases List.mem_cons.mp h with h | h
    · subst h
      have := foldmax_ge_init r (max a x.2)
      omega
    · exact ih _ x h

theorem foldmax_le (l : List (IT × Int)) : ∀ (a b : Int), a ≤ b → (∀ x ∈ l, x.2 ≤ b) → l.foldl (fun m x => max m x.2) a ≤ b := by
  induction l with
  | nil => intro a b h _; simpa using h
  | cons y r ih =>
    intro a b h hl
    simp only [List.foldl_cons]
    apply ih
    · have := hl y (List.mem_cons_self ..)
      omega
    · intro x hx
      exact hl x (List.mem_cons_of_mem _ hx)

theorem maxOf_nonneg (l : List (IT × Int)) : 0 ≤ maxOf l := foldmax_ge_init l 0

theorem le_maxOf (l : List (IT × Int)) (x : IT × Int) (h : x ∈ l) : x.2 ≤ maxOf l := foldmax_ge_mem l 0 x h

theorem maxOf_le (l : List (IT × Int)) (b : Int) (hb : 0 ≤ b) (h : ∀ x ∈ l, x.2 ≤ b) : maxOf l ≤ b := foldmax_le l 0 b hb h

theorem maxOf_nil : maxOf [] = 0 := rfl

theorem maxOf_filter_le (l : List (IT × Int)) (p : IT × Int → Bool) : maxOf (l.filter p) ≤ maxOf l :=
  maxOf_le _ _ (maxOf_nonneg l) (fun x hx => le_maxOf l x (List.mem_filter.mp hx).1)

/-! ### `val` -/

theorem val_cases (l : List (IT × Int)) (j : IT) : val l j = 0 ∨ (j, val l j) ∈ l := by
  induction l with
  | nil => left; rfl
  | cons y r ih =>
    obtain ⟨i, v⟩ := y
    simp only [val]
    by_cases h : (i == j) = true
    · right
      have : i = j := by simpa using h
      subst this
      simp
    · simp only [h]
      rcases ih with h0 | hm
      · left; simpa using h0
      · right
        simp only [Bool.false_eq_true, if_false]
        exact List.mem_cons_of_mem _ hm

theorem val_le_maxOf (l : List (IT × Int)) (j : IT) : val l j ≤ maxOf l := by
  rcases val_cases l j with h | h
  · rw [h]; exact maxOf_nonneg l
  · exact le_maxOf l _ h

theorem val_nonneg (l : List (IT × Int)) (j : IT) (h : ∀ x ∈ l, 0 ≤ x.2) : 0 ≤ val l j := by
  rcases val_cases l j with h0 | hm
  · omega
  · exact h _ hm

theorem val_le (l : List (IT × Int)) (j : IT) (b : Int) (hb : 0 ≤ b) (h : ∀ x ∈ l, x.2 ≤ b) : val l j ≤ b := by
  rcases val_cases l j with h0 | hm
  · omega
  · exact h _ hm

/-- with distinct instance types every entry is the value `val` finds -/
theorem val_of_mem (l : List (IT × Int)) (hn : (l.map (·.1)).Nodup) (j : IT) (v : Int) (h : (j, v) ∈ l) : val l j = v := by
  induction l with
  | nil => simp at h
  | cons y r ih =>
    obtain ⟨i, w⟩ := y
    simp only [List.map_cons, List.nodup_cons] at hn
    simp only [val]
    rcases List.mem_cons.mp h with h | h
    · cases h
      simp
    · have hne : i ≠ j := by
        intro e
        subst e
        exact hn.1 (List.mem_map.mpr ⟨(i, v), h, rfl⟩)
      have : (i == j) = false := by simpa using hne
      simp only [this, Bool.false_eq_true, if_false]
      exact ih hn.2 h

/-! ### `merge` -/

theorem merge_keys_nodup (old new : List (IT × Int)) : ((merge old new).map (·.1)).Nodup := by
  unfold merge
  rw [List.map_map]
  have : ((fun x : IT × Int => x.1) ∘ fun j => (j, val old j + val new j)) = id := by
    funext j; rfl
  rw [this, List.map_id]
  exact (dedupe_spec _).1

theorem mem_merge (old new : List (IT × Int)) (x : IT × Int) (h : x ∈ merge old new) : x.2 = val old x.1 + val new x.1 := by
  unfold merge at h
  obtain ⟨j, _, rfl⟩ := List.mem_map.mp h
  rfl

theorem merge_nonneg (old new : List (IT × Int)) (ho : ∀ x ∈ old, 0 ≤ x.2) (hn : ∀ x ∈ new, 0 ≤ x.2) :
    ∀ x ∈ merge old new, 0 ≤ x.2 := by
  intro x hx
  rw [mem_merge old new x hx]
  have := val_nonneg old x.1 ho
  have := val_nonneg new x.1 hn
  omega

/-- a guarded allocation raises the NodeClaim's maximum by at most the remaining budget -/
theorem maxOf_merge_le (old new : List (IT × Int)) (R : Int) (hR : 0 ≤ R) (hn : ∀ x ∈ new, x.2 ≤ R) :
    maxOf (merge old new) ≤ maxOf old + R := by
  apply maxOf_le
  · have := maxOf_nonneg old; omega
  · intro x hx
    rw [mem_merge old new x hx]
    have := val_le_maxOf old x.1
    have := val_le new x.1 R hR hn
    omega

/-- … and never lowers it -/
theorem maxOf_le_merge (old new : List (IT × Int)) (hk : (old.map (·.1)).Nodup) (hn : ∀ x ∈ new, 0 ≤ x.2) :
    maxOf old ≤ maxOf (merge old new) := by
  apply maxOf_le _ _ (maxOf_nonneg _)
  intro x hx
  obtain ⟨j, v⟩ := x
  have hj : j ∈ dedupe (old.map (·.1) ++ new.map (·.1)) :=
    ((dedupe_spec _).2 j).mpr (List.mem_append.mpr (Or.inl (List.mem_map.mpr ⟨(j, v), hx, rfl⟩)))
  have hm : (j, val old j + val new j) ∈ merge old new := by
    unfold merge
    exact List.mem_map.mpr ⟨j, hj, rfl⟩
  have h1 := le_maxOf _ _ hm
  have h2 := val_of_mem old hk j v hx
  have h3 := val_nonneg new j hn
  simp only at h1 ⊢
  omega

/-! ### `worst`, `setNC` -/

theorem lookup_none_of_not_mem (s : List (NC × List (IT × Int))) (nc : NC) (h : nc ∉ s.map (·.1)) : s.lookup nc = none := by
  induction s with
  | nil => rfl
  | cons e r ih =>
    obtain ⟨n, l⟩ := e
    simp only [List.map_cons, List.mem_cons, not_or] at h
    have : (nc == n) = false := by simpa using h.1
    simp only [List.lookup_cons, this]
    exact ih h.2

theorem filter_ne_of_not_mem (s : List (NC × List (IT × Int))) (nc : NC) (h : nc ∉ s.map (·.1)) :
    s.filter (fun e => e.1 != nc) = s := by
  apply List.filter_eq_self.mpr
  intro e he
  have : e.1 ≠ nc := fun eq => h (List.mem_map.mpr ⟨e, he, eq⟩)
  simpa using this

theorem worst_filter (s : List (NC × List (IT × Int))) (nc : NC) (hk : (s.map (·.1)).Nodup) :
    worst (s.filter (fun e => e.1 != nc)) = worst s - maxOf (storedOf s nc) := by
  induction s with
  | nil => simp [worst, storedOf, maxOf_nil]
  | cons e r ih =>
    obtain ⟨n, l⟩ := e
    simp only [List.map_cons, List.nodup_cons] at hk
    by_cases h : n = nc
    · subst h
      have hf := filter_ne_of_not_mem r n hk.1
      simp only [List.filter_cons, bne_self_eq_false, Bool.false_eq_true, if_false, hf, worst, storedOf,
        List.lookup_cons, beq_self_eq_true, Option.getD_some]
      omega
    · have h1 : (n != nc) = true := by simpa using h
      have h2 : (nc == n) = false := by simpa using (fun e => h e.symm)
      have := ih hk.2
      simp only [List.filter_cons, h1, if_true, worst, storedOf, List.lookup_cons, h2] at this ⊢
      omega

theorem worst_setNC (s : List (NC × List (IT × Int))) (nc : NC) (l : List (IT × Int)) (hk : (s.map (·.1)).Nodup) :
    worst (setNC s nc l) = worst s - maxOf (storedOf s nc) + maxOf l := by
  simp only [setNC, worst]
  rw [worst_filter s nc hk]
  omega

theorem keys_filter_nodup (s : List (NC × List (IT × Int))) (nc : NC) (hk : (s.map (·.1)).Nodup) :
    ((s.filter (fun e => e.1 != nc)).map (·.1)).Nodup := by
  induction s with
  | nil => simp
  | cons e r ih =>
    simp only [List.map_cons, List.nodup_cons] at hk
    simp only [List.filter_cons]
    split
    · simp only [List.map_cons, List.nodup_cons]
      refine ⟨?_, ih hk.2⟩
      intro hm
      obtain ⟨x, hx, hx1⟩ := List.mem_map.mp hm
      exact hk.1 (List.mem_map.mpr ⟨x, (List.mem_filter.mp hx).1, hx1⟩)
    · exact ih hk.2

theorem keys_setNC_nodup (s : List (NC × List (IT × Int))) (nc : NC) (l : List (IT × Int)) (hk : (s.map (·.1)).Nodup) :
    ((setNC s nc l).map (·.1)).Nodup := by
  simp only [setNC, List.map_cons, List.nodup_cons]
  refine ⟨?_, keys_filter_nodup s nc hk⟩
  intro hm
  obtain ⟨x, hx, hx1⟩ := List.mem_map.mp hm
  have := (List.mem_filter.mp hx).2
  simp only [bne_iff_ne, ne_eq] at this
  exact this hx1

theorem storedOf_mem (s : List (NC × List (IT × Int))) (nc : NC) (l : List (IT × Int)) (h : s.lookup nc = some l) : (nc, l) ∈ s := by
  induction s with
  | nil => simp at h
  | cons e r ih =>
    obtain ⟨n, m⟩ := e
    simp only [List.lookup_cons] at h
    by_cases hh : (nc == n) = true
    · simp only [hh] at h
      have : nc = n := by simpa using hh
      cases h
      subst this
      simp
    · have hh' : (nc == n) = false := by simpa using hh
      simp only [hh'] at h
      exact List.mem_cons_of_mem _ (ih h)

/-! ### The invariant -/

/-- `init` is the budget `InitRemainingCounters` computed -/
structure Inv (init : Int) (st : St) : Prop where
  sum : st.remaining + worst st.stored = init
  keys : (st.stored.map (·.1)).Nodup
  itKeys : ∀ e ∈ st.stored, (e.2.map (·.1)).Nodup
  nonneg : ∀ e ∈ st.stored, ∀ x ∈ e.2, 0 ≤ x.2
  rem : 0 ≤ st.remaining

theorem inv_init (init : Int) (h : 0 ≤ init) : Inv init (St.init init) :=
  ⟨by simp [St.init, worst], by simp [St.init], by simp [St.init], by simp [St.init], by simpa [St.init] using h⟩

theorem storedOf_props (init : Int) (st : St) (I : Inv init st) (nc : NC) :
    ((storedOf st.stored nc).map (·.1)).Nodup ∧ ∀ x ∈ storedOf st.stored nc, 0 ≤ x.2 := by
  unfold storedOf
  cases h : st.stored.lookup nc with
  | none => simp
  | some l =>
    have hm := storedOf_mem _ _ _ h
    exact ⟨I.itKeys _ hm, I.nonneg _ hm⟩

theorem commit_inv (init : Int) (st : St) (I : Inv init st) (nc : NC) (new : List (IT × Int)) (hf : fits st new = true) :
    Inv init (st.commit nc new) := by
  unfold St.commit
  split
  · exact I
  · have hnew : ∀ x ∈ new, 0 ≤ x.2 ∧ x.2 ≤ st.remaining := by
      intro x hx
      have := List.all_eq_true.mp hf x hx
      simpa using this
    obtain ⟨hok, hon⟩ := storedOf_props init st I nc
    have hup := maxOf_merge_le (storedOf st.stored nc) new st.remaining I.rem (fun x hx => (hnew x hx).2)
    have hlo := maxOf_le_merge (storedOf st.stored nc) new hok (fun x hx => (hnew x hx).1)
    have hw := worst_setNC st.stored nc (merge (storedOf st.stored nc) new) I.keys
    have hs := I.sum
    have hr := I.rem
    refine ⟨?_, keys_setNC_nodup _ _ _ I.keys, ?_, ?_, ?_⟩
    · simp only
      split <;> omega
    · intro e he
      simp only [setNC] at he
      rcases List.mem_cons.mp he with he | he
      · subst he
        exact merge_keys_nodup _ _
      · exact I.itKeys e (List.mem_filter.mp he).1
    · intro e he
      simp only [setNC] at he
      rcases List.mem_cons.mp he with he | he
      · subst he
        exact merge_nonneg _ _ hon (fun x hx => (hnew x hx).1)
      · exact I.nonneg e (List.mem_filter.mp he).1
    · simp only
      split <;> omega

theorem release_inv (init : Int) (st : St) (I : Inv init st) (nc : NC) (its : List IT) : Inv init (st.release nc its) := by
  unfold St.release
  cases h : st.stored.lookup nc with
  | none => exact I
  | some old =>
    simp only
    have hm := storedOf_mem _ _ _ h
    have hso : storedOf st.stored nc = old := by simp [storedOf, h]
    have hle := maxOf_filter_le old (fun x => !its.contains x.1)
    have hs := I.sum
    have hr := I.rem
    have hnn := maxOf_nonneg (old.filter (fun x => !its.contains x.1))
    by_cases hemp : (old.filter (fun x => !its.contains x.1)).isEmpty = true
    · -- nothing left for this NodeClaim: its entry is dropped
      have hl0 : maxOf (old.filter (fun x => !its.contains x.1)) = 0 := by
        have : old.filter (fun x => !its.contains x.1) = [] := List.isEmpty_iff.mp hemp
        rw [this]; rfl
      have hw := worst_filter st.stored nc I.keys
      rw [hso] at hw
      simp only [hemp, if_true]
      refine ⟨?_, keys_filter_nodup _ _ I.keys, ?_, ?_, ?_⟩
      · simp only
        split <;> omega
      · intro e he; exact I.itKeys e (List.mem_filter.mp he).1
      · intro e he; exact I.nonneg e (List.mem_filter.mp he).1
      · simp only
        split <;> omega
    · have hw := worst_setNC st.stored nc (old.filter (fun x => !its.contains x.1)) I.keys
      rw [hso] at hw
      simp only [hemp, Bool.false_eq_true, if_false]
      refine ⟨?_, keys_setNC_nodup _ _ _ I.keys, ?_, ?_, ?_⟩
      · simp only
        split <;> omega
      · intro e he
        simp only [setNC] at he
        rcases List.mem_cons.mp he with he | he
        · subst he
          exact (List.Sublist.map _ List.filter_sublist).nodup (I.itKeys _ hm)
        · exact I.itKeys e (List.mem_filter.mp he).1
      · intro e he
        simp only [setNC] at he
        rcases List.mem_cons.mp he with he | he
        · subst he
          intro x hx
          exact I.nonneg _ hm x (List.mem_filter.mp hx).1
        · exact I.nonneg e (List.mem_filter.mp he).1
      · simp only
        split <;> omega

theorem run_inv (init : Int) : ∀ (ops : List Op) (st : St), Inv init st → guarded st ops = true → Inv init (run st ops) := by
  intro ops
  induction ops with
  | nil => intro st I _; exact I
  | cons op rest ih =>
    intro st I hg
    cases op with
    | commit nc new =>
      simp only [guarded, Bool.and_eq_true] at hg
      exact ih _ (commit_inv init st I nc new hg.1) hg.2
    | release nc its =>
      simp only [guarded] at hg
      exact ih _ (release_inv init st I nc its) hg

/-! ### `InitRemainingCounters` -/

theorem deduct_eq (pre : List String) : ∀ (ds : List (String × Int)) (r : Int), deduct pre r ds = r - preConsumed pre ds := by
  intro ds
  induction ds with
  | nil => intro r; simp [deduct, preConsumed]
  | cons d rest ih =>
    intro r
    have := ih (if pre.contains d.1 then r - d.2 else r)
    simp only [deduct, List.foldl_cons, preConsumed] at this ⊢
    rw [this]
    split <;> omega

theorem preConsumed_append (pre : List String) (a b : List (String × Int)) :
    preConsumed pre (a ++ b) = preConsumed pre a + preConsumed pre b := by
  induction a with
  | nil => simp [preConsumed]
  | cons d r ih => simp only [List.cons_append, preConsumed, ih]; omega

end Karp.DraBudget
