/-
C11 helper lemmas: the object-layer invariant along whole histories, for the model itself (via the simulation).
-/
import Karp.Proofs.ClusterStateRecClaim
import Karp.Proofs.ClusterStateSim

namespace Karp.ClusterState
open Karp.Spec.ClusterAbs

theorem oinv_step {w : Owners} {o : OC} {api : Api} {g : Ghost} (h : OInv w o api g) (hapi : ApiOK w api) (e : Event)
    (he : w.okEvent e) (hw : wStep g (api.step e) e = true) :
    ∃ o', o.step (api.step e) e = some o' ∧ OInv w o' (api.step e) (g.step (api.step e) e) := by
  have hw1 : wFilterStep g (api.step e) e = true := by
    unfold wStep at hw; exact (Bool.and_eq_true _ _ ▸ hw).1
  have hw2 : wClaimStep g (api.step e) e = true := by
    unfold wStep at hw; exact (Bool.and_eq_true _ _ ▸ hw).2
  cases e with
  | setNode n =>
    refine ⟨o, rfl, ?_⟩
    simp only [Ghost.step]
    apply oinv_api h "n" n.name
    · intro name hne
      simp only [Api.step]
      rw [Map.get_put, if_neg (hne rfl)]
    · intro name _; rfl
  | delNode k =>
    refine ⟨o, rfl, ?_⟩
    simp only [Ghost.step]
    apply oinv_api h "n" k
    · intro name hne
      simp only [Api.step]
      rw [Map.get_erase, if_neg (hne rfl)]
    · intro name _; rfl
  | setClaim c =>
    refine ⟨o, rfl, ?_⟩
    simp only [Ghost.step]
    apply oinv_api h "c" c.name
    · intro name _; rfl
    · intro name hne
      simp only [Api.step]
      rw [Map.get_put, if_neg (hne rfl)]
  | delClaim k =>
    refine ⟨o, rfl, ?_⟩
    simp only [Ghost.step]
    apply oinv_api h "c" k
    · intro name _; rfl
    · intro name hne
      simp only [Api.step]
      rw [Map.get_erase, if_neg (hne rfl)]
  | setPod p =>
    refine ⟨o, rfl, ?_⟩
    simp only [Ghost.step]
    exact oinv_api h "p" p.name (fun _ _ => rfl) (fun _ _ => rfl)
  | delPod k =>
    refine ⟨o, rfl, ?_⟩
    simp only [Ghost.step]
    exact oinv_api h "p" k (fun _ _ => rfl) (fun _ _ => rfl)
  | recNode name => exact oinv_recNode h hapi name hw1
  | recClaim name => exact oinv_recClaim h hapi name hw2
  | recPod name => exact ⟨o, rfl, oinv_recPod h name⟩
  | mark pid => exact ⟨_, rfl, (oinv_mark h pid).1⟩
  | unmark pid => exact ⟨_, rfl, (oinv_mark h pid).2.1⟩
  | nominate pid => exact ⟨_, rfl, (oinv_mark h pid).2.2⟩

/-- the ghost along a history -/
def ghostRun (g : Ghost) (api : Api) : List Event → Ghost
  | [] => g
  | e :: es => ghostRun (g.step (api.step e) e) (api.step e) es

def apiRun (api : Api) : List Event → Api
  | [] => api
  | e :: es => apiRun (api.step e) es

/-- the step-wise preconditions hold along the whole history -/
def wRun (g : Ghost) (api : Api) : List Event → Bool
  | [] => true
  | e :: es => wStep g (api.step e) e && wRun (g.step (api.step e) e) (api.step e) es

/-- **the object layer along any well-formed history**: the model never dereferences nil, and its projection satisfies the
    object-layer invariant w.r.t. the API and the ghost -/
theorem run_oinv (fx : Fixes) (w : Owners) (es : List Event) :
    ∀ (c : Cluster) (o : OC) (api : Api) (g : Ghost), (proj c).Eqv o → OInv w o api g → ApiOK w api →
      (∀ e ∈ es, w.okEvent e) → wRun g api es = true →
      ∃ c' o', run fx c api es = .ok (c', apiRun api es) ∧ (proj c').Eqv o' ∧ OInv w o' (apiRun api es) (ghostRun g api es) ∧
        ApiOK w (apiRun api es) := by
  induction es with
  | nil =>
    intro c o api g he hi ha _ _
    exact ⟨c, o, rfl, he, hi, ha⟩
  | cons e es ih =>
    intro c o api g he hi ha hok hw
    simp only [wRun, Bool.and_eq_true] at hw
    have hoke : w.okEvent e := hok e List.mem_cons_self
    obtain ⟨o1, ho1, hi1⟩ := oinv_step hi ha e hoke hw.1
    have hsim := sim_step fx c o he (api.step e) e
    rw [ho1] at hsim
    cases hc : c.step fx (api.step e) e with
    | error err => rw [hc] at hsim; simp at hsim
    | ok cr =>
      obtain ⟨c1, r⟩ := cr
      rw [hc] at hsim
      have he1 : (proj c1).Eqv o1 := hsim
      obtain ⟨c', o', hr, he', hi', ha'⟩ := ih c1 o1 (api.step e) _ he1 hi1 (apiOK_step ha e hoke)
        (fun e' hm => hok e' (List.mem_cons_of_mem _ hm)) hw.2
      refine ⟨c', o', ?_, he', hi', ha'⟩
      simp only [run, hc]
      exact hr

end Karp.ClusterState
