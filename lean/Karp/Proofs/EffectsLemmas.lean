/-
Helper lemmas for C18 (heap model of `Karp/Model/Effects.lean`): deep copies are fresh and faithful, writes confined to
fresh memory leave every older cell alone.
-/
import Karp.Model.Effects

namespace Karp.Effects

@[simp] theorem alloc_next (h : Heap) (v : Int) : (h.alloc v).next = h.next + 1 := rfl
theorem alloc_cell_ne (h : Heap) (v : Int) (a : Addr) (hne : a ≠ h.next) : (h.alloc v).cell a = h.cell a := by
  simp [Heap.alloc, hne]
@[simp] theorem alloc_cell_self (h : Heap) (v : Int) : (h.alloc v).cell h.next = v := by
  simp [Heap.alloc]

/-! ## writes -/

theorem writes_next (ws : List (Addr × Int)) : ∀ h : Heap, (h.writes ws).next = h.next := by
  induction ws with
  | nil => intro h; rfl
  | cons x ws ih => intro h; obtain ⟨a, v⟩ := x; simp [Heap.writes, ih, Heap.write]

theorem writes_cell (ws : List (Addr × Int)) : ∀ (h : Heap) (a : Addr), (∀ x ∈ ws, x.1 ≠ a) →
    (h.writes ws).cell a = h.cell a := by
  induction ws with
  | nil => intro h a _; rfl
  | cons x ws ih =>
    intro h a hn
    obtain ⟨b, v⟩ := x
    have hb : b ≠ a := hn (b, v) (by simp)
    have := ih (h.write b v) a (fun y hy => hn y (by simp [hy]))
    simp only [Heap.writes]
    rw [this]
    simp [Heap.write, Ne.symm hb]

/-! ## observation depends only on the cells referred to -/

theorem observe_congr (h1 h2 : Heap) : ∀ o : Obj, (∀ a ∈ refs o, h1.cell a = h2.cell a) → observe h1 o = observe h2 o := by
  intro o
  induction o with
  | nil => intro _; rfl
  | cons f r ih =>
    intro hc
    obtain ⟨n, v⟩ := f
    cases v with
    | scalar v =>
      simp only [observe]
      rw [ih (fun a ha => hc a (by simpa [refs] using ha))]
    | ref a =>
      simp only [observe]
      rw [ih (fun b hb => hc b (by simp [refs, hb])), hc a (by simp [refs])]

/-! ## copyObj -/

theorem copyObj_next_le (t : String → Bool) : ∀ (o : Obj) (h : Heap), h.next ≤ (copyObj t h o).1.next := by
  intro o
  induction o with
  | nil => intro h; simp [copyObj]
  | cons f r ih =>
    intro h
    obtain ⟨n, v⟩ := f
    cases v with
    | scalar v => simpa [copyObj] using ih h
    | ref a =>
      by_cases ht : t n = true
      · have := ih (h.alloc (h.cell a))
        simp only [copyObj, ht, if_true]
        simp only [alloc_next] at this
        omega
      · simpa [copyObj, ht] using ih h

theorem copyObj_cell_lt (t : String → Bool) : ∀ (o : Obj) (h : Heap) (a : Addr), a < h.next →
    (copyObj t h o).1.cell a = h.cell a := by
  intro o
  induction o with
  | nil => intro h a _; simp [copyObj]
  | cons f r ih =>
    intro h a ha
    obtain ⟨n, v⟩ := f
    cases v with
    | scalar v => simpa [copyObj] using ih h a ha
    | ref b =>
      by_cases ht : t n = true
      · have h1 := ih (h.alloc (h.cell b)) a (by simp only [alloc_next]; omega)
        simp only [copyObj, ht, if_true]
        rw [h1, alloc_cell_ne h _ a (by omega)]
      · simpa [copyObj, ht] using ih h a ha

/-- the copy of a completely treated object refers only to cells allocated by the copy -/
theorem copyObj_refs_fresh (t : String → Bool) : ∀ (o : Obj) (h : Heap), Complete t o = true →
    ∀ a ∈ refs (copyObj t h o).2, h.next ≤ a ∧ a < (copyObj t h o).1.next := by
  intro o
  induction o with
  | nil => intro h _ a ha; simp [copyObj, refs] at ha
  | cons f r ih =>
    intro h hc a ha
    obtain ⟨n, v⟩ := f
    cases v with
    | scalar v =>
      have hc' : Complete t r = true := by simpa [Complete, refFields] using hc
      have := ih h hc' a (by simpa [copyObj, refs] using ha)
      simpa [copyObj] using this
    | ref b =>
      have hcn : t n = true ∧ Complete t r = true := by
        simpa [Complete, refFields, List.all_cons] using hc
      simp only [copyObj, hcn.1, if_true, refs, List.mem_cons] at ha ⊢
      rcases ha with rfl | ha
      · have := copyObj_next_le t r (h.alloc (h.cell b))
        simp only [alloc_next] at this
        omega
      · have := ih (h.alloc (h.cell b)) hcn.2 a ha
        simp only [alloc_next] at this
        omega

/-- the copy shows what the original shows -/
theorem copyObj_observe (t : String → Bool) : ∀ (o : Obj) (h : Heap), WF h o →
    observe (copyObj t h o).1 (copyObj t h o).2 = observe h o := by
  intro o
  induction o with
  | nil => intro h _; simp [copyObj, observe]
  | cons f r ih =>
    intro h wf
    obtain ⟨n, v⟩ := f
    cases v with
    | scalar v =>
      have wf' : WF h r := fun a ha => wf a (by simpa [refs] using ha)
      simp only [copyObj, observe]
      rw [ih h wf']
    | ref b =>
      have wfr : WF h r := fun a ha => wf a (by simp [refs, ha])
      by_cases ht : t n = true
      · -- fresh cell at h.next
        have wf1 : WF (h.alloc (h.cell b)) r := fun a ha => by
          have := wfr a ha; simp only [alloc_next]; omega
        have hobs : observe (h.alloc (h.cell b)) r = observe h r := by
          apply observe_congr
          intro a ha
          have := wfr a ha
          exact alloc_cell_ne h _ a (by omega)
        have hhead : (copyObj t (h.alloc (h.cell b)) r).1.cell h.next = h.cell b := by
          rw [copyObj_cell_lt t r (h.alloc (h.cell b)) h.next (by simp)]
          simp
        simp only [copyObj, ht, if_true, observe]
        rw [ih (h.alloc (h.cell b)) wf1, hobs, hhead]
      · have hb : b < h.next := wf b (by simp [refs])
        have ht' : t n = false := by simpa using ht
        simp only [copyObj, ht', Bool.false_eq_true, if_false, observe]
        rw [ih h wfr, copyObj_cell_lt t r h b hb]

/-! ## copyAll -/

theorem copyAll_next_le (t : String → Bool) : ∀ (os : List Obj) (h : Heap), h.next ≤ (copyAll t h os).1.next := by
  intro os
  induction os with
  | nil => intro h; simp [copyAll]
  | cons o os ih =>
    intro h
    have h1 := copyObj_next_le t o h
    have h2 := ih (copyObj t h o).1
    simp only [copyAll]
    omega

theorem copyAll_cell_lt (t : String → Bool) : ∀ (os : List Obj) (h : Heap) (a : Addr), a < h.next →
    (copyAll t h os).1.cell a = h.cell a := by
  intro os
  induction os with
  | nil => intro h a _; simp [copyAll]
  | cons o os ih =>
    intro h a ha
    have h1 := copyObj_next_le t o h
    simp only [copyAll]
    rw [ih (copyObj t h o).1 a (by omega), copyObj_cell_lt t o h a ha]

theorem copyAll_refs_fresh (t : String → Bool) : ∀ (os : List Obj) (h : Heap), (∀ o ∈ os, Complete t o = true) →
    ∀ c ∈ (copyAll t h os).2, ∀ a ∈ refs c, h.next ≤ a := by
  intro os
  induction os with
  | nil => intro h _ c hc; simp [copyAll] at hc
  | cons o os ih =>
    intro h hall c hc a ha
    simp only [copyAll, List.mem_cons] at hc
    rcases hc with rfl | hc
    · exact (copyObj_refs_fresh t o h (hall o (by simp)) a ha).1
    · have := ih (copyObj t h o).1 (fun o' ho' => hall o' (by simp [ho'])) c hc a ha
      have h1 := copyObj_next_le t o h
      omega

theorem copyAll_length (t : String → Bool) : ∀ (os : List Obj) (h : Heap), (copyAll t h os).2.length = os.length := by
  intro os
  induction os with
  | nil => intro h; simp [copyAll]
  | cons o os ih => intro h; simp [copyAll, ih]

/-- every copy shows what its original shows (in the heap after all copies were made) -/
theorem copyAll_observe (t : String → Bool) : ∀ (os : List Obj) (h : Heap), (∀ o ∈ os, WF h o) →
    (∀ o ∈ os, Complete t o = true) →
    (copyAll t h os).2.map (observe (copyAll t h os).1) = os.map (observe h) := by
  intro os
  induction os with
  | nil => intro h _ _; simp [copyAll]
  | cons o os ih =>
    intro h wf hcomp
    have hle := copyObj_next_le t o h
    have wf' : ∀ o' ∈ os, WF (copyObj t h o).1 o' := fun o' ho' a ha => by
      have := wf o' (by simp [ho']) a ha; omega
    have ih' := ih (copyObj t h o).1 wf' (fun o' ho' => hcomp o' (by simp [ho']))
    simp only [copyAll, List.map_cons]
    rw [ih']
    congr 1
    · -- the first copy is not disturbed by the later copies (its cells are below their allocation pointer)
      have hfresh := copyObj_refs_fresh t o h (hcomp o (by simp))
      rw [← copyObj_observe t o h (wf o (by simp))]
      apply observe_congr
      intro a ha
      exact copyAll_cell_lt t os (copyObj t h o).1 a (hfresh a ha).2
    · apply List.map_congr_left
      intro o' ho'
      apply observe_congr
      intro a ha
      exact copyObj_cell_lt t o h a (wf o' (by simp [ho']) a ha)

/-! ## one simulation -/

/-- a confined simulation writes no cell that existed before it started -/
theorem simulate_cell_lt (t : String → Bool) (w : World) (ws : List (Addr × Int))
    (hc : ∀ o ∈ w.nodes, Complete t o = true) (conf : Confined t w ws) :
    ∀ a, a < w.heap.next → (simulate t w ws).heap.cell a = w.heap.cell a := by
  intro a ha
  have hne : ∀ x ∈ ws, x.1 ≠ a := by
    intro x hx
    rcases conf x hx with ⟨c, hcm, hr⟩ | hge
    · have := copyAll_refs_fresh t w.nodes w.heap hc c hcm x.1 hr
      omega
    · have := copyAll_next_le t w.nodes w.heap
      simp only [simHeap] at hge
      omega
  simp only [simulate]
  rw [writes_cell ws _ a hne, copyAll_cell_lt t w.nodes w.heap a ha]

theorem simulate_next_le (t : String → Bool) (w : World) (ws : List (Addr × Int)) :
    w.heap.next ≤ (simulate t w ws).heap.next := by
  simp only [simulate, writes_next]
  exact copyAll_next_le t w.nodes w.heap

theorem simulate_nodes (t : String → Bool) (w : World) (ws : List (Addr × Int)) :
    (simulate t w ws).nodes = w.nodes ∧ (simulate t w ws).shared = w.shared := by
  simp [simulate]

end Karp.Effects

/-! ## pod bookkeeping: what a list of edits does to one pod -/

namespace Karp.Effects
open Karp.Spec.NoEffect (NodeVal PodVal PlacedPod ExistingPlacement ClaimPlacement Outcome Live)

/-- one edit as seen by one pod -/
def stepPod (now : Int) (hp : List String) (p : PodVal) (e : String × Edit) : PodVal :=
  if p.key == e.1 then e.2.apply now hp p else p

/-- all edits as seen by one pod -/
def relevant (now : Int) (hp : List String) (es : List (String × Edit)) (p : PodVal) : PodVal :=
  es.foldl (stepPod now hp) p

theorem loadOrStore_of_ne (old now : Int) (h : old ≠ 0) : loadOrStore old now = old := by simp [loadOrStore, h]

theorem loadOrStore_idem (old now : Int) : loadOrStore (loadOrStore old now) now = loadOrStore old now := by
  unfold loadOrStore
  by_cases h : old = 0
  · simp [h]
  · simp [h]

theorem markScheduled_key (now : Int) (pool : String) (hp : List String) (b : Bool) (p : PodVal) :
    (markScheduled now pool hp b p).key = p.key := by
  unfold markScheduled; split <;> (try split) <;> rfl

theorem markScheduled_ack (now : Int) (pool : String) (hp : List String) (b : Bool) (p : PodVal) :
    (markScheduled now pool hp b p).ack = p.ack := by
  unfold markScheduled; split <;> (try split) <;> rfl

theorem markScheduled_attempted (now : Int) (pool : String) (hp : List String) (b : Bool) (p : PodVal) :
    (markScheduled now pool hp b p).attempted = p.attempted ∨
    (markScheduled now pool hp b p).attempted = loadOrStore p.attempted now := by
  unfold markScheduled; split
  · exact Or.inl rfl
  · split <;> exact Or.inr rfl

theorem Edit.apply_key (now : Int) (hp : List String) (e : Edit) (p : PodVal) : (e.apply now hp p).key = p.key := by
  cases e with
  | err => rfl
  | sched pool b => exact markScheduled_key now pool hp b p
  | claim nc => rfl

theorem Edit.apply_ack (now : Int) (hp : List String) (e : Edit) (p : PodVal) : (e.apply now hp p).ack = p.ack := by
  cases e with
  | err => rfl
  | sched pool b => exact markScheduled_ack now pool hp b p
  | claim nc => rfl

/-- the first decision time is write-once -/
theorem Edit.apply_attempted (now : Int) (hp : List String) (e : Edit) (p : PodVal) (h : p.attempted ≠ 0) :
    (e.apply now hp p).attempted = p.attempted := by
  cases e with
  | err => simp [Edit.apply, markError, loadOrStore_of_ne _ _ h]
  | sched pool b =>
    rcases markScheduled_attempted now pool hp b p with h1 | h1
    · exact h1
    · simpa [Edit.apply, loadOrStore_of_ne _ _ h] using h1
  | claim nc => rfl

theorem stepPod_key (now : Int) (hp : List String) (p : PodVal) (e : String × Edit) : (stepPod now hp p e).key = p.key := by
  unfold stepPod; split
  · exact Edit.apply_key now hp e.2 p
  · rfl

theorem stepPod_ack (now : Int) (hp : List String) (p : PodVal) (e : String × Edit) : (stepPod now hp p e).ack = p.ack := by
  unfold stepPod; split
  · exact Edit.apply_ack now hp e.2 p
  · rfl

theorem stepPod_attempted (now : Int) (hp : List String) (p : PodVal) (e : String × Edit) (h : p.attempted ≠ 0) :
    (stepPod now hp p e).attempted = p.attempted := by
  unfold stepPod; split
  · exact Edit.apply_attempted now hp e.2 p h
  · rfl

theorem relevant_key (now : Int) (hp : List String) (es : List (String × Edit)) : ∀ p : PodVal, (relevant now hp es p).key = p.key := by
  induction es with
  | nil => intro p; rfl
  | cons e es ih => intro p; simp only [relevant, List.foldl_cons] at ih ⊢; rw [ih, stepPod_key]

theorem relevant_ack (now : Int) (hp : List String) (es : List (String × Edit)) : ∀ p : PodVal, (relevant now hp es p).ack = p.ack := by
  induction es with
  | nil => intro p; rfl
  | cons e es ih => intro p; simp only [relevant, List.foldl_cons] at ih ⊢; rw [ih, stepPod_ack]

theorem relevant_attempted (now : Int) (hp : List String) (es : List (String × Edit)) :
    ∀ p : PodVal, p.attempted ≠ 0 → (relevant now hp es p).attempted = p.attempted := by
  induction es with
  | nil => intro p _; rfl
  | cons e es ih =>
    intro p h
    simp only [relevant, List.foldl_cons] at ih ⊢
    have h1 := stepPod_attempted now hp p e h
    rw [ih (stepPod now hp p e) (by rw [h1]; exact h), h1]

/-- a pod no edit is addressed to is left as it is -/
theorem relevant_untouched (now : Int) (hp : List String) (es : List (String × Edit)) :
    ∀ p : PodVal, (∀ e ∈ es, e.1 ≠ p.key) → relevant now hp es p = p := by
  induction es with
  | nil => intro p _; rfl
  | cons e es ih =>
    intro p h
    have hne : (p.key == e.1) = false := by
      have := h e (by simp)
      simp only [beq_eq_false_iff_ne, ne_eq]
      exact fun hh => this hh.symm
    simp only [relevant, List.foldl_cons] at ih ⊢
    have hs : stepPod now hp p e = p := by simp [stepPod, hne]
    rw [hs]
    exact ih p (fun e' he' => h e' (by simp [he']))

theorem applyEdits_eq_map (now : Int) (hp : List String) (es : List (String × Edit)) :
    ∀ ps : List PodVal, applyEdits now hp es ps = ps.map (relevant now hp es) := by
  induction es with
  | nil =>
    intro ps
    have : relevant now hp [] = id := by funext p; rfl
    simp [applyEdits, this]
  | cons e es ih =>
    intro ps
    have := ih (applyTo now hp e ps)
    simp only [applyEdits, List.foldl_cons] at this ⊢
    rw [this]
    simp only [applyTo, List.map_map]
    apply List.map_congr_left
    intro p _
    simp [relevant, stepPod, Function.comp]

theorem zip_map_all {α : Type} (f : α → α) (P : α × α → Bool) : ∀ l : List α,
    (l.zip (l.map f)).all P = l.all (fun a => P (a, f a)) := by
  intro l
  induction l with
  | nil => rfl
  | cons a l ih => simp [ih]


/-! ## frames of the bookkeeping model -/

theorem markError_idem (now : Int) (p : PodVal) : markError now (markError now p) = markError now p := by
  simp [markError, loadOrStore_idem]

/-- refusing any number of times (≥ 0) a pod that was refused once leaves the refusal record -/
theorem relevant_ignored_of_marked (now : Int) (names : List String) (q : PodVal) :
    relevant now [] (ignoredEdits names) (markError now q) = markError now q := by
  induction names with
  | nil => rfl
  | cons n names ih =>
    simp only [ignoredEdits, List.map_cons, relevant, List.foldl_cons] at ih ⊢
    by_cases hn : ((markError now q).key == n) = true
    · have hstep : stepPod now [] (markError now q) (n, Edit.err) = markError now q := by
        simp [stepPod, hn, Edit.apply, markError_idem]
      rw [hstep]; exact ih
    · have hstep : stepPod now [] (markError now q) (n, Edit.err) = markError now q := by simp [stepPod, hn]
      rw [hstep]; exact ih

/-- a pod the provisioner refuses ends up with the refusal record -/
theorem relevant_ignored (now : Int) (ignored : List String) (p : PodVal) (hmem : p.key ∈ ignored) :
    relevant now [] (ignoredEdits ignored) p = markError now p := by
  induction ignored with
  | nil => simp at hmem
  | cons n names ih =>
    simp only [ignoredEdits, List.map_cons, relevant, List.foldl_cons]
    by_cases hn : (p.key == n) = true
    · have hstep : stepPod now [] p (n, Edit.err) = markError now p := by simp [stepPod, hn, Edit.apply]
      rw [hstep]
      exact relevant_ignored_of_marked now names p
    · have hstep : stepPod now [] p (n, Edit.err) = p := by simp [stepPod, hn]
      rw [hstep]
      have hn' : p.key ≠ n := by simpa using hn
      have : p.key ∈ names := by
        rcases List.mem_cons.mp hmem with h | h
        · exact absurd h hn'
        · exact h
      exact ih this

theorem refused_markError (now : Int) (p : PodVal) : Karp.Spec.NoEffect.refused now p (markError now p) = true := by
  simp [Karp.Spec.NoEffect.refused, markError, loadOrStore]

theorem ignored_untouched (now : Int) (ignored : List String) (p : PodVal) (hi : ignored.contains p.key = false) :
    relevant now [] (ignoredEdits ignored) p = p := by
  apply relevant_untouched
  intro e he
  simp only [ignoredEdits, List.mem_map] at he
  obtain ⟨n, hn, rfl⟩ := he
  intro heq
  have : ignored.contains p.key = true := by
    simp only [List.contains_iff_mem]; exact heq ▸ hn
  rw [hi] at this
  exact Bool.noConfusion this

theorem sim_pods_frame (now : Int) (ignored : List String) (ps : List PodVal) :
    (ps.zip (markIgnored now ignored ps)).all (fun pq =>
      pq.1 == pq.2 || (ignored.contains pq.1.key && Karp.Spec.NoEffect.refused now pq.1 pq.2)) = true := by
  simp only [markIgnored, applyEdits_eq_map]
  rw [zip_map_all]
  simp only [List.all_eq_true]
  intro p _
  by_cases hi : ignored.contains p.key = true
  · have hmem : p.key ∈ ignored := by simpa [List.contains_iff_mem] using hi
    rw [relevant_ignored now ignored p hmem]
    simp [refused_markError, hmem]
  · have hi' : ignored.contains p.key = false := by simpa using hi
    rw [ignored_untouched now ignored p hi']
    simp

theorem decisionEdits_mentions (o : Outcome) : ∀ e ∈ decisionEdits o, o.mentions e.1 = true := by
  intro e he
  simp only [decisionEdits, List.mem_append, List.mem_map, List.mem_flatMap] at he
  simp only [Outcome.mentions, Bool.or_eq_true, List.any_eq_true, beq_iff_eq, List.contains_iff_mem]
  rcases he with ((⟨n, hn, rfl⟩ | ⟨c, hc, pp, hpp, rfl⟩) | ⟨x, hx, pp, hpp, rfl⟩) | ⟨x, hx, hin⟩
  · exact Or.inl (Or.inl hn)
  · exact Or.inl (Or.inr ⟨c, hc, pp, hpp, rfl⟩)
  · exact Or.inr ⟨x, hx, pp, hpp, rfl⟩
  · split at hin
    · simp at hin
    · simp only [List.mem_map] at hin
      obtain ⟨pp, hpp, rfl⟩ := hin
      exact Or.inr ⟨x, hx, pp, hpp, rfl⟩

theorem pods_frame (now : Int) (healthy ignored : List String) (o : Outcome) (ps : List PodVal) :
    (ps.zip (markDecisions now healthy o (markIgnored now ignored ps))).all (fun pq =>
      pq.1.key == pq.2.key && pq.1.ack == pq.2.ack &&
      (pq.1.attempted == 0 || pq.2.attempted == pq.1.attempted) &&
      (pq.1 == pq.2 || o.mentions pq.1.key || ignored.contains pq.1.key)) = true := by
  simp only [markDecisions, markIgnored, applyEdits_eq_map, List.map_map]
  rw [zip_map_all]
  simp only [List.all_eq_true, Function.comp]
  intro p _
  have hk1 := relevant_key now [] (ignoredEdits ignored) p
  have ha1 := relevant_ack now [] (ignoredEdits ignored) p
  have hk2 := relevant_key now healthy (decisionEdits o) (relevant now [] (ignoredEdits ignored) p)
  have ha2 := relevant_ack now healthy (decisionEdits o) (relevant now [] (ignoredEdits ignored) p)
  simp only [Bool.and_eq_true, Bool.or_eq_true, beq_iff_eq]
  refine ⟨⟨⟨by rw [hk2, hk1], by rw [ha2, ha1]⟩, ?_⟩, ?_⟩
  · by_cases h0 : p.attempted = 0
    · exact Or.inl h0
    · right
      have h1 := relevant_attempted now [] (ignoredEdits ignored) p h0
      rw [relevant_attempted now healthy (decisionEdits o) _ (by rw [h1]; exact h0), h1]
  · by_cases hm : o.mentions p.key = true
    · exact Or.inl (Or.inr hm)
    · by_cases hi : ignored.contains p.key = true
      · exact Or.inr hi
      · left; left
        have hi' : ignored.contains p.key = false := by simpa using hi
        rw [ignored_untouched now ignored p hi']
        symm
        apply relevant_untouched
        intro e he heq
        exact hm (heq ▸ decisionEdits_mentions o e he)

theorem nodes_frame (now w : Int) (hw : 0 < w) (o : Outcome) (ns : List NodeVal) :
    (ns.zip (nominate now w o ns)).all (fun nm =>
      nm.1.providerID == nm.2.providerID && nm.1.marked == nm.2.marked && nm.1.nodeClaim == nm.2.nodeClaim &&
      (nm.1.nominatedUntil == nm.2.nominatedUntil || (o.placedOn nm.1.providerID && nm.2.nominatedUntil > now))) = true := by
  unfold nominate
  rw [zip_map_all]
  simp only [List.all_eq_true]
  intro n _
  by_cases hp : o.existing.any (fun e => e.providerID == n.providerID && !e.pods.isEmpty) = true
  · have hpl : o.placedOn n.providerID = true := hp
    simp only [hp, if_true, beq_self_eq_true, Bool.true_and, hpl, Bool.or_eq_true, decide_eq_true_eq]
    right
    omega
  · simp [hp]



/-! ## histories -/

theorem simulate_complete (t : String → Bool) (w : World) (ws : List (Addr × Int))
    (hc : ∀ o ∈ w.nodes, Complete t o = true) : ∀ o ∈ (simulate t w ws).nodes, Complete t o = true := by
  intro o ho
  rw [(simulate_nodes t w ws).1] at ho
  exact hc o ho

theorem nominationWindow_pos (b : Int) : 0 < nominationWindow b := by
  unfold nominationWindow
  have : (0 : Int) < (Karp.Gen.C18Copy.nominationFloorSeconds : Int) * 1000000000 := by decide
  omega

theorem stable_refl (a : Live) : Stable a a := ⟨rfl, rfl, rfl, fun _ _ _ _ => rfl⟩

theorem stable_trans {a b c : Live} (h1 : Stable a b) (h2 : Stable b c) : Stable a c := by
  refine ⟨h2.1.trans h1.1, h2.2.1.trans h1.2.1, h2.2.2.1.trans h1.2.2.1, ?_⟩
  intro i ha hc hne
  have hb : i < b.pods.length := by rw [h1.2.2.1]; exact ha
  have e1 := h1.2.2.2 i ha hb hne
  rw [h2.2.2.2 i hb hc (by rw [e1]; exact hne), e1]

theorem pods_edit_stable (now : Int) (hp : List String) (es : List (String × Edit)) (ps : List PodVal) :
    (applyEdits now hp es ps).map (fun p => (p.key, p.ack)) = ps.map (fun p => (p.key, p.ack)) ∧
    (applyEdits now hp es ps).length = ps.length ∧
    ∀ i (h1 : i < ps.length) (h2 : i < (applyEdits now hp es ps).length), (ps[i]).attempted ≠ 0 →
      ((applyEdits now hp es ps)[i]).attempted = (ps[i]).attempted := by
  rw [applyEdits_eq_map]
  refine ⟨?_, by simp, ?_⟩
  · rw [List.map_map]
    apply List.map_congr_left
    intro p _
    simp [relevant_key, relevant_ack]
  · intro i h1 h2 hne
    simp only [List.getElem_map]
    exact relevant_attempted now hp es _ hne

theorem step_stable (s : Step) (l : Live) : Stable l (s.run l) := by
  cases s with
  | pass now batch healthy ignored o =>
    have h1 := pods_edit_stable now [] (ignoredEdits ignored) l.pods
    have h2 := pods_edit_stable now healthy (decisionEdits o) (applyEdits now [] (ignoredEdits ignored) l.pods)
    refine ⟨?_, ?_, ?_, ?_⟩
    · simp only [Step.run, provisionPass, nominate, List.map_map]
      apply List.map_congr_left
      intro n _
      simp only [Function.comp]
      split <;> rfl
    · simp only [Step.run, provisionPass, markDecisions, markIgnored]
      exact h2.1.trans h1.1
    · simp only [Step.run, provisionPass, markDecisions, markIgnored]
      exact h2.2.1.trans h1.2.1
    · intro i ha hb hne
      simp only [Step.run, provisionPass, markDecisions, markIgnored] at hb ⊢
      have hm : i < (applyEdits now [] (ignoredEdits ignored) l.pods).length := by rw [h1.2.1]; exact ha
      have e1 := h1.2.2 i ha hm hne
      rw [h2.2.2 i hm hb (by rw [e1]; exact hne), e1]
  | failed now ignored =>
    have h1 := pods_edit_stable now [] (ignoredEdits ignored) l.pods
    exact ⟨rfl, h1.1, h1.2.1, h1.2.2⟩
  | simulation now ignored =>
    have h1 := pods_edit_stable now [] (ignoredEdits ignored) l.pods
    exact ⟨rfl, h1.1, h1.2.1, h1.2.2⟩


end Karp.Effects
