/-
Helper lemmas for C09 (`Karp/Props/C09.lean`): what a single pass of the node termination controller
(`nodeReconcile`) and of the NodeClaim lifecycle controller (`claimFinalize`, `claimLaunch`) can do, for ALL
observations, fault vectors and provider answers.  Core Lean only.
-/
import Karp.Model.TermWorld

namespace Karp.Term
open Karp.Gen

/-! ## Node termination controller -/

theorem stageOrder_eq : stageOrder = [.drain, .volumes, .instance] := by decide

/-- a stage "passes": empty result and no error -/
def StageOut.pass (o : StageOut) : Bool := o.res = .none && !o.err

theorem stageDrain_pass (now : Int) (hc : Bool) (pods : List Pod) (f : NodeFaults) (c : Conds)
    (h : (stageDrain now hc pods f c).pass = true) :
    waitingPods now pods = [] ∧ (hc = true → minDrainPending now (drainInit now hc c) = false)
      ∧ (stageDrain now hc pods f c).calls = [] ∧ (stageDrain now hc pods f c).triggered = false := by
  have hwe : ∀ b, (waitingPods now pods).isEmpty = b → b = true → waitingPods now pods = [] := by
    intro b h1 h2; subst h2; simpa using h1
  revert h
  unfold stageDrain
  dsimp only
  generalize drainInit now hc c = c'
  generalize hw : (waitingPods now pods).isEmpty = we
  have hwe := hwe we hw
  generalize minDrainPending now c' = md
  cases f.listPodsDrain <;> cases we <;> cases hc <;> cases md <;> simp [StageOut.pass, requeueAt] <;> exact hwe rfl

theorem stageVolumes_pass (now : Int) (hc : Bool) (term : Option Int) (pods : List Pod) (vas : List VA) (f : NodeFaults) (c : Conds)
    (h : (stageVolumes now hc term pods vas f c).pass = true) :
    (pendingVAs now f.getPVC pods vas = [] ∨ elapsed now term = true)
      ∧ (stageVolumes now hc term pods vas f c).calls = [] ∧ (stageVolumes now hc term pods vas f c).triggered = false := by
  have hpe : ∀ b, (pendingVAs now f.getPVC pods vas).isEmpty = b → b = true → pendingVAs now f.getPVC pods vas = [] := by
    intro b h1 h2; subst h2; simpa using h1
  revert h
  unfold stageVolumes
  generalize hp : (pendingVAs now f.getPVC pods vas).isEmpty = pe
  have hpe := hpe pe hp
  generalize elapsed now term = el
  generalize volReadFault now pods vas f = rf
  cases f.listVAs <;> cases rf <;> cases pe <;> cases el <;> simp [StageOut.pass, requeueAt] <;> exact hpe rfl

theorem stageInstance_pass (hc : Bool) (d : ProvOut) (c : Conds)
    (h : (stageInstance hc d c).pass = true) : (hc = true → d = .notFound) ∧ (stageInstance hc d c).triggered = false := by
  unfold StageOut.pass stageInstance at *
  cases hc <;> cases d <;> simp_all [requeueAt]


theorem runStages_nil (now : Int) (hc : Bool) (term : Option Int) (pods : List Pod) (vas : List VA) (f : NodeFaults) (d : ProvOut) (c : Conds) :
    runStages [] now hc term pods vas f d c = { conds := c } := rfl

theorem runStages_cons (s : Stage) (rest : List Stage) (now : Int) (hc : Bool) (term : Option Int) (pods : List Pod) (vas : List VA)
    (f : NodeFaults) (d : ProvOut) (c : Conds) :
    runStages (s :: rest) now hc term pods vas f d c =
      (if ((runStage s now hc term pods vas f d c).res ≠ .none || (runStage s now hc term pods vas f d c).err) = true
       then runStage s now hc term pods vas f d c
       else { runStages rest now hc term pods vas f d (runStage s now hc term pods vas f d c).conds with
              calls := (runStage s now hc term pods vas f d c).calls ++ (runStages rest now hc term pods vas f d (runStage s now hc term pods vas f d c).conds).calls,
              triggered := (runStage s now hc term pods vas f d c).triggered || (runStages rest now hc term pods vas f d (runStage s now hc term pods vas f d c).conds).triggered }) := by
  rfl

theorem runStages_cons_pass (s : Stage) (rest : List Stage) (now : Int) (hc : Bool) (term : Option Int) (pods : List Pod) (vas : List VA)
    (f : NodeFaults) (d : ProvOut) (c : Conds)
    (h : (runStages (s :: rest) now hc term pods vas f d c).pass = true) :
    (runStage s now hc term pods vas f d c).pass = true ∧
    (runStages rest now hc term pods vas f d (runStage s now hc term pods vas f d c).conds).pass = true ∧
    (runStages (s :: rest) now hc term pods vas f d c).triggered =
      ((runStage s now hc term pods vas f d c).triggered || (runStages rest now hc term pods vas f d (runStage s now hc term pods vas f d c).conds).triggered) ∧
    (runStages (s :: rest) now hc term pods vas f d c).calls =
      (runStage s now hc term pods vas f d c).calls ++ (runStages rest now hc term pods vas f d (runStage s now hc term pods vas f d c).conds).calls := by
  rw [runStages_cons] at h ⊢
  generalize runStage s now hc term pods vas f d c = o at *
  generalize runStages rest now hc term pods vas f d o.conds = o' at *
  by_cases hb : (o.res ≠ .none || o.err) = true
  · rw [if_pos hb] at h
    exfalso
    simp [StageOut.pass] at h hb
    rcases h with ⟨h1, h2⟩
    simp [h1, h2] at hb
  · rw [if_neg hb] at h ⊢
    simp [StageOut.pass] at h hb ⊢
    exact ⟨hb, h⟩


theorem stageDrain_calls (now : Int) (hc : Bool) (pods : List Pod) (f : NodeFaults) (c : Conds) :
    (stageDrain now hc pods f c).calls = [] ∧ (stageDrain now hc pods f c).triggered = false := by
  unfold stageDrain
  dsimp only
  generalize drainInit now hc c = c'
  generalize (waitingPods now pods).isEmpty = we
  generalize minDrainPending now c' = md
  cases f.listPodsDrain <;> cases we <;> cases hc <;> cases md <;> simp

theorem stageVolumes_calls (now : Int) (hc : Bool) (term : Option Int) (pods : List Pod) (vas : List VA) (f : NodeFaults) (c : Conds) :
    (stageVolumes now hc term pods vas f c).calls = [] ∧ (stageVolumes now hc term pods vas f c).triggered = false := by
  unfold stageVolumes
  generalize (pendingVAs now f.getPVC pods vas).isEmpty = pe
  generalize elapsed now term = el
  generalize volReadFault now pods vas f = rf
  cases f.listVAs <;> cases rf <;> cases pe <;> cases el <;> simp

theorem not_pass_iff (o : StageOut) : ((o.res ≠ .none || o.err) = true) ↔ o.pass = false := by
  unfold StageOut.pass
  cases o.err <;> by_cases h : o.res = .none <;> simp [h]

/-- the three stages in the order the source has them: if the loop falls through, every stage passed -/
theorem runStages_pass (now : Int) (hc : Bool) (term : Option Int) (pods : List Pod) (vas : List VA) (f : NodeFaults) (d : ProvOut) (c : Conds)
    (h : (runStages stageOrder now hc term pods vas f d c).pass = true) :
    waitingPods now pods = [] ∧ (hc = true → minDrainPending now (drainInit now hc c) = false) ∧
    (pendingVAs now f.getPVC pods vas = [] ∨ elapsed now term = true) ∧ (hc = true → d = .notFound) ∧
    (runStages stageOrder now hc term pods vas f d c).triggered = false := by
  rw [stageOrder_eq] at h ⊢
  obtain ⟨h1, h', ht1, _⟩ := runStages_cons_pass _ _ _ _ _ _ _ _ _ _ h
  obtain ⟨h2, h'', ht2, _⟩ := runStages_cons_pass _ _ _ _ _ _ _ _ _ _ h'
  obtain ⟨h3, _, ht3, _⟩ := runStages_cons_pass _ _ _ _ _ _ _ _ _ _ h''
  simp only [runStage] at h1 h2 h3 ht1 ht2 ht3
  obtain ⟨a1, a2, _, a4⟩ := stageDrain_pass _ _ _ _ _ h1
  obtain ⟨b1, _, b3⟩ := stageVolumes_pass _ _ _ _ _ _ _ h2
  obtain ⟨c1, c2⟩ := stageInstance_pass _ _ _ h3
  refine ⟨a1, a2, b1, c1, ?_⟩
  rw [ht1, ht2, ht3, a4, b3, c2, runStages_nil]
  rfl

/-- "in order": the provider is asked to terminate the instance only in a pass in which the drain stage and the
    volume stage passed -/
theorem providerDelete_after_drain (now : Int) (hc : Bool) (term : Option Int) (pods : List Pod) (vas : List VA) (f : NodeFaults) (d : ProvOut) (c : Conds)
    (h : Act.providerDelete ∈ (runStages stageOrder now hc term pods vas f d c).calls) :
    waitingPods now pods = [] ∧ (hc = true → minDrainPending now (drainInit now hc c) = false) ∧
    (pendingVAs now f.getPVC pods vas = [] ∨ elapsed now term = true) := by
  rw [stageOrder_eq, runStages_cons] at h
  by_cases h1 : (stageDrain now hc pods f c).pass = true
  · have hn : ¬ (((runStage .drain now hc term pods vas f d c).res ≠ .none || (runStage .drain now hc term pods vas f d c).err) = true) := by
      rw [not_pass_iff]; simpa [runStage] using h1
    rw [if_neg hn] at h
    simp only [runStage] at h
    rw [(stageDrain_calls _ _ _ _ _).1, List.nil_append, runStages_cons] at h
    obtain ⟨a1, a2, _, _⟩ := stageDrain_pass _ _ _ _ _ h1
    by_cases h2 : (stageVolumes now hc term pods vas f (stageDrain now hc pods f c).conds).pass = true
    · obtain ⟨b1, _, _⟩ := stageVolumes_pass _ _ _ _ _ _ _ h2
      exact ⟨a1, a2, b1⟩
    · have hp : (((runStage .volumes now hc term pods vas f d (stageDrain now hc pods f c).conds).res ≠ .none ||
          (runStage .volumes now hc term pods vas f d (stageDrain now hc pods f c).conds).err) = true) := by
        rw [not_pass_iff]; simpa [runStage] using h2
      rw [if_pos hp] at h
      simp only [runStage] at h
      rw [(stageVolumes_calls _ _ _ _ _ _ _).1] at h
      simp at h
  · have hp : (((runStage .drain now hc term pods vas f d c).res ≠ .none || (runStage .drain now hc term pods vas f d c).err) = true) := by
      rw [not_pass_iff]; simpa [runStage] using h1
    rw [if_pos hp] at h
    simp only [runStage] at h
    rw [(stageDrain_calls _ _ _ _ _).1] at h
    simp at h


theorem removeNodeFinalizer_removed (f : NodeFaults) (o : NodeOut) (h : (removeNodeFinalizer f o).removed = true) :
    o.removed = true ∨ f.removeFinalizer = .ok := by
  revert h
  unfold removeNodeFinalizer
  cases f.removeFinalizer <;> simp <;> intro h <;> exact Or.inl h

theorem removeNodeFinalizer_facts (f : NodeFaults) (o : NodeOut) :
    (removeNodeFinalizer f o).taintPatched = o.taintPatched ∧ (removeNodeFinalizer f o).deletedClaim = o.deletedClaim ∧
    (removeNodeFinalizer f o).triggered = o.triggered ∧ (removeNodeFinalizer f o).conds = o.conds := by
  unfold removeNodeFinalizer
  cases f.removeFinalizer <;> simp

theorem nodeFin_removed (f : NodeFaults) (s : StageOut) (o : NodeOut) (h : (nodeFin f s o).removed = true) :
    o.removed = true ∨ s.pass = true := by
  revert h
  unfold nodeFin StageOut.pass
  cases he : s.err <;> by_cases hr : s.res = .none <;> simp [hr]


theorem nodeFin_facts (f : NodeFaults) (s : StageOut) (o : NodeOut) :
    (nodeFin f s o).taintPatched = o.taintPatched ∧ (nodeFin f s o).deletedClaim = o.deletedClaim ∧ (nodeFin f s o).triggered = o.triggered := by
  unfold nodeFin
  have := removeNodeFinalizer_facts f o
  cases s.err <;> by_cases hr : s.res = .none <;> simp [hr, this]

theorem nodeTail_removed (f : NodeFaults) (hc : Bool) (stored : Conds) (s : StageOut) (o : NodeOut)
    (h : (nodeTail f hc stored s o).removed = true) : o.removed = true ∨ s.pass = true := by
  revert h
  unfold nodeTail
  dsimp only
  by_cases hcr : s.res = .crash
  · simp only [hcr, if_true]; exact Or.inl
  · simp only [hcr, if_false]
    by_cases hp : (hc && s.conds ≠ stored) = true
    · simp only [hp, if_true]
      cases statusPatchOutcome f o.deletedClaim <;> simp only
      · intro h; simpa using nodeFin_removed _ _ _ h
      · exact Or.inl
      · exact Or.inl
      · intro h; simpa using nodeFin_removed _ _ _ h
      · exact Or.inl
    · simp only [hp]
      intro h; simpa using nodeFin_removed _ _ _ h

theorem nodeTail_facts (f : NodeFaults) (hc : Bool) (stored : Conds) (s : StageOut) (o : NodeOut) :
    (nodeTail f hc stored s o).taintPatched = o.taintPatched ∧ (nodeTail f hc stored s o).deletedClaim = o.deletedClaim := by
  unfold nodeTail
  dsimp only
  by_cases hcr : s.res = .crash
  · simp [hcr]
  · simp only [hcr, if_false]
    by_cases hp : (hc && s.conds ≠ stored) = true
    · simp only [hp, if_true]
      cases statusPatchOutcome f o.deletedClaim <;> simp only [] <;> (try simp [nodeFin_facts])
    · simp only [hp]
      simp [nodeFin_facts]


/-- what a pass that removed the finalizer through the ordered path establishes -/
structure OrderedPath (now : Int) (n : NodeObs) (claim : Option ClaimObs) (pods : List Pod) (vas : List VA)
    (f : NodeFaults) (delOut : ProvOut) (taintPatched : Bool) : Prop where
  tainted : (n.tainted && n.lb) = true ∨ taintPatched = true
  drained : waitingPods now pods = []
  minDrain : claim.isSome = true → minDrainPending now (drainInit now claim.isSome (storedConds claim)) = false
  volumes : pendingVAs now f.getPVC pods vas = [] ∨ elapsed now (termOf claim) = true
  instance_ : claim.isSome = true → delOut = .notFound

theorem nodeFromTaint_removed (now : Int) (n : NodeObs) (claim : Option ClaimObs) (pods : List Pod) (vas : List VA)
    (f : NodeFaults) (delOut : ProvOut) (o : NodeOut)
    (h : (nodeFromTaint now n claim pods vas f delOut o).removed = true) :
    o.removed = true ∨ OrderedPath now n claim pods vas f delOut (nodeFromTaint now n claim pods vas f delOut o).taintPatched := by
  revert h
  unfold nodeFromTaint
  dsimp only
  by_cases hb : claimAnn claim = .bad
  · simp only [hb, if_true]; exact Or.inl
  · simp only [hb, if_false]
    by_cases hn : (!(n.tainted && n.lb)) = true
    · simp only [hn, if_true]
      cases f.patchNode <;> simp only
      · intro h
        rcases nodeTail_removed _ _ _ _ _ h with h | h
        · exact Or.inl h
        · right
          obtain ⟨a, b, c, d, _⟩ := runStages_pass _ _ _ _ _ _ _ _ h
          exact ⟨Or.inr (by rw [(nodeTail_facts _ _ _ _ _).1]), a, b, c, d⟩
      all_goals exact Or.inl
    · simp only [hn]
      intro h
      rcases nodeTail_removed _ _ _ _ _ h with h | h
      · exact Or.inl h
      · right
        obtain ⟨a, b, c, d, _⟩ := runStages_pass _ _ _ _ _ _ _ _ h
        exact ⟨Or.inl (by simpa using hn), a, b, c, d⟩


theorem nodeFromReady_removed (now : Int) (n : NodeObs) (claim : Option ClaimObs) (pods : List Pod) (vas : List VA)
    (f : NodeFaults) (getOut delOut : ProvOut) (o : NodeOut)
    (h : (nodeFromReady now n claim pods vas f getOut delOut o).removed = true) :
    o.removed = true ∨ (n.ready = false ∧ getOut = .notFound) ∨
      OrderedPath now n claim pods vas f delOut (nodeFromReady now n claim pods vas f getOut delOut o).taintPatched := by
  revert h
  unfold nodeFromReady
  dsimp only
  cases hr : n.ready
  · simp only [Bool.false_eq_true, if_false]
    cases getOut <;> simp only
    · intro h
      rcases nodeFromTaint_removed _ _ _ _ _ _ _ _ h with h | h
      · exact Or.inl h
      · exact Or.inr (Or.inr h)
    · intro _; exact Or.inr (Or.inl (by simp))
    · exact Or.inl
    · exact Or.inl
  · simp only [if_true]
    intro h
    rcases nodeFromTaint_removed _ _ _ _ _ _ _ _ h with h | h
    · exact Or.inl h
    · exact Or.inr (Or.inr h)

/-- **single pass, node**: if a pass of the node termination controller removes the finalizer, then the node was being
    deleted, carried the finalizer and is managed, and either it is not Ready and the provider answered `Get` with
    not-found, or the ordered path was completed in this very pass. -/
theorem nodeReconcile_removed (now : Int) (n : NodeObs) (claims : List ClaimObs) (pods : List Pod) (vas : List VA)
    (f : NodeFaults) (getOut delOut : ProvOut)
    (h : (nodeReconcile now n claims pods vas f getOut delOut).removed = true) :
    (n.deleting = true ∧ n.finalizer = true ∧ n.managed = true) ∧
    ((n.ready = false ∧ getOut = .notFound) ∨
      OrderedPath now n (nodeClaimOf n claims) pods vas f delOut (nodeReconcile now n claims pods vas f getOut delOut).taintPatched) := by
  revert h
  unfold nodeReconcile
  by_cases hg : (!n.deleting || !n.finalizer || !n.managed) = true
  · simp [hg]
  · simp only [hg]
    have hg' : n.deleting = true ∧ n.finalizer = true ∧ n.managed = true := by
      cases hd : n.deleting <;> cases hf : n.finalizer <;> cases hm : n.managed <;> simp_all
    by_cases hl1 : (if n.hasPid = true then f.listClaims else Fault.ok) = Fault.crash
    · simp [hl1]
    · simp only [hl1, if_false]
      by_cases hl2 : (if n.hasPid = true then f.listClaims else Fault.ok) ≠ Fault.ok
      · simp [hl2]
      · simp only [hl2, if_false]
        generalize needsDelete (nodeClaimOf n claims) = nd
        cases nd
        · simp only [Bool.false_eq_true, if_false]
          intro h
          rcases nodeFromReady_removed _ _ _ _ _ _ _ _ _ h with h | h
          · simp at h
          · exact ⟨hg', h⟩
        · simp only [if_true]
          cases f.deleteClaim <;> simp only
          · intro h
            rcases nodeFromReady_removed _ _ _ _ _ _ _ _ _ h with h | h
            · simp at h
            · exact ⟨hg', h⟩
          · simp
          · simp
          · intro h
            rcases nodeFromReady_removed _ _ _ _ _ _ _ _ _ h with h | h
            · simp at h
            · exact ⟨hg', h⟩
          · simp


/-! ### where `providerDelete` can appear in the action log -/

theorem pd_removeNodeFinalizer (f : NodeFaults) (o : NodeOut) (h : Act.providerDelete ∈ (removeNodeFinalizer f o).calls) :
    Act.providerDelete ∈ o.calls := by
  revert h
  unfold removeNodeFinalizer
  cases f.removeFinalizer <;> simp

theorem pd_nodeFin (f : NodeFaults) (s : StageOut) (o : NodeOut) (h : Act.providerDelete ∈ (nodeFin f s o).calls) :
    Act.providerDelete ∈ o.calls := by
  revert h
  unfold nodeFin
  cases s.err <;> by_cases hr : s.res = .none <;> simp [hr]
  exact pd_removeNodeFinalizer f o

theorem pd_nodeTail (f : NodeFaults) (hc : Bool) (stored : Conds) (s : StageOut) (o : NodeOut)
    (h : Act.providerDelete ∈ (nodeTail f hc stored s o).calls) :
    Act.providerDelete ∈ o.calls ∨ Act.providerDelete ∈ s.calls := by
  revert h
  unfold nodeTail
  dsimp only
  by_cases hcr : s.res = .crash
  · simp only [hcr, if_true]; simp
  · simp only [hcr, if_false]
    by_cases hp : (hc && s.conds ≠ stored) = true
    · simp only [hp, if_true]
      cases statusPatchOutcome f o.deletedClaim <;> simp only
      · intro h; simpa using pd_nodeFin _ _ _ h
      · simp
      · simp
      · intro h; simpa using pd_nodeFin _ _ _ h
      · simp
    · simp only [hp]
      intro h; simpa using pd_nodeFin _ _ _ h

theorem pd_nodeFromTaint (now : Int) (n : NodeObs) (claim : Option ClaimObs) (pods : List Pod) (vas : List VA)
    (f : NodeFaults) (delOut : ProvOut) (o : NodeOut)
    (h : Act.providerDelete ∈ (nodeFromTaint now n claim pods vas f delOut o).calls) :
    Act.providerDelete ∈ o.calls ∨
      (((n.tainted && n.lb) = true ∨ (nodeFromTaint now n claim pods vas f delOut o).taintPatched = true) ∧
       Act.providerDelete ∈ (runStages stageOrder now claim.isSome (termOf claim) pods vas f delOut (storedConds claim)).calls) := by
  revert h
  unfold nodeFromTaint
  dsimp only
  by_cases hb : claimAnn claim = .bad
  · simp only [hb, if_true]; exact Or.inl
  · simp only [hb, if_false]
    by_cases hn : (!(n.tainted && n.lb)) = true
    · simp only [hn, if_true]
      cases f.patchNode <;> simp only
      · intro h
        rcases pd_nodeTail _ _ _ _ _ h with h | h
        · left; simpa using h
        · right; exact ⟨Or.inr (by rw [(nodeTail_facts _ _ _ _ _).1]), h⟩
      all_goals (intro h; left; simpa using h)
    · simp only [hn]
      intro h
      rcases pd_nodeTail _ _ _ _ _ h with h | h
      · left; simpa using h
      · right; exact ⟨Or.inl (by simpa using hn), h⟩

theorem pd_nodeFromReady (now : Int) (n : NodeObs) (claim : Option ClaimObs) (pods : List Pod) (vas : List VA)
    (f : NodeFaults) (getOut delOut : ProvOut) (o : NodeOut)
    (h : Act.providerDelete ∈ (nodeFromReady now n claim pods vas f getOut delOut o).calls) :
    Act.providerDelete ∈ o.calls ∨
      (((n.tainted && n.lb) = true ∨ (nodeFromReady now n claim pods vas f getOut delOut o).taintPatched = true) ∧
       Act.providerDelete ∈ (runStages stageOrder now claim.isSome (termOf claim) pods vas f delOut (storedConds claim)).calls) := by
  revert h
  unfold nodeFromReady
  dsimp only
  cases hr : n.ready
  · simp only [Bool.false_eq_true, if_false]
    cases getOut <;> simp only
    · intro h
      rcases pd_nodeFromTaint _ _ _ _ _ _ _ _ h with h | h
      · left; simpa using h
      · exact Or.inr h
    · intro h; left; simpa using pd_removeNodeFinalizer _ _ h
    · intro h; left; simpa using h
    · intro h; left; simpa using h
  · simp only [if_true]
    intro h
    rcases pd_nodeFromTaint _ _ _ _ _ _ _ _ h with h | h
    · exact Or.inl h
    · exact Or.inr h

/-- **single pass, order**: the node termination controller asks the provider to terminate the instance only in a
    pass in which the node is (by then) tainted, no pod waits for eviction and no volume attachment is pending (or the
    deadline has passed). -/
theorem nodeReconcile_providerDelete (now : Int) (n : NodeObs) (claims : List ClaimObs) (pods : List Pod) (vas : List VA)
    (f : NodeFaults) (getOut delOut : ProvOut)
    (h : Act.providerDelete ∈ (nodeReconcile now n claims pods vas f getOut delOut).calls) :
    ((n.tainted && n.lb) = true ∨ (nodeReconcile now n claims pods vas f getOut delOut).taintPatched = true) ∧
    waitingPods now pods = [] ∧
    (pendingVAs now f.getPVC pods vas = [] ∨ elapsed now (termOf (nodeClaimOf n claims)) = true) := by
  revert h
  unfold nodeReconcile
  by_cases hg : (!n.deleting || !n.finalizer || !n.managed) = true
  · simp [hg]
  · simp only [hg]
    by_cases hl1 : (if n.hasPid = true then f.listClaims else Fault.ok) = Fault.crash
    · simp [hl1]
    · simp only [hl1, if_false]
      by_cases hl2 : (if n.hasPid = true then f.listClaims else Fault.ok) ≠ Fault.ok
      · simp [hl2]
      · simp only [hl2, if_false]
        have key : ∀ o : NodeOut, Act.providerDelete ∉ o.calls →
            Act.providerDelete ∈ (nodeFromReady now n (nodeClaimOf n claims) pods vas f getOut delOut o).calls →
            ((n.tainted && n.lb) = true ∨ (nodeFromReady now n (nodeClaimOf n claims) pods vas f getOut delOut o).taintPatched = true) ∧
            waitingPods now pods = [] ∧
            (pendingVAs now f.getPVC pods vas = [] ∨ elapsed now (termOf (nodeClaimOf n claims)) = true) := by
          intro o ho h
          rcases pd_nodeFromReady _ _ _ _ _ _ _ _ _ h with h | ⟨ht, h⟩
          · exact absurd h ho
          · obtain ⟨a, _, c⟩ := providerDelete_after_drain _ _ _ _ _ _ _ _ h
            exact ⟨ht, a, c⟩
        generalize needsDelete (nodeClaimOf n claims) = nd
        cases nd
        · simp only [Bool.false_eq_true, if_false]
          exact key _ (by simp)
        · simp only [if_true]
          cases f.deleteClaim <;> simp only
          · exact key _ (by simp)
          · simp
          · simp
          · exact key _ (by simp)
          · simp


/-! ## NodeClaim lifecycle controller -/

/-- the fields of a lifecycle pass that only the launch path or the end of `finalize` can set -/
structure ClaimCore where
  removed : Bool
  created : Bool
  launchPersisted : Bool
  statusPersisted : Bool
  finalizerAdded : Bool
  selfDeleted : Bool
  instPersisted : Bool
  triggered : Bool
deriving DecidableEq

def ClaimOut.core (o : ClaimOut) : ClaimCore :=
  { removed := o.removed, created := o.created, launchPersisted := o.launchPersisted, statusPersisted := o.statusPersisted,
    finalizerAdded := o.finalizerAdded, selfDeleted := o.selfDeleted, instPersisted := o.instPersisted, triggered := o.triggered }

def ClaimCore.zero : ClaimCore :=
  { removed := false, created := false, launchPersisted := false, statusPersisted := false, finalizerAdded := false,
    selfDeleted := false, instPersisted := false, triggered := false }

theorem deleteNodes_core (fault : Fault) : ∀ (l : List NodeRef) (o : ClaimOut), (deleteNodes fault l o).1.core = o.core := by
  intro l
  induction l with
  | nil => intro o; rfl
  | cons n rest ih =>
    intro o
    unfold deleteNodes
    cases n.deleting
    · simp only [Bool.false_eq_true, if_false]
      cases fault <;> simp only [] <;> (try rw [ih]) <;> rfl
    · simp only [if_true]; exact ih o

theorem removeClaimFinalizer_core (f : ClaimFaults) (o : ClaimOut) :
    (removeClaimFinalizer f o).core = { o.core with removed := (removeClaimFinalizer f o).removed } ∧
    ((removeClaimFinalizer f o).removed = true → o.removed = true ∨ f.removeFinalizer = .ok) := by
  unfold removeClaimFinalizer
  cases f.removeFinalizer <;> simp [ClaimOut.core]

/-- the instance step: the finalizer goes only after the provider answered not-found (if there is a provider id);
    nothing of the launch path is touched -/
theorem claimInstanceStep_spec (c : ClaimState) (f : ClaimFaults) (d : ProvOut) (o : ClaimOut) :
    ((claimInstanceStep c f d o).removed = true → o.removed = true ∨ (c.pid = true → d = .notFound)) ∧
    (claimInstanceStep c f d o).created = o.created ∧ (claimInstanceStep c f d o).launchPersisted = o.launchPersisted ∧
    (claimInstanceStep c f d o).statusPersisted = o.statusPersisted ∧ (claimInstanceStep c f d o).finalizerAdded = o.finalizerAdded ∧
    (claimInstanceStep c f d o).selfDeleted = o.selfDeleted ∧
    ((claimInstanceStep c f d o).triggered = true → o.triggered = true ∨ d = .ok) := by
  unfold claimInstanceStep removeClaimFinalizer
  cases hp : c.pid
  · simp only [Bool.false_eq_true, if_false]
    cases f.removeFinalizer <;> simp <;> exact Or.inl
  · simp only [if_true]
    by_cases hnp : c.inst = CondS.true_
    · cases d <;> cases f.removeFinalizer <;> simp [requeueAt, hnp] <;> (try exact Or.inl)
    · cases d <;> cases f.patchStatus <;> cases f.removeFinalizer <;> simp [requeueAt, hnp] <;> (try exact Or.inl)


theorem core_eq {a b : ClaimOut} (h : a.core = b.core) :
    a.removed = b.removed ∧ a.created = b.created ∧ a.launchPersisted = b.launchPersisted ∧ a.statusPersisted = b.statusPersisted ∧
    a.finalizerAdded = b.finalizerAdded ∧ a.selfDeleted = b.selfDeleted ∧ a.instPersisted = b.instPersisted ∧ a.triggered = b.triggered := by
  simp only [ClaimOut.core, ClaimCore.mk.injEq] at h
  exact h

/-- what one `finalize` pass of the lifecycle controller can do -/
structure FinalizeFacts (c : ClaimState) (nodes : List NodeRef) (d : ProvOut) (o : ClaimOut) : Prop where
  removed : o.removed = true → c.finalizer = true ∧ nodesOfClaim c nodes = [] ∧ (c.pid = true → d = .notFound)
  created : o.created = false
  launchPersisted : o.launchPersisted = false
  statusPersisted : o.statusPersisted = false
  finalizerAdded : o.finalizerAdded = false
  selfDeleted : o.selfDeleted = false
  triggered : o.triggered = true → d = .ok

theorem claimFinalize_spec (c : ClaimState) (nodes : List NodeRef) (f : ClaimFaults) (d : ProvOut) :
    FinalizeFacts c nodes d (claimFinalize c nodes f d) := by
  have trivialFacts : ∀ o : ClaimOut, o.core = ClaimCore.zero → FinalizeFacts c nodes d o := by
    intro o h
    have := core_eq (a := o) (b := {}) (by simpa [ClaimOut.core, ClaimCore.zero] using h)
    obtain ⟨h1, h2, h3, h4, h5, h6, _, h8⟩ := this
    exact ⟨by simp [h1], h2, h3, h4, h5, h6, by simp [h8]⟩
  unfold claimFinalize
  cases hfin : c.finalizer
  · simp only [Bool.not_false, if_true]; exact trivialFacts _ rfl
  · simp only [Bool.not_true, Bool.false_eq_true, if_false]
    generalize (c.term = TermAnn.absent && c.tgp.isSome && c.deleting) = needAnn
    -- whatever the annotation step did, the pass so far has touched none of the core fields
    generalize (if (c.registered = CondS.true_ && c.pid) = true then f.listNodes else Fault.ok) = lf
    have step : ∀ o : ClaimOut, o.core = ClaimCore.zero →
        FinalizeFacts c nodes d
          (if lf = Fault.crash then { o with res := .crash }
           else if lf ≠ Fault.ok then { o with err := true }
           else if (!(deleteNodes f.deleteNode (nodesOfClaim c nodes) o).2) = true then (deleteNodes f.deleteNode (nodesOfClaim c nodes) o).1
           else if (!(nodesOfClaim c nodes).isEmpty) = true then (deleteNodes f.deleteNode (nodesOfClaim c nodes) o).1
           else claimInstanceStep c f d (deleteNodes f.deleteNode (nodesOfClaim c nodes) o).1) := by
      intro o ho
      have hdn : (deleteNodes f.deleteNode (nodesOfClaim c nodes) o).1.core = ClaimCore.zero := by rw [deleteNodes_core]; exact ho
      by_cases h1 : lf = Fault.crash
      · rw [if_pos h1]; exact trivialFacts _ ho
      · rw [if_neg h1]
        by_cases h2 : lf ≠ Fault.ok
        · rw [if_pos h2]; exact trivialFacts _ ho
        · rw [if_neg h2]
          by_cases h3 : (!(deleteNodes f.deleteNode (nodesOfClaim c nodes) o).2) = true
          · rw [if_pos h3]; exact trivialFacts _ hdn
          · rw [if_neg h3]
            by_cases h4 : (!(nodesOfClaim c nodes).isEmpty) = true
            · rw [if_pos h4]; exact trivialFacts _ hdn
            · rw [if_neg h4]
              have hempty : nodesOfClaim c nodes = [] := by
                cases hl : nodesOfClaim c nodes with
                | nil => rfl
                | cons a b => simp [hl] at h4
              obtain ⟨h1, h2, h3, h4, h5, h6, _, h8⟩ := core_eq (a := (deleteNodes f.deleteNode (nodesOfClaim c nodes) o).1) (b := {}) (by simpa [ClaimOut.core, ClaimCore.zero] using hdn)
              obtain ⟨s1, s2, s3, s4, s5, s6, s7⟩ := claimInstanceStep_spec c f d (deleteNodes f.deleteNode (nodesOfClaim c nodes) o).1
              refine ⟨?_, by rw [s2, h2], by rw [s3, h3], by rw [s4, h4], by rw [s5, h5], by rw [s6, h6], ?_⟩
              · intro hr
                rcases s1 hr with hh | hh
                · rw [h1] at hh; simp at hh
                · exact ⟨hfin, hempty, hh⟩
              · intro ht
                rcases s7 ht with hh | hh
                · rw [h8] at hh; simp at hh
                · exact hh
    cases needAnn
    · simp only [Bool.false_eq_true, if_false, Bool.false_and]
      exact step _ rfl
    · simp only [if_true, Bool.true_and]
      cases f.annotate <;> simp only []
      · exact step _ rfl
      · exact trivialFacts _ rfl
      · exact trivialFacts _ rfl
      · exact step _ rfl
      · exact trivialFacts _ rfl


/-- what one pass of the launch path can do -/
structure LaunchFacts (c : ClaimState) (cache : Bool) (o : ClaimOut) : Prop where
  removed : o.removed = false
  triggered : o.triggered = false
  nodesDeleted : o.nodesDeleted = 0
  annotated : o.annotated = false
  instPersisted : o.instPersisted = false
  created : o.created = true → c.fresh = true ∧ cache = false
  finalizer : (o.created = true ∨ o.selfDeleted = true ∨ o.statusPersisted = true) → (c.finalizer = true ∨ o.finalizerAdded = true)
  persisted : o.launchPersisted = true → o.statusPersisted = true
  freshOnly : o.statusPersisted = true → c.fresh = true

theorem launchPersist_spec (h l r : Bool) (f : ClaimFaults) (o : ClaimOut) :
    (launchPersist h l r f o).removed = o.removed ∧ (launchPersist h l r f o).triggered = o.triggered ∧
    (launchPersist h l r f o).nodesDeleted = o.nodesDeleted ∧ (launchPersist h l r f o).annotated = o.annotated ∧
    (launchPersist h l r f o).instPersisted = o.instPersisted ∧ (launchPersist h l r f o).created = o.created ∧
    (launchPersist h l r f o).selfDeleted = o.selfDeleted ∧ (launchPersist h l r f o).finalizerAdded = o.finalizerAdded ∧
    ((launchPersist h l r f o).launchPersisted = true → o.launchPersisted = true ∨ ((launchPersist h l r f o).statusPersisted = true ∧ h = true)) ∧
    ((launchPersist h l r f o).statusPersisted = true → o.statusPersisted = true ∨ (f.patchClaim = .ok ∧ f.patchStatus = .ok)) := by
  unfold launchPersist
  cases f.patchClaim <;> cases f.patchStatus <;> simp <;> (try exact Or.inl)
  intro hh; exact Or.inr hh

theorem launchCreated_spec (cache : Bool) (co : CreateOut) (o : ClaimOut) :
    (launchCreated cache co o).removed = o.removed ∧ (launchCreated cache co o).triggered = o.triggered ∧
    (launchCreated cache co o).nodesDeleted = o.nodesDeleted ∧ (launchCreated cache co o).annotated = o.annotated ∧
    (launchCreated cache co o).instPersisted = o.instPersisted ∧ (launchCreated cache co o).finalizerAdded = o.finalizerAdded ∧
    (launchCreated cache co o).launchPersisted = o.launchPersisted ∧ (launchCreated cache co o).statusPersisted = o.statusPersisted ∧
    ((launchCreated cache co o).created = true → o.created = true ∨ (cache = false ∧ co = .ok)) := by
  unfold launchCreated
  cases co <;> simp <;> (try exact Or.inl)
  intro h; cases cache <;> simp_all

theorem launchFresh_spec (cache : Bool) (f : ClaimFaults) (co : CreateOut) (o : ClaimOut) :
    (launchFresh cache f co o).removed = o.removed ∧ (launchFresh cache f co o).triggered = o.triggered ∧
    (launchFresh cache f co o).nodesDeleted = o.nodesDeleted ∧ (launchFresh cache f co o).annotated = o.annotated ∧
    (launchFresh cache f co o).instPersisted = o.instPersisted ∧ (launchFresh cache f co o).finalizerAdded = o.finalizerAdded ∧
    ((launchFresh cache f co o).created = true → o.created = true ∨ cache = false) ∧
    ((launchFresh cache f co o).launchPersisted = true → o.launchPersisted = true ∨ (launchFresh cache f co o).statusPersisted = true) := by
  have key : ∀ (co' : CreateOut) (o1 : ClaimOut), o1.removed = o.removed → o1.triggered = o.triggered → o1.nodesDeleted = o.nodesDeleted →
      o1.annotated = o.annotated → o1.instPersisted = o.instPersisted → o1.finalizerAdded = o.finalizerAdded → o1.created = o.created →
      o1.launchPersisted = o.launchPersisted →
      let r := (if co' = CreateOut.crash then { o1 with res := Res.crash }
        else if (if co' = CreateOut.ok then f.listNodes else Fault.ok) = Fault.crash then { launchCreated cache co' o1 with res := Res.crash }
        else launchPersist (co' = CreateOut.ok) (co' = CreateOut.err) ((if co' = CreateOut.ok then f.listNodes else Fault.ok) ≠ Fault.ok) f (launchCreated cache co' o1))
      r.removed = o.removed ∧ r.triggered = o.triggered ∧ r.nodesDeleted = o.nodesDeleted ∧ r.annotated = o.annotated ∧
      r.instPersisted = o.instPersisted ∧ r.finalizerAdded = o.finalizerAdded ∧
      (r.created = true → o.created = true ∨ cache = false) ∧
      (r.launchPersisted = true → o.launchPersisted = true ∨ r.statusPersisted = true) := by
    intro co' o1 h1 h2 h3 h4 h5 h6 h7 h8
    obtain ⟨c1, c2, c3, c4, c5, c6, c7, c8, c9⟩ := launchCreated_spec cache co' o1
    dsimp only
    by_cases hc : co' = CreateOut.crash
    · rw [if_pos hc]
      refine ⟨h1, h2, h3, h4, h5, h6, ?_, ?_⟩
      · intro h; left; rw [← h7]; exact h
      · intro h; left; rw [← h8]; exact h
    · rw [if_neg hc]
      by_cases hl : (if co' = CreateOut.ok then f.listNodes else Fault.ok) = Fault.crash
      · rw [if_pos hl]
        refine ⟨by rw [← h1, ← c1], by rw [← h2, ← c2], by rw [← h3, ← c3], by rw [← h4, ← c4], by rw [← h5, ← c5], by rw [← h6, ← c6], ?_, ?_⟩
        · intro h
          rcases c9 h with h | h
          · left; rw [← h7]; exact h
          · right; exact h.1
        · intro h; left; rw [← h8, ← c7]; exact h
      · rw [if_neg hl]
        obtain ⟨p1, p2, p3, p4, p5, p6, p7, p8, p9, _⟩ := launchPersist_spec (decide (co' = CreateOut.ok)) (decide (co' = CreateOut.err))
          (decide ((if co' = CreateOut.ok then f.listNodes else Fault.ok) ≠ Fault.ok)) f (launchCreated cache co' o1)
        refine ⟨by rw [p1, c1, h1], by rw [p2, c2, h2], by rw [p3, c3, h3], by rw [p4, c4, h4], by rw [p5, c5, h5], by rw [p8, c6, h6], ?_, ?_⟩
        · intro h
          rw [p6] at h
          rcases c9 h with h | h
          · left; rw [← h7]; exact h
          · right; exact h.1
        · intro h
          rcases p9 h with h | h
          · left; rw [← h8, ← c7]; exact h
          · right; exact h.1
  unfold launchFresh
  cases cache
  · exact key co { o with calls := o.calls ++ [Act.providerCreate] } rfl rfl rfl rfl rfl rfl rfl rfl
  · exact key CreateOut.ok o rfl rfl rfl rfl rfl rfl rfl rfl

theorem claimLaunch_spec (c : ClaimState) (cache : Bool) (f : ClaimFaults) (co : CreateOut) :
    LaunchFacts c cache (claimLaunch c cache f co) := by
  have trivialFacts : ∀ o : ClaimOut, o.removed = false → o.triggered = false → o.nodesDeleted = 0 → o.annotated = false →
      o.instPersisted = false → o.created = false → o.selfDeleted = false → o.statusPersisted = false → o.launchPersisted = false →
      LaunchFacts c cache o := by
    intro o h1 h2 h3 h4 h5 h6 h7 h8 h9
    exact ⟨h1, h2, h3, h4, h5, by simp [h6], by simp [h6, h7, h8], by simp [h9], by simp [h8]⟩
  unfold claimLaunch
  dsimp only
  cases hfin : c.finalizer
  · simp only [Bool.not_false, if_true]
    cases f.addFinalizer <;> simp only [] <;> (try (exact trivialFacts _ rfl rfl rfl rfl rfl rfl rfl rfl rfl))
    cases hfr : c.fresh
    · simp only [Bool.false_eq_true, if_false]; exact trivialFacts _ rfl rfl rfl rfl rfl rfl rfl rfl rfl
    · simp only [if_true]
      obtain ⟨a1, a2, a3, a4, a5, a6, a7, a8⟩ := launchFresh_spec cache f co
        { calls := [Act.addClaimFinalizer], finalizerAdded := true, cached := cache }
      refine ⟨a1, a2, a3, a4, a5, ?_, ?_, ?_, fun _ => hfr⟩
      · intro h; rcases a7 h with h | h
        · simp at h
        · exact ⟨hfr, h⟩
      · intro _; right; rw [a6]
      · intro h; rcases a8 h with h | h
        · simp at h
        · exact h
  · simp only [Bool.not_true, Bool.false_eq_true, if_false]
    cases hfr : c.fresh
    · simp only [Bool.false_eq_true, if_false]; exact trivialFacts _ rfl rfl rfl rfl rfl rfl rfl rfl rfl
    · simp only [if_true]
      obtain ⟨a1, a2, a3, a4, a5, a6, a7, a8⟩ := launchFresh_spec cache f co { finalizerAdded := false, cached := cache }
      refine ⟨a1, a2, a3, a4, a5, ?_, ?_, ?_, fun _ => hfr⟩
      · intro h; rcases a7 h with h | h
        · simp at h
        · exact ⟨hfr, h⟩
      · intro _; left; exact hfin
      · intro h; rcases a8 h with h | h
        · simp at h
        · exact h


theorem claimReconcile_cases (c : ClaimState) (nodes : List NodeRef) (cache : Bool) (f : ClaimFaults) (d : ProvOut) (co : CreateOut) :
    (c.managed = false ∧ claimReconcile c nodes cache f d co = { cached := cache }) ∨
    (c.managed = true ∧ c.deleting = true ∧ claimReconcile c nodes cache f d co = { claimFinalize c nodes f d with cached := cache }) ∨
    (c.managed = true ∧ c.deleting = false ∧ claimReconcile c nodes cache f d co = claimLaunch c cache f co) := by
  unfold claimReconcile
  cases c.managed <;> cases c.deleting <;> simp

/-! ## Volume attachments in transitional states

The code reads nothing of a VolumeAttachment but its persistent volume name (regenerated fact `Finalize.vaFilterReads`):
an attachment that carries a deletionTimestamp (held by the external-attacher's finalizer while the detach is going on)
or whose `status.attached` is false blocks exactly like any other. -/

/-- rewrite the deletion mark and the attached status of an attachment (everything the code does not read) -/
def VA.remark (g : VA → Bool × Bool) (v : VA) : VA := { v with terminating := (g v).1, unattached := (g v).2 }

theorem any_onNode_remark (g : VA → Bool × Bool) (vas : List VA) :
    (vas.map (VA.remark g)).any (·.onNode) = vas.any (·.onNode) := by
  induction vas with
  | nil => rfl
  | cons v vs ih => simp only [List.map_cons, List.any_cons, ih, VA.remark]

theorem pendingVAs_remark (g : VA → Bool × Bool) (now : Int) (ft : Fault) (pods : List Pod) (vas : List VA) :
    pendingVAs now ft pods (vas.map (VA.remark g)) = (pendingVAs now ft pods vas).map (VA.remark g) := by
  unfold pendingVAs
  simp only [List.filter_map]
  rfl

theorem stageVolumes_remark (g : VA → Bool × Bool) (now : Int) (hc : Bool) (term : Option Int) (pods : List Pod) (vas : List VA)
    (f : NodeFaults) (c : Conds) :
    stageVolumes now hc term pods (vas.map (VA.remark g)) f c = stageVolumes now hc term pods vas f c := by
  unfold stageVolumes volReadFault pvcLookedUp
  rw [any_onNode_remark, pendingVAs_remark]
  simp only [List.isEmpty_map]

theorem runStages_remark (g : VA → Bool × Bool) (stages : List Stage) (now : Int) (hc : Bool) (term : Option Int) (pods : List Pod)
    (vas : List VA) (f : NodeFaults) (d : ProvOut) (c : Conds) :
    runStages stages now hc term pods (vas.map (VA.remark g)) f d c = runStages stages now hc term pods vas f d c := by
  induction stages generalizing c with
  | nil => rfl
  | cons s rest ih =>
    have hs : runStage s now hc term pods (vas.map (VA.remark g)) f d c = runStage s now hc term pods vas f d c := by
      cases s <;> simp only [runStage, stageVolumes_remark]
    simp only [runStages, hs, ih]

/-- an attachment of the node for a persistent volume that no undrainable pod mounts is pending, whatever its state -/
theorem mem_pendingVAs (now : Int) (ft : Fault) (pods : List Pod) (vas : List VA) (v : VA) (k : Nat)
    (hv : v ∈ vas) (hon : v.onNode = true) (hk : v.pv = some k) (hns : (shieldedPVs now .ok pods).contains k = false) :
    v ∈ pendingVAs now ft pods vas := by
  unfold pendingVAs
  simp only [List.mem_filter, hv, hon, hk, true_and, and_true]
  by_cases hf : ft = .ok
  · rw [hf, hns]; rfl
  · simp [shieldedPVs, hf]

end Karp.Term
