/-
C11 helper lemmas: a Node reconcile rebuilds the per-pod aggregates exactly from the pods the API lists for the node;
a NodeClaim update keeps them.
-/
import Karp.Proofs.ClusterStateAgg
import Karp.Proofs.ClusterStatePoolAbs

namespace Karp.ClusterState
open Cluster

/-- the pods `populateResourceRequests` accounts: bound to the node and not terminal -/
def onNode (nodeName : String) (p : PodObj) : Bool := p.node = nodeName && !p.terminal

theorem populate_snd (fx : Fixes) (nodeName : String) (pods : List PodObj) :
    ∀ (c : Cluster) (n : SNode), (c.populate fx n nodeName pods).2 = (pods.filter (onNode nodeName)).foldl (SNode.updateForPod fx) n := by
  induction pods with
  | nil => intro c n; rfl
  | cons p ps ih =>
    intro c n
    unfold Cluster.populate
    by_cases h : (decide (p.node = nodeName) && !p.terminal) = true
    · rw [if_pos h, List.filter_cons_of_pos (p := onNode nodeName) h, List.foldl_cons]
      exact ih _ _
    · rw [if_neg h, List.filter_cons_of_neg (p := onNode nodeName) h]
      exact ih _ _

theorem foldl_upd (fx : Fixes) (l : List PodObj) : ∀ (s : SNode) (R : Map PodObj),
    l.foldl (SNode.updateForPod fx) s = (l.map PodOp.upd).foldl (applyPodOp fx) s ∧
    l.foldl (fun R p => Map.put R p.name p) R = (l.map PodOp.upd).foldl tablePodOp R := by
  induction l with
  | nil => intro s R; exact ⟨rfl, rfl⟩
  | cons p l ih => intro s R; simp only [List.foldl_cons, List.map_cons]; exact ih _ _

/-- the table a list of pods with distinct names builds -/
theorem get_foldl_put (l : List PodObj) : ∀ (R : Map PodObj) (k : String), (l.map (·.name)).Nodup →
    Map.get (l.foldl (fun R p => Map.put R p.name p) R) k =
      match l.find? (fun p => p.name = k) with
      | some p => some p
      | none => Map.get R k := by
  induction l with
  | nil => intro R k _; rfl
  | cons p l ih =>
    intro R k hn
    rw [List.map_cons, List.nodup_cons] at hn
    simp only [List.foldl_cons]
    rw [ih _ k hn.2]
    by_cases hp : p.name = k
    · have : l.find? (fun q => decide (q.name = k)) = none := by
        rw [List.find?_eq_none]
        intro q hq hqk
        apply hn.1
        have : q.name = k := by simpa using hqk
        rw [hp, ← this]
        exact List.mem_map_of_mem hq
      rw [this, List.find?_cons_of_pos (by simpa using hp)]
      simp only []
      rw [Map.get_put, if_pos hp.symm]
    · rw [List.find?_cons_of_neg (by simpa using hp)]
      cases hf : l.find? (fun q => decide (q.name = k)) with
      | some q => rfl
      | none => simp only []; rw [Map.get_put, if_neg (fun e => hp e.symm)]

/-- the pods of the API, stored under their own names -/
structure PodsOK (dsOf : String → Bool) (api : Api) : Prop where
  nd : Map.NoDup api.pods
  named : ∀ k p, Map.get api.pods k = some p → p.name = k ∧ dsOf k = p.ds

theorem vals_names_nodup {m : Map PodObj} (hn : Map.NoDup m) (hnamed : ∀ k p, Map.get m k = some p → p.name = k) :
    ((Map.vals m).map (·.name)).Nodup := by
  have : (Map.vals m).map (·.name) = Map.keys m := by
    unfold Map.vals Map.keys
    rw [List.map_map]
    apply List.map_congr_left
    intro e he
    obtain ⟨k, p⟩ := e
    exact (hnamed k p (Map.get_of_mem hn he))
  rw [this]; exact hn

theorem find_named {m : Map PodObj} (hn : Map.NoDup m) (hnamed : ∀ k p, Map.get m k = some p → p.name = k) (q : PodObj → Bool)
    (k : String) : ((Map.vals m).filter q).find? (fun p => p.name = k) = (Map.get m k).filter q := by
  rw [List.find?_filter]
  have hpred : ∀ x : PodObj, decide (q x = true ∧ decide (x.name = k) = true) = true ↔ (q x = true ∧ x.name = k) := by
    intro x; simp
  have hfalse : ∀ x : PodObj, ¬ (q x = true ∧ x.name = k) → decide (q x = true ∧ decide (x.name = k) = true) = false := by
    intro x hx
    cases hd : decide (q x = true ∧ decide (x.name = k) = true) with
    | false => rfl
    | true => exact absurd ((hpred x).mp hd) hx
  cases hg : Map.get m k with
  | none =>
    rw [Map.find_vals_none]; · rfl
    intro k' p hm
    apply hfalse
    intro hx
    have h1 := Map.get_of_mem hn hm
    have h2 := hnamed k' p h1
    rw [← h2, hx.2, hg] at h1
    simp at h1
  | some p =>
    have hpn := hnamed k p hg
    by_cases hq : q p = true
    · rw [Map.find_vals_unique m _ k p hn (Map.mem_of_get hg) ((hpred p).mpr ⟨hq, hpn⟩)]
      · simp [Option.filter, hq]
      · intro k' p' hm' hp'
        have := (hpred p').mp hp'
        rw [← hnamed k' p' (Map.get_of_mem hn hm'), this.2]
    · rw [Map.find_vals_none]
      · simp [Option.filter, hq]
      · intro k' p' hm'
        apply hfalse
        intro hx
        have h1 := Map.get_of_mem hn hm'
        rw [← hnamed k' p' h1, hx.2, hg] at h1
        rw [← Option.some.inj h1] at hx
        exact hq hx.1

/-- **`populateResourceRequests` into a state node without pods yields exactly the API's pods of that node** -/
theorem populate_agg (fx : Fixes) (dsOf : String → Bool) (c : Cluster) (api : Api) (n : SNode) (nodeName : String)
    (hapi : PodsOK dsOf api) (hn : Agg n []) (hv : VolExact n []) :
    ∃ R, Agg (c.populate fx n nodeName api.pods.vals).2 R ∧ TableOK dsOf R ∧
      (∀ k, Map.get R k = (Map.get api.pods k).filter (onNode nodeName)) ∧
      (fx.volRebuild = true → VolExact (c.populate fx n nodeName api.pods.vals).2 R) := by
  have hnamed : ∀ k p, Map.get api.pods k = some p → p.name = k := fun k p h => (hapi.named k p h).1
  have hf := foldl_upd fx (api.pods.vals.filter (onNode nodeName)) n []
  have hds : ∀ p, PodOp.upd p ∈ (api.pods.vals.filter (onNode nodeName)).map PodOp.upd → dsOf p.name = p.ds := by
    intro p hp
    rw [List.mem_map] at hp
    obtain ⟨q, hq, he⟩ := hp
    have hpq : q = p := by injection he
    rw [← hpq]
    have hm := (List.mem_filter.mp hq).1
    obtain ⟨k, hk⟩ := Map.mem_vals hm
    have := hapi.named k q (Map.get_of_mem hapi.nd hk)
    rw [this.1]; exact this.2
  have hall := podOps_agg fx dsOf ((api.pods.vals.filter (onNode nodeName)).map PodOp.upd) n [] hn
    ⟨Map.noDup_nil, by intro k p h; simp at h⟩ (fun _ => hv) hds
  refine ⟨_, ?_, hall.2.1, ?_, ?_⟩
  · rw [populate_snd, hf.1]; exact hall.1
  · intro k
    rw [← hf.2, get_foldl_put _ [] k]
    · rw [find_named hapi.nd hnamed]
      cases (Map.get api.pods k).filter (onNode nodeName) <;> rfl
    · have := vals_names_nodup hapi.nd hnamed
      exact List.Nodup.sublist (List.Sublist.map _ List.filter_sublist) this
  · intro hfx; rw [populate_snd, hf.1]; exact hall.2.2 hfx

/-! ### the two constructors -/

theorem carriedN_aggregates :
    carriedN "daemonSetRequests" = false ∧ carriedN "daemonSetLimits" = false ∧ carriedN "podRequests" = false ∧
    carriedN "podLimits" = false ∧ carriedN "podDisruptionCosts" = false ∧ carriedN "hostPortUsage" = false ∧
    carriedN "volumeUsage" = false := by decide

/-- the literal `newStateFromNode` starts from has no pods (every per-pod aggregate is rebuilt) -/
theorem agg_nodeLiteral (node : NodeObj) (old : SNode) : Agg (nodeLiteral node old) [] ∧ VolExact (nodeLiteral node old) [] := by
  obtain ⟨h1, h2, h3, h4, h5, h6, h7⟩ := carriedN_aggregates
  have e1 : (nodeLiteral node old).podReq = [] := by simp [nodeLiteral, h3]
  have e2 : (nodeLiteral node old).podLim = [] := by simp [nodeLiteral, h4]
  have e3 : (nodeLiteral node old).dsReq = [] := by simp [nodeLiteral, h1]
  have e4 : (nodeLiteral node old).dsLim = [] := by simp [nodeLiteral, h2]
  have e5 : (nodeLiteral node old).costs = [] := by simp [nodeLiteral, h5]
  have e6 : (nodeLiteral node old).ports = [] := by simp [nodeLiteral, h6]
  have e7 : (nodeLiteral node old).volPods = [] := by simp [nodeLiteral, h7]
  have e8 : (nodeLiteral node old).volumes = [] := by simp [nodeLiteral, h7]
  refine ⟨⟨?_, ?_, ?_, ?_, ?_, ?_, ?_, ?_, ?_, ?_, ?_, ?_, ?_, ?_, ?_, ?_⟩, ?_⟩
  · intro k; rw [e1]; rfl
  · intro k; rw [e2]; rfl
  · intro k; rw [e3]; rfl
  · intro k; rw [e4]; rfl
  · intro k; rw [e5]; rfl
  · intro k; rw [e6]; rfl
  · intro k; rw [e7]; rfl
  · rw [e1]; exact Map.noDup_nil
  · rw [e2]; exact Map.noDup_nil
  · rw [e3]; exact Map.noDup_nil
  · rw [e4]; exact Map.noDup_nil
  · rw [e5]; exact Map.noDup_nil
  · rw [e6]; exact Map.noDup_nil
  · rw [e7]; exact Map.noDup_nil
  · rw [e8]; exact List.nodup_nil
  · intro v k p h; simp at h
  · intro v hv; rw [e8] at hv; simp at hv

theorem carriedC_aggregates (fx : Fixes) :
    carriedC fx "daemonSetRequests" = true ∧ carriedC fx "daemonSetLimits" = true ∧ carriedC fx "podRequests" = true ∧
    carriedC fx "podLimits" = true ∧ carriedC fx "hostPortUsage" = true ∧ carriedC fx "volumeUsage" = true := by
  refine ⟨?_, ?_, ?_, ?_, ?_, ?_⟩ <;> simp [carriedC] <;> decide

/-- `newStateFromNodeClaim` keeps the table — provided the disruption costs are carried too (the repair of the recorded
    defect; at the pinned commit `carriedC fx "podDisruptionCosts"` is false and the costs are lost) -/
theorem agg_claimLiteral (fx : Fixes) (claim : ClaimObj) (old : SNode) (R : Map PodObj) (h : Agg old R)
    (hc : carriedC fx "podDisruptionCosts" = true) :
    Agg (claimLiteral fx claim old) R ∧ (VolExact old R → VolExact (claimLiteral fx claim old) R) := by
  obtain ⟨h1, h2, h3, h4, h5, h6⟩ := carriedC_aggregates fx
  have e1 : (claimLiteral fx claim old).podReq = old.podReq := by simp [claimLiteral, h3]
  have e2 : (claimLiteral fx claim old).podLim = old.podLim := by simp [claimLiteral, h4]
  have e3 : (claimLiteral fx claim old).dsReq = old.dsReq := by simp [claimLiteral, h1]
  have e4 : (claimLiteral fx claim old).dsLim = old.dsLim := by simp [claimLiteral, h2]
  have e5 : (claimLiteral fx claim old).costs = old.costs := by simp [claimLiteral, hc]
  have e6 : (claimLiteral fx claim old).ports = old.ports := by simp [claimLiteral, h5]
  have e7 : (claimLiteral fx claim old).volPods = old.volPods := by simp [claimLiteral, h6]
  have e8 : (claimLiteral fx claim old).volumes = old.volumes := by simp [claimLiteral, h6]
  refine ⟨⟨?_, ?_, ?_, ?_, ?_, ?_, ?_, ?_, ?_, ?_, ?_, ?_, ?_, ?_, ?_, ?_⟩, ?_⟩
  · rw [e1]; exact h.req
  · rw [e2]; exact h.lim
  · rw [e3]; exact h.dreq
  · rw [e4]; exact h.dlim
  · rw [e5]; exact h.cost
  · rw [e6]; exact h.ports
  · rw [e7]; exact h.vols
  · rw [e1]; exact h.ndReq
  · rw [e2]; exact h.ndLim
  · rw [e3]; exact h.ndDReq
  · rw [e4]; exact h.ndDLim
  · rw [e5]; exact h.ndCost
  · rw [e6]; exact h.ndPorts
  · rw [e7]; exact h.ndVols
  · rw [e8]; exact h.ndVolumes
  · rw [e8]; exact h.volSup
  · intro hv v hx; rw [e8] at hx; exact hv v hx

end Karp.ClusterState

namespace Karp.ClusterState
open Cluster

/-- what `UpdateNode` leaves under the node's provider id -/
theorem newStateFromNode_rebuilds (fx : Fixes) (dsOf : String → Bool) (c c' : Cluster) (api : Api) (node : NodeObj)
    (hapi : PodsOK dsOf api) (hr : c.newStateFromNode fx api node = .ok c') :
    ∃ s R, Map.get c'.nodes node.pid = some s ∧ s.node = some node ∧ Agg s R ∧ TableOK dsOf R ∧
      (∀ k, Map.get R k = (Map.get api.pods k).filter (onNode node.name)) ∧ (fx.volRebuild = true → VolExact s R) := by
  unfold Cluster.newStateFromNode at hr
  dsimp only at hr
  have hl := agg_nodeLiteral node ((Map.get c.nodes node.pid).getD SNode.new)
  obtain ⟨R, hagg, htab, hget, hvol⟩ := populate_agg fx dsOf c api _ node.name hapi hl.1 hl.2
  have hobjs := (populate_podOnly fx node.name api.pods.vals c (nodeLiteral node ((Map.get c.nodes node.pid).getD SNode.new))).2
  split at hr
  · simp at hr
  · rename_i c2 _
    simp only [Except.ok.injEq] at hr
    subst hr
    refine ⟨_, R, ?_, ?_, hagg, htab, hget, hvol⟩
    · unfold Cluster.installNode; dsimp only; rw [Map.get_put_self]
    · have := congrArg Objs.node hobjs
      rw [objs_nodeLiteral] at this
      exact this

/-! ### sums over the table -/

theorem sum_image {α : Type} (m : Map α) (R : Map PodObj) (f : PodObj → Option α) (F : α → Res) (hn : Map.NoDup m)
    (hR : Map.NoDup R) (h : ∀ k, Map.get m k = (Map.get R k).bind f) :
    sumOver m (fun e => F e.2) = sumOver R (fun e => match f e.2 with | some a => F a | none => Res.zero) := by
  have hsub : ∀ k, k ∈ Map.keys m → k ∈ Map.keys R := by
    intro k hk
    rw [Map.mem_keys_iff] at hk ⊢
    rw [h k] at hk
    cases hg : Map.get R k with
    | none => rw [hg] at hk; simp at hk
    | some p => rfl
  rw [sumOver_map_keys m (Map.keys R) F hn hR hsub,
    sumOver_map_keys R (Map.keys R) (fun p => match f p with | some a => F a | none => Res.zero) hR hR (fun _ hk => hk)]
  apply sumOver_congr
  intro k _
  rw [h k]
  cases Map.get R k with
  | none => rfl
  | some p => rfl

theorem sumOver_cpu {α : Type} (l : List α) (f : α → Res) : (sumOver l f).cpu = (l.map (fun a => (f a).cpu)).foldr (· + ·) 0 := by
  induction l with
  | nil => rfl
  | cons a l ih => rw [sumOver_cons, List.map_cons, List.foldr_cons, ← ih]; rfl

/-- requests / limits / daemonset requests / disruption cost are the sums over the table -/
theorem agg_sums (s : SNode) (R : Map PodObj) (h : Agg s R) (hR : Map.NoDup R) :
    sumOver s.podReq (fun e => e.2) = sumOver R (fun e => e.2.req) ∧
    sumOver s.podLim (fun e => e.2) = sumOver R (fun e => e.2.lim) ∧
    sumOver s.dsReq (fun e => e.2) = sumOver R (fun e => if e.2.ds then e.2.req else Res.zero) ∧
    sumOver s.dsLim (fun e => e.2) = sumOver R (fun e => if e.2.ds then e.2.lim else Res.zero) ∧
    (s.costs.map (·.2)).foldr (· + ·) 0 = (R.map (fun e => if !e.2.ds && decide (e.2.cost > 0) then e.2.cost else 0)).foldr (· + ·) 0 := by
  refine ⟨?_, ?_, ?_, ?_, ?_⟩
  · have := sum_image s.podReq R (fun p => some p.req) id h.ndReq hR (fun k => by rw [h.req k]; cases Map.get R k <;> rfl)
    exact this
  · have := sum_image s.podLim R (fun p => some p.lim) id h.ndLim hR (fun k => by rw [h.lim k]; cases Map.get R k <;> rfl)
    exact this
  · have := sum_image s.dsReq R dsReqOf id h.ndDReq hR h.dreq
    refine Eq.trans this ?_
    apply sumOver_congr
    intro e _
    unfold dsReqOf
    cases e.2.ds <;> rfl
  · have := sum_image s.dsLim R dsLimOf id h.ndDLim hR h.dlim
    refine Eq.trans this ?_
    apply sumOver_congr
    intro e _
    unfold dsLimOf
    cases e.2.ds <;> rfl
  · have := sum_image s.costs R costOf (fun c => ({ cpu := c } : Res)) h.ndCost hR h.cost
    have h2 := congrArg Res.cpu this
    rw [sumOver_cpu, sumOver_cpu] at h2
    have e1 : s.costs.map (fun a => (({ cpu := a.2 } : Res)).cpu) = s.costs.map (·.2) := rfl
    rw [e1] at h2
    rw [h2]
    congr 1
    apply List.map_congr_left
    intro e _
    unfold costOf
    cases (!e.2.ds && decide (e.2.cost > 0)) <;> rfl

end Karp.ClusterState
