/-
C11 helper lemmas: a Node reconcile preserves the object-layer invariant.
-/
import Karp.Proofs.ClusterStateOInv

namespace Karp.ClusterState
open Karp.Spec.ClusterAbs

/-! ### lookups after the primitive operations -/

theorem get_detachNode (o : OC) (name id : String) (s : Objs) (id' : String) :
    Map.get (o.detachNode name id s).nodes id' =
      if id' = id then (if s.claim.isNone then none else some { s with node := none }) else Map.get o.nodes id' := by
  unfold OC.detachNode
  dsimp only
  by_cases hc : s.claim.isNone = true
  · rw [if_pos hc, Map.get_erase]; simp [hc]
  · rw [if_neg hc, Map.get_put]; simp [hc]

theorem detachNode_nn (o : OC) (name id : String) (s : Objs) : (o.detachNode name id s).nn = Map.erase o.nn name := rfl
theorem detachNode_cn (o : OC) (name id : String) (s : Objs) : (o.detachNode name id s).cn = o.cn := rfl

theorem get_installNode (o : OC) (node : NodeObj) (old : Objs) (id' : String) :
    Map.get (o.installNode node old).nodes id' =
      if id' = node.pid then some ⟨some node, old.claim, old.marked, old.nominated⟩ else Map.get o.nodes id' := by
  unfold OC.installNode; dsimp only; rw [Map.get_put]

theorem installNode_nn (o : OC) (node : NodeObj) (old : Objs) : (o.installNode node old).nn = Map.put o.nn node.name node.pid := rfl
theorem installNode_cn (o : OC) (node : NodeObj) (old : Objs) : (o.installNode node old).cn = o.cn := rfl

/-- what a Node reconcile of `name` may change, as far as the other objects are concerned -/
structure NodeStep (o o' : OC) (name : String) : Prop where
  keepN : ∀ k x v, Map.get o.nodes k = some x → x.node = some v → v.name ≠ name →
            ∃ x', Map.get o'.nodes k = some x' ∧ x'.node = some v
  keepC : ∀ k x cl, Map.get o.nodes k = some x → x.claim = some cl → ∃ x', Map.get o'.nodes k = some x' ∧ x'.claim = some cl
  nn : ∀ n', n' ≠ name → Map.get o'.nn n' = Map.get o.nn n'
  cn : o'.cn = o.cn
  carry : ∀ id s', Map.get o'.nodes id = some s' →
            s'.marked = ((Map.get o.nodes id).getD {}).marked ∧ s'.nominated = ((Map.get o.nodes id).getD {}).nominated

theorem nodeStep_refl (o : OC) (name : String) : NodeStep o o name :=
  ⟨fun k x v hx hv _ => ⟨x, hx, hv⟩, fun k x cl hx hc => ⟨x, hx, hc⟩, fun _ _ => rfl, rfl,
   fun id s' hs => by rw [hs]; exact ⟨rfl, rfl⟩⟩

theorem nodeCons_of_nodeStep {w : Owners} {o o' : OC} {api : Api} {name name' : String} (hst : NodeStep o o' name)
    (hapi : ApiOK w api) (hne : name' ≠ name) (hc : NodeCons o api name') : NodeCons o' api name' := by
  unfold NodeCons at *
  cases hv : Map.get api.nodes name' with
  | none => rw [hv] at hc; dsimp only at hc ⊢; rw [hst.nn name' hne]; exact hc
  | some v =>
    rw [hv] at hc
    dsimp only at hc ⊢
    cases hk : nodeKey v with
    | none => rw [hk] at hc; dsimp only at hc ⊢; rw [hst.nn name' hne]; exact hc
    | some k =>
      rw [hk] at hc
      dsimp only at hc ⊢
      obtain ⟨x, hx, hxv⟩ := hc
      have hn : (nodeStored v).name ≠ name := by
        have : (nodeStored v).name = v.name := by unfold nodeStored; split <;> rfl
        rw [this, (hapi.nodes name' v hv).1]; exact hne
      exact hst.keepN k x _ hx hxv hn

theorem claimCons_of_nodeStep {o o' : OC} {api : Api} {name name' : String} (hst : NodeStep o o' name)
    (hc : ClaimCons o api name') : ClaimCons o' api name' := by
  unfold ClaimCons at *
  rw [hst.cn]
  cases hv : Map.get api.claims name' with
  | none => rw [hv] at hc; exact hc
  | some cl =>
    rw [hv] at hc
    dsimp only at hc ⊢
    by_cases hm : cl.managed = true
    · rw [if_pos hm] at hc ⊢
      refine ⟨hc.1, fun hp => ?_⟩
      obtain ⟨x, hx, hxc⟩ := hc.2 hp
      exact hst.keepC cl.pid x cl hx hxc
    · rw [if_neg hm] at hc ⊢; exact hc

/-- detaching the Node `name` from its state node -/
theorem nodeStep_detach {w : Owners} {o : OC} (h : Struct w o) {name id : String} {s : Objs}
    (hn : Map.get o.nn name = some id) (hs : Map.get o.nodes id = some s) : NodeStep o (o.detachNode name id s) name := by
  obtain ⟨s0, v0, hs0, hv0, hvn0⟩ := h.nf name id hn
  rw [hs] at hs0
  rw [← Option.some.inj hs0] at hv0
  refine ⟨?_, ?_, ?_, rfl, ?_⟩
  · intro k x v hx hv hne
    have hk : k ≠ id := by
      intro e
      rw [e, hs] at hx
      rw [← Option.some.inj hx, hv0] at hv
      rw [← Option.some.inj hv] at hne
      exact hne hvn0
    exact ⟨x, by rw [get_detachNode, if_neg hk]; exact hx, hv⟩
  · intro k x cl hx hc
    by_cases hk : k = id
    · rw [hk, hs] at hx
      rw [← Option.some.inj hx] at hc
      have : ¬ s.claim.isNone = true := by rw [hc]; simp
      exact ⟨{ s with node := none }, by rw [get_detachNode, if_pos hk]; simp [this], hc⟩
    · exact ⟨x, by rw [get_detachNode, if_neg hk]; exact hx, hc⟩
  · intro n' hne
    rw [detachNode_nn, Map.get_erase, if_neg hne]
  · intro id' s' hs'
    rw [get_detachNode] at hs'
    by_cases hk : id' = id
    · rw [if_pos hk] at hs'
      by_cases hc : s.claim.isNone = true
      · simp [hc] at hs'
      · simp [hc] at hs'
        rw [hk, hs, ← hs']; exact ⟨rfl, rfl⟩
    · rw [if_neg hk] at hs'
      rw [hs']; exact ⟨rfl, rfl⟩

/-- installing the Node `node` (whose name is not known under another provider id) -/
theorem nodeStep_install {w : Owners} {o : OC} (h : Struct w o) (node : NodeObj) (hw : w.nodeOf node.pid = node.name) :
    NodeStep o (o.installNode node ((Map.get o.nodes node.pid).getD {})) node.name := by
  refine ⟨?_, ?_, ?_, rfl, ?_⟩
  · intro k x v hx hv hne
    have hk : k ≠ node.pid := by
      intro e
      have := (h.nb k x v hx hv).2.2.1
      rw [e, hw] at this
      exact hne this.symm
    exact ⟨x, by rw [get_installNode, if_neg hk]; exact hx, hv⟩
  · intro k x cl hx hc
    by_cases hk : k = node.pid
    · refine ⟨_, by rw [get_installNode, if_pos hk], ?_⟩
      rw [← hk, hx]; exact hc
    · exact ⟨x, by rw [get_installNode, if_neg hk]; exact hx, hc⟩
  · intro n' hne
    rw [installNode_nn, Map.get_put, if_neg hne]
  · intro id' s' hs'
    rw [get_installNode] at hs'
    by_cases hk : id' = node.pid
    · rw [if_pos hk] at hs'
      rw [← Option.some.inj hs', hk]; exact ⟨rfl, rfl⟩
    · rw [if_neg hk] at hs'
      rw [hs']; exact ⟨rfl, rfl⟩

/-- assembling the invariant after a Node reconcile -/
theorem oinv_of_nodeStep {w : Owners} {o o' : OC} {api : Api} {g : Ghost} (h : OInv w o api g) (hapi : ApiOK w api)
    (name : String) (st' : Struct w o') (hst : NodeStep o o' name) (X : Map String) (m1 : o'.nn = X)
    (n1 : Map.NoDup o'.nn) (hself : NodeCons o' api name) :
    OInv w o' api ({ (g.clean "n" name) with obsNodes := X } : Ghost).prune := by
  have hm := marks_after (g1 := ({ (g.clean "n" name) with obsNodes := X } : Ghost)) h st' m1
    (by rw [hst.cn]; exact h.m2) n1 (by rw [hst.cn]; exact h.n2) rfl rfl hst.carry
  refine ⟨st', m1, by rw [hst.cn]; exact h.m2, n1, by rw [hst.cn]; exact h.n2, ?_, ?_, hm.1, hm.2⟩
  · intro name' hx
    by_cases hne : name' = name
    · rw [hne]; exact hself
    · have hx' : ("n", name') ∉ (g.clean "n" name).dirty := hx
      rw [mem_clean] at hx'
      have : ("n", name') ∉ g.dirty := by
        intro a; apply hx'; refine ⟨a, ?_⟩
        intro e; exact hne (Prod.mk.inj e).2
      exact nodeCons_of_nodeStep hst hapi hne (h.cn name' this)
  · intro name' hx
    have hx' : ("c", name') ∉ (g.clean "n" name).dirty := hx
    rw [mem_clean] at hx'
    have : ("c", name') ∉ g.dirty := by
      intro a; apply hx'; refine ⟨a, ?_⟩
      intro e
      have := (Prod.mk.inj e).1
      revert this; decide
    exact claimCons_of_nodeStep hst (h.cc name' this)

theorem nodeStored_name (v : NodeObj) : (nodeStored v).name = v.name := by unfold nodeStored; split <;> rfl
theorem nodeStored_pid (v : NodeObj) : (nodeStored v).pid = epid v := by unfold nodeStored epid; split <;> rfl

theorem nodeKey_some {v : NodeObj} {k : String} (h : nodeKey v = some k) : k = epid v := by
  unfold nodeKey at h
  dsimp only at h
  split at h
  · simp at h
  · split at h
    · simp at h
    · unfold epid; exact (Option.some.inj h).symm

/-- `UpdateNode` on a version the cache ignores / accepts -/
theorem updateNode_of_key (o : OC) (v : NodeObj) :
    (nodeKey v = none → o.updateNode v = some o) ∧ (∀ k, nodeKey v = some k → o.updateNode v = o.newStateFromNode (nodeStored v)) := by
  unfold nodeKey OC.updateNode nodeStored
  dsimp only
  by_cases h1 : (decide (v.pid = "") && decide (v.pool ≠ "")) = true
  · rw [if_pos h1, if_pos h1]
    exact ⟨fun _ => rfl, fun k hk => by simp at hk⟩
  · rw [if_neg h1, if_neg h1]
    by_cases h2 : (decide (v.pool ≠ "") && !v.it && !v.init) = true
    · rw [if_pos h2, if_pos h2]
      exact ⟨fun _ => rfl, fun k hk => by simp at hk⟩
    · rw [if_neg h2, if_neg h2]
      exact ⟨fun hk => by simp at hk, fun _ _ => rfl⟩

theorem oinv_recNode {w : Owners} {o : OC} {api : Api} {g : Ghost} (h : OInv w o api g) (hapi : ApiOK w api) (name : String)
    (hw : wFilterStep g api (.recNode name) = true) :
    ∃ o', o.step api (.recNode name) = some o' ∧ OInv w o' api (g.step api (.recNode name)) := by
  simp only [OC.step, Ghost.step]
  -- removing the Node `name` from the cache (used twice)
  have remove : Map.get api.nodes name = none ∨ (∃ v, Map.get api.nodes name = some v ∧ nodeKey v = none ∧ Map.get o.nn name = none) →
      ∃ o', o.cleanupNode name = some o' ∧
        OInv w o' api ({ (g.clean "n" name) with obsNodes := Map.erase (g.clean "n" name).obsNodes name } : Ghost).prune ∧
        (Map.get o.nn name = none → o' = o) := by
    intro hcase
    have hselfOf : ∀ o' : OC, Map.get o'.nn name = none → NodeCons o' api name := by
      intro o' hx
      unfold NodeCons
      rcases hcase with hc | ⟨v, hv, hk, _⟩
      · rw [hc]; exact hx
      · rw [hv]; dsimp only; rw [hk]; exact hx
    unfold OC.cleanupNode
    cases hg : Map.get o.nn name with
    | none =>
      refine ⟨o, rfl, ?_, fun _ => rfl⟩
      have hX : Map.erase (g.clean "n" name).obsNodes name = o.nn := by
        show Map.erase g.obsNodes name = o.nn
        rw [← h.m1, Map.erase_of_get_none _ _ hg]
      rw [hX]
      exact oinv_of_nodeStep h hapi name h.st (nodeStep_refl o name) o.nn rfl h.n1 (hselfOf o hg)
    | some id =>
      obtain ⟨s, v, hs, hv, hvn⟩ := h.st.nf name id hg
      have hid : id ≠ "" := h.st.nn_ne hg
      dsimp only
      rw [if_pos hid, hs]
      refine ⟨_, rfl, ?_, fun hx => by simp at hx⟩
      have hX : Map.erase (g.clean "n" name).obsNodes name = (o.detachNode name id s).nn := by
        show Map.erase g.obsNodes name = _
        rw [detachNode_nn, h.m1]
      rw [hX]
      refine oinv_of_nodeStep h hapi name (struct_detachNode h.st hg hs) (nodeStep_detach h.st hg hs) _ rfl ?_ ?_
      · rw [detachNode_nn]; exact Map.noDup_erase h.n1 name
      · apply hselfOf; rw [detachNode_nn, Map.get_erase_self]
  cases hv : Map.get api.nodes name with
  | none =>
    obtain ⟨o', ho', hi, _⟩ := remove (Or.inl hv)
    exact ⟨o', ho', hi⟩
  | some v =>
    dsimp only
    have hvname : v.name = name := (hapi.nodes name v hv).1
    have hvok : w.okNode v := (hapi.nodes name v hv).2
    cases hk : nodeKey v with
    | none =>
      -- the cache ignores this version; by the precondition no earlier version of this name is tracked
      have hnone : Map.get o.nn name = none := by
        simp only [wFilterStep, hv, hk] at hw
        have : Map.has g.obsNodes name = false := by simpa using hw
        rw [Map.has_eq] at this
        rw [h.m1]
        cases hx : Map.get g.obsNodes name with
        | none => rfl
        | some x => rw [hx] at this; simp at this
      obtain ⟨o', ho', hi, heq⟩ := remove (Or.inr ⟨v, hv, hk, hnone⟩)
      have : o' = o := heq hnone
      rw [this] at hi
      exact ⟨o, (updateNode_of_key o v).1 hk, hi⟩
    | some k =>
      dsimp only
      rw [(updateNode_of_key o v).2 k hk]
      have hke : k = epid v := nodeKey_some hk
      have hpid : (nodeStored v).pid = k := by rw [nodeStored_pid, hke]
      have hname : (nodeStored v).name = name := by rw [nodeStored_name, hvname]
      have hk0 : k ≠ "" := by
        rw [hke]; unfold epid
        split
        · exact hvok.2
        · assumption
      have hown : w.nodeOf (nodeStored v).pid = (nodeStored v).name := by
        rw [hpid, hke, nodeStored_name]; exact hvok.1
      have hself : ∀ o2 : OC, NodeCons (o2.installNode (nodeStored v) ((Map.get o.nodes k).getD {})) api name := by
        intro o2
        unfold NodeCons
        rw [hv]; dsimp only; rw [hk]; dsimp only
        exact ⟨_, by rw [get_installNode, hpid, if_pos rfl], rfl⟩
      unfold OC.newStateFromNode
      dsimp only
      rw [hpid, hname]
      by_cases hrk : Cluster.rekeyed o.nn name k = true
      · rw [if_pos hrk]
        -- known under another id: the old state node loses its Node first
        unfold Cluster.rekeyed at hrk
        cases hg : Map.get o.nn name with
        | none => rw [hg] at hrk; simp at hrk
        | some id0 =>
          rw [hg] at hrk
          have hne0 : id0 ≠ k := by simpa using hrk
          obtain ⟨s0, v0, hs0, hv0, hvn0⟩ := h.st.nf name id0 hg
          have hid0 : id0 ≠ "" := h.st.nn_ne hg
          unfold OC.cleanupNode
          rw [hg]; dsimp only
          rw [if_pos hid0, hs0]
          dsimp only
          refine ⟨_, rfl, ?_⟩
          have st2 := struct_detachNode h.st hg hs0
          have hsame : Map.get (o.detachNode name id0 s0).nodes k = Map.get o.nodes k := by
            rw [get_detachNode, if_neg (fun e => hne0 e.symm)]
          have hnn2 : Map.get (o.detachNode name id0 s0).nn (nodeStored v).name = none := by
            rw [hname, detachNode_nn, Map.get_erase_self]
          have st3 := struct_installNode st2 (nodeStored v) (by rw [hpid]; exact hk0) hown (by rw [hname, ← hvname]; exact hvok.2) (Or.inl hnn2)
          rw [hpid, hsame] at st3
          have ns1 := nodeStep_detach h.st hg hs0
          have ns2 := nodeStep_install st2 (nodeStored v) hown
          rw [hpid, hsame, hname] at ns2
          have hX : Map.put (g.clean "n" name).obsNodes name k =
              ((o.detachNode name id0 s0).installNode (nodeStored v) ((Map.get o.nodes k).getD {})).nn := by
            show Map.put g.obsNodes name k = _
            rw [installNode_nn, detachNode_nn, hname, hpid, Map.put_erase, h.m1]
          rw [hX]
          refine oinv_of_nodeStep h hapi name st3 ?_ _ rfl ?_ (hself _)
          · -- compose the two steps
            refine ⟨?_, ?_, ?_, ?_, ?_⟩
            · intro k' x v' hx hv' hne
              obtain ⟨x1, hx1, hv1⟩ := ns1.keepN k' x v' hx hv' hne
              exact ns2.keepN k' x1 v' hx1 hv1 hne
            · intro k' x cl hx hc
              obtain ⟨x1, hx1, hc1⟩ := ns1.keepC k' x cl hx hc
              exact ns2.keepC k' x1 cl hx1 hc1
            · intro n' hne; rw [ns2.nn n' hne, ns1.nn n' hne]
            · rw [ns2.cn, ns1.cn]
            · intro id' s' hs'
              rw [get_installNode, hpid] at hs'
              by_cases hk' : id' = k
              · rw [if_pos hk'] at hs'
                rw [← Option.some.inj hs', hk']; exact ⟨rfl, rfl⟩
              · rw [if_neg hk'] at hs'
                exact ns1.carry id' s' hs'
          · rw [installNode_nn]; exact Map.noDup_put (by rw [detachNode_nn]; exact Map.noDup_erase h.n1 name) _ _
      · rw [if_neg hrk]
        dsimp only
        refine ⟨_, rfl, ?_⟩
        have hnn : Map.get o.nn (nodeStored v).name = none ∨ Map.get o.nn (nodeStored v).name = some (nodeStored v).pid := by
          rw [hname, hpid]
          unfold Cluster.rekeyed at hrk
          cases hg : Map.get o.nn name with
          | none => exact Or.inl rfl
          | some id0 =>
            rw [hg] at hrk
            right
            have : id0 = k := by simpa using hrk
            rw [this]
        have st3 := struct_installNode h.st (nodeStored v) (by rw [hpid]; exact hk0) hown (by rw [hname, ← hvname]; exact hvok.2) hnn
        have ns2 := nodeStep_install h.st (nodeStored v) hown
        rw [hpid] at st3
        rw [hpid, hname] at ns2
        have hX : Map.put (g.clean "n" name).obsNodes name k = (o.installNode (nodeStored v) ((Map.get o.nodes k).getD {})).nn := by
          show Map.put g.obsNodes name k = _
          rw [installNode_nn, hname, hpid, h.m1]
        rw [hX]
        exact oinv_of_nodeStep h hapi name st3 ns2 _ rfl (by rw [installNode_nn]; exact Map.noDup_put h.n1 _ _) (hself _)

end Karp.ClusterState
