/-
C11 helper lemmas for the component-level usage trackers (`c11.usage`): a sequence of `UsageOp`s read as `PodOp`s, and the
from-scratch `usageOf` as the lookup in the folded pod table.
-/
import Karp.Proofs.ClusterStateClosed
namespace Karp.ClusterState
open Karp.ClusterState Karp.Spec.ClusterAbs

/-- a usage op as an operation on the state node (a deep copy is no operation) -/
def podOpOf : UsageOp → Option PodOp
  | .add p => some (.upd p)
  | .del k => some (.del k)
  | .copy => none

theorem usage_fold_eq (fx : Fixes) (ops : List UsageOp) :
    ∀ s : SNode, ops.foldl (usageStep fx) s = (ops.filterMap podOpOf).foldl (applyPodOp fx) s := by
  induction ops with
  | nil => intro s; rfl
  | cons o os ih =>
    intro s
    cases o <;> simp [List.filterMap_cons, podOpOf, usageStep, applyPodOp, ih]

/-- `usageOf` from an arbitrary accumulator -/
def usageOfFrom (k : String) (acc : Option PodObj) (ops : List UsageOp) : Option PodObj :=
  ops.foldl (fun acc o =>
    match o with
    | .add p => if p.name = k then some p else acc
    | .del k' => if k' = k then none else acc
    | .copy => acc) acc

theorem usage_table_get (k : String) (ops : List UsageOp) :
    ∀ (R : Map PodObj) (acc : Option PodObj), Map.get R k = acc →
      Map.get ((ops.filterMap podOpOf).foldl tablePodOp R) k = usageOfFrom k acc ops := by
  induction ops with
  | nil => intro R acc h; simpa [usageOfFrom] using h
  | cons o os ih =>
    intro R acc h
    cases o with
    | add p =>
      simp only [List.filterMap_cons, podOpOf, List.foldl_cons, tablePodOp, usageOfFrom]
      apply ih
      rw [Map.get_put]
      by_cases hk : k = p.name
      · simp [hk]
      · have : ¬ p.name = k := fun h' => hk h'.symm
        simp [hk, this, h]
    | del k' =>
      simp only [List.filterMap_cons, podOpOf, List.foldl_cons, tablePodOp, usageOfFrom]
      apply ih
      rw [Map.get_erase]
      by_cases hk : k = k'
      · simp [hk]
      · have : ¬ k' = k := fun h' => hk h'.symm
        simp [hk, this, h]
    | copy =>
      simp only [List.filterMap_cons, podOpOf, List.foldl_cons, usageOfFrom]
      exact ih R acc h

end Karp.ClusterState
