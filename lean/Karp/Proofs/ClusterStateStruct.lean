/-
C11 helper lemmas: the structural invariant of the object layer (state nodes and name maps point at each other) and
its preservation by the primitive operations.
-/
import Karp.Proofs.ClusterStateObjs
import Karp.Spec.ClusterAbs

namespace Karp.ClusterState
open Karp.Spec.ClusterAbs

/-- provider ids are owned: over the whole history a provider id belongs to one node name and one claim name, and
    whether a claim name is managed by this provider never changes -/
structure Owners where
  nodeOf : String → String
  claimOf : String → String
  managed : String → Bool

def Owners.okNode (w : Owners) (n : NodeObj) : Prop := w.nodeOf (epid n) = n.name ∧ n.name ≠ ""
def Owners.okClaim (w : Owners) (c : ClaimObj) : Prop := (c.pid ≠ "" → w.claimOf c.pid = c.name) ∧ w.managed c.name = c.managed

/-- the name maps and the state nodes point at each other -/
structure Struct (w : Owners) (o : OC) : Prop where
  k0 : Map.get o.nodes "" = none
  nb : ∀ id s v, Map.get o.nodes id = some s → s.node = some v → Map.get o.nn v.name = some id ∧ v.pid = id ∧ w.nodeOf id = v.name ∧ v.name ≠ ""
  cb : ∀ id s cl, Map.get o.nodes id = some s → s.claim = some cl → Map.get o.cn cl.name = some id ∧ cl.pid = id ∧ w.claimOf id = cl.name
  nf : ∀ name id, Map.get o.nn name = some id → ∃ s v, Map.get o.nodes id = some s ∧ s.node = some v ∧ v.name = name
  cf : ∀ name id, Map.get o.cn name = some id → w.managed name = true ∧
        (id ≠ "" → ∃ s cl, Map.get o.nodes id = some s ∧ s.claim = some cl ∧ cl.name = name)
  ne : ∀ id s, Map.get o.nodes id = some s → s.node.isSome = true ∨ s.claim.isSome = true

theorem struct_empty (w : Owners) : Struct w {} :=
  ⟨rfl, by intro id s v h; simp at h, by intro id s cl h; simp at h, by intro n id h; simp at h, by intro n id h; simp at h,
   by intro id s h; simp at h⟩

theorem Struct.nn_ne {w : Owners} {o : OC} (h : Struct w o) {name id : String} (hg : Map.get o.nn name = some id) : id ≠ "" := by
  obtain ⟨s, v, hs, _, _⟩ := h.nf name id hg
  intro e; rw [e, h.k0] at hs; simp at hs

/-! ### detaching a Node -/

theorem struct_detachNode {w : Owners} {o : OC} (h : Struct w o) {name id : String} {s : Objs}
    (hn : Map.get o.nn name = some id) (hs : Map.get o.nodes id = some s) : Struct w (o.detachNode name id s) := by
  obtain ⟨s0, v, hs0, hv, hvn⟩ := h.nf name id hn
  rw [hs] at hs0
  have hs0' : s0 = s := (Option.some.inj hs0).symm
  rw [hs0'] at hv
  have hid : id ≠ "" := h.nn_ne hn
  -- lookups in the new state
  have hget : ∀ id', Map.get (o.detachNode name id s).nodes id' =
      if id' = id then (if s.claim.isNone then none else some { s with node := none }) else Map.get o.nodes id' := by
    intro id'
    unfold OC.detachNode
    dsimp only
    by_cases hc : s.claim.isNone = true
    · rw [if_pos hc, Map.get_erase]; simp [hc]
    · rw [if_neg hc, Map.get_put]; simp [hc]
  have hnn : ∀ n', Map.get (o.detachNode name id s).nn n' = if n' = name then none else Map.get o.nn n' := by
    intro n'; unfold OC.detachNode; dsimp only; rw [Map.get_erase]
  have hcn : (o.detachNode name id s).cn = o.cn := rfl
  refine ⟨?_, ?_, ?_, ?_, ?_, ?_⟩
  · rw [hget, if_neg (fun e => hid e.symm)]; exact h.k0
  · intro id' s' v' hs' hv'
    rw [hget] at hs'
    by_cases he : id' = id
    · rw [if_pos he] at hs'
      by_cases hc : s.claim.isNone = true
      · simp [hc] at hs'
      · simp [hc] at hs'; rw [← hs'] at hv'; simp at hv'
    · rw [if_neg he] at hs'
      have := h.nb id' s' v' hs' hv'
      refine ⟨?_, this.2⟩
      rw [hnn]
      have hne : v'.name ≠ name := by
        intro e
        rw [e, hn] at this
        exact he (Option.some.inj this.1).symm
      rw [if_neg hne]; exact this.1
  · intro id' s' cl hs' hcl
    rw [hget] at hs'
    rw [hcn]
    by_cases he : id' = id
    · rw [if_pos he] at hs'
      by_cases hc : s.claim.isNone = true
      · simp [hc] at hs'
      · simp [hc] at hs'
        rw [← hs'] at hcl
        rw [he]; exact h.cb id s cl hs hcl
    · rw [if_neg he] at hs'; exact h.cb id' s' cl hs' hcl
  · intro n' id' hg
    rw [hnn] at hg
    by_cases hne : n' = name
    · rw [if_pos hne] at hg; simp at hg
    · rw [if_neg hne] at hg
      obtain ⟨s', v', hs', hv', hvn'⟩ := h.nf n' id' hg
      have he : id' ≠ id := by
        intro e
        rw [e, hs] at hs'
        have : s = s' := Option.some.inj hs'
        rw [← this, hv] at hv'
        have : v = v' := Option.some.inj hv'
        rw [← this, hvn] at hvn'
        exact hne hvn'.symm
      exact ⟨s', v', by rw [hget, if_neg he]; exact hs', hv', hvn'⟩
  · intro n' id' hg
    rw [hcn] at hg
    refine ⟨(h.cf n' id' hg).1, ?_⟩
    intro hne
    obtain ⟨s', cl, hs', hcl, hcn'⟩ := (h.cf n' id' hg).2 hne
    by_cases he : id' = id
    · rw [he, hs] at hs'
      have : s = s' := Option.some.inj hs'
      subst this
      have hc : ¬ s.claim.isNone = true := by rw [hcl]; simp
      exact ⟨{ s with node := none }, cl, by rw [hget, if_pos he]; simp [hc], hcl, hcn'⟩
    · exact ⟨s', cl, by rw [hget, if_neg he]; exact hs', hcl, hcn'⟩
  · intro id' s' hs'
    rw [hget] at hs'
    by_cases he : id' = id
    · rw [if_pos he] at hs'
      by_cases hc : s.claim.isNone = true
      · simp [hc] at hs'
      · simp [hc] at hs'
        rw [← hs']
        right
        cases hcc : s.claim with
        | none => simp [hcc] at hc
        | some c => rfl
    · rw [if_neg he] at hs'; exact h.ne id' s' hs'

/-! ### detaching / forgetting a NodeClaim -/

theorem struct_detachClaim {w : Owners} {o : OC} (h : Struct w o) {name id : String} {s : Objs}
    (hn : Map.get o.cn name = some id) (hid : id ≠ "") (hs : Map.get o.nodes id = some s) :
    Struct w ((o.detachClaim id s).forgetClaim name) := by
  obtain ⟨s0, cl, hs0, hcl, hcln⟩ := (h.cf name id hn).2 hid
  rw [hs] at hs0
  have hs0' : s0 = s := (Option.some.inj hs0).symm
  rw [hs0'] at hcl
  have hget : ∀ id', Map.get ((o.detachClaim id s).forgetClaim name).nodes id' =
      if id' = id then (if s.node.isNone then none else some { s with claim := none }) else Map.get o.nodes id' := by
    intro id'
    unfold OC.detachClaim OC.forgetClaim
    dsimp only
    by_cases hc : s.node.isNone = true
    · rw [if_pos hc, Map.get_erase]; simp [hc]
    · rw [if_neg hc, Map.get_put]; simp [hc]
  have hcn : ∀ n', Map.get ((o.detachClaim id s).forgetClaim name).cn n' = if n' = name then none else Map.get o.cn n' := by
    intro n'; unfold OC.detachClaim OC.forgetClaim; dsimp only; rw [Map.get_erase]
  have hnn : ((o.detachClaim id s).forgetClaim name).nn = o.nn := rfl
  refine ⟨?_, ?_, ?_, ?_, ?_, ?_⟩
  · rw [hget, if_neg (fun e => hid e.symm)]; exact h.k0
  · intro id' s' v' hs' hv'
    rw [hget] at hs'
    rw [hnn]
    by_cases he : id' = id
    · rw [if_pos he] at hs'
      by_cases hc : s.node.isNone = true
      · simp [hc] at hs'
      · simp [hc] at hs'
        rw [← hs'] at hv'
        rw [he]; exact h.nb id s v' hs hv'
    · rw [if_neg he] at hs'; exact h.nb id' s' v' hs' hv'
  · intro id' s' cl' hs' hcl'
    rw [hget] at hs'
    by_cases he : id' = id
    · rw [if_pos he] at hs'
      by_cases hc : s.node.isNone = true
      · simp [hc] at hs'
      · simp [hc] at hs'; rw [← hs'] at hcl'; simp at hcl'
    · rw [if_neg he] at hs'
      have := h.cb id' s' cl' hs' hcl'
      refine ⟨?_, this.2⟩
      rw [hcn]
      have hne : cl'.name ≠ name := by
        intro e
        rw [e, hn] at this
        exact he (Option.some.inj this.1).symm
      rw [if_neg hne]; exact this.1
  · intro n' id' hg
    rw [hnn] at hg
    obtain ⟨s', v', hs', hv', hvn'⟩ := h.nf n' id' hg
    by_cases he : id' = id
    · rw [he, hs] at hs'
      have : s = s' := Option.some.inj hs'
      subst this
      have hc : ¬ s.node.isNone = true := by rw [hv']; simp
      exact ⟨{ s with claim := none }, v', by rw [hget, if_pos he]; simp [hc], hv', hvn'⟩
    · exact ⟨s', v', by rw [hget, if_neg he]; exact hs', hv', hvn'⟩
  · intro n' id' hg
    rw [hcn] at hg
    by_cases hne : n' = name
    · rw [if_pos hne] at hg; simp at hg
    · rw [if_neg hne] at hg
      refine ⟨(h.cf n' id' hg).1, ?_⟩
      intro hne'
      obtain ⟨s', cl', hs', hcl', hcn'⟩ := (h.cf n' id' hg).2 hne'
      have he : id' ≠ id := by
        intro e
        rw [e, hs] at hs'
        have : s = s' := Option.some.inj hs'
        rw [← this, hcl] at hcl'
        have : cl = cl' := Option.some.inj hcl'
        rw [← this, hcln] at hcn'
        exact hne hcn'.symm
      exact ⟨s', cl', by rw [hget, if_neg he]; exact hs', hcl', hcn'⟩
  · intro id' s' hs'
    rw [hget] at hs'
    by_cases he : id' = id
    · rw [if_pos he] at hs'
      by_cases hc : s.node.isNone = true
      · simp [hc] at hs'
      · simp [hc] at hs'
        rw [← hs']
        left
        cases hcc : s.node with
        | none => simp [hcc] at hc
        | some c => rfl
    · rw [if_neg he] at hs'; exact h.ne id' s' hs'

theorem struct_forgetClaim {w : Owners} {o : OC} (h : Struct w o) {name : String}
    (hn : Map.get o.cn name = none ∨ Map.get o.cn name = some "") : Struct w (o.forgetClaim name) := by
  have hcn : ∀ n', Map.get (o.forgetClaim name).cn n' = if n' = name then none else Map.get o.cn n' := by
    intro n'; unfold OC.forgetClaim; dsimp only; rw [Map.get_erase]
  refine ⟨h.k0, h.nb, ?_, h.nf, ?_, h.ne⟩
  · intro id s cl hs hcl
    have hs : Map.get o.nodes id = some s := hs
    have := h.cb id s cl hs hcl
    refine ⟨?_, this.2⟩
    rw [hcn]
    have hne : cl.name ≠ name := by
      intro e
      rw [e] at this
      rcases hn with hn | hn
      · rw [hn] at this; simp at this
      · rw [hn] at this
        have hid : id = "" := (Option.some.inj this.1).symm
        rw [hid, h.k0] at hs; simp at hs
    rw [if_neg hne]; exact this.1
  · intro n' id' hg
    rw [hcn] at hg
    by_cases hne : n' = name
    · rw [if_pos hne] at hg; simp at hg
    · rw [if_neg hne] at hg; exact h.cf n' id' hg

/-- recording a claim that has no provider id yet -/
theorem struct_recordUnlaunched {w : Owners} {o : OC} (h : Struct w o) {name : String}
    (hn : Map.get o.cn name = none ∨ Map.get o.cn name = some "") (hm : w.managed name = true) :
    Struct w { o with cn := Map.put o.cn name "" } := by
  have hcn : ∀ n', Map.get (Map.put o.cn name "") n' = if n' = name then some "" else Map.get o.cn n' := by
    intro n'; rw [Map.get_put]
  refine ⟨h.k0, h.nb, ?_, h.nf, ?_, h.ne⟩
  · intro id s cl hs hcl
    have := h.cb id s cl hs hcl
    refine ⟨?_, this.2⟩
    show Map.get (Map.put o.cn name "") cl.name = some id
    rw [hcn]
    have hne : cl.name ≠ name := by
      intro e
      rw [e] at this
      rcases hn with hn | hn
      · rw [hn] at this; simp at this
      · rw [hn] at this
        have hid : id = "" := (Option.some.inj this.1).symm
        rw [hid, h.k0] at hs; simp at hs
    rw [if_neg hne]; exact this.1
  · intro n' id' hg
    have hg' : Map.get (Map.put o.cn name "") n' = some id' := hg
    rw [hcn] at hg'
    by_cases hne : n' = name
    · rw [if_pos hne] at hg'
      have : id' = "" := (Option.some.inj hg').symm
      rw [hne]
      exact ⟨hm, fun hx => absurd this hx⟩
    · rw [if_neg hne] at hg'; exact h.cf n' id' hg'

/-! ### installing a Node / a NodeClaim -/

theorem struct_installNode {w : Owners} {o : OC} (h : Struct w o) (node : NodeObj)
    (hp : node.pid ≠ "") (hw : w.nodeOf node.pid = node.name) (hnm : node.name ≠ "")
    (hn : Map.get o.nn node.name = none ∨ Map.get o.nn node.name = some node.pid) :
    Struct w (o.installNode node ((Map.get o.nodes node.pid).getD {})) := by
  have hget : ∀ id', Map.get (o.installNode node ((Map.get o.nodes node.pid).getD {})).nodes id' =
      if id' = node.pid then some ⟨some node, ((Map.get o.nodes node.pid).getD {}).claim, ((Map.get o.nodes node.pid).getD {}).marked,
        ((Map.get o.nodes node.pid).getD {}).nominated⟩ else Map.get o.nodes id' := by
    intro id'; unfold OC.installNode; dsimp only; rw [Map.get_put]
  have hnn : ∀ n', Map.get (o.installNode node ((Map.get o.nodes node.pid).getD {})).nn n' =
      if n' = node.name then some node.pid else Map.get o.nn n' := by
    intro n'; unfold OC.installNode; dsimp only; rw [Map.get_put]
  have hcn : (o.installNode node ((Map.get o.nodes node.pid).getD {})).cn = o.cn := rfl
  -- what the old entry's claim is
  have hold : ∀ cl, ((Map.get o.nodes node.pid).getD {}).claim = some cl → ∃ s, Map.get o.nodes node.pid = some s ∧ s.claim = some cl := by
    intro cl hcl
    cases hg : Map.get o.nodes node.pid with
    | none => rw [hg] at hcl; simp at hcl
    | some s => rw [hg] at hcl; exact ⟨s, rfl, hcl⟩
  refine ⟨?_, ?_, ?_, ?_, ?_, ?_⟩
  · rw [hget, if_neg (fun e => hp e.symm)]; exact h.k0
  · intro id' s' v' hs' hv'
    rw [hget] at hs'
    by_cases he : id' = node.pid
    · rw [if_pos he] at hs'
      have := Option.some.inj hs'
      rw [← this] at hv'
      have hv : node = v' := Option.some.inj hv'
      rw [← hv, hnn, if_pos rfl, he]
      exact ⟨rfl, rfl, hw, hnm⟩
    · rw [if_neg he] at hs'
      have := h.nb id' s' v' hs' hv'
      refine ⟨?_, this.2⟩
      rw [hnn]
      have hne : v'.name ≠ node.name := by
        intro e
        rw [e] at this
        rcases hn with hn | hn
        · rw [hn] at this; simp at this
        · rw [hn] at this; exact he (Option.some.inj this.1).symm
      rw [if_neg hne]; exact this.1
  · intro id' s' cl hs' hcl
    rw [hget] at hs'
    rw [hcn]
    by_cases he : id' = node.pid
    · rw [if_pos he] at hs'
      have := Option.some.inj hs'
      rw [← this] at hcl
      obtain ⟨s0, hs0, hcl0⟩ := hold cl hcl
      rw [he]; exact h.cb node.pid s0 cl hs0 hcl0
    · rw [if_neg he] at hs'; exact h.cb id' s' cl hs' hcl
  · intro n' id' hg
    rw [hnn] at hg
    by_cases hne : n' = node.name
    · rw [if_pos hne] at hg
      have : node.pid = id' := Option.some.inj hg
      rw [← this]
      exact ⟨_, node, by rw [hget, if_pos rfl], rfl, hne.symm⟩
    · rw [if_neg hne] at hg
      obtain ⟨s', v', hs', hv', hvn'⟩ := h.nf n' id' hg
      have he : id' ≠ node.pid := by
        intro e
        have := (h.nb id' s' v' hs' hv').2.2.1
        rw [e, hw, hvn'] at this
        exact hne this.symm
      exact ⟨s', v', by rw [hget, if_neg he]; exact hs', hv', hvn'⟩
  · intro n' id' hg
    rw [hcn] at hg
    refine ⟨(h.cf n' id' hg).1, ?_⟩
    intro hne'
    obtain ⟨s', cl', hs', hcl', hcn'⟩ := (h.cf n' id' hg).2 hne'
    by_cases he : id' = node.pid
    · refine ⟨_, cl', by rw [hget, if_pos he], ?_, hcn'⟩
      rw [← he, hs']; exact hcl'
    · exact ⟨s', cl', by rw [hget, if_neg he]; exact hs', hcl', hcn'⟩
  · intro id' s' hs'
    rw [hget] at hs'
    by_cases he : id' = node.pid
    · rw [if_pos he] at hs'
      rw [← Option.some.inj hs']; left; rfl
    · rw [if_neg he] at hs'; exact h.ne id' s' hs'

def claimEntry (old : Objs) (cl : ClaimObj) : Objs := ⟨old.node, some cl, old.marked, old.nominated⟩

/-- installing a launched NodeClaim and recording its name -/
def OC.putClaim (o : OC) (cl : ClaimObj) (old : Objs) : OC :=
  { nodes := Map.put o.nodes cl.pid (claimEntry old cl), nn := o.nn, cn := Map.put o.cn cl.name cl.pid }

theorem struct_putClaim {w : Owners} {o : OC} (h : Struct w o) (cl : ClaimObj)
    (hp : cl.pid ≠ "") (hw : w.claimOf cl.pid = cl.name) (hm : w.managed cl.name = true)
    (hn : Map.get o.cn cl.name = none ∨ Map.get o.cn cl.name = some cl.pid) :
    Struct w (o.putClaim cl ((Map.get o.nodes cl.pid).getD {})) := by
  have hget : ∀ id', Map.get (o.putClaim cl ((Map.get o.nodes cl.pid).getD {})).nodes id' =
      if id' = cl.pid then some (claimEntry ((Map.get o.nodes cl.pid).getD {}) cl) else Map.get o.nodes id' := by
    intro id'; unfold OC.putClaim; dsimp only; rw [Map.get_put]
  have hcn : ∀ n', Map.get (o.putClaim cl ((Map.get o.nodes cl.pid).getD {})).cn n' =
      if n' = cl.name then some cl.pid else Map.get o.cn n' := by
    intro n'; unfold OC.putClaim; dsimp only; rw [Map.get_put]
  have hnn : (o.putClaim cl ((Map.get o.nodes cl.pid).getD {})).nn = o.nn := rfl
  have hold : ∀ v, ((Map.get o.nodes cl.pid).getD {}).node = some v → ∃ s, Map.get o.nodes cl.pid = some s ∧ s.node = some v := by
    intro v hv
    cases hg : Map.get o.nodes cl.pid with
    | none => rw [hg] at hv; simp at hv
    | some s => rw [hg] at hv; exact ⟨s, rfl, hv⟩
  refine ⟨?_, ?_, ?_, ?_, ?_, ?_⟩
  · rw [hget, if_neg (fun e => hp e.symm)]; exact h.k0
  · intro id' s' v' hs' hv'
    rw [hget] at hs'
    rw [hnn]
    by_cases he : id' = cl.pid
    · rw [if_pos he] at hs'
      have := Option.some.inj hs'
      rw [← this] at hv'
      obtain ⟨s0, hs0, hv0⟩ := hold v' hv'
      rw [he]; exact h.nb cl.pid s0 v' hs0 hv0
    · rw [if_neg he] at hs'; exact h.nb id' s' v' hs' hv'
  · intro id' s' cl' hs' hcl'
    rw [hget] at hs'
    by_cases he : id' = cl.pid
    · rw [if_pos he] at hs'
      have := Option.some.inj hs'
      rw [← this] at hcl'
      have hc : cl = cl' := Option.some.inj hcl'
      rw [← hc, hcn, if_pos rfl, he]
      exact ⟨rfl, rfl, hw⟩
    · rw [if_neg he] at hs'
      have := h.cb id' s' cl' hs' hcl'
      refine ⟨?_, this.2⟩
      rw [hcn]
      have hne : cl'.name ≠ cl.name := by
        intro e
        rw [e] at this
        rcases hn with hn | hn
        · rw [hn] at this; simp at this
        · rw [hn] at this; exact he (Option.some.inj this.1).symm
      rw [if_neg hne]; exact this.1
  · intro n' id' hg
    rw [hnn] at hg
    obtain ⟨s', v', hs', hv', hvn'⟩ := h.nf n' id' hg
    by_cases he : id' = cl.pid
    · refine ⟨_, v', by rw [hget, if_pos he], ?_, hvn'⟩
      show ((Map.get o.nodes cl.pid).getD {}).node = some v'
      rw [← he, hs']; exact hv'
    · exact ⟨s', v', by rw [hget, if_neg he]; exact hs', hv', hvn'⟩
  · intro n' id' hg
    rw [hcn] at hg
    by_cases hne : n' = cl.name
    · rw [if_pos hne] at hg
      have : cl.pid = id' := Option.some.inj hg
      rw [← this, hne]
      exact ⟨hm, fun _ => ⟨_, cl, by rw [hget, if_pos rfl], rfl, rfl⟩⟩
    · rw [if_neg hne] at hg
      refine ⟨(h.cf n' id' hg).1, ?_⟩
      intro hne'
      obtain ⟨s', cl', hs', hcl', hcn'⟩ := (h.cf n' id' hg).2 hne'
      have he : id' ≠ cl.pid := by
        intro e
        have := (h.cb id' s' cl' hs' hcl').2.2
        rw [e, hw, hcn'] at this
        exact hne this.symm
      exact ⟨s', cl', by rw [hget, if_neg he]; exact hs', hcl', hcn'⟩
  · intro id' s' hs'
    rw [hget] at hs'
    by_cases he : id' = cl.pid
    · rw [if_pos he] at hs'
      rw [← Option.some.inj hs']; right; rfl
    · rw [if_neg he] at hs'; exact h.ne id' s' hs'

/-- changing only mark / nomination of an entry -/
theorem struct_touch {w : Owners} {o : OC} (h : Struct w o) (id : String) (s s' : Objs)
    (hs : Map.get o.nodes id = some s) (h1 : s'.node = s.node) (h2 : s'.claim = s.claim) :
    Struct w { o with nodes := Map.put o.nodes id s' } := by
  have hget : ∀ id', Map.get (Map.put o.nodes id s') id' = if id' = id then some s' else Map.get o.nodes id' := by
    intro id'; rw [Map.get_put]
  have hid : id ≠ "" := by intro e; rw [e, h.k0] at hs; simp at hs
  refine ⟨?_, ?_, ?_, ?_, ?_, ?_⟩
  · show Map.get (Map.put o.nodes id s') "" = none
    rw [hget, if_neg (fun e => hid e.symm)]; exact h.k0
  · intro id' x v hx hv
    have hx' : Map.get (Map.put o.nodes id s') id' = some x := hx
    rw [hget] at hx'
    by_cases he : id' = id
    · rw [if_pos he] at hx'
      rw [← Option.some.inj hx', h1] at hv
      rw [he]; exact h.nb id s v hs hv
    · rw [if_neg he] at hx'; exact h.nb id' x v hx' hv
  · intro id' x cl hx hcl
    have hx' : Map.get (Map.put o.nodes id s') id' = some x := hx
    rw [hget] at hx'
    by_cases he : id' = id
    · rw [if_pos he] at hx'
      rw [← Option.some.inj hx', h2] at hcl
      rw [he]; exact h.cb id s cl hs hcl
    · rw [if_neg he] at hx'; exact h.cb id' x cl hx' hcl
  · intro n' id' hg
    obtain ⟨x, v, hx, hv, hvn⟩ := h.nf n' id' hg
    show ∃ s v, Map.get (Map.put o.nodes id s') id' = some s ∧ _
    by_cases he : id' = id
    · refine ⟨s', v, by rw [hget, if_pos he], ?_, hvn⟩
      rw [he, hs] at hx
      rw [h1, Option.some.inj hx]; exact hv
    · exact ⟨x, v, by rw [hget, if_neg he]; exact hx, hv, hvn⟩
  · intro n' id' hg
    refine ⟨(h.cf n' id' hg).1, ?_⟩
    intro hne
    obtain ⟨x, cl, hx, hcl, hcn⟩ := (h.cf n' id' hg).2 hne
    show ∃ s cl, Map.get (Map.put o.nodes id s') id' = some s ∧ _
    by_cases he : id' = id
    · refine ⟨s', cl, by rw [hget, if_pos he], ?_, hcn⟩
      rw [he, hs] at hx
      rw [h2, Option.some.inj hx]; exact hcl
    · exact ⟨x, cl, by rw [hget, if_neg he]; exact hx, hcl, hcn⟩
  · intro id' x hx
    have hx' : Map.get (Map.put o.nodes id s') id' = some x := hx
    rw [hget] at hx'
    by_cases he : id' = id
    · rw [if_pos he] at hx'
      rw [← Option.some.inj hx', h1, h2]; exact h.ne id s hs
    · rw [if_neg he] at hx'; exact h.ne id' x hx'

end Karp.ClusterState
