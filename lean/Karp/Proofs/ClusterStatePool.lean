/-
C11 helper lemmas: the per-NodePool resource totals are, at every moment, the sum of what the cached state nodes
contribute (telescoping invariant of `updateNodePoolResources`).
-/
import Karp.Proofs.ClusterStateMap

namespace Karp.ClusterState

/-- what a state node contributes to pool `p` -/
def contribAt (s : SNode) (p : String) : Res := if p ≠ "" ∧ s.contrib.1 = p then s.contrib.2 else Res.zero

def sideAt (o : String × Res) (p : String) : Res := if p ≠ "" ∧ o.1 = p then o.2 else Res.zero

def optContribAt (o : Option SNode) (p : String) : Res := match o with | some s => contribAt s p | none => Res.zero

theorem sideAt_sideOf (o : Option SNode) (p : String) : sideAt (Cluster.sideOf o) p = optContribAt o p := by
  cases o with
  | none => simp [Cluster.sideOf, sideAt, optContribAt]
  | some s => rfl

/-- Σ over the cached state nodes of their contribution to pool `p` -/
def poolSum : Map SNode → String → Res
  | [], _ => Res.zero
  | (_, s) :: m, p => (contribAt s p).add (poolSum m p)

theorem poolSum_erase (m : Map SNode) (id p : String) (h : Map.NoDup m) :
    poolSum (Map.erase m id) p = (poolSum m p).sub (optContribAt (Map.get m id) p) := by
  induction m with
  | nil => simp [Map.erase_nil, poolSum, optContribAt, Res.sub_zero]
  | cons e m ih =>
    obtain ⟨k0, s⟩ := e
    rw [Map.noDup_cons] at h
    rw [Map.erase_cons, Map.get_cons]
    by_cases h0 : k0 = id
    · simp only [h0, if_true, poolSum, optContribAt]
      have hn : Map.get m id = none := Map.get_none_of_not_mem_keys (h0 ▸ h.1)
      rw [Map.erase_of_get_none m id hn, Res.add_comm, Res.add_sub_cancel]
    · simp only [h0, if_false, poolSum]
      rw [ih h.2]
      apply Res.ext' <;> simp [Res.add, Res.sub] <;> omega

theorem poolSum_put (m : Map SNode) (id p : String) (s : SNode) (h : Map.NoDup m) :
    poolSum (Map.put m id s) p = ((poolSum m p).sub (optContribAt (Map.get m id) p)).add (contribAt s p) := by
  unfold Map.put
  simp only [poolSum]
  rw [poolSum_erase m id p h, Res.add_comm]

/-! ### the map update -/

theorem getD_gcPool (pr : Map Res) (name p : String) :
    Map.getD (Cluster.gcPool pr name) p Res.zero = Map.getD pr p Res.zero := by
  unfold Cluster.gcPool
  by_cases hz : (Map.getD pr name Res.zero).isZero = true
  · rw [if_pos hz, Map.getD_eq, Map.getD_eq, Map.get_erase]
    by_cases hp : p = name
    · rw [if_pos hp]
      rw [Res.isZero_iff, Map.getD_eq] at hz
      rw [hp, hz]; rfl
    · rw [if_neg hp]
  · rw [if_neg hz]

theorem getD_put (pr : Map Res) (k p : String) (v : Res) :
    Map.getD (Map.put pr k v) p Res.zero = if p = k then v else Map.getD pr p Res.zero := by
  rw [Map.getD_eq, Map.getD_eq, Map.get_put]
  by_cases h : p = k <;> simp [h]

theorem getD_poolUpdate (pr : Map Res) (o n : String × Res) (p : String) :
    Map.getD (Cluster.poolUpdate pr o n) p Res.zero = ((Map.getD pr p Res.zero).sub (sideAt o p)).add (sideAt n p) := by
  unfold Cluster.poolUpdate
  simp only [getD_gcPool]
  -- step 1: make sure the new pool has an entry
  have h1 : ∀ q, Map.getD (if (n.1 ≠ "" && !Map.has pr n.1) = true then Map.put pr n.1 Res.zero else pr) q Res.zero
      = Map.getD pr q Res.zero := by
    intro q
    by_cases hc : (n.1 ≠ "" && !Map.has pr n.1) = true
    · rw [if_pos hc, getD_put]
      by_cases hq : q = n.1
      · rw [if_pos hq]
        have : Map.has pr n.1 = false := by
          simp only [Bool.and_eq_true, Bool.not_eq_eq_eq_not, Bool.not_true] at hc
          exact hc.2
        rw [Map.has_eq] at this
        rw [Map.getD_eq, hq]
        cases hg : Map.get pr n.1 with
        | none => rfl
        | some v => rw [hg] at this; simp at this
      · rw [if_neg hq]
    · rw [if_neg hc]
  generalize hpr1 : (if (n.1 ≠ "" && !Map.has pr n.1) = true then Map.put pr n.1 Res.zero else pr) = pr1 at h1 ⊢
  -- step 2: subtract the old side
  have h2 : ∀ q, Map.getD (if (o.1 ≠ "" && !o.2.isZero) = true then Map.put pr1 o.1 ((Map.getD pr1 o.1 Res.zero).sub o.2) else pr1) q Res.zero
      = (Map.getD pr q Res.zero).sub (sideAt o q) := by
    intro q
    by_cases hc : (o.1 ≠ "" && !o.2.isZero) = true
    · rw [if_pos hc, getD_put]
      have hne : o.1 ≠ "" := by
        simp only [Bool.and_eq_true, decide_eq_true_eq] at hc; exact hc.1
      by_cases hq : q = o.1
      · rw [if_pos hq, h1, sideAt, hq]; simp [hne]
      · rw [if_neg hq, h1, sideAt]
        have : ¬ (q ≠ "" ∧ o.1 = q) := fun h => hq h.2.symm
        rw [if_neg this, Res.sub_zero]
    · rw [if_neg hc, h1, sideAt]
      by_cases hq : q ≠ "" ∧ o.1 = q
      · rw [if_pos hq]
        have hne : o.1 ≠ "" := by rw [hq.2]; exact hq.1
        have : o.2.isZero = true := by
          simp only [Bool.and_eq_true, decide_eq_true_eq, Bool.not_eq_eq_eq_not, Bool.not_true, not_and, Bool.not_eq_false] at hc
          exact hc hne
        rw [(Res.isZero_iff _).mp this, Res.sub_zero]
      · rw [if_neg hq, Res.sub_zero]
  generalize hpr2 : (if (o.1 ≠ "" && !o.2.isZero) = true then Map.put pr1 o.1 ((Map.getD pr1 o.1 Res.zero).sub o.2) else pr1) = pr2 at h2 ⊢
  -- step 3: add the new side
  by_cases hc : (n.1 ≠ "" && !n.2.isZero) = true
  · rw [if_pos hc, getD_put]
    have hne : n.1 ≠ "" := by
      simp only [Bool.and_eq_true, decide_eq_true_eq] at hc; exact hc.1
    by_cases hq : p = n.1
    · rw [if_pos hq, h2, hq]
      have : sideAt n n.1 = n.2 := by simp [sideAt, hne]
      rw [this]
    · rw [if_neg hq, h2]
      have : ¬ (p ≠ "" ∧ n.1 = p) := fun h => hq h.2.symm
      rw [sideAt, sideAt, if_neg this, Res.add_zero]
  · rw [if_neg hc, h2]
    by_cases hq : p ≠ "" ∧ n.1 = p
    · have hne : n.1 ≠ "" := by rw [hq.2]; exact hq.1
      have : n.2.isZero = true := by
        simp only [Bool.and_eq_true, decide_eq_true_eq, Bool.not_eq_eq_eq_not, Bool.not_true, not_and, Bool.not_eq_false] at hc
        exact hc hne
      rw [sideAt, sideAt, if_pos hq, (Res.isZero_iff _).mp this, Res.add_zero]
    · rw [sideAt, sideAt, if_neg hq, Res.add_zero]

theorem getD_updateNodePoolResources (c : Cluster) (old new : Option SNode) (p : String) :
    Map.getD (c.updateNodePoolResources old new).poolRes p Res.zero
      = ((Map.getD c.poolRes p Res.zero).sub (optContribAt old p)).add (optContribAt new p) := by
  unfold Cluster.updateNodePoolResources
  simp only [getD_poolUpdate, sideAt_sideOf]

/-! ### the invariant -/

/-- keys of the cache are distinct and every pool total is the sum of the contributions -/
structure PoolInv (c : Cluster) : Prop where
  nodup : Map.NoDup c.nodes
  sum : ∀ p, Map.getD c.poolRes p Res.zero = poolSum c.nodes p

theorem poolInv_empty : PoolInv {} := ⟨Map.noDup_nil, fun _ => rfl⟩

/-- replacing (or creating) the state node `id` together with the matching `updateNodePoolResources` call -/
theorem poolInv_replace (c : Cluster) (id : String) (old : Option SNode) (n : SNode) (h : PoolInv c)
    (hold : ∀ p, optContribAt old p = optContribAt (Map.get c.nodes id) p) :
    ∀ c', c'.nodes = Map.put c.nodes id n → c'.poolRes = (c.updateNodePoolResources old (some n)).poolRes → PoolInv c' := by
  intro c' hn hp
  refine ⟨by rw [hn]; exact Map.noDup_put h.nodup id n, ?_⟩
  intro p
  rw [hp, hn, getD_updateNodePoolResources, poolSum_put _ _ _ _ h.nodup, h.sum, hold]
  rfl

theorem poolInv_remove (c : Cluster) (id : String) (sn : SNode) (h : PoolInv c) (hg : Map.get c.nodes id = some sn) :
    ∀ c', c'.nodes = Map.erase c.nodes id → c'.poolRes = (c.updateNodePoolResources (some sn) none).poolRes → PoolInv c' := by
  intro c' hn hp
  refine ⟨by rw [hn]; exact Map.noDup_erase h.nodup id, ?_⟩
  intro p
  rw [hp, hn, getD_updateNodePoolResources, poolSum_erase _ _ _ h.nodup, h.sum, hg]
  simp [optContribAt, Res.add_zero]

/-- changing a state node without touching Node / NodeClaim / mark leaves the totals alone -/
theorem poolInv_touch (c : Cluster) (id : String) (sn sn' : SNode) (h : PoolInv c) (hg : Map.get c.nodes id = some sn)
    (hc : sn'.contrib = sn.contrib) :
    ∀ c', c'.nodes = Map.put c.nodes id sn' → c'.poolRes = c.poolRes → PoolInv c' := by
  intro c' hn hp
  refine ⟨by rw [hn]; exact Map.noDup_put h.nodup id sn', ?_⟩
  intro p
  rw [hp, hn, poolSum_put _ _ _ _ h.nodup, h.sum, hg]
  simp only [optContribAt, contribAt, hc]
  rw [Res.sub_add_cancel]

end Karp.ClusterState
