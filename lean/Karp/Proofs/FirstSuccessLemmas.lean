/-
Helper lemmas for C19: the invariant of the worker/publication protocol of
`parallelizeUntil` + `addToNewNodeClaim` under every interleaving.
-/
import Karp.Model.FirstSuccess

namespace Karp.FirstSuccess

/-- `m` is the least index whose outcome is not a plain failure -/
def IsFirst (outs : List Outcome) (m : Nat) : Prop :=
  m < outs.length ∧ outs.getD m .fail ≠ .fail ∧ ∀ j, j < m → outs.getD j .fail = .fail

theorem isFirst_unique {outs : List Outcome} {m m' : Nat} (h : IsFirst outs m) (h' : IsFirst outs m') : m = m' := by
  rcases Nat.lt_trichotomy m m' with hlt | heq | hgt
  · exact absurd (h'.2.2 m hlt) h.2.1
  · exact heq
  · exact absurd (h.2.2 m' hgt) h'.2.1

/-- a decisive index is never below the first one -/
theorem isFirst_le {outs : List Outcome} {m i : Nat} (h : IsFirst outs m) (hi : outs.getD i .fail ≠ .fail) : m ≤ i := by
  rcases Nat.lt_or_ge i m with hlt | hge
  · exact absurd (h.2.2 i hlt) hi
  · exact hge

theorem firstDecisive_none : ∀ (outs : List Outcome), firstDecisive outs = none →
    ∀ i, outs.getD i .fail = .fail
  | [], _, i => by simp
  | .fail :: os, h, i => by
    simp only [firstDecisive, Option.map_eq_none_iff] at h
    cases i with
    | zero => simp
    | succ i => simpa using firstDecisive_none os h i
  | .ok :: _, h, _ => by simp [firstDecisive] at h
  | .reserved :: _, h, _ => by simp [firstDecisive] at h

theorem firstDecisive_some : ∀ (outs : List Outcome) (m : Nat) (o : Outcome), firstDecisive outs = some (m, o) →
    IsFirst outs m ∧ outs.getD m .fail = o
  | [], _, _, h => by simp [firstDecisive] at h
  | .fail :: os, m, o, h => by
    simp only [firstDecisive, Option.map_eq_some_iff] at h
    obtain ⟨⟨i, o'⟩, hi, heq⟩ := h
    simp only [Prod.mk.injEq] at heq
    obtain ⟨rfl, rfl⟩ := heq
    obtain ⟨⟨h1, h2, h3⟩, h4⟩ := firstDecisive_some os i o' hi
    refine ⟨⟨by simp; omega, by simpa using h2, ?_⟩, by simpa using h4⟩
    intro j hj
    cases j with
    | zero => simp
    | succ j => simpa using h3 j (by omega)
  | .ok :: os, m, o, h => by
    simp only [firstDecisive, Option.some.injEq, Prod.mk.injEq] at h
    obtain ⟨rfl, rfl⟩ := h
    exact ⟨⟨by simp, by simp, fun j hj => by omega⟩, by simp⟩
  | .reserved :: os, m, o, h => by
    simp only [firstDecisive, Option.some.injEq, Prod.mk.injEq] at h
    obtain ⟨rfl, rfl⟩ := h
    exact ⟨⟨by simp, by simp, fun j hj => by omega⟩, by simp⟩

/-- what the published fields must be for a given decisive index -/
def claimFor (outs : List Outcome) (j : Nat) : Option Nat :=
  if outs.getD j .fail = .ok then some j else none

/-- the invariant of every reachable state -/
structure Inv (outs : List Outcome) (s : St) : Prop where
  nextLe : s.next ≤ outs.length
  busyLt : ∀ (w i : Nat), s.workers[w]? = some (W.busy i) → i < s.next
  idxOk : match s.idx with
    | some j => j < s.next ∧ outs.getD j .fail ≠ .fail ∧ s.claim = claimFor outs j
    | none => s.claim = none
  doneAfterFirst : ∀ (m : Nat), IsFirst outs m → (∃ w : Nat, s.workers[w]? = some W.done) → m < s.next
  firstHeld : ∀ (m : Nat), IsFirst outs m → m < s.next → (∃ w : Nat, s.workers[w]? = some (W.busy m)) ∨ s.idx = some m

theorem inv_init (n : Nat) (outs : List Outcome) : Inv outs (init n outs) := by
  refine ⟨by simp [init], ?_, by simp [init], ?_, ?_⟩
  · intro w i h
    simp only [init] at h
    have := List.mem_of_getElem? h
    simp at this
  · intro m _ ⟨w, h⟩
    simp only [init] at h
    have := List.mem_of_getElem? h
    simp at this
  · intro m _ h; simp [init] at h

/-- reading a list after one `set` at a position that exists -/
theorem get_set {l : List W} {w : Nat} {old v : W} (hw : l[w]? = some old) (w' : Nat) (x : W) :
    (l.set w v)[w']? = some x ↔ (w' = w ∧ x = v) ∨ (w' ≠ w ∧ l[w']? = some x) := by
  have hlt : w < l.length := by
    rcases List.getElem?_eq_some_iff.mp hw with ⟨h, _⟩; exact h
  by_cases h : w' = w
  · subst h
    rw [List.getElem?_set_self hlt]
    constructor
    · intro e; left; exact ⟨rfl, (Option.some.inj e).symm⟩
    · rintro (⟨_, rfl⟩ | ⟨hne, _⟩)
      · rfl
      · exact absurd rfl hne
  · rw [List.getElem?_set_ne (fun e => h e.symm)]
    constructor
    · intro e; right; exact ⟨h, e⟩
    · rintro (⟨e, _⟩ | ⟨_, e⟩)
      · exact absurd e h
      · exact e

theorem inv_step (outs : List Outcome) (s : St) (w : Nat) (h : Inv outs s) : Inv outs (step outs s w) := by
  obtain ⟨hNext, hBusy, hIdx, hDone, hHeld⟩ := h
  unfold step
  split
  · exact ⟨hNext, hBusy, hIdx, hDone, hHeld⟩
  · exact ⟨hNext, hBusy, hIdx, hDone, hHeld⟩
  · -- worker `w` finishes piece `i`
    rename_i i hw
    have hi : i < s.next := hBusy w i hw
    unfold finish
    split
    · -- plain failure: back to the channel
      rename_i ho
      refine ⟨hNext, ?_, hIdx, ?_, ?_⟩
      · intro w' i' h'
        rcases (get_set hw w' _).mp h' with ⟨_, e⟩ | ⟨_, e⟩
        · cases e
        · exact hBusy w' i' e
      · intro m hm ⟨w', h'⟩
        rcases (get_set hw w' _).mp h' with ⟨_, e⟩ | ⟨_, e⟩
        · cases e
        · exact hDone m hm ⟨w', e⟩
      · intro m hm hlt
        rcases hHeld m hm hlt with ⟨w', h'⟩ | h'
        · by_cases e : w' = w
          · subst e
            rw [hw] at h'
            cases h'
            exact absurd ho hm.2.1
          · left; exact ⟨w', (get_set hw w' _).mpr (Or.inr ⟨e, h'⟩)⟩
        · right; exact h'
    · -- success
      rename_i ho
      have hdec : outs.getD i .fail ≠ .fail := by rw [ho]; decide
      split
      · -- an earlier (or the same) index is already published
        rename_i hrej
        refine ⟨hNext, ?_, hIdx, ?_, ?_⟩
        · intro w' i' h'
          rcases (get_set hw w' _).mp h' with ⟨_, e⟩ | ⟨_, e⟩
          · cases e
          · exact hBusy w' i' e
        · intro m hm _
          exact Nat.lt_of_le_of_lt (isFirst_le hm hdec) hi
        · intro m hm hlt
          rcases hHeld m hm hlt with ⟨w', h'⟩ | h'
          · by_cases e : w' = w
            · subst e
              rw [hw] at h'
              cases h'
              -- i = m is rejected: idx = some j with j ≤ m, j decisive, hence j = m
              right
              cases hidx : s.idx with
              | none => simp [rejects, hidx] at hrej
              | some j =>
                simp only [rejects, hidx, decide_eq_true_eq] at hrej
                rw [hidx] at hIdx
                have := isFirst_le hm hIdx.2.1
                congr 1; omega
            · left; exact ⟨w', (get_set hw w' _).mpr (Or.inr ⟨e, h'⟩)⟩
          · right; exact h'
      · rename_i hrej
        refine ⟨hNext, ?_, ?_, ?_, ?_⟩
        · intro w' i' h'
          rcases (get_set hw w' _).mp h' with ⟨_, e⟩ | ⟨_, e⟩
          · cases e
          · exact hBusy w' i' e
        · exact ⟨hi, hdec, by unfold claimFor; rw [ho]; simp⟩
        · intro m hm _
          exact Nat.lt_of_le_of_lt (isFirst_le hm hdec) hi
        · intro m hm hlt
          rcases hHeld m hm hlt with ⟨w', h'⟩ | h'
          · by_cases e : w' = w
            · subst e
              rw [hw] at h'
              cases h'
              right; rfl
            · left; exact ⟨w', (get_set hw w' _).mpr (Or.inr ⟨e, h'⟩)⟩
          · -- idx = some m already, but then piece i ≥ m would have been rejected
            exfalso
            have := isFirst_le hm hdec
            simp [rejects, h', this] at hrej
    · -- reserved-offering error
      rename_i ho
      have hdec : outs.getD i .fail ≠ .fail := by rw [ho]; decide
      split
      · rename_i hrej
        refine ⟨hNext, ?_, hIdx, ?_, ?_⟩
        · intro w' i' h'
          rcases (get_set hw w' _).mp h' with ⟨_, e⟩ | ⟨_, e⟩
          · cases e
          · exact hBusy w' i' e
        · intro m hm _
          exact Nat.lt_of_le_of_lt (isFirst_le hm hdec) hi
        · intro m hm hlt
          rcases hHeld m hm hlt with ⟨w', h'⟩ | h'
          · by_cases e : w' = w
            · subst e
              rw [hw] at h'
              cases h'
              right
              cases hidx : s.idx with
              | none => simp [rejects, hidx] at hrej
              | some j =>
                simp only [rejects, hidx, decide_eq_true_eq] at hrej
                rw [hidx] at hIdx
                have := isFirst_le hm hIdx.2.1
                congr 1; omega
            · left; exact ⟨w', (get_set hw w' _).mpr (Or.inr ⟨e, h'⟩)⟩
          · right; exact h'
      · rename_i hrej
        refine ⟨hNext, ?_, ?_, ?_, ?_⟩
        · intro w' i' h'
          rcases (get_set hw w' _).mp h' with ⟨_, e⟩ | ⟨_, e⟩
          · cases e
          · exact hBusy w' i' e
        · exact ⟨hi, hdec, by unfold claimFor; rw [ho]; simp⟩
        · intro m hm _
          exact Nat.lt_of_le_of_lt (isFirst_le hm hdec) hi
        · intro m hm hlt
          rcases hHeld m hm hlt with ⟨w', h'⟩ | h'
          · by_cases e : w' = w
            · subst e
              rw [hw] at h'
              cases h'
              right; rfl
            · left; exact ⟨w', (get_set hw w' _).mpr (Or.inr ⟨e, h'⟩)⟩
          · exfalso
            have := isFirst_le hm hdec
            simp [rejects, h', this] at hrej
  · -- an idle worker reads the channel
    rename_i hw
    split
    · rename_i hlt
      refine ⟨by simp; omega, ?_, ?_, ?_, ?_⟩
      · intro w' i' h'
        rcases (get_set hw w' _).mp h' with ⟨_, e⟩ | ⟨_, e⟩
        · cases e; simp
        · have := hBusy w' i' e; simp; omega
      · cases hidx : s.idx with
        | none => rw [hidx] at hIdx; simpa [hidx] using hIdx
        | some j =>
          rw [hidx] at hIdx
          exact ⟨by simp only; omega, hIdx.2.1, hIdx.2.2⟩
      · intro m hm ⟨w', h'⟩
        rcases (get_set hw w' _).mp h' with ⟨_, e⟩ | ⟨_, e⟩
        · cases e
        · have := hDone m hm ⟨w', e⟩; simp; omega
      · intro m hm hlt'
        simp only at hlt'
        by_cases hm' : m < s.next
        · rcases hHeld m hm hm' with ⟨w', h'⟩ | h'
          · by_cases e : w' = w
            · subst e; rw [hw] at h'; cases h'
            · left; exact ⟨w', (get_set hw w' _).mpr (Or.inr ⟨e, h'⟩)⟩
          · right; exact h'
        · have : m = s.next := by omega
          subst this
          left; exact ⟨w, (get_set hw w _).mpr (Or.inl ⟨rfl, rfl⟩)⟩
    · rename_i hge
      refine ⟨hNext, ?_, hIdx, ?_, ?_⟩
      · intro w' i' h'
        rcases (get_set hw w' _).mp h' with ⟨_, e⟩ | ⟨_, e⟩
        · cases e
        · exact hBusy w' i' e
      · intro m hm _
        have := hm.1
        simp only; omega
      · intro m hm hlt
        rcases hHeld m hm hlt with ⟨w', h'⟩ | h'
        · by_cases e : w' = w
          · subst e; rw [hw] at h'; cases h'
          · left; exact ⟨w', (get_set hw w' _).mpr (Or.inr ⟨e, h'⟩)⟩
        · right; exact h'

theorem inv_run (outs : List Outcome) (sched : List Nat) : ∀ s, Inv outs s → Inv outs (run outs s sched) := by
  induction sched with
  | nil => intro s h; exact h
  | cons w ws ih => intro s h; exact ih _ (inv_step outs s w h)

theorem step_workers_length (outs : List Outcome) (s : St) (w : Nat) :
    (step outs s w).workers.length = s.workers.length := by
  unfold step
  split
  · rfl
  · rfl
  · unfold finish
    split
    · simp
    · split <;> simp
    · split <;> simp
  · split <;> simp

theorem run_workers_length (outs : List Outcome) (sched : List Nat) :
    ∀ s, (run outs s sched).workers.length = s.workers.length := by
  induction sched with
  | nil => intro s; rfl
  | cons w ws ih => intro s; rw [run, ih, step_workers_length]

end Karp.FirstSuccess

namespace Karp.FirstSuccess

/-- counting after one `set` -/
theorem count_set (p : W → Bool) : ∀ (l : List W) (w : Nat) (old v : W), l[w]? = some old →
    ((l.set w v).filter p).length + (if p old then 1 else 0) = (l.filter p).length + (if p v then 1 else 0)
  | [], w, old, v, h => by simp at h
  | x :: xs, 0, old, v, h => by
    simp only [List.getElem?_cons_zero, Option.some.injEq] at h
    subst h
    simp only [List.set_cons_zero, List.filter_cons]
    by_cases h1 : p x = true <;> by_cases h2 : p v = true <;> simp [h1, h2] <;> omega
  | x :: xs, w + 1, old, v, h => by
    simp only [List.getElem?_cons_succ] at h
    have ih := count_set p xs w old v h
    simp only [List.set_cons_succ, List.filter_cons]
    by_cases h1 : p x = true <;> simp [h1] <;> omega

end Karp.FirstSuccess
