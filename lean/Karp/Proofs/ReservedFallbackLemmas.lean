/-
Helper lemmas for C19: what the verdicts of the reserved-capacity / limits pass model mean in terms of the
template order, and that the per-template claim counters only grow during a pass.
-/
import Karp.Proofs.WeightPriceLemmas
import Karp.Proofs.FirstSuccessLemmas
import Karp.Model.ReservedFallback

namespace Karp.ReservedFallback
open List Karp.WeightOrder Karp.FirstSuccess

variable {α : Type}

/-- in a sorted list an element that is `lt` another one stands before it -/
theorem index_lt_of_lt {lt : α → α → Bool} (h : StrictWeak lt) {l : List α} (hs : Sorted lt l)
    {i j : Nat} {q r : α} (hi : l[i]? = some q) (hj : l[j]? = some r) (hlt : lt r q = true) : j < i := by
  obtain ⟨hi', hq⟩ := List.getElem?_eq_some_iff.mp hi
  obtain ⟨hj', hr⟩ := List.getElem?_eq_some_iff.mp hj
  rcases Nat.lt_trichotomy j i with hji | hji | hji
  · exact hji
  · subst hji
    rw [hq] at hr; subst hr
    rw [h.asymm _ _ hlt] at hlt; cases hlt
  · have := (pairwise_iff_getElem.mp hs) i j hi' hj' hji
    rw [hq, hr, hlt] at this; cases this

theorem poolBefore_strictWeak : StrictWeak poolBefore :=
  ⟨fun _ _ => before_strictWeak.asymm _ _, fun _ _ _ => before_strictWeak.negTrans _ _ _⟩

theorem poolBefore_of_weight {q r : RPool} (h : q.weight < r.weight) : poolBefore r q = true := by
  unfold poolBefore before
  have : ¬ r.weight = q.weight := by omega
  simp [this, h]

/-- claims opened on template `j` according to a state -/
def usedAt (st : TState) (j : Nat) : Nat := (st.getD j (0, 0)).2

theorem fullAt_mono {u u' : Nat} (q : RPool) (h : u ≤ u') (hf : fullAt u q = true) : fullAt u' q = true := by
  unfold fullAt at hf ⊢
  cases hl : q.limit with
  | none => rw [hl] at hf; cases hf
  | some l =>
    rw [hl] at hf
    simp only [decide_eq_true_eq] at hf ⊢
    have : (u + 1) * q.cpu ≤ (u' + 1) * q.cpu := Nat.mul_le_mul_right _ (by omega)
    omega

theorem outcomeFor_fail (st : Nat × Nat) (q : RPool) (p : RPod) :
    outcomeFor st q p = .fail ↔ (canHost q p = false ∨ fullAt st.2 q = true) := by
  unfold outcomeFor
  by_cases h : canHost q p = true
  · by_cases hf : fullAt st.2 q = true
    · simp [h, hf]
    · have hf' : fullAt st.2 q = false := by simpa using hf
      simp only [h, hf', Bool.not_true, Bool.false_eq_true, if_false]
      constructor
      · intro h'; split at h' <;> (try split at h') <;> cases h'
      · rintro (h' | h') <;> cases h'
  · have h' : canHost q p = false := by simpa using h
    simp [h']

theorem outcomeFor_reserved (st : Nat × Nat) (q : RPool) (p : RPod) (h : outcomeFor st q p = .reserved) : 0 < q.cap := by
  unfold outcomeFor at h
  split at h
  · cases h
  · split at h
    · cases h
    · split at h
      · cases h
      · rename_i hc; omega

/-- reading the outcome vector -/
theorem outs_getD (ordered : List RPool) (st : TState) (p : RPod) (hlen : st.length = ordered.length)
    (j : Nat) (r : RPool) (hj : ordered[j]? = some r) :
    ∃ s, st[j]? = some s ∧ ((ordered.zip st).map (fun (q, k) => outcomeFor k q p)).getD j .fail = outcomeFor s r p := by
  obtain ⟨hj', hr⟩ := List.getElem?_eq_some_iff.mp hj
  have hjr : j < st.length := by omega
  refine ⟨st[j], List.getElem?_eq_getElem hjr, ?_⟩
  have hz : (ordered.zip st)[j]? = some (r, st[j]) :=
    List.getElem?_zip_eq_some.mpr ⟨hj, List.getElem?_eq_getElem hjr⟩
  simp [List.getD, List.getElem?_map, hz]

/-- what a verdict says about the pod, in terms of the template order and the claim counters `st` -/
def Explains (ordered : List RPool) (st : TState) (p : RPod) : Verdict → Prop
  | .placed qn => ∃ (i : Nat) (q : RPool), ordered[i]? = some q ∧ q.name = qn ∧ canHost q p = true ∧
      ∀ (j : Nat) (r : RPool), j < i → ordered[j]? = some r → (canHost r p = false ∨ fullAt (usedAt st j) r = true)
  | .deferred => ∃ (i : Nat) (q : RPool), ordered[i]? = some q ∧ canHost q p = true ∧ 0 < q.cap ∧
      ∀ (j : Nat) (r : RPool), j < i → ordered[j]? = some r → (canHost r p = false ∨ fullAt (usedAt st j) r = true)
  | .unschedulable => ∀ (j : Nat) (r : RPool), ordered[j]? = some r → (canHost r p = false ∨ fullAt (usedAt st j) r = true)

/-- the claim counters of `st'` are at least those of `st` -/
def Grows (st st' : TState) : Prop := ∀ j, usedAt st j ≤ usedAt st' j

theorem Grows.refl (st : TState) : Grows st st := fun _ => Nat.le_refl _
theorem Grows.trans {a b c : TState} (h1 : Grows a b) (h2 : Grows b c) : Grows a c :=
  fun j => Nat.le_trans (h1 j) (h2 j)

theorem Explains.mono {ordered : List RPool} {st st' : TState} {p : RPod} {v : Verdict}
    (hg : Grows st st') (h : Explains ordered st p v) : Explains ordered st' p v := by
  cases v with
  | placed qn =>
    obtain ⟨i, q, hi, hq, hc, hb⟩ := h
    exact ⟨i, q, hi, hq, hc, fun j r hji hj => (hb j r hji hj).imp id (fullAt_mono r (hg j))⟩
  | deferred =>
    obtain ⟨i, q, hi, hc, hcap, hb⟩ := h
    exact ⟨i, q, hi, hc, hcap, fun j r hji hj => (hb j r hji hj).imp id (fullAt_mono r (hg j))⟩
  | unschedulable =>
    exact fun j r hj => (h j r hj).imp id (fullAt_mono r (hg j))

theorem grows_modify (st : TState) (i : Nat) (q : RPool) : Grows st (st.modify i (claimOn q)) := by
  intro j
  unfold usedAt
  simp only [List.getD, List.getElem?_modify]
  cases hj : st[j]? with
  | none => simp
  | some s =>
    by_cases hij : i = j
    · simp [hij, claimOn]
    · simp [hij]

/-- what one pod's verdict means -/
theorem stepPod_spec (ordered : List RPool) (st : TState) (p : RPod) (hlen : st.length = ordered.length) :
    ((stepPod ordered st p).2.length = ordered.length) ∧ Grows st (stepPod ordered st p).2 ∧
    Explains ordered st p (stepPod ordered st p).1 := by
  unfold stepPod
  simp only
  generalize houts : (ordered.zip st).map (fun (q, k) => outcomeFor k q p) = outs
  have hol : outs.length = ordered.length := by rw [← houts]; simp [hlen]
  have hget := fun j r hj => outs_getD ordered st p hlen j r hj
  rw [houts] at hget
  -- a plain failure at index `j` is explained by the state
  have hfail : ∀ (j : Nat) (r : RPool), ordered[j]? = some r → outs.getD j .fail = .fail →
      (canHost r p = false ∨ fullAt (usedAt st j) r = true) := by
    intro j r hj hf
    obtain ⟨s, hs, hn⟩ := hget j r hj
    rw [hn] at hf
    have := (outcomeFor_fail s r p).mp hf
    unfold usedAt
    simpa [List.getD, hs] using this
  cases hfd : firstDecisive outs with
  | none =>
    refine ⟨hlen, Grows.refl _, ?_⟩
    intro j r hj
    exact hfail j r hj (firstDecisive_none outs hfd j)
  | some mo =>
    obtain ⟨m, o⟩ := mo
    obtain ⟨hm, ho⟩ := firstDecisive_some outs m o hfd
    have hmlt : m < ordered.length := by rw [← hol]; exact hm.1
    have hmq : ordered[m]? = some ordered[m] := List.getElem?_eq_getElem hmlt
    have hbefore : ∀ (j : Nat) (r : RPool), j < m → ordered[j]? = some r →
        (canHost r p = false ∨ fullAt (usedAt st j) r = true) :=
      fun j r hjm hj => hfail j r hj (hm.2.2 j hjm)
    obtain ⟨s, _, hn⟩ := hget m _ hmq
    rw [hn] at ho
    have hcan : canHost ordered[m] p = true := by
      cases hc : canHost ordered[m] p with
      | true => rfl
      | false =>
        have := (outcomeFor_fail s ordered[m] p).mpr (Or.inl hc)
        exact absurd (by rw [hn]; exact this) hm.2.1
    cases o with
    | fail => exact absurd (by rw [hn]; exact ho) hm.2.1
    | ok =>
      simp only [hmq]
      exact ⟨by simp [hlen], grows_modify st m _, m, ordered[m], hmq, rfl, hcan, hbefore⟩
    | reserved =>
      exact ⟨hlen, Grows.refl _, m, ordered[m], hmq, hcan, outcomeFor_reserved s _ p ho, hbefore⟩

theorem runPods_spec (ordered : List RPool) : ∀ (pods : List RPod) (st : TState), st.length = ordered.length →
    Grows st (runPods ordered st pods).2 ∧
    ∀ pn v, (pn, v) ∈ (runPods ordered st pods).1 →
      ∃ p ∈ pods, p.name = pn ∧ Explains ordered (runPods ordered st pods).2 p v := by
  intro pods
  induction pods with
  | nil => intro st _; exact ⟨Grows.refl _, fun pn v h => by simp [runPods] at h⟩
  | cons p ps ih =>
    intro st hlen
    obtain ⟨hl, hg, hs⟩ := stepPod_spec ordered st p hlen
    obtain ⟨hg', hrest⟩ := ih _ hl
    simp only [runPods]
    refine ⟨hg.trans hg', ?_⟩
    intro pn v h
    simp only [List.mem_cons, Prod.mk.injEq] at h
    rcases h with ⟨rfl, rfl⟩ | h
    · exact ⟨p, List.mem_cons_self, rfl, hs.mono (hg.trans hg')⟩
    · obtain ⟨p', hp', hn, he⟩ := hrest pn v h
      exact ⟨p', List.mem_cons_of_mem _ hp', hn, he⟩

theorem mem_queueOrder {pods : List RPod} {p : RPod} (h : p ∈ queueOrder pods) : p ∈ pods := by
  unfold queueOrder at h
  obtain ⟨⟨a, i⟩, hmem, rfl⟩ := List.mem_map.mp h
  have := (sortBy_perm podBefore _).mem_iff.mp hmem
  exact (List.of_mem_zip this).1

/-- pool `r` sits on some template whose final claim counter makes it full -/
def FullAtEnd (pools : List RPool) (pods : List RPod) (r : RPool) : Prop :=
  ∃ j : Nat, (templates pools)[j]? = some r ∧ fullAt ((finalUsed pools pods).getD j 0) r = true

/-- what a verdict of the pass must mean in terms of the pools (no reference to the template order) -/
def Justified (pools : List RPool) (pods : List RPod) (p : RPod) : Verdict → Prop
  | .placed qn => ∃ q ∈ pools, q.name = qn ∧ canHost q p = true ∧
      ∀ r ∈ pools, (poolBefore r q = true ∨ q.weight < r.weight) → (canHost r p = false ∨ FullAtEnd pools pods r)
  | .deferred => ∃ q ∈ pools, canHost q p = true ∧ 0 < q.cap ∧
      ∀ r ∈ pools, (poolBefore r q = true ∨ q.weight < r.weight) → (canHost r p = false ∨ FullAtEnd pools pods r)
  | .unschedulable => ∀ r ∈ pools, (canHost r p = false ∨ FullAtEnd pools pods r)

end Karp.ReservedFallback
