/-
C11 helper lemmas: the pod-layer invariant is preserved by every operation of the cache (with the repairs).
-/
import Karp.Proofs.ClusterStatePods

namespace Karp.ClusterState
open Cluster Karp.Spec.ClusterAbs

/-- the per-pod aggregates of a state node -/
def SNode.aggs (s : SNode) : Map Res × Map Res × Map Res × Map Res × Map Int × Map (List HostPort) × Map (List Vol) × List Vol × Map Nat :=
  (s.dsReq, s.dsLim, s.podReq, s.podLim, s.costs, s.ports, s.volPods, s.volumes, s.limits)

theorem agg_congr {s s' : SNode} {R : Map PodObj} (h : s'.aggs = s.aggs) (ha : Agg s R) : Agg s' R := by
  simp only [SNode.aggs, Prod.mk.injEq] at h
  obtain ⟨h1, h2, h3, h4, h5, h6, h7, h8, _⟩ := h
  exact ⟨by rw [h3]; exact ha.req, by rw [h4]; exact ha.lim, by rw [h1]; exact ha.dreq, by rw [h2]; exact ha.dlim,
    by rw [h5]; exact ha.cost, by rw [h6]; exact ha.ports, by rw [h7]; exact ha.vols, by rw [h3]; exact ha.ndReq,
    by rw [h4]; exact ha.ndLim, by rw [h1]; exact ha.ndDReq, by rw [h2]; exact ha.ndDLim, by rw [h5]; exact ha.ndCost,
    by rw [h6]; exact ha.ndPorts, by rw [h7]; exact ha.ndVols, by rw [h8]; exact ha.ndVolumes, by rw [h8]; exact ha.volSup⟩

theorem good_congr {dsOf : String → Bool} {b : Map String} {api : Api} {d : List (String × String)} {s s' : SNode} {R : Map PodObj}
    (hn : s'.node = s.node) (ha : s'.aggs = s.aggs) (h : Good dsOf b api d s R) : Good dsOf b api d s' R := by
  have hl : s'.limits = s.limits := by
    simp only [SNode.aggs, Prod.mk.injEq] at ha
    exact ha.2.2.2.2.2.2.2.2
  exact ⟨agg_congr ha h.agg, h.tab, by rw [hn]; exact h.t1, by rw [hn]; exact h.t2, h.t3, by rw [hn]; exact h.t4,
    by rw [hl, hn]; exact h.lim⟩

/-- a state node without Node and without aggregates -/
theorem good_empty {dsOf : String → Bool} {b : Map String} {api : Api} {d : List (String × String)} {s : SNode}
    (hn : s.node = none) (ha : s.aggs = SNode.new.aggs) : Good dsOf b api d s [] := by
  have hl : s.limits = [] := by
    simp only [SNode.aggs, Prod.mk.injEq] at ha
    exact ha.2.2.2.2.2.2.2.2
  exact ⟨agg_congr ha agg_new.1, ⟨Map.noDup_nil, by intro k p h; simp at h⟩, fun _ => rfl, by intro k p h; simp at h,
   by intro k p h; simp at h, by intro k p v hv; rw [hn] at hv; simp at hv, by rw [hl, hn]⟩

theorem nameOK_of_struct {w : Owners} {c : Cluster} {o : OC} (he : (proj c).Eqv o) (h : Struct w o) : NameOK c ∧ NoEmptyKey c := by
  have hnn : c.nodeNameToPid = o.nn := he.nn
  refine ⟨⟨?_, ?_⟩, ?_⟩
  · intro id s v hs hv
    have ho : Map.get o.nodes id = some s.objs := by rw [eqv_get he, hs]; rfl
    have := h.nb id s.objs v ho hv
    rw [hnn]; exact ⟨this.1, this.2.2.2⟩
  · intro name id hg
    rw [hnn] at hg
    obtain ⟨so, v, hso, hv, hvn⟩ := h.nf name id hg
    rw [eqv_get he] at hso
    cases hs : Map.get c.nodes id with
    | none => rw [hs] at hso; simp at hso
    | some s =>
      rw [hs] at hso
      simp only [Option.map_some, Option.some.injEq] at hso
      exact ⟨s, v, rfl, by rw [← hv, ← hso]; rfl, hvn⟩
  · show Map.get c.nodes "" = none
    have := h.k0
    rw [eqv_get he] at this
    cases hs : Map.get c.nodes "" with
    | none => rfl
    | some s => rw [hs] at this; simp at this

theorem podInv_dirty_congr {dsOf : String → Bool} {c : Cluster} {api : Api} {d d' : List (String × String)}
    (hd : ∀ k, ("p", k) ∉ d' → ("p", k) ∉ d) (h : PodInv dsOf c api d) : PodInv dsOf c api d' := by
  refine ⟨h.names, ?_⟩
  intro id s hs
  obtain ⟨R, hR⟩ := h.good id s hs
  exact ⟨R, good_mono hR (fun _ _ _ => rfl) (fun k hk => ⟨hd k hk, rfl⟩)⟩

/-- an API change: only the dirty set and (for pods) the changed key of the API move -/
theorem podInv_api {dsOf : String → Bool} {c : Cluster} {api api' : Api} {d d' : List (String × String)}
    (h3 : ∀ k, ("p", k) ∉ d' → ("p", k) ∉ d ∧ Map.get api'.pods k = Map.get api.pods k) (h : PodInv dsOf c api d) :
    PodInv dsOf c api' d' := by
  refine ⟨h.names, ?_⟩
  intro id s hs
  obtain ⟨R, hR⟩ := h.good id s hs
  exact ⟨R, good_mono hR (fun _ _ _ => rfl) h3⟩

/-- operations that only touch Node / NodeClaim / marks: every state node afterwards is one from before with the same Node
    and aggregates, or has neither Node nor aggregates -/
theorem podInv_objs {dsOf : String → Bool} {c c' : Cluster} {api : Api} {d : List (String × String)} (h : PodInv dsOf c api d)
    (hN : NameOK c') (hb : c'.bindings = c.bindings)
    (hnodes : ∀ id s', Map.get c'.nodes id = some s' →
      (∃ id0 s, Map.get c.nodes id0 = some s ∧ s'.node = s.node ∧ s'.aggs = s.aggs) ∨ (s'.node = none ∧ s'.aggs = SNode.new.aggs)) :
    PodInv dsOf c' api d := by
  refine ⟨hN, ?_⟩
  intro id s' hs'
  rw [hb]
  rcases hnodes id s' hs' with ⟨id0, s, hs, hn, ha⟩ | ⟨hn, ha⟩
  · obtain ⟨R, hR⟩ := h.good id0 s hs
    exact ⟨R, good_congr hn ha hR⟩
  · exact ⟨[], good_empty hn ha⟩

end Karp.ClusterState

namespace Karp.ClusterState
open Cluster Karp.Spec.ClusterAbs

def FromOld (c : Cluster) (s' : SNode) : Prop :=
  (∃ id0 s, Map.get c.nodes id0 = some s ∧ s'.node = s.node ∧ s'.aggs = s.aggs) ∨ (s'.node = none ∧ s'.aggs = SNode.new.aggs)

/-- `c'` arises from `c` by an operation on Nodes / NodeClaims / marks only -/
structure ObjOp (c c' : Cluster) : Prop where
  b : c'.bindings = c.bindings
  nodes : ∀ id s', Map.get c'.nodes id = some s' → FromOld c s'

theorem ObjOp.refl (c : Cluster) : ObjOp c c := ⟨rfl, fun id s' hs => Or.inl ⟨id, s', hs, rfl, rfl⟩⟩

theorem ObjOp.trans {a b c : Cluster} (h1 : ObjOp a b) (h2 : ObjOp b c) : ObjOp a c := by
  refine ⟨h2.b.trans h1.b, ?_⟩
  intro id s'' hs''
  rcases h2.nodes id s'' hs'' with ⟨id0, s', hs', hn, ha⟩ | h
  · rcases h1.nodes id0 s' hs' with ⟨id1, s, hs, hn1, ha1⟩ | ⟨hn1, ha1⟩
    · exact Or.inl ⟨id1, s, hs, hn.trans hn1, ha.trans ha1⟩
    · exact Or.inr ⟨hn.trans hn1, ha.trans ha1⟩
  · exact Or.inr h

theorem podInv_objOp {dsOf : String → Bool} {c c' : Cluster} {api : Api} {d : List (String × String)} (h : PodInv dsOf c api d)
    (hN : NameOK c') (ho : ObjOp c c') : PodInv dsOf c' api d :=
  podInv_objs h hN ho.b ho.nodes

/-- replacing / creating one entry -/
theorem objOp_put (c c' : Cluster) (id : String) (s' : SNode) (hb : c'.bindings = c.bindings) (hn : c'.nodes = Map.put c.nodes id s')
    (hs : FromOld c s') : ObjOp c c' := by
  refine ⟨hb, ?_⟩
  intro id' x hx
  rw [hn, Map.get_put] at hx
  by_cases he : id' = id
  · rw [if_pos he] at hx; rw [← Option.some.inj hx]; exact hs
  · rw [if_neg he] at hx; exact Or.inl ⟨id', x, hx, rfl, rfl⟩

theorem objOp_erase (c c' : Cluster) (id : String) (hb : c'.bindings = c.bindings) (hn : c'.nodes = Map.erase c.nodes id) : ObjOp c c' := by
  refine ⟨hb, ?_⟩
  intro id' x hx
  rw [hn, Map.get_erase] at hx
  by_cases he : id' = id
  · rw [if_pos he] at hx; simp at hx
  · rw [if_neg he] at hx; exact Or.inl ⟨id', x, hx, rfl, rfl⟩

theorem objOp_marks (c : Cluster) (pid : String) :
    ObjOp c (c.markForDeletion pid) ∧ ObjOp c (c.unmarkForDeletion pid) ∧ ObjOp c (c.nominate pid) := by
  unfold Cluster.markForDeletion Cluster.unmarkForDeletion Cluster.nominate
  cases hs : Map.get c.nodes pid with
  | none => exact ⟨ObjOp.refl c, ObjOp.refl c, ObjOp.refl c⟩
  | some sn =>
    dsimp only
    refine ⟨?_, ?_, ?_⟩
    · have : ObjOp c { (c.updateNodePoolResources (some sn) (some { sn with marked := true })) with
          nodes := Map.put c.nodes pid { sn with marked := true } } :=
        objOp_put c _ pid _ rfl rfl (Or.inl ⟨pid, sn, hs, rfl, rfl⟩)
      split
      · exact ⟨this.b, this.nodes⟩
      · exact this
    · have : ObjOp c { (c.updateNodePoolResources (some sn) (some { sn with marked := false })) with
          nodes := Map.put c.nodes pid { sn with marked := false } } :=
        objOp_put c _ pid _ rfl rfl (Or.inl ⟨pid, sn, hs, rfl, rfl⟩)
      split
      · split
        · exact ⟨this.b, this.nodes⟩
        · exact this
      · exact this
    · exact objOp_put c _ pid _ rfl rfl (Or.inl ⟨pid, sn, hs, rfl, rfl⟩)

theorem objOp_cleanupNodeClaim (c c' : Cluster) (name : String) (hr : c.cleanupNodeClaim name = .ok c') : ObjOp c c' := by
  unfold Cluster.cleanupNodeClaim at hr
  have forget : ∀ x : Cluster, ObjOp c x → ObjOp c (x.forgetClaim name) := fun x hx => ⟨hx.b, hx.nodes⟩
  split at hr
  · rename_i id _
    split at hr
    · split at hr
      · simp at hr
      · rename_i sn hsn
        simp only [Except.ok.injEq] at hr
        subst hr
        apply forget
        unfold Cluster.detachClaim
        split
        · exact objOp_erase c _ id rfl rfl
        · exact objOp_put c _ id _ rfl rfl (Or.inl ⟨id, sn, hsn, rfl, rfl⟩)
    · simp only [Except.ok.injEq] at hr
      subst hr; exact forget c (ObjOp.refl c)
  · simp only [Except.ok.injEq] at hr
    subst hr; exact forget c (ObjOp.refl c)

theorem aggs_claimLiteral (fx : Fixes) (hf : PodFix fx) (claim : ClaimObj) (old : SNode) :
    (claimLiteral fx claim old).aggs = old.aggs ∧ (claimLiteral fx claim old).node = old.node := by
  obtain ⟨h1, h2, h3, h4, h5, h6⟩ := carriedC_aggregates fx
  simp [SNode.aggs, claimLiteral, h1, h2, h3, h4, h5, h6, hf.a, carriedC_node]

theorem objOp_installClaim (fx : Fixes) (hf : PodFix fx) (c c' : Cluster) (claim : ClaimObj)
    (hr : c.installClaim fx claim = .ok c') : ObjOp c c' := by
  unfold Cluster.installClaim at hr
  dsimp only at hr
  split at hr
  · simp at hr
  · rename_i c2 hc2
    simp only [Except.ok.injEq] at hr
    subst hr
    have h2 : ObjOp c c2 := by
      split at hc2
      · exact objOp_cleanupNodeClaim c c2 claim.name hc2
      · simp only [Except.ok.injEq] at hc2; subst hc2; exact ObjOp.refl c
    have hl := aggs_claimLiteral fx hf claim ((Map.get c.nodes claim.pid).getD SNode.new)
    have hfrom : FromOld c (claimLiteral fx claim ((Map.get c.nodes claim.pid).getD SNode.new)) := by
      cases hs : Map.get c.nodes claim.pid with
      | none =>
        rw [hs] at hl
        exact Or.inr ⟨hl.2, hl.1⟩
      | some s =>
        rw [hs] at hl
        exact Or.inl ⟨claim.pid, s, hs, hl.2, hl.1⟩
    refine ⟨h2.b, ?_⟩
    intro id x hx
    have hx' : Map.get (Map.put c2.nodes claim.pid (claimLiteral fx claim ((Map.get c.nodes claim.pid).getD SNode.new))) id = some x := hx
    rw [Map.get_put] at hx'
    by_cases he : id = claim.pid
    · rw [if_pos he] at hx'; rw [← Option.some.inj hx']; exact hfrom
    · rw [if_neg he] at hx'; exact h2.nodes id x hx'

theorem objOp_updateNodeClaim (fx : Fixes) (hf : PodFix fx) (c c' : Cluster) (claim : ClaimObj)
    (hr : c.updateNodeClaim fx claim = .ok c') : ObjOp c c' := by
  unfold Cluster.updateNodeClaim at hr
  split at hr
  · simp at hr
  · rename_i c2 hc2
    simp only [Except.ok.injEq] at hr
    subst hr
    have h2 : ObjOp c c2 := by
      split at hc2
      · exact objOp_installClaim fx hf c c2 claim hc2
      · simp only [Except.ok.injEq] at hc2; subst hc2; exact ObjOp.refl c
    exact ⟨h2.b, h2.nodes⟩

theorem objOp_detachNode (fx : Fixes) (hf : PodFix fx) (c : Cluster) (name id : String) (sn : SNode)
    (hsn : Map.get c.nodes id = some sn) : ObjOp c (c.detachNode fx name id sn) := by
  unfold Cluster.detachNode
  dsimp only
  split
  · have := objOp_erase c { (c.updateNodePoolResources (some sn) none) with nodes := Map.erase c.nodes id } id rfl rfl
    exact ⟨this.b, this.nodes⟩
  · rw [hf.d]
    simp only [if_true]
    have := objOp_put c { (c.updateNodePoolResources (some sn) (some ({ claim := sn.claim, marked := sn.marked, nominated := sn.nominated } : SNode))) with
      nodes := Map.put c.nodes id ({ claim := sn.claim, marked := sn.marked, nominated := sn.nominated } : SNode) } id _ rfl rfl
      (Or.inr ⟨rfl, rfl⟩)
    exact ⟨this.b, this.nodes⟩

theorem objOp_cleanupNode (fx : Fixes) (hf : PodFix fx) (c c' : Cluster) (name : String) (hr : c.cleanupNode fx name = .ok c') :
    ObjOp c c' := by
  unfold Cluster.cleanupNode at hr
  split at hr
  · rename_i id _
    split at hr
    · split at hr
      · simp at hr
      · rename_i sn hsn
        simp only [Except.ok.injEq] at hr
        subst hr
        exact objOp_detachNode fx hf c name id sn hsn
    · simp only [Except.ok.injEq] at hr; subst hr; exact ObjOp.refl c
  · simp only [Except.ok.injEq] at hr; subst hr; exact ObjOp.refl c

end Karp.ClusterState

namespace Karp.ClusterState
open Cluster Karp.Spec.ClusterAbs

theorem option_filter_some {α : Type} (o : Option α) (q : α → Bool) (a : α) : o.filter q = some a ↔ o = some a ∧ q a = true := by
  cases o with
  | none => simp [Option.filter]
  | some b =>
    by_cases hq : q b = true
    · simp only [Option.filter, hq, if_true, Option.some.injEq]
      constructor
      · intro e; rw [← e]; exact ⟨rfl, hq⟩
      · intro e; exact e.1
    · have hq' : q b = false := by cases h : q b <;> simp_all
      simp only [Option.filter, hq', Bool.false_eq_true, if_false, Option.some.injEq]
      constructor
      · intro e; simp at e
      · intro e; rw [e.1] at hq'; rw [hq'] at e; simp at e

theorem populate_limits (fx : Fixes) (nodeName : String) (pods : List PodObj) :
    ∀ (c : Cluster) (n : SNode), (c.populate fx n nodeName pods).2.limits = n.limits := by
  induction pods with
  | nil => intro c n; rfl
  | cons p ps ih =>
    intro c n
    unfold Cluster.populate
    split
    · rw [ih]; rfl
    · exact ih c n

/-- `UpdateNode` on an accepted Node version -/
theorem podInv_newStateFromNode {dsOf : String → Bool} {c c' : Cluster} {api : Api} {d : List (String × String)} (fx : Fixes)
    (hf : PodFix fx) (h : PodInv dsOf c api d) (h0 : NoEmptyKey c) (hapi : PodsOK dsOf api) (node : NodeObj)
    (hr : c.newStateFromNode fx api node = .ok c') (hN : NameOK c') : PodInv dsOf c' api d := by
  unfold Cluster.newStateFromNode at hr
  dsimp only at hr
  have hnamed : ∀ k p, Map.get api.pods k = some p → p.name = k := fun k p hg => (hapi.named k p hg).1
  have hp := podInv_populate (d := d) fx hapi node.name api.pods.vals (fun _ hp => hp) (vals_names_nodup hapi.nd hnamed) c
    (nodeLiteral node ((Map.get c.nodes node.pid).getD SNode.new)) h h0
  have hl := agg_nodeLiteral node ((Map.get c.nodes node.pid).getD SNode.new)
  obtain ⟨R, hagg, htab, hget, _⟩ := populate_agg fx dsOf c api _ node.name hapi hl.1 hl.2
  have hobjs := (populate_podOnly fx node.name api.pods.vals c (nodeLiteral node ((Map.get c.nodes node.pid).getD SNode.new))).2
  have hnode : (c.populate fx (nodeLiteral node ((Map.get c.nodes node.pid).getD SNode.new)) node.name api.pods.vals).2.node = some node := by
    have := congrArg Objs.node hobjs
    rw [objs_nodeLiteral] at this
    exact this
  have hlim : (c.populate fx (nodeLiteral node ((Map.get c.nodes node.pid).getD SNode.new)) node.name api.pods.vals).2.limits =
      limitsOf node [] := by
    rw [populate_limits]
    have := carriedN_aggregates.2.2.2.2.2.2
    simp [nodeLiteral, this]
  generalize hcn : c.populate fx (nodeLiteral node ((Map.get c.nodes node.pid).getD SNode.new)) node.name api.pods.vals = cn at hr hp hagg hnode hlim
  split at hr
  · simp at hr
  · rename_i c2 hc2
    simp only [Except.ok.injEq] at hr
    subst hr
    have h2 : ObjOp cn.1 c2 := by
      split at hc2
      · exact objOp_cleanupNode fx hf cn.1 c2 node.name hc2
      · simp only [Except.ok.injEq] at hc2; subst hc2; exact ObjOp.refl _
    refine ⟨hN, ?_⟩
    intro id s' hs'
    have hs'' : Map.get (Map.put c2.nodes node.pid cn.2) id = some s' := hs'
    have hb : (c2.installNode node ((Map.get c.nodes node.pid).getD SNode.new) cn.2).bindings = cn.1.bindings := h2.b
    rw [hb]
    rw [Map.get_put] at hs''
    by_cases he : id = node.pid
    · rw [if_pos he] at hs''
      rw [← Option.some.inj hs'']
      refine ⟨R, hagg, htab, ?_, ?_, ?_, ?_, ?_⟩
      rotate_right
      · rw [hnode, hlim]
      · intro hn; rw [hnode] at hn; simp at hn
      · intro k p hg
        rw [hget, option_filter_some] at hg
        have hon := hg.2
        unfold onNode at hon
        simp only [Bool.and_eq_true, decide_eq_true_eq, Bool.not_eq_eq_eq_not, Bool.not_true] at hon
        refine ⟨hon.2, node, hnode, hon.1, ?_⟩
        have hm : p ∈ Map.vals api.pods := by
          unfold Map.vals
          rw [List.mem_map]
          exact ⟨(k, p), Map.mem_of_get hg.1, rfl⟩
        have := hp.2.2.1 p hm hg.2
        rw [hnamed k p hg.1] at this
        exact this
      · intro k p hg _
        rw [hget, option_filter_some] at hg
        exact hg.1
      · intro k p v hv hg _ ht hn
        rw [hnode] at hv
        rw [hget, option_filter_some]
        refine ⟨hg, ?_⟩
        unfold onNode
        rw [← Option.some.inj hv] at hn
        simp [hn, ht]
    · rw [if_neg he] at hs''
      rcases h2.nodes id s' hs'' with ⟨id0, s, hs, hn, ha⟩ | ⟨hn, ha⟩
      · obtain ⟨R0, hR0⟩ := hp.1.good id0 s hs
        exact ⟨R0, good_congr hn ha hR0⟩
      · exact ⟨[], good_empty hn ha⟩

end Karp.ClusterState

namespace Karp.ClusterState
open Cluster Karp.Spec.ClusterAbs

/-- pods in events respect the "always / never a DaemonSet pod" rule -/
def podEventOK (dsOf : String → Bool) : Event → Prop
  | .setPod p => dsOf p.name = p.ds
  | _ => True

theorem podsOK_step {dsOf : String → Bool} {api : Api} (h : PodsOK dsOf api) (e : Event) (he : podEventOK dsOf e) :
    PodsOK dsOf (api.step e) := by
  cases e with
  | setPod p =>
    refine ⟨Map.noDup_put h.nd _ _, ?_⟩
    intro k q hq
    simp only [Api.step] at hq
    rw [Map.get_put] at hq
    by_cases hk : k = p.name
    · rw [if_pos hk] at hq; rw [← Option.some.inj hq, hk]; exact ⟨rfl, he⟩
    · rw [if_neg hk] at hq; exact h.named k q hq
  | delPod k0 =>
    refine ⟨Map.noDup_erase h.nd _, ?_⟩
    intro k q hq
    simp only [Api.step] at hq
    rw [Map.get_erase] at hq
    by_cases hk : k = k0
    · rw [if_pos hk] at hq; simp at hq
    · rw [if_neg hk] at hq; exact h.named k q hq
  | setNode _ | delNode _ | setClaim _ | delClaim _ | recNode _ | recClaim _ | recPod _ | mark _ | unmark _ | nominate _ =>
    exact ⟨h.nd, h.named⟩

theorem mem_p_clean (g : Ghost) (kind name k : String) (hk : kind ≠ "p") :
    ("p", k) ∉ (g.clean kind name).dirty → ("p", k) ∉ g.dirty := by
  intro h hm
  apply h
  rw [mem_clean]
  exact ⟨hm, fun e => hk (Prod.mk.inj e).1.symm⟩

/-- a Pod reconcile -/
theorem podInv_recPod {dsOf : String → Bool} {c : Cluster} {api : Api} {g : Ghost} (fx : Fixes) (hf : PodFix fx)
    (h : PodInv dsOf c api g.dirty) (h0 : NoEmptyKey c) (hapi : PodsOK dsOf api) (name : String) (c' : Cluster) (r : RecResult)
    (hr : c.step fx api (.recPod name) = .ok (c', r)) :
    PodInv dsOf c' api (g.clean "p" name).dirty := by
  have hd : (g.clean "p" name).dirty = g.dirty.filter (· ≠ ("p", name)) := rfl
  rw [hd]
  simp only [Cluster.step] at hr
  -- the pod must not be accounted anywhere: forget it
  have forget : (∀ id s v p, Map.get c.nodes id = some s → s.node = some v → Map.get api.pods name = some p → p.terminal = false →
        p.node ≠ v.name) → PodInv dsOf (c.podCompletion name) api (g.dirty.filter (· ≠ ("p", name))) := by
    intro hck
    obtain ⟨h1, h2, h3, h4, h5⟩ := podInv_completion h h0 name (Or.inr hck)
    apply podInv_clean_noentry h1 name h2
    intro id s v p hs hv hg ht
    -- the state nodes after the completion carry the same Nodes
    have ho := h5 id
    rw [hs] at ho
    cases hs0 : Map.get c.nodes id with
    | none => rw [hs0] at ho; simp at ho
    | some s0 =>
      rw [hs0] at ho
      simp only [Option.map_some, Option.some.injEq] at ho
      have hv0 : s0.node = some v := by rw [← hv]; exact (congrArg Objs.node ho).symm
      exact hck id s0 v p hs0 hv0 hg ht
  cases hg : Map.get api.pods name with
  | none =>
    rw [hg] at hr
    simp only [Except.ok.injEq, Prod.mk.injEq] at hr
    rw [← hr.1]
    exact forget (fun id s v p _ _ hp => by rw [hg] at hp; simp at hp)
  | some p =>
    rw [hg] at hr
    simp only [Except.ok.injEq, Prod.mk.injEq] at hr
    rw [← hr.1]
    have hpn : p.name = name := (hapi.named name p hg).1
    have hpd : dsOf p.name = p.ds := by rw [hpn]; exact (hapi.named name p hg).2
    unfold Cluster.updatePod
    by_cases ht : p.terminal = true
    · rw [if_pos ht, hpn]
      exact forget (fun id s v q _ _ hq hqt => by rw [hg] at hq; rw [← Option.some.inj hq, ht] at hqt; simp at hqt)
    · rw [if_neg ht]
      have htf : p.terminal = false := by cases hx : p.terminal <;> simp_all
      unfold Cluster.podUsage
      by_cases hpe : p.node = ""
      · rw [if_pos hpe, hf.e]
        simp only [if_true]
        rw [hpn]
        apply forget
        intro id s v q hs hv hq _
        rw [hg] at hq
        rw [← Option.some.inj hq, hpe]
        exact fun e => (h.names.fwd id s v hs hv).2 e.symm
      · rw [if_neg hpe]
        cases hnb : c.nodeByName p.node with
        | none =>
          dsimp only
          have hun : Map.get c.nodeNameToPid p.node = none := (nodeByName_none_iff h.names h0 p.node).mp hnb
          have hck : ∀ id s v q, Map.get c.nodes id = some s → s.node = some v → Map.get api.pods name = some q → q.terminal = false →
              q.node ≠ v.name := by
            intro id s v q hs hv hq _ e
            rw [hg] at hq
            rw [← Option.some.inj hq] at e
            rw [e, (h.names.fwd id s v hs hv).1] at hun
            simp at hun
          rw [hf.e, hpn]
          cases hb : Map.get c.bindings name with
          | none =>
            simp only [Bool.true_and, Bool.false_eq_true, if_false]
            exact podInv_clean_noentry h name (noEntry_of_binding h name (Or.inl hb)) hck
          | some M =>
            simp only [Bool.true_and]
            by_cases hM : M = p.node
            · have : decide (M ≠ p.node) = false := by simp [hM]
              rw [this]
              simp only [Bool.false_eq_true, if_false]
              exact podInv_clean_noentry h name (noEntry_of_binding h name (Or.inr ⟨M, hb, by rw [hM]; exact hun⟩)) hck
            · have : decide (M ≠ p.node) = true := by simp [hM]
              rw [this]
              simp only [if_true]
              exact forget hck
        | some x =>
          obtain ⟨id, sn⟩ := x
          dsimp only
          have := (podInv_update fx h h0 p (by rw [hpn]; exact hg) htf hpd id sn hnb).1
          rw [show (g.dirty.filter (· ≠ ("p", name))) = g.dirty.filter (· ≠ ("p", p.name)) from by rw [hpn]]
          exact this

end Karp.ClusterState
