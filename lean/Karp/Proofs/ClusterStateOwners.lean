/-
C11 helper lemmas: the decidable checks on a history (`wStatic`, evaluated by the driver) provide the owners the theorems
quantify over.
-/
import Karp.Proofs.ClusterStatePodRun

namespace Karp.ClusterState
open Karp.Spec.ClusterAbs

def ownersOf (h : List Event) : Owners :=
  { nodeOf := fun pid => (((nodeSets h).find? (fun n => epid n = pid)).map (·.name)).getD ""
    claimOf := fun pid => (((claimSets h).find? (fun c => c.pid = pid)).map (·.name)).getD ""
    managed := fun name => (((claimSets h).find? (fun c => c.name = name)).map (·.managed)).getD false }

def dsOfHist (h : List Event) : String → Bool :=
  fun name => (((podSets h).find? (fun p => p.name = name)).map (·.ds)).getD false

theorem find_of_mem {α : Type} (l : List α) (p : α → Bool) (a : α) (ha : a ∈ l) (hp : p a = true) :
    ∃ b, l.find? p = some b ∧ b ∈ l ∧ p b = true := by
  cases hf : l.find? p with
  | none =>
    rw [List.find?_eq_none] at hf
    exact absurd hp (hf a ha)
  | some b => exact ⟨b, rfl, List.mem_of_find?_eq_some hf, List.find?_some hf⟩

theorem owners_of_wStatic (h : List Event) (hs : wStatic h = true) :
    (∀ e ∈ h, (ownersOf h).okEvent e) ∧ (∀ e ∈ h, podEventOK (dsOfHist h) e) := by
  unfold wStatic at hs
  simp only [Bool.and_eq_true] at hs
  obtain ⟨⟨⟨hpids, hclaims⟩, hpods⟩, hnames⟩ := hs
  unfold wPids at hpids
  simp only [Bool.and_eq_true, List.all_eq_true] at hpids
  unfold wClaims at hclaims
  simp only [List.all_eq_true, Bool.and_eq_true] at hclaims
  unfold wPods at hpods
  simp only [List.all_eq_true] at hpods
  unfold wNames at hnames
  simp only [List.all_eq_true] at hnames
  constructor
  · intro e he
    cases e with
    | setNode n =>
      have hm : n ∈ nodeSets h := by
        unfold nodeSets; rw [List.mem_filterMap]; exact ⟨_, he, rfl⟩
      obtain ⟨n', hf, hm', hp'⟩ := find_of_mem (nodeSets h) (fun x => epid x = epid n) n hm (by simp)
      have hpe : epid n' = epid n := by simpa using hp'
      have := hpids.1 n' hm' n hm
      simp only [Bool.or_eq_true, decide_eq_true_eq, ne_eq, decide_not, Bool.not_eq_eq_eq_not, Bool.not_true,
        decide_eq_false_iff_not] at this
      have hname : n'.name = n.name := by
        rcases this with h1 | h1
        · exact absurd hpe h1
        · exact h1
      refine ⟨?_, ?_⟩
      · show (((nodeSets h).find? (fun x => epid x = epid n)).map (·.name)).getD "" = n.name
        rw [hf]; exact hname
      · have := hnames n hm; simpa using this
    | setClaim c =>
      have hm : c ∈ claimSets h := by
        unfold claimSets; rw [List.mem_filterMap]; exact ⟨_, he, rfl⟩
      refine ⟨?_, ?_⟩
      · intro hp
        obtain ⟨c', hf, hm', hp'⟩ := find_of_mem (claimSets h) (fun x => x.pid = c.pid) c hm (by simp)
        have hpe : c'.pid = c.pid := by simpa using hp'
        have := hpids.2 c' hm' c hm
        simp only [Bool.or_eq_true, decide_eq_true_eq, ne_eq, decide_not, Bool.not_eq_eq_eq_not, Bool.not_true,
          decide_eq_false_iff_not] at this
        show (((claimSets h).find? (fun x => x.pid = c.pid)).map (·.name)).getD "" = c.name
        rw [hf]
        rcases this with (h1 | h1) | h1
        · rw [hpe] at h1; exact absurd h1 hp
        · exact absurd hpe h1
        · exact h1
      · obtain ⟨c', hf, hm', hp'⟩ := find_of_mem (claimSets h) (fun x => x.name = c.name) c hm (by simp)
        have hne : c'.name = c.name := by simpa using hp'
        have := (hclaims c' hm').2 c hm
        simp only [Bool.or_eq_true, decide_eq_true_eq, ne_eq, decide_not, Bool.not_eq_eq_eq_not, Bool.not_true,
          decide_eq_false_iff_not, Bool.and_eq_true] at this
        show (((claimSets h).find? (fun x => x.name = c.name)).map (·.managed)).getD false = c.managed
        rw [hf]
        rcases this with h1 | h1
        · exact absurd hne h1
        · exact h1.2
    | delNode _ | delClaim _ | setPod _ | delPod _ | recNode _ | recClaim _ | recPod _ | mark _ | unmark _ | nominate _ => trivial
  · intro e he
    cases e with
    | setPod p =>
      have hm : p ∈ podSets h := by
        unfold podSets; rw [List.mem_filterMap]; exact ⟨_, he, rfl⟩
      obtain ⟨p', hf, hm', hp'⟩ := find_of_mem (podSets h) (fun x => x.name = p.name) p hm (by simp)
      have hne : p'.name = p.name := by simpa using hp'
      have := hpods p' hm' p hm
      simp only [Bool.or_eq_true, decide_eq_true_eq, ne_eq, decide_not, Bool.not_eq_eq_eq_not, Bool.not_true,
        decide_eq_false_iff_not] at this
      show (((podSets h).find? (fun x => x.name = p.name)).map (·.ds)).getD false = p.ds
      rw [hf]
      rcases this with h1 | h1
      · exact absurd hne h1
      · exact h1
    | setNode _ | delNode _ | setClaim _ | delClaim _ | delPod _ | recNode _ | recClaim _ | recPod _ | mark _ | unmark _ | nominate _ => trivial

end Karp.ClusterState
