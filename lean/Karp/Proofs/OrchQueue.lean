/-
Helper lemmas for C08 (`Karp/Props/C08.lean`): list updates, the effect calculus of the API-level helpers
(`Eff`), behaviour under a quiet fault plan, the wait loop, the delete fan-out.
-/
import Karp.Model.OrchQueue

namespace Karp.OrchQueue

/-! ### `updAt` -/

theorem length_updAt {α : Type} (l : List α) (i : Nat) (f : α → α) : (updAt l i f).length = l.length := by
  induction l generalizing i with
  | nil => rfl
  | cons a t ih => cases i <;> simp [updAt, ih]

theorem getElem?_updAt {α : Type} (l : List α) (i j : Nat) (f : α → α) :
    (updAt l i f)[j]? = if j = i then (l[j]?).map f else l[j]? := by
  induction l generalizing i j with
  | nil => simp [updAt]
  | cons a t ih =>
    cases i with
    | zero => cases j <;> simp [updAt]
    | succ i => cases j <;> simp [updAt, ih]

theorem mem_updAt {α : Type} {l : List α} {i : Nat} {f : α → α} {x : α} (h : x ∈ updAt l i f) :
    x ∈ l ∨ ∃ y ∈ l, x = f y := by
  induction l generalizing i with
  | nil => simp [updAt] at h
  | cons a t ih =>
    cases i with
    | zero =>
      simp only [updAt, List.mem_cons] at h
      rcases h with h | h
      · exact Or.inr ⟨a, by simp, h⟩
      · exact Or.inl (by simp [h])
    | succ i =>
      simp only [updAt, List.mem_cons] at h
      rcases h with h | h
      · exact Or.inl (by simp [h])
      · rcases ih h with h' | ⟨y, hy, e⟩
        · exact Or.inl (by simp [h'])
        · exact Or.inr ⟨y, by simp [hy], e⟩

theorem forall_updAt {α : Type} {P : α → Prop} {l : List α} {i : Nat} {f : α → α}
    (hl : ∀ x ∈ l, P x) (hf : ∀ x, P x → P (f x)) : ∀ x ∈ updAt l i f, P x := by
  intro x hx
  rcases mem_updAt hx with h | ⟨y, hy, e⟩
  · exact hl x h
  · subst e; exact hf y (hl y hy)

/-! ### candidates and commands of a world -/

theorem candAt_setCand (w : World) (i j : Nat) (f : Cand → Cand) :
    candAt (setCand w i f) j = if j = i ∧ i < w.cands.length then f (candAt w j) else candAt w j := by
  unfold candAt setCand
  simp only [getElem?_updAt]
  by_cases h : j = i
  · subst h
    by_cases hl : j < w.cands.length
    · simp [hl]
    · simp [hl]
  · simp [h]

theorem cmdAt_setCmd (w : World) (k j : Nat) (f : Cmd → Cmd) :
    cmdAt (setCmd w k f) j = if j = k ∧ k < w.cmds.length then f (cmdAt w j) else cmdAt w j := by
  unfold cmdAt setCmd
  simp only [getElem?_updAt]
  by_cases h : j = k
  · subst h
    by_cases hl : j < w.cmds.length
    · simp [hl]
    · simp [hl]
  · simp [h]

@[simp] theorem setCmd_cands (w : World) (k : Nat) (f : Cmd → Cmd) : (setCmd w k f).cands = w.cands := rfl
@[simp] theorem setCand_cmds (w : World) (i : Nat) (f : Cand → Cand) : (setCand w i f).cmds = w.cmds := rfl
@[simp] theorem candAt_setCmd (w : World) (k i : Nat) (f : Cmd → Cmd) : candAt (setCmd w k f) i = candAt w i := rfl
@[simp] theorem cmdAt_setCand (w : World) (k i : Nat) (f : Cand → Cand) : cmdAt (setCand w i f) k = cmdAt w k := rfl
@[simp] theorem setCand_length (w : World) (i : Nat) (f : Cand → Cand) : (setCand w i f).cands.length = w.cands.length := by
  simp [setCand, length_updAt]
@[simp] theorem setCmd_length (w : World) (k : Nat) (f : Cmd → Cmd) : (setCmd w k f).cmds.length = w.cmds.length := by
  simp [setCmd, length_updAt]

/-! ### API-level effects -/

/-- `Eff F w w'`: `w'` is reached from `w` by API calls and by updating single candidates with functions from `F` -/
inductive Eff (F : (Cand → Cand) → Prop) : World → World → Prop
  | refl (w : World) : Eff F w w
  | api {w w' : World} (k : Key) : Eff F w w' → Eff F w (call w' k).2
  | upd {w w' : World} (i : Nat) (f : Cand → Cand) : F f → Eff F w w' → Eff F w (setCand w' i f)

theorem Eff.trans {F} {a b c : World} (h1 : Eff F a b) (h2 : Eff F b c) : Eff F a c := by
  induction h2 with
  | refl => exact h1
  | api k _ ih => exact Eff.api k ih
  | upd i f hf _ ih => exact Eff.upd i f hf ih

theorem Eff.mono {F G : (Cand → Cand) → Prop} (hFG : ∀ f, F f → G f) {a b : World} (h : Eff F a b) : Eff G a b := by
  induction h with
  | refl => exact Eff.refl _
  | api k _ ih => exact Eff.api k ih
  | upd i f hf _ ih => exact Eff.upd i f (hFG f hf) ih

theorem Eff.call1 {F} (w : World) (k : Key) : Eff F w (Karp.OrchQueue.call w k).2 := Eff.api k (Eff.refl w)

/-- any predicate preserved by a call and by the allowed updates is preserved along `Eff` -/
theorem Eff.pres {F} {P : World → Prop} (hc : ∀ w k, P w → P (Karp.OrchQueue.call w k).2)
    (hs : ∀ w i f, F f → P w → P (setCand w i f)) {a b : World} (h : Eff F a b) : P a → P b := by
  induction h with
  | refl => exact id
  | api k _ ih => exact fun h => hc _ k (ih h)
  | upd i f hf _ ih => exact fun h => hs _ i f hf (ih h)

/-- everything but the candidates' API bits and the call counters is untouched -/
theorem Eff.frame {F} {a b : World} (h : Eff F a b) :
    b.cmds = a.cmds ∧ b.now = a.now ∧ b.faults = a.faults ∧ b.missing = a.missing ∧
    b.retrySteps = a.retrySteps ∧ b.mode = a.mode ∧ b.cands.length = a.cands.length := by
  induction h with
  | refl => simp
  | api k _ ih => exact ih
  | upd i f _ _ ih =>
    obtain ⟨h1, h2, h3, h4, h5, h6, h7⟩ := ih
    exact ⟨h1, h2, h3, h4, h5, h6, by simp [h7]⟩

/-- a per-candidate predicate stable under the allowed updates is stable along `Eff` -/
theorem Eff.candPred {F} {p : Cand → Prop} (hF : ∀ f, F f → ∀ c, p c → p (f c)) {a b : World} (h : Eff F a b)
    (i : Nat) : p (candAt a i) → p (candAt b i) := by
  induction h with
  | refl => exact id
  | api k _ ih => exact ih
  | upd j f hf _ ih =>
    intro h0
    rw [candAt_setCand]
    split
    · exact hF f hf _ (ih h0)
    · exact ih h0

/-- a field no allowed update touches is unchanged along `Eff` -/
theorem Eff.field {F} {β : Type} (g : Cand → β) (hF : ∀ f, F f → ∀ c, g (f c) = g c) {a b : World} (h : Eff F a b)
    (i : Nat) : g (candAt b i) = g (candAt a i) :=
  Eff.candPred (p := fun c => g c = g (candAt a i)) (fun f hf c hc => (hF f hf c).trans hc) h i rfl

/-- the retry loop only repeats the effects of its body -/
theorem eff_retry {F} (body : World → Outcome × World) (hb : ∀ w, Eff F w (body w).2) :
    ∀ n w, Eff F w (retry n body w).2 := by
  intro n
  induction n with
  | zero => intro w; exact Eff.refl w
  | succ n ih =>
    intro w
    unfold retry
    have hb' := hb w
    split
    · rename_i w' heq
      rw [heq] at hb'
      split
      · exact hb'
      · exact hb'.trans (ih w')
    · exact hb'

def setsTaintTo (b : Bool) (f : Cand → Cand) : Prop := f = fun c => { c with taint := b }
def setsCondTo (b : Bool) (f : Cand → Cand) : Prop := f = fun c => { c with cond := b }
def setsDeleting (f : Cand → Cand) : Prop := f = fun c => { c with deleting := true }
/-- every update the API-level helpers make: they write the three API bits and nothing else -/
def apiUpd (f : Cand → Cand) : Prop := (∃ b, setsTaintTo b f) ∨ (∃ b, setsCondTo b f) ∨ setsDeleting f

theorem apiUpd_owner (f : Cand → Cand) (h : apiUpd f) (c : Cand) : (f c).owner = c.owner := by
  rcases h with ⟨b, h⟩ | ⟨b, h⟩ | h <;> (subst h; rfl)
theorem apiUpd_mark (f : Cand → Cand) (h : apiUpd f) (c : Cand) : (f c).mark = c.mark := by
  rcases h with ⟨b, h⟩ | ⟨b, h⟩ | h <;> (subst h; rfl)
/-- no API-level helper makes a candidate vanish or come back -/
theorem apiUpd_gone (f : Cand → Cand) (h : apiUpd f) (c : Cand) : (f c).gone = c.gone := by
  rcases h with ⟨b, h⟩ | ⟨b, h⟩ | h <;> (subst h; rfl)

theorem eff_taintAttempt (add : Bool) (i : Nat) (w : World) : Eff (setsTaintTo add) w (taintAttempt add i w).2 := by
  unfold taintAttempt
  have h1 : Eff (setsTaintTo add) w (call w (.getNode i)).2 := Eff.call1 w _
  split
  · rename_i w1 heq
    rw [heq] at h1
    split
    · exact h1
    · split
      · exact h1
      · have h2 : Eff (setsTaintTo add) w1 (call w1 (.patchNode i)).2 := Eff.call1 w1 _
        split
        · rename_i w2 heq2
          rw [heq2] at h2
          exact Eff.upd i _ rfl (h1.trans h2)
        · exact h1.trans h2
  · exact h1

theorem eff_taintNode (add : Bool) (i : Nat) (w : World) : Eff (setsTaintTo add) w (taintNode add i w).2 := by
  unfold taintNode
  have h := eff_retry (taintAttempt add i) (eff_taintAttempt add i) w.retrySteps w
  split
  · rename_i w' heq; rw [heq] at h; exact h
  · rename_i w' heq; rw [heq] at h; exact h

theorem eff_condSetAttempt (i : Nat) (w : World) : Eff (setsCondTo true) w (condSetAttempt i w).2 := by
  unfold condSetAttempt
  have h1 : Eff (setsCondTo true) w (call w (.getNC i)).2 := Eff.call1 w _
  split
  · rename_i w1 heq
    rw [heq] at h1
    have h2 : Eff (setsCondTo true) w1 (call w1 (.statusNC i)).2 := Eff.call1 w1 _
    split
    · exact h1
    · split
      · rename_i w2 heq2
        rw [heq2] at h2
        exact Eff.upd i _ rfl (h1.trans h2)
      · exact h1.trans h2
  · exact h1

theorem eff_condSet (i : Nat) (w : World) : Eff (setsCondTo true) w (condSet i w).2 := by
  unfold condSet
  have h := eff_retry (condSetAttempt i) (eff_condSetAttempt i) w.retrySteps w
  split
  · rename_i w' heq; rw [heq] at h; exact h
  · rename_i w' heq; rw [heq] at h; exact h

theorem eff_condClearAttempt (i : Nat) (w : World) : Eff (setsCondTo false) w (condClearAttempt i w).2 := by
  unfold condClearAttempt
  have h1 : Eff (setsCondTo false) w (call w (.getNC i)).2 := Eff.call1 w _
  split
  · rename_i w1 heq
    rw [heq] at h1
    split
    · exact h1
    · split
      · exact h1
      · have h2 : Eff (setsCondTo false) w1 (call w1 (.statusNC i)).2 := Eff.call1 w1 _
        split
        · rename_i w2 heq2
          rw [heq2] at h2
          exact Eff.upd i _ rfl (h1.trans h2)
        · exact h1.trans h2
  · exact h1

theorem eff_condClear (i : Nat) (w : World) : Eff (setsCondTo false) w (condClear i w).2 := by
  unfold condClear
  have h := eff_retry (condClearAttempt i) (eff_condClearAttempt i) w.retrySteps w
  split
  · rename_i w' heq; rw [heq] at h; exact h
  · rename_i w' heq; rw [heq] at h; exact h

theorem taintTo_api {b : Bool} : ∀ f, setsTaintTo b f → apiUpd f := fun _ h => Or.inl ⟨b, h⟩
theorem condTo_api {b : Bool} : ∀ f, setsCondTo b f → apiUpd f := fun _ h => Or.inr (Or.inl ⟨b, h⟩)
theorem deleting_api : ∀ f, setsDeleting f → apiUpd f := fun _ h => Or.inr (Or.inr h)

theorem eff_markOne (i : Nat) (w : World) : Eff apiUpd w (markOne i w).2 := by
  unfold markOne
  have h1 := (eff_taintNode true i w).mono taintTo_api
  split
  · rename_i w1 heq; rw [heq] at h1; exact h1
  · rename_i w1 heq; rw [heq] at h1
    exact h1.trans ((eff_condSet i w1).mono condTo_api)

theorem eff_markAll : ∀ (l : List Nat) (w : World), Eff apiUpd w (markAll l w).2.2
  | [], w => Eff.refl w
  | i :: is, w => by
    unfold markAll
    have h1 := eff_markOne i w
    split
    rename_i e w1 heq
    rw [heq] at h1
    have h2 := eff_markAll is w1
    split
    rename_i m anyErr w2 heq2
    rw [heq2] at h2
    exact h1.trans h2

theorem eff_untaintAll : ∀ (l : List Nat) (w : World), Eff (setsTaintTo false) w (untaintAll l w)
  | [], w => Eff.refl w
  | i :: is, w => by
    unfold untaintAll
    exact (eff_taintNode false i w).trans (eff_untaintAll is _)

theorem eff_clearAll : ∀ (l : List Nat) (w : World), Eff (setsCondTo false) w (clearAll l w)
  | [], w => Eff.refl w
  | i :: is, w => by
    unfold clearAll
    exact (eff_condClear i w).trans (eff_clearAll is _)

theorem eff_untaintAllE : ∀ (l : List Nat) (w : World), Eff (setsTaintTo false) w (untaintAllE l w).2
  | [], w => Eff.refl w
  | i :: is, w => by
    unfold untaintAllE
    have h1 := eff_taintNode false i w
    split
    rename_i e w1 heq
    rw [heq] at h1
    have h2 := eff_untaintAllE is w1
    split
    rename_i e' w2 heq2
    rw [heq2] at h2
    exact h1.trans h2

theorem eff_clearAllE : ∀ (l : List Nat) (w : World), Eff (setsCondTo false) w (clearAllE l w).2
  | [], w => Eff.refl w
  | i :: is, w => by
    unfold clearAllE
    have h1 := eff_condClear i w
    split
    rename_i e w1 heq
    rw [heq] at h1
    have h2 := eff_clearAllE is w1
    split
    rename_i e' w2 heq2
    rw [heq2] at h2
    exact h1.trans h2

theorem eff_delTry (ci : Nat) (snap : List RApi) : ∀ (n : Nat) (w : World), Eff setsDeleting w (delTry ci snap n w).2.2
  | 0, w => Eff.refl w
  | n + 1, w => by
    unfold delTry
    have h1 : Eff setsDeleting w (call w (.delNC ci)).2 := Eff.call1 w _
    split
    · rename_i w1 heq; rw [heq] at h1
      split
      · exact h1
      · exact Eff.upd ci _ rfl h1
    · rename_i w1 heq; rw [heq] at h1; exact h1
    · rename_i w1 heq; rw [heq] at h1
      split
      · exact h1
      · have h2 := eff_delTry ci snap n w1
        split
        rename_i e evs w2 heq2
        rw [heq2] at h2
        exact h1.trans h2

theorem eff_delAll (snap : List RApi) : ∀ (l : List Nat) (w : World), Eff setsDeleting w (delAll snap l w).2.2
  | [], w => Eff.refl w
  | ci :: cs, w => by
    unfold delAll
    have h1 := eff_delTry ci snap w.retrySteps w
    split
    rename_i e evs w1 heq
    rw [heq] at h1
    have h2 := eff_delAll snap cs w1
    split
    rename_i e' evs' w2 heq2
    rw [heq2] at h2
    exact h1.trans h2

/-! ### the Delete fan-out -/

theorem delTry_events (ci : Nat) (snap : List RApi) : ∀ (n : Nat) (w : World),
    ∀ e ∈ (delTry ci snap n w).2.1, e.repls = snap ∧ e.cand = ci
  | 0, w => by simp [delTry]
  | n + 1, w => by
    unfold delTry
    split
    · split <;> simp
    · simp
    · split
      · simp
      · rename_i w1 _ _
        have ih := delTry_events ci snap n w1
        split
        rename_i e evs w2 heq2
        rw [heq2] at ih
        intro e he
        simp only [List.mem_cons] at he
        rcases he with he | he
        · subst he; exact ⟨rfl, rfl⟩
        · exact ih e he

theorem delAll_events (snap : List RApi) : ∀ (l : List Nat) (w : World),
    ∀ e ∈ (delAll snap l w).2.1, e.repls = snap ∧ e.cand ∈ l
  | [], w => by simp [delAll]
  | ci :: cs, w => by
    unfold delAll
    have h1 := delTry_events ci snap w.retrySteps w
    split
    rename_i e evs w1 heq
    rw [heq] at h1
    have h2 := delAll_events snap cs w1
    split
    rename_i e' evs' w2 heq2
    rw [heq2] at h2
    intro x hx
    simp only [List.mem_append] at hx
    rcases hx with hx | hx
    · obtain ⟨a, b⟩ := h1 x hx; exact ⟨a, by simp [b]⟩
    · obtain ⟨a, b⟩ := h2 x hx; exact ⟨a, by simp [b]⟩

/-! ### the wait loop -/

/-- pointwise relation between two lists of the same length -/
inductive Rel2 {α β : Type} (R : α → β → Prop) : List α → List β → Prop
  | nil : Rel2 R [] []
  | cons {a b l₁ l₂} : R a b → Rel2 R l₁ l₂ → Rel2 R (a :: l₁) (b :: l₂)

theorem Rel2.refl' {α : Type} {R : α → α → Prop} (h : ∀ a, R a a) : ∀ l : List α, Rel2 R l l
  | [] => Rel2.nil
  | a :: t => Rel2.cons (h a) (Rel2.refl' h t)

/-- what a pass may do to a replacement record: nothing, or latch it because the API shows it Initialized -/
def Latch (r r' : Repl) : Prop := r' = r ∨ (r.api = .init ∧ r.latched = false ∧ r' = { r with latched := true })

def noUpd : (Cand → Cand) → Prop := fun _ => False

theorem waitLoop_spec (K : Nat) : ∀ (rs : List Repl) (i : Nat) (w : World),
    Rel2 Latch rs (waitLoop K rs i w).1 ∧
    ((waitLoop K rs i w).2.1 = .ready → ∀ r' ∈ (waitLoop K rs i w).1, r'.latched = true) ∧
    Eff noUpd w (waitLoop K rs i w).2.2
  | [], i, w => by simp [waitLoop, Eff.refl, Rel2.nil]
  | r :: rs, i, w => by
    unfold waitLoop
    split
    · -- already latched
      rename_i hl
      have ih := waitLoop_spec K rs (i + 1) w
      split
      rename_i rs' res w' heq
      rw [heq] at ih
      obtain ⟨h1, h2, h3⟩ := ih
      refine ⟨Rel2.cons (Or.inl rfl) h1, ?_, h3⟩
      intro hr r' hr'
      simp only [List.mem_cons] at hr'
      rcases hr' with e | e
      · subst e; exact hl
      · exact h2 hr r' e
    · rename_i hl
      have hc : Eff noUpd w (call w (.getRepl K i)).2 := Eff.call1 w _
      split
      rename_i o w1 heq
      rw [heq] at hc
      have ih := waitLoop_spec K rs (i + 1) w1
      split
      · -- injected error: keep waiting
        split
        rename_i rs' res w' heq2
        rw [heq2] at ih
        obtain ⟨h1, h2, h3⟩ := ih
        refine ⟨Rel2.cons (Or.inl rfl) h1, ?_, hc.trans h3⟩
        intro hr; cases res <;> simp [WaitRes.andWaiting] at hr
      · split
        · split
          · -- gone
            refine ⟨?_, by simp, hc⟩
            exact Rel2.cons (Or.inl rfl) (Rel2.refl' (R := Latch) (fun _ => Or.inl rfl) rs)
          · split
            rename_i rs' res w' heq2
            rw [heq2] at ih
            obtain ⟨h1, h2, h3⟩ := ih
            refine ⟨Rel2.cons (Or.inl rfl) h1, ?_, hc.trans h3⟩
            intro hr; cases res <;> simp [WaitRes.andWaiting] at hr
        · split
          · -- Initialized: latch
            rename_i hinit
            split
            rename_i rs' res w' heq2
            rw [heq2] at ih
            obtain ⟨h1, h2, h3⟩ := ih
            refine ⟨Rel2.cons (Or.inr ⟨hinit, by simpa using hl, rfl⟩) h1, ?_, hc.trans h3⟩
            intro hr r' hr'
            simp only [List.mem_cons] at hr'
            rcases hr' with e | e
            · subst e; rfl
            · exact h2 hr r' e
          · split
            rename_i rs' res w' heq2
            rw [heq2] at ih
            obtain ⟨h1, h2, h3⟩ := ih
            refine ⟨Rel2.cons (Or.inl rfl) h1, ?_, hc.trans h3⟩
            intro hr; cases res <;> simp [WaitRes.andWaiting] at hr


theorem Rel2.pres {α : Type} {R : α → α → Prop} {P : α → Prop} (hR : ∀ a b, R a b → P a → P b) :
    ∀ {l l' : List α}, Rel2 R l l' → (∀ a ∈ l, P a) → ∀ b ∈ l', P b := by
  intro l l' h
  induction h with
  | nil => simp
  | cons hab _ ih =>
    intro hl b hb
    simp only [List.mem_cons] at hb
    rcases hb with e | e
    · subst e; exact hR _ _ hab (hl _ (by simp))
    · exact ih (fun a ha => hl a (by simp [ha])) b e

theorem latch_map_api : ∀ {rs rs' : List Repl}, Rel2 Latch rs rs' → rs'.map (·.api) = rs.map (·.api) := by
  intro rs rs' h
  induction h with
  | nil => rfl
  | cons hab _ ih =>
    simp only [List.map_cons, ih]
    rcases hab with e | ⟨_, _, e⟩ <;> simp [e]

theorem latch_ready : ∀ {rs rs' : List Repl}, Rel2 Latch rs rs' → (∀ r' ∈ rs', r'.latched = true) →
    ∀ r ∈ rs, r.latched = true ∨ r.api = .init := by
  intro rs rs' h
  induction h with
  | nil => simp
  | cons hab _ ih =>
    intro hl r hr
    simp only [List.mem_cons] at hr
    rcases hr with e | e
    · subst e
      rcases hab with e' | ⟨hi, _, _⟩
      · left; have := hl _ (List.mem_cons_self); rw [e'] at this; exact this
      · right; exact hi
    · exact ih (fun r' h' => hl r' (by simp [h'])) r e

theorem mem_updAt' {α : Type} {l : List α} {i : Nat} {f : α → α} {x : α} (h : x ∈ updAt l i f) :
    x ∈ l ∨ ∃ y, l[i]? = some y ∧ x = f y := by
  induction l generalizing i with
  | nil => simp [updAt] at h
  | cons a t ih =>
    cases i with
    | zero =>
      simp only [updAt, List.mem_cons] at h
      rcases h with h | h
      · exact Or.inr ⟨a, by simp, h⟩
      · exact Or.inl (by simp [h])
    | succ i =>
      simp only [updAt, List.mem_cons] at h
      rcases h with h | h
      · exact Or.inl (by simp [h])
      · rcases ih h with h' | ⟨y, hy, e⟩
        · exact Or.inl (by simp [h'])
        · exact Or.inr ⟨y, by simpa using hy, e⟩

theorem cmdAt_of_getElem? {w : World} {k : Nat} {c : Cmd} (h : w.cmds[k]? = some c) : cmdAt w k = c := by
  simp [cmdAt, h]

theorem cmdAt_mem {w : World} {k : Nat} (h : k < w.cmds.length) : cmdAt w k ∈ w.cmds := by
  unfold cmdAt
  rw [List.getElem?_eq_getElem h]
  simp

/-! ### foldl of candidate updates -/

theorem foldl_setCand_frame (f : Cand → Cand) : ∀ (l : List Nat) (w : World),
    (l.foldl (fun w i => setCand w i f) w).cmds = w.cmds ∧
    (l.foldl (fun w i => setCand w i f) w).cands.length = w.cands.length ∧
    (l.foldl (fun w i => setCand w i f) w).now = w.now ∧
    (l.foldl (fun w i => setCand w i f) w).mode = w.mode ∧
    (l.foldl (fun w i => setCand w i f) w).retrySteps = w.retrySteps
  | [], w => by simp
  | i :: is, w => by
    simp only [List.foldl_cons]
    obtain ⟨h1, h2, h3, h4, h5⟩ := foldl_setCand_frame f is (setCand w i f)
    exact ⟨h1, by simp [h2], h3, h4, h5⟩

/-- after the fold every listed candidate has been updated (for an idempotent update), the others are untouched -/
theorem foldl_setCand_at (f : Cand → Cand) (hf : ∀ c, f (f c) = f c) : ∀ (l : List Nat) (w : World) (j : Nat),
    candAt (l.foldl (fun w i => setCand w i f) w) j =
      if j ∈ l ∧ j < w.cands.length then f (candAt w j) else candAt w j
  | [], w, j => by simp
  | i :: is, w, j => by
    simp only [List.foldl_cons]
    rw [foldl_setCand_at f hf is (setCand w i f) j, candAt_setCand]
    simp only [setCand_length, List.mem_cons]
    by_cases hji : j = i
    · subst hji
      by_cases hl : j < w.cands.length
      · by_cases hm : j ∈ is <;> simp [hl, hm, hf]
      · simp [hl]
    · simp [hji]


/-- the possible courses of a queue pass -/
inductive Course (ci : Nat) (w : World) : Res × List DelEvent × World → Prop
  | nocmd : (candAt w ci).owner = none → Course ci w (.nocmd, [], w)
  | gone (K repls' w1) : (candAt w ci).owner = some K →
      waitLoop K (cmdAt w K).repls 0 w = (repls', .gone, w1) →
      Course ci w (.failed, [], failCommand K (setCmd w1 K (fun c => { c with repls := repls' })))
  | stalled (K repls' w1) : (candAt w ci).owner = some K →
      waitLoop K (cmdAt w K).repls 0 w = (repls', .waiting, w1) → timedOut w (cmdAt w K) = true →
      Course ci w (.failed, [], failCommand K (setCmd w1 K (fun c => { c with repls := repls' })))
  | waiting (K repls' w1) : (candAt w ci).owner = some K →
      waitLoop K (cmdAt w K).repls 0 w = (repls', .waiting, w1) → timedOut w (cmdAt w K) = false →
      Course ci w (.requeue, [], setCmd w1 K (fun c => { c with repls := repls' }))
  | late (K repls' w1 delErr evs w3) : (candAt w ci).owner = some K →
      waitLoop K (cmdAt w K).repls 0 w = (repls', .ready, w1) →
      delAll (repls'.map (·.api)) (cmdAt w K).live (setCmd w1 K (fun c => { c with repls := repls' })) = (delErr, evs, w3) →
      failsLate w.mode (timedOut w (cmdAt w K)) delErr = true →
      Course ci w (.failed, evs, failCommand K (setCmd w3 K (fun c => { c with issued := c.issued || !evs.isEmpty })))
  | delRetry (K repls' w1 evs w3) : (candAt w ci).owner = some K →
      waitLoop K (cmdAt w K).repls 0 w = (repls', .ready, w1) →
      delAll (repls'.map (·.api)) (cmdAt w K).live (setCmd w1 K (fun c => { c with repls := repls' })) = (true, evs, w3) →
      failsLate w.mode (timedOut w (cmdAt w K)) true = false →
      Course ci w (.requeue, evs, setCmd w3 K (fun c => { c with issued := c.issued || !evs.isEmpty }))
  | done (K repls' w1 evs w3) : (candAt w ci).owner = some K →
      waitLoop K (cmdAt w K).repls 0 w = (repls', .ready, w1) →
      delAll (repls'.map (·.api)) (cmdAt w K).live (setCmd w1 K (fun c => { c with repls := repls' })) = (false, evs, w3) →
      failsLate w.mode (timedOut w (cmdAt w K)) false = false →
      Course ci w (.succeeded, evs, succeedCommand K (setCmd w3 K (fun c => { c with issued := c.issued || !evs.isEmpty })))

theorem reconcileCand_course (ci : Nat) (w : World) : Course ci w (reconcileCand ci w) := by
  unfold reconcileCand
  split
  · rename_i h; exact Course.nocmd h
  · rename_i K hK
    split
    rename_i repls' wres w1 heq
    cases wres with
    | gone => exact Course.gone K repls' w1 hK heq
    | waiting =>
      simp only
      split
      · rename_i ht; exact Course.stalled K repls' w1 hK heq ht
      · rename_i ht; exact Course.waiting K repls' w1 hK heq (by simpa using ht)
    | ready =>
      generalize heq3 : delAll (repls'.map (·.api)) (cmdAt w K).live (setCmd w1 K (fun c => { c with repls := repls' })) = dl
      obtain ⟨delErr, evs, w3⟩ := dl
      simp only
      split
      · rename_i hf; exact Course.late K repls' w1 delErr evs w3 hK heq heq3 hf
      · rename_i hf
        split
        · rename_i hd; subst hd; exact Course.delRetry K repls' w1 evs w3 hK heq heq3 (by simpa using hf)
        · rename_i hd
          have hd' : delErr = false := by simpa using hd
          subst hd'
          exact Course.done K repls' w1 evs w3 hK heq heq3 (by simpa using hf)

theorem noUpd_api : ∀ f, noUpd f → apiUpd f := fun _ h => h.elim

/-- Delete calls of a pass: issued for a live candidate of the acting command, with the replacements' API states as
    snapshot, and only when every replacement is latched or reports Initialized -/
theorem course_events {ci : Nat} {w : World} {out : Res × List DelEvent × World} (h : Course ci w out) :
    ∀ e ∈ out.2.1, ∃ K, (candAt w ci).owner = some K ∧ e.cand ∈ (cmdAt w K).live ∧
      e.repls = (cmdAt w K).repls.map (·.api) ∧
      ∀ r ∈ (cmdAt w K).repls, r.latched = true ∨ r.api = .init := by
  have key : ∀ (K : Nat) (repls' : List Repl) (w1 : World) (delErr : Bool) (evs : List DelEvent) (w3 : World),
      (candAt w ci).owner = some K →
      waitLoop K (cmdAt w K).repls 0 w = (repls', .ready, w1) →
      delAll (repls'.map (·.api)) (cmdAt w K).live (setCmd w1 K (fun c => { c with repls := repls' })) = (delErr, evs, w3) →
      ∀ e ∈ evs, ∃ K, (candAt w ci).owner = some K ∧ e.cand ∈ (cmdAt w K).live ∧
        e.repls = (cmdAt w K).repls.map (·.api) ∧ ∀ r ∈ (cmdAt w K).repls, r.latched = true ∨ r.api = .init := by
    intro K repls' w1 delErr evs w3 hK hw hd e he
    have hs := waitLoop_spec K (cmdAt w K).repls 0 w
    rw [hw] at hs
    obtain ⟨h1, h2, _⟩ := hs
    have hev := delAll_events (repls'.map (·.api)) (cmdAt w K).live (setCmd w1 K (fun c => { c with repls := repls' }))
    rw [hd] at hev
    obtain ⟨ha, hb⟩ := hev e he
    exact ⟨K, hK, hb, by rw [ha, latch_map_api h1], latch_ready h1 (h2 rfl)⟩
  cases h with
  | nocmd _ => simp
  | gone => simp
  | stalled => simp
  | waiting => simp
  | late K repls' w1 delErr evs w3 hK hw hd _ => exact key K repls' w1 delErr evs w3 hK hw hd
  | delRetry K repls' w1 evs w3 hK hw hd _ => exact key K repls' w1 true evs w3 hK hw hd
  | done K repls' w1 evs w3 hK hw hd _ => exact key K repls' w1 false evs w3 hK hw hd

/-! ### completing a command -/

def release : Cand → Cand := fun c => { c with mark := false, owner := none }
def dequeue : Cand → Cand := fun c => { c with owner := none }

theorem failCommand_eq (K : Nat) (w : World) :
    failCommand K w = ((cmdAt w K).live).foldl (fun w i => setCand w i release)
      (clearAll (cmdAt w K).live (untaintAll (cmdAt w K).live w)) := rfl

theorem eff_rollback (l : List Nat) (w : World) : Eff apiUpd w (clearAll l (untaintAll l w)) :=
  ((eff_untaintAll l w).mono taintTo_api).trans ((eff_clearAll l _).mono condTo_api)

theorem failCommand_cmds (K : Nat) (w : World) : (failCommand K w).cmds = w.cmds := by
  rw [failCommand_eq, (foldl_setCand_frame release _ _).1, (eff_rollback _ w).frame.1]

theorem failCommand_length (K : Nat) (w : World) : (failCommand K w).cands.length = w.cands.length := by
  rw [failCommand_eq, (foldl_setCand_frame release _ _).2.1, (eff_rollback _ w).frame.2.2.2.2.2.2]

/-- the in-memory part of the rollback: live candidates leave the queue and are unmarked; nobody else is touched -/
theorem failCommand_owner_mark (K : Nat) (w : World) (j : Nat) :
    ((candAt (failCommand K w) j).owner = if j ∈ (cmdAt w K).live ∧ j < w.cands.length then none else (candAt w j).owner) ∧
    ((candAt (failCommand K w) j).mark = if j ∈ (cmdAt w K).live ∧ j < w.cands.length then false else (candAt w j).mark) := by
  have he := eff_rollback (cmdAt w K).live w
  rw [failCommand_eq, foldl_setCand_at release (fun _ => rfl), he.frame.2.2.2.2.2.2]
  have ho := he.field (·.owner) apiUpd_owner j
  have hm := he.field (·.mark) apiUpd_mark j
  split
  · exact ⟨rfl, rfl⟩
  · exact ⟨ho, hm⟩

theorem succeedCommand_eq (K : Nat) (w : World) :
    succeedCommand K w = ((cmdAt w K).live).foldl (fun w i => setCand w i dequeue)
      (setCmd w K (fun c => { c with succeeded := true })) := rfl

theorem succeedCommand_cand (K : Nat) (w : World) (j : Nat) :
    candAt (succeedCommand K w) j =
      if j ∈ (cmdAt w K).live ∧ j < w.cands.length then dequeue (candAt w j) else candAt w j := by
  rw [succeedCommand_eq, foldl_setCand_at dequeue (fun _ => rfl)]
  rfl


theorem cmdAt_congr {w' w : World} (hc : w'.cmds = w.cmds) (K : Nat) : cmdAt w' K = cmdAt w K := by
  simp [cmdAt, hc]

/-- the queue entries, the deletion marks and the live-candidate lists are the same in both worlds -/
structure Keep (w w' : World) : Prop where
  len : w'.cands.length = w.cands.length
  owner : ∀ j, (candAt w' j).owner = (candAt w j).owner
  mark : ∀ j, (candAt w' j).mark = (candAt w j).mark
  gone : ∀ j, (candAt w' j).gone = (candAt w j).gone
  live : ∀ K, (cmdAt w' K).live = (cmdAt w K).live

theorem Keep.refl (w : World) : Keep w w := ⟨rfl, fun _ => rfl, fun _ => rfl, fun _ => rfl, fun _ => rfl⟩

theorem Keep.trans {a b c : World} (h1 : Keep a b) (h2 : Keep b c) : Keep a c :=
  ⟨h2.len.trans h1.len, fun j => (h2.owner j).trans (h1.owner j), fun j => (h2.mark j).trans (h1.mark j),
   fun j => (h2.gone j).trans (h1.gone j), fun K => (h2.live K).trans (h1.live K)⟩

theorem keep_eff {w w' : World} (h : Eff apiUpd w w') : Keep w w' :=
  ⟨h.frame.2.2.2.2.2.2, h.field (·.owner) apiUpd_owner, h.field (·.mark) apiUpd_mark, h.field (·.gone) apiUpd_gone,
   fun K => by rw [cmdAt_congr h.frame.1]⟩

theorem keep_setCmd (w : World) (K : Nat) (f : Cmd → Cmd) (hf : ∀ c, (f c).live = c.live) : Keep w (setCmd w K f) := by
  refine ⟨rfl, fun _ => rfl, fun _ => rfl, fun _ => rfl, fun K' => ?_⟩
  rw [cmdAt_setCmd]
  split
  · exact hf _
  · rfl

theorem keep_wait {K : Nat} {rs repls' : List Repl} {i : Nat} {w w1 : World} {r : WaitRes}
    (h : waitLoop K rs i w = (repls', r, w1)) : Keep w w1 := by
  have := (waitLoop_spec K rs i w).2.2
  rw [h] at this
  exact keep_eff (this.mono noUpd_api)

theorem keep_del {snap : List RApi} {l : List Nat} {w w3 : World} {e : Bool} {evs : List DelEvent}
    (h : delAll snap l w = (e, evs, w3)) : Keep w w3 := by
  have := eff_delAll snap l w
  rw [h] at this
  exact keep_eff (this.mono deleting_api)

theorem fail_shape {w w' : World} (K : Nat) (hk : Keep w w') (j : Nat) :
    ((candAt (failCommand K w') j).owner =
        if j ∈ (cmdAt w K).live ∧ j < w.cands.length then none else (candAt w j).owner) ∧
    ((candAt (failCommand K w') j).mark =
        if j ∈ (cmdAt w K).live ∧ j < w.cands.length then false else (candAt w j).mark) := by
  have h := failCommand_owner_mark K w' j
  rw [hk.live, hk.len, hk.owner, hk.mark] at h
  exact h

theorem succeed_shape {w w' : World} (K : Nat) (hk : Keep w w') (j : Nat) :
    ((candAt (succeedCommand K w') j).owner =
        if j ∈ (cmdAt w K).live ∧ j < w.cands.length then none else (candAt w j).owner) ∧
    ((candAt (succeedCommand K w') j).mark = (candAt w j).mark) := by
  have h := succeedCommand_cand K w' j
  rw [hk.live, hk.len] at h
  rw [h]
  split
  · exact ⟨rfl, hk.mark j⟩
  · exact ⟨hk.owner j, hk.mark j⟩

/-- queue entries and deletion marks across a pass: only a completing pass changes them, and only for the live candidates
    of the acting command — a failing pass releases and unmarks them, a succeeding pass releases them -/
theorem course_owner_mark {ci : Nat} {w : World} {out : Res × List DelEvent × World} (h : Course ci w out) (j : Nat) :
    (out.1 ≠ .failed ∧ out.1 ≠ .succeeded ∧
        (candAt out.2.2 j).owner = (candAt w j).owner ∧ (candAt out.2.2 j).mark = (candAt w j).mark) ∨
    (∃ K, (candAt w ci).owner = some K ∧
      (candAt out.2.2 j).owner = (if j ∈ (cmdAt w K).live ∧ j < w.cands.length then none else (candAt w j).owner) ∧
      ((out.1 = .failed ∧
          (candAt out.2.2 j).mark = (if j ∈ (cmdAt w K).live ∧ j < w.cands.length then false else (candAt w j).mark)) ∨
       (out.1 = .succeeded ∧ (candAt out.2.2 j).mark = (candAt w j).mark))) := by
  cases h with
  | nocmd _ => left; simp
  | gone K repls' w1 hK hw =>
    right
    obtain ⟨a, b⟩ := fail_shape K ((keep_wait hw).trans (keep_setCmd w1 K (fun c => { c with repls := repls' }) (fun _ => rfl))) j
    exact ⟨K, hK, a, Or.inl ⟨rfl, b⟩⟩
  | stalled K repls' w1 hK hw _ =>
    right
    obtain ⟨a, b⟩ := fail_shape K ((keep_wait hw).trans (keep_setCmd w1 K (fun c => { c with repls := repls' }) (fun _ => rfl))) j
    exact ⟨K, hK, a, Or.inl ⟨rfl, b⟩⟩
  | waiting K repls' w1 hK hw _ =>
    left
    have hk := (keep_wait hw).trans (keep_setCmd w1 K (fun c => { c with repls := repls' }) (fun _ => rfl))
    exact ⟨by simp, by simp, hk.owner j, hk.mark j⟩
  | late K repls' w1 delErr evs w3 hK hw hd _ =>
    right
    have hk := (((keep_wait hw).trans (keep_setCmd w1 K (fun c => { c with repls := repls' }) (fun _ => rfl))).trans (keep_del hd)).trans
      (keep_setCmd w3 K (fun c => { c with issued := c.issued || !evs.isEmpty }) (fun _ => rfl))
    obtain ⟨a, b⟩ := fail_shape K hk j
    exact ⟨K, hK, a, Or.inl ⟨rfl, b⟩⟩
  | delRetry K repls' w1 evs w3 hK hw hd _ =>
    left
    have hk := (((keep_wait hw).trans (keep_setCmd w1 K (fun c => { c with repls := repls' }) (fun _ => rfl))).trans (keep_del hd)).trans
      (keep_setCmd w3 K (fun c => { c with issued := c.issued || !evs.isEmpty }) (fun _ => rfl))
    exact ⟨by simp, by simp, hk.owner j, hk.mark j⟩
  | done K repls' w1 evs w3 hK hw hd _ =>
    right
    have hk := (((keep_wait hw).trans (keep_setCmd w1 K (fun c => { c with repls := repls' }) (fun _ => rfl))).trans (keep_del hd)).trans
      (keep_setCmd w3 K (fun c => { c with issued := c.issued || !evs.isEmpty }) (fun _ => rfl))
    obtain ⟨a, b⟩ := succeed_shape K hk j
    exact ⟨K, hK, a, Or.inr ⟨rfl, b⟩⟩


/-! ### `StartCommand` -/

/-- queue entries and deletion marks of every candidate agree -/
structure KeepC (w w' : World) : Prop where
  len : w'.cands.length = w.cands.length
  owner : ∀ j, (candAt w' j).owner = (candAt w j).owner
  mark : ∀ j, (candAt w' j).mark = (candAt w j).mark
  gone : ∀ j, (candAt w' j).gone = (candAt w j).gone

theorem KeepC.refl (w : World) : KeepC w w := ⟨rfl, fun _ => rfl, fun _ => rfl, fun _ => rfl⟩
theorem KeepC.trans {a b c : World} (h1 : KeepC a b) (h2 : KeepC b c) : KeepC a c :=
  ⟨h2.len.trans h1.len, fun j => (h2.owner j).trans (h1.owner j), fun j => (h2.mark j).trans (h1.mark j),
   fun j => (h2.gone j).trans (h1.gone j)⟩
theorem Keep.toC {w w' : World} (h : Keep w w') : KeepC w w' := ⟨h.len, h.owner, h.mark, h.gone⟩
theorem keepC_of_cands {w w' : World} (h : w'.cands = w.cands) : KeepC w w' :=
  ⟨by rw [h], fun j => by simp [candAt, h], fun j => by simp [candAt, h], fun j => by simp [candAt, h]⟩

theorem call_snd_cands {w w2 : World} {k : Key} {o : Outcome} (h : call w k = (o, w2)) : w2.cands = w.cands := by
  rw [← show (call w k).2 = w2 from by rw [h]]; rfl

theorem createOne_cands (k i : Nat) (w : World) : (createOne k i w).2.cands = w.cands := by
  unfold createOne
  split
  · rename_i w1 h1
    have e1 := call_snd_cands h1
    split
    · exact e1
    · split
      · rename_i w2 h2; exact (call_snd_cands h2).trans e1
      · rename_i w2 _ h2; exact (call_snd_cands h2).trans e1
  · rename_i w1 _ h1; exact call_snd_cands h1

theorem createAll_cands (k : Nat) : ∀ (n i : Nat) (w : World), (createAll k n i w).2.cands = w.cands
  | 0, _, _ => rfl
  | n + 1, i, w => by
    unfold createAll
    have h1 := createOne_cands k i w
    split
    rename_i e w1 heq
    rw [heq] at h1
    have h2 := createAll_cands k n (i + 1) w1
    split
    rename_i e' w2 heq2
    rw [heq2] at h2
    exact h2.trans h1

theorem markAll_subset : ∀ (l : List Nat) (w : World), ∀ j ∈ (markAll l w).1, j ∈ l
  | [], w => by simp [markAll]
  | i :: is, w => by
    unfold markAll
    split
    rename_i e w1 _
    have ih := markAll_subset is w1
    split
    rename_i m anyErr w2 heq2
    rw [heq2] at ih
    intro j hj
    simp only at hj
    split at hj
    · exact List.mem_cons_of_mem _ (ih j hj)
    · simp only [List.mem_cons] at hj
      rcases hj with e | e
      · simp [e]
      · exact List.mem_cons_of_mem _ (ih j e)

def enqueue (k : Nat) : Cand → Cand := fun c => { c with mark := true, owner := some k }

/-- how an attempted start changes the queue entries and the deletion marks:
    a rejected start changes neither; an accepted start of `k` files (and marks) only candidates of `k`, and only
    if none of `k`'s candidates was in the queue -/
theorem startCommand_owner_mark (k : Nat) (via : Bool) (w : World) :
    ((startCommand k via w).1 ≠ .ok ∧ KeepC w (startCommand k via w).2) ∨
    ((startCommand k via w).1 = .ok ∧ k < w.cmds.length ∧
      (∀ i ∈ (cmdAt w k).cands, (candAt w i).owner = none ∧ (candAt w i).gone = false) ∧
      (startCommand k via w).2.cands.length = w.cands.length ∧
      ∀ j, ((candAt (startCommand k via w).2 j).owner = (candAt w j).owner ∧
              (candAt (startCommand k via w).2 j).mark = (candAt w j).mark) ∨
           (j ∈ (cmdAt w k).cands ∧ (candAt (startCommand k via w).2 j).owner = some k ∧
              (candAt (startCommand k via w).2 j).mark = true)) := by
  unfold startCommand
  simp only
  split
  · exact Or.inl ⟨by simp, KeepC.refl w⟩
  · rename_i hk
    split
    · exact Or.inl ⟨by simp, KeepC.refl w⟩
    · rename_i hgone
      split
      · exact Or.inl ⟨by simp, KeepC.refl w⟩
      · split
        · exact Or.inl ⟨by simp, (keep_setCmd w k (fun c => { c with started := true, createdAt := w.now }) (fun _ => rfl)).toC⟩
        · rename_i hbusy
          generalize hm : markAll (cmdAt w k).cands (setCmd w k fun c => { c with started := true, createdAt := w.now }) = ma
          obtain ⟨marked, anyErr, w1⟩ := ma
          have hk0 : Keep w (setCmd w k fun c => { c with started := true, createdAt := w.now }) :=
            keep_setCmd w k (fun c => { c with started := true, createdAt := w.now }) (fun _ => rfl)
          have hk1 : KeepC w w1 := by
            have := eff_markAll (cmdAt w k).cands (setCmd w k fun c => { c with started := true, createdAt := w.now })
            rw [hm] at this
            exact (hk0.trans (keep_eff this)).toC
          have hsub : ∀ j ∈ marked, j ∈ (cmdAt w k).cands := by
            have := markAll_subset (cmdAt w k).cands (setCmd w k fun c => { c with started := true, createdAt := w.now })
            rw [hm] at this
            exact this
          simp only
          split
          · exact Or.inl ⟨by simp, hk1⟩
          · generalize hc : createAll k (cmdAt w k).repls.length 0 (setCmd w1 k fun c => { c with live := marked }) = ca
            obtain ⟨ce, w3⟩ := ca
            have hk3 : KeepC w w3 := by
              have := createAll_cands k (cmdAt w k).repls.length 0 (setCmd w1 k fun c => { c with live := marked })
              rw [hc] at this
              exact hk1.trans (keepC_of_cands (by simpa using this))
            cases ce with
            | true => exact Or.inl ⟨by simp, hk3⟩
            | false =>
              right
              simp only
              have hlt : k < w.cmds.length := by
                simp only [ge_iff_le, Bool.or_eq_true, decide_eq_true_eq, not_or, Nat.not_le] at hk
                exact hk.1
              have hfree : ∀ i ∈ (cmdAt w k).cands, (candAt w i).owner = none ∧ (candAt w i).gone = false := by
                intro i hi
                simp only [List.any_eq_true, not_exists, not_and, Bool.not_eq_true] at hbusy hgone
                have := hbusy i hi
                exact ⟨by simpa [owned] using this, hgone i hi⟩
              refine ⟨trivial, hlt, hfree, ?_, fun j => ?_⟩
              · rw [(foldl_setCand_frame _ _ _).2.1]; simpa using hk3.len
              · have hat := foldl_setCand_at (enqueue k) (fun _ => rfl) marked
                  (setCmd w3 k fun c => { c with repls := c.repls.map fun r => { r with named := true } }) j
                have hfold : (fun w i => setCand w i fun c => { c with mark := true, owner := some k }) =
                      (fun w i => setCand w i (enqueue k)) := rfl
                rw [hfold]
                simp only [setCmd_cands, candAt_setCmd] at hat
                by_cases hj : j ∈ marked ∧ j < w3.cands.length
                · have e := hat
                  simp only [hj, and_self, if_true] at e
                  rw [e]
                  exact Or.inr ⟨hsub j hj.1, rfl, rfl⟩
                · have e := hat
                  simp only [hj, if_false] at e
                  rw [e]
                  exact Or.inl ⟨hk3.owner j, hk3.mark j⟩


/-! ### a quiet fault plan: no fault applies to any call from now on -/

def Quiet (w : World) : Prop := ∀ k n, countOf w.counts k ≤ n → faultAt w.faults k n = none

theorem countOf_bump_ge (cs : List (Key × Nat)) (k k' : Key) : countOf cs k' ≤ countOf (bump cs k) k' := by
  induction cs with
  | nil =>
    simp only [bump, countOf]
    split <;> simp
  | cons a t ih =>
    obtain ⟨k0, n⟩ := a
    simp only [bump]
    by_cases h : k0 = k
    · subst h
      simp only [if_true, countOf]
      split <;> simp
    · simp only [h, if_false, countOf]
      split
      · exact Nat.le_refl _
      · exact ih

theorem quiet_call {w : World} (h : Quiet w) (k : Key) : (call w k).1 = .ok ∧ Quiet (call w k).2 := by
  constructor
  · show callOutcome w k = .ok
    unfold callOutcome
    rw [h k _ (Nat.le_refl _)]
  · intro k' n hn
    exact h k' n (Nat.le_trans (countOf_bump_ge w.counts k k') hn)

theorem quiet_setCand {w : World} (h : Quiet w) (i : Nat) (f : Cand → Cand) : Quiet (setCand w i f) := h

theorem quiet_eff {F} {w w' : World} (he : Eff F w w') (h : Quiet w) : Quiet w' :=
  Eff.pres (P := Quiet) (fun _ k h => (quiet_call h k).2) (fun _ i f _ h => quiet_setCand h i f) he h

theorem call_eq_ok {w : World} (h : Quiet w) (k : Key) : call w k = (.ok, (call w k).2) := by
  have := (quiet_call h k).1
  exact Prod.ext this rfl

theorem retry_ok (n : Nat) (body : World → Outcome × World) (w : World) (h : (body w).1 = .ok) :
    retry (n + 1) body w = body w := by
  unfold retry
  split
  · rename_i w' heq; rw [heq] at h; cases h
  · rfl

theorem retry_noerr (n : Nat) (body : World → Outcome × World) (w : World) (h : (body w).1 ≠ .err) :
    retry (n + 1) body w = body w := by
  unfold retry
  split
  · rename_i w' heq; rw [heq] at h; exact absurd rfl h
  · rfl

theorem candAt_call (w : World) (k : Key) (i : Nat) : candAt (call w k).2 i = candAt w i := rfl

/-- under a quiet plan `RequireNoScheduleTaint(…, false)` reports no error and removes the taint of a node that still
    exists (for a node that is gone the Get answers NotFound, which is not an error) -/
theorem untaint_quiet {w : World} (hq : Quiet w) (hr : 0 < w.retrySteps) (i : Nat) :
    (taintNode false i w).1 = false ∧
      ((candAt w i).gone = false → (candAt (taintNode false i w).2 i).taint = false) := by
  obtain ⟨n, hn⟩ : ∃ n, w.retrySteps = n + 1 := ⟨w.retrySteps - 1, by omega⟩
  have hatt : (taintAttempt false i w).1 ≠ .err ∧
      ((candAt w i).gone = false → (candAt (taintAttempt false i w).2 i).taint = false) := by
    unfold taintAttempt
    rw [call_eq_ok hq]
    simp only
    split
    · rename_i hg
      rw [candAt_call] at hg
      exact ⟨by simp, fun h => by rw [h] at hg; cases hg⟩
    · split
      · rename_i ht; exact ⟨by simp, fun _ => ht⟩
      · have hq1 := (quiet_call hq (.getNode i)).2
        rw [call_eq_ok hq1]
        simp only
        refine ⟨by simp, fun _ => ?_⟩
        rw [candAt_setCand]
        split
        · rfl
        · rename_i ht hn
          -- out of range: the default candidate carries no taint
          have : ¬ i < (call (call w (.getNode i)).2 (.patchNode i)).2.cands.length := by simpa using hn
          simp [candAt, List.getElem?_eq_none (Nat.le_of_not_lt this)]
  unfold taintNode
  rw [hn, retry_noerr n _ w hatt.1]
  generalize taintAttempt false i w = r at hatt
  obtain ⟨o, w'⟩ := r
  simp only at hatt
  obtain ⟨ho, ht⟩ := hatt
  cases o with
  | err => exact absurd rfl ho
  | ok => exact ⟨rfl, ht⟩
  | notFound => exact ⟨rfl, ht⟩

theorem clear_quiet {w : World} (hq : Quiet w) (hr : 0 < w.retrySteps) (i : Nat) :
    (condClear i w).1 = false ∧
      ((candAt w i).gone = false → (candAt (condClear i w).2 i).cond = false) := by
  obtain ⟨n, hn⟩ : ∃ n, w.retrySteps = n + 1 := ⟨w.retrySteps - 1, by omega⟩
  have hatt : (condClearAttempt i w).1 ≠ .err ∧
      ((candAt w i).gone = false → (candAt (condClearAttempt i w).2 i).cond = false) := by
    unfold condClearAttempt
    rw [call_eq_ok hq]
    simp only
    split
    · rename_i hg
      rw [candAt_call] at hg
      exact ⟨by simp, fun h => by rw [h] at hg; cases hg⟩
    · split
      · rename_i ht; exact ⟨by simp, fun _ => ht⟩
      · have hq1 := (quiet_call hq (.getNC i)).2
        rw [call_eq_ok hq1]
        simp only
        refine ⟨by simp, fun _ => ?_⟩
        rw [candAt_setCand]
        split
        · rfl
        · rename_i ht hn
          have : ¬ i < (call (call w (.getNC i)).2 (.statusNC i)).2.cands.length := by simpa using hn
          simp [candAt, List.getElem?_eq_none (Nat.le_of_not_lt this)]
  unfold condClear
  rw [hn, retry_noerr n _ w hatt.1]
  generalize condClearAttempt i w = r at hatt
  obtain ⟨o, w'⟩ := r
  simp only at hatt
  obtain ⟨ho, ht⟩ := hatt
  cases o with
  | err => exact absurd rfl ho
  | ok => exact ⟨rfl, ht⟩
  | notFound => exact ⟨rfl, ht⟩


/-! ### the cleanup pass -/

def tcUpd (f : Cand → Cand) : Prop := (∃ b, setsTaintTo b f) ∨ (∃ b, setsCondTo b f)
theorem taintTo_tc {b : Bool} : ∀ f, setsTaintTo b f → tcUpd f := fun _ h => Or.inl ⟨b, h⟩
theorem condTo_tc {b : Bool} : ∀ f, setsCondTo b f → tcUpd f := fun _ h => Or.inr ⟨b, h⟩
theorem tc_api : ∀ f, tcUpd f → apiUpd f := fun _ h => h.elim Or.inl (fun h => Or.inr (Or.inl h))
theorem tcUpd_deleting (f : Cand → Cand) (h : tcUpd f) (c : Cand) : (f c).deleting = c.deleting := by
  rcases h with ⟨b, h⟩ | ⟨b, h⟩ <;> (subst h; rfl)

theorem eff_cleanup (w : World) : Eff tcUpd w (cleanup w).2 := by
  unfold cleanup
  split
  · exact Eff.refl w
  · simp only
    have h1 := (eff_untaintAllE (outdatedFrom w.cands 0) w).mono taintTo_tc
    generalize untaintAllE (outdatedFrom w.cands 0) w = r1 at h1
    obtain ⟨e1, w1⟩ := r1
    cases e1 with
    | true => exact h1
    | false =>
      simp only
      have h2 := (eff_clearAllE (outdatedFrom w.cands 0) w1).mono condTo_tc
      generalize clearAllE (outdatedFrom w.cands 0) w1 = r2 at h2
      obtain ⟨e2, w2⟩ := r2
      cases e2 <;> exact h1.trans h2

theorem untaintAllE_quiet : ∀ (l : List Nat) (w : World), Quiet w → 0 < w.retrySteps →
    (untaintAllE l w).1 = false ∧ ∀ i ∈ l, (candAt w i).gone = false → (candAt (untaintAllE l w).2 i).taint = false
  | [], w, _, _ => by simp [untaintAllE]
  | i :: is, w, hq, hr => by
    unfold untaintAllE
    obtain ⟨h1, h2⟩ := untaint_quiet hq hr i
    have he := eff_taintNode false i w
    generalize taintNode false i w = r at h1 h2 he
    obtain ⟨e, w1⟩ := r
    simp only at h1 h2 he ⊢
    subst h1
    have hq1 := quiet_eff he hq
    have hr1 : 0 < w1.retrySteps := by rw [he.frame.2.2.2.2.1]; exact hr
    obtain ⟨h3, h4⟩ := untaintAllE_quiet is w1 hq1 hr1
    have he2 := eff_untaintAllE is w1
    generalize untaintAllE is w1 = r2 at h3 h4 he2
    obtain ⟨e2, w2⟩ := r2
    simp only at h3 h4 he2 ⊢
    subst h3
    refine ⟨rfl, fun j hj hg => ?_⟩
    simp only [List.mem_cons] at hj
    rcases hj with e | e
    · subst e
      exact Eff.candPred (p := fun c => c.taint = false) (fun f hf c hc => by rw [hf]) he2 j (h2 hg)
    · exact h4 j e (by rw [he.field (·.gone) (fun f hf c => by rw [hf]) j]; exact hg)

theorem clearAllE_quiet : ∀ (l : List Nat) (w : World), Quiet w → 0 < w.retrySteps →
    (clearAllE l w).1 = false ∧ ∀ i ∈ l, (candAt w i).gone = false → (candAt (clearAllE l w).2 i).cond = false
  | [], w, _, _ => by simp [clearAllE]
  | i :: is, w, hq, hr => by
    unfold clearAllE
    obtain ⟨h1, h2⟩ := clear_quiet hq hr i
    have he := eff_condClear i w
    generalize condClear i w = r at h1 h2 he
    obtain ⟨e, w1⟩ := r
    simp only at h1 h2 he ⊢
    subst h1
    have hq1 := quiet_eff he hq
    have hr1 : 0 < w1.retrySteps := by rw [he.frame.2.2.2.2.1]; exact hr
    obtain ⟨h3, h4⟩ := clearAllE_quiet is w1 hq1 hr1
    have he2 := eff_clearAllE is w1
    generalize clearAllE is w1 = r2 at h3 h4 he2
    obtain ⟨e2, w2⟩ := r2
    simp only at h3 h4 he2 ⊢
    subst h3
    refine ⟨rfl, fun j hj hg => ?_⟩
    simp only [List.mem_cons] at hj
    rcases hj with e | e
    · subst e
      exact Eff.candPred (p := fun c => c.cond = false) (fun f hf c hc => by rw [hf]) he2 j (h2 hg)
    · exact h4 j e (by rw [he.field (·.gone) (fun f hf c => by rw [hf]) j]; exact hg)

theorem mem_outdatedFrom : ∀ (cs : List Cand) (b i : Nat) (c : Cand), cs[i]? = some c →
    c.owner = none → markObs c = false → c.gone = false → b + i ∈ outdatedFrom cs b
  | [], _, _, _, h, _, _, _ => by simp at h
  | c0 :: t, b, 0, c, h, ho, hm, hg => by
    simp only [List.getElem?_cons_zero, Option.some.injEq] at h
    subst h
    simp [outdatedFrom, ho, hm, hg]
  | c0 :: t, b, i + 1, c, h, ho, hm, hg => by
    simp only [List.getElem?_cons_succ] at h
    have ih := mem_outdatedFrom t (b + 1) i c h ho hm hg
    have e : b + 1 + i = b + (i + 1) := by omega
    rw [e] at ih
    unfold outdatedFrom
    split
    · exact ih
    · exact List.mem_cons_of_mem _ ih

/-- an undisturbed cleanup pass returns every node that still exists and is neither in the queue nor marked / deleting
    to service -/
theorem cleanup_quiet {w : World} (hq : Quiet w) (hr : 0 < w.retrySteps) (hs : synced w = true) :
    (cleanup w).1 = .ok ∧
    ∀ i, i < w.cands.length → (candAt w i).owner = none → (candAt w i).mark = false → (candAt w i).deleting = false →
      (candAt w i).gone = false →
      (candAt (cleanup w).2 i).taint = false ∧ (candAt (cleanup w).2 i).cond = false := by
  unfold cleanup
  simp only [hs, Bool.not_true, Bool.false_eq_true, if_false]
  obtain ⟨h1, h2⟩ := untaintAllE_quiet (outdatedFrom w.cands 0) w hq hr
  have he1 := eff_untaintAllE (outdatedFrom w.cands 0) w
  generalize untaintAllE (outdatedFrom w.cands 0) w = r1 at h1 h2 he1
  obtain ⟨e1, w1⟩ := r1
  simp only at h1 h2 he1
  subst h1
  simp only
  have hq1 := quiet_eff he1 hq
  have hr1 : 0 < w1.retrySteps := by rw [he1.frame.2.2.2.2.1]; exact hr
  obtain ⟨h3, h4⟩ := clearAllE_quiet (outdatedFrom w.cands 0) w1 hq1 hr1
  have he2 := eff_clearAllE (outdatedFrom w.cands 0) w1
  generalize clearAllE (outdatedFrom w.cands 0) w1 = r2 at h3 h4 he2
  obtain ⟨e2, w2⟩ := r2
  simp only at h3 h4 he2
  subst h3
  simp only
  refine ⟨trivial, fun i hi ho hm hd hg => ?_⟩
  have hmem : i ∈ outdatedFrom w.cands 0 := by
    have hc : w.cands[i]? = some (candAt w i) := by
      simp [candAt, List.getElem?_eq_getElem hi]
    have := mem_outdatedFrom w.cands 0 i (candAt w i) hc ho (by simp [markObs, hm, hd]) hg
    simpa using this
  refine ⟨?_, h4 i hmem (by rw [he1.field (·.gone) (fun f hf c => by rw [hf]) i]; exact hg)⟩
  have := he2.field (·.taint) (fun f hf c => by rw [hf]) i
  rw [this]
  exact h2 i hmem hg


/-! ### bookkeeping invariants of the commands -/

/-- readiness bookkeeping of one replacement: the latch is only set for a replacement that reported Initialized, and
    only a NodeClaim that was created can exist / report anything -/
structure ReplOK (r : Repl) : Prop where
  latch : r.latched = true → r.everInit = true
  init : r.api = .init → r.everInit = true
  ever : r.everInit = true → r.created = true
  exist : r.api ≠ .absent → r.created = true

/-- … and a command on whose behalf a Delete was issued has every replacement latched -/
def CmdOK (c : Cmd) : Prop := (∀ r ∈ c.repls, ReplOK r) ∧ (c.issued = true → ∀ r ∈ c.repls, r.latched = true)

def CmdsOK (w : World) : Prop := ∀ c ∈ w.cmds, CmdOK c

/-- both invariants and the number of commands are carried over, and no `issued` flag is ever reset -/
def Carried (w w' : World) : Prop :=
  (CmdsOK w → CmdsOK w') ∧ w'.cmds.length = w.cmds.length ∧
  ∀ k, (cmdAt w k).issued = true → (cmdAt w' k).issued = true

theorem Carried.refl (w : World) : Carried w w := ⟨id, rfl, fun _ => id⟩
theorem Carried.trans {a b c : World} (h1 : Carried a b) (h2 : Carried b c) : Carried a c :=
  ⟨fun h => h2.1 (h1.1 h), h2.2.1.trans h1.2.1, fun k h => h2.2.2 k (h1.2.2 k h)⟩

theorem carried_cmds_eq {w w' : World} (h : w'.cmds = w.cmds) : Carried w w' :=
  ⟨fun hc c hm => hc c (h ▸ hm), by rw [h], fun k hk => by rw [cmdAt_congr h]; exact hk⟩

theorem carried_eff {F} {w w' : World} (h : Eff F w w') : Carried w w' := carried_cmds_eq h.frame.1

/-- updating command `k` with an `f` that maintains `CmdOK` of the command stored there -/
theorem carried_setCmd (w : World) (k : Nat) (f : Cmd → Cmd)
    (hf : k < w.cmds.length → CmdOK (cmdAt w k) → CmdOK (f (cmdAt w k)))
    (hi : (cmdAt w k).issued = true → (f (cmdAt w k)).issued = true) : Carried w (setCmd w k f) := by
  refine ⟨fun hc c hm => ?_, by simp, fun j hj => by
    rw [cmdAt_setCmd]
    split
    · rename_i hjk; rw [hjk.1] at hj ⊢; exact hi hj
    · exact hj⟩
  rcases mem_updAt' hm with h | ⟨y, hy, e⟩
  · exact hc c h
  · subst e
    have hlt : k < w.cmds.length := by
      by_cases hlt : k < w.cmds.length
      · exact hlt
      · rw [List.getElem?_eq_none (Nat.le_of_not_lt hlt)] at hy
        cases hy
    have : cmdAt w k = y := cmdAt_of_getElem? hy
    rw [← this]
    exact hf hlt (hc _ (cmdAt_mem hlt))

theorem cmdOK_of_repls (c c' : Cmd) (hi : c'.issued = c.issued)
    (h : (∀ r ∈ c.repls, ReplOK r) → ∀ r ∈ c'.repls, ReplOK r)
    (hl : (∀ r ∈ c.repls, r.latched = true) → ∀ r ∈ c'.repls, r.latched = true) : CmdOK c → CmdOK c' :=
  fun ⟨h1, h2⟩ => ⟨h h1, fun hi' => hl (h2 (hi ▸ hi'))⟩

/-- a field update that touches neither the replacements nor `issued` -/
theorem carried_setCmd_plain (w : World) (k : Nat) (f : Cmd → Cmd)
    (hr : ∀ c, (f c).repls = c.repls) (hi : ∀ c, (f c).issued = c.issued) : Carried w (setCmd w k f) :=
  carried_setCmd w k f (fun _ h => cmdOK_of_repls (cmdAt w k) (f (cmdAt w k)) (hi _) (by rw [hr]; exact id) (by rw [hr]; exact id) h)
    (fun h => by rw [hi]; exact h)

/-- a per-replacement update that maintains `ReplOK` and never clears a latch -/
theorem carried_setCmd_map (w : World) (k : Nat) (g : Repl → Repl)
    (hg : ∀ r, ReplOK r → ReplOK (g r)) (hl : ∀ r, r.latched = true → (g r).latched = true) :
    Carried w (setCmd w k (fun c => { c with repls := c.repls.map g })) :=
  carried_setCmd w k _ (fun _ h => cmdOK_of_repls (cmdAt w k) { cmdAt w k with repls := (cmdAt w k).repls.map g } rfl
    (fun h r hr => by
      simp only [List.mem_map] at hr
      obtain ⟨r0, h0, e⟩ := hr
      subst e; exact hg r0 (h r0 h0))
    (fun h r hr => by
      simp only [List.mem_map] at hr
      obtain ⟨r0, h0, e⟩ := hr
      subst e; exact hl r0 (h r0 h0)) h) id

theorem carried_setRepl (w : World) (k i : Nat) (g : Repl → Repl)
    (hg : ∀ r, ReplOK r → ReplOK (g r)) (hl : ∀ r, r.latched = true → (g r).latched = true) :
    Carried w (setRepl w k i g) :=
  carried_setCmd w k _ (fun _ h => cmdOK_of_repls (cmdAt w k) { cmdAt w k with repls := updAt (cmdAt w k).repls i g } rfl
    (fun h => forall_updAt h hg) (fun h => forall_updAt h hl) h) id

theorem carried_foldl_setCand (f : Cand → Cand) (l : List Nat) (w : World) :
    Carried w (l.foldl (fun w i => setCand w i f) w) := carried_cmds_eq (foldl_setCand_frame f l w).1

theorem carried_createOne (k i : Nat) (w : World) : Carried w (createOne k i w).2 := by
  unfold createOne
  have h1 : Carried w (call w (.getPool i)).2 := carried_cmds_eq rfl
  split
  · rename_i w1 heq
    rw [heq] at h1
    split
    · exact h1
    · have h2 : Carried w1 (call w1 (.createRepl k i)).2 := carried_cmds_eq rfl
      split
      · rename_i w2 heq2
        rw [heq2] at h2
        refine (h1.trans h2).trans (carried_setRepl w2 k i _ (fun r hr => ?_) (fun r h => h))
        exact ⟨hr.latch, (fun h => by cases h), (fun _ => rfl), (fun _ => rfl)⟩
      · rename_i w2 _ heq2
        rw [heq2] at h2
        exact h1.trans h2
  · rename_i w1 _ heq
    rw [heq] at h1
    exact h1

theorem carried_createAll (k : Nat) : ∀ (n i : Nat) (w : World), Carried w (createAll k n i w).2
  | 0, _, w => Carried.refl w
  | n + 1, i, w => by
    unfold createAll
    have h1 := carried_createOne k i w
    split
    rename_i e w1 heq
    rw [heq] at h1
    have h2 := carried_createAll k n (i + 1) w1
    split
    rename_i e' w2 heq2
    rw [heq2] at h2
    exact h1.trans h2

theorem carried_startCommand (k : Nat) (via : Bool) (w : World) : Carried w (startCommand k via w).2 := by
  unfold startCommand
  simp only
  split
  · exact Carried.refl w
  · split
    · exact Carried.refl w
    · split
      · exact Carried.refl w
      · have h0 : Carried w (setCmd w k fun c => { c with started := true, createdAt := w.now }) :=
          carried_setCmd_plain w k _ (fun _ => rfl) (fun _ => rfl)
        split
        · exact h0
        · have h1 := carried_eff (eff_markAll (cmdAt w k).cands (setCmd w k fun c => { c with started := true, createdAt := w.now }))
          generalize markAll (cmdAt w k).cands (setCmd w k fun c => { c with started := true, createdAt := w.now }) = ma at h1
          obtain ⟨marked, anyErr, w1⟩ := ma
          simp only at h1 ⊢
          split
          · exact h0.trans h1
          · have h2 : Carried w1 (setCmd w1 k fun c => { c with live := marked }) :=
              carried_setCmd_plain w1 k _ (fun _ => rfl) (fun _ => rfl)
            have h3 := carried_createAll k (cmdAt w k).repls.length 0 (setCmd w1 k fun c => { c with live := marked })
            generalize createAll k (cmdAt w k).repls.length 0 (setCmd w1 k fun c => { c with live := marked }) = ca at h3
            obtain ⟨ce, w3⟩ := ca
            simp only at h3
            cases ce with
            | true => exact ((h0.trans h1).trans h2).trans h3
            | false =>
              simp only
              have h4 : Carried w3 (setCmd w3 k fun c => { c with repls := c.repls.map fun r => { r with named := true } }) :=
                carried_setCmd_map w3 k _ (fun r hr => ⟨hr.latch, hr.init, hr.ever, hr.exist⟩) (fun r h => h)
              exact ((((h0.trans h1).trans h2).trans h3).trans h4).trans (carried_foldl_setCand _ _ _)


theorem latch_replOK {r r' : Repl} (h : Latch r r') (hr : ReplOK r) : ReplOK r' := by
  rcases h with e | ⟨hi, _, e⟩
  · rw [e]; exact hr
  · rw [e]; exact ⟨fun _ => hr.init hi, hr.init, hr.ever, hr.exist⟩

theorem latch_latched {r r' : Repl} (h : Latch r r') (hr : r.latched = true) : r'.latched = true := by
  rcases h with e | ⟨_, _, e⟩
  · rw [e]; exact hr
  · rw [e]

theorem wait_facts {K : Nat} {rs repls' : List Repl} {i : Nat} {w w1 : World} {r : WaitRes}
    (h : waitLoop K rs i w = (repls', r, w1)) :
    Rel2 Latch rs repls' ∧ (r = .ready → ∀ r' ∈ repls', r'.latched = true) ∧ w1.cmds = w.cmds := by
  have := waitLoop_spec K rs i w
  rw [h] at this
  exact ⟨this.1, this.2.1, this.2.2.frame.1⟩

/-- storing the result of the wait loop -/
theorem carried_storeRepls {K : Nat} {repls' : List Repl} {w w1 : World} {r : WaitRes}
    (h : waitLoop K (cmdAt w K).repls 0 w = (repls', r, w1)) :
    Carried w (setCmd w1 K (fun c => { c with repls := repls' })) := by
  obtain ⟨hl, _, hc⟩ := wait_facts h
  refine (carried_cmds_eq hc).trans (carried_setCmd w1 K _ (fun _ hok => ?_) id)
  rw [cmdAt_congr hc] at hok ⊢
  exact cmdOK_of_repls (cmdAt w K) { cmdAt w K with repls := repls' } rfl
    (fun h0 => Rel2.pres (fun a b hab => latch_replOK hab) hl h0)
    (fun h0 => Rel2.pres (fun a b hab => latch_latched hab) hl h0) hok

/-- recording that Deletes were issued, after a wait loop that found every replacement ready -/
theorem carried_issue {K : Nat} {repls' : List Repl} {w w1 w3 : World} (b : Bool)
    (h : waitLoop K (cmdAt w K).repls 0 w = (repls', .ready, w1))
    (h3 : w3.cmds = (setCmd w1 K (fun c => { c with repls := repls' })).cmds) :
    Carried w3 (setCmd w3 K (fun c => { c with issued := c.issued || b })) := by
  obtain ⟨_, hall, hc⟩ := wait_facts h
  refine carried_setCmd w3 K _ (fun hlt hok => ?_) (fun h => by simp [h])
  have hrep : (cmdAt w3 K).repls = repls' := by
    rw [cmdAt_congr h3, cmdAt_setCmd]
    have : K < w1.cmds.length := by
      have := congrArg List.length h3
      simp only [setCmd_length] at this
      omega
    simp [this]
  exact ⟨hok.1, fun _ => by simp only; rw [hrep]; exact hall rfl⟩

theorem carried_failCommand (K : Nat) (w : World) : Carried w (failCommand K w) :=
  carried_cmds_eq (failCommand_cmds K w)

theorem carried_succeedCommand (K : Nat) (w : World) : Carried w (succeedCommand K w) := by
  rw [succeedCommand_eq]
  exact (carried_setCmd_plain w K (fun c => { c with succeeded := true }) (fun _ => rfl) (fun _ => rfl)).trans (carried_foldl_setCand _ _ _)

theorem del_cmds {snap : List RApi} {l : List Nat} {w w3 : World} {e : Bool} {evs : List DelEvent}
    (h : delAll snap l w = (e, evs, w3)) : w3.cmds = w.cmds := by
  have := eff_delAll snap l w
  rw [h] at this
  exact this.frame.1

theorem carried_course {ci : Nat} {w : World} {out : Res × List DelEvent × World} (h : Course ci w out) :
    Carried w out.2.2 := by
  cases h with
  | nocmd _ => exact Carried.refl w
  | gone K repls' w1 _ hw => exact (carried_storeRepls hw).trans (carried_failCommand K _)
  | stalled K repls' w1 _ hw _ => exact (carried_storeRepls hw).trans (carried_failCommand K _)
  | waiting K repls' w1 _ hw _ => exact carried_storeRepls hw
  | late K repls' w1 delErr evs w3 _ hw hd _ =>
    exact (((carried_storeRepls hw).trans (carried_cmds_eq (del_cmds hd))).trans
      (carried_issue (!evs.isEmpty) hw (del_cmds hd))).trans (carried_failCommand K _)
  | delRetry K repls' w1 evs w3 _ hw hd _ =>
    exact ((carried_storeRepls hw).trans (carried_cmds_eq (del_cmds hd))).trans
      (carried_issue (!evs.isEmpty) hw (del_cmds hd))
  | done K repls' w1 evs w3 _ hw hd _ =>
    exact (((carried_storeRepls hw).trans (carried_cmds_eq (del_cmds hd))).trans
      (carried_issue (!evs.isEmpty) hw (del_cmds hd))).trans (carried_succeedCommand K _)

theorem envRepl_ok (op : EnvOp) (r : Repl) (hr : ReplOK r) : ReplOK (envRepl op r) := by
  unfold envRepl
  split
  · exact hr
  · rename_i hne
    have hc := hr.exist hne
    cases op with
    | launch =>
      simp only
      refine ⟨hr.latch, fun h => ?_, hr.ever, fun _ => hc⟩
      split at h
      · cases h
      · exact hr.init h
    | init => exact ⟨fun _ => rfl, fun _ => rfl, fun _ => hc, fun _ => hc⟩
    | vanish => exact ⟨hr.latch, (fun h => by cases h), hr.ever, (fun h => absurd rfl h)⟩
    | vanishStale => exact ⟨hr.latch, (fun h => by cases h), hr.ever, (fun h => absurd rfl h)⟩

theorem envRepl_latched (op : EnvOp) (r : Repl) (h : r.latched = true) : (envRepl op r).latched = true := by
  unfold envRepl
  split
  · exact h
  · cases op <;> exact h

theorem carried_envStep (op : EnvOp) (k i : Nat) (w : World) : Carried w (envStep op k i w).2 := by
  unfold envStep
  split
  · exact Carried.refl w
  · split
    · exact Carried.refl w
    · exact carried_setRepl w k i _ (envRepl_ok op) (envRepl_latched op)

theorem syncRepl_ok (r : Repl) (hr : ReplOK r) : ReplOK (syncRepl r) := by
  unfold syncRepl
  split
  · exact ⟨hr.latch, hr.init, hr.ever, hr.exist⟩
  · exact hr

theorem syncRepl_latched (r : Repl) (h : r.latched = true) : (syncRepl r).latched = true := by
  unfold syncRepl
  split <;> exact h

theorem carried_syncAll (w : World) : Carried w (syncAll w) := by
  refine ⟨fun hc c hm => ?_, by simp [syncAll], fun k hk => ?_⟩
  · simp only [syncAll, List.mem_map] at hm
    obtain ⟨c0, h0, e⟩ := hm
    subst e
    obtain ⟨h1, h2⟩ := hc c0 h0
    refine ⟨fun r hr => ?_, fun hi r hr => ?_⟩
    · simp only [List.mem_map] at hr
      obtain ⟨r0, hr0, e⟩ := hr
      subst e; exact syncRepl_ok r0 (h1 r0 hr0)
    · simp only [List.mem_map] at hr
      obtain ⟨r0, hr0, e⟩ := hr
      subst e; exact syncRepl_latched r0 (h2 hi r0 hr0)
  · simp only [cmdAt, syncAll, List.getElem?_map] at hk ⊢
    cases hget : w.cmds[k]? with
    | none => rw [hget] at hk; simp at hk
    | some c => rw [hget] at hk; simpa using hk

theorem carried_restart (w : World) : Carried w (restart w) := by
  unfold restart
  exact (carried_cmds_eq (w := w) (w' := { w with cands := w.cands.map fun c => { c with mark := false, owner := none } }) rfl).trans
    (carried_syncAll _)

/-! ### a candidate goes away on its own -/

theorem candGone_cmds (i : Nat) (w : World) : (candGone i w).2.cmds = w.cmds := by
  unfold candGone
  split <;> rfl

/-- the vanishing of a candidate touches that candidate only, never its queue entry; the commands are untouched -/
theorem candGone_cand (i : Nat) (w : World) (j : Nat) :
    (candAt (candGone i w).2 j).owner = (candAt w j).owner ∧
    (j ≠ i → candAt (candGone i w).2 j = candAt w j) ∧
    ((candAt w j).gone = true → (candAt (candGone i w).2 j).gone = true) := by
  unfold candGone
  split
  · simp only
    rw [candAt_setCand]
    split
    · rename_i h
      exact ⟨rfl, fun hne => absurd h.1 hne, fun _ => rfl⟩
    · exact ⟨rfl, fun _ => rfl, id⟩
  · exact ⟨rfl, fun _ => rfl, id⟩

/-- what is left of a candidate that went away: nothing carries a taint, a condition or a deletion mark -/
theorem candGone_self (i : Nat) (w : World) (h : (candGone i w).1 = .ok) :
    (candAt w i).gone = false ∧ candAt (candGone i w).2 i = vanishCand (candAt w i) := by
  unfold candGone at h ⊢
  split
  · rename_i hc
    simp only [Bool.and_eq_true, decide_eq_true_eq, Bool.not_eq_true'] at hc
    refine ⟨hc.2, ?_⟩
    simp only
    rw [candAt_setCand]
    simp [hc.1]
  · rename_i hc
    simp [hc] at h

theorem carried_reconcile (k on : Nat) (w : World) : Carried w (reconcile k on w).2.2 := by
  unfold reconcile
  simp only
  split
  · exact Carried.refl w
  · exact carried_course (reconcileCand_course _ w)

theorem carried_step (w : World) (s : Step) : Carried w (step w s).2.2 := by
  have h0 : Carried w { w with fired := 0 } := carried_cmds_eq rfl
  cases s with
  | start k via => exact h0.trans (carried_startCommand k via _)
  | reconcile k on => exact h0.trans (carried_reconcile k on _)
  | advance ns =>
    simp only [step]
    split
    · exact carried_cmds_eq rfl
    · exact h0
  | env op k i => exact h0.trans (carried_envStep op k i _)
  | candGone i => exact h0.trans (carried_cmds_eq (candGone_cmds i _))
  | sync => exact h0.trans (carried_syncAll _)
  | restart => exact h0.trans (carried_restart _)
  | cleanup => exact h0.trans (carried_eff (eff_cleanup _))


/-- when every replacement is already latched the wait loop makes no call and reports ready -/
theorem waitLoop_allLatched (K : Nat) : ∀ (rs : List Repl) (i : Nat) (w : World),
    (∀ r ∈ rs, r.latched = true) → (waitLoop K rs i w).2.1 = .ready
  | [], _, _, _ => rfl
  | r :: rs, i, w, h => by
    unfold waitLoop
    have hr : r.latched = true := h r (by simp)
    simp only [hr, if_true]
    have ih := waitLoop_allLatched K rs (i + 1) w (fun r' hr' => h r' (by simp [hr']))
    generalize waitLoop K rs (i + 1) w = x at ih
    obtain ⟨a, b, c⟩ := x
    exact ih

theorem failsLate_true {m : TimeoutMode} {late delErr : Bool} (h : failsLate m late delErr = true) :
    m ≠ .waitOnly ∧ late = true := by
  cases m <;> simp [failsLate] at h ⊢
  · exact h
  · exact h.1

/-- the `issued` flag of the acting command after a pass -/
theorem course_issued {ci : Nat} {w : World} {out : Res × List DelEvent × World} (h : Course ci w out) :
    ∀ K, (candAt w ci).owner = some K → K < w.cmds.length →
      (cmdAt out.2.2 K).issued = ((cmdAt w K).issued || !out.2.1.isEmpty) := by
  intro K hK hlt
  have store : ∀ (repls' : List Repl) (w1 : World), w1.cmds = w.cmds →
      (cmdAt (setCmd w1 K (fun c => { c with repls := repls' })) K).issued = (cmdAt w K).issued := by
    intro repls' w1 hc
    rw [cmdAt_setCmd]; split <;> simp [cmdAt_congr hc]
  have issue : ∀ (repls' : List Repl) (w1 w3 : World) (b : Bool), w1.cmds = w.cmds →
      w3.cmds = (setCmd w1 K (fun c => { c with repls := repls' })).cmds →
      (cmdAt (setCmd w3 K (fun c => { c with issued := c.issued || b })) K).issued = ((cmdAt w K).issued || b) := by
    intro repls' w1 w3 b hc h3
    have hl3 : K < w3.cmds.length := by
      have := congrArg List.length h3
      simp only [setCmd_length] at this
      have := congrArg List.length hc
      omega
    rw [cmdAt_setCmd]
    simp only [hl3, and_self, if_true]
    rw [cmdAt_congr h3, store repls' w1 hc]
  cases h with
  | nocmd h0 => rw [h0] at hK; cases hK
  | gone K' repls' w1 hK' hw =>
    rw [hK'] at hK; cases hK
    simp only [List.isEmpty_nil, Bool.not_true, Bool.or_false]
    rw [cmdAt_congr (failCommand_cmds _ _)]
    exact store repls' w1 (wait_facts hw).2.2
  | stalled K' repls' w1 hK' hw _ =>
    rw [hK'] at hK; cases hK
    simp only [List.isEmpty_nil, Bool.not_true, Bool.or_false]
    rw [cmdAt_congr (failCommand_cmds _ _)]
    exact store repls' w1 (wait_facts hw).2.2
  | waiting K' repls' w1 hK' hw _ =>
    rw [hK'] at hK; cases hK
    simp only [List.isEmpty_nil, Bool.not_true, Bool.or_false]
    exact store repls' w1 (wait_facts hw).2.2
  | late K' repls' w1 delErr evs w3 hK' hw hd _ =>
    rw [hK'] at hK; cases hK
    simp only
    rw [cmdAt_congr (failCommand_cmds _ _)]
    exact issue repls' w1 w3 _ (wait_facts hw).2.2 (del_cmds hd)
  | delRetry K' repls' w1 evs w3 hK' hw hd _ =>
    rw [hK'] at hK; cases hK
    exact issue repls' w1 w3 _ (wait_facts hw).2.2 (del_cmds hd)
  | done K' repls' w1 evs w3 hK' hw hd _ =>
    rw [hK'] at hK; cases hK
    simp only
    rw [succeedCommand_eq, cmdAt_congr (foldl_setCand_frame _ _ _).1]
    have h4 := issue repls' w1 w3 (!evs.isEmpty) (wait_facts hw).2.2 (del_cmds hd)
    rw [cmdAt_setCmd]
    split
    · simpa using h4
    · exact h4

/-- a failing pass of a command with Deletes on its record: the pass was past the retry window, reached the delete
    phase (every replacement latched or Initialized), and the code applies the window to that phase -/
theorem course_failed_issued {ci : Nat} {w : World} {out : Res × List DelEvent × World} (h : Course ci w out)
    (hf : out.1 = .failed) (K : Nat) (hK : (candAt w ci).owner = some K) (hlt : K < w.cmds.length)
    (hok : CmdOK (cmdAt w K)) (hi : (cmdAt out.2.2 K).issued = true) :
    w.mode ≠ .waitOnly ∧ timedOut w (cmdAt w K) = true ∧
      ∀ r ∈ (cmdAt w K).repls, r.latched = true ∨ r.api = .init := by
  have hiss := course_issued h K hK hlt
  rw [hi] at hiss
  have notReady : ∀ (repls' : List Repl) (w1 : World) (r : WaitRes), r ≠ .ready →
      waitLoop K (cmdAt w K).repls 0 w = (repls', r, w1) → (cmdAt w K).issued = false := by
    intro repls' w1 r hr hw
    cases hb : (cmdAt w K).issued with
    | false => rfl
    | true =>
      have := waitLoop_allLatched K (cmdAt w K).repls 0 w (hok.2 hb)
      rw [hw] at this
      exact absurd this hr
  cases h with
  | nocmd h0 => cases hf
  | gone K' repls' w1 hK' hw =>
    rw [hK'] at hK; cases hK
    have := notReady repls' w1 .gone (by simp) hw
    simp [this] at hiss
  | stalled K' repls' w1 hK' hw _ =>
    rw [hK'] at hK; cases hK
    have := notReady repls' w1 .waiting (by simp) hw
    simp [this] at hiss
  | waiting => cases hf
  | late K' repls' w1 delErr evs w3 hK' hw hd hfl =>
    rw [hK'] at hK; cases hK
    obtain ⟨hm, ht⟩ := failsLate_true hfl
    obtain ⟨hl, hall, _⟩ := wait_facts hw
    exact ⟨hm, ht, latch_ready hl (hall rfl)⟩
  | delRetry => cases hf
  | done => cases hf


theorem untaintAll_quiet : ∀ (l : List Nat) (w : World), Quiet w → 0 < w.retrySteps →
    ∀ i ∈ l, (candAt w i).gone = false → (candAt (untaintAll l w) i).taint = false
  | [], _, _, _ => by simp
  | i :: is, w, hq, hr => by
    unfold untaintAll
    obtain ⟨_, h2⟩ := untaint_quiet hq hr i
    have he := eff_taintNode false i w
    have hq1 := quiet_eff he hq
    have hr1 : 0 < (taintNode false i w).2.retrySteps := by rw [he.frame.2.2.2.2.1]; exact hr
    have ih := untaintAll_quiet is (taintNode false i w).2 hq1 hr1
    have he2 := eff_untaintAll is (taintNode false i w).2
    intro j hj hg
    simp only [List.mem_cons] at hj
    rcases hj with e | e
    · subst e
      exact Eff.candPred (p := fun c => c.taint = false) (fun f hf c hc => by rw [hf]) he2 j (h2 hg)
    · exact ih j e (by rw [he.field (·.gone) (fun f hf c => by rw [hf]) j]; exact hg)

theorem clearAll_quiet : ∀ (l : List Nat) (w : World), Quiet w → 0 < w.retrySteps →
    ∀ i ∈ l, (candAt w i).gone = false → (candAt (clearAll l w) i).cond = false
  | [], _, _, _ => by simp
  | i :: is, w, hq, hr => by
    unfold clearAll
    obtain ⟨_, h2⟩ := clear_quiet hq hr i
    have he := eff_condClear i w
    have hq1 := quiet_eff he hq
    have hr1 : 0 < (condClear i w).2.retrySteps := by rw [he.frame.2.2.2.2.1]; exact hr
    have ih := clearAll_quiet is (condClear i w).2 hq1 hr1
    have he2 := eff_clearAll is (condClear i w).2
    intro j hj hg
    simp only [List.mem_cons] at hj
    rcases hj with e | e
    · subst e
      exact Eff.candPred (p := fun c => c.cond = false) (fun f hf c hc => by rw [hf]) he2 j (h2 hg)
    · exact ih j e (by rw [he.field (·.gone) (fun f hf c => by rw [hf]) j]; exact hg)

/-- the API part of the rollback when no fault interferes: every live candidate loses the taint and the condition -/
theorem failCommand_quiet (K : Nat) {w : World} (hq : Quiet w) (hr : 0 < w.retrySteps) :
    ∀ j ∈ (cmdAt w K).live, (candAt w j).gone = false →
      (candAt (failCommand K w) j).taint = false ∧ (candAt (failCommand K w) j).cond = false := by
  intro j hj hg
  rw [failCommand_eq, foldl_setCand_at release (fun _ => rfl)]
  have he1 := eff_untaintAll (cmdAt w K).live w
  have hq1 := quiet_eff he1 hq
  have hr1 : 0 < (untaintAll (cmdAt w K).live w).retrySteps := by rw [he1.frame.2.2.2.2.1]; exact hr
  have ht := untaintAll_quiet (cmdAt w K).live w hq hr j hj hg
  have hc := clearAll_quiet (cmdAt w K).live _ hq1 hr1 j hj
    (by rw [he1.field (·.gone) (fun f hf c => by rw [hf]) j]; exact hg)
  have he2 := eff_clearAll (cmdAt w K).live (untaintAll (cmdAt w K).live w)
  have ht2 : (candAt (clearAll (cmdAt w K).live (untaintAll (cmdAt w K).live w)) j).taint = false := by
    rw [he2.field (·.taint) (fun f hf c => by rw [hf]) j]; exact ht
  split
  · exact ⟨ht2, hc⟩
  · exact ⟨ht2, hc⟩

theorem quiet_setCmd {w : World} (h : Quiet w) (K : Nat) (f : Cmd → Cmd) : Quiet (setCmd w K f) := h

/-- a failing pass under a quiet plan removes taint and condition of every live candidate at once -/
theorem course_failed_quiet {ci : Nat} {w : World} {out : Res × List DelEvent × World} (h : Course ci w out)
    (hf : out.1 = .failed) (hq : Quiet w) (hr : 0 < w.retrySteps) :
    ∃ K, (candAt w ci).owner = some K ∧
      ∀ j ∈ (cmdAt w K).live, (candAt w j).gone = false →
        (candAt out.2.2 j).taint = false ∧ (candAt out.2.2 j).cond = false := by
  have aux : ∀ (K : Nat) (w' : World) (f : Cmd → Cmd), Keep w w' → Quiet w' → 0 < w'.retrySteps →
      ∀ j ∈ (cmdAt w K).live, (candAt w j).gone = false →
        (candAt (failCommand K w') j).taint = false ∧ (candAt (failCommand K w') j).cond = false := by
    intro K w' _ hk hq' hr' j hj hg
    exact failCommand_quiet K hq' hr' j (by rw [hk.live]; exact hj) (by rw [hk.gone]; exact hg)
  cases h with
  | nocmd _ => cases hf
  | gone K repls' w1 hK hw =>
    refine ⟨K, hK, ?_⟩
    have he := (waitLoop_spec K (cmdAt w K).repls 0 w).2.2
    rw [hw] at he
    exact aux K _ id ((keep_wait hw).trans (keep_setCmd w1 K (fun c => { c with repls := repls' }) (fun _ => rfl)))
      (quiet_setCmd (quiet_eff he hq) K _) (by rw [show (setCmd w1 K _).retrySteps = w1.retrySteps from rfl, he.frame.2.2.2.2.1]; exact hr)
  | stalled K repls' w1 hK hw _ =>
    refine ⟨K, hK, ?_⟩
    have he := (waitLoop_spec K (cmdAt w K).repls 0 w).2.2
    rw [hw] at he
    exact aux K _ id ((keep_wait hw).trans (keep_setCmd w1 K (fun c => { c with repls := repls' }) (fun _ => rfl)))
      (quiet_setCmd (quiet_eff he hq) K _) (by rw [show (setCmd w1 K _).retrySteps = w1.retrySteps from rfl, he.frame.2.2.2.2.1]; exact hr)
  | waiting => cases hf
  | late K repls' w1 delErr evs w3 hK hw hd _ =>
    refine ⟨K, hK, ?_⟩
    have he := (waitLoop_spec K (cmdAt w K).repls 0 w).2.2
    rw [hw] at he
    have he3 := eff_delAll (repls'.map (·.api)) (cmdAt w K).live (setCmd w1 K (fun c => { c with repls := repls' }))
    rw [hd] at he3
    have hk := (((keep_wait hw).trans (keep_setCmd w1 K (fun c => { c with repls := repls' }) (fun _ => rfl))).trans (keep_del hd)).trans
      (keep_setCmd w3 K (fun c => { c with issued := c.issued || !evs.isEmpty }) (fun _ => rfl))
    have hq3 : Quiet w3 := quiet_eff he3 (quiet_setCmd (quiet_eff he hq) K _)
    exact aux K _ id hk (quiet_setCmd hq3 K _) (by
      rw [show (setCmd w3 K _).retrySteps = w3.retrySteps from rfl, he3.frame.2.2.2.2.1,
        show (setCmd w1 K _).retrySteps = w1.retrySteps from rfl, he.frame.2.2.2.2.1]; exact hr)
  | delRetry => cases hf
  | done => cases hf


/-! ### a queue pass as a step -/

/-- the world a step starts from: the per-step fault counter is cleared (observation only) -/
def reset (w : World) : World := { w with fired := 0 }

@[simp] theorem candAt_reset (w : World) (j : Nat) : candAt (reset w) j = candAt w j := rfl
@[simp] theorem cmdAt_reset (w : World) (k : Nat) : cmdAt (reset w) k = cmdAt w k := rfl
@[simp] theorem reset_cmds (w : World) : (reset w).cmds = w.cmds := rfl
@[simp] theorem reset_cands (w : World) : (reset w).cands = w.cands := rfl
@[simp] theorem reset_mode (w : World) : (reset w).mode = w.mode := rfl
theorem quiet_reset {w : World} (h : Quiet w) : Quiet (reset w) := h
@[simp] theorem timedOut_reset (w : World) (c : Cmd) : timedOut (reset w) c = timedOut w c := rfl

theorem step_reconcile (w : World) (k on : Nat) : step w (.reconcile k on) = reconcile k on (reset w) := rfl
theorem step_start (w : World) (k : Nat) (via : Bool) :
    step w (.start k via) = ((startCommand k via (reset w)).1, [], (startCommand k via (reset w)).2) := rfl
theorem step_cleanup (w : World) : step w .cleanup = ((cleanup (reset w)).1, [], (cleanup (reset w)).2) := rfl
theorem step_restart (w : World) : step w .restart = (.ok, [], restart (reset w)) := rfl

theorem restart_cand (w : World) (j : Nat) :
    (candAt (restart w) j).owner = none ∧ (candAt (restart w) j).mark = false := by
  simp only [restart, syncAll, candAt, List.getElem?_map]
  cases w.cands[j]? <;> simp

theorem reconcile_cases (k on : Nat) (w : World) :
    reconcile k on w = (.skip, [], w) ∨ ∃ ci, Course ci w (reconcile k on w) := by
  unfold reconcile
  simp only
  split
  · exact Or.inl rfl
  · exact Or.inr ⟨_, reconcileCand_course _ w⟩

theorem course_failed_acting {ci : Nat} {w : World} {out : Res × List DelEvent × World} (h : Course ci w out)
    (hf : out.1 = .failed) : ∃ K, (candAt w ci).owner = some K := by
  cases h with
  | nocmd _ => cases hf
  | gone K _ _ hK => exact ⟨K, hK⟩
  | stalled K _ _ hK => exact ⟨K, hK⟩
  | waiting => cases hf
  | late K _ _ _ _ _ hK => exact ⟨K, hK⟩
  | delRetry => cases hf
  | done => cases hf

end Karp.OrchQueue
