/-
C11 helper lemmas: at quiescence the per-NodePool resource totals equal the from-scratch totals.
-/
import Karp.Proofs.ClusterStateQuiescent

namespace Karp.ClusterState
open Karp.Spec.ClusterAbs

/-! ### sums -/

def sumOver {α : Type} (l : List α) (f : α → Res) : Res := l.foldr (fun a acc => (f a).add acc) Res.zero

theorem sumOver_nil {α : Type} (f : α → Res) : sumOver ([] : List α) f = Res.zero := rfl
theorem sumOver_cons {α : Type} (a : α) (l : List α) (f : α → Res) : sumOver (a :: l) f = (f a).add (sumOver l f) := rfl

theorem sumOver_congr {α : Type} (l : List α) (f g : α → Res) (h : ∀ a ∈ l, f a = g a) : sumOver l f = sumOver l g := by
  induction l with
  | nil => rfl
  | cons a l ih =>
    rw [sumOver_cons, sumOver_cons, h a List.mem_cons_self, ih (fun b hb => h b (List.mem_cons_of_mem _ hb))]

theorem sumOver_zero {α : Type} (l : List α) : sumOver l (fun _ => Res.zero) = Res.zero := by
  induction l with
  | nil => rfl
  | cons a l ih => rw [sumOver_cons, ih, Res.add_zero]

theorem poolSum_eq_sumOver (m : Map SNode) (p : String) : poolSum m p = sumOver m (fun e => contribAt e.2 p) := by
  induction m with
  | nil => rfl
  | cons e m ih => obtain ⟨k, s⟩ := e; rw [sumOver_cons]; simp only [poolSum]; rw [ih]

theorem sumOver_filterMap {α β : Type} (l : List α) (h : α → Option β) (F : β → Res) :
    sumOver (l.filterMap h) F = sumOver l (fun k => match h k with | some a => F a | none => Res.zero) := by
  induction l with
  | nil => rfl
  | cons a l ih =>
    rw [sumOver_cons]
    cases ha : h a with
    | none => rw [List.filterMap_cons_none ha, ih]; simp only []; rw [Res.zero_add]
    | some b => rw [List.filterMap_cons_some ha, sumOver_cons, ih]

theorem sumOver_single (L : List String) (k0 : String) (a : Res) (G : String → Res) (hn : L.Nodup) (hm : k0 ∈ L)
    (hz : G k0 = Res.zero) : sumOver L (fun k => if k = k0 then a else G k) = a.add (sumOver L G) := by
  induction L with
  | nil => simp at hm
  | cons x L ih =>
    rw [List.nodup_cons] at hn
    rw [sumOver_cons, sumOver_cons]
    by_cases hx : x = k0
    · rw [if_pos hx]
      have hnot : k0 ∉ L := hx ▸ hn.1
      have : sumOver L (fun k => if k = k0 then a else G k) = sumOver L G :=
        sumOver_congr L _ _ (fun b hb => by
          have : b ≠ k0 := fun e => hnot (e ▸ hb)
          simp [this])
      rw [this, hx, hz, Res.zero_add]
    · rw [if_neg hx]
      have hm' : k0 ∈ L := by
        rcases List.mem_cons.mp hm with h | h
        · exact absurd h.symm hx
        · exact h
      rw [ih hn.2 hm', Res.add_left_comm]

theorem sumOver_map_keys {α : Type} (m : Map α) (L : List String) (F : α → Res) (hn : Map.NoDup m) (hL : L.Nodup)
    (hsub : ∀ k, k ∈ Map.keys m → k ∈ L) :
    sumOver m (fun e => F e.2) = sumOver L (fun k => match Map.get m k with | some v => F v | none => Res.zero) := by
  induction m with
  | nil =>
    rw [sumOver_nil]
    have : sumOver L (fun k => match Map.get ([] : Map α) k with | some v => F v | none => Res.zero) = sumOver L (fun _ => Res.zero) :=
      sumOver_congr L _ _ (fun _ _ => rfl)
    rw [this, sumOver_zero]
  | cons e m ih =>
    obtain ⟨k0, v0⟩ := e
    rw [Map.noDup_cons] at hn
    rw [sumOver_cons]
    have hsub' : ∀ k, k ∈ Map.keys m → k ∈ L := fun k hk => hsub k (by rw [Map.keys_cons]; exact List.mem_cons_of_mem _ hk)
    rw [ih hn.2 hsub']
    have hk0 : k0 ∈ L := hsub k0 (by rw [Map.keys_cons]; exact List.mem_cons_self)
    have hnone : Map.get m k0 = none := Map.get_none_of_not_mem_keys hn.1
    have := sumOver_single L k0 (F v0) (fun k => match Map.get m k with | some v => F v | none => Res.zero) hL hk0 (by simp only [hnone])
    rw [← this]
    apply sumOver_congr
    intro k _
    rw [Map.get_cons]
    by_cases hk : k = k0
    · rw [if_pos hk, if_pos hk.symm]
    · rw [if_neg hk, if_neg (fun e => hk e.symm)]

/-! ### dedup -/

theorem dedup_aux (l : List String) : ∀ acc : List String, acc.Nodup →
    (l.foldl (fun acc x => if acc.contains x then acc else acc ++ [x]) acc).Nodup ∧
    ∀ x, x ∈ l.foldl (fun acc x => if acc.contains x then acc else acc ++ [x]) acc ↔ x ∈ acc ∨ x ∈ l := by
  induction l with
  | nil => intro acc h; exact ⟨h, fun x => by simp⟩
  | cons a l ih =>
    intro acc h
    simp only [List.foldl_cons]
    by_cases hc : acc.contains a = true
    · rw [if_pos hc]
      refine ⟨(ih acc h).1, fun x => ?_⟩
      rw [(ih acc h).2 x]
      constructor
      · intro hx
        rcases hx with hx | hx
        · exact Or.inl hx
        · exact Or.inr (List.mem_cons_of_mem _ hx)
      · intro hx
        rcases hx with hx | hx
        · exact Or.inl hx
        · rcases List.mem_cons.mp hx with hx | hx
          · left; rw [hx]; exact List.contains_iff_mem.mp hc
          · exact Or.inr hx
    · rw [if_neg hc]
      have hna : a ∉ acc := fun hm => hc (List.contains_iff_mem.mpr hm)
      have h' : (acc ++ [a]).Nodup := by
        rw [List.nodup_append]
        refine ⟨h, by simp, ?_⟩
        intro x hx y hy
        simp at hy
        rw [hy]; intro e; exact hna (e ▸ hx)
      refine ⟨(ih _ h').1, fun x => ?_⟩
      rw [(ih _ h').2 x]
      simp only [List.mem_append, List.mem_cons, List.not_mem_nil, or_false]
      constructor
      · intro hx
        rcases hx with (hx | hx) | hx
        · exact Or.inl hx
        · exact Or.inr (Or.inl hx)
        · exact Or.inr (Or.inr hx)
      · intro hx
        rcases hx with hx | hx | hx
        · exact Or.inl (Or.inl hx)
        · exact Or.inl (Or.inr hx)
        · exact Or.inr hx

theorem nodup_dedup (l : List String) : (dedup l).Nodup := (dedup_aux l [] List.nodup_nil).1
theorem mem_dedup (l : List String) (x : String) : x ∈ dedup l ↔ x ∈ l := by
  unfold dedup
  rw [(dedup_aux l [] List.nodup_nil).2 x]
  simp

end Karp.ClusterState

namespace Karp.ClusterState
open Karp.Spec.ClusterAbs

/-! ### a state node whose objects are those of the from-scratch node reads like it -/

theorem snode_reads_abs (s : SNode) (a : AbsNode) (h : s.objs = absObjs a) :
    s.pool = a.pool ∧ s.markedForDeletion = a.markedForDeletion ∧ s.capacity = a.capacity ∧ s.name = a.name ∧
    s.registered = a.registered ∧ s.initialized = a.initialized ∧ s.deleted = a.deleted ∧ (s.node.isSome || s.claim.isSome) = true := by
  obtain ⟨pid, shape, mk, nm, pods⟩ := a
  have h1 : s.node = AbsNode.node? ⟨pid, shape, mk, nm, pods⟩ := congrArg Objs.node h
  have h2 : s.claim = AbsNode.claim? ⟨pid, shape, mk, nm, pods⟩ := congrArg Objs.claim h
  have h3 : s.marked = mk := congrArg Objs.marked h
  cases shape with
  | nodeOnly n =>
    simp only [AbsNode.node?, AbsNode.claim?] at h1 h2
    simp [SNode.pool, SNode.markedForDeletion, SNode.deleted, SNode.capacity, SNode.name, SNode.registered, SNode.initialized,
      SNode.managed, AbsNode.pool, AbsNode.markedForDeletion, AbsNode.deleted, AbsNode.capacity, AbsNode.name,
      AbsNode.registered, AbsNode.initialized, h1, h2, h3]
  | claimOnly c =>
    simp only [AbsNode.node?, AbsNode.claim?] at h1 h2
    simp [SNode.pool, SNode.markedForDeletion, SNode.deleted, SNode.capacity, SNode.name, SNode.registered, SNode.initialized,
      SNode.managed, AbsNode.pool, AbsNode.markedForDeletion, AbsNode.deleted, AbsNode.capacity, AbsNode.name,
      AbsNode.registered, AbsNode.initialized, h1, h2, h3]
  | both n c =>
    simp only [AbsNode.node?, AbsNode.claim?] at h1 h2
    simp only [SNode.pool, SNode.markedForDeletion, SNode.deleted, SNode.capacity, SNode.name, SNode.registered, SNode.initialized,
      SNode.managed, AbsNode.pool, AbsNode.markedForDeletion, AbsNode.deleted, AbsNode.capacity, AbsNode.name,
      AbsNode.registered, AbsNode.initialized, h1, h2, h3]
    refine ⟨by simp, by simp, ?_, by simp, by simp, by simp, by simp, by simp⟩
    cases hi : n.init <;> simp [hi, Res.fillZero, AbsNode.fill]

def absContribAt (a : AbsNode) (p : String) : Res :=
  if p ≠ "" ∧ a.pool = p ∧ a.markedForDeletion = false then a.capacity else Res.zero

theorem contribAt_of_objs (s : SNode) (a : AbsNode) (h : s.objs = absObjs a) (p : String) : contribAt s p = absContribAt a p := by
  obtain ⟨hp, hm, hc, _, _, _, _, hne⟩ := snode_reads_abs s a h
  unfold contribAt absContribAt SNode.contrib
  rw [hne]
  simp only [if_true, hp, hm, hc]
  by_cases h1 : p ≠ "" ∧ a.pool = p
  · rw [if_pos h1]
    cases hmd : a.markedForDeletion with
    | true => simp
    | false => simp [h1.1, h1.2]
  · rw [if_neg h1]
    have : ¬ (p ≠ "" ∧ a.pool = p ∧ a.markedForDeletion = false) := fun x => h1 ⟨x.1, x.2.1⟩
    rw [if_neg this]

theorem absPoolRes_eq (api : Api) (g : Ghost) (p : String) :
    absPoolRes api g p = sumOver (absNodes api g) (fun a => absContribAt a p) := by
  unfold absPoolRes
  by_cases hp : p = ""
  · rw [if_pos hp]
    have : sumOver (absNodes api g) (fun a => absContribAt a p) = sumOver (absNodes api g) (fun _ => Res.zero) :=
      sumOver_congr _ _ _ (fun a _ => by simp [absContribAt, hp])
    rw [this, sumOver_zero]
  · rw [if_neg hp]
    generalize absNodes api g = l
    induction l with
    | nil => rfl
    | cons a l ih =>
      rw [sumOver_cons, ← ih]
      by_cases hc : (decide (a.pool = p) && !a.markedForDeletion) = true
      · rw [List.filter_cons_of_pos (p := fun (a : AbsNode) => decide (a.pool = p) && !a.markedForDeletion) hc]
        simp only [List.map_cons, AbsNode.sumRes, List.foldr_cons]
        have : absContribAt a p = a.capacity := by
          simp only [Bool.and_eq_true, decide_eq_true_eq, Bool.not_eq_eq_eq_not, Bool.not_true] at hc
          simp [absContribAt, hp, hc.1, hc.2]
        rw [this]
      · rw [List.filter_cons_of_neg (p := fun (a : AbsNode) => decide (a.pool = p) && !a.markedForDeletion) hc]
        have : absContribAt a p = Res.zero := by
          unfold absContribAt
          rw [if_neg]
          intro x
          apply hc
          simp [x.2.1, x.2.2]
        rw [this, Res.zero_add]

theorem mem_absPids_of_some (api : Api) (g : Ghost) (pid : String) (h : (absNodeAt api g pid).isSome = true) :
    pid ∈ absPids api := by
  unfold absPids
  rw [mem_dedup, List.mem_append]
  unfold absNodeAt at h
  dsimp only at h
  cases hn : api.nodes.vals.find? (fun n => nodeKey n = some pid) with
  | some v =>
    left
    rw [List.mem_filterMap]
    exact ⟨v, List.mem_of_find?_eq_some hn, by have := List.find?_some hn; simpa using this⟩
  | none =>
    cases hc : api.claims.vals.find? (fun c => claimKey c = some pid) with
    | some cl =>
      right
      rw [List.mem_filterMap]
      exact ⟨cl, List.mem_of_find?_eq_some hc, by have := List.find?_some hc; simpa using this⟩
    | none => rw [hn, hc] at h; simp at h

/-- at quiescence the incremental totals equal the from-scratch totals -/
theorem quiescent_poolRes {c : Cluster} {api : Api} {g : Ghost} (hp : PoolInv c)
    (hobjs : ∀ pid, (Map.get c.nodes pid).map SNode.objs = (absNodeAt api g pid).map absObjs) (p : String) :
    Map.getD c.poolRes p Res.zero = absPoolRes api g p := by
  rw [hp.sum p, poolSum_eq_sumOver, absPoolRes_eq, absNodes, sumOver_filterMap]
  rw [sumOver_map_keys c.nodes (absPids api) (fun s => contribAt s p) hp.nodup (nodup_dedup _)]
  · apply sumOver_congr
    intro k _
    have := hobjs k
    cases hs : Map.get c.nodes k with
    | none =>
      rw [hs] at this
      cases ha : absNodeAt api g k with
      | none => rfl
      | some a => rw [ha] at this; simp at this
    | some s =>
      rw [hs] at this
      cases ha : absNodeAt api g k with
      | none => rw [ha] at this; simp at this
      | some a =>
        rw [ha] at this
        simp only [Option.map_some, Option.some.injEq] at this
        exact contribAt_of_objs s a this p
  · intro k hk
    apply mem_absPids_of_some api g k
    have := hobjs k
    have hs := (Map.mem_keys_iff c.nodes k).mp hk
    cases hg : Map.get c.nodes k with
    | none => rw [hg] at hs; simp at hs
    | some s =>
      rw [hg] at this
      cases ha : absNodeAt api g k with
      | none => rw [ha] at this; simp at this
      | some a => rfl

end Karp.ClusterState
