/-
Helper lemmas for C17 (reservation manager ledger, NodeClaim reservation protocol).
-/
import Karp.Model.Reservation
import Karp.Proofs.ReqLemmas

namespace Karp.Reservation

/-! ### Association-list / filter basics -/

theorem remaining_cons (m : List (Id × Int)) (holds : List (Host × Id)) (id : Id) (c : Int) (x : Id) :
    RM.remaining { capacity := (id, c) :: m, holds := holds } x
      = if x = id then c else RM.remaining { capacity := m, holds := holds } x := by
  unfold RM.remaining
  simp only [List.lookup_cons]
  by_cases h : x = id
  · subst h; simp
  · have : (x == id) = false := by simpa using h
    simp [this, h]

theorem known_cons (m : List (Id × Int)) (holds : List (Host × Id)) (id : Id) (c : Int) (x : Id) :
    RM.known { capacity := (id, c) :: m, holds := holds } x
      = (x == id || RM.known { capacity := m, holds := holds } x) := by
  unfold RM.known
  simp only [List.lookup_cons]
  by_cases h : x = id
  · subst h; simp
  · have : (x == id) = false := by simpa using h
    simp [this]

theorem remaining_holds_irrel (m : List (Id × Int)) (h1 h2 : List (Host × Id)) (x : Id) :
    RM.remaining { capacity := m, holds := h1 } x = RM.remaining { capacity := m, holds := h2 } x := rfl

theorem length_filter_remove {α : Type} [BEq α] [LawfulBEq α] (q : α → Bool) (a : α) (hq : q a = true) :
    ∀ l : List α, l.Nodup → a ∈ l →
      ((l.filter (fun p => p != a)).filter q).length + 1 = (l.filter q).length := by
  intro l
  induction l with
  | nil => intro _ h; cases h
  | cons b l ih =>
    intro hnd hmem
    rw [List.nodup_cons] at hnd
    by_cases hb : b = a
    · subst hb
      have hnot : ∀ p ∈ l, (p != b) = true := by
        intro p hp
        have : p ≠ b := fun e => hnd.1 (e ▸ hp)
        simpa using this
      have : l.filter (fun p => p != b) = l := List.filter_eq_self.mpr hnot
      simp [this, hq]
    · have hmem' : a ∈ l := by
        cases hmem with
        | head => exact absurd rfl hb
        | tail _ h => exact h
      have := ih hnd.2 hmem'
      have hba : (b != a) = true := by simpa using hb
      rw [List.filter_cons, if_pos hba]
      by_cases hqb : q b = true
      · rw [List.filter_cons, if_pos hqb, List.filter_cons, if_pos hqb]
        simp only [List.length_cons]; omega
      · rw [List.filter_cons, if_neg hqb, List.filter_cons, if_neg hqb]
        exact this

theorem filter_remove_other {α : Type} [BEq α] [LawfulBEq α] (q : α → Bool) (a : α) (hq : q a = false) (l : List α) :
    (l.filter (fun p => p != a)).filter q = l.filter q := by
  rw [List.filter_filter]
  apply List.filter_congr
  intro p _
  by_cases hp : p = a
  · subst hp; simp [hq]
  · have : (p != a) = true := by simpa using hp
    simp [this]

theorem contains_filter_ne {α : Type} [BEq α] [LawfulBEq α] (l : List α) (a b : α) :
    (l.filter (fun p => p != a)).contains b = (l.contains b && (b != a)) := by
  rw [Bool.eq_iff_iff]
  simp only [List.contains_iff_mem, List.mem_filter, Bool.and_eq_true]

/-! ### Field views of the manager after one loop iteration -/

theorem has_def (rm : RM) (h : Host) (id : Id) : rm.has h id = rm.holds.contains (h, id) := rfl

theorem has_iff_mem (rm : RM) (h : Host) (id : Id) : rm.has h id = true ↔ (h, id) ∈ rm.holds := by
  rw [has_def, List.contains_iff_mem]

theorem holders_def (rm : RM) (x : Id) : rm.holders x = (rm.holds.filter (fun p => p.2 == x)).length := rfl

/-- the three possible results of one `Reserve` iteration -/
theorem reserve1_cases (rm : RM) (h : Host) (id : Id) :
    (rm.has h id = true ∧ rm.reserve1 h id = .ok rm) ∨
    (rm.has h id = false ∧ rm.remaining id < 1 ∧ rm.reserve1 h id = .error .overReserve) ∨
    (rm.has h id = false ∧ 1 ≤ rm.remaining id ∧
      rm.reserve1 h id = .ok { capacity := (id, rm.remaining id - 1) :: rm.capacity, holds := (h, id) :: rm.holds }) := by
  unfold RM.reserve1
  by_cases hh : rm.has h id = true
  · left; simp [hh]; rfl
  · have hf : rm.has h id = false := by simpa using hh
    right
    by_cases hc : rm.remaining id - 1 < 0
    · left; refine ⟨hf, by omega, ?_⟩; simp [hf, hc]; rfl
    · right; refine ⟨hf, by omega, ?_⟩; simp [hf, hc]; rfl

theorem release1_cases (rm : RM) (h : Host) (id : Id) :
    (rm.has h id = false ∧ rm.release1 h id = rm) ∨
    (rm.has h id = true ∧
      rm.release1 h id = { capacity := (id, rm.remaining id + 1) :: rm.capacity,
                           holds := rm.holds.filter (fun p => p != (h, id)) }) := by
  unfold RM.release1
  by_cases hh : rm.has h id = true
  · right; simp [hh]
  · have hf : rm.has h id = false := by simpa using hh
    left; simp [hf]

/-! ### The ledger invariant (any op sequence) -/

/-- remaining slots + holders = initial capacity, remaining never negative, no duplicate holder entries -/
structure Ledger (cap0 : Id → Int) (rm : RM) : Prop where
  nodup : rm.holds.Nodup
  sum : ∀ id, rm.remaining id + (rm.holders id : Int) = cap0 id
  nonneg : ∀ id, 0 ≤ rm.remaining id

theorem ledger_reserve1 (cap0 : Id → Int) (rm rm' : RM) (h : Host) (id : Id)
    (L : Ledger cap0 rm) (hr : rm.reserve1 h id = .ok rm') : Ledger cap0 rm' := by
  rcases reserve1_cases rm h id with ⟨_, e⟩ | ⟨_, _, e⟩ | ⟨hf, hc, e⟩
  · rw [e] at hr; cases hr; exact L
  · rw [e] at hr; cases hr
  · rw [e] at hr; cases hr
    have hnm : (h, id) ∉ rm.holds := by
      intro hm; have := (has_iff_mem rm h id).mpr hm; rw [hf] at this; cases this
    refine ⟨List.nodup_cons.mpr ⟨hnm, L.nodup⟩, ?_, ?_⟩
    · intro x
      rw [remaining_cons, holders_def]
      simp only [List.filter_cons]
      by_cases hx : x = id
      · subst hx
        have := L.sum x
        rw [holders_def] at this
        simp only [BEq.rfl, if_true, List.length_cons]
        simp only [RM.remaining] at this ⊢
        push_cast; omega
      · have hne : (id == x) = false := by simpa using (fun e => hx e.symm)
        simp only [hx, hne, if_false]
        have := L.sum x
        rw [holders_def] at this
        exact this
    · intro x
      rw [remaining_cons]
      by_cases hx : x = id
      · subst hx; simp only [if_true]; omega
      · simp only [hx, if_false]; exact L.nonneg x

theorem ledger_reserve (cap0 : Id → Int) (h : Host) :
    ∀ (ids : List Id) (rm rm' : RM), Ledger cap0 rm → rm.reserve h ids = .ok rm' → Ledger cap0 rm' := by
  intro ids
  induction ids with
  | nil => intro rm rm' L hr; simp [RM.reserve, pure, Except.pure] at hr; subst hr; exact L
  | cons id ids ih =>
    intro rm rm' L hr
    unfold RM.reserve at hr
    cases h1 : rm.reserve1 h id with
    | error p => rw [h1] at hr; cases hr
    | ok rm1 =>
      rw [h1] at hr
      exact ih rm1 rm' (ledger_reserve1 cap0 rm rm1 h id L h1) hr

theorem ledger_release1 (cap0 : Id → Int) (rm : RM) (h : Host) (id : Id) (L : Ledger cap0 rm) :
    Ledger cap0 (rm.release1 h id) := by
  rcases release1_cases rm h id with ⟨_, e⟩ | ⟨ht, e⟩
  · rw [e]; exact L
  · rw [e]
    have hm : (h, id) ∈ rm.holds := (has_iff_mem rm h id).mp ht
    refine ⟨L.nodup.filter _, ?_, ?_⟩
    · intro x
      rw [remaining_cons, holders_def]
      dsimp only
      by_cases hx : x = id
      · subst hx
        have hl := length_filter_remove (fun p : Host × Id => p.2 == x) (h, x) (by simp) rm.holds L.nodup hm
        have := L.sum x
        rw [holders_def] at this
        simp only [if_true]
        simp only [RM.remaining] at this ⊢
        omega
      · have hq : (fun p : Host × Id => p.2 == x) (h, id) = false := by
          simpa using (fun e : id = x => hx e.symm)
        rw [filter_remove_other (fun p : Host × Id => p.2 == x) (h, id) hq]
        simp only [hx, if_false]
        have := L.sum x
        rw [holders_def] at this
        exact this
    · intro x
      rw [remaining_cons]
      by_cases hx : x = id
      · subst hx; simp only [if_true]; have := L.nonneg x; omega
      · simp only [hx, if_false]; exact L.nonneg x

theorem ledger_release (cap0 : Id → Int) (h : Host) :
    ∀ (ids : List Id) (rm : RM), Ledger cap0 rm → Ledger cap0 (rm.release h ids) := by
  intro ids
  induction ids with
  | nil => intro rm L; exact L
  | cons id ids ih => intro rm L; exact ih _ (ledger_release1 cap0 rm h id L)

theorem ledger_stepOp (cap0 : Id → Int) (rm rm' : RM) (op : Op) (o : Obs)
    (L : Ledger cap0 rm) (hs : stepOp rm op = .ok (rm', o)) : Ledger cap0 rm' := by
  cases op with
  | canReserve h id =>
    simp only [stepOp] at hs
    cases hc : rm.canReserve h id with
    | error p => rw [hc] at hs; cases hs
    | ok b => rw [hc] at hs; cases hs; exact L
  | reserve h ids =>
    simp only [stepOp] at hs
    cases hc : rm.reserve h ids with
    | error p => rw [hc] at hs; cases hs
    | ok r => rw [hc] at hs; cases hs; exact ledger_reserve cap0 h ids rm _ L hc
  | guarded h ids =>
    simp only [stepOp] at hs
    cases ht : toReserve rm h ids with
    | error p => rw [ht] at hs; cases hs
    | ok rs =>
      rw [ht] at hs
      simp only at hs
      cases hc : rm.reserve h rs with
      | error p => rw [hc] at hs; cases hs
      | ok r => rw [hc] at hs; cases hs; exact ledger_reserve cap0 h rs rm _ L hc
  | release h ids =>
    simp only [stepOp, pure, Except.pure] at hs; cases hs; exact ledger_release cap0 h ids rm L
  | has h id => simp only [stepOp, pure, Except.pure] at hs; cases hs; exact L
  | remaining id => simp only [stepOp, pure, Except.pure] at hs; cases hs; exact L

theorem ledger_runState (cap0 : Id → Int) :
    ∀ (ops : List Op) (rm rm' : RM), Ledger cap0 rm → runState rm ops = some rm' → Ledger cap0 rm' := by
  intro ops
  induction ops with
  | nil => intro rm rm' L h; simp [runState] at h; subst h; exact L
  | cons op ops ih =>
    intro rm rm' L h
    unfold runState at h
    cases hs : stepOp rm op with
    | error p => rw [hs] at h; cases h
    | ok r =>
      obtain ⟨rm1, o⟩ := r
      rw [hs] at h
      exact ih rm1 rm' (ledger_stepOp cap0 rm rm1 op o L hs) h

/-! ### `NewReservationManager` -/

theorem insertMin_nonneg (m : List (Id × Int)) (o : Id × Int) (ho : 0 ≤ o.2) (hm : ∀ e ∈ m, 0 ≤ e.2) :
    ∀ e ∈ insertMin m o, 0 ≤ e.2 := by
  unfold insertMin
  intro e he
  split at he
  · split at he
    · cases he with
      | head => exact ho
      | tail _ h => exact hm e h
    · exact hm e he
  · cases he with
    | head => exact ho
    | tail _ h => exact hm e h

theorem foldr_nonneg (offerings : List (Id × Int)) (h : ∀ o ∈ offerings, 0 ≤ o.2) :
    ∀ e ∈ offerings.foldr (fun o m => insertMin m o) [], 0 ≤ e.2 := by
  induction offerings with
  | nil => intro e he; cases he
  | cons o os ih =>
    simp only [List.foldr_cons]
    exact insertMin_nonneg _ o (h o (List.mem_cons_self ..)) (ih (fun o' ho' => h o' (List.mem_cons_of_mem _ ho')))

theorem lookup_mem {m : List (Id × Int)} {id : Id} {c : Int} (h : m.lookup id = some c) : (id, c) ∈ m := by
  induction m with
  | nil => simp at h
  | cons e m ih =>
    obtain ⟨k, v⟩ := e
    rw [List.lookup_cons] at h
    by_cases hk : id = k
    · subst hk; simp at h; subst h; exact List.mem_cons_self ..
    · have : (id == k) = false := by simpa using hk
      simp [this] at h
      exact List.mem_cons_of_mem _ (ih h)

theorem ledger_new (offerings : List (Id × Int)) (h : ∀ o ∈ offerings, 0 ≤ o.2) :
    Ledger (fun id => (RM.new offerings).remaining id) (RM.new offerings) := by
  refine ⟨by simp [RM.new], ?_, ?_⟩
  · intro id; simp [RM.new, RM.holders]
  · intro id
    unfold RM.remaining
    cases hl : (RM.new offerings).capacity.lookup id with
    | none => simp
    | some c =>
      simp only [Option.getD_some]
      exact foldr_nonneg offerings h (id, c) (lookup_mem hl)

theorem lookup_insertMin_ne (m : List (Id × Int)) (k : Id) (c : Int) (id : Id) (h : id ≠ k) :
    (insertMin m (k, c)).lookup id = m.lookup id := by
  have hne : (id == k) = false := by simpa using h
  have hlk : List.lookup id ((k, c) :: m) = List.lookup id m := by rw [List.lookup_cons]; simp [hne]
  unfold insertMin
  split
  · split
    · exact hlk
    · rfl
  · exact hlk

theorem lookup_insertMin_eq (m : List (Id × Int)) (k : Id) (c : Int) :
    (insertMin m (k, c)).lookup k =
      some (match m.lookup k with | some cur => if cur > c then c else cur | none => c) := by
  unfold insertMin
  cases hl : m.lookup k with
  | none => simp
  | some cur =>
    by_cases hgt : cur > c
    · simp [hgt]
    · simp [hgt, hl]

/-- `NewReservationManager` keeps, per reservation id, the least capacity among the offerings naming it -/
theorem new_min (offerings : List (Id × Int)) (id : Id) :
    ((RM.new offerings).known id = true ↔ ∃ o ∈ offerings, o.1 = id) ∧
    ((RM.new offerings).known id = true →
      (∃ o ∈ offerings, o.1 = id ∧ o.2 = (RM.new offerings).remaining id) ∧
      (∀ o ∈ offerings, o.1 = id → (RM.new offerings).remaining id ≤ o.2)) := by
  induction offerings with
  | nil => simp [RM.new, RM.known]
  | cons o os ih =>
    obtain ⟨k, c⟩ := o
    have hcap : (RM.new ((k, c) :: os)).capacity = insertMin (RM.new os).capacity (k, c) := rfl
    unfold RM.known RM.remaining at ih ⊢
    rw [hcap]
    by_cases hk : id = k
    · subst hk
      rw [lookup_insertMin_eq]
      cases hl : (RM.new os).capacity.lookup id with
      | none =>
        simp only [hl] at ih
        simp only [Option.isSome_some, Option.getD_some, true_iff, true_implies]
        refine ⟨⟨_, List.mem_cons_self .., rfl⟩, ⟨_, List.mem_cons_self .., rfl, rfl⟩, ?_⟩
        intro o ho hoid
        cases ho with
        | head => exact Int.le_refl _
        | tail _ ho =>
          exfalso
          have := ih.1.mpr ⟨o, ho, hoid⟩
          simp at this
      | some cur =>
        simp only [hl, Option.isSome_some, Option.getD_some, true_iff, true_implies] at ih
        simp only [Option.isSome_some, Option.getD_some, true_iff, true_implies]
        obtain ⟨⟨o1, ho1, ho1id⟩, ⟨o2, ho2, ho2id, ho2c⟩, hmin⟩ := ih
        by_cases hgt : cur > c
        · simp only [hgt, if_true]
          refine ⟨⟨_, List.mem_cons_self .., rfl⟩, ⟨_, List.mem_cons_self .., rfl, rfl⟩, ?_⟩
          intro o ho hoid
          cases ho with
          | head => exact Int.le_refl _
          | tail _ ho => have := hmin o ho hoid; omega
        · simp only [hgt, if_false]
          refine ⟨⟨o1, List.mem_cons_of_mem _ ho1, ho1id⟩, ⟨o2, List.mem_cons_of_mem _ ho2, ho2id, ho2c⟩, ?_⟩
          intro o ho hoid
          cases ho with
          | head => show cur ≤ c; omega
          | tail _ ho => exact hmin o ho hoid
    · have hkne : ¬ k = id := fun e => hk e.symm
      have hex : (∃ o ∈ (k, c) :: os, o.1 = id) ↔ (∃ o ∈ os, o.1 = id) := by
        constructor
        · rintro ⟨o, ho, hoid⟩
          cases ho with
          | head => exact absurd hoid hkne
          | tail _ ho => exact ⟨o, ho, hoid⟩
        · rintro ⟨o, ho, hoid⟩; exact ⟨o, List.mem_cons_of_mem _ ho, hoid⟩
      rw [lookup_insertMin_ne _ _ _ _ hk, hex]
      refine ⟨ih.1, ?_⟩
      intro hkn
      obtain ⟨⟨o2, ho2, ho2id, ho2c⟩, hmin⟩ := ih.2 hkn
      refine ⟨⟨o2, List.mem_cons_of_mem _ ho2, ho2id, ho2c⟩, ?_⟩
      intro o ho hoid
      cases ho with
      | head => exact absurd hoid hkne
      | tail _ ho => exact hmin o ho hoid

/-! ### The protocol: `Reserve` / `Release` on whole id lists, the claim list, the pass invariant -/

theorem has_cons (m : List (Id × Int)) (holds : List (Host × Id)) (h h' : Host) (id x : Id) :
    RM.has { capacity := m, holds := (h, id) :: holds } h' x
      = ((h' == h && x == id) || RM.has { capacity := m, holds := holds } h' x) := by
  unfold RM.has
  rw [List.contains_cons]
  rfl

theorem has_filter (m : List (Id × Int)) (holds : List (Host × Id)) (h h' : Host) (id x : Id) :
    RM.has { capacity := m, holds := holds.filter (fun p => p != (h, id)) } h' x
      = (RM.has { capacity := m, holds := holds } h' x && !(h' == h && x == id)) := by
  unfold RM.has
  rw [contains_filter_ne]
  rfl

theorem reserve_spec (h : Host) : ∀ (ids : List Id) (rm : RM),
    (∀ id ∈ ids, rm.has h id = true ∨ 1 ≤ rm.remaining id) →
    ∃ rm', rm.reserve h ids = .ok rm' ∧
      (∀ h' x, rm'.has h' x = ((h' == h && ids.contains x) || rm.has h' x)) ∧
      (∀ x, rm'.remaining x = rm.remaining x - (if ids.contains x && !rm.has h x then 1 else 0)) ∧
      (∀ x, rm.known x = true → rm'.known x = true) := by
  intro ids
  induction ids with
  | nil => intro rm _; exact ⟨rm, rfl, by simp, by simp, fun _ hx => hx⟩
  | cons id ids ih =>
    intro rm hpre
    unfold RM.reserve
    rcases reserve1_cases rm h id with ⟨hh, e⟩ | ⟨hf, hc, _⟩ | ⟨hf, hc, e⟩
    · -- already held: no-op
      rw [e]
      obtain ⟨rm', hr, hhas, hrem, hkn⟩ := ih rm (fun i hi => hpre i (List.mem_cons_of_mem _ hi))
      refine ⟨rm', hr, ?_, ?_, hkn⟩
      · intro h' x
        rw [hhas, List.contains_cons]
        by_cases hx : x = id
        · subst hx
          by_cases hh' : h' = h
          · subst hh'; simp [hh]
          · have : (h' == h) = false := by simpa using hh'
            simp [this]
        · have : (x == id) = false := by simpa using hx
          simp [this]
      · intro x
        rw [hrem, List.contains_cons]
        by_cases hx : x = id
        · subst hx; simp [hh]
        · have : (x == id) = false := by simpa using hx
          simp [this]
    · exfalso
      rcases hpre id (List.mem_cons_self ..) with h1 | h1
      · rw [hf] at h1; cases h1
      · omega
    · rw [e]
      have hpre' : ∀ i ∈ ids, RM.has { capacity := (id, rm.remaining id - 1) :: rm.capacity, holds := (h, id) :: rm.holds } h i = true
          ∨ 1 ≤ RM.remaining { capacity := (id, rm.remaining id - 1) :: rm.capacity, holds := (h, id) :: rm.holds } i := by
        intro i hi
        rw [has_cons, remaining_cons]
        by_cases hx : i = id
        · subst hx; left; simp
        · have : (i == id) = false := by simpa using hx
          simp only [this, Bool.and_false, Bool.false_or, hx, if_false]
          exact hpre i (List.mem_cons_of_mem _ hi)
      obtain ⟨rm', hr, hhas, hrem, hkn⟩ := ih _ hpre'
      refine ⟨rm', hr, ?_, ?_, ?_⟩
      · intro h' x
        rw [hhas, has_cons, List.contains_cons]
        show _ = (_ || rm.has h' x)
        change (h' == h && ids.contains x || (h' == h && x == id || rm.has h' x)) = _
        cases (h' == h) <;> cases (x == id) <;> cases (ids.contains x) <;> simp
      · intro x
        rw [hrem, has_cons, remaining_cons, List.contains_cons]
        change (if x = id then rm.remaining id - 1 else rm.remaining x) - _ = _
        by_cases hx : x = id
        · subst hx
          simp [hf]
        · have : (x == id) = false := by simpa using hx
          simp only [hx, if_false, this, Bool.and_false, Bool.false_or]
          rfl
      · intro x hx
        apply hkn
        rw [known_cons]
        simp only [Bool.or_eq_true]
        right; exact hx

theorem release_spec (h : Host) : ∀ (ids : List Id) (rm : RM),
    (∀ h' x, (rm.release h ids).has h' x = (rm.has h' x && !(h' == h && ids.contains x))) ∧
    (∀ x, (rm.release h ids).remaining x = rm.remaining x + (if ids.contains x && rm.has h x then 1 else 0)) ∧
    (∀ x, rm.known x = true → (rm.release h ids).known x = true) := by
  intro ids
  induction ids with
  | nil => intro rm; exact ⟨by simp [RM.release], by simp [RM.release], fun _ hx => hx⟩
  | cons id ids ih =>
    intro rm
    unfold RM.release
    obtain ⟨hhas, hrem, hkn⟩ := ih (rm.release1 h id)
    rcases release1_cases rm h id with ⟨hf, e⟩ | ⟨ht, e⟩
    · rw [e] at hhas hrem hkn ⊢
      refine ⟨?_, ?_, hkn⟩
      · intro h' x
        rw [hhas, List.contains_cons]
        by_cases hx : x = id
        · subst hx
          by_cases hh' : h' = h
          · subst hh'; simp [hf]
          · have : (h' == h) = false := by simpa using hh'
            simp [this]
        · have : (x == id) = false := by simpa using hx
          simp [this]
      · intro x
        rw [hrem, List.contains_cons]
        by_cases hx : x = id
        · subst hx; simp [hf]
        · have : (x == id) = false := by simpa using hx
          simp [this]
    · rw [e] at hhas hrem hkn ⊢
      refine ⟨?_, ?_, ?_⟩
      · intro h' x
        rw [hhas, has_filter, List.contains_cons]
        change (rm.has h' x && !(h' == h && x == id) && !(h' == h && ids.contains x)) = _
        cases (h' == h) <;> cases (x == id) <;> cases (ids.contains x) <;> simp
      · intro x
        rw [hrem, has_filter, remaining_cons, List.contains_cons]
        change (if x = id then rm.remaining id + 1 else rm.remaining x) + (if (ids.contains x && (rm.has h x && !(h == h && x == id))) = true then 1 else 0) = _
        by_cases hx : x = id
        · subst hx; simp [ht]
        · have : (x == id) = false := by simpa using hx
          simp [hx, this]
      · intro x hx
        apply hkn
        rw [known_cons]
        simp only [Bool.or_eq_true]
        right; exact hx

theorem canReserve_known (rm : RM) (h : Host) (id : Id) (hk : rm.known id = true) :
    rm.canReserve h id = .ok (rm.has h id || rm.remaining id != 0) := by
  unfold RM.canReserve RM.known RM.remaining at *
  by_cases hh : rm.has h id = true
  · simp [hh]; rfl
  · have hf : rm.has h id = false := by simpa using hh
    cases hl : rm.capacity.lookup id with
    | none => rw [hl] at hk; cases hk
    | some c => simp [hf]; rfl

theorem toReserve_known (rm : RM) (h : Host) : ∀ (compat : List Id), (∀ id ∈ compat, rm.known id = true) →
    toReserve rm h compat = .ok (compat.filter (fun id => rm.has h id || rm.remaining id != 0)) := by
  intro compat
  induction compat with
  | nil => intro _; rfl
  | cons id ids ih =>
    intro hk
    unfold toReserve
    rw [canReserve_known rm h id (hk id (List.mem_cons_self ..)), ih (fun i hi => hk i (List.mem_cons_of_mem _ hi))]
    simp only [List.filter_cons]
    cases (rm.has h id || rm.remaining id != 0) <;> rfl

/-! ### The claim list -/

def claimOf (claims : List Claim) (h : Host) : Claim :=
  (claims.find? (fun c => c.host == h)).getD { host := h, reserved := [] }

theorem claim_eq (st : St) (h : Host) : st.claim h = claimOf st.claims h := rfl

theorem claimOf_cons (d : Claim) (ds : List Claim) (h : Host) :
    claimOf (d :: ds) h = if d.host = h then d else claimOf ds h := by
  unfold claimOf
  rw [List.find?_cons]
  by_cases hd : d.host = h
  · simp [hd]
  · have : (d.host == h) = false := by simpa using hd
    simp [this, hd]

theorem claimOf_filter_ne (ds : List Claim) (g h : Host) (hne : h ≠ g) :
    claimOf (ds.filter (fun d => d.host != g)) h = claimOf ds h := by
  induction ds with
  | nil => rfl
  | cons d ds ih =>
    rw [List.filter_cons]
    by_cases hd : d.host = g
    · have : (d.host != g) = false := by simp [hd]
      rw [if_neg (by simp [this]), ih, claimOf_cons]
      have : ¬ d.host = h := by rw [hd]; exact fun e => hne e.symm
      simp [this]
    · have : (d.host != g) = true := by simpa using hd
      rw [if_pos this, claimOf_cons, claimOf_cons, ih]

theorem claimOf_fresh (ds : List Claim) (h : Host) (hf : h ∉ ds.map (·.host)) :
    claimOf ds h = { host := h, reserved := [] } := by
  induction ds with
  | nil => rfl
  | cons d ds ih =>
    rw [claimOf_cons]
    simp only [List.map_cons, List.mem_cons, not_or] at hf
    have : ¬ d.host = h := fun e => hf.1 e.symm
    simp only [this, if_false]
    exact ih hf.2

theorem holdersOf_cons (d : Claim) (ds : List Claim) (x : Id) :
    holdersOf (d :: ds) x = (if d.reserved.contains x then 1 else 0) + holdersOf ds x := by
  unfold holdersOf
  rw [List.filter_cons]
  by_cases hc : d.reserved.contains x = true
  · rw [if_pos hc, if_pos hc, List.length_cons]; omega
  · rw [if_neg hc, if_neg hc]; omega

theorem filter_host_fresh (ds : List Claim) (h : Host) (hf : h ∉ ds.map (·.host)) :
    ds.filter (fun d => d.host != h) = ds := by
  apply List.filter_eq_self.mpr
  intro d hd
  have : d.host ≠ h := fun e => hf (e ▸ List.mem_map_of_mem hd)
  simpa using this

theorem holdersOf_split (ds : List Claim) (h : Host) (x : Id) (hn : (ds.map (·.host)).Nodup) :
    holdersOf ds x = holdersOf (ds.filter (fun d => d.host != h)) x
      + (if (claimOf ds h).reserved.contains x then 1 else 0) := by
  induction ds with
  | nil => simp [holdersOf, claimOf]
  | cons d ds ih =>
    simp only [List.map_cons, List.nodup_cons] at hn
    rw [List.filter_cons, claimOf_cons, holdersOf_cons]
    by_cases hd : d.host = h
    · subst hd
      have hne : ¬ ((d.host != d.host) = true) := by simp
      rw [if_neg hne, filter_host_fresh ds d.host hn.1, if_pos rfl]
      omega
    · have : (d.host != h) = true := by simpa using hd
      rw [if_pos this, holdersOf_cons, ih hn.2, if_neg hd]
      omega

theorem claimOf_host (ds : List Claim) (h : Host) : (claimOf ds h).host = h := by
  induction ds with
  | nil => rfl
  | cons d ds ih =>
    rw [claimOf_cons]
    by_cases hd : d.host = h
    · simp [hd]
    · simp [hd, ih]

theorem contains_filter {α : Type} [BEq α] [LawfulBEq α] (l : List α) (p : α → Bool) (a : α) :
    (l.filter p).contains a = (l.contains a && p a) := by
  rw [Bool.eq_iff_iff]
  simp only [List.contains_iff_mem, List.mem_filter, Bool.and_eq_true]

/-- the invariant of a pass: per reservation id the remaining slots plus the claims holding it add up to the initial
    capacity, the manager's view of who holds what equals the claims' own `reservedOfferings`, hostnames are unique -/
structure Proto (K : List Id) (cap0 : Id → Int) (st : St) : Prop where
  nonneg : ∀ id, 0 ≤ st.rm.remaining id
  sum : ∀ id, st.rm.remaining id + (holdersOf st.claims id : Int) = cap0 id
  held : ∀ h id, st.rm.has h id = (claimOf st.claims h).reserved.contains id
  hosts : (st.claims.map (·.host)).Nodup
  known : ∀ id ∈ K, st.rm.known id = true

theorem add_preserves (K : List Id) (cap0 : Id → Int) (st : St) (h : Host) (ids : List Id)
    (P : Proto K cap0 st)
    (hpre : ∀ id ∈ ids, st.rm.has h id = true ∨ 1 ≤ st.rm.remaining id) :
    ∃ rm', addReserved st.rm (st.claim h) ids = .ok (rm', { host := h, reserved := ids }) ∧
      Proto K cap0 (st.put rm' { host := h, reserved := ids }) := by
  obtain ⟨rm1, hr, hhas1, hrem1, hkn1⟩ := reserve_spec h ids st.rm hpre
  have hhost : (st.claim h).host = h := by rw [claim_eq]; exact claimOf_host _ _
  let old := (claimOf st.claims h).reserved
  let L := old.filter (fun id => !ids.contains id)
  obtain ⟨hhas2, hrem2, hkn2⟩ := release_spec h L rm1
  refine ⟨rm1.release h L, ?_, ?_⟩
  · unfold addReserved
    rw [hhost, hr]
    rfl
  · have hLc : ∀ x, L.contains x = (old.contains x && !ids.contains x) := fun x => contains_filter old _ x
    have hheld : ∀ x, st.rm.has h x = old.contains x := fun x => P.held h x
    have hclaims : (st.put (rm1.release h L) { host := h, reserved := ids }).claims
        = { host := h, reserved := ids } :: st.claims.filter (fun d => d.host != h) := rfl
    have hrm : (st.put (rm1.release h L) { host := h, reserved := ids }).rm = rm1.release h L := rfl
    refine ⟨?_, ?_, ?_, ?_, ?_⟩
    · -- nonneg
      intro x
      rw [hrm, hrem2, hrem1, hhas1, hLc, hheld]
      have hn := P.nonneg x
      have h1 : ids.contains x = true → old.contains x = false → 1 ≤ st.rm.remaining x := by
        intro hi ho
        rcases hpre x (List.contains_iff_mem.mp hi) with hh | hh
        · rw [hheld, ho] at hh; cases hh
        · exact hh
      have hb : (h == h) = true := by simp
      rw [hb]
      generalize ids.contains x = bi at *
      generalize old.contains x = bo at *
      cases bi <;> cases bo <;> simp at * <;> omega
    · -- sum
      intro x
      rw [hrm, hclaims, hrem2, hrem1, hhas1, hLc, hheld, holdersOf_cons]
      have hs := P.sum x
      rw [holdersOf_split st.claims h x P.hosts] at hs
      have hn := P.nonneg x
      have hb : (h == h) = true := by simp
      rw [hb]
      change _ + (((if ids.contains x = true then 1 else 0) + holdersOf (st.claims.filter (fun d => d.host != h)) x : Nat) : Int) = _
      change _ + ((holdersOf (st.claims.filter (fun d => d.host != h)) x + (if old.contains x = true then 1 else 0) : Nat) : Int) = _ at hs
      generalize holdersOf (st.claims.filter (fun d => d.host != h)) x = F at *
      generalize ids.contains x = bi at *
      generalize old.contains x = bo at *
      cases bi <;> cases bo <;> simp at * <;> omega
    · -- held
      intro h' x
      rw [hrm, hclaims, hhas2, hhas1, hLc, claimOf_cons]
      by_cases hh : h' = h
      · subst hh
        rw [if_pos rfl, hheld]
        change _ = ids.contains x
        have hb : (h' == h') = true := by simp
        rw [hb]
        cases (ids.contains x) <;> cases (old.contains x) <;> simp
      · have hne : ¬ h = h' := fun e => hh e.symm
        have hb : (h' == h) = false := by simpa using hh
        rw [if_neg hne, claimOf_filter_ne _ _ _ hh, hb, ← P.held h' x]
        simp
    · -- hosts
      rw [hclaims]
      simp only [List.map_cons, List.nodup_cons]
      refine ⟨?_, (List.filter_sublist.map _).nodup P.hosts⟩
      intro hm
      obtain ⟨d, hd, hdh⟩ := List.mem_map.mp hm
      have := (List.mem_filter.mp hd).2
      simp [hdh] at this
    · -- known
      intro id hid
      rw [hrm]
      exact hkn2 id (hkn1 id (P.known id hid))


/-- the filter `offeringsToReserve` applies -/
abbrev reservable (rm : RM) (h : Host) (compat : List Id) : List Id :=
  compat.filter (fun id => rm.has h id || rm.remaining id != 0)

/-- closed form of `offeringsToReserve` when every compatible id is known to the manager (no panic) -/
theorem offeringsToReserve_known (gate : Bool) (mode : Nat) (rm : RM) (c : Claim) (compat : List Id)
    (hk : ∀ id ∈ compat, rm.known id = true) :
    offeringsToReserve gate mode rm c compat = .ok (
      if !gate then some [] else
      if mode == strictMode && ((!compat.isEmpty && (reservable rm c.host compat).isEmpty)
          || (!c.reserved.isEmpty && (reservable rm c.host compat).isEmpty)) then none
      else some (reservable rm c.host compat)) := by
  unfold offeringsToReserve
  cases gate with
  | false => rfl
  | true =>
    simp only [Bool.not_true, Bool.false_eq_true, if_false]
    rw [toReserve_known rm c.host compat hk]
    dsimp only
    split <;> rfl

theorem round_preserves (K : List Id) (cap0 : Id → Int) (gate : Bool) (mode : Nat) (st : St) (r : Round)
    (P : Proto K cap0 st) (hk : ∀ id ∈ r.compat, id ∈ K) :
    ∃ st' b, round gate mode st r = .ok (st', b) ∧ Proto K cap0 st' := by
  have hhost : (st.claim r.host).host = r.host := by rw [claim_eq]; exact claimOf_host _ _
  have hadd : ∀ ids, (∀ id ∈ ids, st.rm.has r.host id = true ∨ 1 ≤ st.rm.remaining id) →
      ∃ st' b, (match addReserved st.rm (st.claim r.host) ids with
        | Except.error p => Except.error p
        | Except.ok (rm', c') => (pure (st.put rm' c', true) : Except Panic (St × Bool))) = .ok (st', b) ∧ Proto K cap0 st' := by
    intro ids hpre
    obtain ⟨rm', hadd, P'⟩ := add_preserves K cap0 st r.host ids P hpre
    rw [hadd]
    exact ⟨_, true, rfl, P'⟩
  unfold round
  dsimp only
  rw [offeringsToReserve_known gate mode st.rm _ r.compat (fun id hid => P.known id (hk id hid)), hhost]
  split
  · rename_i heq; cases heq
  · exact ⟨st, false, rfl, P⟩
  · rename_i ids heq
    have hids : ids = [] ∨ ids = reservable st.rm r.host r.compat := by
      injection heq with heq
      split at heq
      · left; injection heq with heq; exact heq.symm
      · split at heq
        · cases heq
        · right; injection heq with heq; exact heq.symm
    apply hadd
    intro id hid
    rcases hids with e | e
    · subst e; cases hid
    · subst e
      have := (List.mem_filter.mp hid).2
      simp only [Bool.or_eq_true, bne_iff_ne, ne_eq] at this
      rcases this with h1 | h1
      · exact Or.inl h1
      · right; have := P.nonneg id; omega

theorem rounds_preserves (K : List Id) (cap0 : Id → Int) (gate : Bool) (mode : Nat) :
    ∀ (rs : List Round) (st : St), Proto K cap0 st → (∀ r ∈ rs, ∀ id ∈ r.compat, id ∈ K) →
      ∃ st', rounds gate mode st rs = .ok st' ∧ Proto K cap0 st' := by
  intro rs
  induction rs with
  | nil => intro st P _; exact ⟨st, rfl, P⟩
  | cons r rs ih =>
    intro st P hk
    obtain ⟨st1, b, hr, P1⟩ := round_preserves K cap0 gate mode st r P (hk r (List.mem_cons_self ..))
    obtain ⟨st2, hrs, P2⟩ := ih st1 P1 (fun r' hr' => hk r' (List.mem_cons_of_mem _ hr'))
    refine ⟨st2, ?_, P2⟩
    unfold rounds
    rw [hr]
    exact hrs

theorem proto_init (offerings : List (Id × Int)) (h : ∀ o ∈ offerings, 0 ≤ o.2) :
    Proto (offerings.map (·.1)) (fun id => (RM.new offerings).remaining id) (St.init offerings) := by
  have L := ledger_new offerings h
  refine ⟨L.nonneg, ?_, ?_, ?_, ?_⟩
  · intro id; simp [St.init, holdersOf]
  · intro hh id; simp [St.init, RM.new, RM.has, claimOf]
  · simp [St.init]
  · intro id hid
    obtain ⟨o, ho, hoid⟩ := List.mem_map.mp hid
    exact (new_min offerings id).1.mpr ⟨o, ho, hoid⟩

theorem claimOf_mem (ds : List Claim) (hn : (ds.map (·.host)).Nodup) : ∀ c ∈ ds, claimOf ds c.host = c := by
  induction ds with
  | nil => intro c hc; cases hc
  | cons d ds ih =>
    intro c hc
    simp only [List.map_cons, List.nodup_cons] at hn
    rw [claimOf_cons]
    cases hc with
    | head => simp
    | tail _ hc =>
      have : ¬ d.host = c.host := fun e => hn.1 (e ▸ List.mem_map_of_mem hc)
      simp only [this, if_false]
      exact ih hn.2 c hc

/-! ### `FinalizeScheduling` on requirements -/

open Karp.Req

theorem lookup_set_eq (R : Reqs) (k : String) (r : Req) : (R.set k r).lookup k = some r := by
  induction R with
  | nil => simp [Reqs.set]
  | cons e R ih =>
    obtain ⟨k', r'⟩ := e
    unfold Reqs.set
    by_cases hk : k' = k
    · simp [hk]
    · have : (k == k') = false := by simpa using (fun e : k = k' => hk e.symm)
      simp only [hk, if_false, List.lookup_cons, this]
      exact ih

theorem lookup_set_ne (R : Reqs) (k k2 : String) (r : Req) (h : k2 ≠ k) : (R.set k r).lookup k2 = R.lookup k2 := by
  induction R with
  | nil =>
    have : (k2 == k) = false := by simpa using h
    simp [Reqs.set, List.lookup_cons, this]
  | cons e R ih =>
    obtain ⟨k', r'⟩ := e
    unfold Reqs.set
    by_cases hk : k' = k
    · subst hk
      have : (k2 == k') = false := by simpa using h
      simp [List.lookup_cons, this]
    · simp only [hk, if_false, List.lookup_cons]
      cases (k2 == k') <;> simp [ih]

theorem get_set_eq (R : Reqs) (k : String) (r : Req) : (R.set k r).get k = r := by
  unfold Reqs.get; rw [lookup_set_eq]

theorem get_set_ne (R : Reqs) (k k2 : String) (r : Req) (h : k2 ≠ k) : (R.set k r).get k2 = R.get k2 := by
  unfold Reqs.get; rw [lookup_set_ne R k k2 r h]

theorem has_inReq (key : String) (vals : List Val) (v : Val) : (inReq key vals).has v = vals.contains v := by
  simp [inReq, Req.has, withinBounds]

theorem has_default (k : String) (v : Val) :
    ({ key := k, complement := true, values := [] } : Req).has v = true := by
  simp [Req.has, withinBounds]

/-- `Requirements.Add` of one requirement, at the level of admitted values -/
theorem has_add1 (R : Reqs) (r : Req) (v : Val) : ((R.add1 r).get r.key).has v = (r.has v && (R.get r.key).has v) := by
  unfold Reqs.add1
  cases hl : R.lookup r.key with
  | none =>
    simp only
    rw [get_set_eq]
    unfold Reqs.get
    rw [hl]
    simp [has_default]
  | some e =>
    simp only
    rw [get_set_eq, has_inter]
    unfold Reqs.get
    rw [hl]

theorem get_add1_ne (R : Reqs) (r : Req) (k : String) (h : k ≠ r.key) : (R.add1 r).get k = R.get k := by
  unfold Reqs.add1
  cases R.lookup r.key <;> exact get_set_ne _ _ _ _ h

end Karp.Reservation
