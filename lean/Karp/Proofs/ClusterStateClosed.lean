/-
C11 helper lemmas: a property of single state nodes that is closed under the per-pod updates holds of every cached state
node after every history. Used for the exactness of the volume union (with the repaired `VolumeUsage.Add`).
-/
import Karp.Proofs.ClusterStateOwners

namespace Karp.ClusterState
open Cluster Karp.Spec.ClusterAbs

structure Closed (fx : Fixes) (P : SNode → Prop) : Prop where
  upd : ∀ s p, P s → P (s.updateForPod fx p)
  del : ∀ s k, P s → P (s.cleanupForPod k)
  congr : ∀ s s', s'.aggs = s.aggs → P s → P s'
  empty : ∀ s, s.aggs = SNode.new.aggs → P s

def AllNodes (P : SNode → Prop) (c : Cluster) : Prop := ∀ id s, Map.get c.nodes id = some s → P s

theorem allNodes_put {P : SNode → Prop} {c : Cluster} (h : AllNodes P c) (id : String) (s : SNode) (hs : P s) (c' : Cluster)
    (hn : c'.nodes = Map.put c.nodes id s) : AllNodes P c' := by
  intro id' x hx
  rw [hn, Map.get_put] at hx
  by_cases he : id' = id
  · rw [if_pos he] at hx; rw [← Option.some.inj hx]; exact hs
  · rw [if_neg he] at hx; exact h id' x hx

theorem allNodes_objOp {fx : Fixes} {P : SNode → Prop} (hP : Closed fx P) {c c' : Cluster} (h : AllNodes P c) (ho : ObjOp c c') :
    AllNodes P c' := by
  intro id s' hs'
  rcases ho.nodes id s' hs' with ⟨id0, s, hs, _, ha⟩ | ⟨_, ha⟩
  · exact hP.congr s s' ha (h id0 s hs)
  · exact hP.empty s' ha

theorem allNodes_cleanupOldBindings {fx : Fixes} {P : SNode → Prop} (hP : Closed fx P) {c : Cluster} (h : AllNodes P c) (p : PodObj) :
    AllNodes P (c.cleanupOldBindings p) := by
  unfold Cluster.cleanupOldBindings
  split
  · split
    · exact h
    · split
      · rename_i id sn hb
        exact allNodes_put h id _ (hP.del sn p.name (h id sn (nodeByName_some hb))) _ rfl
      · exact h
  · exact h

theorem allNodes_podCompletion {fx : Fixes} {P : SNode → Prop} (hP : Closed fx P) {c : Cluster} (h : AllNodes P c) (k : String) :
    AllNodes P (c.podCompletion k) := by
  unfold Cluster.podCompletion
  split
  · exact h
  · dsimp only
    split
    · exact h
    · rename_i id sn hb
      have hg : Map.get c.nodes id = some sn := nodeByName_some (c := { c with bindings := Map.erase c.bindings k }) hb
      exact allNodes_put h id _ (hP.del sn k (h id sn hg)) _ rfl

theorem allNodes_ite {P : SNode → Prop} (b : Bool) (x y : Cluster) (hx : AllNodes P x) (hy : AllNodes P y) :
    AllNodes P (if b = true then x else y) := by cases b <;> simp [hx, hy]

theorem allNodes_updatePod {fx : Fixes} {P : SNode → Prop} (hP : Closed fx P) {c : Cluster} (h : AllNodes P c) (p : PodObj) :
    AllNodes P (c.updatePod fx p).1 := by
  unfold Cluster.updatePod
  split
  · exact allNodes_podCompletion hP h p.name
  · unfold Cluster.podUsage
    split
    · exact allNodes_ite _ _ _ (allNodes_podCompletion hP h p.name) h
    · split
      · exact allNodes_ite _ _ _ (allNodes_podCompletion hP h p.name) h
      · rename_i id sn hb
        have h1 : AllNodes P { c with nodes := Map.put c.nodes id (sn.updateForPod fx p) } :=
          allNodes_put h id _ (hP.upd sn p (h id sn (nodeByName_some hb))) _ rfl
        exact allNodes_cleanupOldBindings hP h1 p

theorem allNodes_populate {fx : Fixes} {P : SNode → Prop} (hP : Closed fx P) (nodeName : String) (pods : List PodObj) :
    ∀ (c : Cluster) (n : SNode), AllNodes P c → P n →
      AllNodes P (c.populate fx n nodeName pods).1 ∧ P (c.populate fx n nodeName pods).2 := by
  induction pods with
  | nil => intro c n h hn; exact ⟨h, hn⟩
  | cons p ps ih =>
    intro c n h hn
    unfold Cluster.populate
    split
    · exact ih _ _ (allNodes_cleanupOldBindings hP h p) (hP.upd n p hn)
    · exact ih c n h hn

theorem aggs_nodeLiteral (node : NodeObj) (old : SNode) :
    (nodeLiteral node old).aggs = ({ SNode.new with limits := limitsOf node [] } : SNode).aggs := by
  obtain ⟨h1, h2, h3, h4, h5, h6, h7⟩ := carriedN_aggregates
  simp [SNode.aggs, nodeLiteral, h1, h2, h3, h4, h5, h6, h7, SNode.new]

theorem allNodes_step {fx : Fixes} {P : SNode → Prop} (hP : Closed fx P) (hf : PodFix fx)
    (hlit : ∀ node old, P (nodeLiteral node old)) {c c' : Cluster} {api : Api} {e : Event} {r : RecResult}
    (h : AllNodes P c) (hr : c.step fx api e = .ok (c', r)) : AllNodes P c' := by
  cases e with
  | recNode name =>
    simp only [Cluster.step] at hr
    split at hr
    · exact allNodes_objOp hP h (objOp_cleanupNode fx hf c c' name (withResult_ok hr))
    · have hr' := withResult_ok hr
      unfold Cluster.updateNode at hr'
      dsimp only at hr'
      split at hr'
      · simp only [Except.ok.injEq] at hr'; rw [← hr']; exact h
      · split at hr'
        · simp only [Except.ok.injEq] at hr'; rw [← hr']; exact h
        · unfold Cluster.newStateFromNode at hr'
          dsimp only at hr'
          rename_i n _ _ _
          generalize hnode : (if n.pid = "" then { n with pid := n.name } else n) = node at hr'
          have hp := allNodes_populate hP node.name api.pods.vals c (nodeLiteral node ((Map.get c.nodes node.pid).getD SNode.new)) h
            (hlit _ _)
          generalize hcn : c.populate fx (nodeLiteral node ((Map.get c.nodes node.pid).getD SNode.new)) node.name api.pods.vals = cn at hr' hp
          split at hr'
          · simp at hr'
          · rename_i c2 hc2
            simp only [Except.ok.injEq] at hr'
            subst hr'
            have h2 : AllNodes P c2 := by
              split at hc2
              · exact allNodes_objOp hP hp.1 (objOp_cleanupNode fx hf cn.1 c2 node.name hc2)
              · simp only [Except.ok.injEq] at hc2; subst hc2; exact hp.1
            exact allNodes_put h2 node.pid cn.2 hp.2 _ rfl
  | recClaim name =>
    simp only [Cluster.step] at hr
    split at hr
    · exact allNodes_objOp hP h (objOp_cleanupNodeClaim c c' name (withResult_ok hr))
    · split at hr
      · simp only [Except.ok.injEq, Prod.mk.injEq] at hr; rw [← hr.1]; exact h
      · exact allNodes_objOp hP h (objOp_updateNodeClaim fx hf c c' _ (withResult_ok hr))
  | recPod name =>
    simp only [Cluster.step] at hr
    split at hr
    · simp only [Except.ok.injEq, Prod.mk.injEq] at hr
      rw [← hr.1]; exact allNodes_podCompletion hP h name
    · simp only [Except.ok.injEq, Prod.mk.injEq] at hr
      rw [← hr.1]; exact allNodes_updatePod hP h _
  | mark pid =>
    simp only [Cluster.step, Except.ok.injEq, Prod.mk.injEq] at hr
    rw [← hr.1]; exact allNodes_objOp hP h (objOp_marks c pid).1
  | unmark pid =>
    simp only [Cluster.step, Except.ok.injEq, Prod.mk.injEq] at hr
    rw [← hr.1]; exact allNodes_objOp hP h (objOp_marks c pid).2.1
  | nominate pid =>
    simp only [Cluster.step, Except.ok.injEq, Prod.mk.injEq] at hr
    rw [← hr.1]; exact allNodes_objOp hP h (objOp_marks c pid).2.2
  | setNode _ | delNode _ | setClaim _ | delClaim _ | setPod _ | delPod _ =>
    simp only [Cluster.step, Except.ok.injEq, Prod.mk.injEq] at hr
    rw [← hr.1]; exact h

theorem allNodes_run {fx : Fixes} {P : SNode → Prop} (hP : Closed fx P) (hf : PodFix fx)
    (hlit : ∀ node old, P (nodeLiteral node old)) (es : List Event) :
    ∀ (c c' : Cluster) (api api' : Api), AllNodes P c → run fx c api es = .ok (c', api') → AllNodes P c' := by
  induction es with
  | nil =>
    intro c c' api api' h hr
    simp only [run, Except.ok.injEq, Prod.mk.injEq] at hr
    rw [← hr.1]; exact h
  | cons e es ih =>
    intro c c' api api' h hr
    simp only [run] at hr
    split at hr
    · simp at hr
    · rename_i c1 r hs
      exact ih c1 c' _ api' (allNodes_step hP hf hlit h hs) hr

/-! ### the volume union holds nothing but what the pods of the state node mount (repaired `VolumeUsage.Add`) -/

def VolTight (s : SNode) : Prop := Map.NoDup s.volPods ∧ ∀ v, v ∈ s.volumes → ∃ k l, Map.get s.volPods k = some l ∧ v ∈ l

theorem volTight_closed (fx : Fixes) (hf : fx.volRebuild = true) : Closed fx VolTight := by
  refine ⟨?_, ?_, ?_, ?_⟩
  · intro s p h
    have hvp : (s.updateForPod fx p).volPods = Map.put s.volPods p.name p.vols := rfl
    have hvol : (s.updateForPod fx p).volumes =
        if fx.volRebuild = true then (Map.vals (Map.put s.volPods p.name p.vols)).foldl volUnion [] else volUnion s.volumes p.vols := rfl
    refine ⟨by rw [hvp]; exact Map.noDup_put h.1 _ _, ?_⟩
    intro v hv
    rw [hvol, if_pos hf, mem_volUnionAll _ (Map.noDup_put h.1 _ _)] at hv
    rw [hvp]; exact hv
  · intro s k h
    have hvp : (s.cleanupForPod k).volPods = Map.erase s.volPods k := rfl
    have hvol : (s.cleanupForPod k).volumes = (Map.vals (Map.erase s.volPods k)).foldl volUnion [] := rfl
    refine ⟨by rw [hvp]; exact Map.noDup_erase h.1 _, ?_⟩
    intro v hv
    rw [hvol, mem_volUnionAll _ (Map.noDup_erase h.1 _)] at hv
    rw [hvp]; exact hv
  · intro s s' ha h
    simp only [SNode.aggs, Prod.mk.injEq] at ha
    obtain ⟨_, _, _, _, _, _, h7, h8, _⟩ := ha
    unfold VolTight
    rw [h7, h8]; exact h
  · intro s ha
    simp only [SNode.aggs, Prod.mk.injEq] at ha
    obtain ⟨_, _, _, _, _, _, h7, h8, _⟩ := ha
    unfold VolTight
    rw [h7, h8]
    exact ⟨Map.noDup_nil, by intro v hv; simp [SNode.new] at hv⟩

theorem volTight_nodeLiteral (node : NodeObj) (old : SNode) : VolTight (nodeLiteral node old) := by
  have h7 := carriedN_aggregates.2.2.2.2.2.2
  unfold VolTight
  have e7 : (nodeLiteral node old).volPods = [] := by simp [nodeLiteral, h7]
  have e8 : (nodeLiteral node old).volumes = [] := by simp [nodeLiteral, h7]
  rw [e7, e8]
  exact ⟨Map.noDup_nil, by intro v hv; simp at hv⟩

end Karp.ClusterState

namespace Karp.ClusterState
open Cluster Karp.Spec.ClusterAbs

theorem quiescent_volumes_exact {dsOf : String → Bool} {b : Map String} {api : Api} {s : SNode} {R : Map PodObj} {a : AbsNode}
    (hG : Good dsOf b api [] s R) (hapi : PodsOK dsOf api) (ht : VolTight s) (ho : s.objs = absObjs a)
    (hp : a.pods = match a.node? with | some n => api.pods.vals.filter (onNode n.name) | none => []) :
    ∀ x, x ∈ s.volumes → x ∈ a.volumes := by
  intro x hx
  obtain ⟨k, l, hl, hxl⟩ := ht.2 x hx
  rw [hG.agg.vols k] at hl
  cases hr : Map.get R k with
  | none => rw [hr] at hl; simp at hl
  | some p =>
    rw [hr] at hl
    simp only [Option.map_some, Option.some.injEq] at hl
    have htab := quiescent_table hG
    have hnode : s.node = a.node? := congrArg Objs.node ho
    cases hv : s.node with
    | none =>
      rw [hv] at htab
      rw [htab] at hr
      simp at hr
    | some v =>
      rw [hv] at htab
      have hva : a.node? = some v := by rw [← hnode]; exact hv
      rw [hva] at hp
      dsimp only at hp htab
      have := htab k
      rw [hr] at this
      have hf := (option_filter_some _ _ _).mp this.symm
      unfold AbsNode.volumes
      rw [(volUnionAll_aux _ [] List.nodup_nil).2 x]
      right
      refine ⟨p.vols, ?_, by rw [hl]; exact hxl⟩
      rw [List.mem_map]
      refine ⟨p, ?_, rfl⟩
      rw [hp, List.mem_filter]
      refine ⟨?_, hf.2⟩
      unfold Map.vals
      rw [List.mem_map]
      exact ⟨(k, p), Map.mem_of_get hf.1, rfl⟩

end Karp.ClusterState
