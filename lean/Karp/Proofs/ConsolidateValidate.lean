/-
Helper lemmas for C06's validation theorem: what the size comparison of `requirementsAreSubset`
(`l.Intersection(r).Len() == l.Len()`) says about the value sets, and when it carries over to the offerings a
requirement set admits.  Core Lean only.
-/
import Karp.Proofs.Consolidate

namespace Karp.Consolidate
open Karp.Req

/-! ### `card` (number of distinct values) -/

theorem card_nil : card ([] : List Val) = 0 := rfl

theorem card_cons (a : Val) (as : List Val) : card (a :: as) = 1 + card (as.filter (fun b => !b == a)) := by
  unfold card
  rw [List.eraseDups_cons]
  simp only [List.length_cons]
  omega

theorem card_zero_imp (l : List Val) (h : card l = 0) : l = [] := by
  cases l with
  | nil => rfl
  | cons a as => rw [card_cons] at h; omega

/-- splitting a list by a predicate splits its distinct values -/
theorem card_filter_add (p : Val → Bool) (n : Nat) :
    ∀ A : List Val, A.length ≤ n → card A = card (A.filter p) + card (A.filter (fun x => !p x)) := by
  induction n with
  | zero =>
    intro A hA
    have : A = [] := by cases A <;> simp_all
    subst this; rfl
  | succ n ih =>
    intro A hA
    cases A with
    | nil => rfl
    | cons a as =>
      have hlen : (as.filter (fun b => !b == a)).length ≤ n := by
        have := List.length_filter_le (fun b => !b == a) as
        simp only [List.length_cons] at hA
        omega
      have hrec := ih (as.filter (fun b => !b == a)) hlen
      rw [card_cons]
      by_cases hp : p a = true
      · -- `a` goes left; the right part never contained it
        have hl : (a :: as).filter p = a :: as.filter p := by simp [hp]
        have hr : (a :: as).filter (fun x => !p x) = as.filter (fun x => !p x) := by simp [hp]
        rw [hl, hr, card_cons]
        have h1 : (as.filter p).filter (fun b => !b == a) = (as.filter (fun b => !b == a)).filter p := by
          rw [List.filter_filter, List.filter_filter]
          apply List.filter_congr
          intro x _
          exact Bool.and_comm _ _
        have h2 : (as.filter (fun b => !b == a)).filter (fun x => !p x) = as.filter (fun x => !p x) := by
          rw [List.filter_filter]
          apply List.filter_congr
          intro x _
          by_cases hx : x = a
          · subst hx; simp [hp]
          · have : (x == a) = false := by simpa using hx
            simp [this]
        rw [h1, hrec, h2]
        omega
      · have hp' : p a = false := by cases h : p a <;> simp_all
        have hl : (a :: as).filter p = as.filter p := by simp [hp']
        have hr : (a :: as).filter (fun x => !p x) = a :: as.filter (fun x => !p x) := by simp [hp']
        rw [hl, hr, card_cons]
        have h1 : (as.filter (fun x => !p x)).filter (fun b => !b == a) = (as.filter (fun b => !b == a)).filter (fun x => !p x) := by
          rw [List.filter_filter, List.filter_filter]
          apply List.filter_congr
          intro x _
          exact Bool.and_comm _ _
        have h2 : (as.filter (fun b => !b == a)).filter p = as.filter p := by
          rw [List.filter_filter]
          apply List.filter_congr
          intro x _
          by_cases hx : x = a
          · subst hx; simp [hp']
          · have : (x == a) = false := by simpa using hx
            simp [this]
        rw [h1, hrec, h2]
        omega

theorem card_filter_le (p : Val → Bool) (A : List Val) : card (A.filter p) ≤ card A := by
  have := card_filter_add p A.length A (Nat.le_refl _)
  omega

/-- a filter that loses no distinct value keeps every element -/
theorem card_filter_eq (p : Val → Bool) (A : List Val) (h : card (A.filter p) = card A) : ∀ a ∈ A, p a = true := by
  have hs := card_filter_add p A.length A (Nat.le_refl _)
  have h0 : card (A.filter (fun x => !p x)) = 0 := by omega
  have hnil := card_zero_imp _ h0
  intro a ha
  cases hp : p a with
  | true => rfl
  | false =>
    have : a ∈ A.filter (fun x => !p x) := List.mem_filter.mpr ⟨ha, by simp [hp]⟩
    rw [hnil] at this
    cases this

/-- a union that gains no distinct value adds nothing new -/
theorem card_append_eq (A B : List Val) (h : card (A ++ B) = card A) : ∀ b ∈ B, b ∈ A := by
  unfold card at h
  rw [List.eraseDups_append, List.length_append] at h
  have h0 : card (B.removeAll A) = 0 := by unfold card; omega
  have hnil := card_zero_imp _ h0
  intro b hb
  by_cases hm : b ∈ A
  · exact hm
  · have : b ∈ B.removeAll A := by
      unfold List.removeAll
      exact List.mem_filter.mpr ⟨hb, by simp [hm]⟩
    rw [hnil] at this
    cases this

/-! ### the size test of `requirementsAreSubset` on one key -/

/-- the requirement carries no numeric bound (`Gt`/`Lt`/`Gte`/`Lte` never contributed to it) -/
def boundFree (r : Req) : Bool := r.gte.isNone && r.lte.isNone

theorem filter_withinBounds_none (l : List Val) : l.filter (fun v => withinBounds v none none) = l := by
  apply List.filter_eq_self.mpr
  intro a _
  rfl

/-- For bound-free requirements whose value sets are not astronomically large (a Go set cannot hold 2^63 strings),
    `l.Intersection(r).Len() == l.Len()` says that every value `l` admits `r` admits. -/
theorem lenTest_has (l r : Req) (hl : boundFree l = true) (hr : boundFree r = true)
    (hsz : (card l.values : Int) + (card r.values : Int) < maxInt)
    (h : (l.inter r).len = l.len) (v : Val) (hv : l.has v = true) : r.has v = true := by
  have hlg : l.gte = none := by unfold boundFree at hl; cases hx : l.gte <;> simp_all
  have hll : l.lte = none := by unfold boundFree at hl; cases hx : l.lte <;> simp_all
  have hrg : r.gte = none := by unfold boundFree at hr; cases hx : r.gte <;> simp_all
  have hrl : r.lte = none := by unfold boundFree at hr; cases hx : r.lte <;> simp_all
  unfold Req.inter at h
  simp only [hlg, hll, hrg, hrl, maxOpt, minOpt, boundsEmpty, Bool.false_eq_true, if_false, filter_withinBounds_none] at h
  unfold Req.has at hv ⊢
  simp only [hlg, hll, hrg, hrl, withinBounds, Bool.and_true] at hv ⊢
  cases hcl : l.complement <;> cases hcr : r.complement <;>
    simp only [hcl, hcr, Bool.and_self, Bool.and_true, Bool.and_false, Bool.not_true, Bool.not_false,
      Bool.false_eq_true, if_false, if_true, Req.len] at h hv ⊢
  · -- In A, In B: A ⊆ B
    have hc : card (l.values.filter (fun v => r.values.contains v)) = card l.values := by omega
    exact card_filter_eq _ _ hc v (by simpa using hv)
  · -- In A, NotIn B: A ∩ B = ∅
    have hc : card (l.values.filter (fun v => !r.values.contains v)) = card l.values := by omega
    have := card_filter_eq _ _ hc v (by simpa using hv)
    simpa using this
  · -- NotIn A, In B: sizes cannot match
    exfalso
    have := card_filter_le (fun v => !l.values.contains v) r.values
    omega
  · -- NotIn A, NotIn B: B ⊆ A
    have hc : card (l.values ++ r.values) = card l.values := by omega
    have hsub := card_append_eq _ _ hc
    cases hb : r.values.contains v with
    | false => rfl
    | true =>
      have : v ∈ l.values := hsub v (by simpa using hb)
      have : l.values.contains v = true := by simpa using this
      rw [this] at hv
      cases hv

/-! ### from the size test to the offerings a requirement set admits -/

/-- the size test is exact at key `k` of the pair (command requirements `L`, re-simulated requirements `R`) -/
def lenExactAt (L R : Reqs) (k : String) : Bool :=
  boundFree (L.get k) && boundFree (R.get k) &&
  decide ((card (L.get k).values : Int) + (card (R.get k).values : Int) < maxInt)

/-- the re-simulated capacity-type requirement is a plain `In` set naming nothing but `reserved`
    (what `FinalizeScheduling` leaves behind when it pins a claim to its reservations) -/
def reservedOnly (R : Reqs) : Bool :=
  match R.lookup ctKey with
  | some r => !r.complement && r.values.all (· == reserved) && boundFree r
  | none => false

/-- The hypotheses under which `requirementsAreSubset`'s size test decides "every launch `L` permits, `R` permits":
    no numeric bounds and no astronomically large sets on the three offering keys, and — because the test cannot see
    whether a label may be ABSENT — the re-simulated claim either tolerates an absent reservation id or is pinned to
    reserved capacity (then no launch without a reservation id is in question). -/
def lenExact (ridKey : String) (L R : Reqs) : Bool :=
  lenExactAt L R zoneKey && lenExactAt L R ctKey && lenExactAt L R ridKey &&
  (admitsAbsent R ridKey || reservedOnly R)

theorem reqsSubset_at (L R : Reqs) (h : reqsSubset L R = true) (k : String) (r : Req) (hk : R.lookup k = some r) :
    ((L.get k).inter r).len = (L.get k).len := by
  unfold reqsSubset at h
  have hmem : (k, r) ∈ R := by
    induction R with
    | nil => simp [List.lookup] at hk
    | cons e rest ih =>
      obtain ⟨k', r'⟩ := e
      simp only [List.lookup] at hk
      by_cases he : (k == k') = true
      · simp only [he] at hk
        have : k = k' := by simpa using he
        subst this
        have := Option.some.inj hk
        subst this
        exact List.mem_cons_self
      · have he' : (k == k') = false := by cases hx : (k == k') <;> simp_all
        simp only [he'] at hk
        refine List.mem_cons_of_mem _ (ih ?_ hk)
        simp only [List.all_cons, Bool.and_eq_true] at h
        exact h.2
  have := List.all_eq_true.mp h (k, r) hmem
  simpa using this

/-- value containment at one key: whatever value the command's requirements admit there, the re-simulated ones admit -/
theorem reqsSubset_admitsIn (L R : Reqs) (h : reqsSubset L R = true) (k : String) (hex : lenExactAt L R k = true)
    (v : String) (hv : admitsIn L k v = true) : admitsIn R k v = true := by
  cases hk : R.lookup k with
  | none => unfold admitsIn; rw [hk]
  | some r =>
    have hget : R.get k = r := by unfold Reqs.get; rw [hk]
    have ht := reqsSubset_at L R h k r hk
    unfold lenExactAt at hex
    rw [hget] at hex
    have hex' : (boundFree (L.get k) = true ∧ boundFree r = true) ∧
        (card (L.get k).values : Int) + (card r.values : Int) < maxInt := by simpa using hex
    rw [admitsIn_get] at hv
    rw [admitsIn_get, hget]
    exact lenTest_has (L.get k) r hex'.1.1 hex'.1.2 hex'.2 ht v hv

/-- **the launches a validated replacement permits** — if `requirementsAreSubset L R` holds and the size test is exact
    for the pair, every offering `L` admits `R` admits -/
theorem reqsSubset_offeringCompat (ridKey : String) (L R : Reqs) (h : reqsSubset L R = true)
    (hex : lenExact ridKey L R = true) (o : Offering) (ho : offeringCompat ridKey L o = true) :
    offeringCompat ridKey R o = true := by
  unfold lenExact at hex
  have hex' : ((lenExactAt L R zoneKey = true ∧ lenExactAt L R ctKey = true) ∧ lenExactAt L R ridKey = true) ∧
      (admitsAbsent R ridKey = true ∨ reservedOnly R = true) := by simpa using hex
  obtain ⟨⟨⟨hz, hc⟩, hr⟩, habs⟩ := hex'
  unfold offeringCompat at ho ⊢
  have ho' : (admitsIn L zoneKey o.zone = true ∧ admitsIn L ctKey o.ct = true) ∧
      (if o.ct == reserved then admitsIn L ridKey o.resID else admitsAbsent L ridKey) = true := by simpa using ho
  obtain ⟨⟨hoz, hoc⟩, hor⟩ := ho'
  have hRz := reqsSubset_admitsIn L R h zoneKey hz o.zone hoz
  have hRc := reqsSubset_admitsIn L R h ctKey hc o.ct hoc
  rw [hRz, hRc]
  simp only [Bool.and_self, Bool.true_and]
  by_cases hres : (o.ct == reserved) = true
  · simp only [hres, if_true] at hor ⊢
    exact reqsSubset_admitsIn L R h ridKey hr o.resID hor
  · simp only [hres] at hor ⊢
    rcases habs with ha | hro
    · simpa using ha
    · -- pinned to reserved: a launch of another capacity type is not admitted by the command either
      exfalso
      unfold reservedOnly at hro
      cases hk : R.lookup ctKey with
      | none => rw [hk] at hro; cases hro
      | some r =>
        rw [hk] at hro
        have hro' : (r.complement = false ∧ r.values.all (· == reserved) = true) ∧ boundFree r = true := by simpa using hro
        have hhas : r.has o.ct = true := by
          have := hRc
          unfold admitsIn at this
          rw [hk] at this
          exact this
        unfold Req.has at hhas
        rw [hro'.1.1] at hhas
        have hin : r.values.contains o.ct = true := by
          cases hx : r.values.contains o.ct <;> simp_all
        have hmem : o.ct ∈ r.values := by simpa using hin
        have := List.all_eq_true.mp hro'.1.2 o.ct hmem
        exact hres this

end Karp.Consolidate
