/-
C14: the modelled system satisfies, step by step and over whole histories, the very executable specification
(`Karp/Spec/LifecycleOrder.lean`) that the harness evaluates on the real controller.
-/
import Karp.Proofs.LifecycleSteps

set_option linter.unusedSimpArgs false
set_option linter.unusedVariables false
namespace Karp.Lifecycle
open Karp.Spec.LifecycleOrder

/-! ### with the finalizer on, a delete never removes the object -/

theorem deleted_present (c : Claim) (h : c.finalizer = true) : c.deleted.present = c.present ∧ c.deleted.finalizer = true := by
  unfold Claim.deleted; simp [h]

/-- the object is still there and still has its finalizer -/
def Keeps (a b : Claim) : Prop := a.finalizer = true → b.present = a.present ∧ b.finalizer = true

theorem Keeps.refl (a : Claim) : Keeps a a := fun h => ⟨rfl, h⟩
theorem Keeps.trans {a b c : Claim} (h1 : Keeps a b) (h2 : Keeps b c) : Keeps a c :=
  fun h => ⟨((h2 (h1 h).2).1).trans (h1 h).1, (h2 (h1 h).2).2⟩

theorem deleteClaim_keeps (f : Faults) (c : Ctx) : Keeps c.w.claim (deleteClaim f c).w.claim := by
  unfold deleteClaim; simp only []
  split
  · exact fun h => deleted_present _ h
  · exact Keeps.refl _

theorem capacityError_keeps (f : Faults) (o : Outcome) (c : Ctx) : Keeps c.w.claim (capacityError f o c).w.claim := by
  unfold capacityError; simp only []
  have := deleteClaim_keeps f (c.call .create o)
  split <;> simpa using this

theorem launch_keeps (f : Faults) (co : CreateOutcome) (c : Ctx) : Keeps c.w.claim (launch f co c).w.claim := by
  unfold launch
  simp only []
  split
  · split <;> exact Keeps.refl _
  · split
    · simp [launchSuccess]; exact Keeps.refl _
    · cases co <;> simp only []
      · simp [launchSuccess]; exact Keeps.refl _
      · exact capacityError_keeps f .ice { c with mem := { c.mem with conds := { c.mem.conds with init := true } } }
      · exact capacityError_keeps f .ncnr { c with mem := { c.mem with conds := { c.mem.conds with init := true } } }
      · simp; exact Keeps.refl _
      · simp; exact Keeps.refl _

theorem timeoutDelete_keeps (f : Faults) (c : Ctx) : Keeps c.w.claim (timeoutDelete f c).w.claim := by
  unfold timeoutDelete; simp only []
  split; · simpa using Keeps.refl c.w.claim
  have := deleteClaim_keeps f (poolHealth f c).1
  split <;> simpa using this

theorem livenessLaunch_keeps (f : Faults) (c : Ctx) : Keeps c.w.claim (livenessLaunch f c).1.w.claim := by
  unfold livenessLaunch
  split; · exact Keeps.refl _
  split; · exact Keeps.refl _
  exact timeoutDelete_keeps f c

theorem liveness_keeps (f : Faults) (c : Ctx) : Keeps c.w.claim (liveness f c).w.claim := by
  unfold liveness
  split; · exact Keeps.refl _
  simp only []
  have h1 := livenessLaunch_keeps f c
  split; · exact h1
  split; · simpa using h1
  exact h1.trans (timeoutDelete_keeps f (livenessLaunch f c).1)

theorem persist_keeps (stored : Claim) (f : Faults) (c : Ctx) : Keeps c.w.claim (persist stored f c).w.claim := by
  rcases (persist_world stored f c).2.2.2.2.2 with h | h | h <;> rw [h]
  · exact Keeps.refl _
  · intro hf; simp [mergeMeta, hf]
  · intro hf; simp [mergeMeta, mergeStatus, hf]

theorem runSubs_keeps (sp : Spec) (f : Faults) (co : CreateOutcome) (w0 : World) (m0 : Claim) (calls : List Call) :
    Keeps w0.claim (runSubs sp f co w0 m0 calls).w.claim := by
  unfold runSubs; simp only []
  have h1 := launch_keeps f co { w := w0, mem := m0, calls := calls }
  have h2 := registration_claim sp f (launch f co { w := w0, mem := m0, calls := calls })
  have h3 := initialization_claim sp f (registration sp f (launch f co { w := w0, mem := m0, calls := calls }))
  have h4 := liveness_keeps f (initialization sp f (registration sp f (launch f co { w := w0, mem := m0, calls := calls })))
  have h5 := persist_keeps m0 f (liveness f (initialization sp f (registration sp f (launch f co { w := w0, mem := m0, calls := calls }))))
  rw [h3, h2] at h4
  exact (h1.trans h4).trans h5


/-! ### what the harness would record of a model step -/

def createObsOf (w' : World) (c : Call) : CreateObs :=
  { ok := c.out == .ok, fin := w'.claim.finalizer && w'.claim.present, present := w'.claim.present }

def modelObs (sp : Spec) (w : World) (s : Step) : StepObs :=
  { isRec := (step sp w s).2.isRec, fresh := (step sp w s).2.fresh, view := (step sp w s).2.view,
    calls := (step sp w s).2.calls, result := (step sp w s).2.result,
    claim := (step sp w s).1.claim, nodes := (step sp w s).1.nodes,
    creates := (creates (step sp w s).2.calls).map (createObsOf (step sp w s).1),
    now := (step sp w s).1.now }

def accOf (w : World) : Acc := { prev := w.claim, created := w.instances, finEver := w.finEver }

theorem okCreates_modelObs (sp : Spec) (w : World) (s : Step) :
    Karp.Spec.LifecycleOrder.okCreates (modelObs sp w s) = Karp.Lifecycle.okCreates (step sp w s).2.calls := by
  unfold Karp.Spec.LifecycleOrder.okCreates Karp.Lifecycle.okCreates modelObs
  simp only [List.filter_map, List.length_map]
  congr 1

/-- the shape of a step: environment, nothing to reconcile, deletion path, or a live reconcile -/
theorem step_shape (sp : Spec) (w : World) (s : Step) :
    (∃ e, s = .env e ∧ step sp w s = ({ applyEnv w e with views := w.versions }, {})) ∨
    (∃ lag co f fo, s = .reconcile lag co f fo ∧
      (((pickView w lag).present = false ∧
          step sp w s = ({ w with views := keptVersions w lag },
            { isRec := true, view := pickView w lag, fresh := decide (pickView w lag = w.claim) })) ∨
       ((pickView w lag).present = true ∧ (pickView w lag).deleting = true ∧
          step sp w s = ({ finalizeStep w fo with views := keptVersions w lag },
            { isRec := true, view := pickView w lag, fresh := decide (pickView w lag = w.claim), finalizing := true })) ∨
       ((pickView w lag).present = true ∧ (pickView w lag).deleting = false ∧
          step sp w s = ({ (reconcileLive sp f co w (pickView w lag)).w with views := keptVersions w lag },
            { isRec := true, view := pickView w lag, fresh := decide (pickView w lag = w.claim),
              calls := (reconcileLive sp f co w (pickView w lag)).calls,
              result := (reconcileLive sp f co w (pickView w lag)).result })))) := by
  cases s with
  | env e => left; exact ⟨e, rfl, rfl⟩
  | reconcile lag co f fo =>
    right
    refine ⟨lag, co, f, fo, rfl, ?_⟩
    cases hp : (pickView w lag).present
    · left; exact ⟨rfl, by simp [step, hp]⟩
    · right
      cases hd : (pickView w lag).deleting
      · right; exact ⟨rfl, rfl, by simp [step, hp, hd]⟩
      · left; exact ⟨rfl, rfl, by simp [step, hp, hd]⟩

theorem finalizeStep_facts (w : World) (fo : FinalizeOut) :
    (finalizeStep w fo).claim.conds = w.claim.conds ∧ (finalizeStep w fo).claim.finalizer = w.claim.finalizer ∧
    (finalizeStep w fo).claim.providerID = w.claim.providerID ∧
    (finalizeStep w fo).instances = w.instances ∧ (finalizeStep w fo).finEver = w.finEver ∧
    ((finalizeStep w fo).claim.present = true → w.claim.present = true) ∧
    (finalizeStep w fo).claim.deleting = w.claim.deleting := by
  unfold finalizeStep; simp only []
  split <;> simp

/-! ### the clauses, one by one -/

theorem clause_createOnce (sp : Spec) {w : World} (h : Inv w) (s : Step) :
    createOnce (accOf w) (modelObs sp w s) = true := by
  unfold createOnce
  rw [okCreates_modelObs]
  have h1 : (step sp w s).1.instances = w.instances + Karp.Lifecycle.okCreates (step sp w s).2.calls := by
    rcases step_shape sp w s with ⟨e, rfl, he⟩ | ⟨lag, co, f, fo, rfl, ⟨hp, he⟩ | ⟨hp, hd, he⟩ | ⟨hp, hd, he⟩⟩
    · rw [he]; simp [creates, Karp.Lifecycle.okCreates, (applyEnv_facts w e).2.1]
    · rw [he]; simp [creates, Karp.Lifecycle.okCreates]
    · rw [he]; simp [creates, Karp.Lifecycle.okCreates, (finalizeStep_facts w fo).2.2.2.1]
    · rw [he]; exact (reconcileLive_creates sp f co w _).2
  have h2 := (inv_step sp h s).once
  have : w.instances + Karp.Lifecycle.okCreates (step sp w s).2.calls ≤ 1 := by omega
  exact decide_eq_true this

theorem reconcileLive_create_fin (sp : Spec) (f : Faults) (co : CreateOutcome) {w : World} (h : Inv w) (view : Claim)
    (hv : view ∈ w.versions) :
    ∀ c ∈ (reconcileLive sp f co w view).calls, c.site = .create →
      (reconcileLive sp f co w view).w.claim.finalizer = true ∧
      ((reconcileLive sp f co w view).w.claim.present = false → w.finEver = true) := by
  intro c hc hsite
  have hF := reconcileLive_finalizer sp f co h view hv c hc hsite
  refine ⟨hF.1, ?_⟩
  intro hnp
  by_cases hf : view.finalizer = true
  · exact h.finEver view hv hf
  · -- the finalizer patch just succeeded: the object is there and stays there
    exfalso
    unfold reconcileLive at hc hnp
    rw [if_neg hf] at hc hnp
    simp only [] at hc hnp
    cases ho : finPatchOutcome f w
    case ok =>
      rw [ho] at hnp
      simp only [] at hnp
      have hk := runSubs_keeps sp f co { w with claim := { w.claim with finalizer := true }, finEver := true }
        { w.claim with finalizer := true } [⟨.finPatch, .ok⟩] rfl
      rw [hk.1] at hnp
      simp [(finPatch_ok ho).1] at hnp
    all_goals
      rw [ho] at hc
      simp at hc
      rw [hc] at hsite
      simp at hsite

theorem mem_creates {l : List Call} {c : Call} (h : c ∈ creates l) : c ∈ l ∧ c.site = .create := by
  unfold creates at h
  simp only [List.mem_filter, beq_iff_eq] at h
  exact h

theorem clause_finalizerFirst (sp : Spec) {w : World} (h : Inv w) (s : Step) :
    finalizerFirst (accOf w) (modelObs sp w s) = true := by
  unfold finalizerFirst modelObs
  simp only [List.all_map, List.all_eq_true, Function.comp]
  intro c hc
  obtain ⟨hcm, hsite⟩ := mem_creates hc
  rcases step_shape sp w s with ⟨e, rfl, he⟩ | ⟨lag, co, f, fo, rfl, ⟨hp, he⟩ | ⟨hp, hd, he⟩ | ⟨hp, hd, he⟩⟩
  · rw [he] at hcm; simp at hcm
  · rw [he] at hcm; simp at hcm
  · rw [he] at hcm; simp at hcm
  · rw [he] at hcm ⊢
    simp only [] at hcm ⊢
    have hv : pickView w lag ∈ w.versions := (keptVersions_sublist w lag).subset (pickView_mem w lag)
    obtain ⟨hfin, hgone⟩ := reconcileLive_create_fin sp f co h (pickView w lag) hv c hcm hsite
    simp only [createObsOf, accOf, hfin, Bool.true_and]
    cases hpr : (reconcileLive sp f co w (pickView w lag)).w.claim.present
    · simp [hgone hpr]
    · simp

theorem clause_ordered (sp : Spec) {w : World} (h : Inv w) (s : Step) :
    ordered (accOf w) (modelObs sp w s) = true := by
  have h' := inv_step sp h s
  have hk := h'.vok _ (claim_mem_versions _)
  have hl := h'.linst _ (claim_mem_versions _)
  have hc := clause_createOnce sp h s
  have h1 : (step sp w s).1.instances = w.instances + Karp.Lifecycle.okCreates (step sp w s).2.calls := by
    rcases step_shape sp w s with ⟨e, rfl, he⟩ | ⟨lag, co, f, fo, rfl, ⟨hp, he⟩ | ⟨hp, hd, he⟩ | ⟨hp, hd, he⟩⟩
    · rw [he]; simp [creates, Karp.Lifecycle.okCreates, (applyEnv_facts w e).2.1]
    · rw [he]; simp [creates, Karp.Lifecycle.okCreates]
    · rw [he]; simp [creates, Karp.Lifecycle.okCreates, (finalizeStep_facts w fo).2.2.2.1]
    · rw [he]; exact (reconcileLive_creates sp f co w _).2
  unfold ordered
  rw [okCreates_modelObs]
  simp only [modelObs, accOf, Karp.Spec.LifecycleOrder.isTrue]
  cases hp : (step sp w s).1.claim.present <;> simp
  refine ⟨⟨?_, ?_⟩, ?_⟩
  · cases hi : (step sp w s).1.claim.conds.i.status <;> simp
    exact hk.ir hi
  · cases hr : (step sp w s).1.claim.conds.r.status <;> simp
    exact hk.rl hr
  · cases hL : (step sp w s).1.claim.conds.l.status <;> simp
    refine ⟨hk.lp hL, ?_⟩
    have := hl hL
    omega

theorem clause_quiet (sp : Spec) (w : World) (s : Step) :
    noCreateWhenDeleting (modelObs sp w s) = true ∧ envQuiet (modelObs sp w s) = true := by
  unfold noCreateWhenDeleting envQuiet modelObs
  rcases step_shape sp w s with ⟨e, rfl, he⟩ | ⟨lag, co, f, fo, rfl, ⟨hp, he⟩ | ⟨hp, hd, he⟩ | ⟨hp, hd, he⟩⟩
  · rw [he]; simp [creates]
  · rw [he]; simp [creates]
  · rw [he]; simp [creates]
  · rw [he]; simp [hd]

/-- what a step does to Registered / Initialized on the API server -/
theorem step_flips (sp : Spec) {w : World} (h : Inv w) (s : Step)
    (h1 : cleanTaints sp.taints) (h2 : cleanTaints sp.startup) :
    ((step sp w s).1.claim.conds.r.status = .true_ → w.claim.conds.r.status ≠ .true_ →
      (step sp w s).2.isRec = true ∧
      ((step sp w s).2.view.conds.r.status = .true_ ∨ registeredPre sp (step sp w s).1.nodes = true)) ∧
    ((step sp w s).1.claim.conds.i.status = .true_ → w.claim.conds.i.status ≠ .true_ →
      (step sp w s).2.isRec = true ∧
      ((step sp w s).2.view.conds.i.status = .true_ ∨ initializedPre sp (step sp w s).1.nodes = true)) := by
  rcases step_shape sp w s with ⟨e, rfl, he⟩ | ⟨lag, co, f, fo, rfl, ⟨hp, he⟩ | ⟨hp, hd, he⟩ | ⟨hp, hd, he⟩⟩
  · rw [he]; simp only []
    rw [(applyEnv_facts w e).2.2.2.1]
    exact ⟨fun a b => absurd a b, fun a b => absurd a b⟩
  · rw [he]
    exact ⟨fun a b => absurd a b, fun a b => absurd a b⟩
  · rw [he]; simp only []
    rw [(finalizeStep_facts w fo).1]
    exact ⟨fun a b => absurd a b, fun a b => absurd a b⟩
  · rw [he]; simp only []
    have hv : pickView w lag ∈ w.versions := (keptVersions_sublist w lag).subset (pickView_mem w lag)
    have := reconcileLive_flips sp f co h (pickView w lag) hv h1 h2
    exact ⟨fun a b => ⟨trivial, this.1 a b⟩, fun a b => ⟨trivial, this.2 a b⟩⟩

/-- the condition lists before and after a step that is not a live reconcile are the same -/
theorem step_conds_of_not_live (sp : Spec) (w : World) (s : Step) (h : (step sp w s).2.isRec = false) :
    (step sp w s).1.claim.conds = w.claim.conds := by
  rcases step_shape sp w s with ⟨e, rfl, he⟩ | ⟨lag, co, f, fo, rfl, ⟨hp, he⟩ | ⟨hp, hd, he⟩ | ⟨hp, hd, he⟩⟩
  · rw [he]; exact (applyEnv_facts w e).2.2.2.1
  all_goals (rw [he] at h; simp at h)

theorem step_instances (sp : Spec) (w : World) (s : Step) :
    (step sp w s).1.instances = w.instances + Karp.Lifecycle.okCreates (step sp w s).2.calls := by
  rcases step_shape sp w s with ⟨e, rfl, he⟩ | ⟨lag, co, f, fo, rfl, ⟨hp, he⟩ | ⟨hp, hd, he⟩ | ⟨hp, hd, he⟩⟩
  · rw [he]; simp [creates, Karp.Lifecycle.okCreates, (applyEnv_facts w e).2.1]
  · rw [he]; simp [creates, Karp.Lifecycle.okCreates]
  · rw [he]; simp [creates, Karp.Lifecycle.okCreates, (finalizeStep_facts w fo).2.2.2.1]
  · rw [he]; exact (reconcileLive_creates sp f co w _).2

theorem clause_becomesTrue (sp : Spec) {w : World} (h : Inv w) (s : Step)
    (h1 : cleanTaints sp.taints) (h2 : cleanTaints sp.startup) :
    becomesTrue sp (accOf w) (modelObs sp w s) = true := by
  have h' := inv_step sp h s
  have hl := h'.linst _ (claim_mem_versions _)
  have hi := step_instances sp w s
  have hF := step_flips sp h s h1 h2
  have hLater := step_later sp w s
  unfold becomesTrue
  rw [okCreates_modelObs]
  simp only [modelObs, accOf, Karp.Spec.LifecycleOrder.isTrue]
  cases hp : (step sp w s).1.claim.present
  · simp
  · have hpp : w.claim.present = true := by
      cases hw : w.claim.present
      · have := hLater.1 hw; rw [hp] at this; exact absurd this (by simp)
      · rfl
    simp only [Bool.not_true, Bool.false_or, hpp, Bool.true_and, Bool.and_eq_true, Bool.or_eq_true, beq_iff_eq,
      Bool.not_eq_true', decide_eq_true_eq, ge_iff_le, beq_eq_false_iff_ne, ne_eq]
    refine ⟨⟨?_, ?_⟩, ?_⟩
    · by_cases hL : (step sp w s).1.claim.conds.l.status = .true_
      · cases hr : (step sp w s).2.isRec
        · left; left
          rw [← step_conds_of_not_live sp w s hr]; exact hL
        · right
          refine ⟨rfl, Or.inr ?_⟩
          have := hl hL
          omega
      · left; right; exact hL
    · by_cases hR : (step sp w s).1.claim.conds.r.status = .true_
      · by_cases h0 : w.claim.conds.r.status = .true_
        · left; left; exact h0
        · right; exact hF.1 hR h0
      · left; right; exact hR
    · by_cases hI : (step sp w s).1.claim.conds.i.status = .true_
      · by_cases h0 : w.claim.conds.i.status = .true_
        · left; left; exact h0
        · right; exact hF.2 hI h0
      · left; right; exact hI

theorem step_forward (sp : Spec) {w : World} (h : Inv w) (s : Step)
    (hf : (step sp w s).2.isRec = false ∨ (step sp w s).2.fresh = true) :
    (w.claim.conds.l.status = .true_ → (step sp w s).1.claim.conds.l.status = .true_) ∧
    (w.claim.conds.r.status = .true_ → (step sp w s).1.claim.conds.r.status = .true_) ∧
    (w.claim.conds.i.status = .true_ → (step sp w s).1.claim.conds.i.status = .true_) := by
  rcases step_shape sp w s with ⟨e, rfl, he⟩ | ⟨lag, co, f, fo, rfl, ⟨hp, he⟩ | ⟨hp, hd, he⟩ | ⟨hp, hd, he⟩⟩
  · rw [he]; simp only []
    rw [(applyEnv_facts w e).2.2.2.1]; exact ⟨id, id, id⟩
  · rw [he]; exact ⟨id, id, id⟩
  · rw [he]; simp only []
    rw [(finalizeStep_facts w fo).1]; exact ⟨id, id, id⟩
  · rw [he] at hf ⊢
    simp only [] at hf ⊢
    have hfresh : pickView w lag = w.claim := by
      rcases hf with hf | hf
      · simp at hf
      · simpa using hf
    rw [hfresh]
    exact reconcileLive_forward sp f co h

theorem clause_forward (sp : Spec) {w : World} (h : Inv w) (s : Step) :
    forward (accOf w) (modelObs sp w s) = true := by
  have hLater := step_later sp w s
  unfold forward
  simp only [modelObs, accOf, Karp.Spec.LifecycleOrder.isTrue]
  cases hp' : (step sp w s).1.claim.present
  · simp
  · cases hp : w.claim.present
    · have := hLater.1 hp; rw [hp'] at this; exact absurd this (by simp)
    · simp only [Bool.true_or, Bool.not_true, Bool.false_or, Bool.true_and, Bool.and_eq_true, Bool.or_eq_true,
        Bool.not_eq_true', beq_iff_eq, beq_eq_false_iff_ne, ne_eq]
      constructor
      · cases hd : w.claim.deleting
        · left; rfl
        · right
          rcases hLater.2 (Or.inl hd) with hg | hg
          · exact hg
          · rw [hp'] at hg; exact absurd hg (by simp)
      · by_cases hf : (step sp w s).2.isRec = false ∨ (step sp w s).2.fresh = true
        · right
          have := step_forward sp h s hf
          refine ⟨⟨?_, ?_⟩, ?_⟩
          · by_cases hx : w.claim.conds.l.status = .true_
            · right; exact this.1 hx
            · left; exact hx
          · by_cases hx : w.claim.conds.r.status = .true_
            · right; exact this.2.1 hx
            · left; exact hx
          · by_cases hx : w.claim.conds.i.status = .true_
            · right; exact this.2.2 hx
            · left; exact hx
        · left
          have h1 : (step sp w s).2.isRec = true := by
            cases hr : (step sp w s).2.isRec
            · exact absurd (Or.inl hr) hf
            · rfl
          have h2 : (step sp w s).2.fresh = false := by
            cases hr : (step sp w s).2.fresh
            · rfl
            · exact absurd (Or.inr hr) hf
          exact ⟨h1, h2⟩

/-! ### the capacity clause -/

theorem deleteOutcome_none : ∀ l : List Call, (∀ c ∈ l, isCapacity c = false) →
    deleteOutcomeAfterCapacity l = none ∧ l.any isCapacity = false
  | [], _ => ⟨rfl, rfl⟩
  | c :: rest, h => by
    have hc := h c (by simp)
    have ih := deleteOutcome_none rest (fun x hx => h x (by simp [hx]))
    simp [deleteOutcomeAfterCapacity, hc, ih.1, ih.2]

theorem deleteOutcome_one (pre post : List Call) (x d : Call) (hpre : ∀ c ∈ pre, isCapacity c = false)
    (hx : isCapacity x = true) :
    deleteOutcomeAfterCapacity (pre ++ [x, d] ++ post) = some d.out := by
  induction pre with
  | nil => simp [deleteOutcomeAfterCapacity, hx]
  | cons c rest ih =>
    have hc := hpre c (by simp)
    simp only [List.cons_append, deleteOutcomeAfterCapacity, hc]
    have := ih (fun x hx => hpre x (by simp [hx]))
    simpa using this

/-- every provider call of a reconcile is `create:<the outcome parameter>` -/
theorem reconcileLive_creates_shape (sp : Spec) (f : Faults) (co : CreateOutcome) (w : World) (view : Claim) :
    ∀ c ∈ creates (reconcileLive sp f co w view).calls, c = ⟨.create, co.toOutcome⟩ := by
  have key : ∀ (w0 : World) (m0 : Claim) (calls : List Call), creates calls = [] →
      ∀ c ∈ creates (runSubs sp f co w0 m0 calls).calls, c = ⟨.create, co.toOutcome⟩ := by
    intro w0 m0 calls hc c hmem
    obtain ⟨rest, hr, hcr⟩ := runSubs_calls sp f co w0 m0 calls
    rw [hr, creates_append, hc, List.nil_append, hcr] at hmem
    rcases launchCase_cases co { w := w0, mem := m0, calls := calls } with ⟨hl, _⟩ | ⟨hl, _⟩ | ⟨hl, _⟩ | ⟨hl, _, _, hco⟩ | ⟨hl, _⟩
    all_goals rw [hl] at hmem
    all_goals simp [launchCreates] at hmem
    · rw [hmem, hco]; rfl
    · exact hmem
  unfold reconcileLive
  split; · exact key w view [] rfl
  simp only []
  split
  · exact key _ _ _ (by simp [creates])
  all_goals (intro c hc; simp [creates] at hc)

theorem runSubs_capacity_log (sp : Spec) (f : Faults) (co : CreateOutcome) (w0 : World) (m0 : Claim) (calls : List Call)
    (hco : co = .ice ∨ co = .ncnr) (hlc : launchCase co { w := w0, mem := m0, calls := calls } = .failed) :
    ∃ post, (runSubs sp f co w0 m0 calls).calls =
      calls ++ [⟨.create, co.toOutcome⟩, ⟨.claimDelete, claimDeleteOutcome f w0⟩] ++ post ∧ creates post = [] := by
  have hL := launch_capacity f co { w := w0, mem := m0, calls := calls } hco hlc
  simp only [] at hL
  obtain ⟨hLc, _, _, _⟩ := hL
  unfold runSubs
  simp only []
  generalize launch f co { w := w0, mem := m0, calls := calls } = c1 at *
  obtain ⟨r2, h2, h2'⟩ := registration_calls sp f c1
  obtain ⟨r3, h3, h3'⟩ := initialization_calls sp f (registration sp f c1)
  obtain ⟨r4, h4, h4'⟩ := liveness_calls f (initialization sp f (registration sp f c1))
  obtain ⟨r5, h5, h5'⟩ := persist_calls m0 f (liveness f (initialization sp f (registration sp f c1)))
  refine ⟨r2 ++ r3 ++ r4 ++ r5, ?_, by simp [h2', h3', h4', h5']⟩
  rw [h5, h4, h3, h2, hLc]; simp

/-- the capacity clause for one live reconcile -/
theorem reconcileLive_capacityDeletes (sp : Spec) (f : Faults) (co : CreateOutcome) (w : World) (view : Claim) :
    capacityCalls (reconcileLive sp f co w view).calls = true ∧
    (match deleteOutcomeAfterCapacity (reconcileLive sp f co w view).calls with
     | none => (reconcileLive sp f co w view).calls.any isCapacity = false
     | some d =>
       ((reconcileLive sp f co w view).w.claim.conds.l.status = .true_ → w.claim.conds.l.status = .true_) ∧
       (d = .ok → (reconcileLive sp f co w view).w.claim.gone) ∧
       (d ≠ .ok → d ≠ .notFound → (reconcileLive sp f co w view).result = .err ∨
         ∃ x ∈ (reconcileLive sp f co w view).calls, x.out = .notFound)) := by
  by_cases hany : ∃ c ∈ (reconcileLive sp f co w view).calls, isCapacity c = true
  · obtain ⟨c, hc, hcap⟩ := hany
    have hsite : c.site = .create := by
      unfold isCapacity at hcap; simp at hcap; exact hcap.1
    have hceq := reconcileLive_creates_shape sp f co w view c (by simp [creates, hc, hsite])
    have hco : co = .ice ∨ co = .ncnr := by
      rw [hceq] at hcap
      cases co <;> simp [isCapacity, CreateOutcome.toOutcome] at hcap ⊢
    have hin : (⟨.create, co.toOutcome⟩ : Call) ∈ (reconcileLive sp f co w view).calls := hceq ▸ hc
    have hxcap : isCapacity ⟨.create, co.toOutcome⟩ = true := hceq ▸ hcap
    obtain ⟨c1, _, c3, d, _, _, _⟩ := reconcileLive_capacity sp f co hco w view hin
    refine ⟨c1, ?_⟩
    -- the log around the capacity call
    have hlog : ∃ pre post d', (reconcileLive sp f co w view).calls =
        pre ++ [⟨.create, co.toOutcome⟩, ⟨.claimDelete, d'⟩] ++ post ∧ creates pre = [] ∧
        (d' = .ok → (reconcileLive sp f co w view).w.claim.gone) ∧
        (d' ≠ .ok → d' ≠ .notFound → (reconcileLive sp f co w view).result = .err ∨
          ∃ x ∈ (reconcileLive sp f co w view).calls, x.out = .notFound) := by
      have key : ∀ (w0 : World) (m0 : Claim) (calls : List Call), creates calls = [] →
          (⟨.create, co.toOutcome⟩ : Call) ∈ (runSubs sp f co w0 m0 calls).calls →
          ∃ pre post d', (runSubs sp f co w0 m0 calls).calls =
            pre ++ [⟨.create, co.toOutcome⟩, ⟨.claimDelete, d'⟩] ++ post ∧ creates pre = [] ∧
            (d' = .ok → (runSubs sp f co w0 m0 calls).w.claim.gone) ∧
            (d' ≠ .ok → d' ≠ .notFound → (runSubs sp f co w0 m0 calls).result = .err ∨
              ∃ x ∈ (runSubs sp f co w0 m0 calls).calls, x.out = .notFound) := by
        intro w0 m0 calls hcalls hin'
        obtain ⟨rest, hr, hcr⟩ := runSubs_calls sp f co w0 m0 calls
        have hmem : (⟨.create, co.toOutcome⟩ : Call) ∈ creates (runSubs sp f co w0 m0 calls).calls := by
          simp [creates, hin']
        rw [hr, creates_append, hcalls, List.nil_append, hcr] at hmem
        have hlc : launchCase co { w := w0, mem := m0, calls := calls } = .failed := by
          rcases launchCase_cases co { w := w0, mem := m0, calls := calls } with ⟨hc', _⟩ | ⟨hc', _⟩ | ⟨hc', _⟩ | ⟨hc', _⟩ | ⟨hc', _⟩
          all_goals rw [hc'] at hmem
          all_goals try (simp [launchCreates] at hmem)
          · rcases hco with rfl | rfl <;> simp [CreateOutcome.toOutcome] at hmem
          · exact hc'
        obtain ⟨post, hp, _⟩ := runSubs_capacity_log sp f co w0 m0 calls hco hlc
        obtain ⟨_, _, _, _, _, k6, k7⟩ := runSubs_capacity sp f co w0 m0 calls hcalls hco hlc
        exact ⟨calls, post, claimDeleteOutcome f w0, hp, hcalls, k6, k7⟩
      unfold reconcileLive at hin ⊢
      by_cases hf : view.finalizer = true
      · rw [if_pos hf] at hin ⊢
        exact key w view [] rfl hin
      · rw [if_neg hf] at hin ⊢
        simp only [] at hin ⊢
        cases ho : finPatchOutcome f w
        case ok =>
          rw [ho] at hin
          simp only [] at hin ⊢
          exact key _ _ [⟨.finPatch, .ok⟩] (by simp [creates]) hin
        all_goals
          rw [ho] at hin
          simp at hin
    obtain ⟨pre, post, d', hlog, hpre, hd1, hd2⟩ := hlog
    have := deleteOutcome_one pre post ⟨.create, co.toOutcome⟩ ⟨.claimDelete, d'⟩
      (not_capacity_of_creates_nil pre hpre) hxcap
    rw [hlog, this]
    simp only []
    rw [← hlog]
    exact ⟨c3, hd1, hd2⟩
  · have hnone : ∀ c ∈ (reconcileLive sp f co w view).calls, isCapacity c = false := by
      intro c hc
      cases hcap : isCapacity c
      · rfl
      · exact absurd ⟨c, hc, hcap⟩ hany
    have := deleteOutcome_none _ hnone
    rw [this.1]
    exact ⟨capacityCalls_none _ hnone, this.2⟩

theorem clause_capacityDeletes (sp : Spec) (w : World) (s : Step) :
    capacityDeletes (accOf w) (modelObs sp w s) = true := by
  unfold capacityDeletes
  simp only [modelObs, accOf, Karp.Spec.LifecycleOrder.isTrue]
  rcases step_shape sp w s with ⟨e, rfl, he⟩ | ⟨lag, co, f, fo, rfl, ⟨hp, he⟩ | ⟨hp, hd, he⟩ | ⟨hp, hd, he⟩⟩
  · rw [he]; simp [capacityCalls, deleteOutcomeAfterCapacity]
  · rw [he]; simp [capacityCalls, deleteOutcomeAfterCapacity]
  · rw [he]; simp [capacityCalls, deleteOutcomeAfterCapacity]
  · rw [he]; simp only []
    obtain ⟨h1, h2⟩ := reconcileLive_capacityDeletes sp f co w (pickView w lag)
    rw [h1]
    simp only [Bool.true_and]
    have hLb : ∀ (a b : Tri), (a = .true_ → b = .true_) → (!(a == .true_) || (b == .true_)) = true := by
      intro a b hab
      cases a <;> cases b <;> simp_all
    cases hdo : deleteOutcomeAfterCapacity (reconcileLive sp f co w (pickView w lag)).calls with
    | none => rw [hdo] at h2; simp only [] at h2 ⊢; simp [h2]
    | some d =>
      rw [hdo] at h2
      simp only [] at h2
      obtain ⟨hL, hok, herr⟩ := h2
      have hLb' := hLb _ _ hL
      cases d
      case ok =>
        simp only [hLb', Bool.and_true]
        rcases hok rfl with hg | hg
        · simp [hg]
        · simp [hg]
      case notFound => simpa using hLb'
      all_goals
        simp only [hLb', Bool.and_true]
        rcases herr (by simp) (by simp) with hr | ⟨x, hx, hxo⟩
        · simp [hr]
        · have : (reconcileLive sp f co w (pickView w lag)).calls.any (fun c => c.out == .notFound) = true := by
            simp only [List.any_eq_true]; exact ⟨x, hx, by simp [hxo]⟩
          simp [this]

/-- **every clause of the executable specification holds of every step of the model** -/
theorem stepOK_model (sp : Spec) {w : World} (h : Inv w) (s : Step)
    (h1 : cleanTaints sp.taints) (h2 : cleanTaints sp.startup) :
    stepOK sp (accOf w) (modelObs sp w s) = true := by
  unfold stepOK clauses
  simp only [List.all_cons, List.all_nil, Bool.and_true, Bool.and_eq_true]
  exact ⟨clause_createOnce sp h s, clause_finalizerFirst sp h s, clause_ordered sp h s,
    clause_becomesTrue sp h s h1 h2, clause_forward sp h s, clause_capacityDeletes sp w s,
    (clause_quiet sp w s).1, (clause_quiet sp w s).2⟩

/-! ### the judge's memory follows the world -/

theorem step_finEver (sp : Spec) {w : World} (h : Inv w) (s : Step) :
    (w.finEver || (step sp w s).1.claim.finalizer && (step sp w s).1.claim.present ||
      ((creates (step sp w s).2.calls).map (createObsOf (step sp w s).1)).any (·.fin)) = (step sp w s).1.finEver := by
  have hclaimfin : w.claim.finalizer = true → w.finEver = true := h.finEver w.claim (claim_mem_versions w)
  -- a step that leaves finalizer flag and ghost alone and makes no provider call
  have same : ∀ (w' : World) (calls : List Call), w'.finEver = w.finEver → w'.claim.finalizer = w.claim.finalizer →
      creates calls = [] →
      (w.finEver || w'.claim.finalizer && w'.claim.present || ((creates calls).map (createObsOf w')).any (·.fin)) = w'.finEver := by
    intro w' calls e1 e2 e3
    rw [e1, e2, e3]
    cases hfe : w.finEver
    · cases hcf : w.claim.finalizer
      · simp
      · rw [hclaimfin hcf] at hfe; exact absurd hfe (by simp)
    · simp
  rcases step_shape sp w s with ⟨e, rfl, he⟩ | ⟨lag, co, f, fo, rfl, ⟨hp, he⟩ | ⟨hp, hd, he⟩ | ⟨hp, hd, he⟩⟩
  · rw [he]
    exact same _ [] (applyEnv_facts w e).2.2.1 (applyEnv_facts w e).2.2.2.2.2.2 rfl
  · rw [he]; exact same _ [] rfl rfl rfl
  · rw [he]
    exact same _ [] (finalizeStep_facts w fo).2.2.2.2.1 (finalizeStep_facts w fo).2.1 rfl
  · rw [he]; simp only []
    have hv : pickView w lag ∈ w.versions := (keptVersions_sublist w lag).subset (pickView_mem w lag)
    by_cases hf : (pickView w lag).finalizer = true
    · have hfe := h.finEver _ hv hf
      have : (reconcileLive sp f co w (pickView w lag)).w.finEver = true := by
        unfold reconcileLive; rw [if_pos hf]
        exact (runSubs_facts sp f co w (pickView w lag) []).2.1.trans hfe
      rw [this, hfe]; simp
    · cases ho : finPatchOutcome f w
      case ok =>
        have hr : reconcileLive sp f co w (pickView w lag) =
            runSubs sp f co { w with claim := { w.claim with finalizer := true }, finEver := true }
              { w.claim with finalizer := true } [⟨.finPatch, .ok⟩] := by
          unfold reconcileLive; rw [if_neg hf]; simp only [ho]
        rw [hr]
        have hF := runSubs_facts sp f co { w with claim := { w.claim with finalizer := true }, finEver := true }
          { w.claim with finalizer := true } [⟨.finPatch, .ok⟩]
        have hk := runSubs_keeps sp f co { w with claim := { w.claim with finalizer := true }, finEver := true }
          { w.claim with finalizer := true } [⟨.finPatch, .ok⟩] rfl
        rw [hF.2.1, hk.2, hk.1]
        simp [(finPatch_ok ho).1]
      all_goals
        have hr : (reconcileLive sp f co w (pickView w lag)).w = w ∧
            creates (reconcileLive sp f co w (pickView w lag)).calls = [] := by
          unfold reconcileLive; rw [if_neg hf]; simp only [ho]; simp [creates]
        rw [hr.1]
        exact same w _ rfl rfl hr.2

theorem acc_next_model (sp : Spec) {w : World} (h : Inv w) (s : Step) :
    (accOf w).next (modelObs sp w s) = accOf (step sp w s).1 := by
  unfold Acc.next
  rw [okCreates_modelObs]
  simp only [accOf, modelObs, Acc.mk.injEq, true_and]
  exact ⟨(step_instances sp w s).symm, step_finEver sp h s⟩

/-- what the harness would record of a whole model history -/
def modelHistory (sp : Spec) : World → List Step → List StepObs
  | _, [] => []
  | w, s :: ss => modelObs sp w s :: modelHistory sp (step sp w s).1 ss

theorem historyOK_model (sp : Spec) (h1 : cleanTaints sp.taints) (h2 : cleanTaints sp.startup)
    (steps : List Step) : ∀ {w : World}, Inv w → historyOK sp (accOf w) (modelHistory sp w steps) = true := by
  induction steps with
  | nil => intro w _; rfl
  | cons s ss ih =>
    intro w h
    simp only [modelHistory, historyOK, Bool.and_eq_true]
    refine ⟨stepOK_model sp h s h1 h2, ?_⟩
    rw [acc_next_model sp h s]
    exact ih (inv_step sp h s)

end Karp.Lifecycle
