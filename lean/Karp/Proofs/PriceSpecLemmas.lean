/-
Helper lemmas for C19: the price loop of `OrderByPrice` computes the minimum over the usable offerings,
and its `less` closure coincides with the specification's "strictly cheaper".
-/
import Karp.Proofs.WeightPriceLemmas
import Karp.Spec.WeightPrice

namespace Karp.PriceOrder
open Karp.WeightOrder Karp.Spec.WeightPrice

/-- the model's `Has` is the label semantics of the operator -/
theorem has_eq_admits (r : Req) (v : String) : r.has v = admits r v := by
  unfold Req.has admits
  cases r.op
  · simp only [List.contains_eq_any_beq]
    congr 1; funext x; exact Bool.beq_comm
  · simp only [List.contains_eq_any_beq, List.all_eq_not_any_not]
    congr 2; funext x
    simp [bne, Bool.beq_comm]
  · rfl
  · rfl

/-- the model's compatibility check is the specification's usability (apart from availability) -/
theorem usable_eq (reqs : List Req) (o : Offering) :
    usable reqs o = (o.available && offeringCompat reqs o) := by
  unfold usable offeringCompat
  congr 2
  funext r
  simp only [offeringLabels, List.lookup]
  by_cases hz : r.key = zoneKey
  · simp [hz, has_eq_admits]
  · have hz' : (r.key == zoneKey) = false := by simpa using hz
    simp only [hz, hz', if_false]
    by_cases hc : r.key = ctKey
    · simp [hc, has_eq_admits]
    · have hc' : (r.key == ctKey) = false := by simpa using hc
      simp [hc, hc']

/-- what the loop returns, for every starting value -/
theorem minPriceLoop_spec (reqs : List Req) : ∀ (os : List Offering) (acc : Option Nat),
    (∀ p, minPriceLoop reqs acc os = some p →
        (acc = some p ∨ ∃ o ∈ os, usable reqs o = true ∧ o.price = p)) ∧
    (∀ p, acc = some p → ∃ q, minPriceLoop reqs acc os = some q ∧ q ≤ p) ∧
    (∀ o ∈ os, usable reqs o = true → ∃ q, minPriceLoop reqs acc os = some q ∧ q ≤ o.price) := by
  intro os
  induction os with
  | nil =>
    intro acc
    refine ⟨fun p h => Or.inl h, fun p h => ⟨p, h, Nat.le_refl _⟩, fun o ho => by simp at ho⟩
  | cons o os ih =>
    intro acc
    simp only [minPriceLoop]
    by_cases hu : (o.available && offeringCompat reqs o) = true
    · have hu' : usable reqs o = true := by rw [usable_eq]; exact hu
      cases acc with
      | none =>
        simp only [hu, Bool.true_and, if_true]
        obtain ⟨h1, h2, h3⟩ := ih (some o.price)
        refine ⟨?_, (fun p h => by cases h), ?_⟩
        · intro p hp
          rcases h1 p hp with e | ⟨o', ho', hx⟩
          · right; exact ⟨o, List.mem_cons_self, hu', (Option.some.inj e)⟩
          · right; exact ⟨o', List.mem_cons_of_mem _ ho', hx⟩
        · intro o' ho' hx
          rcases List.mem_cons.mp ho' with rfl | ho'
          · exact h2 _ rfl
          · exact h3 o' ho' hx
      | some a =>
        by_cases hlt : o.price < a
        · simp only [hu, Bool.true_and, hlt, decide_true, if_true]
          obtain ⟨h1, h2, h3⟩ := ih (some o.price)
          refine ⟨?_, ?_, ?_⟩
          · intro p hp
            rcases h1 p hp with e | ⟨o', ho', hx⟩
            · right; exact ⟨o, List.mem_cons_self, hu', (Option.some.inj e)⟩
            · right; exact ⟨o', List.mem_cons_of_mem _ ho', hx⟩
          · intro p hp
            cases hp
            obtain ⟨q, hq, hle⟩ := h2 _ rfl
            exact ⟨q, hq, by omega⟩
          · intro o' ho' hx
            rcases List.mem_cons.mp ho' with rfl | ho'
            · exact h2 _ rfl
            · exact h3 o' ho' hx
        · simp only [hu, Bool.true_and, hlt, decide_false]
          obtain ⟨h1, h2, h3⟩ := ih (some a)
          refine ⟨?_, h2, ?_⟩
          · intro p hp
            rcases h1 p hp with e | ⟨o', ho', hx⟩
            · left; exact e
            · right; exact ⟨o', List.mem_cons_of_mem _ ho', hx⟩
          · intro o' ho' hx
            rcases List.mem_cons.mp ho' with rfl | ho'
            · obtain ⟨q, hq, hle⟩ := h2 _ rfl
              exact ⟨q, hq, by omega⟩
            · exact h3 o' ho' hx
    · have hu' : ¬ usable reqs o = true := by rw [usable_eq]; exact hu
      have hcond : (o.available && offeringCompat reqs o) = false := by simpa using hu
      simp only [hcond, Bool.false_and, Bool.false_eq_true, if_false]
      obtain ⟨h1, h2, h3⟩ := ih acc
      refine ⟨?_, h2, ?_⟩
      · intro p hp
        rcases h1 p hp with e | ⟨o', ho', hx⟩
        · left; exact e
        · right; exact ⟨o', List.mem_cons_of_mem _ ho', hx⟩
      · intro o' ho' hx
        rcases List.mem_cons.mp ho' with rfl | ho'
        · exact absurd hx hu'
        · exact h3 o' ho' hx

/-- `effPrice` is the least price of a usable offering, `none` iff there is none -/
theorem effPrice_some {reqs : List Req} {t : IType} {p : Nat} (h : effPrice reqs t = some p) :
    (∃ o ∈ t.offerings, usable reqs o = true ∧ o.price = p) ∧
    (∀ o ∈ t.offerings, usable reqs o = true → p ≤ o.price) := by
  obtain ⟨h1, _, h3⟩ := minPriceLoop_spec reqs t.offerings none
  constructor
  · rcases h1 p h with e | e
    · cases e
    · exact e
  · intro o ho hu
    obtain ⟨q, hq, hle⟩ := h3 o ho hu
    unfold effPrice at h
    rw [h] at hq
    cases hq
    exact hle

theorem effPrice_none {reqs : List Req} {t : IType} (h : effPrice reqs t = none) :
    ∀ o ∈ t.offerings, usable reqs o = false := by
  intro o ho
  obtain ⟨_, _, h3⟩ := minPriceLoop_spec reqs t.offerings none
  cases hu : usable reqs o with
  | false => rfl
  | true =>
    obtain ⟨q, hq, _⟩ := h3 o ho hu
    unfold effPrice at h
    rw [h] at hq
    cases hq

/-- the `less` closure of `OrderByPrice` is exactly the specification's "strictly cheaper" -/
theorem cheaper_eq_strictlyCheaper (reqs : List Req) (d k : IType) :
    cheaper reqs d k = strictlyCheaper reqs d k := by
  rw [Bool.eq_iff_iff]
  unfold cheaper strictlyCheaper
  simp only [List.any_eq_true, List.all_eq_true, List.mem_filter, decide_eq_true_eq]
  constructor
  · intro h
    cases hd : effPrice reqs d with
    | none => rw [hd] at h; simp [priceLt] at h
    | some p =>
      obtain ⟨⟨od, hod, hud, hpd⟩, _⟩ := effPrice_some hd
      refine ⟨od, ⟨hod, hud⟩, ?_⟩
      intro ok ⟨hok, huk⟩
      cases hk : effPrice reqs k with
      | none => have := effPrice_none hk ok hok; rw [this] at huk; cases huk
      | some q =>
        rw [hd, hk] at h
        simp only [priceLt, decide_eq_true_eq] at h
        have := (effPrice_some hk).2 ok hok huk
        omega
  · rintro ⟨od, ⟨hod, hud⟩, hall⟩
    cases hd : effPrice reqs d with
    | none => have := effPrice_none hd od hod; rw [this] at hud; cases hud
    | some p =>
      have hp := (effPrice_some hd).2 od hod hud
      cases hk : effPrice reqs k with
      | none => simp [priceLt]
      | some q =>
        obtain ⟨⟨ok, hok, huk, hpk⟩, _⟩ := effPrice_some hk
        have := hall ok ⟨hok, huk⟩
        simp only [priceLt, decide_eq_true_eq]
        omega

/-- `Offerings.Available().Compatible(reqs).Cheapest()` and the loop in `OrderByPrice` agree -/
theorem minPriceLoop_eq_cheapestLoop (reqs : List Req) : ∀ (os : List Offering) (acc : Option Nat),
    minPriceLoop reqs acc os = cheapestLoop acc ((os.filter (·.available)).filter (offeringCompat reqs)) := by
  intro os
  induction os with
  | nil => intro acc; rfl
  | cons o os ih =>
    intro acc
    simp only [minPriceLoop, List.filter_cons]
    by_cases ha : o.available = true
    · by_cases hc : offeringCompat reqs o = true
      · simp only [ha, hc, Bool.true_and, if_true, List.filter_cons]
        cases acc with
        | none => simp only [if_true, cheapestLoop]; exact ih _
        | some p =>
          simp only [cheapestLoop]
          by_cases hlt : o.price < p
          · simp only [hlt, decide_true, if_true]; exact ih _
          · simp only [hlt, decide_false, Bool.false_eq_true, if_false]; exact ih _
      · have hc' : offeringCompat reqs o = false := by simpa using hc
        simp only [ha, hc', Bool.and_false, Bool.false_and, Bool.false_eq_true, if_false, if_true, List.filter_cons]
        exact ih _
    · have ha' : o.available = false := by simpa using ha
      simp only [ha', Bool.false_and, Bool.false_eq_true, if_false]
      exact ih _

/-! ### names identify options -/

theorem eq_of_name_eq {l : List IType} (hnd : (l.map (·.name)).Nodup) {a b : IType}
    (ha : a ∈ l) (hb : b ∈ l) (h : a.name = b.name) : a = b := by
  induction l with
  | nil => cases ha
  | cons x xs ih =>
    simp only [List.map_cons, List.nodup_cons, List.mem_map, not_exists, not_and] at hnd
    rcases List.mem_cons.mp ha with rfl | ha' <;> rcases List.mem_cons.mp hb with rfl | hb'
    · rfl
    · exact absurd h.symm (hnd.1 b hb')
    · exact absurd h (hnd.1 a ha')
    · exact ih hnd.2 ha' hb'

theorem noDuplicates_iff (l : List String) : noDuplicates l = true ↔ l.Nodup := by
  induction l with
  | nil => simp [noDuplicates]
  | cons x xs ih => simp [noDuplicates, List.nodup_cons, ih]

end Karp.PriceOrder
