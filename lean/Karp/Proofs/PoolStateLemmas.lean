/-
Helper lemmas for the static-pool part of C03: the `NodePoolState` model refines the ledger
specification (`Karp.Spec.PoolLedger`).
-/
import Karp.Model.PoolState
import Karp.Spec.PoolLedger

namespace Karp.PoolState
open Karp.Spec.PoolLedger

/-! ### sets as duplicate-free lists -/

theorem mem_sInsert (l : List Name) (x y : Name) : y ∈ sInsert l x ↔ y ∈ l ∨ y = x := by
  unfold sInsert; split <;> simp <;> grind

theorem mem_sDelete (l : List Name) (x y : Name) : y ∈ sDelete l x ↔ y ∈ l ∧ y ≠ x := by
  unfold sDelete; simp

theorem nodup_sInsert (l : List Name) (x : Name) (h : l.Nodup) : (sInsert l x).Nodup := by
  unfold sInsert; split
  · exact h
  · rw [List.nodup_append]; simp_all; grind

theorem nodup_sDelete (l : List Name) (x : Name) (h : l.Nodup) : (sDelete l x).Nodup := by
  unfold sDelete; exact h.filter _

theorem nodup3 (a d p : List Name) : (a ++ d ++ p).Nodup ↔
    a.Nodup ∧ d.Nodup ∧ p.Nodup ∧ (∀ x, x ∈ a → x ∉ d) ∧ (∀ x, x ∈ a → x ∉ p) ∧ (∀ x, x ∈ d → x ∉ p) := by
  simp only [List.nodup_append]
  constructor <;> grind

theorem mem_all (e : Entry) (x : Name) : x ∈ e.all ↔ x ∈ e.active ∨ x ∈ e.deleting ∨ x ∈ e.pending := by
  simp [Entry.all]

theorem total_eq (e : Entry) : e.total = e.all.length := by
  simp [Entry.total, Entry.all, Nat.add_assoc]

/-! ### the two entry updates the methods perform -/

inductive Phase | active | deleting | pending
deriving Repr, DecidableEq

def Entry.move (e : Entry) (nc : Name) : Phase → Entry
  | .active => { active := sInsert e.active nc, deleting := sDelete e.deleting nc, pending := sDelete e.pending nc }
  | .deleting => { active := sDelete e.active nc, deleting := sInsert e.deleting nc, pending := sDelete e.pending nc }
  | .pending => { active := sDelete e.active nc, deleting := sDelete e.deleting nc, pending := sInsert e.pending nc }

def Entry.remove (e : Entry) (nc : Name) : Entry :=
  { active := sDelete e.active nc, deleting := sDelete e.deleting nc, pending := sDelete e.pending nc }

theorem nodup_move (e : Entry) (nc : Name) (ph : Phase) (h : e.all.Nodup) : (e.move nc ph).all.Nodup := by
  unfold Entry.all at *
  rw [nodup3] at *
  obtain ⟨h1, h2, h3, h4, h5, h6⟩ := h
  cases ph <;> simp only [Entry.move]
  all_goals
    refine ⟨by first | exact nodup_sInsert _ _ ‹_› | exact nodup_sDelete _ _ ‹_›,
            by first | exact nodup_sInsert _ _ ‹_› | exact nodup_sDelete _ _ ‹_›,
            by first | exact nodup_sInsert _ _ ‹_› | exact nodup_sDelete _ _ ‹_›, ?_, ?_, ?_⟩ <;>
    · intro x; simp only [mem_sInsert, mem_sDelete]; grind

theorem mem_move (e : Entry) (nc x : Name) (ph : Phase) : x ∈ (e.move nc ph).all ↔ x ∈ e.all ∨ x = nc := by
  cases ph <;> simp only [Entry.move, mem_all, mem_sInsert, mem_sDelete] <;> grind

theorem nodup_remove (e : Entry) (nc : Name) (h : e.all.Nodup) : (e.remove nc).all.Nodup := by
  unfold Entry.all at *
  rw [nodup3] at *
  obtain ⟨h1, h2, h3, h4, h5, h6⟩ := h
  simp only [Entry.remove]
  refine ⟨nodup_sDelete _ _ h1, nodup_sDelete _ _ h2, nodup_sDelete _ _ h3, ?_, ?_, ?_⟩ <;>
  · intro x; simp only [mem_sDelete]; grind

theorem mem_remove (e : Entry) (nc x : Name) : x ∈ (e.remove nc).all ↔ x ∈ e.all ∧ x ≠ nc := by
  simp only [Entry.remove, mem_all, mem_sDelete]; grind

theorem remove_empty (nc : Name) : ({} : Entry).remove nc = {} := by
  simp [Entry.remove, sDelete]

/-! ### frame lemmas: what each method does to the observable projections of the state -/

@[simp] theorem entryOf_ensure (s : State) (np x : Name) : entryOf (ensure s np) x = entryOf s x := by
  unfold entryOf ensure
  cases h : s.pools np <;> simp [upd]
  split <;> simp_all

@[simp] theorem reservedOf_ensure (s : State) (np x : Name) : reservedOf (ensure s np) x = reservedOf s x := by
  unfold reservedOf ensure
  cases h : s.limits np <;> simp [upd]
  split <;> simp_all

@[simp] theorem mapping_ensure (s : State) (np : Name) : (ensure s np).mapping = s.mapping := rfl

theorem pools_ensure_other (s : State) (np x : Name) (h : x ≠ np) : (ensure s np).pools x = s.pools x := by
  unfold ensure
  cases h' : s.pools np <;> simp [upd, h]

theorem limits_ensure_isSome (s : State) (np : Name) : ((ensure s np).limits np).isSome = true := by
  unfold ensure
  cases h : s.limits np <;> simp [upd, h]

def mark (s : State) (np nc : Name) : Phase → State
  | .active => markActive s np nc
  | .deleting => markDeleting s np nc
  | .pending => markPending s np nc

theorem entryOf_mark (s : State) (np nc x : Name) (ph : Phase) :
    entryOf (mark s np nc ph) x = if x = np then (entryOf s np).move nc ph else entryOf s x := by
  cases ph <;> simp only [mark, markActive, markDeleting, markPending, Entry.move] <;>
  · by_cases hx : x = np
    · subst hx
      have h := entryOf_ensure s x x
      unfold entryOf at h
      simp [entryOf, h]
    · simp only [hx, if_false]
      have := entryOf_ensure s np x
      simp only [entryOf, upd, hx, if_false] at *
      exact this

@[simp] theorem reservedOf_mark (s : State) (np nc x : Name) (ph : Phase) :
    reservedOf (mark s np nc ph) x = reservedOf s x := by
  cases ph <;> simp only [mark, markActive, markDeleting, markPending] <;>
  · have := reservedOf_ensure s np x
    simpa [reservedOf] using this

@[simp] theorem mapping_mark (s : State) (np nc : Name) (ph : Phase) : (mark s np nc ph).mapping = s.mapping := by
  cases ph <;> rfl

theorem pools_mark_other (s : State) (np nc x : Name) (ph : Phase) (h : x ≠ np) :
    (mark s np nc ph).pools x = s.pools x := by
  cases ph <;> simp only [mark, markActive, markDeleting, markPending, upd, h, if_false] <;>
  exact pools_ensure_other s np x h

@[simp] theorem entryOf_setMapping (s : State) (np nc x : Name) : entryOf (setMapping s np nc) x = entryOf s x := by
  unfold setMapping
  split
  · rfl
  · have := entryOf_ensure s np x
    simpa [entryOf] using this

@[simp] theorem reservedOf_setMapping (s : State) (np nc x : Name) :
    reservedOf (setMapping s np nc) x = reservedOf s x := by
  unfold setMapping
  split
  · rfl
  · have := reservedOf_ensure s np x
    simpa [reservedOf] using this

theorem mapping_setMapping (s : State) (np nc : Name) (h1 : np ≠ 0) (h2 : nc ≠ 0) :
    (setMapping s np nc).mapping = upd s.mapping nc np := by
  simp [setMapping, h1, h2]

theorem pools_setMapping_other (s : State) (np nc x : Name) (h : x ≠ np) :
    (setMapping s np nc).pools x = s.pools x := by
  unfold setMapping
  split
  · rfl
  · exact pools_ensure_other s np x h

theorem counts_eq (s : State) (np : Name) :
    counts s np = ((entryOf s np).active.length, (entryOf s np).deleting.length, (entryOf s np).pending.length) := by
  unfold counts entryOf
  cases s.pools np <;> simp

theorem counts_total (s : State) (np : Name) :
    (counts s np).1 + (counts s np).2.1 + (counts s np).2.2 = (entryOf s np).total := by
  rw [counts_eq]; rfl

theorem gcCond_repaired_iff (e : Entry) (r : Option Int) :
    gcCond .repaired e r = true ↔ e.active = [] ∧ e.deleting = [] ∧ e.pending = [] ∧ r.getD 0 = 0 := by
  simp [gcCond, gcCondOf, and_assoc]

/-- the repaired condition implies any condition of that shape (it checks everything) -/
theorem gcCondOf_mono (sets : List Nat) (b : Bool) (e : Entry) (r : Option Int)
    (h : gcCond .repaired e r = true) : gcCondOf sets b e r = true := by
  rw [gcCond_repaired_iff] at h
  obtain ⟨h1, h2, h3, h4⟩ := h
  simp [gcCondOf, h1, h2, h3, h4]

/-- `Cleanup` of the repaired variant, seen through the projections -/
theorem entryOf_cleanup_repaired (s : State) (nc x : Name) :
    entryOf (cleanup .repaired s nc) x =
      if x = s.mapping nc then (entryOf s (s.mapping nc)).remove nc else entryOf s x := by
  unfold cleanup
  simp only
  cases hp : s.pools (s.mapping nc) with
  | none =>
    simp only [entryOf]
    by_cases hx : x = s.mapping nc
    · subst hx; simp [hp, remove_empty]
    · simp [hx]
  | some e =>
    simp only [entryOf, hp, Option.getD_some]
    by_cases hx : x = s.mapping nc
    · subst hx
      simp only [if_true]
      split
      · rename_i hg
        rw [gcCond_repaired_iff] at hg
        obtain ⟨h1, h2, h3, _⟩ := hg
        simp only at h1 h2 h3
        simp [upd, Entry.remove, h1, h2, h3]
      · simp [upd, Entry.remove]
    · simp only [hx, if_false]
      split <;> simp [upd, hx]

theorem reservedOf_cleanup_repaired (s : State) (nc x : Name) :
    reservedOf (cleanup .repaired s nc) x = reservedOf s x := by
  unfold cleanup
  simp only
  cases hp : s.pools (s.mapping nc) with
  | none => simp [reservedOf]
  | some e =>
    simp only [reservedOf]
    split
    · rename_i hg
      rw [gcCond_repaired_iff] at hg
      obtain ⟨_, _, _, h4⟩ := hg
      by_cases hx : x = s.mapping nc
      · subst hx; simp [upd, h4]
      · simp [upd, hx]
    · rfl

theorem mapping_cleanup (v : Variant) (s : State) (nc : Name) :
    (cleanup v s nc).mapping = upd s.mapping nc 0 := by
  unfold cleanup
  simp only
  cases s.pools (s.mapping nc) with
  | none => rfl
  | some e => simp only; split <;> rfl

theorem pools_cleanup_zero (v : Variant) (s : State) (nc : Name) (h : s.pools 0 = none) :
    (cleanup v s nc).pools 0 = none := by
  unfold cleanup
  simp only
  cases hp : s.pools (s.mapping nc) with
  | none => simpa using h
  | some e =>
    have hne : s.mapping nc ≠ 0 := by intro h0; rw [h0, h] at hp; cases hp
    have : (0 : Name) ≠ s.mapping nc := fun h' => hne h'.symm
    simp only
    split <;> simp [upd, this, h]

/-! ### the refinement relation -/

structure Refines (s : State) (L : Ledger) : Prop where
  pool0 : s.pools 0 = none
  mapping : ∀ nc, s.mapping nc = (L.owner nc).getD 0
  ownerNZ : ∀ nc np, L.owner nc = some np → np ≠ 0
  nodup : ∀ np, (entryOf s np).all.Nodup
  mem : ∀ np nc, nc ∈ (entryOf s np).all ↔ L.owner nc = some np
  reserved : ∀ np, reservedOf s np = L.outstanding np
  knownNodup : L.known.Nodup
  knownMem : ∀ nc, nc ∈ L.known ↔ (L.owner nc).isSome = true

theorem refines_init : Refines State.init Ledger.init := by
  refine ⟨rfl, ?_, ?_, ?_, ?_, ?_, ?_, ?_⟩ <;> simp [State.init, Ledger.init, entryOf, reservedOf, Entry.all]

/-- the model's total per pool is the number of NodeClaims the ledger knows in that pool -/
theorem count_eq {s : State} {L : Ledger} (h : Refines s L) (np : Name) : (entryOf s np).total = L.count np := by
  rw [total_eq]
  unfold Ledger.count Ledger.claimsOf
  apply List.Perm.length_eq
  rw [List.perm_ext_iff_of_nodup (h.nodup np) (h.knownNodup.filter _)]
  intro nc
  rw [h.mem np nc]
  simp only [List.mem_filter, beq_iff_eq, h.knownMem]
  constructor
  · intro ho; simp [ho]
  · intro ⟨_, ho⟩; exact ho

/-! ### every protocol event preserves the refinement (repaired variant) -/

theorem refines_mark {s : State} {L : Ledger} (h : Refines s L) (np nc : Name) (ph : Phase)
    (hnp : np ≠ 0) (ho : L.owner nc = some np) : Refines (mark s np nc ph) L := by
  refine ⟨?_, ?_, h.ownerNZ, ?_, ?_, ?_, h.knownNodup, h.knownMem⟩
  · rw [pools_mark_other _ _ _ _ _ (fun h' => hnp h'.symm)]; exact h.pool0
  · simpa using h.mapping
  · intro x; rw [entryOf_mark]; split
    · exact nodup_move _ _ _ (h.nodup np)
    · exact h.nodup x
  · intro x c; rw [entryOf_mark]; split
    · rename_i hx; subst hx
      rw [mem_move, h.mem]
      constructor
      · rintro (h1 | h1)
        · exact h1
        · rw [h1]; exact ho
      · intro h1; exact Or.inl h1
    · exact h.mem x c
  · intro x; simpa using h.reserved x

theorem refines_create {s : State} {L : Ledger} (h : Refines s L) (np nc : Name)
    (hnp : np ≠ 0) (hnc : nc ≠ 0) (ho : L.owner nc = none ∨ L.owner nc = some np) (ph : Phase) :
    Refines (mark (setMapping s np nc) np nc ph) (L.create np nc) := by
  have hz : (0 : Name) ≠ np := fun h' => hnp h'.symm
  cases hown : L.owner nc with
  | some p =>
    have hp : p = np := by
      rcases ho with ho | ho
      · rw [ho] at hown; cases hown
      · rw [ho] at hown; cases hown; rfl
    subst hp
    have hL : L.create p nc = L := by simp [Ledger.create, hown]
    rw [hL]
    have hbase : Refines (setMapping s p nc) L := by
      refine ⟨?_, ?_, h.ownerNZ, ?_, ?_, ?_, h.knownNodup, h.knownMem⟩
      · rw [pools_setMapping_other _ _ _ _ hz]; exact h.pool0
      · intro c; rw [mapping_setMapping _ _ _ hnp hnc]
        by_cases hc : c = nc
        · subst hc; simp [hown]
        · rw [upd_other _ _ _ _ hc]; exact h.mapping c
      · intro x; simpa using h.nodup x
      · intro x c; simpa using h.mem x c
      · intro x; simpa using h.reserved x
    exact refines_mark hbase p nc ph hnp hown
  | none =>
    have hnk : nc ∉ L.known := by rw [h.knownMem]; simp [hown]
    have hcr : L.create np nc = { L with owner := upd L.owner nc (some np), known := nc :: L.known } := by
      simp [Ledger.create, hown]
    rw [hcr]
    refine ⟨?_, ?_, ?_, ?_, ?_, ?_, ?_, ?_⟩
    · rw [pools_mark_other _ _ _ _ _ hz, pools_setMapping_other _ _ _ _ hz]; exact h.pool0
    · intro c
      simp only [mapping_mark]
      rw [mapping_setMapping _ _ _ hnp hnc]
      by_cases hc : c = nc
      · subst hc; simp
      · rw [upd_other _ _ _ _ hc, upd_other _ _ _ _ hc]; exact h.mapping c
    · intro c p hcp
      simp only at hcp
      by_cases hc : c = nc
      · subst hc; simp at hcp; rw [← hcp]; exact hnp
      · rw [upd_other _ _ _ _ hc] at hcp; exact h.ownerNZ c p hcp
    · intro x; rw [entryOf_mark]; split
      · simp only [entryOf_setMapping]; exact nodup_move _ _ _ (h.nodup np)
      · simpa using h.nodup x
    · intro x c; rw [entryOf_mark]
      simp only [entryOf_setMapping]
      split
      · rename_i hx; subst hx
        rw [mem_move, h.mem]
        by_cases hc : c = nc
        · subst hc; simp
        · rw [upd_other _ _ _ _ hc]; simp [hc]
      · rename_i hx
        rw [h.mem]
        by_cases hc : c = nc
        · subst hc; simp [hown]; exact fun h' => hx h'.symm
        · rw [upd_other _ _ _ _ hc]
    · intro x; simpa using h.reserved x
    · simp only [List.nodup_cons]; exact ⟨hnk, h.knownNodup⟩
    · intro c
      simp only [List.mem_cons]
      by_cases hc : c = nc
      · subst hc; simp
      · rw [upd_other _ _ _ _ hc, h.knownMem]; simp [hc]


theorem refines_cleanup {s : State} {L : Ledger} (h : Refines s L) (nc : Name) :
    Refines (cleanup .repaired s nc) (L.delete nc) := by
  have hmap := h.mapping nc
  refine ⟨pools_cleanup_zero _ _ _ h.pool0, ?_, ?_, ?_, ?_, ?_, ?_, ?_⟩
  · intro c; rw [mapping_cleanup]
    simp only [Ledger.delete]
    by_cases hc : c = nc
    · subst hc; simp
    · rw [upd_other _ _ _ _ hc, upd_other _ _ _ _ hc]; exact h.mapping c
  · intro c p hcp
    simp only [Ledger.delete] at hcp
    by_cases hc : c = nc
    · subst hc; simp at hcp
    · rw [upd_other _ _ _ _ hc] at hcp; exact h.ownerNZ c p hcp
  · intro x; rw [entryOf_cleanup_repaired]; split
    · exact nodup_remove _ _ (h.nodup _)
    · exact h.nodup x
  · intro x c
    rw [entryOf_cleanup_repaired]
    simp only [Ledger.delete]
    split
    · rename_i hx
      rw [mem_remove, h.mem, ← hx]
      by_cases hc : c = nc
      · subst hc; simp
      · rw [upd_other _ _ _ _ hc]; simp [hc]
    · rename_i hx
      rw [h.mem]
      by_cases hc : c = nc
      · subst hc
        simp only [upd_same]
        constructor
        · intro ho; rw [ho] at hmap; simp at hmap; exact absurd hmap.symm hx
        · intro ho; cases ho
      · rw [upd_other _ _ _ _ hc]
  · intro x; rw [reservedOf_cleanup_repaired]; exact h.reserved x
  · exact h.knownNodup.filter _
  · intro c
    simp only [Ledger.delete, List.mem_filter, bne_iff_ne, ne_eq]
    by_cases hc : c = nc
    · subst hc; simp
    · rw [upd_other _ _ _ _ hc, h.knownMem]; simp [hc]


theorem reserve_spec {s : State} {L : Ledger} (h : Refines s L) (np : Name) (limit wanted : Int) :
    (reserve s np limit wanted).2 = expectedGrant L np limit wanted := by
  unfold reserve expectedGrant
  simp only [counts_total, entryOf_ensure, count_eq h, reservedOf_ensure, h.reserved np]
  split <;> rfl

theorem entryOf_reserve (s : State) (np x : Name) (limit wanted : Int) :
    entryOf (reserve s np limit wanted).1 x = entryOf s x := by
  unfold reserve
  simp only
  split
  · exact entryOf_ensure s np x
  · have := entryOf_ensure s np x
    simpa [entryOf] using this

theorem mapping_reserve (s : State) (np : Name) (limit wanted : Int) :
    (reserve s np limit wanted).1.mapping = s.mapping := by
  unfold reserve
  simp only
  split <;> rfl

theorem pools_reserve_other (s : State) (np x : Name) (limit wanted : Int) (hx : x ≠ np) :
    (reserve s np limit wanted).1.pools x = s.pools x := by
  unfold reserve
  simp only
  split <;> exact pools_ensure_other s np x hx

theorem reservedOf_reserve (s : State) (np x : Name) (limit wanted : Int) :
    reservedOf (reserve s np limit wanted).1 x =
      if x = np then reservedOf s np + (reserve s np limit wanted).2 else reservedOf s x := by
  unfold reserve
  simp only
  split
  · split
    · rename_i hx; subst hx; simp
    · simp
  · by_cases hx : x = np
    · subst hx; simp [reservedOf]
      have := reservedOf_ensure s x x
      simpa [reservedOf] using this
    · simp only [hx, if_false]
      have := reservedOf_ensure s np x
      simpa [reservedOf, upd, hx] using this

theorem refines_reserve {s : State} {L : Ledger} (h : Refines s L) (np : Name) (limit wanted : Int) (hnp : np ≠ 0) :
    Refines (reserve s np limit wanted).1
      { L with outstanding := upd L.outstanding np (L.outstanding np + (reserve s np limit wanted).2) } := by
  refine ⟨?_, ?_, h.ownerNZ, ?_, ?_, ?_, h.knownNodup, h.knownMem⟩
  · rw [pools_reserve_other _ _ _ _ _ (fun h' => hnp h'.symm)]; exact h.pool0
  · intro c; rw [mapping_reserve]; exact h.mapping c
  · intro x; rw [entryOf_reserve]; exact h.nodup x
  · intro x c; rw [entryOf_reserve]; exact h.mem x c
  · intro x; rw [reservedOf_reserve]
    by_cases hx : x = np
    · subst hx; simp [h.reserved]
    · simp only [hx, if_false]; rw [upd_other _ _ _ _ hx]; exact h.reserved x

theorem release_repaired_some (s : State) (np : Name) (k : Int) : ∃ s', release .repaired s np k = some s' := by
  unfold release
  cases s.limits np <;> simp

theorem refines_release {s s' : State} {L : Ledger} (h : Refines s L) (np : Name) (k : Int)
    (hk0 : 0 ≤ k) (hk : k ≤ L.outstanding np) (hs : release .repaired s np k = some s') :
    Refines s' { L with outstanding := upd L.outstanding np (L.outstanding np - k) } := by
  have hres := h.reserved np
  unfold release at hs
  cases hl : s.limits np with
  | none =>
    simp [hl] at hs; subst hs
    have h0 : L.outstanding np = 0 := by rw [← hres]; simp [reservedOf, hl]
    have hk' : k = 0 := by omega
    refine ⟨h.pool0, h.mapping, h.ownerNZ, h.nodup, h.mem, ?_, h.knownNodup, h.knownMem⟩
    intro x
    by_cases hx : x = np
    · subst hx; simp [h0, hk', hres]
    · simp only; rw [upd_other _ _ _ _ hx]; exact h.reserved x
  | some cur =>
    simp [hl] at hs; subst hs
    have hc : cur = L.outstanding np := by rw [← hres]; simp [reservedOf, hl]
    refine ⟨h.pool0, h.mapping, h.ownerNZ, h.nodup, h.mem, ?_, h.knownNodup, h.knownMem⟩
    intro x
    by_cases hx : x = np
    · subst hx
      simp only [reservedOf, upd_same, Option.getD_some]
      have : ¬ (cur - k < 0) := by omega
      rw [if_neg this, hc]
    · simp only; rw [upd_other _ _ _ _ hx]
      have := h.reserved x
      simpa [reservedOf, upd, hx] using this

/-! ### the code as it is agrees with the repaired variant on every non-lossy step -/

theorem step_agree (s : State) (op : Op) (h : lossy s op = false) : step .asIs s op = step .repaired s op := by
  cases op with
  | cleanup nc =>
    simp only [step, cleanup]
    simp only [lossy] at h
    cases hp : s.pools (s.mapping nc) with
    | none => rfl
    | some e =>
      simp only [hp] at h
      simp only
      generalize hA : gcCond .asIs _ _ = A at *
      generalize hR : gcCond .repaired _ _ = R at *
      have hAR : A = R := by
        cases A <;> cases R
        · rfl
        · have := gcCondOf_mono Karp.Gen.C03Pool.gcEmptySets Karp.Gen.C03Pool.gcChecksReserved _ _ hR
          simp only [gcCond] at hA
          rw [hA] at this; cases this
        · simp at h
        · rfl
      subst hAR; rfl
  | release np k =>
    simp only [lossy] at h
    simp only [step, release]
    cases hl : s.limits np with
    | none =>
      simp only [hl, Option.isNone_none, Bool.true_and, Bool.not_eq_false'] at h
      simp [h]
    | some c => rfl
  | _ => rfl

theorem observations_agree (ops : List Op) : ∀ s, safeTrace s ops = true →
    observations .asIs s ops = observations .repaired s ops := by
  induction ops with
  | nil => intro _ _; rfl
  | cons op ops ih =>
    intro s h
    simp only [safeTrace, Bool.and_eq_true, Bool.not_eq_true'] at h
    have ha := step_agree s op h.1
    simp only [observations]
    rw [← ha, ih _ h.2]

theorem step_repaired {s : State} {L : Ledger} (h : Refines s L) (op : Op) (hwf : wf L op = true) :
    okStep L op (step .repaired s op).2 = true ∧
    Refines (step .repaired s op).1 (advance L op (step .repaired s op).2) := by
  cases op with
  | setMapping np nc => simp [wf] at hwf
  | reset => simp [wf] at hwf
  | markActive np nc =>
    simp only [wf, Bool.and_eq_true, bne_iff_ne, ne_eq, beq_iff_eq] at hwf
    exact ⟨by simp [okStep, judge, step], refines_mark h np nc .active hwf.1.1 hwf.2⟩
  | markDeleting np nc =>
    simp only [wf, Bool.and_eq_true, bne_iff_ne, ne_eq, beq_iff_eq] at hwf
    exact ⟨by simp [okStep, judge, step], refines_mark h np nc .deleting hwf.1.1 hwf.2⟩
  | markPending np nc =>
    simp only [wf, Bool.and_eq_true, bne_iff_ne, ne_eq, beq_iff_eq] at hwf
    exact ⟨by simp [okStep, judge, step], refines_mark h np nc .pending hwf.1.1 hwf.2⟩
  | cleanup nc =>
    exact ⟨by simp [okStep, judge, step], refines_cleanup h nc⟩
  | count np =>
    refine ⟨?_, by simpa [step, advance] using h⟩
    simp only [okStep, judge, step, counts_total, count_eq h]
    simp
  | reserve np limit wanted =>
    simp only [wf, Bool.and_eq_true, bne_iff_ne, ne_eq, decide_eq_true_eq] at hwf
    refine ⟨?_, by simpa [step, advance] using refines_reserve h np limit wanted hwf.1⟩
    simp only [okStep, judge, step, reserve_spec h]
    have hsafe : grantSafe L np limit (expectedGrant L np limit wanted) = true := by
      simp only [grantSafe, expectedGrant, Bool.and_eq_true, Bool.or_eq_true, beq_iff_eq]
      split
      · simp
      · split <;> simp only [decide_eq_true_eq] <;> omega
    simp [hsafe]
  | release np k =>
    simp only [wf, Bool.and_eq_true, bne_iff_ne, ne_eq, decide_eq_true_eq] at hwf
    obtain ⟨s', hs'⟩ := release_repaired_some s np k
    simp only [step, hs']
    exact ⟨by simp [okStep, judge], by simpa [advance] using refines_release h np k hwf.1.2 hwf.2 hs'⟩
  | update np nc marked =>
    simp only [wf, Bool.and_eq_true, bne_iff_ne, ne_eq, Bool.or_eq_true, beq_iff_eq] at hwf
    refine ⟨by simp [okStep, judge, step], ?_⟩
    have : (step .repaired s (.update np nc marked)).1 = mark (setMapping s np nc) np nc (if marked then .deleting else .active) := by
      simp only [step, update, hwf.1.1, if_false]
      cases marked <;> rfl
    rw [this]
    exact refines_create h np nc hwf.1.1 hwf.1.2 hwf.2 _

end Karp.PoolState
