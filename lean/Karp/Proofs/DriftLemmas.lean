/-
Lemmas for the drift model (C15): what `areRequirementsDrifted` computes in terms of the NodePool's requirement
expressions and the NodeClaim's labels.  Builds on the C12 requirement algebra (`ReqLemmas`) and the
`Requirements.Add` / lookup lemmas of C01 (`Proofs/Sched`).
-/
import Karp.Model.Drift
import Karp.Spec.DriftSpec
import Karp.Proofs.Sched
set_option linter.unusedSimpArgs false

namespace Karp.Drift
open Karp.Req Karp.Spec.K8s Karp.Sched

/-! ### Requirement expressions -/

/-- the requirement `NewRequirementWithFlexibility` builds for one expression (any `Exists` when it would panic) -/
def selReq (s : Sel) : Req :=
  match Req.new s.key s.op s.minValues s.values with
  | .ok r => r
  | .error _ => { key := normalizeKey s.key, complement := true, values := [] }

/-- a validated expression: comparison operators carry one integer literal, `In` / `NotIn` at least one value
    (the Kubernetes API rule for `NodeSelectorRequirement`) -/
def validSel (s : Sel) : Bool :=
  validOperands s.op s.values && !((s.op == .in_ || s.op == .notIn) && s.values.isEmpty)

theorem new_ok (s : Sel) (h : validOperands s.op s.values = true) :
    Req.new s.key s.op s.minValues s.values = .ok (selReq s) := by
  unfold selReq
  cases hn : Req.new s.key s.op s.minValues s.values with
  | ok r => rfl
  | error err =>
    exfalso
    cases hop : s.op <;> rw [hop] at h hn <;> simp only [Req.new] at hn
    case gt | lt | gte | lte =>
      all_goals
        cases hvals : s.values with
        | nil => rw [hvals] at h; simp [validOperands] at h
        | cons n rest => rw [hvals] at hn; simp only [List.map_cons] at hn; first | (split at hn <;> simp [pure, Except.pure] at hn; done) | (simp [pure, Except.pure] at hn; done)
    all_goals simp [pure, Except.pure] at hn

theorem selReq_spec (s : Sel) (h : validOperands s.op s.values = true) :
    (selReq s).WF ∧ (selReq s).key = normalizeKey s.key ∧ ∀ v, (selReq s).has v = k8sMatch s.op s.values (some v) := by
  have hn := new_ok s h
  refine ⟨wf_new _ _ _ _ _ hn, ?_, fun v => has_new _ _ _ _ _ v h hn⟩
  generalize selReq s = r at hn
  cases hop : s.op <;> simp only [Req.new, hop] at hn
  case in_ | notIn | exists_ | doesNotExist | other =>
    all_goals (simp only [pure, Except.pure, Except.ok.injEq] at hn; subst hn; rfl)
  all_goals
    cases hv : s.values with
    | nil => rw [hv] at hn; simp at hn
    | cons n rest =>
      rw [hv] at hn
      simp only [List.map_cons] at hn
      first
        | (simp only [pure, Except.pure, Except.ok.injEq] at hn; subst hn; rfl)
        | (split at hn <;> simp only [pure, Except.pure, Except.ok.injEq] at hn <;> subst hn <;> rfl)

/-- for validated expressions `NewNodeSelectorRequirementsWithMinValues` is `Requirements.Add` of the single requirements -/
theorem buildReqs_ok (sels : List Sel) (h : ∀ s ∈ sels, validOperands s.op s.values = true) :
    buildReqs sels = .ok (Reqs.add [] (sels.map selReq)) := by
  unfold buildReqs
  suffices H : ∀ (R : Reqs), List.foldlM addSel R sels = .ok (Reqs.add R (sels.map selReq)) from H []
  induction sels with
  | nil => intro R; rfl
  | cons s rest ih =>
    intro R
    rw [List.foldlM_cons]
    have hs : addSel R s = .ok (R.add1 (selReq s)) := by
      unfold addSel; rw [new_ok s (h s List.mem_cons_self)]
    rw [hs]
    have := ih (fun x hx => h x (List.mem_cons_of_mem _ hx)) (R.add1 (selReq s))
    simpa [Reqs.add, bind, Except.bind] using this

/-! ### Label requirements -/

def single (k v : String) : Req := { key := k, complement := false, values := [v] }

theorem lookup_none_of_not_mem (ls : Labels) (k : String) (h : k ∉ ls.map (·.1)) : ls.lookup k = none := by
  induction ls with
  | nil => rfl
  | cons p ps ih =>
    obtain ⟨k', v'⟩ := p
    simp only [List.map_cons, List.mem_cons, not_or] at h
    have : (k == k') = false := by simpa using h.1
    simp [List.lookup_cons, this, ih h.2]

/-- `NewLabelRequirements` of labels with distinct keys, none of them a deprecated alias: one `In [v]` per label -/
theorem lookup_labelReqs' (ls : Labels) (hnorm : ∀ kv ∈ ls, normalizeKey kv.1 = kv.1) (hnd : (ls.map (·.1)).Nodup)
    (k : String) : (labelReqs ls).lookup k = (ls.lookup k).map (single k) := by
  unfold labelReqs
  suffices H : ∀ (R : Reqs), (∀ kv ∈ ls, R.lookup kv.1 = none) →
      (ls.foldl (fun R kv => R.add1 (labelReq kv.1 kv.2)) R).lookup k =
        match ls.lookup k with | some v => some (single k v) | none => R.lookup k by
    have := H [] (fun _ _ => rfl)
    rw [this]; cases ls.lookup k <;> rfl
  induction ls with
  | nil => intro R _; rfl
  | cons p ps ih =>
    obtain ⟨k0, v0⟩ := p
    intro R hR
    simp only [List.map_cons, List.nodup_cons] at hnd
    have hk0 : normalizeKey k0 = k0 := hnorm (k0, v0) List.mem_cons_self
    have hR0 : R.lookup k0 = none := hR (k0, v0) List.mem_cons_self
    simp only [List.foldl_cons]
    have hR' : ∀ kv ∈ ps, (R.add1 (labelReq k0 v0)).lookup kv.1 = none := by
      intro kv hkv
      rw [lookup_add1]
      have hne : kv.1 ≠ k0 := by
        intro e; apply hnd.1; rw [← e]; exact List.mem_map.mpr ⟨kv, hkv, rfl⟩
      simp only [labelReq, hk0, hne, if_false]
      exact hR kv (List.mem_cons_of_mem _ hkv)
    rw [ih (fun kv hkv => hnorm kv (List.mem_cons_of_mem _ hkv)) hnd.2 _ hR']
    simp only [List.lookup_cons]
    by_cases hk : k == k0
    · have e : k = k0 := by simpa using hk
      subst e
      have : ps.lookup k = none := lookup_none_of_not_mem ps k hnd.1
      simp only [this, hk, lookup_add1, labelReq, hk0, if_true, hR0, single]
    · have hne : ¬ k = k0 := by simpa using hk
      simp only [hk, lookup_add1, labelReq, hk0, hne, if_false]

theorem single_wf (k v : String) : (single k v).WF := inSingle_wf k v

theorem single_admits (k v : String) (x : Option Val) (h : (single k v).admits x = true) : x = some v :=
  inSingle_admits k v x h

/-! ### Association lists with distinct keys -/

def NodupKeys (R : Reqs) : Prop := (R.map (·.1)).Nodup

theorem keys_set (R : Reqs) (k : String) (r : Req) :
    ∀ x, x ∈ (Reqs.set R k r).map (·.1) ↔ (x = k ∨ x ∈ R.map (·.1)) := by
  induction R with
  | nil => intro x; simp [Reqs.set]
  | cons p ps ih =>
    obtain ⟨k0, r0⟩ := p
    intro x
    simp only [Reqs.set]
    by_cases h0 : k0 = k
    · subst h0; simp
    · simp only [h0, if_false, List.map_cons, List.mem_cons, ih x]
      constructor
      · rintro (h | h | h)
        · exact Or.inr (Or.inl h)
        · exact Or.inl h
        · exact Or.inr (Or.inr h)
      · rintro (h | h | h)
        · exact Or.inr (Or.inl h)
        · exact Or.inl h
        · exact Or.inr (Or.inr h)

theorem nodupKeys_set (R : Reqs) (k : String) (r : Req) (h : NodupKeys R) : NodupKeys (Reqs.set R k r) := by
  unfold NodupKeys at *
  induction R with
  | nil => simp [Reqs.set]
  | cons p ps ih =>
    obtain ⟨k0, r0⟩ := p
    simp only [List.map_cons, List.nodup_cons] at h
    simp only [Reqs.set]
    by_cases h0 : k0 = k
    · subst h0; simp only [if_true, List.map_cons, List.nodup_cons]; exact h
    · simp only [h0, if_false, List.map_cons, List.nodup_cons]
      refine ⟨?_, ih h.2⟩
      intro hm
      rcases (keys_set ps k r k0).mp hm with e | e
      · exact h0 e
      · exact h.1 e

theorem nodupKeys_add1 (R : Reqs) (r : Req) (h : NodupKeys R) : NodupKeys (R.add1 r) := by
  unfold Reqs.add1
  cases R.lookup r.key <;> exact nodupKeys_set _ _ _ h

theorem nodupKeys_add (rs : List Req) : ∀ (R : Reqs), NodupKeys R → NodupKeys (R.add rs) := by
  induction rs with
  | nil => intro R h; exact h
  | cons r rest ih => intro R h; exact ih _ (nodupKeys_add1 R r h)

theorem lookup_of_mem (R : Reqs) (h : NodupKeys R) (k : String) (r : Req) (hm : (k, r) ∈ R) : R.lookup k = some r := by
  unfold NodupKeys at h
  induction R with
  | nil => cases hm
  | cons p ps ih =>
    obtain ⟨k0, r0⟩ := p
    simp only [List.map_cons, List.nodup_cons] at h
    simp only [List.lookup_cons]
    rcases List.mem_cons.mp hm with e | e
    · have e1 : k = k0 := by injection e
      have e2 : r = r0 := by injection e
      subst e1; subst e2; simp
    · have hne : (k == k0) = false := by
        have : k ≠ k0 := by
          intro e'; apply h.1; rw [← e']; exact List.mem_map.mpr ⟨(k, r), e, rfl⟩
        simpa using this
      simp only [hne]; exact ih h.2 e

/-! ### Requirements that tolerate an absent label -/

/-- the two representations whose `Operator()` is `NotIn` / `DoesNotExist` that `NotIn [v…]` and `DoesNotExist`
    expressions (and their intersections) produce -/
def TolShape (r : Req) : Prop :=
  (r.complement = true ∧ r.values ≠ [] ∧ r.gte = none ∧ r.lte = none) ∨ (r.complement = false ∧ r.values = [])

theorem card_pos (l : List Val) (h : l ≠ []) : 0 < card l := by
  rcases Nat.eq_zero_or_pos (card l) with h0 | h0
  · exact absurd ((card_eq_zero l).mp h0) h
  · exact h0

theorem tol_absentOk (r : Req) (h : TolShape r) : r.absentOk = true := by
  rcases h with ⟨hc, hv, _, _⟩ | ⟨hc, hv⟩
  · have := card_pos r.values hv
    simp only [Req.absentOk, Req.operator, Req.len, hc, if_true]
    have hlt : maxInt - (card r.values : Int) < maxInt := by omega
    simp [hlt]
  · simp [Req.absentOk, Req.operator, Req.len, hc, hv, card]

theorem filter_within_none (l : List Val) : l.filter (fun v => withinBounds v none none) = l := by
  induction l with
  | nil => rfl
  | cons x xs ih => simp [List.filter_cons, ih]

theorem tol_inter (r q : Req) (hr : TolShape r) (hq : TolShape q) : TolShape (r.inter q) := by
  rcases hr with ⟨hrc, hrv, hrg, hrl⟩ | ⟨hrc, hrv⟩ <;> rcases hq with ⟨hqc, hqv, hqg, hql⟩ | ⟨hqc, hqv⟩
  · left
    simp only [Req.inter, hrc, hqc, hrg, hrl, hqg, hql, maxOpt, minOpt, boundsEmpty, Bool.and_self, if_true,
      Bool.false_eq_true, if_false, filter_within_none]
    refine ⟨trivial, ?_, trivial, trivial⟩
    intro h; exact hrv (List.append_eq_nil_iff.mp h).1
  · right
    cases hg : r.gte <;> cases hl : r.lte <;>
      simp [Req.inter, hrc, hqc, hqv, hg, hl, maxOpt, minOpt, boundsEmpty, doesNotExist] <;>
      (try split) <;> simp
  · right
    cases hg : q.gte <;> cases hl : q.lte <;>
      simp [Req.inter, hrc, hqc, hrv, hg, hl, maxOpt, minOpt, boundsEmpty, doesNotExist] <;>
      (try split) <;> simp
  · right
    cases hg : r.gte <;> cases hl : r.lte <;> cases hg' : q.gte <;> cases hl' : q.lte <;>
      simp [Req.inter, hrc, hqc, hrv, hqv, hg, hl, hg', hl', maxOpt, minOpt, boundsEmpty, doesNotExist] <;>
      (try split) <;> simp

theorem tol_selReq (s : Sel) (hv : validSel s = true) (hm : k8sMatch s.op s.values none = true) : TolShape (selReq s) := by
  unfold validSel at hv
  rw [Bool.and_eq_true] at hv
  have hn := new_ok s hv.1
  generalize selReq s = r at hn
  cases hop : s.op <;> rw [hop] at hm hv <;> simp only [Req.new, hop] at hn
  case notIn =>
    simp only [pure, Except.pure, Except.ok.injEq] at hn; subst hn
    left
    refine ⟨rfl, ?_, rfl, rfl⟩
    rw [map_normalizeValue]
    intro he
    have he' : s.values = [] := by simpa using he
    have := hv.2
    simp [he'] at this
  case doesNotExist =>
    simp only [pure, Except.pure, Except.ok.injEq] at hn; subst hn
    right; exact ⟨rfl, rfl⟩
  all_goals simp [k8sMatch, cmpMatch] at hm

/-- after adding requirements that all tolerate absence on key `k`, what is stored under `k` (if anything) does too -/
theorem tol_add (k : String) (rs : List Req) : ∀ (R : Reqs),
    (∀ r, R.lookup k = some r → TolShape r) → (∀ r ∈ rs, r.key = k → TolShape r) →
    ∀ r, (R.add rs).lookup k = some r → TolShape r := by
  induction rs with
  | nil => intro R hR _ r hr; exact hR r hr
  | cons x xs ih =>
    intro R hR hrs
    simp only [Reqs.add, List.foldl_cons]
    apply ih (R.add1 x) _ (fun r hr hk => hrs r (List.mem_cons_of_mem _ hr) hk)
    intro r hr
    rw [lookup_add1] at hr
    by_cases hk : k = x.key
    · subst hk
      simp only [if_true, Option.some.injEq] at hr
      have hx := hrs x List.mem_cons_self rfl
      cases hl : R.lookup x.key with
      | none => rw [hl] at hr; simp only at hr; rw [← hr]; exact hx
      | some e => rw [hl] at hr; simp only at hr; rw [← hr]; exact tol_inter x e hx (hR e hl)
    · simp only [hk, if_false] at hr
      exact hR r hr

/-! ### `areRequirementsDrifted` against the Kubernetes reading -/

/-- the hypotheses under which the Kubernetes reading is stated: validated operands (`In`/`NotIn` non-empty), no
    deprecated alias among the requirement keys or the label keys, label keys distinct (a map) -/
structure Readable (sels : List Sel) (labels : Labels) : Prop where
  valid : ∀ s ∈ sels, validSel s = true
  selKeys : ∀ s ∈ sels, normalizeKey s.key = s.key
  labelKeys : ∀ kv ∈ labels, normalizeKey kv.1 = kv.1
  nodup : (labels.map (·.1)).Nodup

theorem validOperands_of_validSel (s : Sel) (h : validSel s = true) : validOperands s.op s.values = true := by
  unfold validSel at h; rw [Bool.and_eq_true] at h; exact h.1

theorem labelReqs_inRange (ls : Labels) (hnorm : ∀ kv ∈ ls, normalizeKey kv.1 = kv.1) (hnd : (ls.map (·.1)).Nodup) :
    ∀ k a, (labelReqs ls).lookup k = some a → a.boundsInRange := by
  intro k a hk
  rw [lookup_labelReqs' ls hnorm hnd] at hk
  cases hl : ls.lookup k with
  | none => rw [hl] at hk; simp at hk
  | some v => rw [hl] at hk; simp at hk; subst hk; exact (single_wf k v).inRange

theorem pool_wf (sels : List Sel) (hv : ∀ s ∈ sels, validOperands s.op s.values = true) :
    ∀ p ∈ Reqs.add [] (sels.map selReq), p.2.WF := by
  apply wf_add _ [] (by intro q hq; cases hq)
  intro r hr
  obtain ⟨s, hs, rfl⟩ := List.mem_map.mp hr
  exact (selReq_spec s (hv s hs)).1

/-- what `Compatible` guarantees about the actual labels: every stored requirement accepts the label's value, or its
    absence -/
theorem compatible_labels' (ls : Labels) (R : Reqs) (hnorm : ∀ kv ∈ ls, normalizeKey kv.1 = kv.1)
    (hnd : (ls.map (·.1)).Nodup) (hR : ∀ p ∈ R, p.2.WF) (h : (labelReqs ls).compatible R [] = true) :
    ∀ p ∈ R, p.2.admits (ls.lookup p.1) = true := by
  have := (compatible_iff (labelReqs ls) R [] (labelReqs_inRange ls hnorm hnd) hR).mp h
  intro p hp
  obtain ⟨x, hx1, hx2⟩ := this p hp
  unfold nodeAllows at hx1
  rw [lookup_labelReqs' ls hnorm hnd] at hx1
  cases hl : ls.lookup p.1 with
  | none =>
    rw [hl] at hx1
    simp at hx1
    cases x with
    | none => exact hx2
    | some w => simp at hx1
  | some v =>
    rw [hl] at hx1
    simp only [Option.map_some] at hx1
    have := single_admits p.1 v x hx1
    rw [← this]; exact hx2

/-- **no false requirement drift**: labels that satisfy every requirement expression (Kubernetes reading) are
    `Compatible` -/
theorem not_drifted_of_satisfy (sels : List Sel) (labels : Labels) (hr : Readable sels labels)
    (hsat : Karp.Spec.DriftSpec.labelsSatisfy sels labels = true) :
    requirementsDrifted sels labels = .ok false := by
  have hvo : ∀ s ∈ sels, validOperands s.op s.values = true := fun s hs => validOperands_of_validSel s (hr.valid s hs)
  unfold requirementsDrifted
  rw [buildReqs_ok sels hvo]
  simp only [bind, Except.bind, pure, Except.pure, Except.ok.injEq, Bool.not_eq_false']
  have hWF := pool_wf sels hvo
  have hND : NodupKeys (Reqs.add [] (sels.map selReq)) := nodupKeys_add _ [] (by simp [NodupKeys])
  rw [compatible_iff (labelReqs labels) _ [] (labelReqs_inRange labels hr.labelKeys hr.nodup) hWF]
  intro p hp
  obtain ⟨k, inc⟩ := p
  have hlk := lookup_of_mem _ hND k inc hp
  refine ⟨labels.lookup k, ?_, ?_⟩
  · -- the label side allows exactly the actual label / its absence
    unfold nodeAllows
    rw [lookup_labelReqs' labels hr.labelKeys hr.nodup]
    cases labels.lookup k with
    | none => simp
    | some v => simp [single, Req.admits, Req.has]
  · -- every expression on this key is satisfied by the actual label
    have hsat' : ∀ s ∈ sels, k8sMatch s.op s.values (labels.lookup s.key) = true := by
      simpa [Karp.Spec.DriftSpec.labelsSatisfy, List.all_eq_true] using hsat
    simp only
    cases hl : labels.lookup k with
    | some v =>
      simp only [Req.admits]
      have hg := has_add (sels.map selReq) [] k v
      have hget : (Reqs.add [] (sels.map selReq)).get k = inc := by rw [get_eq, hlk]
      rw [hget] at hg
      rw [hg]
      simp only [get_eq, List.lookup_nil, has_exists, Bool.true_and, List.all_eq_true]
      intro r hrm
      obtain ⟨hrm1, hrk⟩ := List.mem_filter.mp hrm
      obtain ⟨s, hs, rfl⟩ := List.mem_map.mp hrm1
      obtain ⟨_, hkey, hhas⟩ := selReq_spec s (hvo s hs)
      rw [hhas v]
      have hk : s.key = k := by
        have : (selReq s).key = k := by simpa using hrk
        rw [hkey, hr.selKeys s hs] at this; exact this
      have := hsat' s hs
      rw [hk, hl] at this; exact this
    | none =>
      simp only [Req.admits]
      apply tol_absentOk
      apply tol_add k (sels.map selReq) [] (by intro r h; cases h) _ inc hlk
      intro r hrm hrk
      obtain ⟨s, hs, rfl⟩ := List.mem_map.mp hrm
      obtain ⟨_, hkey, _⟩ := selReq_spec s (hvo s hs)
      have hk : s.key = k := by rw [hkey, hr.selKeys s hs] at hrk; exact hrk
      apply tol_selReq s (hr.valid s hs)
      have := hsat' s hs
      rw [hk, hl] at this; exact this

/-- the requirement Karpenter derives for a key tolerates the label's absence only if every expression on that key
    does (cf. `Karp.C01.Faithful`): what the requirement REPRESENTATION cannot guarantee -/
def Faithful (sels : List Sel) : Prop :=
  ∀ k r, (Reqs.add [] (sels.map selReq)).lookup k = some r → r.absentOk = true →
    ∀ s ∈ sels, normalizeKey s.key = k → k8sMatch s.op s.values none = true

/-- if the requirements are found `Compatible`, every expression whose label is PRESENT is satisfied, and under
    `Faithful` the ones whose label is absent as well -/
theorem satisfy_of_not_drifted (sels : List Sel) (labels : Labels) (hr : Readable sels labels)
    (h : requirementsDrifted sels labels = .ok false) :
    ∀ s ∈ sels, ((labels.lookup s.key).isSome ∨ Faithful sels) → k8sMatch s.op s.values (labels.lookup s.key) = true := by
  have hvo : ∀ s ∈ sels, validOperands s.op s.values = true := fun s hs => validOperands_of_validSel s (hr.valid s hs)
  unfold requirementsDrifted at h
  rw [buildReqs_ok sels hvo] at h
  simp only [bind, Except.bind, pure, Except.pure, Except.ok.injEq, Bool.not_eq_false'] at h
  have hWF := pool_wf sels hvo
  have hadm := compatible_labels' labels _ hr.labelKeys hr.nodup hWF h
  intro s hs hcase
  obtain ⟨_, hkey, hhas⟩ := selReq_spec s (hvo s hs)
  rw [hr.selKeys s hs] at hkey
  have hmem : selReq s ∈ sels.map selReq := List.mem_map.mpr ⟨s, hs, rfl⟩
  have hsome := lookup_add_isSome (sels.map selReq) [] (selReq s) hmem
  rw [hkey] at hsome
  cases hl : (Reqs.add [] (sels.map selReq)).lookup s.key with
  | none => rw [hl] at hsome; simp at hsome
  | some r =>
    have hin := lookup_mem _ _ _ hl
    have ha := hadm _ hin
    simp only at ha
    cases hlab : labels.lookup s.key with
    | none =>
      rw [hlab] at ha
      rcases hcase with hp | hf
      · rw [hlab] at hp; simp at hp
      · exact hf _ r hl (by simpa [Req.admits] using ha) s hs (hr.selKeys s hs)
    | some v =>
      rw [hlab] at ha
      have hg := has_add (sels.map selReq) [] s.key v
      have hget : (Reqs.add [] (sels.map selReq)).get s.key = r := by rw [get_eq, hl]
      rw [hget] at hg
      have hrv : r.has v = true := by simpa [Req.admits] using ha
      rw [hrv] at hg
      have hall := (Bool.and_eq_true _ _).mp hg.symm
      have := List.all_eq_true.mp hall.2 (selReq s) (List.mem_filter.mpr ⟨hmem, by rw [hkey]; simp⟩)
      rw [← hhas v]; exact this

theorem requirementsDrifted_ok (sels : List Sel) (labels : Labels)
    (hvo : ∀ s ∈ sels, validOperands s.op s.values = true) :
    ∃ b, requirementsDrifted sels labels = .ok b := by
  unfold requirementsDrifted
  rw [buildReqs_ok sels hvo]
  exact ⟨_, rfl⟩

/-! ### `Faithful` holds when every key carries one expression -/

/-- `Gt MaxInt` / `Lt MinInt` "match nothing" and are stored as `DoesNotExist` (an instance of the empty-set finding) -/
def noExtreme (s : Sel) : Bool :=
  match s.op, s.values with
  | .gt, [n] => atoi n != some maxInt
  | .lt, [n] => atoi n != some minInt
  | _, _ => true

theorem lookup_add_other (k : String) (rs : List Req) : ∀ (R : Reqs), (∀ r ∈ rs, r.key ≠ k) →
    (R.add rs).lookup k = R.lookup k := by
  induction rs with
  | nil => intro R _; rfl
  | cons x xs ih =>
    intro R h
    simp only [Reqs.add, List.foldl_cons]
    have := ih (R.add1 x) (fun r hr => h r (List.mem_cons_of_mem _ hr))
    simp only [Reqs.add] at this
    rw [this, lookup_add1]
    have hne : ¬ k = x.key := fun e => h x List.mem_cons_self e.symm
    simp only [hne, if_false]

/-- with pairwise distinct keys, what is stored under a requirement's key is that requirement itself -/
theorem lookup_add_unique (rs : List Req) : ∀ (R : Reqs), (∀ r ∈ rs, R.lookup r.key = none) →
    (rs.map (·.key)).Nodup → ∀ r0 ∈ rs, (R.add rs).lookup r0.key = some r0 := by
  induction rs with
  | nil => intro R _ _ r0 h; cases h
  | cons x xs ih =>
    intro R hR hnd r0 hr0
    simp only [List.map_cons, List.nodup_cons] at hnd
    simp only [Reqs.add, List.foldl_cons]
    have hx : R.lookup x.key = none := hR x List.mem_cons_self
    rcases List.mem_cons.mp hr0 with e | e
    · subst e
      have hoth : ∀ r ∈ xs, r.key ≠ r0.key := by
        intro r hr e; apply hnd.1; rw [← e]; exact List.mem_map.mpr ⟨r, hr, rfl⟩
      have := lookup_add_other r0.key xs (R.add1 r0) hoth
      simp only [Reqs.add] at this
      rw [this, lookup_add1, hx]; simp
    · have hR' : ∀ r ∈ xs, (R.add1 x).lookup r.key = none := by
        intro r hr
        rw [lookup_add1]
        have hne : ¬ r.key = x.key := by
          intro e'; apply hnd.1; rw [← e']; exact List.mem_map.mpr ⟨r, hr, rfl⟩
        simp only [hne, if_false]
        exact hR r (List.mem_cons_of_mem _ hr)
      have := ih (R.add1 x) hR' hnd.2 r0 e
      simpa [Reqs.add] using this

/-- a single validated expression is represented faithfully: its requirement tolerates absence only if the expression does -/
theorem single_faithful (s : Sel) (hv : validSel s = true) (hx : noExtreme s = true)
    (habs : (selReq s).absentOk = true) : k8sMatch s.op s.values none = true := by
  unfold validSel at hv
  rw [Bool.and_eq_true] at hv
  have hn := new_ok s hv.1
  generalize selReq s = r at hn habs
  cases hop : s.op <;> rw [hop] at hv hn <;> simp only [Req.new] at hn
  case notIn => simp [k8sMatch]
  case doesNotExist => simp [k8sMatch]
  case other => simp [validOperands] at hv
  case in_ =>
    exfalso
    simp only [pure, Except.pure, Except.ok.injEq] at hn; subst hn
    cases hvals : s.values with
    | nil => rw [hvals] at hv; simp at hv
    | cons x xs =>
      rw [hvals] at habs
      simp [Req.absentOk, Req.operator, Req.len, card, normalizeValue, List.eraseDups_cons] at habs
      try omega
  case exists_ =>
    exfalso
    simp only [pure, Except.pure, Except.ok.injEq] at hn; subst hn
    simp [Req.absentOk, Req.operator, Req.len, card, maxInt] at habs
  all_goals
    exfalso
    cases hvals : s.values with
    | nil => rw [hvals] at hv; simp [validOperands] at hv
    | cons n rest =>
      rw [hvals] at hn hv
      have hrest : rest = [] := by
        cases rest with
        | nil => rfl
        | cons y ys => simp [validOperands] at hv
      subst hrest
      simp only [List.map_cons, List.map_nil, normalizeValue] at hn
      have hsome : (atoi n).isSome = true := by simpa [validOperands] using hv.1
      obtain ⟨j, hj⟩ := Option.isSome_iff_exists.mp hsome
      have hraw := atoiRaw_of_atoi n j hj
      simp only [noExtreme, hop, hvals, hj] at hx
      first
        | (rw [hraw] at hn
           split at hn
           · rename_i he; simp [he] at hx
           · simp only [pure, Except.pure, Except.ok.injEq] at hn; subst hn
             simp [Req.absentOk, Req.operator, Req.len, card, maxInt] at habs)
        | (simp only [pure, Except.pure, Except.ok.injEq] at hn; subst hn
           simp [Req.absentOk, Req.operator, Req.len, card, maxInt] at habs)

/-- **one expression per key ⇒ `Faithful`** (the overwhelmingly common NodePool) -/
theorem faithful_of_distinct (sels : List Sel) (hv : ∀ s ∈ sels, validSel s = true ∧ noExtreme s = true)
    (hnd : (sels.map (fun s => normalizeKey s.key)).Nodup) : Faithful sels := by
  intro k r hl habs s hs hk
  have hkeys : (sels.map selReq).map (·.key) = sels.map (fun s => normalizeKey s.key) := by
    rw [List.map_map]
    apply List.map_congr_left
    intro x hx
    exact (selReq_spec x (validOperands_of_validSel x (hv x hx).1)).2.1
  have hmem : selReq s ∈ sels.map selReq := List.mem_map.mpr ⟨s, hs, rfl⟩
  have hlk := lookup_add_unique (sels.map selReq) [] (fun _ _ => rfl) (by rw [hkeys]; exact hnd) (selReq s) hmem
  have hkey : (selReq s).key = k := by
    rw [(selReq_spec s (validOperands_of_validSel s (hv s hs).1)).2.1]; exact hk
  rw [hkey, hl] at hlk
  have : r = selReq s := Option.some.inj hlk
  subst this
  exact single_faithful s (hv s hs).1 (hv s hs).2 habs

/-! ### Histories without edits: a settled NodeClaim stays un-drifted -/

/-- the NodePool carries its current hash and hash version (the hash controller has run since the last edit) -/
def freshAnn (s : St) : Ann := { hash := some s.pool.pool.hashString, version := some currentVersion }

/-- a NodeClaim that gives no cause for drift: stamped with the NodePool's current annotations, no Drifted condition,
    its labels `Compatible` with the NodePool's requirements, its instance type and offering still listed -/
def Good (s : St) (c : Claim) : Prop :=
  c.ann = freshAnn s ∧ c.drifted = none ∧
  requirementsDrifted (s.pool.pool.template.requirements.getD []) c.labels = .ok false ∧
  instanceTypeNotFound s.prov.its c.labels s.wellKnown s.reservedLabels = false

structure Settled (s : St) : Prop where
  poolAnn : s.pool.ann = freshAnn s
  noProviderDrift : s.prov.drift = ""
  claims : ∀ c ∈ s.claims, Good s c

/-- steps that edit neither the NodePool, nor a NodeClaim, nor the provider's answers -/
def quiet : Step → Bool
  | .hashctl => true
  | .reconcile _ => true
  | .advance _ => true
  | _ => false

theorem good_congr (s s' : St) (c : Claim) (hp : s'.pool = s.pool) (hv : s'.prov = s.prov)
    (hw : s'.wellKnown = s.wellKnown) (hr : s'.reservedLabels = s.reservedLabels) (h : Good s c) : Good s' c := by
  unfold Good freshAnn at *
  rw [hp, hv, hw, hr]; exact h

theorem settled_hashctl (s : St) (h : Settled s) : Settled (hashReconcile s) := by
  unfold hashReconcile
  by_cases hg : (!(s.pool.present && s.poolManaged)) = true
  · simp only [hg, if_true]; exact h
  · simp only [hg, if_false]
    have hver : s.pool.ann.version = some currentVersion := by rw [h.poolAnn]; rfl
    have hne : (s.pool.ann.version != some currentVersion) = false := by rw [hver]; simp
    simp only [hne, Bool.false_eq_true, if_false]
    have hpool : ({ s.pool with ann := { hash := some s.pool.pool.hashString, version := some currentVersion } } : PoolSt) = s.pool := by
      have := h.poolAnn
      unfold freshAnn at this
      cases hp : s.pool with
      | mk name present pool ann => rw [hp] at this; simp only at this; rw [this]
    rw [hpool]
    exact ⟨h.poolAnn, h.noProviderDrift, h.claims⟩

theorem settled_advance (s : St) (ns : Int) (h : Settled s) : Settled { s with now := s.now + ns } :=
  ⟨h.poolAnn, h.noProviderDrift, fun c hc => good_congr s _ c rfl rfl rfl rfl (h.claims c hc)⟩

/-- `Drift.Reconcile` on a good NodeClaim of a settled state: no Drifted condition, everything else as before -/
theorem driftReconcile_good (s : St) (c : Claim) (hs : Settled s) (hc : Good s c) :
    ∃ c' e k, driftReconcile s c = .ok (c', e, k) ∧ c'.labels = c.labels ∧ c'.ann = c.ann ∧ c'.drifted = none := by
  obtain ⟨hann, hdr, hreq, hit⟩ := hc
  unfold driftReconcile
  by_cases hl : c.launched = true
  · simp only [hl, Bool.not_true, Bool.false_eq_true, if_false]
    have hstat : staticDrifted s.pool.ann c.ann = false := by
      rw [hs.poolAnn, hann]; unfold staticDrifted freshAnn; simp
    unfold isDrifted
    simp only [hreq, hstat, hit, hs.noProviderDrift, bind, Except.bind, pure, Except.pure, Bool.false_eq_true, if_false,
      Bool.and_false]
    by_cases h1 : (!s.checked.contains c.name && decide (s.now - c.createdAt > hourNs) && s.prov.itErr) = true
    · simp only [h1, if_true]; exact ⟨c, true, false, rfl, rfl, rfl, hdr⟩
    · simp only [h1, if_false]
      by_cases h2 : s.prov.driftErr = true
      · simp only [h2, if_true]; exact ⟨c, true, _, rfl, rfl, rfl, hdr⟩
      · simp only [h2, if_false]
        refine ⟨_, _, _, rfl, ?_, ?_, ?_⟩ <;> rfl
  · have hl' : c.launched = false := by simpa using hl
    simp only [hl', Bool.not_false, if_true, pure, Except.pure]
    refine ⟨_, _, _, rfl, ?_, ?_, ?_⟩ <;> rfl

theorem settled_reconcile (s : St) (n : String) (h : Settled s) :
    ∃ s' e, reconcileClaim s n = .ok (s', e) ∧ Settled s' := by
  unfold reconcileClaim
  cases hf : s.claims.find? (·.name == n) with
  | none => exact ⟨s, false, rfl, h⟩
  | some c =>
    simp only [pure, Except.pure]
    by_cases hm : (!c.managed || c.deleting) = true
    · simp only [hm, if_true]; exact ⟨s, false, rfl, h⟩
    · simp only [hm, if_false]
      cases hlab : c.labels.lookup nodePoolKey with
      | none => exact ⟨s, false, rfl, h⟩
      | some pn =>
        simp only
        by_cases hp : (!(s.pool.present && pn == s.pool.name)) = true
        · simp only [hp, if_true]; exact ⟨s, false, rfl, h⟩
        · simp only [hp, if_false]
          have hcm : c ∈ s.claims := List.mem_of_find?_eq_some hf
          obtain ⟨c', e, k, hd, hl1, hl2, hl3⟩ := driftReconcile_good s c h (h.claims c hcm)
          rw [hd]
          simp only [bind, Except.bind]
          refine ⟨_, e, rfl, ⟨h.poolAnn, h.noProviderDrift, ?_⟩⟩
          intro x hx
          simp only [List.mem_map] at hx
          obtain ⟨y, hy, hxy⟩ := hx
          have hgy := h.claims y hy
          by_cases hyn : (y.name == n) = true
          · simp only [hyn, if_true] at hxy
            rw [← hxy]
            obtain ⟨g1, g2, g3, g4⟩ := h.claims c hcm
            refine ⟨?_, hl3, ?_, ?_⟩
            · rw [hl2]; exact g1
            · rw [hl1]; exact g3
            · rw [hl1]; exact g4
          · simp only [hyn, if_false] at hxy
            rw [← hxy]
            exact good_congr s _ y rfl rfl rfl rfl hgy

theorem settled_step (s : St) (st : Step) (hq : quiet st = true) (h : Settled s) :
    ∃ s' e, step s st = .ok (s', e) ∧ Settled s' := by
  cases st <;> simp [quiet] at hq
  · exact ⟨_, false, rfl, settled_hashctl s h⟩
  · exact ⟨_, false, rfl, settled_advance s _ h⟩
  · exact settled_reconcile s _ h

theorem settled_run (steps : List Step) : ∀ (s : St), Settled s → (∀ st ∈ steps, quiet st = true) →
    ∃ out, run s steps = .ok out ∧ ∀ p ∈ out, Settled p.1 := by
  induction steps with
  | nil => intro s _ _; exact ⟨[], rfl, by intro p hp; cases hp⟩
  | cons st rest ih =>
    intro s hs hq
    obtain ⟨s', e, hstep, hs'⟩ := settled_step s st (hq st List.mem_cons_self) hs
    obtain ⟨out, hrun, hout⟩ := ih s' hs' (fun x hx => hq x (List.mem_cons_of_mem _ hx))
    refine ⟨(s', e) :: out, ?_, ?_⟩
    · simp only [run, hstep, hrun, bind, Except.bind, pure, Except.pure]
    · intro p hp
      rcases List.mem_cons.mp hp with rfl | hp'
      · exact hs'
      · exact hout p hp'

/-! ### NodeClaims created in mid-history

`createClaim` stamps a NodeClaim with the hash of the template it is built from (`stampOf`), whatever the NodePool's
annotation says at that moment.  Along every history that neither edits the NodePool's spec nor overwrites the NodeClaim's
annotations the NodeClaim keeps that stamp (`tracks_run`), and as long as the disruption controller only looks at it while
the NodePool's annotation is up to date it is never reported `NodePoolDrifted` (`calm_run`). -/

def NPD : String := Karp.Gen.C15Drift.reasonNodePoolDrifted

/-- what `Drift.Reconcile` may do to a NodeClaim: only the Drifted condition changes, and it becomes `NodePoolDrifted`
    only if `areStaticFieldsDrifted` says so (or the provider answers with that very reason) -/
theorem driftReconcile_cases (s : St) (c c' : Claim) (e k : Bool) (h : driftReconcile s c = .ok (c', e, k)) :
    c'.name = c.name ∧ c'.ann = c.ann ∧ c'.labels = c.labels ∧
    (c'.drifted = c.drifted ∨ c'.drifted = none ∨ (c'.drifted = some NPD ∧ (staticDrifted s.pool.ann c.ann = true ∨ s.prov.drift = NPD))
      ∨ (∃ r, c'.drifted = some r ∧ r ≠ NPD)) := by
  unfold driftReconcile at h
  by_cases hl : c.launched = true
  · simp only [hl, Bool.not_true, Bool.false_eq_true, if_false] at h
    cases hi : isDrifted s c with
    | error x => rw [hi] at h; simp [bind, Except.bind] at h
    | ok v =>
      rw [hi] at h
      obtain ⟨vd, cached⟩ := v
      cases vd with
      | error =>
        simp only [bind, Except.bind, pure, Except.pure] at h
        injection h with h; injection h with h1 h2
        subst h1; exact ⟨rfl, rfl, rfl, Or.inl rfl⟩
      | reason r =>
        simp only [bind, Except.bind, pure, Except.pure] at h
        by_cases hr : (r == "") = true
        · simp only [hr, if_true] at h
          injection h with h; injection h with h1 h2
          subst h1; exact ⟨rfl, rfl, rfl, Or.inr (Or.inl rfl)⟩
        · simp only [hr, if_false] at h
          injection h with h; injection h with h1 h2
          subst h1
          refine ⟨rfl, rfl, rfl, ?_⟩
          by_cases hn : r = NPD
          · right; right; left
            refine ⟨by simp [hn], ?_⟩
            -- which branch of isDrifted produced NPD
            unfold isDrifted at hi
            cases hq : requirementsDrifted (s.pool.pool.template.requirements.getD []) c.labels with
            | error x => rw [hq] at hi; simp [bind, Except.bind] at hi
            | ok b =>
              rw [hq] at hi
              simp only [bind, Except.bind, pure, Except.pure] at hi
              by_cases hs : staticDrifted s.pool.ann c.ann = true
              · exact Or.inl hs
              · right
                simp only [hs, Bool.false_eq_true, if_false] at hi
                have e2 : Karp.Gen.C15Drift.reasonRequirementsDrifted ≠ NPD := by decide
                have e3 : Karp.Gen.C15Drift.reasonInstanceTypeNotFound ≠ NPD := by decide
                split at hi
                · injection hi with hi; injection hi with h1 _; injection h1 with h1; exact absurd (h1.trans hn) e2
                · split at hi
                  · injection hi with hi; injection hi with h1 _; cases h1
                  · split at hi
                    · injection hi with hi; injection hi with h1 _; injection h1 with h1; exact absurd (h1.trans hn) e3
                    · split at hi
                      · injection hi with hi; injection hi with h1 _; cases h1
                      · injection hi with hi; injection hi with h1 _; injection h1 with h1; rw [h1]; exact hn
          · right; right; right; exact ⟨r, rfl, hn⟩
  · have hl' : c.launched = false := by simpa using hl
    simp only [hl', Bool.not_false, if_true, pure, Except.pure] at h
    injection h with h; injection h with h1 h2
    subst h1; exact ⟨rfl, rfl, rfl, Or.inr (Or.inl rfl)⟩

/-- steps that neither edit the NodePool's spec nor overwrite a NodeClaim's annotations (creations, hash-controller runs,
    reconciles, label / Launched / provider / clock changes, deletion of the NodePool, tampering with the NodePool's own
    annotations) -/
def keepsStamp : Step → Bool
  | .editPool _ => false
  | .setAnn (some _) _ _ => false
  | _ => true

/-- how one step that keeps the stamps relates the NodeClaims after it to those before it -/
def Effect (s : St) (isReconcile : Bool) (c' : Claim) : Prop :=
  (c'.ann = stampOf s.pool.pool ∧ c'.drifted = none) ∨
  ∃ c ∈ s.claims, c'.name = c.name ∧ (c.ann = stampOf s.pool.pool → c'.ann = c.ann) ∧
    (c'.drifted = c.drifted ∨ c'.drifted = none ∨
     (c'.drifted = some NPD ∧ isReconcile = true ∧ (staticDrifted s.pool.ann c.ann = true ∨ s.prov.drift = NPD)) ∨
     (∃ r, c'.drifted = some r ∧ r ≠ NPD))

def isReconcile : Step → Bool
  | .reconcile _ => true
  | _ => false

theorem effect_same (s : St) (b : Bool) (c : Claim) (hc : c ∈ s.claims) : Effect s b c :=
  Or.inr ⟨c, hc, rfl, fun _ => rfl, Or.inl rfl⟩

theorem effect_upd (s : St) (n : String) (f : Claim → Claim) (hn : ∀ c, (f c).name = c.name) (ha : ∀ c, (f c).ann = c.ann)
    (hd : ∀ c, (f c).drifted = c.drifted) (b : Bool) : ∀ c' ∈ (updClaim s n f).claims, Effect s b c' := by
  intro c' hc'
  simp only [updClaim, List.mem_map] at hc'
  obtain ⟨c, hc, rfl⟩ := hc'
  by_cases hx : (c.name == n) = true
  · simp only [hx, if_true]
    exact Or.inr ⟨c, hc, hn c, fun _ => ha c, Or.inl (hd c)⟩
  · simp only [hx, if_false]
    exact effect_same s b c hc

theorem migrateClaim_tracked (h : String) (c : Claim) (p : Karp.Hash.Pool) (hc : c.ann = stampOf p) : migrateClaim h c = c := by
  unfold migrateClaim
  have : c.ann.version = some currentVersion := by rw [hc]; rfl
  simp [this]

theorem step_effect (s s' : St) (st : Step) (e : Bool) (h : step s st = .ok (s', e)) (hk : keepsStamp st = true) :
    s'.pool.pool = s.pool.pool ∧ ∀ c' ∈ s'.claims, Effect s (isReconcile st) c' := by
  cases st with
  | editPool p => simp [keepsStamp] at hk
  | deletePool =>
    simp only [step, pure, Except.pure] at h
    injection h with h; injection h with h1 _
    subst h1
    exact ⟨rfl, fun c hc => effect_same s _ c hc⟩
  | hashctl =>
    simp only [step, pure, Except.pure] at h
    injection h with h; injection h with h1 _
    subst h1
    unfold hashReconcile
    by_cases hg : (!(s.pool.present && s.poolManaged)) = true
    · rw [if_pos hg]; exact ⟨rfl, fun c hc => effect_same s _ c hc⟩
    · rw [if_neg hg]
      refine ⟨rfl, ?_⟩
      intro c' hc'
      dsimp only at hc'
      by_cases hv : (s.pool.ann.version != some currentVersion) = true
      · rw [if_pos hv] at hc'
        obtain ⟨c, hc, rfl⟩ := List.mem_map.mp hc'
        by_cases hx : (c.managed && c.labels.lookup nodePoolKey == some s.pool.name) = true
        · simp only [hx, if_true]
          refine Or.inr ⟨c, hc, ?_, ?_, Or.inl ?_⟩
          · unfold migrateClaim; split <;> rfl
          · intro ht; rw [migrateClaim_tracked _ c _ ht]
          · unfold migrateClaim; split <;> rfl
        · simp only [hx, if_false]; exact effect_same s _ c hc
      · rw [if_neg hv] at hc'
        exact effect_same s _ c' hc'
  | setLabel n k v =>
    simp only [step, pure, Except.pure] at h
    injection h with h; injection h with h1 _
    subst h1
    exact ⟨rfl, effect_upd s n (fun c => { c with labels := setKV c.labels k v }) (fun _ => rfl) (fun _ => rfl) (fun _ => rfl) _⟩
  | setAnn t isHash v =>
    cases t with
    | some n => simp [keepsStamp] at hk
    | none =>
      simp only [step, pure, Except.pure] at h
      injection h with h; injection h with h1 _
      subst h1
      by_cases hp : s.pool.present = true
      · rw [if_pos hp]; exact ⟨rfl, fun c hc => effect_same s _ c hc⟩
      · rw [if_neg hp]; exact ⟨rfl, fun c hc => effect_same s _ c hc⟩
  | setLaunched n v =>
    simp only [step, pure, Except.pure] at h
    injection h with h; injection h with h1 _
    subst h1
    exact ⟨rfl, effect_upd s n (fun c => { c with launched := v }) (fun _ => rfl) (fun _ => rfl) (fun _ => rfl) _⟩
  | setProv p =>
    simp only [step, pure, Except.pure] at h
    injection h with h; injection h with h1 _
    subst h1
    exact ⟨rfl, fun c hc => effect_same s _ c hc⟩
  | advance ns =>
    simp only [step, pure, Except.pure] at h
    injection h with h; injection h with h1 _
    subst h1
    exact ⟨rfl, fun c hc => effect_same s _ c hc⟩
  | reconcile n =>
    simp only [step] at h
    unfold reconcileClaim at h
    cases hf : s.claims.find? (·.name == n) with
    | none =>
      rw [hf] at h; simp only [pure, Except.pure] at h
      injection h with h; injection h with h1 _; subst h1
      exact ⟨rfl, fun c hc => effect_same s _ c hc⟩
    | some c =>
      rw [hf] at h
      simp only [pure, Except.pure] at h
      by_cases hm : (!c.managed || c.deleting) = true
      · simp only [hm, if_true] at h
        injection h with h; injection h with h1 _; subst h1
        exact ⟨rfl, fun c hc => effect_same s _ c hc⟩
      · simp only [hm, if_false] at h
        cases hlab : c.labels.lookup nodePoolKey with
        | none =>
          rw [hlab] at h; simp only at h
          injection h with h; injection h with h1 _; subst h1
          exact ⟨rfl, fun c hc => effect_same s _ c hc⟩
        | some pn =>
          rw [hlab] at h; simp only at h
          by_cases hp : (!(s.pool.present && pn == s.pool.name)) = true
          · simp only [hp, if_true] at h
            injection h with h; injection h with h1 _; subst h1
            exact ⟨rfl, fun c hc => effect_same s _ c hc⟩
          · simp only [hp, if_false] at h
            have hcm : c ∈ s.claims := List.mem_of_find?_eq_some hf
            cases hd : driftReconcile s c with
            | error x => rw [hd] at h; simp [bind, Except.bind] at h
            | ok v =>
              obtain ⟨c1, err, cached⟩ := v
              rw [hd] at h
              simp only [bind, Except.bind] at h
              injection h with h; injection h with h1 _; subst h1
              obtain ⟨g1, g2, _, g4⟩ := driftReconcile_cases s c c1 err cached hd
              refine ⟨rfl, ?_⟩
              intro x' hx'
              simp only [List.mem_map] at hx'
              obtain ⟨x, hx, rfl⟩ := hx'
              by_cases hxn : (x.name == n) = true
              · simp only [hxn, if_true]
                refine Or.inr ⟨c, hcm, g1, fun _ => g2, ?_⟩
                rcases g4 with g | g | ⟨g, g'⟩ | g
                · exact Or.inl g
                · exact Or.inr (Or.inl g)
                · exact Or.inr (Or.inr (Or.inl ⟨g, rfl, g'⟩))
                · exact Or.inr (Or.inr (Or.inr g))
              · simp only [hxn, if_false]; exact effect_same s _ x hx
  | create n res pl l =>
    simp only [step, bind, Except.bind] at h
    cases hc : createClaim s n res pl l with
    | error x => rw [hc] at h; simp at h
    | ok s1 =>
      rw [hc] at h
      simp only [pure, Except.pure] at h
      injection h with h; injection h with h1 _; subst h1
      unfold createClaim at hc
      by_cases hg : (!s.pool.present || s.claims.any (·.name == n)) = true
      · simp only [hg, if_true, pure, Except.pure] at hc
        injection hc with hc; subst hc
        exact ⟨rfl, fun c hc => effect_same s _ c hc⟩
      · simp only [hg, if_false] at hc
        cases hr : s.pool.pool.template.nodeClassRef with
        | none => rw [hr] at hc; simp at hc
        | some r =>
          rw [hr] at hc
          simp only at hc
          cases hb : buildReqs (s.pool.pool.template.requirements.getD []) with
          | error x => rw [hb] at hc; simp [bind, Except.bind] at hc
          | ok R =>
            rw [hb] at hc
            simp only [bind, Except.bind, pure, Except.pure] at hc
            injection hc with hc; subst hc
            refine ⟨rfl, ?_⟩
            intro c' hc'
            simp only [List.mem_append, List.mem_singleton] at hc'
            rcases hc' with hc' | hc'
            · exact effect_same s _ c' hc'
            · subst hc'; exact Or.inl ⟨rfl, rfl⟩

theorem staticDrifted_self (a : Ann) : staticDrifted a a = false := by
  unfold staticDrifted
  cases a.hash <;> cases a.version <;> simp

theorem isReconcile_elim (st : Step) (h : isReconcile st = true) : ∃ m, st = .reconcile m := by
  cases st <;> simp [isReconcile] at h
  exact ⟨_, rfl⟩

/-- every NodeClaim named `n` carries the stamp of the NodePool's current template -/
def Tracks (s : St) (n : String) : Prop := ∀ c ∈ s.claims, c.name = n → c.ann = stampOf s.pool.pool

theorem tracks_step (s s' : St) (st : Step) (e : Bool) (n : String) (h : step s st = .ok (s', e))
    (hk : keepsStamp st = true) (ht : Tracks s n) : Tracks s' n := by
  obtain ⟨hp, he⟩ := step_effect s s' st e h hk
  intro c' hc' hn
  rw [hp]
  rcases he c' hc' with ⟨ha, _⟩ | ⟨c, hc, hname, hann, _⟩
  · exact ha
  · have hcn : c.name = n := by rw [← hname]; exact hn
    have := ht c hc hcn
    rw [hann this]; exact this

theorem run_cons (s : St) (st : Step) (rest : List Step) (out : List (St × Bool)) (h : run s (st :: rest) = .ok out) :
    ∃ s' e tl, step s st = .ok (s', e) ∧ run s' rest = .ok tl ∧ out = (s', e) :: tl := by
  simp only [run, bind, Except.bind] at h
  cases hs : step s st with
  | error x => rw [hs] at h; simp at h
  | ok v =>
    obtain ⟨s', e⟩ := v
    rw [hs] at h
    simp only at h
    cases hr : run s' rest with
    | error x => rw [hr] at h; simp at h
    | ok tl =>
      rw [hr] at h
      simp only [pure, Except.pure] at h
      injection h with h
      exact ⟨s', e, tl, rfl, hr, h.symm⟩

theorem tracks_run (n : String) (steps : List Step) : ∀ (s : St), Tracks s n → (∀ st ∈ steps, keepsStamp st = true) →
    ∀ out, run s steps = .ok out → ∀ p ∈ out, Tracks p.1 n := by
  induction steps with
  | nil =>
    intro s _ _ out h p hp
    simp only [run, pure, Except.pure] at h
    injection h with h; subst h; cases hp
  | cons st rest ih =>
    intro s ht hq out h p hp
    obtain ⟨s', e, tl, hs, hr, rfl⟩ := run_cons s st rest out h
    have ht' := tracks_step s s' st e n hs (hq st List.mem_cons_self) ht
    rcases List.mem_cons.mp hp with rfl | hp'
    · exact ht'
    · exact ih s' ht' (fun x hx => hq x (List.mem_cons_of_mem _ hx)) tl hr p hp'

/-- every NodeClaim named `n` carries the stamp of the current template and is not reported `NodePoolDrifted` -/
def Calm (s : St) (n : String) : Prop :=
  ∀ c ∈ s.claims, c.name = n → c.ann = stampOf s.pool.pool ∧ c.drifted ≠ some NPD

/-- the disruption controller looks at NodeClaims only while the NodePool's annotation is up to date with its template
    (the hash controller has run since the last edit), and the provider does not answer with the reason `NodePoolDrifted` -/
def timely (s : St) : Step → Bool
  | .reconcile _ => decide (s.pool.ann = stampOf s.pool.pool) && s.prov.drift != NPD
  | _ => true

theorem calm_step (s s' : St) (st : Step) (e : Bool) (n : String) (h : step s st = .ok (s', e))
    (hk : keepsStamp st = true) (htm : timely s st = true) (hc : Calm s n) : Calm s' n := by
  obtain ⟨hp, he⟩ := step_effect s s' st e h hk
  intro c' hc' hn
  rw [hp]
  rcases he c' hc' with ⟨ha, hd⟩ | ⟨c, hcm, hname, hann, hdr⟩
  · exact ⟨ha, by rw [hd]; simp⟩
  · have hcn : c.name = n := by rw [← hname]; exact hn
    obtain ⟨g1, g2⟩ := hc c hcm hcn
    refine ⟨by rw [hann g1]; exact g1, ?_⟩
    rcases hdr with g | g | ⟨_, hrec, hcause⟩ | ⟨r, g, hr⟩
    · rw [g]; exact g2
    · rw [g]; simp
    · obtain ⟨m, rfl⟩ := isReconcile_elim st hrec
      simp only [timely, Bool.and_eq_true, decide_eq_true_eq, bne_iff_ne, ne_eq] at htm
      obtain ⟨hann', hprov⟩ := htm
      rcases hcause with hs | hs
      · rw [hann', g1, staticDrifted_self] at hs; cases hs
      · exact absurd hs hprov
    · rw [g]; intro hx; injection hx with hx; exact hr hx

/-- a history of stamp-keeping steps in which every reconcile is timely -/
def timelyRun : St → List Step → Bool
  | _, [] => true
  | s, st :: rest => keepsStamp st && timely s st &&
      (match step s st with
       | .ok (s', _) => timelyRun s' rest
       | .error _ => true)

theorem calm_run (n : String) (steps : List Step) : ∀ (s : St), Calm s n → timelyRun s steps = true →
    ∀ out, run s steps = .ok out → ∀ p ∈ out, Calm p.1 n := by
  induction steps with
  | nil =>
    intro s _ _ out h p hp
    simp only [run, pure, Except.pure] at h
    injection h with h; subst h; cases hp
  | cons st rest ih =>
    intro s hc hq out h p hp
    obtain ⟨s', e, tl, hs, hr, rfl⟩ := run_cons s st rest out h
    simp only [timelyRun, hs, Bool.and_eq_true] at hq
    obtain ⟨⟨hk, htm⟩, hrest⟩ := hq
    have hc' := calm_step s s' st e n hs hk htm hc
    rcases List.mem_cons.mp hp with rfl | hp'
    · exact hc'
    · exact ih s' hc' hrest tl hr p hp'

/-! ### Several NodeClaims built from one NodePool object (`static.provisioning`, `StaticDrift`, repeated
`NewNodeClaimTemplate`): creations leave the NodePool alone -/

/-- one creation of a batch: the way, the name, the outcome of the `Any()` calls, the provider's labels, Launched -/
abbrev Creation := Via × String × Labels × Labels × Bool

/-- the steps of a batch of creations from the NodePool of state `s` -/
def batchSteps (s : St) (b : List Creation) : List Step :=
  b.map (fun c => createStep s c.1 c.2.1 c.2.2.1 c.2.2.2.1 c.2.2.2.2)

def creationStep : Step → Bool
  | .create _ _ _ _ => true
  | .advance ns => ns == 0
  | _ => false

theorem createClaim_leaves_nodepool (s s' : St) (n : String) (r p : Labels) (l : Bool)
    (h : createClaim s n r p l = .ok s') : s'.pool = s.pool ∧ s'.nodeClass = s.nodeClass := by
  unfold createClaim at h
  split at h
  · simp only [pure, Except.pure] at h; injection h with h; subst h; exact ⟨rfl, rfl⟩
  · cases hr : s.pool.pool.template.nodeClassRef with
    | none => rw [hr] at h; simp at h
    | some ref =>
      rw [hr] at h
      simp only at h
      cases hb : buildReqs (s.pool.pool.template.requirements.getD []) with
      | error x => rw [hb] at h; simp [bind, Except.bind] at h
      | ok R =>
        rw [hb] at h
        simp only [bind, Except.bind, pure, Except.pure] at h
        injection h with h; subst h
        exact ⟨rfl, rfl⟩

theorem creationStep_leaves_nodepool (s s' : St) (st : Step) (e : Bool) (hc : creationStep st = true)
    (h : step s st = .ok (s', e)) : s'.pool = s.pool ∧ s'.nodeClass = s.nodeClass := by
  cases st with
  | create n r p l =>
    simp only [step, bind, Except.bind] at h
    cases hcc : createClaim s n r p l with
    | error x => rw [hcc] at h; simp at h
    | ok s1 =>
      rw [hcc] at h
      simp only [pure, Except.pure] at h
      injection h with h; injection h with h1 _
      subst h1
      exact createClaim_leaves_nodepool s s1 n r p l hcc
  | advance ns =>
    simp only [step, pure, Except.pure] at h
    injection h with h; injection h with h1 _
    subst h1; exact ⟨rfl, rfl⟩
  | _ => simp [creationStep] at hc

theorem creationStep_createStep (s : St) (c : Creation) :
    creationStep (createStep s c.1 c.2.1 c.2.2.1 c.2.2.2.1 c.2.2.2.2) = true := by
  unfold createStep
  split <;> simp [creationStep]

theorem creationStep_keepsStamp (st : Step) (h : creationStep st = true) : keepsStamp st = true := by
  cases st <;> simp_all [creationStep, keepsStamp]

end Karp.Drift
