/-
Helper lemmas for the DRA half of C17: the allocation tracker keeps its two indices consistent, one owner per
in-cluster device, no duplicate holdings — for every sequence of guarded commits and releases; no panic is reachable.
-/
import Karp.Model.DraTracker
namespace Karp.DraTracker

/-- index consistency, single owner, no duplicates, nothing pre-allocated is handed out again -/
structure Inv (t : Tracker) : Prop where
  owner : ∀ d n1 i1 n2 i2, (d, n1, i1) ∈ t.inflight → (d, n2, i2) ∈ t.inflight → n1 = n2
  nodupI : t.inflight.Nodup
  nodupB : t.byNC.Nodup
  nodupT : t.template.Nodup
  mirror : ∀ d n i, (n, i, d) ∈ t.byNC ↔ (d, n, i) ∈ t.inflight
  pre : ∀ d n i, (d, n, i) ∈ t.inflight → d ∉ t.prealloc

theorem inv_new (prealloc : List String) : Inv (Tracker.new prealloc) :=
  ⟨by simp [Tracker.new], by simp [Tracker.new], by simp [Tracker.new], by simp [Tracker.new],
   by simp [Tracker.new], by simp [Tracker.new]⟩

theorem owner_none (t : Tracker) (d : String) (h : t.owner? d = none) : ∀ n i, (d, n, i) ∉ t.inflight := by
  intro n i hm
  unfold Tracker.owner? at h
  rw [Option.map_eq_none_iff, List.find?_eq_none] at h
  have := h (d, n, i) hm
  simp at this

theorem owner_some (t : Tracker) (d : String) (o : NC) (h : t.owner? d = some o) : ∃ i, (d, o, i) ∈ t.inflight := by
  unfold Tracker.owner? at h
  rw [Option.map_eq_some_iff] at h
  obtain ⟨x, hx, hxo⟩ := h
  have hm := List.mem_of_find?_eq_some hx
  have hp := List.find?_some hx
  obtain ⟨d', n', i'⟩ := x
  simp only [beq_iff_eq] at hp
  simp only at hxo
  subst hp; subst hxo
  exact ⟨i', hm⟩

theorem owner_of_mem (t : Tracker) (I : Inv t) (d : String) (n : NC) (i : IT) (h : (d, n, i) ∈ t.inflight) :
    t.owner? d = some n := by
  cases ho : t.owner? d with
  | none => exact absurd h (owner_none t d ho n i)
  | some o =>
    obtain ⟨i', hm⟩ := owner_some t d o ho
    rw [I.owner d o i' n i hm h]

/-- what `IsAllocated = false` means on a consistent tracker, for an in-cluster device -/
theorem free_cluster (t : Tracker) (I : Inv t) (d : Dev) (nc : NC) (it : IT) (hd : d.template = false)
    (h : t.isAllocated d nc it = false) :
    d.name ∉ t.prealloc ∧ (∀ n i, (d.name, n, i) ∈ t.inflight → n = nc) ∧ (d.name, nc, it) ∉ t.inflight := by
  unfold Tracker.isAllocated at h
  rw [if_neg (by simp [hd])] at h
  by_cases hp : t.prealloc.contains d.name = true
  · rw [if_pos hp] at h; cases h
  · rw [if_neg hp] at h
    refine ⟨fun hm => hp (List.contains_iff_mem.mpr hm), ?_, ?_⟩
    · intro n i hm
      rw [owner_of_mem t I d.name n i hm] at h
      simp only [Bool.or_eq_false_iff, bne_eq_false_iff_eq] at h
      exact h.1
    · intro hm
      rw [owner_of_mem t I d.name nc it hm] at h
      simp only [Bool.or_eq_false_iff] at h
      have h2 := h.2
      rw [List.contains_iff_mem.mpr hm] at h2
      cases h2

theorem free_template (t : Tracker) (d : Dev) (nc : NC) (it : IT) (hd : d.template = true)
    (h : t.isAllocated d nc it = false) : (nc, it, d.name) ∉ t.template := by
  unfold Tracker.isAllocated at h
  simp only [hd, if_true] at h
  intro hm
  rw [List.contains_eq_mem] at h
  simp [hm] at h


theorem not_contains {α : Type} [BEq α] [LawfulBEq α] {l : List α} {a : α} (h : a ∉ l) : ¬ (l.contains a = true) :=
  fun hc => h (List.contains_iff_mem.mp hc)

theorem cluster_free_of (t : Tracker) (d : Dev) (nc : NC) (it : IT) (hd : d.template = false)
    (h1 : d.name ∉ t.prealloc) (h2 : ∀ n i, (d.name, n, i) ∈ t.inflight → n = nc) (h3 : (d.name, nc, it) ∉ t.inflight) :
    t.isAllocated d nc it = false := by
  unfold Tracker.isAllocated
  rw [if_neg (by simp [hd]), if_neg (not_contains h1)]
  cases ho : t.owner? d.name with
  | none => rfl
  | some o =>
    obtain ⟨i, hm⟩ := owner_some t d.name o ho
    have := h2 o i hm
    subst this
    have hc : t.inflight.contains (d.name, o, it) = false := by
      cases hcc : t.inflight.contains (d.name, o, it) with
      | false => rfl
      | true => exact absurd hcc (not_contains h3)
    show (o != o || t.inflight.contains (d.name, o, it)) = false
    rw [hc]
    simp

theorem dev_ext (a b : Dev) (h1 : a.name = b.name) (h2 : a.template = b.template) : a = b := by
  cases a; cases b; simp_all

theorem commit1_ok (t : Tracker) (I : Inv t) (nc : NC) (it : IT) (d : Dev) (h : t.isAllocated d nc it = false) :
    ∃ t', t.commit1 nc it d = .ok t' ∧ Inv t' ∧
      (∀ it' d', (it', d') ≠ (it, d) → t.isAllocated d' nc it' = false → t'.isAllocated d' nc it' = false) := by
  cases hd : d.template with
  | true =>
    have hnm := free_template t d nc it hd h
    refine ⟨{ t with template := (nc, it, d.name) :: t.template }, ?_, ?_, ?_⟩
    · unfold Tracker.commit1
      rw [if_pos hd, if_neg (not_contains hnm)]
      rfl
    · exact ⟨I.owner, I.nodupI, I.nodupB, List.nodup_cons.mpr ⟨hnm, I.nodupT⟩, I.mirror, I.pre⟩
    · intro it' d' hne hf
      cases hd' : d'.template with
      | false =>
        unfold Tracker.isAllocated at hf ⊢
        rw [if_neg (by simp [hd'])] at hf ⊢
        exact hf
      | true =>
        have hnm' := free_template t d' nc it' hd' hf
        unfold Tracker.isAllocated
        rw [if_pos hd']
        cases hcc : List.contains ((nc, it, d.name) :: t.template) (nc, it', d'.name) with
        | false => rfl
        | true =>
          exfalso
          rcases List.mem_cons.mp (List.contains_iff_mem.mp hcc) with e | hm
          · simp only [Prod.mk.injEq] at e
            exact hne (by rw [dev_ext d' d e.2.2 (by rw [hd, hd']), e.2.1])
          · exact hnm' hm
  | false =>
    obtain ⟨hp, hown, hni⟩ := free_cluster t I d nc it hd h
    have hnb : (nc, it, d.name) ∉ t.byNC := fun hm => hni ((I.mirror d.name nc it).mp hm)
    refine ⟨{ t with byNC := (nc, it, d.name) :: t.byNC, inflight := (d.name, nc, it) :: t.inflight }, ?_, ?_, ?_⟩
    · unfold Tracker.commit1
      rw [if_neg (by simp [hd]), if_neg (not_contains hnb)]
      cases ho : t.owner? d.name with
      | none => rfl
      | some o =>
        obtain ⟨i, hm⟩ := owner_some t d.name o ho
        have := hown o i hm
        subst this
        show (if (o != o) = true then _ else _) = _
        rw [if_neg (by simp), if_neg (not_contains hni)]
        rfl
    · refine ⟨?_, List.nodup_cons.mpr ⟨hni, I.nodupI⟩, List.nodup_cons.mpr ⟨hnb, I.nodupB⟩, I.nodupT, ?_, ?_⟩
      · intro d0 n1 i1 n2 i2 h1 h2
        simp only [List.mem_cons, Prod.mk.injEq] at h1 h2
        rcases h1 with ⟨e1, e2, _⟩ | h1 <;> rcases h2 with ⟨f1, f2, _⟩ | h2
        · rw [e2, f2]
        · subst e1; rw [e2]; exact (hown n2 i2 h2).symm
        · subst f1; rw [f2]; exact hown n1 i1 h1
        · exact I.owner d0 n1 i1 n2 i2 h1 h2
      · intro d0 n i
        simp only [List.mem_cons, Prod.mk.injEq]
        constructor
        · rintro (⟨a, b, c⟩ | hm)
          · left; exact ⟨c, a, b⟩
          · right; exact (I.mirror d0 n i).mp hm
        · rintro (⟨a, b, c⟩ | hm)
          · left; exact ⟨b, c, a⟩
          · right; exact (I.mirror d0 n i).mpr hm
      · intro d0 n i hm
        simp only [List.mem_cons, Prod.mk.injEq] at hm
        rcases hm with ⟨a, _, _⟩ | hm
        · rw [a]; exact hp
        · exact I.pre d0 n i hm
    · intro it' d' hne hf
      cases hd' : d'.template with
      | true =>
        unfold Tracker.isAllocated at hf ⊢
        rw [if_pos hd'] at hf ⊢
        exact hf
      | false =>
        obtain ⟨hp', hown', hni'⟩ := free_cluster t I d' nc it' hd' hf
        refine cluster_free_of (⟨t.prealloc, (d.name, nc, it) :: t.inflight, (nc, it, d.name) :: t.byNC, t.template⟩ : Tracker)
          d' nc it' hd' hp' ?_ ?_
        · intro n i hm
          simp only [List.mem_cons, Prod.mk.injEq] at hm
          rcases hm with ⟨_, b, _⟩ | hm
          · exact b
          · exact hown' n i hm
        · intro hm
          simp only [List.mem_cons, Prod.mk.injEq] at hm
          rcases hm with ⟨a, _, c⟩ | hm
          · exact hne (by rw [dev_ext d' d a (by rw [hd, hd']), c])
          · exact hni' hm

theorem commitPairs_ok (nc : NC) : ∀ (pairs : List (IT × Dev)) (t : Tracker), Inv t → pairs.Nodup →
    (∀ p ∈ pairs, t.isAllocated p.2 nc p.1 = false) → ∃ t', t.commitPairs nc pairs = .ok t' ∧ Inv t' := by
  intro pairs
  induction pairs with
  | nil => intro t I _ _; exact ⟨t, rfl, I⟩
  | cons p ps ih =>
    intro t I hn hall
    obtain ⟨it, d⟩ := p
    rw [List.nodup_cons] at hn
    obtain ⟨t1, hc, I1, hkeep⟩ := commit1_ok t I nc it d (hall (it, d) (List.mem_cons_self ..))
    obtain ⟨t2, hc2, I2⟩ := ih t1 I1 hn.2 (by
      intro q hq
      apply hkeep q.1 q.2
      · intro e; exact hn.1 (by rw [← e]; exact hq)
      · exact hall q (List.mem_cons_of_mem _ hq))
    refine ⟨t2, ?_, I2⟩
    unfold Tracker.commitPairs
    rw [hc]
    exact hc2


theorem unref_ok (nc : NC) (it : IT) : ∀ (ds : List String) (t : Tracker), ds.Nodup →
    (∀ d ∈ ds, (d, nc, it) ∈ t.inflight) →
    ∃ t', t.unref nc it ds = .ok t' ∧ t'.prealloc = t.prealloc ∧ t'.byNC = t.byNC ∧ t'.template = t.template ∧
      (∀ x, x ∈ t'.inflight ↔ x ∈ t.inflight ∧ ¬ (x.2.1 = nc ∧ x.2.2 = it ∧ x.1 ∈ ds)) ∧
      (t.inflight.Nodup → t'.inflight.Nodup) := by
  intro ds
  induction ds with
  | nil => intro t _ _; exact ⟨t, rfl, rfl, rfl, rfl, by simp, fun h => h⟩
  | cons d ds ih =>
    intro t hn hall
    rw [List.nodup_cons] at hn
    have hm := hall d (List.mem_cons_self ..)
    have hany : t.inflight.any (fun x => x.1 == d) = true := List.any_eq_true.mpr ⟨_, hm, by simp⟩
    obtain ⟨t', hr, h1, h2, h3, h4, h5⟩ := ih { t with inflight := t.inflight.filter (fun x => x != (d, nc, it)) } hn.2 (by
      intro d' hd'
      refine List.mem_filter.mpr ⟨hall d' (List.mem_cons_of_mem _ hd'), ?_⟩
      have : d' ≠ d := fun e => hn.1 (e ▸ hd')
      simp [this])
    refine ⟨t', ?_, h1, h2, h3, ?_, ?_⟩
    · unfold Tracker.unref
      rw [if_neg (by rw [hany]; simp), if_neg (by rw [List.contains_iff_mem.mpr hm]; simp)]
      exact hr
    · intro x
      rw [h4 x]
      obtain ⟨xd, xn, xi⟩ := x
      simp only [List.mem_filter, bne_iff_ne, ne_eq, Prod.mk.injEq, List.mem_cons]
      constructor
      · rintro ⟨⟨hx, hne⟩, hnot⟩
        refine ⟨hx, ?_⟩
        rintro ⟨a, b, c | c⟩
        · exact hne ⟨c, a, b⟩
        · exact hnot ⟨a, b, c⟩
      · rintro ⟨hx, hnot⟩
        refine ⟨⟨hx, ?_⟩, ?_⟩
        · rintro ⟨a, b, c⟩; exact hnot ⟨b, c, Or.inl a⟩
        · rintro ⟨a, b, c⟩; exact hnot ⟨a, b, Or.inr c⟩
    · intro hnd
      exact h5 (hnd.filter _)

theorem nodup_devices (nc : NC) (it : IT) : ∀ (l : List (NC × IT × String)), l.Nodup →
    ((l.filter (fun x => x.1 == nc && x.2.1 == it)).map (·.2.2)).Nodup := by
  intro l
  induction l with
  | nil => intro _; simp
  | cons x l ih =>
    intro hn
    rw [List.nodup_cons] at hn
    rw [List.filter_cons]
    by_cases hp : (x.1 == nc && x.2.1 == it) = true
    · rw [if_pos hp, List.map_cons, List.nodup_cons]
      refine ⟨?_, ih hn.2⟩
      intro hm
      obtain ⟨y, hy, hyx⟩ := List.mem_map.mp hm
      obtain ⟨hyl, hyp⟩ := List.mem_filter.mp hy
      simp only [Bool.and_eq_true, beq_iff_eq] at hp hyp
      have : y = x := by
        obtain ⟨y1, y2, y3⟩ := y
        obtain ⟨x1, x2, x3⟩ := x
        simp only at hp hyp hyx
        rw [hyp.1, hyp.2, hp.1, hp.2, hyx]
      exact hn.1 (this ▸ hyl)
    · rw [if_neg hp]; exact ih hn.2

theorem release1_ok (t : Tracker) (I : Inv t) (nc : NC) (it : IT) : ∃ t', t.release1 nc it = .ok t' ∧ Inv t' := by
  have hdev : ∀ d ∈ (t.byNC.filter (fun x => x.1 == nc && x.2.1 == it)).map (·.2.2), (d, nc, it) ∈ t.inflight := by
    intro d hd
    obtain ⟨y, hy, hyd⟩ := List.mem_map.mp hd
    obtain ⟨hyl, hyp⟩ := List.mem_filter.mp hy
    obtain ⟨y1, y2, y3⟩ := y
    simp only [Bool.and_eq_true, beq_iff_eq] at hyp
    simp only at hyd
    rw [← hyd, ← hyp.1, ← hyp.2]
    exact (I.mirror y3 y1 y2).mp hyl
  obtain ⟨t2, hr, h1, h2, h3, h4, h5⟩ := unref_ok nc it _
    { t with byNC := t.byNC.filter (fun x => !(x.1 == nc && x.2.1 == it)) } (nodup_devices nc it t.byNC I.nodupB) hdev
  refine ⟨{ t2 with template := t2.template.filter (fun x => !(x.1 == nc && x.2.1 == it)) }, ?_, ?_⟩
  · unfold Tracker.release1
    simp only
    rw [hr]
    rfl
  · have hin : ∀ x, x ∈ t2.inflight → x ∈ t.inflight := fun x hx => ((h4 x).mp hx).1
    refine ⟨?_, h5 I.nodupI, ?_, ?_, ?_, ?_⟩
    · intro d n1 i1 n2 i2 a b
      exact I.owner d n1 i1 n2 i2 (hin _ a) (hin _ b)
    · show t2.byNC.Nodup
      rw [h2]; exact I.nodupB.filter _
    · show (t2.template.filter _).Nodup
      rw [h3]; exact I.nodupT.filter _
    · intro d n i
      show (n, i, d) ∈ t2.byNC ↔ (d, n, i) ∈ t2.inflight
      rw [h2, h4]
      simp only [List.mem_filter, Bool.not_eq_true', Bool.and_eq_false_iff, beq_eq_false_iff_ne, ne_eq]
      constructor
      · rintro ⟨hm, hne⟩
        refine ⟨(I.mirror d n i).mp hm, ?_⟩
        rintro ⟨a, b, _⟩
        rcases hne with h | h
        · exact h a
        · exact h b
      · rintro ⟨hm, hnot⟩
        refine ⟨(I.mirror d n i).mpr hm, ?_⟩
        by_cases a : n = nc
        · by_cases b : i = it
          · exfalso
            apply hnot
            refine ⟨a, b, ?_⟩
            apply List.mem_map.mpr
            refine ⟨(n, i, d), List.mem_filter.mpr ⟨(I.mirror d n i).mpr hm, by simp [a, b]⟩, rfl⟩
          · right; exact b
        · left; exact a
    · intro d n i hm
      show d ∉ t2.prealloc
      rw [h1]
      exact I.pre d n i (hin _ hm)

theorem release_ok (nc : NC) : ∀ (its : List IT) (t : Tracker), Inv t → ∃ t', t.release nc its = .ok t' ∧ Inv t' := by
  intro its
  induction its with
  | nil => intro t I; exact ⟨t, rfl, I⟩
  | cons it its ih =>
    intro t I
    obtain ⟨t1, h1, I1⟩ := release1_ok t I nc it
    obtain ⟨t2, h2, I2⟩ := ih t1 I1
    refine ⟨t2, ?_, I2⟩
    unfold Tracker.release
    rw [h1]
    exact h2

/-- op sequences of a disciplined caller: no unguarded commit -/
def disciplined : List Op → Bool
  | [] => true
  | .commit _ _ :: _ => false
  | _ :: ops => disciplined ops

theorem dedupe_spec {α : Type} [BEq α] [LawfulBEq α] : ∀ (l : List α), (dedupe l).Nodup ∧ ∀ a, a ∈ dedupe l ↔ a ∈ l := by
  intro l
  induction l with
  | nil => simp [dedupe]
  | cons x l ih =>
    unfold dedupe
    refine ⟨List.nodup_cons.mpr ⟨?_, ih.1.filter _⟩, ?_⟩
    · intro hm; have := (List.mem_filter.mp hm).2; simp at this
    · intro a
      simp only [List.mem_cons, List.mem_filter, bne_iff_ne, ne_eq, ih.2 a]
      constructor
      · rintro (h | ⟨h, _⟩)
        · exact Or.inl h
        · exact Or.inr h
      · rintro (h | h)
        · exact Or.inl h
        · by_cases e : a = x
          · exact Or.inl e
          · exact Or.inr ⟨h, e⟩

theorem stepOp_ok (t : Tracker) (I : Inv t) (op : Op) (hd : disciplined [op] = true) :
    ∃ t', stepOp t op = .ok t' ∧ Inv t' := by
  cases op with
  | commit nc alloc => simp [disciplined] at hd
  | guarded nc alloc =>
    unfold stepOp Tracker.grantable
    obtain ⟨hn, hmem⟩ := dedupe_spec ((pairsOf alloc).filter (fun p => !t.isAllocated p.2 nc p.1))
    apply commitPairs_ok nc _ t I hn
    intro p hp
    have := (List.mem_filter.mp ((hmem p).mp hp)).2
    simpa using this
  | release nc its => exact release_ok nc its t I

theorem run_ok : ∀ (ops : List Op) (t : Tracker), Inv t → disciplined ops = true → ∃ t', run t ops = .ok t' ∧ Inv t' := by
  intro ops
  induction ops with
  | nil => intro t I _; exact ⟨t, rfl, I⟩
  | cons op ops ih =>
    intro t I hd
    have h1 : disciplined [op] = true ∧ disciplined ops = true := by
      cases op <;> simp_all [disciplined]
    obtain ⟨t1, hs, I1⟩ := stepOp_ok t I op h1.1
    obtain ⟨t2, hr, I2⟩ := ih t1 I1 h1.2
    refine ⟨t2, ?_, I2⟩
    unfold run
    rw [hs]
    exact hr

end Karp.DraTracker

namespace Karp.DraTracker

/-- an unguarded commit of an in-cluster device that another NodeClaim holds is refused -/
theorem commit1_refuses_other (t : Tracker) (I : Inv t) (nc n' : NC) (it i' : IT) (d : Dev) (hd : d.template = false)
    (hheld : (d.name, n', i') ∈ t.inflight) (hne : n' ≠ nc) : t.commit1 nc it d = .error .otherNodeClaim := by
  have hnb : (nc, it, d.name) ∉ t.byNC := by
    intro hm
    exact hne (I.owner d.name n' i' nc it hheld ((I.mirror d.name nc it).mp hm))
  unfold Tracker.commit1
  rw [if_neg (by simp [hd]), if_neg (not_contains hnb), owner_of_mem t I d.name n' i' hheld]
  show (if (n' != nc) = true then _ else _) = _
  rw [if_pos (by simpa using hne)]
  rfl

/-- an unguarded commit of a holding that is already recorded is refused -/
theorem commit1_refuses_dup (t : Tracker) (I : Inv t) (nc : NC) (it : IT) (d : Dev) (hd : d.template = false)
    (hheld : (d.name, nc, it) ∈ t.inflight) : t.commit1 nc it d = .error .dupInstanceType := by
  have hb : (nc, it, d.name) ∈ t.byNC := (I.mirror d.name nc it).mpr hheld
  unfold Tracker.commit1
  rw [if_neg (by simp [hd]), if_pos (List.contains_iff_mem.mpr hb)]
  rfl

end Karp.DraTracker
