/-
The two facts about the value universe (`String` with Go's `strconv.Atoi`) that the requirement
algebra needs:
  * for every finite list of strings there is a string outside it;
  * for every int64 `i` and every finite list of strings there is a string outside it that parses to `i`
    (decimal digits with enough leading zeros — `Atoi("003") = 3`).
-/
import Karp.Model.Req

namespace Karp.Req

def maxLen : List String → Nat
  | [] => 0
  | s :: rest => max s.length (maxLen rest)

theorem le_maxLen (L : List String) (s : String) (h : s ∈ L) : s.length ≤ maxLen L := by
  induction L with
  | nil => cases h
  | cons x xs ih =>
    simp only [maxLen]
    cases h with
    | head => omega
    | tail _ h' => have := ih h'; omega

theorem not_contains_of_longer (L : List String) (v : String) (h : maxLen L < v.length) :
    L.contains v = false := by
  cases hc : L.contains v with
  | false => rfl
  | true =>
    have hm : v ∈ L := by simpa using hc
    have := le_maxLen L v hm
    omega

/-- a value outside any finite list -/
theorem fresh_value (L : List Val) : ∃ v : Val, L.contains v = false := by
  refine ⟨String.ofList (List.replicate (maxLen L + 1) 'x'), ?_⟩
  apply not_contains_of_longer
  simp [String.length_ofList]

/-! decimal rendering -/

theorem digitVal_digitChar : ∀ d, d < 10 → digitVal (digitChar d) = some d := by decide

theorem parseNat_append (a b : List Char) (acc : Nat) :
    parseNat (a ++ b) acc = (parseNat a acc).bind (fun x => parseNat b x) := by
  induction a generalizing acc with
  | nil => simp [parseNat]
  | cons c cs ih =>
    simp only [List.cons_append, parseNat]
    cases digitVal c with
    | none => simp
    | some d => simp [ih]

theorem parseNat_natDigits (f n : Nat) (h : n ≤ f) : parseNat (natDigits f n) 0 = some n := by
  induction f generalizing n with
  | zero =>
    have : n = 0 := by omega
    subst this
    simp [natDigits, parseNat, digitVal]
  | succ f ih =>
    simp only [natDigits]
    by_cases hn : n < 10
    · simp [hn, parseNat, digitVal_digitChar n hn]
    · simp only [hn, if_false, parseNat_append]
      rw [ih (n / 10) (by omega)]
      have hm : n % 10 < 10 := Nat.mod_lt _ (by omega)
      simp only [Option.bind_some, parseNat, digitVal_digitChar _ hm]
      congr 1
      omega

theorem natDigits_length_pos (f n : Nat) : 0 < (natDigits f n).length := by
  cases f with
  | zero => simp [natDigits]
  | succ f => simp only [natDigits]; split <;> simp

theorem parseNat_zeros (k : Nat) (cs : List Char) :
    parseNat (List.replicate k '0' ++ cs) 0 = parseNat cs 0 := by
  induction k with
  | zero => simp
  | succ k ih =>
    simp only [List.replicate_succ, List.cons_append, parseNat]
    have : digitVal '0' = some 0 := by decide
    simp [this, ih]

/-- the decimal rendering of `i` with `k+1` leading zeros -/
def paddedInt (k : Nat) (i : Int) : String :=
  if i < 0 then String.ofList ('-' :: (List.replicate (k + 1) '0' ++ natDigits i.natAbs i.natAbs))
  else String.ofList (List.replicate (k + 1) '0' ++ natDigits i.natAbs i.natAbs)

theorem atoi_paddedInt (k : Nat) (i : Int) (h1 : minInt ≤ i) (h2 : i ≤ maxInt) :
    atoi (paddedInt k i) = some i := by
  unfold paddedInt
  by_cases hneg : i < 0
  · simp only [hneg, if_true, atoi, atoiRaw, String.toList_ofList]
    have hp := parseNat_zeros (k + 1) (natDigits i.natAbs i.natAbs)
    rw [parseNat_natDigits _ _ (Nat.le_refl _)] at hp
    simp only [atoiChars, hp]
    have hne : (List.replicate (k + 1) '0' ++ natDigits i.natAbs i.natAbs).isEmpty = false := by
      simp [List.replicate_succ]
    simp only [hne]
    have hle : (i.natAbs : Int) ≤ -minInt := by simp only [minInt] at *; omega
    simp only [hle, if_true]
    simp
    omega
  · simp only [hneg, if_false, atoi, atoiRaw, String.toList_ofList, List.replicate_succ, List.cons_append]
    have hp := parseNat_zeros (k + 1) (natDigits i.natAbs i.natAbs)
    rw [parseNat_natDigits _ _ (Nat.le_refl _)] at hp
    simp only [List.replicate_succ, List.cons_append] at hp
    have h0m : ('0' == '-') = false := by decide
    have h0p : ('0' == '+') = false := by decide
    unfold atoiChars
    split
    · rename_i heq; simp at heq
    · rename_i heq; simp at heq
    · rename_i heq; simp at heq
    · simp only [hp]
      have hle : (i.natAbs : Int) ≤ maxInt := by simp only [maxInt] at *; omega
      simp only [hle, if_true]
      simp
      omega

theorem paddedInt_length (k : Nat) (i : Int) : k < (paddedInt k i).length := by
  unfold paddedInt
  split <;> simp [String.length_ofList] <;> omega

/-- a value outside any finite list that parses to a given int64 -/
theorem fresh_int (L : List Val) (i : Int) (h1 : minInt ≤ i) (h2 : i ≤ maxInt) :
    ∃ v : Val, L.contains v = false ∧ atoi v = some i := by
  refine ⟨paddedInt (maxLen L) i, ?_, atoi_paddedInt _ i h1 h2⟩
  apply not_contains_of_longer
  exact paddedInt_length _ _

end Karp.Req
