import Karp.Model.Limits
import Karp.Spec.LimitsSpec
namespace Karp.Limits
variable {κ : Type} [DecidableEq κ]

theorem lookup_map_snd (m : Res κ) (f : κ → Int → Int) (k : κ) :
    (m.map (fun (p : κ × Int) => (p.1, f p.1 p.2))).lookup k = (m.lookup k).map (f k) := by
  induction m with
  | nil => rfl
  | cons p m ih =>
    obtain ⟨a, b⟩ := p
    simp only [List.map_cons, List.lookup_cons]
    by_cases h : k = a
    · subst h; simp
    · have : (k == a) = false := by simp [h]
      simp [this, ih]

theorem lookup_subtract (lhs rhs : Res κ) (k : κ) :
    (subtract lhs rhs).lookup k = (lhs.lookup k).map (fun q => q - rhs.get k) := by
  unfold subtract
  exact lookup_map_snd lhs (fun k q => q - rhs.get k) k

theorem lookup_subtractMax (v : Variant) (nodes : κ) (rem : Res κ) (opts : List (IT κ)) (k : κ)
    (h : opts.isEmpty = false) :
    (subtractMax v nodes rem opts).lookup k = (rem.lookup k).map (fun q => q - decrement v nodes opts k) := by
  unfold subtractMax
  simp only [h, Bool.false_eq_true, if_false]
  exact lookup_map_snd rem (fun k q => q - decrement v nodes opts k) k

theorem mem_of_lookup (m : Res κ) (k : κ) (q : Int) (h : m.lookup k = some q) : (k, q) ∈ m := by
  induction m with
  | nil => simp at h
  | cons p m ih =>
    obtain ⟨a, b⟩ := p
    simp only [List.lookup_cons] at h
    by_cases hk : k = a
    · subst hk; simp at h; subst h; simp
    · have : (k == a) = false := by simp [hk]
      simp [this] at h
      exact List.mem_cons_of_mem _ (ih h)

theorem viable_le (rem : Res κ) (it : IT κ) (h : viable rem it = true) (k : κ) (q : Int)
    (hq : rem.lookup k = some q) : it.cap.get k ≤ q := by
  unfold viable at h
  rw [List.all_eq_true] at h
  have := h (k, q) (mem_of_lookup rem k q hq)
  simp at this
  exact this

/-- every value in the list is ≤ the maximum -/
theorem le_maxOpt (l : List Int) (x : Int) (hx : x ∈ l) : ∃ m, maxOpt l = some m ∧ x ≤ m := by
  induction l with
  | nil => simp at hx
  | cons y ys ih =>
    simp only [maxOpt]
    rcases List.mem_cons.mp hx with h | h
    · subst h
      cases hm : maxOpt ys with
      | none => exact ⟨x, rfl, Int.le_refl _⟩
      | some m => refine ⟨_, rfl, ?_⟩; split <;> omega
    · obtain ⟨m, hm, hle⟩ := ih h
      rw [hm]
      refine ⟨_, rfl, ?_⟩; split <;> omega

/-- the maximum is one of the values -/
theorem maxOpt_mem (l : List Int) (m : Int) (h : maxOpt l = some m) : m ∈ l := by
  induction l generalizing m with
  | nil => simp [maxOpt] at h
  | cons y ys ih =>
    simp only [maxOpt] at h
    cases hm : maxOpt ys with
    | none => rw [hm] at h; simp at h; subst h; simp
    | some m' =>
      rw [hm] at h; simp at h
      by_cases hy : y > m'
      · simp [hy] at h; subst h; simp
      · simp [hy] at h; subst h; exact List.mem_cons_of_mem _ (ih m' hm)

def NonNeg (it : IT κ) : Prop := ∀ k v, it.cap.lookup k = some v → 0 ≤ v

theorem get_nonneg (it : IT κ) (h : NonNeg it) (k : κ) : 0 ≤ it.cap.get k := by
  unfold Res.get
  cases hl : it.cap.lookup k with
  | none => simp
  | some v => simpa using h k v hl

theorem maxAt_nonneg (opts : List (IT κ)) (hn : ∀ it ∈ opts, NonNeg it) (k : κ) : 0 ≤ maxAt opts k := by
  unfold maxAt
  cases hm : maxOpt (opts.filterMap (fun it => it.cap.lookup k)) with
  | none => simp
  | some m =>
    have := maxOpt_mem _ _ hm
    simp only [List.mem_filterMap] at this
    obtain ⟨it, hit, hl⟩ := this
    simpa using hn it hit k m hl

theorem le_maxAt (opts : List (IT κ)) (hn : ∀ it ∈ opts, NonNeg it) (it : IT κ) (hit : it ∈ opts) (k : κ) :
    it.cap.get k ≤ maxAt opts k := by
  cases hl : it.cap.lookup k with
  | none =>
    have : it.cap.get k = 0 := by simp [Res.get, hl]
    rw [this]; exact maxAt_nonneg opts hn k
  | some v =>
    have hv : it.cap.get k = v := by simp [Res.get, hl]
    have hmem : v ∈ opts.filterMap (fun it => it.cap.lookup k) := by
      simp only [List.mem_filterMap]; exact ⟨it, hit, hl⟩
    obtain ⟨m, hm, hle⟩ := le_maxOpt _ v hmem
    rw [hv]; unfold maxAt; rw [hm]; simpa using hle

theorem maxAt_le (opts : List (IT κ)) (hne : opts ≠ []) (k : κ) (q : Int)
    (h : ∀ it ∈ opts, it.cap.get k ≤ q) : maxAt opts k ≤ q := by
  unfold maxAt
  cases hm : maxOpt (opts.filterMap (fun it => it.cap.lookup k)) with
  | none =>
    obtain ⟨it, hit⟩ := List.exists_mem_of_ne_nil opts hne
    have hl : it.cap.lookup k = none := by
      cases hl : it.cap.lookup k with
      | none => rfl
      | some v =>
        have hmem : v ∈ opts.filterMap (fun it => it.cap.lookup k) := by
          simp only [List.mem_filterMap]; exact ⟨it, hit, hl⟩
        obtain ⟨m, hm', _⟩ := le_maxOpt _ v hmem
        rw [hm] at hm'; cases hm'
    have := h it hit
    simpa [Res.get, hl] using this
  | some m =>
    have := maxOpt_mem _ _ hm
    simp only [List.mem_filterMap] at this
    obtain ⟨it, hit, hl⟩ := this
    have := h it hit
    simpa [Res.get, hl] using this

/-- `subtractMax` takes at least the worst-case usage of resource `k` off the remaining amount -/
def Tracks (v : Variant) (nodes k : κ) : Prop :=
  v = .repaired ∨ Karp.Gen.C03Limits.subtractMaxCountsNode = true ∨ k ≠ nodes

theorem decrement_eq_worst (v : Variant) (nodes k : κ) (opts : List (IT κ)) (h : Tracks v nodes k) :
    decrement v nodes opts k = worst nodes opts k := by
  unfold decrement worst
  cases v with
  | asIs =>
    rcases h with h | h | h
    · cases h
    · simp [h]
    · simp [h]
  | repaired => rfl

def sumWorst (nodes : κ) (claims : List (List (IT κ))) (k : κ) : Int :=
  match claims with
  | [] => 0
  | opts :: rest => worst nodes opts k + sumWorst nodes rest k

theorem openOk_iff (nodes : κ) (rem : Res κ) (opts : List (IT κ)) :
    openOk nodes rem opts = true ↔
      nodesExhausted nodes rem = false ∧ opts ≠ [] ∧ ∀ it ∈ opts, viable rem it = true := by
  unfold openOk
  simp [and_assoc]

/-- one admissible `OpenNew`: the worst-case usage of the new NodeClaim fits into what remains -/
theorem worst_le_of_openOk (nodes : κ) (rem : Res κ) (opts : List (IT κ)) (k : κ) (q : Int)
    (hok : openOk nodes rem opts = true) (hq : rem.lookup k = some q)
    (hn : ∀ it ∈ opts, NonNeg it) (hdiv : k = nodes → oneNode ∣ q) :
    worst nodes opts k ≤ q := by
  rw [openOk_iff] at hok
  obtain ⟨hex, hne, hv⟩ := hok
  have hle : ∀ it ∈ opts, it.cap.get k ≤ q := fun it hit => viable_le rem it (hv it hit) k q hq
  unfold worst
  split
  · rename_i hk
    subst hk
    obtain ⟨it, hit⟩ := List.exists_mem_of_ne_nil opts hne
    have h0 : 0 ≤ q := Int.le_trans (get_nonneg it (hn it hit) k) (hle it hit)
    have hnz : q ≠ 0 := by
      intro hz; subst hz
      simp [nodesExhausted, hq] at hex
    obtain ⟨c, hc⟩ := hdiv rfl
    unfold oneNode at *
    omega
  · exact maxAt_le opts hne k q hle

/-- **the pass bound**: the worst-case usages of all NodeClaims a pass opens fit into the remaining amount -/
theorem pass_bound (v : Variant) (nodes k : κ) (htr : Tracks v nodes k) :
    ∀ (claims : List (List (IT κ))) (rem : Res κ) (q : Int),
      passOk v nodes rem claims = true → claims ≠ [] → rem.lookup k = some q →
      (∀ opts ∈ claims, ∀ it ∈ opts, NonNeg it) → (k = nodes → oneNode ∣ q) →
      sumWorst nodes claims k ≤ q := by
  intro claims
  induction claims with
  | nil => intro _ _ _ h; exact absurd rfl h
  | cons opts rest ih =>
    intro rem q hok _ hq hn hdiv
    simp only [passOk, Bool.and_eq_true] at hok
    obtain ⟨hopen, hrest⟩ := hok
    have hw := worst_le_of_openOk nodes rem opts k q hopen hq (hn opts (List.mem_cons_self)) hdiv
    by_cases hr : rest = []
    · subst hr; simp [sumWorst]; exact hw
    · have hne : opts.isEmpty = false := by
        rw [openOk_iff] at hopen
        simpa [List.isEmpty_iff] using hopen.2.1
      have hq' : (subtractMax v nodes rem opts).lookup k = some (q - worst nodes opts k) := by
        rw [lookup_subtractMax v nodes rem opts k hne, hq, decrement_eq_worst v nodes k opts htr]; rfl
      have hdiv' : k = nodes → oneNode ∣ (q - worst nodes opts k) := by
        intro hk
        obtain ⟨c, hc⟩ := hdiv hk
        refine ⟨c - 1, ?_⟩
        simp only [worst, hk, if_true]
        unfold oneNode at *; omega
      have := ih _ _ hrest hr hq' (fun o ho => hn o (List.mem_cons_of_mem _ ho)) hdiv'
      simp only [sumWorst]
      omega

/-! ### sums over the pool -/

def sumGet (caps : List (Res κ)) (k : κ) : Int :=
  match caps with
  | [] => 0
  | c :: cs => c.get k + sumGet cs k

/-- usage of the existing nodes: `StateNode.Capacity()` of each -/
def sumUsage (nodes : κ) (existing : List (Res κ)) (k : κ) : Int := sumGet (existing.map (nodeCapacity nodes)) k

theorem lookup_remainingAtStart (caps : List (Res κ)) : ∀ (limits : Res κ) (k : κ),
    (remainingAtStart limits caps).lookup k = (limits.lookup k).map (fun l => l - sumGet caps k) := by
  induction caps with
  | nil => intro limits k; simp [remainingAtStart, sumGet]
  | cons c cs ih =>
    intro limits k
    have : remainingAtStart limits (c :: cs) = remainingAtStart (subtract limits c) cs := rfl
    rw [this, ih, lookup_subtract]
    cases limits.lookup k with
    | none => rfl
    | some l => simp [sumGet]; omega

theorem sumGet_append (a b : List (Res κ)) (k : κ) : sumGet (a ++ b) k = sumGet a k + sumGet b k := by
  induction a with
  | nil => simp [sumGet]
  | cons c cs ih => simp [sumGet, ih]; omega

theorem sumGet_eraseIdx_le (caps : List (Res κ)) (k : κ) (h : ∀ c ∈ caps, 0 ≤ c.get k) :
    ∀ i, sumGet (caps.eraseIdx i) k ≤ sumGet caps k := by
  induction caps with
  | nil => intro i; simp
  | cons c cs ih =>
    intro i
    cases i with
    | zero =>
      simp only [List.eraseIdx_cons_zero, sumGet]
      have := h c List.mem_cons_self; omega
    | succ i =>
      simp only [List.eraseIdx_cons_succ, sumGet]
      have := ih (fun c hc => h c (List.mem_cons_of_mem _ hc)) i; omega

theorem sumWorst_append (nodes : κ) (a b : List (List (IT κ))) (k : κ) :
    sumWorst nodes (a ++ b) k = sumWorst nodes a k + sumWorst nodes b k := by
  induction a with
  | nil => simp [sumWorst]
  | cons c cs ih => simp [sumWorst, ih]; omega

theorem worst_nonneg (nodes : κ) (opts : List (IT κ)) (hn : ∀ it ∈ opts, NonNeg it) (k : κ) : 0 ≤ worst nodes opts k := by
  unfold worst; split
  · simp [oneNode]
  · exact maxAt_nonneg opts hn k

theorem sumWorst_eraseIdx_le (nodes : κ) (claims : List (List (IT κ))) (k : κ)
    (hn : ∀ opts ∈ claims, ∀ it ∈ opts, NonNeg it) :
    ∀ i, sumWorst nodes (claims.eraseIdx i) k ≤ sumWorst nodes claims k := by
  induction claims with
  | nil => intro i; simp
  | cons c cs ih =>
    intro i
    cases i with
    | zero =>
      simp only [List.eraseIdx_cons_zero, sumWorst]
      have := worst_nonneg nodes c (hn c List.mem_cons_self) k; omega
    | succ i =>
      simp only [List.eraseIdx_cons_succ, sumWorst]
      have := ih (fun c hc => hn c (List.mem_cons_of_mem _ hc)) i; omega

theorem sumWorst_eraseIdx_get (nodes : κ) (claims : List (List (IT κ))) (k : κ) :
    ∀ i opts, claims[i]? = some opts →
      sumWorst nodes (claims.eraseIdx i) k + worst nodes opts k = sumWorst nodes claims k := by
  induction claims with
  | nil => intro i opts h; simp at h
  | cons c cs ih =>
    intro i opts h
    cases i with
    | zero => simp at h; subst h; simp [sumWorst]; omega
    | succ i =>
      simp only [List.getElem?_cons_succ] at h
      simp only [List.eraseIdx_cons_succ, sumWorst]
      have := ih i opts h; omega

theorem get_nodeCapacity (nodes : κ) (launched : Res κ) (k : κ) :
    (nodeCapacity nodes launched).get k = if k = nodes then oneNode else launched.get k := by
  unfold nodeCapacity Res.get
  simp only [List.lookup_cons]
  by_cases hk : k = nodes
  · subst hk; simp
  · have hb : (k == nodes) = false := by simp [hk]
    simp only [hb, hk, if_false]
    congr 1
    induction launched with
    | nil => rfl
    | cons p ps ih =>
      obtain ⟨a, b⟩ := p
      simp only [List.filter_cons]
      by_cases ha : a = nodes
      · subst ha
        have : (k == a) = false := by simp [hk]
        simp [List.lookup_cons, this, ih]
      · have : (a != nodes) = true := by simp [ha]
        simp only [this, if_true, List.lookup_cons]
        split
        · rfl
        · exact ih

/-! ### the history invariant -/

/-- well-formedness of the pool: capacities are non-negative; the node limit is a whole number of nodes -/
structure WFPool (nodes : κ) (P : Pool κ) : Prop where
  existingNonneg : ∀ e ∈ P.existing, ∀ k, 0 ≤ e.get k
  optsNonneg : ∀ opts ∈ P.unlaunched, ∀ it ∈ opts, NonNeg it
  nodesWhole : ∀ l, P.limits.lookup nodes = some l → oneNode ∣ l

/-- the pool is within its limit for resource `k`, whatever the provider launches for the unlaunched NodeClaims -/
def Within (nodes : κ) (P : Pool κ) (k : κ) : Prop :=
  ∀ l, P.limits.lookup k = some l → sumUsage nodes P.existing k + sumWorst nodes P.unlaunched k ≤ l

theorem nonNegIT_iff (it : IT κ) : nonNegIT it = true → NonNeg it := by
  intro h k v hl
  unfold nonNegIT at h
  rw [List.all_eq_true] at h
  have := h (k, v) (mem_of_lookup _ _ _ hl)
  simpa using this

theorem sumUsage_nodes (nodes : κ) (existing : List (Res κ)) :
    sumUsage nodes existing nodes = oneNode * existing.length := by
  unfold sumUsage
  induction existing with
  | nil => simp [sumGet]
  | cons e es ih =>
    simp only [List.map_cons, sumGet, get_nodeCapacity, if_true, List.length_cons]
    rw [ih]; unfold oneNode; omega

theorem usage_nonneg (nodes : κ) (e : Res κ) (k : κ) (h : 0 ≤ e.get k) : 0 ≤ (nodeCapacity nodes e).get k := by
  rw [get_nodeCapacity]; split
  · simp [oneNode]
  · exact h

theorem launchOk_get (it : IT κ) (launched : Res κ) (h : launchOk it launched = true) (hn : NonNeg it) (k : κ) :
    0 ≤ launched.get k ∧ launched.get k ≤ it.cap.get k := by
  unfold launchOk at h
  rw [List.all_eq_true] at h
  unfold Res.get
  cases hl : launched.lookup k with
  | none => simp; exact get_nonneg it hn k
  | some q =>
    have := h (k, q) (mem_of_lookup _ _ _ hl)
    simp at this
    simpa [Res.get] using this

theorem map_eraseIdx {α β : Type} (f : α → β) (l : List α) : ∀ i, (l.eraseIdx i).map f = (l.map f).eraseIdx i := by
  induction l with
  | nil => intro i; simp
  | cons a as ih =>
    intro i
    cases i with
    | zero => simp
    | succ i => simp [ih]

theorem step_within (v : Variant) (nodes k : κ) (htr : Tracks v nodes k) (P : Pool κ) (e : Ev κ)
    (hwf : WFPool nodes P) (hin : Within nodes P k) (hen : enabled v nodes P e = true) :
    WFPool nodes (applyEv P e) ∧ Within nodes (applyEv P e) k := by
  cases e with
  | pass claims =>
    simp only [enabled, Bool.and_eq_true, List.isEmpty_iff] at hen
    obtain ⟨⟨hemp, hpass⟩, hnn⟩ := hen
    have hcl : ∀ opts ∈ claims, ∀ it ∈ opts, NonNeg it := by
      intro opts ho it hit
      rw [List.all_eq_true] at hnn
      have := hnn opts ho
      rw [List.all_eq_true] at this
      exact nonNegIT_iff it (this it hit)
    refine ⟨⟨hwf.existingNonneg, ?_, hwf.nodesWhole⟩, ?_⟩
    · intro opts ho
      simp only [applyEv, List.mem_append] at ho
      rcases ho with ho | ho
      · exact hwf.optsNonneg opts ho
      · exact hcl opts ho
    · intro l hl
      have hl : P.limits.lookup k = some l := hl
      have h0 := hin l hl
      simp only [applyEv, hemp, List.nil_append]
      rw [hemp] at h0
      simp only [sumWorst] at h0
      by_cases hc : claims = []
      · subst hc; simpa [sumWorst] using h0
      · have hq : (startRemaining nodes P).lookup k = some (l - sumUsage nodes P.existing k) := by
          unfold startRemaining sumUsage
          rw [lookup_remainingAtStart, hl]; rfl
        have hdiv : k = nodes → oneNode ∣ (l - sumUsage nodes P.existing k) := by
          intro hk; subst hk
          obtain ⟨c, hc'⟩ := hwf.nodesWhole l hl
          rw [sumUsage_nodes]
          exact ⟨c - P.existing.length, by rw [hc']; simp [Int.mul_sub]⟩
        have := pass_bound v nodes k htr claims _ _ hpass hc hq hcl hdiv
        omega
  | launch i j launched =>
    simp only [enabled] at hen
    cases hi : P.unlaunched[i]? with
    | none => simp [hi] at hen
    | some opts =>
      simp only [hi] at hen
      cases hj : opts[j]? with
      | none => simp [hj] at hen
      | some it =>
        simp only [hj] at hen
        have hoptsmem : opts ∈ P.unlaunched := List.mem_of_getElem? hi
        have hitmem : it ∈ opts := List.mem_of_getElem? hj
        have hnn : ∀ it ∈ opts, NonNeg it := hwf.optsNonneg opts hoptsmem
        have hget := launchOk_get it launched hen (hnn it hitmem)
        refine ⟨⟨?_, ?_, hwf.nodesWhole⟩, ?_⟩
        · intro e he k'
          simp only [applyEv, List.mem_append, List.mem_singleton] at he
          rcases he with he | he
          · exact hwf.existingNonneg e he k'
          · subst he; exact (hget k').1
        · intro o ho
          exact hwf.optsNonneg o (List.mem_of_mem_eraseIdx ho)
        · intro l hl
          have h0 := hin l hl
          simp only [applyEv]
          have h1 := sumWorst_eraseIdx_get nodes P.unlaunched k i opts hi
          have h2 : sumUsage nodes (P.existing ++ [launched]) k
              = sumUsage nodes P.existing k + (nodeCapacity nodes launched).get k := by
            unfold sumUsage
            rw [List.map_append, sumGet_append]; simp [sumGet]
          have h3 : (nodeCapacity nodes launched).get k ≤ worst nodes opts k := by
            rw [get_nodeCapacity]; unfold worst
            split
            · exact Int.le_refl _
            · exact Int.le_trans (hget k).2 (le_maxAt opts hnn it hitmem k)
          omega
  | lose i =>
    refine ⟨⟨hwf.existingNonneg, ?_, hwf.nodesWhole⟩, ?_⟩
    · intro o ho; exact hwf.optsNonneg o (List.mem_of_mem_eraseIdx ho)
    · intro l hl
      have h0 := hin l hl
      have := sumWorst_eraseIdx_le nodes P.unlaunched k hwf.optsNonneg i
      simp only [applyEv]; omega
  | remove i =>
    refine ⟨⟨?_, hwf.optsNonneg, hwf.nodesWhole⟩, ?_⟩
    · intro e he; exact hwf.existingNonneg e (List.mem_of_mem_eraseIdx he)
    · intro l hl
      have h0 := hin l hl
      have : sumUsage nodes (P.existing.eraseIdx i) k ≤ sumUsage nodes P.existing k := by
        unfold sumUsage
        rw [map_eraseIdx]
        apply sumGet_eraseIdx_le
        intro c hc
        simp only [List.mem_map] at hc
        obtain ⟨e, he, rfl⟩ := hc
        exact usage_nonneg nodes e k (hwf.existingNonneg e he k)
      simp only [applyEv]; omega

/-! ### bridge to the independent specification -/

theorem spec_usage_eq (nodes : κ) (cap : Res κ) (k : κ) :
    Karp.Spec.Limits.usage nodes cap k = (nodeCapacity nodes cap).get k := by
  rw [get_nodeCapacity]; rfl

omit [DecidableEq κ] in
theorem foldl_max_le (f : IT κ → Int) (w : Int) (opts : List (IT κ)) (h : ∀ it ∈ opts, f it ≤ w) :
    ∀ m, m ≤ w → opts.foldl (fun m o => if f o > m then f o else m) m ≤ w := by
  induction opts with
  | nil => intro m hm; simpa using hm
  | cons o os ih =>
    intro m hm
    simp only [List.foldl_cons]
    apply ih (fun it hit => h it (List.mem_cons_of_mem _ hit))
    split
    · exact h o List.mem_cons_self
    · exact hm

theorem spec_worst_le (nodes : κ) (opts : List (IT κ)) (hn : ∀ it ∈ opts, NonNeg it) (k : κ) :
    Karp.Spec.Limits.worstUsage nodes (opts.map (·.cap)) k ≤ worst nodes opts k := by
  unfold Karp.Spec.Limits.worstUsage
  rw [List.foldl_map]
  apply foldl_max_le (fun it => Karp.Spec.Limits.usage nodes it.cap k)
  · intro it hit
    unfold Karp.Spec.Limits.usage worst
    split
    · exact Int.le_refl _
    · exact le_maxAt opts hn it hit k
  · exact worst_nonneg nodes opts hn k

theorem spec_total_le (nodes : κ) (P : Pool κ) (hwf : WFPool nodes P) (k : κ) :
    Karp.Spec.Limits.total nodes P.existing (P.unlaunched.map (fun o => o.map (·.cap))) k
      ≤ sumUsage nodes P.existing k + sumWorst nodes P.unlaunched k := by
  unfold Karp.Spec.Limits.total
  have h1 : Karp.Spec.Limits.sumInt (P.existing.map (fun c => Karp.Spec.Limits.usage nodes c k))
      = sumUsage nodes P.existing k := by
    unfold sumUsage
    generalize P.existing = ex
    induction ex with
    | nil => rfl
    | cons e es ih =>
      simp only [List.map_cons, Karp.Spec.Limits.sumInt, sumGet]
      rw [ih, spec_usage_eq]
  have h2 : ∀ cl : List (List (IT κ)), (∀ opts ∈ cl, ∀ it ∈ opts, NonNeg it) →
      Karp.Spec.Limits.sumInt ((cl.map (fun o => o.map (·.cap))).map (fun o => Karp.Spec.Limits.worstUsage nodes o k))
        ≤ sumWorst nodes cl k := by
    intro cl
    induction cl with
    | nil => intro _; simp [Karp.Spec.Limits.sumInt, sumWorst]
    | cons o os ih =>
      intro hn
      simp only [List.map_cons, Karp.Spec.Limits.sumInt, sumWorst]
      have := spec_worst_le nodes o (hn o List.mem_cons_self) k
      have := ih (fun o' ho => hn o' (List.mem_cons_of_mem _ ho))
      omega
  have := h2 P.unlaunched hwf.optsNonneg
  omega

theorem run_within (v : Variant) (nodes k : κ) (htr : Tracks v nodes k) (evs : List (Ev κ)) :
    ∀ P, WFPool nodes P → Within nodes P k → enabledAll v nodes P evs = true →
      WFPool nodes (runEvs P evs) ∧ Within nodes (runEvs P evs) k := by
  induction evs with
  | nil => intro P hwf hin _; exact ⟨hwf, hin⟩
  | cons e es ih =>
    intro P hwf hin hen
    simp only [enabledAll, Bool.and_eq_true] at hen
    obtain ⟨h1, h2⟩ := step_within v nodes k htr P e hwf hin hen.1
    exact ih _ h1 h2 hen.2

theorem exceededBy_false_iff (limits usage : Res κ) :
    exceededBy limits usage = false ↔ ∀ k u l, (k, u) ∈ usage → limits.lookup k = some l → u ≤ l := by
  unfold exceededBy
  rw [Bool.eq_false_iff, Ne, List.any_eq_true]
  constructor
  · intro h k u l hm hl
    apply Int.not_lt.mp
    intro hlt
    exact h ⟨(k, u), hm, by simp [hl, hlt]⟩
  · rintro h ⟨⟨k, u⟩, hm, hx⟩
    cases hl : limits.lookup k with
    | none => simp [hl] at hx
    | some l =>
      simp [hl] at hx
      have := h k u l hm hl
      omega

end Karp.Limits
