/-
C11 helper lemmas: the object layer of the cache (which Node / NodeClaim / mark each state node holds and the two
name maps) as a small transition system `OC`, and the projection of the model onto it (pods play no role here).
-/
import Karp.Proofs.ClusterStatePoolSteps

namespace Karp.ClusterState
open Cluster

/-! ## mapping the values of an association list -/

namespace Map
variable {α β : Type}

def mapVals (f : α → β) (m : Map α) : Map β := m.map (fun e => (e.1, f e.2))

theorem mapVals_nil (f : α → β) : mapVals f ([] : Map α) = [] := rfl
theorem mapVals_cons (f : α → β) (k : String) (v : α) (m : Map α) : mapVals f ((k, v) :: m) = (k, f v) :: mapVals f m := rfl

theorem get_mapVals (f : α → β) (m : Map α) (k : String) : Map.get (mapVals f m) k = (Map.get m k).map f := by
  induction m with
  | nil => rfl
  | cons e m ih =>
    obtain ⟨k0, v⟩ := e
    rw [mapVals_cons, get_cons, get_cons, ih]
    by_cases h : k0 = k <;> simp [h]

theorem mapVals_erase (f : α → β) (m : Map α) (k : String) : mapVals f (Map.erase m k) = Map.erase (mapVals f m) k := by
  induction m with
  | nil => rfl
  | cons e m ih =>
    obtain ⟨k0, v⟩ := e
    rw [erase_cons, mapVals_cons, erase_cons]
    by_cases h : k0 = k
    · simp only [h, if_true, ih]
    · simp only [h, if_false, mapVals_cons, ih]

theorem mapVals_put (f : α → β) (m : Map α) (k : String) (v : α) : mapVals f (Map.put m k v) = Map.put (mapVals f m) k (f v) := by
  unfold Map.put
  rw [mapVals_cons, mapVals_erase]

/-- replacing a value by one with the same image does not change the image of the map -/
theorem mapVals_put_same (f : α → β) (m : Map α) (k : String) (v v' : α) (hg : Map.get m k = some v) (hf : f v' = f v)
    (hn : NoDup m) : ∀ k', Map.get (mapVals f (Map.put m k v')) k' = Map.get (mapVals f m) k' := by
  intro k'
  rw [get_mapVals, get_mapVals, get_put]
  by_cases h : k' = k
  · rw [if_pos h, h, hg]; simp [hf]
  · rw [if_neg h]

end Map

/-! ## the object layer -/

structure Objs where
  node : Option NodeObj := none
  claim : Option ClaimObj := none
  marked : Bool := false
  nominated : Bool := false
deriving DecidableEq, Repr

def SNode.objs (s : SNode) : Objs := ⟨s.node, s.claim, s.marked, s.nominated⟩

structure OC where
  nodes : Map Objs := []
  nn : Map String := []
  cn : Map String := []
deriving Repr

/-- two object layers are the same when all lookups agree (the order of the entries is irrelevant) -/
structure OC.Eqv (a b : OC) : Prop where
  nodes : ∀ id, Map.get a.nodes id = Map.get b.nodes id
  nn : a.nn = b.nn
  cn : a.cn = b.cn

def proj (c : Cluster) : OC := ⟨Map.mapVals SNode.objs c.nodes, c.nodeNameToPid, c.claimNameToPid⟩

namespace OC

def detachNode (o : OC) (name id : String) (s : Objs) : OC :=
  { o with nodes := if s.claim.isNone then Map.erase o.nodes id else Map.put o.nodes id { s with node := none },
           nn := Map.erase o.nn name }

def cleanupNode (o : OC) (name : String) : Option OC :=
  match Map.get o.nn name with
  | some id =>
    if id ≠ "" then
      match Map.get o.nodes id with
      | none => none
      | some s => some (o.detachNode name id s)
    else some o
  | none => some o

def detachClaim (o : OC) (id : String) (s : Objs) : OC :=
  { o with nodes := if s.node.isNone then Map.erase o.nodes id else Map.put o.nodes id { s with claim := none } }

def forgetClaim (o : OC) (name : String) : OC := { o with cn := Map.erase o.cn name }

def cleanupNodeClaim (o : OC) (name : String) : Option OC :=
  match Map.get o.cn name with
  | some id =>
    if id ≠ "" then
      match Map.get o.nodes id with
      | none => none
      | some s => some ((o.detachClaim id s).forgetClaim name)
    else some (o.forgetClaim name)
  | none => some (o.forgetClaim name)

def installNode (o : OC) (node : NodeObj) (old : Objs) : OC :=
  { o with nodes := Map.put o.nodes node.pid ⟨some node, old.claim, old.marked, old.nominated⟩,
           nn := Map.put o.nn node.name node.pid }

def newStateFromNode (o : OC) (node : NodeObj) : Option OC :=
  let old := (Map.get o.nodes node.pid).getD {}
  match (if rekeyed o.nn node.name node.pid then o.cleanupNode node.name else some o) with
  | none => none
  | some o2 => some (o2.installNode node old)

def updateNode (o : OC) (node : NodeObj) : Option OC :=
  let managed := node.pool ≠ ""
  if node.pid = "" && managed then some o
  else if managed && !node.it && !node.init then some o
  else o.newStateFromNode (if node.pid = "" then { node with pid := node.name } else node)

def installClaim (o : OC) (claim : ClaimObj) : Option OC :=
  let old := (Map.get o.nodes claim.pid).getD {}
  match (if rekeyed o.cn claim.name claim.pid then o.cleanupNodeClaim claim.name else some o) with
  | none => none
  | some o2 => some { o2 with nodes := Map.put o2.nodes claim.pid ⟨old.node, some claim, old.marked, old.nominated⟩ }

def updateNodeClaim (o : OC) (claim : ClaimObj) : Option OC :=
  match (if claim.pid ≠ "" then o.installClaim claim else some o) with
  | none => none
  | some o => some { o with cn := Map.put o.cn claim.name claim.pid }

def setMark (o : OC) (pid : String) (b : Bool) : OC :=
  match Map.get o.nodes pid with
  | none => o
  | some s => { o with nodes := Map.put o.nodes pid { s with marked := b } }

def nominate (o : OC) (pid : String) : OC :=
  match Map.get o.nodes pid with
  | none => o
  | some s => { o with nodes := Map.put o.nodes pid { s with nominated := true } }

def step (o : OC) (api : Api) : Event → Option OC
  | .recNode name =>
    match Map.get api.nodes name with
    | none => o.cleanupNode name
    | some n => o.updateNode n
  | .recClaim name =>
    match Map.get api.claims name with
    | none => o.cleanupNodeClaim name
    | some cl => if !cl.managed then some o else o.updateNodeClaim cl
  | .mark pid => some (o.setMark pid true)
  | .unmark pid => some (o.setMark pid false)
  | .nominate pid => some (o.nominate pid)
  | _ => some o

end OC

end Karp.ClusterState
