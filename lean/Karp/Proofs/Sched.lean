/-
Lemmas for the scheduler admission model (C01): Requirements.Add / lookup algebra, and what `Compatible`
against a node's label requirements guarantees about the node's actual labels.
-/
import Karp.Model.Sched
import Karp.Proofs.ReqLemmas
set_option linter.unusedSimpArgs false
namespace Karp.Sched
open Karp.Req Karp.Scn Karp.Spec.K8s

theorem lookup_labelReqs (ls : Labels) (k : String) :
    (labelReqs ls).lookup k = (ls.lookup k).map (fun v => ({ key := k, complement := false, values := [v] } : Req)) := by
  unfold labelReqs
  induction ls with
  | nil => rfl
  | cons p ps ih =>
    obtain ⟨k', v'⟩ := p
    simp only [List.map_cons, List.lookup_cons]
    by_cases h : k == k'
    · have : k = k' := by simpa using h
      subst this; simp
    · simp [h, ih]

theorem inSingle_wf (k v : String) : ({ key := k, complement := false, values := [v] } : Req).WF :=
  ⟨⟨by intro g h; simp at h, by intro g h; simp at h⟩, rfl, fun _ => ⟨rfl, rfl⟩⟩

theorem inSingle_admits (k v : String) (x : Option Val)
    (h : ({ key := k, complement := false, values := [v] } : Req).admits x = true) : x = some v := by
  cases x with
  | none => simp [Req.admits, Req.absentOk, Req.operator, Req.len, card, List.eraseDups_cons] at h
  | some w =>
    simp only [Req.admits, Req.has, withinBounds_none, Bool.and_true, Bool.false_eq_true, if_false] at h
    have : w = v := by simpa using h
    rw [this]

/-- **the node's labels are what the pod's requirements were checked against**: if the node's label requirements
    are `Compatible` with a requirement set (no undefined keys allowed), every requirement in the set accepts the
    node's actual label value — or its absence. -/
theorem compatible_labels (ls : Labels) (R : Reqs) (hR : ∀ p ∈ R, p.2.WF)
    (h : (labelReqs ls).compatible R [] = true) :
    ∀ p ∈ R, p.2.admits (ls.lookup p.1) = true := by
  have hA : ∀ k a, (labelReqs ls).lookup k = some a → a.boundsInRange := by
    intro k a hk
    rw [lookup_labelReqs] at hk
    cases hl : ls.lookup k with
    | none => rw [hl] at hk; simp at hk
    | some v => rw [hl] at hk; simp at hk; subst hk; exact (inSingle_wf k v).inRange
  have := (compatible_iff (labelReqs ls) R [] hA hR).mp h
  intro p hp
  obtain ⟨x, hx1, hx2⟩ := this p hp
  unfold nodeAllows at hx1
  rw [lookup_labelReqs] at hx1
  cases hl : ls.lookup p.1 with
  | none =>
    rw [hl] at hx1
    simp at hx1
    cases x with
    | none => exact hx2
    | some w => simp at hx1
  | some v =>
    rw [hl] at hx1
    simp only [Option.map_some] at hx1
    have := inSingle_admits p.1 v x hx1
    rw [← this]; exact hx2

theorem lookup_set (R : Reqs) (k : String) (r : Req) (k' : String) :
    (Reqs.set R k r).lookup k' = if k' = k then some r else R.lookup k' := by
  induction R with
  | nil =>
    simp only [Reqs.set, List.lookup_cons, List.lookup_nil]
    by_cases h : k' = k
    · subst h; simp
    · have : (k' == k) = false := by simpa using h
      simp [h, this]
  | cons p ps ih =>
    obtain ⟨k0, r0⟩ := p
    simp only [Reqs.set]
    by_cases h0 : k0 = k
    · subst h0
      simp only [if_true, List.lookup_cons]
      by_cases h : k' = k0
      · subst h; simp
      · have : (k' == k0) = false := by simpa using h
        simp [h, this]
    · simp only [h0, if_false, List.lookup_cons]
      by_cases h1 : k' == k0
      · have e1 : k' = k0 := by simpa using h1
        have : ¬ k' = k := by rw [e1]; exact h0
        simp [h1, this]
      · simp [h1, ih]

theorem lookup_add1 (R : Reqs) (r : Req) (k' : String) :
    (R.add1 r).lookup k' =
      if k' = r.key then some (match R.lookup r.key with | some e => r.inter e | none => r) else R.lookup k' := by
  unfold Reqs.add1
  cases h : R.lookup r.key with
  | some e => simp only [lookup_set]
  | none => simp only [lookup_set]

theorem get_eq (R : Reqs) (k : String) :
    R.get k = match R.lookup k with | some r => r | none => { key := k, complement := true, values := [] } := rfl

theorem has_exists (k : String) (v : Val) : ({ key := k, complement := true, values := [] } : Req).has v = true := by
  simp [Req.has]

/-- admitted values after `Add`: the old requirement's AND every added requirement's on that key -/
theorem has_add (rs : List Req) : ∀ (R : Reqs) (k : String) (v : Val),
    ((R.add rs).get k).has v = ((R.get k).has v && (rs.filter (fun r => r.key == k)).all (fun r => r.has v)) := by
  induction rs with
  | nil => intro R k v; simp [Reqs.add]
  | cons r rest ih =>
    intro R k v
    simp only [Reqs.add, List.foldl_cons]
    have := ih (R.add1 r) k v
    simp only [Reqs.add] at this
    rw [this]
    simp only [List.filter_cons]
    by_cases hk : r.key == k
    · have e : k = r.key := by simpa using Eq.symm (by simpa using hk : r.key = k)
      subst e
      simp only [hk, if_true, List.all_cons, get_eq, lookup_add1, if_true]
      cases hl : R.lookup r.key with
      | some e0 => simp only [has_inter]; cases r.has v <;> cases e0.has v <;> simp
      | none => simp only [has_exists, Bool.true_and]
    · have hne : ¬ k = r.key := by intro e; subst e; simp at hk
      simp only [hk, Bool.false_eq_true, if_false, get_eq, lookup_add1, hne]

theorem lookup_add_keep (rs' : List Req) (k : String) : ∀ (R' : Reqs),
    (R'.lookup k).isSome = true → ((R'.add rs').lookup k).isSome = true := by
  induction rs' with
  | nil => intro R' h'; simpa [Reqs.add] using h'
  | cons x xs ihx =>
    intro R' h'
    simp only [Reqs.add, List.foldl_cons]
    apply ihx
    rw [lookup_add1]
    split <;> simp [h']

theorem lookup_add_isSome (rs : List Req) : ∀ (R : Reqs) (r : Req), r ∈ rs → ((R.add rs).lookup r.key).isSome = true := by
  induction rs with
  | nil => intro R r h; cases h
  | cons r0 rest ih =>
    intro R r h
    simp only [Reqs.add, List.foldl_cons]
    rcases List.mem_cons.mp h with h0 | h'
    · subst h0
      have := lookup_add_keep rest r.key (R.add1 r) (by rw [lookup_add1]; simp)
      simpa [Reqs.add] using this
    · have := ih (R.add1 r0) r h'
      simpa [Reqs.add] using this
theorem mem_set (R : Reqs) (k : String) (r : Req) (p : String × Req) (h : p ∈ Reqs.set R k r) : p = (k, r) ∨ p ∈ R := by
  induction R with
  | nil => simp [Reqs.set] at h; exact Or.inl h
  | cons q qs ih =>
    obtain ⟨k0, r0⟩ := q
    simp only [Reqs.set] at h
    by_cases h0 : k0 = k
    · simp only [h0, if_true] at h
      rcases List.mem_cons.mp h with h1 | h1
      · exact Or.inl h1
      · exact Or.inr (List.mem_cons_of_mem _ h1)
    · simp only [h0, if_false] at h
      rcases List.mem_cons.mp h with h1 | h1
      · exact Or.inr (by rw [h1]; exact List.mem_cons_self)
      · rcases ih h1 with h2 | h2
        · exact Or.inl h2
        · exact Or.inr (List.mem_cons_of_mem _ h2)

theorem lookup_mem (R : Reqs) (k : String) (e : Req) (h : R.lookup k = some e) : (k, e) ∈ R := by
  induction R with
  | nil => simp at h
  | cons q qs ih =>
    obtain ⟨k0, r0⟩ := q
    simp only [List.lookup_cons] at h
    by_cases hk : k == k0
    · simp only [hk] at h
      have e1 : k = k0 := by simpa using hk
      have e2 : r0 = e := by simpa using h
      rw [e1, e2]; exact List.mem_cons_self
    · simp only [hk] at h
      exact List.mem_cons_of_mem _ (ih h)

theorem wf_add1 (R : Reqs) (r : Req) (hR : ∀ p ∈ R, p.2.WF) (hr : r.WF) : ∀ p ∈ R.add1 r, p.2.WF := by
  intro p hp
  unfold Reqs.add1 at hp
  cases hl : R.lookup r.key with
  | some e =>
    rw [hl] at hp
    rcases mem_set _ _ _ _ hp with h | h
    · rw [h]; exact wf_inter r e hr (hR _ (lookup_mem R r.key e hl))
    · exact hR p h
  | none =>
    rw [hl] at hp
    rcases mem_set _ _ _ _ hp with h | h
    · rw [h]; exact hr
    · exact hR p h

theorem wf_add (rs : List Req) : ∀ (R : Reqs), (∀ p ∈ R, p.2.WF) → (∀ r ∈ rs, r.WF) → ∀ p ∈ R.add rs, p.2.WF := by
  induction rs with
  | nil => intro R hR _; simpa [Reqs.add] using hR
  | cons r rest ih =>
    intro R hR hrs
    simp only [Reqs.add, List.foldl_cons]
    have := ih (R.add1 r) (wf_add1 R r hR (hrs r List.mem_cons_self)) (fun x hx => hrs x (List.mem_cons_of_mem _ hx))
    simpa [Reqs.add] using this

/-- validated expression: comparison operators carry one integer literal; `In` lists at least one value -/
def validExpr (e : KExpr) : Bool := validOperands e.op e.vals && !(e.op == .in_ && e.vals.isEmpty)

theorem newReq_spec (e : KExpr) (h : validExpr e = true) :
    (newReq e).WF ∧ (newReq e).key = normalizeKey e.key ∧ ∀ v, (newReq e).has v = k8sMatch e.op e.vals (some v) := by
  unfold validExpr at h
  rw [Bool.and_eq_true] at h
  unfold newReq
  cases hn : Req.new e.key e.op none e.vals with
  | ok r =>
    refine ⟨wf_new _ _ _ _ r hn, ?_, fun v => has_new _ _ _ _ r v h.1 hn⟩
    -- key normalisation
    cases hop : e.op <;> simp only [Req.new, hop] at hn
    case in_ | notIn | exists_ | doesNotExist | other =>
      all_goals (simp only [pure, Except.pure, Except.ok.injEq] at hn; subst hn; rfl)
    all_goals
      cases hv : e.vals with
      | nil => rw [hv] at hn; simp at hn
      | cons n rest =>
        rw [hv] at hn
        simp only [List.map_cons] at hn
        first
          | (simp only [pure, Except.pure, Except.ok.injEq] at hn; subst hn; rfl)
          | (split at hn <;> simp only [pure, Except.pure, Except.ok.injEq] at hn <;> subst hn <;> rfl)
  | error err =>
    -- impossible for validated operands
    exfalso
    have hv := h.1
    cases hop : e.op <;> rw [hop] at hv hn <;> simp only [Req.new] at hn
    case gt | lt | gte | lte =>
      all_goals
        cases hvals : e.vals with
        | nil => rw [hvals] at hv; simp [validOperands] at hv
        | cons n rest => rw [hvals] at hn; simp only [List.map_cons] at hn; first | (split at hn <;> simp [pure, Except.pure] at hn; done) | (simp [pure, Except.pure] at hn; done)
    all_goals simp [pure, Except.pure] at hn

end Karp.Sched

/-! ### Resource lists, the `fits` loop, allocatable groups, the filter loop (new NodeClaims) -/

namespace Karp.Sched
open Karp.Req Karp.Scn

theorem lookup_map_val (a : ResList) (f : String → Int → Int) (k : String) :
    (a.map (fun p => (p.1, f p.1 p.2))).lookup k = (a.lookup k).map (f k) := by
  induction a with
  | nil => rfl
  | cons p ps ih =>
    obtain ⟨k', v'⟩ := p
    simp only [List.map_cons, List.lookup_cons]
    by_cases h : k == k'
    · have : k = k' := by simpa using h
      subst this; simp
    · simp [h, ih]

theorem lookup_append (a b : ResList) (k : String) :
    (a ++ b).lookup k = match a.lookup k with | some v => some v | none => b.lookup k := by
  induction a with
  | nil => rfl
  | cons p ps ih =>
    obtain ⟨k', v'⟩ := p
    simp only [List.cons_append, List.lookup_cons]
    by_cases h : k == k'
    · simp [h]
    · simp [h, ih]

theorem lookup_filter_key (b : ResList) (q : String → Bool) (k : String) :
    (b.filter (fun p => q p.1)).lookup k = if q k then b.lookup k else none := by
  induction b with
  | nil => simp
  | cons p ps ih =>
    obtain ⟨k', v'⟩ := p
    by_cases hq : q k' = true
    · simp only [List.filter_cons, hq, if_true, List.lookup_cons]
      by_cases h : k == k'
      · have : k = k' := by simpa using h
        subst this; simp [hq]
      · simp [h, ih]
    · simp only [List.filter_cons, hq, Bool.false_eq_true, if_false, List.lookup_cons]
      by_cases h : k == k'
      · have : k = k' := by simpa using h
        subst this; simp [hq, ih]
      · simp [h, ih]

theorem get_resMerge (a b : ResList) (k : String) : (resMerge a b).get k = a.get k + b.get k := by
  unfold resMerge ResList.get
  rw [lookup_append, lookup_map_val a (fun k v => v + (b.lookup k).getD 0)]
  cases ha : a.lookup k with
  | some v => simp
  | none =>
    simp only [Option.map_none]
    rw [lookup_filter_key b (fun k => !ResList.hasKey a k)]
    simp [ResList.hasKey, ha]

theorem lookup_mem' (R : ResList) (k : String) (e : Int) (h : R.lookup k = some e) : (k, e) ∈ R := by
  induction R with
  | nil => simp at h
  | cons q qs ih =>
    obtain ⟨k0, r0⟩ := q
    simp only [List.lookup_cons] at h
    by_cases hk : k == k0
    · simp only [hk] at h
      have e1 : k = k0 := by simpa using hk
      have e2 : r0 = e := by simpa using h
      rw [e1, e2]; exact List.mem_cons_self
    · simp only [hk] at h
      exact List.mem_cons_of_mem _ (ih h)

theorem resFits_le (c t : ResList) (h : resFits c t = true) (k : String) : c.get k ≤ t.get k := by
  unfold resFits at h
  rw [Bool.and_eq_true] at h
  obtain ⟨hneg, hc⟩ := h
  cases hl : c.lookup k with
  | some q =>
    have h1 : decide (q ≤ t.get k) = true := List.all_eq_true.mp hc _ (lookup_mem' c k q hl)
    have h2 : c.get k = q := by simp [ResList.get, hl]
    rw [h2]; exact of_decide_eq_true h1
  | none =>
    have h2 : c.get k = 0 := by simp [ResList.get, hl]
    rw [h2]
    cases ht : t.lookup k with
    | none => simp [ResList.get, ht]
    | some q' =>
      have h1 : decide (0 ≤ q') = true := List.all_eq_true.mp hneg _ (lookup_mem' t k q' ht)
      have h3 : t.get k = q' := by simp [ResList.get, ht]
      rw [h3]; exact of_decide_eq_true h1

theorem resFits_merge_le (a b t : ResList) (h : resFits (resMerge a b) t = true) (k : String) :
    a.get k + b.get k ≤ t.get k := by
  rw [← get_resMerge]; exact resFits_le _ _ h k

theorem fitsLoop_fst (req : ResList) (R : Reqs) (wk : List String) : ∀ (gs : List AllocGroup) (has : Bool),
    (fitsLoop req R wk gs has).1 = gs.any (fun g => groupHasOffering g R wk && resFits req g.alloc) := by
  intro gs
  induction gs with
  | nil => intro has; rfl
  | cons g gs ih =>
    intro has
    simp only [fitsLoop, List.any_cons]
    by_cases h1 : groupHasOffering g R wk = true
    · by_cases h2 : resFits req g.alloc = true
      · simp [h1, h2]
      · simp [h1, h2, ih]
    · simp [h1, ih]

theorem fitsLoop_snd (req : ResList) (R : Reqs) (wk : List String) : ∀ (gs : List AllocGroup) (has : Bool),
    (fitsLoop req R wk gs has).2 = (has || gs.any (fun g => groupHasOffering g R wk)) := by
  intro gs
  induction gs with
  | nil => intro has; simp [fitsLoop]
  | cons g gs ih =>
    intro has
    simp only [fitsLoop, List.any_cons]
    by_cases h1 : groupHasOffering g R wk = true
    · by_cases h2 : resFits req g.alloc = true
      · simp [h1, h2]
      · simp [h1, h2, ih]
    · simp [h1, ih]

theorem mem_dedup [DecidableEq α] (x : α) : ∀ (l : List α), x ∈ dedup l ↔ x ∈ l := by
  intro l
  induction l with
  | nil => simp [dedup]
  | cons a as ih =>
    simp only [dedup, List.mem_cons, List.mem_filter, decide_eq_true_eq, ih]
    by_cases h : x = a
    · simp [h]
    · simp [h]


/-- every allocatable group is the set of available offerings with one override pair, with the allocatable of that
    pair; the pair is the base pair or the pair of some available offering -/
theorem mem_allocGroups (it : ITRaw) (g : AllocGroup) (h : g ∈ allocGroups it) :
    ∃ k : OverrideKey, (k = baseKey ∨ ∃ o ∈ it.offerings, o.available = true ∧ overrideKey o = k) ∧
      g.alloc = computeAlloc it k.1 k.2 ∧
      g.offerings = ((it.offerings.filter (·.available)).filter (fun o => decide (overrideKey o = k))).map OfferingRaw.toM := by
  unfold allocGroups at h
  obtain ⟨k, hk, rfl⟩ := List.mem_map.mp h
  refine ⟨k, ?_, rfl, rfl⟩
  rw [mem_dedup] at hk
  rcases List.mem_cons.mp hk with h0 | h1
  · exact Or.inl h0
  · obtain ⟨o, ho, rfl⟩ := List.mem_map.mp h1
    obtain ⟨ho1, ho2⟩ := List.mem_filter.mp ho
    exact Or.inr ⟨o, ho1, ho2, rfl⟩

theorem allocGroups_sound (it : ITRaw) (g : AllocGroup) (hg : g ∈ allocGroups it) (om : OfferingM) (hom : om ∈ g.offerings) :
    ∃ o ∈ it.offerings, o.available = true ∧ o.toM = om ∧ g.alloc = allocFor it o := by
  obtain ⟨k, _, ha, ho⟩ := mem_allocGroups it g hg
  rw [ho] at hom
  obtain ⟨o, hof, rfl⟩ := List.mem_map.mp hom
  obtain ⟨hof1, hkey⟩ := List.mem_filter.mp hof
  obtain ⟨hmem, hav⟩ := List.mem_filter.mp hof1
  have hk : overrideKey o = k := of_decide_eq_true hkey
  refine ⟨o, hmem, hav, rfl, ?_⟩
  rw [ha, ← hk]; rfl

theorem allocGroups_complete (it : ITRaw) (o : OfferingRaw) (ho : o ∈ it.offerings) (hav : o.available = true) :
    ∃ g ∈ allocGroups it, o.toM ∈ g.offerings ∧ g.alloc = allocFor it o := by
  have hav' : o ∈ it.offerings.filter (·.available) := List.mem_filter.mpr ⟨ho, hav⟩
  refine ⟨{ alloc := computeAlloc it (overrideKey o).1 (overrideKey o).2,
            offerings := ((it.offerings.filter (·.available)).filter (fun o' => decide (overrideKey o' = overrideKey o))).map OfferingRaw.toM }, ?_, ?_, rfl⟩
  · unfold allocGroups
    refine List.mem_map.mpr ⟨overrideKey o, ?_, rfl⟩
    rw [mem_dedup]
    exact List.mem_cons_of_mem _ (List.mem_map.mpr ⟨o, hav', rfl⟩)
  · exact List.mem_map.mpr ⟨o, List.mem_filter.mpr ⟨hav', by simp⟩, rfl⟩

/-- the base group (no overrides) is always first, also when it has no offering -/
theorem allocGroups_base_first (it : ITRaw) :
    ∃ rest, allocGroups it =
      { alloc := computeAlloc it [] none,
        offerings := ((it.offerings.filter (·.available)).filter (fun o => decide (overrideKey o = baseKey))).map OfferingRaw.toM } :: rest := by
  unfold allocGroups
  simp only [dedup, List.map_cons]
  exact ⟨_, rfl⟩

theorem mem_filterCandidates (options : List ITM) (groups : List Group) (podKey : String) (pp : List HostPort) (c : Group × ITM) :
    c ∈ filterCandidates options groups podKey pp ↔
      c.1 ∈ groups ∧ portsFree (c.1.portsOfOthers podKey) pp = true ∧
      ∃ n ∈ c.1.its, options.find? (fun it => it.name == n) = some c.2 := by
  unfold filterCandidates
  constructor
  · intro h
    obtain ⟨g, hg, hin⟩ := List.mem_flatMap.mp h
    by_cases hp : portsFree (g.portsOfOthers podKey) pp = true
    · simp only [hp, Bool.not_true, Bool.false_eq_true, if_false] at hin
      obtain ⟨it, hit, rfl⟩ := List.mem_map.mp hin
      obtain ⟨n, hn, hf⟩ := List.mem_filterMap.mp hit
      exact ⟨hg, hp, n, hn, hf⟩
    · simp [hp] at hin
  · rintro ⟨hg, hp, n, hn, hf⟩
    refine List.mem_flatMap.mpr ⟨c.1, hg, ?_⟩
    simp only [hp, Bool.not_true, Bool.false_eq_true, if_false]
    exact List.mem_map.mpr ⟨c.2, List.mem_filterMap.mpr ⟨n, hn, hf⟩, rfl⟩

end Karp.Sched
