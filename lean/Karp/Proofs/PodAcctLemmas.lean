/-
Helper lemmas for C04's accounting theorems (`Karp/Props/C04.lean`): the invariant of `Karp.PodAcct` over all
histories of API changes and informer deliveries.

`Inv`:
* `acct_binding` — a pod is charged only to the tracked node its recorded binding names (so it is charged to at most one
  node, and `updateNodeUsageFromPodCompletion`, which follows the binding, releases everything the pod is charged for);
* `exact` — for every pod whose latest API change has been delivered, every tracked node is charged for the pod exactly
  when the pod is assigned to it (`Karp.Spec.Assigned.assigned`: exists, bound there, not in a terminal phase).
-/
import Karp.Model.PodAcct

namespace Karp.PodAcct
open Karp.Spec.Assigned

set_option linter.unusedSectionVars false
variable {κ ν : Type} [DecidableEq κ] [DecidableEq ν]

structure Inv (s : St κ ν) : Prop where
  acct_binding : ∀ n k, s.acct n k = true → s.binding k = some n ∧ s.tracked n = true
  exact : ∀ k, s.dirty k = false → ∀ n, s.tracked n = true → (s.acct n k = true ↔ assigned s.apiPod n k = true)

theorem inv_init : Inv (St.init : St κ ν) := by
  constructor <;> simp [St.init, assigned]

theorem listed_eq_assigned (s : St κ ν) (n : ν) (k : κ) : listed s n k = assigned s.apiPod n k := by
  unfold listed listedBy assigned
  cases s.apiPod k <;> rfl

theorem assigned_unique (api : κ → Option (PodRec ν)) (n n' : ν) (k : κ)
    (h1 : assigned api n k = true) (h2 : assigned api n' k = true) : n = n' := by
  unfold assigned at h1 h2
  cases h : api k with
  | none => simp [h] at h1
  | some r => simp [h] at h1 h2; exact Option.some.inj (h1.1.symm.trans h2.1)

/-- pointwise description of `completion` under the invariant -/
theorem completion_acct (s : St κ ν) (h : Inv s) (k : κ) (n : ν) (k' : κ) :
    (completion s k).acct n k' = if k' = k then false else s.acct n k' := by
  have := h.acct_binding n k'
  unfold completion
  grind

theorem completion_binding (s : St κ ν) (k k' : κ) :
    (completion s k).binding k' = if k' = k then none else s.binding k' := by
  unfold completion; grind

theorem completion_tracked (s : St κ ν) (k : κ) : (completion s k).tracked = s.tracked := by
  unfold completion; split <;> rfl
theorem completion_apiPod (s : St κ ν) (k : κ) : (completion s k).apiPod = s.apiPod := by
  unfold completion; split <;> rfl
theorem completion_dirty (s : St κ ν) (k : κ) : (completion s k).dirty = s.dirty := by
  unfold completion; split <;> rfl
theorem completion_apiNode (s : St κ ν) (k : κ) : (completion s k).apiNode = s.apiNode := by
  unfold completion; split <;> rfl

/-- releasing pod `k` keeps the invariant for every other pod, and for `k` itself as soon as it is assigned nowhere -/
theorem inv_completion (s : St κ ν) (h : Inv s) (k : κ) :
    (∀ n k', (completion s k).acct n k' = true → (completion s k).binding k' = some n ∧ (completion s k).tracked n = true) ∧
    (∀ k', k' ≠ k → s.dirty k' = false → ∀ n, s.tracked n = true → ((completion s k).acct n k' = true ↔ assigned s.apiPod n k' = true)) ∧
    (∀ n, (completion s k).acct n k = false) := by
  refine ⟨?_, ?_, ?_⟩
  · intro n k' hc
    rw [completion_acct s h] at hc
    rw [completion_binding, completion_tracked]
    have := h.acct_binding n k'
    grind
  · intro k' hk hd n ht
    rw [completion_acct s h]
    have := h.exact k' hd n ht
    grind
  · intro n
    rw [completion_acct s h]; simp

theorem inv_podSet (s : St κ ν) (h : Inv s) (k : κ) (r : PodRec ν) : Inv (step s (.podSet k r)) := by
  constructor
  · intro n k' hc
    have := h.acct_binding n k'
    simp only [step, stepBy, setDirty] at *
    grind
  · intro k' hd n ht
    have := h.exact k'
    simp only [step, stepBy, setDirty, assigned] at *
    grind

theorem inv_podGone (s : St κ ν) (h : Inv s) (k : κ) : Inv (step s (.podGone k)) := by
  constructor
  · intro n k' hc
    have := h.acct_binding n k'
    simp only [step, stepBy, setDirty] at *
    grind
  · intro k' hd n ht
    have := h.exact k'
    simp only [step, stepBy, setDirty, assigned] at *
    grind

theorem inv_nodeSet (s : St κ ν) (h : Inv s) (n : ν) : Inv (step s (.nodeSet n)) := ⟨h.acct_binding, h.exact⟩
theorem inv_nodeGone (s : St κ ν) (h : Inv s) (n : ν) : Inv (step s (.nodeGone n)) := ⟨h.acct_binding, h.exact⟩

theorem inv_deleteNode (s : St κ ν) (h : Inv s) (n : ν) : Inv (deleteNode s n) := by
  constructor
  · intro n' k hc
    have := h.acct_binding n' k
    simp only [deleteNode] at *
    grind
  · intro k hd n' ht
    have := h.exact k hd n'
    simp only [deleteNode] at *
    grind

theorem inv_updateNode (s : St κ ν) (h : Inv s) (n : ν) : Inv (updateNode s n) := by
  constructor
  · intro n' k hc
    have := h.acct_binding n' k
    simp only [updateNode, updateNodeBy] at *
    grind
  · intro k hd n' ht
    have h1 := h.exact k hd
    have h2 := h.acct_binding
    have hl := listed_eq_assigned s
    have hu := assigned_unique s.apiPod n n' k
    simp only [updateNode, updateNodeBy, listed] at *
    grind

/-- after `completion s k` with the pod assigned to no tracked node, marking it delivered keeps the invariant -/
theorem inv_completion_clean (s : St κ ν) (h : Inv s) (k : κ)
    (hna : ∀ n, s.tracked n = true → assigned s.apiPod n k = false) : Inv (setDirty (completion s k) k false) := by
  obtain ⟨c1, c2, c3⟩ := inv_completion s h k
  constructor
  · intro n k' hc
    exact c1 n k' hc
  · intro k' hd n ht
    simp only [setDirty, completion_dirty, completion_tracked, completion_apiPod] at *
    by_cases hk : k' = k
    · subst hk
      have := c3 n
      have := hna n ht
      grind
    · have := c2 k' hk (by grind) n ht
      grind

theorem inv_completion_dirty (s : St κ ν) (h : Inv s) (k : κ)
    (hna : s.dirty k = false → ∀ n, s.tracked n = true → assigned s.apiPod n k = false) : Inv (completion s k) := by
  obtain ⟨c1, c2, c3⟩ := inv_completion s h k
  constructor
  · exact c1
  · intro k' hd n ht
    simp only [completion_dirty, completion_tracked, completion_apiPod] at *
    by_cases hk : k' = k
    · subst hk
      have := c3 n
      have := hna hd n ht
      grind
    · exact c2 k' hk hd n ht

theorem cleanupOld_acct (s : St κ ν) (k : κ) (node n' : ν) (k' : κ) :
    (cleanupOld s k node).acct n' k' =
      if k' = k ∧ n' ≠ node ∧ s.binding k = some n' ∧ s.tracked n' = true then false else s.acct n' k' := by
  unfold cleanupOld; grind

theorem cleanupOld_tracked (s : St κ ν) (k : κ) (node : ν) : (cleanupOld s k node).tracked = s.tracked := by
  unfold cleanupOld; grind
theorem cleanupOld_apiPod (s : St κ ν) (k : κ) (node : ν) : (cleanupOld s k node).apiPod = s.apiPod := by
  unfold cleanupOld; grind
theorem cleanupOld_dirty (s : St κ ν) (k : κ) (node : ν) : (cleanupOld s k node).dirty = s.dirty := by
  unfold cleanupOld; grind
theorem cleanupOld_binding_ne (s : St κ ν) (k k' : κ) (node : ν) (hk : k' ≠ k) : (cleanupOld s k node).binding k' = s.binding k' := by
  unfold cleanupOld; grind

/-- charging pod `k` to the tracked node `n` it is bound to -/
theorem inv_charge (s : St κ ν) (h : Inv s) (k : κ) (r : PodRec ν) (n : ν) (hr : s.apiPod k = some r)
    (hn : r.node = some n) (hterm : r.terminal = false) (ht : s.tracked n = true) :
    Inv (setDirty (usageFromPod s k r).1 k false) := by
  have ha : ∀ n', assigned s.apiPod n' k = true ↔ n' = n := by
    intro n'; unfold assigned; rw [hr]; simp [hn, hterm]; exact eq_comm
  have hu : (usageFromPod s k r).1 =
      { cleanupOld { s with acct := fun n' k' => if n' = n ∧ k' = k then true else s.acct n' k' } k n with
        binding := fun k' => if k' = k then some n else
          (cleanupOld { s with acct := fun n' k' => if n' = n ∧ k' = k then true else s.acct n' k' } k n).binding k' } := by
    simp [usageFromPod, hn, ht]
  rw [hu]
  constructor
  · intro n' k' hc
    have := h.acct_binding n' k'
    simp only [setDirty, cleanupOld_acct, cleanupOld_tracked] at hc ⊢
    by_cases hk : k' = k
    · subst hk; grind
    · rw [cleanupOld_binding_ne _ _ _ _ hk]; grind
  · intro k' hd n' ht'
    have := h.exact k'
    have := h.acct_binding n' k'
    have := ha n'
    simp only [setDirty, cleanupOld_acct, cleanupOld_tracked, cleanupOld_apiPod, cleanupOld_dirty] at hd ht' ⊢
    by_cases hk : k' = k
    · subst hk; grind
    · grind

theorem inv_seePod (s : St κ ν) (h : Inv s) (k : κ) : Inv (step s (.seePod k)) := by
  simp only [step, stepBy]
  cases hr : s.apiPod k with
  | none =>
    simp only [deletePod]
    exact inv_completion_clean s h k (by intro n _; simp [assigned, hr])
  | some r =>
    simp only [updatePod]
    by_cases hterm' : r.terminal = true
    · simp only [hterm', if_true]
      exact inv_completion_clean s h k (by intro n _; simp [assigned, hr, hterm'])
    · have hterm : r.terminal = false := by simpa using hterm'
      simp only [hterm, Bool.false_eq_true, if_false]
      cases hn : r.node with
      | none =>
        have : usageFromPod s k r = (completion s k, true) := by simp [usageFromPod, hn]
        rw [this]; simp only [if_true]
        exact inv_completion_clean s h k (by intro n _; simp [assigned, hr, hn])
      | some n =>
        cases ht : s.tracked n with
        | true =>
          have h2 : (usageFromPod s k r).2 = true := by simp [usageFromPod, hn, ht]
          rw [h2]; simp only [if_true]
          exact inv_charge s h k r n hr hn hterm ht
        | false =>
          have hna : ∀ n', s.tracked n' = true → assigned s.apiPod n' k = false := by
            intro n' ht'
            simp only [assigned, hr, hn, hterm]
            have : n ≠ n' := by intro e; subst e; rw [ht] at ht'; exact absurd ht' (by decide)
            simp [this]
          have h2 : (usageFromPod s k r).2 = false := by simp [usageFromPod, hn, ht]
          rw [h2]; simp only [Bool.false_eq_true, if_false]
          cases hb : s.binding k with
          | none =>
            have : (usageFromPod s k r).1 = s := by simp [usageFromPod, hn, ht, hb]
            rw [this]; exact h
          | some old =>
            by_cases ho : old = n
            · have : (usageFromPod s k r).1 = s := by simp [usageFromPod, hn, ht, hb, ho]
              rw [this]; exact h
            · have : (usageFromPod s k r).1 = completion s k := by simp [usageFromPod, hn, ht, hb, ho]
              rw [this]
              exact inv_completion_dirty s h k (fun _ => hna)

theorem inv_step (s : St κ ν) (h : Inv s) (e : Ev κ ν) : Inv (step s e) := by
  cases e with
  | podSet k r => exact inv_podSet s h k r
  | podGone k => exact inv_podGone s h k
  | nodeSet n => exact inv_nodeSet s h n
  | nodeGone n => exact inv_nodeGone s h n
  | seePod k => exact inv_seePod s h k
  | seeNode n =>
    simp only [step, stepBy]
    split
    · exact inv_updateNode s h n
    · exact inv_deleteNode s h n

theorem inv_run (s : St κ ν) (h : Inv s) (evs : List (Ev κ ν)) : Inv (run s evs) := by
  induction evs generalizing s with
  | nil => exact h
  | cons e rest ih => exact ih (step s e) (inv_step s h e)

end Karp.PodAcct
