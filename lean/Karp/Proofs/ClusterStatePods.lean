/-
C11 helper lemmas: the per-pod aggregates of every state node along whole histories (with the four repairs).
-/
import Karp.Proofs.ClusterStateRebuild

namespace Karp.ClusterState
open Cluster Karp.Spec.ClusterAbs

/-- the repairs the pod layer needs -/
structure PodFix (fx : Fixes) : Prop where
  d : fx.nodeGoneResets = true
  e : fx.rebindForgets = true
  a : carriedC fx "podDisruptionCosts" = true

theorem podFix_all : PodFix Fixes.all := ⟨rfl, rfl, by simp [carriedC, Fixes.all]⟩

/-- what holds of the pod table `R` of one state node `s` -/
structure Good (dsOf : String → Bool) (bindings : Map String) (api : Api) (dirty : List (String × String)) (s : SNode)
    (R : Map PodObj) : Prop where
  agg : Agg s R
  tab : TableOK dsOf R
  /-- a state node without Node accounts no pods -/
  t1 : s.node = none → R = []
  /-- an accounted pod is bound to this node, and the binding map says so -/
  t2 : ∀ k p, Map.get R k = some p → p.terminal = false ∧ ∃ v, s.node = some v ∧ p.node = v.name ∧ Map.get bindings k = some v.name
  /-- an accounted pod whose latest version has been observed IS that version -/
  t3 : ∀ k p, Map.get R k = some p → ("p", k) ∉ dirty → Map.get api.pods k = some p
  /-- every pod of the API that is bound to this node, not terminal, and observed in its latest version is accounted -/
  t4 : ∀ k p v, s.node = some v → Map.get api.pods k = some p → ("p", k) ∉ dirty → p.terminal = false → p.node = v.name →
        Map.get R k = some p
  /-- the CSI volume limits are those of the Node (none without Node) -/
  lim : s.limits = match s.node with | some v => limitsOf v [] | none => []

/-- the name maps and state nodes point at each other (what the pod layer needs of the object layer) -/
structure NameOK (c : Cluster) : Prop where
  fwd : ∀ id s v, Map.get c.nodes id = some s → s.node = some v → Map.get c.nodeNameToPid v.name = some id ∧ v.name ≠ ""
  bwd : ∀ name id, Map.get c.nodeNameToPid name = some id → ∃ s v, Map.get c.nodes id = some s ∧ s.node = some v ∧ v.name = name

structure PodInv (dsOf : String → Bool) (c : Cluster) (api : Api) (dirty : List (String × String)) : Prop where
  names : NameOK c
  good : ∀ id s, Map.get c.nodes id = some s → ∃ R, Good dsOf c.bindings api dirty s R

theorem podInv_empty (dsOf : String → Bool) : PodInv dsOf {} {} [] :=
  ⟨⟨by intro id s v h; simp at h, by intro n id h; simp at h⟩, by intro id s h; simp at h⟩

/-! ### lookups by node name -/

theorem nodeByName_iff {c : Cluster} (h : NameOK c) (name id : String) (s : SNode) :
    c.nodeByName name = some (id, s) ↔ (Map.get c.nodes id = some s ∧ ∃ v, s.node = some v ∧ v.name = name) ∨
      (Map.get c.nodeNameToPid name = none ∧ id = "" ∧ Map.get c.nodes "" = some s) := by
  unfold Cluster.nodeByName
  constructor
  · intro hx
    cases hg : Map.get c.nodeNameToPid name with
    | none =>
      rw [Map.getD_eq, hg] at hx
      simp only [Option.getD_none] at hx
      cases hs : Map.get c.nodes "" with
      | none => rw [hs] at hx; simp at hx
      | some s' =>
        rw [hs] at hx
        simp only [Option.map_some, Option.some.injEq, Prod.mk.injEq] at hx
        right; exact ⟨rfl, hx.1.symm, by rw [← hx.2]⟩
    | some id' =>
      rw [Map.getD_eq, hg] at hx
      simp only [Option.getD_some] at hx
      obtain ⟨s', v, hs', hv, hvn⟩ := h.bwd name id' hg
      rw [hs'] at hx
      simp only [Option.map_some, Option.some.injEq, Prod.mk.injEq] at hx
      left
      rw [← hx.1, ← hx.2]
      exact ⟨hs', v, hv, hvn⟩
  · intro hx
    rcases hx with ⟨hs, v, hv, hvn⟩ | ⟨hg, hid, hs⟩
    · have := (h.fwd id s v hs hv).1
      rw [hvn] at this
      rw [Map.getD_eq, this]
      simp only [Option.getD_some]
      rw [hs]; rfl
    · rw [Map.getD_eq, hg]
      simp only [Option.getD_none]
      rw [hs, hid]; rfl

/-- no state node lives under the empty provider id when the names are consistent and … (kept as an explicit hypothesis) -/
def NoEmptyKey (c : Cluster) : Prop := Map.get c.nodes "" = none

theorem nodeByName_some_iff {c : Cluster} (h : NameOK c) (h0 : NoEmptyKey c) (name id : String) (s : SNode) :
    c.nodeByName name = some (id, s) ↔ (Map.get c.nodes id = some s ∧ ∃ v, s.node = some v ∧ v.name = name) := by
  rw [nodeByName_iff h]
  constructor
  · intro hx
    rcases hx with hx | ⟨_, _, hs⟩
    · exact hx
    · rw [h0] at hs; simp at hs
  · intro hx; exact Or.inl hx

theorem nodeByName_none_iff {c : Cluster} (h : NameOK c) (h0 : NoEmptyKey c) (name : String) :
    c.nodeByName name = none ↔ Map.get c.nodeNameToPid name = none := by
  unfold Cluster.nodeByName
  constructor
  · intro hx
    cases hg : Map.get c.nodeNameToPid name with
    | none => rfl
    | some id =>
      obtain ⟨s, v, hs, _, _⟩ := h.bwd name id hg
      rw [Map.getD_eq, hg] at hx
      simp only [Option.getD_some] at hx
      rw [hs] at hx; simp at hx
  · intro hg
    rw [Map.getD_eq, hg]
    simp only [Option.getD_none]
    rw [h0]; rfl

end Karp.ClusterState

namespace Karp.ClusterState
open Cluster Karp.Spec.ClusterAbs

/-- `Good` only looks at the bindings of the accounted pods and at the API / dirty state of the pod keys -/
theorem good_mono {dsOf : String → Bool} {b b' : Map String} {api api' : Api} {d d' : List (String × String)} {s : SNode}
    {R : Map PodObj} (h : Good dsOf b api d s R)
    (hb : ∀ k p, Map.get R k = some p → Map.get b' k = Map.get b k)
    (h3 : ∀ k, ("p", k) ∉ d' → ("p", k) ∉ d ∧ Map.get api'.pods k = Map.get api.pods k) : Good dsOf b' api' d' s R := by
  refine ⟨h.agg, h.tab, h.t1, ?_, ?_, ?_, h.lim⟩
  · intro k p hg
    obtain ⟨ht, v, hv, hn, hbk⟩ := h.t2 k p hg
    exact ⟨ht, v, hv, hn, by rw [hb k p hg]; exact hbk⟩
  · intro k p hg hd
    rw [(h3 k hd).2]; exact h.t3 k p hg (h3 k hd).1
  · intro k p v hv hg hd ht hn
    rw [(h3 k hd).2] at hg
    exact h.t4 k p v hv hg (h3 k hd).1 ht hn

/-- no state node accounts pod `k` -/
def NoEntry (c : Cluster) (k : String) : Prop := ∀ id s, Map.get c.nodes id = some s → Map.get s.podReq k = none

theorem noEntry_table {dsOf : String → Bool} {b : Map String} {api : Api} {d : List (String × String)} {s : SNode} {R : Map PodObj}
    (h : Good dsOf b api d s R) (k : String) : Map.get s.podReq k = none ↔ Map.get R k = none := by
  rw [h.agg.req k]
  cases Map.get R k <;> simp

/-- a pod is accounted on at most the node its binding names -/
theorem entry_node {dsOf : String → Bool} {c : Cluster} {api : Api} {d : List (String × String)} (h : PodInv dsOf c api d)
    {id : String} {s : SNode} {R : Map PodObj} (hs : Map.get c.nodes id = some s) (hR : Good dsOf c.bindings api d s R)
    {k : String} {p : PodObj} (hg : Map.get R k = some p) :
    ∃ v, s.node = some v ∧ Map.get c.bindings k = some v.name ∧ Map.get c.nodeNameToPid v.name = some id := by
  obtain ⟨_, v, hv, _, hb⟩ := hR.t2 k p hg
  exact ⟨v, hv, hb, (h.names.fwd id s v hs hv).1⟩

theorem noEntry_of_binding {dsOf : String → Bool} {c : Cluster} {api : Api} {d : List (String × String)} (h : PodInv dsOf c api d)
    (k : String) (hb : Map.get c.bindings k = none ∨ ∃ M, Map.get c.bindings k = some M ∧ Map.get c.nodeNameToPid M = none) :
    NoEntry c k := by
  intro id s hs
  obtain ⟨R, hR⟩ := h.good id s hs
  rw [noEntry_table hR]
  cases hg : Map.get R k with
  | none => rfl
  | some p =>
    obtain ⟨v, _, hbk, hnn⟩ := entry_node h hs hR hg
    rcases hb with hb | ⟨M, hb, hM⟩
    · rw [hb] at hbk; simp at hbk
    · rw [hb] at hbk
      rw [← Option.some.inj hbk, hM] at hnn
      simp at hnn

/-- cleaning a key that nobody accounts and nobody has to account -/
theorem podInv_clean_noentry {dsOf : String → Bool} {c : Cluster} {api : Api} {d : List (String × String)} (h : PodInv dsOf c api d)
    (k : String) (hne : NoEntry c k)
    (hck : ∀ id s v p, Map.get c.nodes id = some s → s.node = some v → Map.get api.pods k = some p → p.terminal = false → p.node ≠ v.name) :
    PodInv dsOf c api (d.filter (· ≠ ("p", k))) := by
  refine ⟨h.names, ?_⟩
  intro id s hs
  obtain ⟨R, hR⟩ := h.good id s hs
  have hnone : Map.get R k = none := (noEntry_table hR k).mp (hne id s hs)
  refine ⟨R, hR.agg, hR.tab, hR.t1, hR.t2, ?_, ?_, hR.lim⟩
  · intro k' p hg hd
    have hk : k' ≠ k := by intro e; rw [e, hnone] at hg; simp at hg
    apply hR.t3 k' p hg
    intro hm; apply hd
    rw [List.mem_filter]
    refine ⟨hm, ?_⟩
    simp only [ne_eq, decide_not, Bool.not_eq_eq_eq_not, Bool.not_true, decide_eq_false_iff_not]
    intro e; exact hk (Prod.mk.inj e).2
  · intro k' p v hv hg hd ht hn
    by_cases hk : k' = k
    · rw [hk] at hg
      exact absurd hn (hck id s v p hs hv hg ht)
    · apply hR.t4 k' p v hv hg _ ht hn
      intro hm; apply hd
      rw [List.mem_filter]
      refine ⟨hm, ?_⟩
      simp only [ne_eq, decide_not, Bool.not_eq_eq_eq_not, Bool.not_true, decide_eq_false_iff_not]
      intro e; exact hk (Prod.mk.inj e).2

/-- `updateNodeUsageFromPodCompletion`: afterwards nobody accounts the pod, everything else is as before -/
theorem podInv_completion {dsOf : String → Bool} {c : Cluster} {api : Api} {d : List (String × String)} (h : PodInv dsOf c api d)
    (h0 : NoEmptyKey c) (k : String) (hdk : ("p", k) ∈ d ∨
      ∀ id s v p, Map.get c.nodes id = some s → s.node = some v → Map.get api.pods k = some p → p.terminal = false → p.node ≠ v.name) :
    PodInv dsOf (c.podCompletion k) api d ∧ NoEntry (c.podCompletion k) k ∧ NoEmptyKey (c.podCompletion k) ∧
      (c.podCompletion k).nodeNameToPid = c.nodeNameToPid ∧
      (∀ id, (Map.get (c.podCompletion k).nodes id).map SNode.objs = (Map.get c.nodes id).map SNode.objs) := by
  unfold Cluster.podCompletion
  cases hb : Map.get c.bindings k with
  | none => exact ⟨h, noEntry_of_binding h k (Or.inl hb), h0, rfl, fun _ => rfl⟩
  | some M =>
    dsimp only
    -- erasing the binding of k is harmless for every table that does not hold k
    have erase_ok : ∀ s R, Good dsOf c.bindings api d s R → Map.get R k = none → Good dsOf (Map.erase c.bindings k) api d s R := by
      intro s R hR hn
      apply good_mono hR
      · intro k' p hg
        have : k' ≠ k := by intro e; rw [e, hn] at hg; simp at hg
        rw [Map.get_erase, if_neg this]
      · intro k' hd; exact ⟨hd, rfl⟩
    have hnames1 : NameOK { c with bindings := Map.erase c.bindings k } := ⟨h.names.fwd, h.names.bwd⟩
    cases hnb : ({ c with bindings := Map.erase c.bindings k } : Cluster).nodeByName M with
    | none =>
      have hM : Map.get c.nodeNameToPid M = none := (nodeByName_none_iff hnames1 h0 M).mp hnb
      have hne := noEntry_of_binding h k (Or.inr ⟨M, hb, hM⟩)
      refine ⟨⟨hnames1, ?_⟩, hne, h0, rfl, fun _ => rfl⟩
      intro id s hs
      obtain ⟨R, hR⟩ := h.good id s hs
      exact ⟨R, erase_ok s R hR ((noEntry_table hR k).mp (hne id s hs))⟩
    | some x =>
      obtain ⟨idM, sM⟩ := x
      dsimp only
      obtain ⟨hsM, vM, hvM, hvMn⟩ := (nodeByName_some_iff hnames1 h0 M idM sM).mp hnb
      have hsM' : Map.get c.nodes idM = some sM := hsM
      have hidM : idM ≠ "" := by intro e; rw [e] at hsM'; rw [h0] at hsM'; simp at hsM'
      have hget : ∀ id, Map.get (Map.put c.nodes idM (sM.cleanupForPod k)) id =
          if id = idM then some (sM.cleanupForPod k) else Map.get c.nodes id := fun id => Map.get_put _ _ _ _
      have hfields := cleanupForPod_fields sM k
      refine ⟨⟨⟨?_, ?_⟩, ?_⟩, ?_, ?_, rfl, ?_⟩
      · intro id s v hs hv
        have hs' : Map.get (Map.put c.nodes idM (sM.cleanupForPod k)) id = some s := hs
        rw [hget] at hs'
        by_cases he : id = idM
        · rw [if_pos he] at hs'
          rw [← Option.some.inj hs', hfields.1] at hv
          rw [he]; exact h.names.fwd idM sM v hsM' hv
        · rw [if_neg he] at hs'; exact h.names.fwd id s v hs' hv
      · intro name id hg
        obtain ⟨s, v, hs, hv, hvn⟩ := h.names.bwd name id hg
        show ∃ s v, Map.get (Map.put c.nodes idM (sM.cleanupForPod k)) id = some s ∧ _
        by_cases he : id = idM
        · refine ⟨sM.cleanupForPod k, v, by rw [hget, if_pos he], ?_, hvn⟩
          rw [hfields.1]
          rw [he, hsM'] at hs
          rw [Option.some.inj hs]; exact hv
        · exact ⟨s, v, by rw [hget, if_neg he]; exact hs, hv, hvn⟩
      · intro id s hs
        have hs' : Map.get (Map.put c.nodes idM (sM.cleanupForPod k)) id = some s := hs
        rw [hget] at hs'
        by_cases he : id = idM
        · rw [if_pos he] at hs'
          obtain ⟨R, hR⟩ := h.good idM sM hsM'
          refine ⟨Map.erase R k, ?_⟩
          rw [← Option.some.inj hs']
          have hag := agg_cleanupForPod sM R k hR.agg
          refine ⟨hag.1, ⟨Map.noDup_erase hR.tab.nd _, ?_⟩, ?_, ?_, ?_, ?_, ?_⟩
          rotate_right
          · show (sM.cleanupForPod k).limits = match (sM.cleanupForPod k).node with | some v => limitsOf v [] | none => []
            rw [hfields.1]; exact hR.lim
          · intro k' p hg
            rw [Map.get_erase] at hg
            by_cases hk : k' = k
            · rw [if_pos hk] at hg; simp at hg
            · rw [if_neg hk] at hg; exact hR.tab.named k' p hg
          · intro hn
            rw [hfields.1] at hn
            rw [hR.t1 hn]; rfl
          · intro k' p hg
            rw [Map.get_erase] at hg
            by_cases hk : k' = k
            · rw [if_pos hk] at hg; simp at hg
            · rw [if_neg hk] at hg
              obtain ⟨ht, v, hv, hn, hbk⟩ := hR.t2 k' p hg
              exact ⟨ht, v, by rw [hfields.1]; exact hv, hn, by
                show Map.get (Map.erase c.bindings k) k' = _
                rw [Map.get_erase, if_neg hk]; exact hbk⟩
          · intro k' p hg hd
            rw [Map.get_erase] at hg
            by_cases hk : k' = k
            · rw [if_pos hk] at hg; simp at hg
            · rw [if_neg hk] at hg; exact hR.t3 k' p hg hd
          · intro k' p v hv hg hd ht hn
            rw [hfields.1] at hv
            rw [Map.get_erase]
            by_cases hk : k' = k
            · exfalso
              rw [hk] at hg hd
              rcases hdk with hdk | hdk
              · exact hd hdk
              · exact hdk idM sM v p hsM' hv hg ht hn
            · rw [if_neg hk]; exact hR.t4 k' p v hv hg hd ht hn
        · rw [if_neg he] at hs'
          obtain ⟨R, hR⟩ := h.good id s hs'
          refine ⟨R, erase_ok s R hR ?_⟩
          -- k is accounted on M's node only
          cases hg : Map.get R k with
          | none => rfl
          | some p =>
            obtain ⟨v, _, hbk, hnn⟩ := entry_node h hs' hR hg
            rw [hb] at hbk
            rw [← Option.some.inj hbk, ← hvMn, (h.names.fwd idM sM vM hsM' hvM).1] at hnn
            exact absurd (Option.some.inj hnn).symm he
      · intro id s hs
        have hs' : Map.get (Map.put c.nodes idM (sM.cleanupForPod k)) id = some s := hs
        rw [hget] at hs'
        by_cases he : id = idM
        · rw [if_pos he] at hs'
          rw [← Option.some.inj hs']
          show Map.get (Map.erase sM.podReq k) k = none
          rw [Map.get_erase_self]
        · rw [if_neg he] at hs'
          obtain ⟨R, hR⟩ := h.good id s hs'
          rw [noEntry_table hR]
          cases hg : Map.get R k with
          | none => rfl
          | some p =>
            obtain ⟨v, _, hbk, hnn⟩ := entry_node h hs' hR hg
            rw [hb] at hbk
            rw [← Option.some.inj hbk, ← hvMn, (h.names.fwd idM sM vM hsM' hvM).1] at hnn
            exact absurd (Option.some.inj hnn).symm he
      · show Map.get (Map.put c.nodes idM (sM.cleanupForPod k)) "" = none
        rw [hget, if_neg (fun e => hidM e.symm)]; exact h0
      · intro id
        show (Map.get (Map.put c.nodes idM (sM.cleanupForPod k)) id).map SNode.objs = _
        rw [hget]
        by_cases he : id = idM
        · rw [if_pos he, he, hsM']; simp [objs_cleanupForPod]
        · rw [if_neg he]

end Karp.ClusterState

namespace Karp.ClusterState
open Cluster Karp.Spec.ClusterAbs

/-- how the dirty set may shrink: at most the key `k` is cleaned -/
def CleansOnly (d d' : List (String × String)) (k : String) : Prop := ∀ k', ("p", k') ∉ d' → k' = k ∨ ("p", k') ∉ d

theorem cleansOnly_refl (d : List (String × String)) (k : String) : CleansOnly d d k := fun _ h => Or.inr h
theorem cleansOnly_filter (d : List (String × String)) (k : String) : CleansOnly d (d.filter (· ≠ ("p", k))) k := by
  intro k' h
  by_cases hk : k' = k
  · exact Or.inl hk
  · right
    intro hm; apply h
    rw [List.mem_filter]
    refine ⟨hm, ?_⟩
    simp only [ne_eq, decide_not, Bool.not_eq_eq_eq_not, Bool.not_true, decide_eq_false_iff_not]
    intro e; exact hk (Prod.mk.inj e).2

/-- H1: removing pod `k` from a state node that must not account it -/
theorem good_cleanup {dsOf : String → Bool} {b b' : Map String} {api : Api} {d d' : List (String × String)} {s : SNode}
    {R : Map PodObj} (h : Good dsOf b api d s R) (k : String) (hb : ∀ k', k' ≠ k → Map.get b' k' = Map.get b k')
    (hd : CleansOnly d d' k)
    (hk : ∀ v p, s.node = some v → Map.get api.pods k = some p → ("p", k) ∉ d' → p.terminal = false → p.node ≠ v.name) :
    Good dsOf b' api d' (s.cleanupForPod k) (Map.erase R k) := by
  have hf := cleanupForPod_fields s k
  have hag := agg_cleanupForPod s R k h.agg
  refine ⟨hag.1, ⟨Map.noDup_erase h.tab.nd _, ?_⟩, ?_, ?_, ?_, ?_, ?_⟩
  rotate_right
  · show (s.cleanupForPod k).limits = match (s.cleanupForPod k).node with | some v => limitsOf v [] | none => []
    rw [hf.1]; exact h.lim
  · intro k' p hg
    rw [Map.get_erase] at hg
    by_cases hkk : k' = k
    · rw [if_pos hkk] at hg; simp at hg
    · rw [if_neg hkk] at hg; exact h.tab.named k' p hg
  · intro hn; rw [hf.1] at hn; rw [h.t1 hn]; rfl
  · intro k' p hg
    rw [Map.get_erase] at hg
    by_cases hkk : k' = k
    · rw [if_pos hkk] at hg; simp at hg
    · rw [if_neg hkk] at hg
      obtain ⟨ht, v, hv, hn, hbk⟩ := h.t2 k' p hg
      exact ⟨ht, v, by rw [hf.1]; exact hv, hn, by rw [hb k' hkk]; exact hbk⟩
  · intro k' p hg hdd
    rw [Map.get_erase] at hg
    by_cases hkk : k' = k
    · rw [if_pos hkk] at hg; simp at hg
    · rw [if_neg hkk] at hg
      rcases hd k' hdd with e | e
      · exact absurd e hkk
      · exact h.t3 k' p hg e
  · intro k' p v hv hg hdd ht hn
    rw [hf.1] at hv
    rw [Map.get_erase]
    by_cases hkk : k' = k
    · rw [hkk] at hg hdd
      exact absurd hn (hk v p hv hg hdd ht)
    · rw [if_neg hkk]
      rcases hd k' hdd with e | e
      · exact absurd e hkk
      · exact h.t4 k' p v hv hg e ht hn

/-- H2: accounting the latest version `p` of pod `k` on its node -/
theorem good_update {dsOf : String → Bool} {b b' : Map String} {api : Api} {d d' : List (String × String)} {s : SNode}
    {R : Map PodObj} (fx : Fixes) (h : Good dsOf b api d s R) (p : PodObj) (v : NodeObj) (hv : s.node = some v)
    (hpn : p.node = v.name) (hpt : p.terminal = false) (hpd : dsOf p.name = p.ds) (hapi : Map.get api.pods p.name = some p)
    (hbk : Map.get b' p.name = some v.name) (hb : ∀ k', k' ≠ p.name → Map.get b' k' = Map.get b k')
    (hd : CleansOnly d d' p.name) :
    Good dsOf b' api d' (s.updateForPod fx p) (Map.put R p.name p) := by
  have hf := updateForPod_fields fx s p
  have hag := agg_updateForPod fx s R p h.agg (fun p0 hg => by rw [← (h.tab.named p.name p0 hg).2, hpd])
  refine ⟨hag, ⟨Map.noDup_put h.tab.nd _ _, ?_⟩, ?_, ?_, ?_, ?_, ?_⟩
  rotate_right
  · show (s.updateForPod fx p).limits = match (s.updateForPod fx p).node with | some v => limitsOf v [] | none => []
    rw [hf.1]; exact h.lim
  · intro k' q hg
    rw [Map.get_put] at hg
    by_cases hkk : k' = p.name
    · rw [if_pos hkk] at hg; rw [← Option.some.inj hg, hkk]; exact ⟨rfl, hpd⟩
    · rw [if_neg hkk] at hg; exact h.tab.named k' q hg
  · intro hn; rw [hf.1, hv] at hn; simp at hn
  · intro k' q hg
    rw [Map.get_put] at hg
    by_cases hkk : k' = p.name
    · rw [if_pos hkk] at hg
      rw [← Option.some.inj hg, hkk]
      exact ⟨hpt, v, by rw [hf.1]; exact hv, hpn, hbk⟩
    · rw [if_neg hkk] at hg
      obtain ⟨ht, v', hv', hn, hbk'⟩ := h.t2 k' q hg
      exact ⟨ht, v', by rw [hf.1]; exact hv', hn, by rw [hb k' hkk]; exact hbk'⟩
  · intro k' q hg hdd
    rw [Map.get_put] at hg
    by_cases hkk : k' = p.name
    · rw [if_pos hkk] at hg; rw [← Option.some.inj hg, hkk]; exact hapi
    · rw [if_neg hkk] at hg
      rcases hd k' hdd with e | e
      · exact absurd e hkk
      · exact h.t3 k' q hg e
  · intro k' q v' hv' hg hdd ht hn
    rw [hf.1] at hv'
    rw [Map.get_put]
    by_cases hkk : k' = p.name
    · rw [if_pos hkk]; rw [hkk, hapi] at hg; exact hg
    · rw [if_neg hkk]
      rcases hd k' hdd with e | e
      · exact absurd e hkk
      · exact h.t4 k' q v' hv' hg e ht hn

/-- H3: a state node that is not touched while pod `k` is (re)bound to the node named `N` -/
theorem good_keep {dsOf : String → Bool} {b b' : Map String} {api : Api} {d d' : List (String × String)} {s : SNode}
    {R : Map PodObj} (h : Good dsOf b api d s R) (k N : String) (hb : ∀ k', k' ≠ k → Map.get b' k' = Map.get b k')
    (hbk : Map.get b' k = some N) (hd : CleansOnly d d' k)
    (hent : Map.get R k = none ∨ ∃ v, s.node = some v ∧ v.name = N)
    (hk4 : ∀ v p, s.node = some v → Map.get api.pods k = some p → ("p", k) ∉ d' → p.terminal = false → p.node = v.name →
            Map.get R k = some p)
    (hk3 : ∀ p, Map.get R k = some p → ("p", k) ∉ d' → Map.get api.pods k = some p) :
    Good dsOf b' api d' s R := by
  refine ⟨h.agg, h.tab, h.t1, ?_, ?_, ?_, h.lim⟩
  · intro k' p hg
    obtain ⟨ht, v, hv, hn, hbk'⟩ := h.t2 k' p hg
    refine ⟨ht, v, hv, hn, ?_⟩
    by_cases hkk : k' = k
    · rw [hkk] at hg ⊢
      rcases hent with e | ⟨v', hv', hvn'⟩
      · rw [e] at hg; simp at hg
      · rw [hv] at hv'; rw [Option.some.inj hv', hvn']; exact hbk
    · rw [hb k' hkk]; exact hbk'
  · intro k' p hg hdd
    by_cases hkk : k' = k
    · rw [hkk] at hg hdd ⊢; exact hk3 p hg hdd
    · rcases hd k' hdd with e | e
      · exact absurd e hkk
      · exact h.t3 k' p hg e
  · intro k' p v hv hg hdd ht hn
    by_cases hkk : k' = k
    · rw [hkk] at hg hdd ⊢; exact hk4 v p hv hg hdd ht hn
    · rcases hd k' hdd with e | e
      · exact absurd e hkk
      · exact h.t4 k' p v hv hg e ht hn

end Karp.ClusterState

namespace Karp.ClusterState
open Cluster Karp.Spec.ClusterAbs

/-- how one state node may change while pod `p` is (re)bound to the node named `p.node` -/
inductive Rebound (fx : Fixes) (p : PodObj) (d d' : List (String × String)) : Option SNode → Option SNode → Prop
  | absent : Rebound fx p d d' none none
  | updated (s : SNode) (v : NodeObj) : s.node = some v → v.name = p.node → Rebound fx p d d' (some s) (some (s.updateForPod fx p))
  | cleaned (s : SNode) : (∀ v, s.node = some v → v.name ≠ p.node) → Rebound fx p d d' (some s) (some (s.cleanupForPod p.name))
  | keptOther (s : SNode) : Map.get s.podReq p.name = none → (∀ v, s.node = some v → v.name ≠ p.node) →
      Rebound fx p d d' (some s) (some s)
  | keptSame (s : SNode) (v : NodeObj) : s.node = some v → v.name = p.node → (("p", p.name) ∉ d' → ("p", p.name) ∉ d) →
      Rebound fx p d d' (some s) (some s)

theorem podInv_rebound {dsOf : String → Bool} {c c' : Cluster} {api : Api} {d d' : List (String × String)} (fx : Fixes)
    (h : PodInv dsOf c api d) (h0 : NoEmptyKey c) (p : PodObj) (hapi : Map.get api.pods p.name = some p)
    (hpt : p.terminal = false) (hpd : dsOf p.name = p.ds) (hd : CleansOnly d d' p.name)
    (hnn : c'.nodeNameToPid = c.nodeNameToPid)
    (hbk : Map.get c'.bindings p.name = some p.node) (hb : ∀ k', k' ≠ p.name → Map.get c'.bindings k' = Map.get c.bindings k')
    (hnodes : ∀ id, Rebound fx p d d' (Map.get c.nodes id) (Map.get c'.nodes id)) :
    PodInv dsOf c' api d' ∧ NoEmptyKey c' := by
  have hobjs : ∀ id, (Map.get c'.nodes id).map SNode.objs = (Map.get c.nodes id).map SNode.objs := by
    intro id
    generalize hx : Map.get c.nodes id = x
    generalize hy : Map.get c'.nodes id = y
    have hr := hnodes id
    rw [hx, hy] at hr
    cases hr with
    | absent => rfl
    | updated s v _ _ => simp [objs_updateForPod]
    | cleaned s _ => simp [objs_cleanupForPod]
    | keptOther s _ _ => rfl
    | keptSame s v _ _ _ => rfl
  refine ⟨⟨⟨?_, ?_⟩, ?_⟩, ?_⟩
  · intro id s' v hs' hv
    have ho := hobjs id
    rw [hs'] at ho
    cases hs : Map.get c.nodes id with
    | none => rw [hs] at ho; simp at ho
    | some s =>
      rw [hs] at ho
      simp only [Option.map_some, Option.some.injEq] at ho
      have : s.node = some v := by rw [← hv]; exact (congrArg Objs.node ho).symm
      rw [hnn]; exact h.names.fwd id s v hs this
  · intro name id hg
    rw [hnn] at hg
    obtain ⟨s, v, hs, hv, hvn⟩ := h.names.bwd name id hg
    have ho := hobjs id
    rw [hs] at ho
    cases hs' : Map.get c'.nodes id with
    | none => rw [hs'] at ho; simp at ho
    | some s' =>
      rw [hs'] at ho
      simp only [Option.map_some, Option.some.injEq] at ho
      exact ⟨s', v, rfl, by rw [← hv]; exact congrArg Objs.node ho, hvn⟩
  · intro id s' hs'
    have hr := hnodes id
    rw [hs'] at hr
    generalize hx : Map.get c.nodes id = x at hr
    cases hr with
    | updated s v hv hvn =>
      obtain ⟨R, hR⟩ := h.good id s hx
      exact ⟨_, good_update fx hR p v hv hvn.symm hpt hpd hapi (by rw [hvn]; exact hbk) hb hd⟩
    | cleaned s hne =>
      obtain ⟨R, hR⟩ := h.good id s hx
      refine ⟨_, good_cleanup hR p.name hb hd ?_⟩
      intro v q hv hq _ _ hn
      rw [hapi] at hq
      rw [← Option.some.inj hq] at hn
      exact hne v hv hn.symm
    | keptOther _ hnone hne =>
      obtain ⟨R, hR⟩ := h.good id s' hx
      have hRn : Map.get R p.name = none := (noEntry_table hR p.name).mp hnone
      refine ⟨R, good_keep hR p.name p.node hb hbk hd (Or.inl hRn) ?_ ?_⟩
      · intro v q hv hq _ _ hn
        rw [hapi] at hq
        rw [← Option.some.inj hq] at hn
        exact absurd hn.symm (hne v hv)
      · intro q hq; rw [hRn] at hq; simp at hq
    | keptSame _ v hv hvn hdd =>
      obtain ⟨R, hR⟩ := h.good id s' hx
      refine ⟨R, good_keep hR p.name p.node hb hbk hd (Or.inr ⟨v, hv, hvn⟩) ?_ ?_⟩
      · intro v' q hv' hq hd' ht hn; exact hR.t4 p.name q v' hv' hq (hdd hd') ht hn
      · intro q hq hd'; exact hR.t3 p.name q hq (hdd hd')
  · have hr := hnodes ""
    rw [h0] at hr
    generalize hy : Map.get c'.nodes "" = y at hr
    cases hr with
    | absent => exact hy

end Karp.ClusterState

namespace Karp.ClusterState
open Cluster Karp.Spec.ClusterAbs

/-- the two outcomes of `cleanupOldBindings` -/
theorem cleanupOldBindings_cases (c : Cluster) (hN : NameOK c) (h0 : NoEmptyKey c) (p : PodObj) :
    (c.cleanupOldBindings p = c ∧
      (Map.get c.bindings p.name = none ∨ Map.get c.bindings p.name = some p.node ∨
        ∃ M, Map.get c.bindings p.name = some M ∧ M ≠ p.node ∧ Map.get c.nodeNameToPid M = none)) ∨
    (∃ M idM sM vM, Map.get c.bindings p.name = some M ∧ M ≠ p.node ∧ Map.get c.nodes idM = some sM ∧ sM.node = some vM ∧
      vM.name = M ∧ c.cleanupOldBindings p =
        { c with nodes := Map.put c.nodes idM (sM.cleanupForPod p.name), bindings := Map.erase c.bindings p.name }) := by
  unfold Cluster.cleanupOldBindings
  cases hb : Map.get c.bindings p.name with
  | none => exact Or.inl ⟨rfl, Or.inl rfl⟩
  | some M =>
    dsimp only
    by_cases hM : M = p.node
    · rw [if_pos hM]; exact Or.inl ⟨rfl, Or.inr (Or.inl (by rw [hM]))⟩
    · rw [if_neg hM]
      cases hnb : c.nodeByName M with
      | none =>
        exact Or.inl ⟨rfl, Or.inr (Or.inr ⟨M, rfl, hM, (nodeByName_none_iff hN h0 M).mp hnb⟩)⟩
      | some x =>
        obtain ⟨idM, sM⟩ := x
        obtain ⟨hsM, vM, hvM, hvMn⟩ := (nodeByName_some_iff hN h0 M idM sM).mp hnb
        exact Or.inr ⟨M, idM, sM, vM, rfl, hM, hsM, hvM, hvMn, rfl⟩

/-- where pod `k` may be accounted -/
theorem entry_where {dsOf : String → Bool} {c : Cluster} {api : Api} {d : List (String × String)} (h : PodInv dsOf c api d)
    {id : String} {s : SNode} (hs : Map.get c.nodes id = some s) (k : String) :
    Map.get s.podReq k = none ∨ ∃ v, s.node = some v ∧ Map.get c.bindings k = some v.name := by
  obtain ⟨R, hR⟩ := h.good id s hs
  cases hg : Map.get R k with
  | none => exact Or.inl ((noEntry_table hR k).mpr hg)
  | some q =>
    obtain ⟨v, hv, hb, _⟩ := entry_node h hs hR hg
    exact Or.inr ⟨v, hv, hb⟩

/-- one iteration of `populateResourceRequests` for a pod the API lists for the node (the pod itself is added to the state
    node under construction, which is not part of the cluster yet) -/
theorem podInv_populate_step {dsOf : String → Bool} {c : Cluster} {api : Api} {d : List (String × String)} (fx : Fixes)
    (h : PodInv dsOf c api d) (h0 : NoEmptyKey c) (p : PodObj) (hapi : Map.get api.pods p.name = some p)
    (hpt : p.terminal = false) (hpd : dsOf p.name = p.ds) :
    PodInv dsOf { (c.cleanupOldBindings p) with bindings := Map.put (c.cleanupOldBindings p).bindings p.name p.node } api d ∧
    NoEmptyKey { (c.cleanupOldBindings p) with bindings := Map.put (c.cleanupOldBindings p).bindings p.name p.node } := by
  -- a node that is not touched
  have kept : ∀ id, (∀ v s, Map.get c.nodes id = some s → s.node = some v → v.name ≠ p.node → Map.get s.podReq p.name = none) →
      Rebound fx p d d (Map.get c.nodes id) (Map.get c.nodes id) := by
    intro id hne
    cases hs : Map.get c.nodes id with
    | none => exact Rebound.absent
    | some s =>
      cases hv : s.node with
      | none =>
        obtain ⟨R, hR⟩ := h.good id s hs
        have : Map.get s.podReq p.name = none := by rw [noEntry_table hR, hR.t1 hv]; rfl
        exact Rebound.keptOther s this (by intro v hv'; rw [hv] at hv'; simp at hv')
      | some v =>
        by_cases hn : v.name = p.node
        · exact Rebound.keptSame s v hv hn (fun x => x)
        · exact Rebound.keptOther s (hne v s hs hv hn) (by intro v' hv'; rw [hv] at hv'; rw [← Option.some.inj hv']; exact hn)
  rcases cleanupOldBindings_cases c h.names h0 p with ⟨heq, hcase⟩ | ⟨M, idM, sM, vM, hb, hM, hsM, hvM, hvMn, heq⟩
  · rw [heq]
    refine podInv_rebound fx h h0 p hapi hpt hpd (cleansOnly_refl d p.name) ?_ ?_ ?_ ?_
    · rfl
    · show Map.get (Map.put c.bindings p.name p.node) p.name = _
      rw [Map.get_put_self]
    · intro k' hk'
      show Map.get (Map.put c.bindings p.name p.node) k' = _
      rw [Map.get_put, if_neg hk']
    · intro id
      apply kept id
      intro v s hs hv hn
      rcases entry_where h hs p.name with e | ⟨v', hv', hbv⟩
      · exact e
      · exfalso
        rw [hv] at hv'
        rw [← Option.some.inj hv'] at hbv
        rcases hcase with e | e | ⟨M, e, _, hMn⟩
        · rw [e] at hbv; simp at hbv
        · rw [e] at hbv; exact hn (Option.some.inj hbv).symm
        · rw [e] at hbv
          rw [Option.some.inj hbv, (h.names.fwd id s v hs hv).1] at hMn
          simp at hMn
  · rw [heq]
    refine podInv_rebound fx h h0 p hapi hpt hpd (cleansOnly_refl d p.name) ?_ ?_ ?_ ?_
    · rfl
    · show Map.get (Map.put (Map.erase c.bindings p.name) p.name p.node) p.name = _
      rw [Map.get_put_self]
    · intro k' hk'
      show Map.get (Map.put (Map.erase c.bindings p.name) p.name p.node) k' = _
      rw [Map.get_put, if_neg hk', Map.get_erase, if_neg hk']
    · intro id
      show Rebound fx p d d (Map.get c.nodes id) (Map.get (Map.put c.nodes idM (sM.cleanupForPod p.name)) id)
      rw [Map.get_put]
      by_cases he : id = idM
      · rw [if_pos he, he, hsM]
        apply Rebound.cleaned
        intro v hv
        rw [hvM] at hv
        rw [← Option.some.inj hv, hvMn]; exact hM
      · rw [if_neg he]
        apply kept id
        intro v s hs hv hn
        rcases entry_where h hs p.name with e | ⟨v', hv', hbv⟩
        · exact e
        · exfalso
          rw [hv] at hv'
          rw [← Option.some.inj hv', hb] at hbv
          have h1 := (h.names.fwd id s v hs hv).1
          have h2 := (h.names.fwd idM sM vM hsM hvM).1
          rw [← Option.some.inj hbv, ← hvMn, h2] at h1
          exact he (Option.some.inj h1).symm

end Karp.ClusterState

namespace Karp.ClusterState
open Cluster Karp.Spec.ClusterAbs

theorem mem_vals_get {m : Map PodObj} (hn : Map.NoDup m) {p : PodObj} (hm : p ∈ Map.vals m) : ∃ k, Map.get m k = some p := by
  obtain ⟨k, hk⟩ := Map.mem_vals hm
  exact ⟨k, Map.get_of_mem hn hk⟩

/-- the whole loop of `populateResourceRequests` over (a part of) the API's pod list -/
theorem podInv_populate {dsOf : String → Bool} {api : Api} {d : List (String × String)} (fx : Fixes) (hapi : PodsOK dsOf api)
    (nodeName : String) (pods : List PodObj) (hsub : ∀ p ∈ pods, p ∈ Map.vals api.pods) (hnd : (pods.map (·.name)).Nodup) :
    ∀ (c : Cluster) (n : SNode), PodInv dsOf c api d → NoEmptyKey c →
      PodInv dsOf (c.populate fx n nodeName pods).1 api d ∧ NoEmptyKey (c.populate fx n nodeName pods).1 ∧
      (∀ p ∈ pods, onNode nodeName p = true → Map.get (c.populate fx n nodeName pods).1.bindings p.name = some nodeName) ∧
      (∀ k, (∀ p ∈ pods, p.name ≠ k) → Map.get (c.populate fx n nodeName pods).1.bindings k = Map.get c.bindings k) := by
  induction pods with
  | nil => intro c n h h0; exact ⟨h, h0, by intro p hp; simp at hp, fun _ _ => rfl⟩
  | cons p ps ih =>
    intro c n h h0
    rw [List.map_cons, List.nodup_cons] at hnd
    have hsub' : ∀ q ∈ ps, q ∈ Map.vals api.pods := fun q hq => hsub q (List.mem_cons_of_mem _ hq)
    unfold Cluster.populate
    by_cases hon : (decide (p.node = nodeName) && !p.terminal) = true
    · rw [if_pos hon]
      simp only [Bool.and_eq_true, decide_eq_true_eq, Bool.not_eq_eq_eq_not, Bool.not_true] at hon
      obtain ⟨k, hk⟩ := mem_vals_get hapi.nd (hsub p List.mem_cons_self)
      have hnamed := hapi.named k p hk
      have hg : Map.get api.pods p.name = some p := by rw [hnamed.1]; exact hk
      have hst := podInv_populate_step fx h h0 p hg hon.2 (by rw [hnamed.1]; exact hnamed.2)
      have := ih hsub' hnd.2 { (c.cleanupOldBindings p) with bindings := Map.put (c.cleanupOldBindings p).bindings p.name p.node }
        (n.updateForPod fx p) hst.1 hst.2
      refine ⟨this.1, this.2.1, ?_, ?_⟩
      · intro q hq hqon
        rcases List.mem_cons.mp hq with e | hq'
        · rw [e]
          rw [this.2.2.2 p.name]
          · show Map.get (Map.put (c.cleanupOldBindings p).bindings p.name p.node) p.name = _
            rw [Map.get_put_self, hon.1]
          · intro q' hq' e'
            apply hnd.1
            rw [← e']
            exact List.mem_map_of_mem hq'
        · exact this.2.2.1 q hq' hqon
      · intro k' hk'
        rw [this.2.2.2 k' (fun q hq => hk' q (List.mem_cons_of_mem _ hq))]
        show Map.get (Map.put (c.cleanupOldBindings p).bindings p.name p.node) k' = _
        have hne : k' ≠ p.name := fun e => hk' p List.mem_cons_self e.symm
        rw [Map.get_put, if_neg hne]
        rcases cleanupOldBindings_cases c h.names h0 p with ⟨heq, _⟩ | ⟨M, idM, sM, vM, _, _, _, _, _, heq⟩
        · rw [heq]
        · rw [heq]
          show Map.get (Map.erase c.bindings p.name) k' = _
          rw [Map.get_erase, if_neg hne]
    · rw [if_neg hon]
      have := ih hsub' hnd.2 c n h h0
      refine ⟨this.1, this.2.1, ?_, ?_⟩
      · intro q hq hqon
        rcases List.mem_cons.mp hq with e | hq'
        · rw [e] at hqon; exact absurd hqon hon
        · exact this.2.2.1 q hq' hqon
      · intro k' hk'
        exact this.2.2.2 k' (fun q hq => hk' q (List.mem_cons_of_mem _ hq))

/-- `updateNodeUsageFromPod` for a pod bound to a tracked node -/
theorem podInv_update {dsOf : String → Bool} {c : Cluster} {api : Api} {d : List (String × String)} (fx : Fixes)
    (h : PodInv dsOf c api d) (h0 : NoEmptyKey c) (p : PodObj) (hapi : Map.get api.pods p.name = some p)
    (hpt : p.terminal = false) (hpd : dsOf p.name = p.ds) (id : String) (sn : SNode) (hnb : c.nodeByName p.node = some (id, sn)) :
    let c1 : Cluster := { c with nodes := Map.put c.nodes id (sn.updateForPod fx p) }
    PodInv dsOf { (c1.cleanupOldBindings p) with bindings := Map.put (c1.cleanupOldBindings p).bindings p.name p.node } api
        (d.filter (· ≠ ("p", p.name))) ∧
    NoEmptyKey { (c1.cleanupOldBindings p) with bindings := Map.put (c1.cleanupOldBindings p).bindings p.name p.node } := by
  intro c1
  obtain ⟨hsn, vN, hvN, hvNn⟩ := (nodeByName_some_iff h.names h0 p.node id sn).mp hnb
  have hid : id ≠ "" := by intro e; rw [e, h0] at hsn; simp at hsn
  have hget1 : ∀ id', Map.get c1.nodes id' = if id' = id then some (sn.updateForPod fx p) else Map.get c.nodes id' :=
    fun id' => Map.get_put _ _ _ _
  have hf := updateForPod_fields fx sn p
  have hN1 : NameOK c1 := by
    refine ⟨?_, ?_⟩
    · intro id' s v hs hv
      rw [hget1] at hs
      by_cases he : id' = id
      · rw [if_pos he] at hs
        rw [← Option.some.inj hs, hf.1] at hv
        rw [he]; exact h.names.fwd id sn v hsn hv
      · rw [if_neg he] at hs; exact h.names.fwd id' s v hs hv
    · intro name id' hg
      obtain ⟨s, v, hs, hv, hvn⟩ := h.names.bwd name id' hg
      by_cases he : id' = id
      · refine ⟨_, v, by rw [hget1, if_pos he], ?_, hvn⟩
        rw [hf.1]; rw [he, hsn] at hs; rw [Option.some.inj hs]; exact hv
      · exact ⟨s, v, by rw [hget1, if_neg he]; exact hs, hv, hvn⟩
  have h01 : NoEmptyKey c1 := by
    show Map.get c1.nodes "" = none
    rw [hget1, if_neg (fun e => hid e.symm)]; exact h0
  -- the node named like the pod's node is `id`
  have uniq : ∀ id' s v, Map.get c.nodes id' = some s → s.node = some v → v.name = p.node → id' = id := by
    intro id' s v hs hv hn
    have h1 := (h.names.fwd id' s v hs hv).1
    have h2 := (h.names.fwd id sn vN hsn hvN).1
    rw [hn, ← hvNn, h2] at h1
    exact (Option.some.inj h1).symm
  have other : ∀ id', id' ≠ id → (∀ v s, Map.get c.nodes id' = some s → s.node = some v → Map.get s.podReq p.name = none) →
      Rebound fx p d (d.filter (· ≠ ("p", p.name))) (Map.get c.nodes id') (Map.get c.nodes id') := by
    intro id' hne hnone
    cases hs : Map.get c.nodes id' with
    | none => exact Rebound.absent
    | some s =>
      cases hv : s.node with
      | none =>
        obtain ⟨R, hR⟩ := h.good id' s hs
        have : Map.get s.podReq p.name = none := by rw [noEntry_table hR, hR.t1 hv]; rfl
        exact Rebound.keptOther s this (by intro v hv'; rw [hv] at hv'; simp at hv')
      | some v =>
        have hn : v.name ≠ p.node := fun e => hne (uniq id' s v hs hv e)
        exact Rebound.keptOther s (hnone v s hs hv) (by intro v' hv'; rw [hv] at hv'; rw [← Option.some.inj hv']; exact hn)
  rcases cleanupOldBindings_cases c1 hN1 h01 p with ⟨heq, hcase⟩ | ⟨M, idM, sM, vM, hb, hM, hsM, hvM, hvMn, heq⟩
  · rw [heq]
    refine podInv_rebound fx h h0 p hapi hpt hpd (cleansOnly_filter d p.name) ?_ ?_ ?_ ?_
    · rfl
    · show Map.get (Map.put c.bindings p.name p.node) p.name = _
      rw [Map.get_put_self]
    · intro k' hk'
      show Map.get (Map.put c.bindings p.name p.node) k' = _
      rw [Map.get_put, if_neg hk']
    · intro id'
      show Rebound fx p d _ (Map.get c.nodes id') (Map.get c1.nodes id')
      rw [hget1]
      by_cases he : id' = id
      · rw [if_pos he, he, hsn]; exact Rebound.updated sn vN hvN hvNn
      · rw [if_neg he]
        apply other id' he
        intro v s hs hv
        rcases entry_where h hs p.name with e | ⟨v', hv', hbv⟩
        · exact e
        · exfalso
          rw [hv] at hv'
          rw [← Option.some.inj hv'] at hbv
          have hbv1 : Map.get c1.bindings p.name = some v.name := hbv
          rcases hcase with e | e | ⟨M, e, _, hMn⟩
          · rw [e] at hbv1; simp at hbv1
          · rw [e] at hbv1; exact he (uniq id' s v hs hv (Option.some.inj hbv1).symm)
          · rw [e] at hbv1
            have : Map.get c.nodeNameToPid M = none := hMn
            rw [Option.some.inj hbv1, (h.names.fwd id' s v hs hv).1] at this
            simp at this
  · rw [heq]
    have hidM : idM ≠ id := by
      intro e
      rw [e, hget1, if_pos rfl] at hsM
      rw [← Option.some.inj hsM, hf.1, hvN] at hvM
      rw [← Option.some.inj hvM] at hvMn
      exact hM (hvMn.symm.trans hvNn)
    have hsMc : Map.get c.nodes idM = some sM := by rw [hget1, if_neg hidM] at hsM; exact hsM
    refine podInv_rebound fx h h0 p hapi hpt hpd (cleansOnly_filter d p.name) ?_ ?_ ?_ ?_
    · rfl
    · show Map.get (Map.put (Map.erase c.bindings p.name) p.name p.node) p.name = _
      rw [Map.get_put_self]
    · intro k' hk'
      show Map.get (Map.put (Map.erase c.bindings p.name) p.name p.node) k' = _
      rw [Map.get_put, if_neg hk', Map.get_erase, if_neg hk']
    · intro id'
      show Rebound fx p d _ (Map.get c.nodes id') (Map.get (Map.put c1.nodes idM (sM.cleanupForPod p.name)) id')
      rw [Map.get_put]
      by_cases heM : id' = idM
      · rw [if_pos heM, heM, hsMc]
        apply Rebound.cleaned
        intro v hv
        rw [hvM] at hv
        rw [← Option.some.inj hv, hvMn]; exact hM
      · rw [if_neg heM, hget1]
        by_cases he : id' = id
        · rw [if_pos he, he, hsn]; exact Rebound.updated sn vN hvN hvNn
        · rw [if_neg he]
          apply other id' he
          intro v s hs hv
          rcases entry_where h hs p.name with e | ⟨v', hv', hbv⟩
          · exact e
          · exfalso
            rw [hv] at hv'
            rw [← Option.some.inj hv'] at hbv
            have hb' : Map.get c.bindings p.name = some M := hb
            rw [hb'] at hbv
            have h1 := (h.names.fwd id' s v hs hv).1
            have h2 := (h.names.fwd idM sM vM hsMc hvM).1
            rw [← Option.some.inj hbv, ← hvMn, h2] at h1
            exact heM (Option.some.inj h1).symm

end Karp.ClusterState
