/-
Helper lemmas for C16 (`Props/C16.lean`): the liveness pass only issues a Delete from a timeout branch,
`findUnhealthyConditions` returns a matching (policy, condition) pair with the earliest termination time,
and the integer form of the rounded-up percentage.
-/
import Karp.Model.Reapers
import Karp.Spec.Reapers

namespace Karp.Reapers
open Karp.Spec.Reapers

/-! ### Liveness -/

theorem updateHealth_dels (i : LiveIn) (s : LState) : (updateHealth i s).2.dels = s.dels := by
  unfold updateHealth
  cases i.pool <;> simp only <;> cases faultAt i.getFaults s.gets <;> simp only <;>
    (try split) <;> (try cases faultAt i.patchFaults s.patches) <;> simp

/-- a timeout branch issues at most one Delete … -/
theorem timeoutBranch_dels_le (i : LiveIn) (s : LState) :
    s.dels ≤ (timeoutBranch i s).2.dels ∧ (timeoutBranch i s).2.dels ≤ s.dels + 1 := by
  have h := updateHealth_dels i s
  unfold timeoutBranch
  rcases hu : updateHealth i s with ⟨r, s'⟩
  rw [hu] at h
  simp only at h
  cases r <;> simp only
  · cases faultAt i.deleteFaults s'.dels <;> simp <;> omega
  · omega
  · omega

/-- … and none at all when updating the pool's health failed (a failed NodePool read or status write that
    is not NotFound) -/
theorem timeoutBranch_guard (i : LiveIn) (s : LState) (h : (updateHealth i s).1 ≠ .ok) :
    (timeoutBranch i s).2.dels = s.dels := by
  have hd := updateHealth_dels i s
  unfold timeoutBranch
  rcases hu : updateHealth i s with ⟨r, s'⟩
  rw [hu] at h hd
  simp only at h hd
  cases r <;> simp_all

/-- `continue` is only reported after a Delete was issued -/
theorem timeoutBranch_continue (i : LiveIn) (s : LState) :
    (timeoutBranch i s).1 = .continue → (timeoutBranch i s).2.dels = s.dels + 1 := by
  have hd := updateHealth_dels i s
  unfold timeoutBranch
  rcases hu : updateHealth i s with ⟨r, s'⟩
  rw [hu] at hd
  simp only at hd ⊢
  cases r <;> simp only
  · cases faultAt i.deleteFaults s'.dels <;> simp_all
  all_goals simp

/-! ### Node repair -/

/-- invariant of the fold in `findUnhealthyConditions` -/
def FoundOk (ps : List Policy) (conds : List NCond) (r : Option (NCond × Int)) : Prop :=
  ∀ c tol, r = some (c, tol) → ∃ p ∈ ps, policyMatch p conds = some c ∧ p.toleration = tol

theorem findUnhealthy_foldl (conds : List NCond) (all : List Policy) :
    ∀ (ps : List Policy) (acc : Option (NCond × Int)), (∀ p ∈ ps, p ∈ all) → FoundOk all conds acc →
      FoundOk all conds (ps.foldl (fun best p =>
        match policyMatch p conds with
        | none => best
        | some c =>
          match best with
          | none => some (c, p.toleration)
          | some (bc, btol) => if bc.since + btol > c.since + p.toleration then some (c, p.toleration) else best) acc) := by
  intro ps
  induction ps with
  | nil => intro acc _ h; simpa using h
  | cons p ps ih =>
    intro acc hsub hacc
    simp only [List.foldl_cons]
    apply ih
    · intro q hq; exact hsub q (List.mem_cons_of_mem _ hq)
    · have hp : p ∈ all := hsub p (List.mem_cons_self)
      cases hm : policyMatch p conds with
      | none => simpa [hm] using hacc
      | some c =>
        cases acc with
        | none =>
          intro c' tol' h
          simp at h
          exact ⟨p, hp, by rw [hm, h.1], h.2⟩
        | some b =>
          obtain ⟨bc, btol⟩ := b
          simp only
          split
          · intro c' tol' h
            simp at h
            exact ⟨p, hp, by rw [hm, h.1], h.2⟩
          · exact hacc

/-- whatever `findUnhealthyConditions` returns is a condition of the node that matches one of the
    provider's policies, together with that policy's toleration -/
theorem findUnhealthy_sound (ps : List Policy) (conds : List NCond) (c : NCond) (tol : Int)
    (h : findUnhealthy ps conds = some (c, tol)) :
    ∃ p ∈ ps, policyMatch p conds = some c ∧ p.toleration = tol := by
  have := findUnhealthy_foldl conds ps ps none (fun _ h => h) (by intro _ _ h; simp at h)
  exact this c tol h

/-- the model's `policyMatch` and the specification's reading of "the node's condition matches the policy" -/
theorem policyMatch_spec (p : Policy) (conds : List NCond) (c : NCond) (h : policyMatch p conds = some c) :
    conds.find? (fun c => c.type == p.type) = some c ∧ c.status = p.status := by
  unfold policyMatch getCond at h
  split at h
  · rename_i c' hc
    split at h
    · rename_i hs
      simp at h; subst h
      exact ⟨hc, by simpa using hs⟩
    · simp at h
  · simp at h

theorem isUnhealthy_eq (ps : List Policy) (n : RNode) : isUnhealthy ps n = nodeUnhealthy ps n := by
  unfold isUnhealthy nodeUnhealthy
  congr 1
  funext p
  unfold policyMatch getCond
  cases h : List.find? (fun c => c.type == p.type) n.conds with
  | none => simp
  | some c => by_cases hs : c.status = p.status <;> simp [hs]

theorem population_eq (i : RepairIn) : population i = breakerNodes i := by
  unfold population breakerNodes
  cases i.claimPool with
  | none =>
    simp only [List.filter_cons, if_true]
    congr 1
    induction i.others with
    | nil => rfl
    | cons a l ih => simp [← ih]
  | some p => rfl
/-- `u ≤ ⌈pct·n/100⌉` in the model's integer arithmetic and in the specification's division-free form -/
theorem scaled_roundUp_iff (pct u n : Nat) :
    u ≤ scaled pct n true ↔ atMostPercentRoundedUp pct u n = true := by
  unfold scaled atMostPercentRoundedUp
  simp only [if_true, Bool.or_eq_true, beq_iff_eq, decide_eq_true_eq]
  constructor
  · intro h
    by_cases hu : u = 0
    · exact Or.inl hu
    · right
      have : u * 100 ≤ pct * n + 99 := by
        have := Nat.mul_le_mul_right 100 h
        have h2 := Nat.div_mul_le_self (pct * n + 99) 100
        omega
      omega
  · intro h
    rcases h with h | h
    · omega
    · rw [Nat.le_div_iff_mul_le (by decide)]
      omega

/-! ### Garbage collection -/

theorem mem_gcWith (flag : Bool) (i : GCIn) (d : String) (h : d ∈ (gcWith flag i).1) :
    i.listClaimsFault = false ∧ i.providerListFault = false ∧
    ∃ c ∈ i.claims, c.name = d ∧ candidate i c = true ∧ (gcOne flag i c).1 = true := by
  unfold gcWith at h
  split at h
  · simp at h
  · rename_i hf
    simp only [Bool.or_eq_true, not_or, Bool.not_eq_true] at hf
    refine ⟨hf.1, hf.2, ?_⟩
    simp only [List.mem_map, List.mem_filter] at h
    obtain ⟨r, ⟨⟨c, ⟨hc, hcand⟩, hr⟩, hdel⟩, hname⟩ := h
    subst hr
    exact ⟨c, hc, hname, hcand, hdel⟩

theorem candidate_providerLacks (i : GCIn) (c : Claim) (hp : i.providerListFault = false)
    (h : candidate i c = true) : c.registered = .true_ ∧ providerLacks i c = true := by
  unfold candidate at h
  simp only [Bool.and_eq_true, Bool.not_eq_true', beq_iff_eq] at h
  obtain ⟨⟨⟨_, hreg⟩, _⟩, hlive⟩ := h
  refine ⟨hreg, ?_⟩
  unfold providerLacks
  simp only [hp, Bool.not_false, Bool.true_and, List.all_eq_true, Bool.or_eq_true, bne_iff_ne]
  intro p hpm
  by_cases hd : p.deleting = true
  · exact Or.inr hd
  · left
    intro heq
    have : c.pid ∈ livePids i := by
      unfold livePids
      simp only [List.mem_map, List.mem_filter]
      exact ⟨p, ⟨hpm, by simpa using hd⟩, heq⟩
    have hc : (livePids i).contains c.pid = true := by simpa using this
    rw [hc] at hlive
    exact absurd hlive (by decide)

/-- what a successful, unambiguous lookup that lets the Delete through establishes -/
theorem lookup_established (i : GCIn) (c : Claim)
    (h : lookup i c = .notFound ∨ lookup i c = .one false) : nodeAbsentOrNotReady i c = true := by
  unfold nodeAbsentOrNotReady
  unfold lookup at h
  by_cases hp : (c.pid == "") = true
  · simp [hp]
  · simp only [hp, Bool.false_eq_true, if_false] at h
    by_cases hf : i.lookupFault.contains c.pid = true
    · rw [if_pos hf] at h; simp at h
    · simp only [hf, Bool.false_eq_true, if_false] at h
      simp only [hp, hf, Bool.false_or, Bool.not_false, Bool.true_and, List.all_eq_true, Bool.or_eq_true,
        bne_iff_ne, Bool.not_eq_true']
      intro n hn
      by_cases hpid : n.pid = c.pid
      · right
        have hmem : n ∈ nodesOf i c.pid := by
          unfold nodesOf; simp only [List.mem_filter]; exact ⟨hn, by simpa using hpid⟩
        cases hl : nodesOf i c.pid with
        | nil => rw [hl] at hmem; simp at hmem
        | cons a l =>
          rw [hl] at h hmem
          cases l with
          | nil =>
            simp at h
            simp at hmem
            rw [hmem]; exact h
          | cons b l' => simp at h
      · exact Or.inl hpid

theorem lookup_not_duplicate (i : GCIn) (c : Claim) (huniq : ∀ pid, (nodesOf i pid).length ≤ 1) :
    lookup i c ≠ .duplicate := by
  unfold lookup
  split
  · simp
  · split
    · simp
    · have := huniq c.pid
      cases hn : nodesOf i c.pid with
      | nil => simp
      | cons a l =>
        cases l with
        | nil => simp
        | cons b l' => rw [hn] at this; simp at this

/-! ### Liveness: where Deletes come from -/

/-- Deletes are only issued by a timeout branch whose timeout has passed -/
theorem liveness_dels (i : LiveIn) (l : Tri) (lAt : Int) (s₀ : LState)
    (h : s₀.dels < (liveness i l lAt s₀).2.dels) :
    i.registered ≠ .true_ ∧
    ((l ≠ .true_ ∧ launchTimeout ≤ i.now - lAt) ∨ registrationTimeout ≤ i.now - i.registeredAt) := by
  unfold liveness at h
  split at h
  · simp at h
  · rename_i hreg
    refine ⟨by simpa using hreg, ?_⟩
    by_cases hr : i.now - i.registeredAt < registrationTimeout
    · left
      by_cases hl : (l != Tri.true_) = true
      · by_cases hto : i.now - lAt < launchTimeout
        · simp [hl, hto] at h
        · exact ⟨by simpa using hl, by omega⟩
      · exfalso
        simp only [hl, hr] at h
        simp at h
    · right; omega

theorem liveness_dels_le (i : LiveIn) (l : Tri) (lAt : Int) (s₀ : LState) :
    (liveness i l lAt s₀).2.dels ≤ s₀.dels + 2 := by
  have h1 := timeoutBranch_dels_le i s₀
  unfold liveness
  split
  · simp
  · split
    · split
      · simp
      · rcases hb : timeoutBranch i s₀ with ⟨r, s⟩
        rw [hb] at h1
        simp only at h1
        have h2 := timeoutBranch_dels_le i s
        cases r with
        | stop e => simp only; omega
        | «continue» =>
          simp only
          split
          · simp only; omega
          · rcases hb2 : timeoutBranch i s with ⟨r2, s2⟩
            rw [hb2] at h2
            simp only at h2
            cases r2 <;> simp only <;> omega
    · simp only
      split
      · simp
      · rcases hb2 : timeoutBranch i s₀ with ⟨r2, s2⟩
        rw [hb2] at h1
        simp only at h1
        cases r2 <;> simp only <;> omega

/-! ### Node repair: the breaker threshold -/

/-- the model's threshold is the rounded-up percentage (uses the regenerated rounding mode) -/
theorem threshold_eq (n : Nat) : threshold n = scaled Karp.Gen.Reapers.allowedUnhealthyPercent n true := rfl

theorem nodesHealthy_iff (i : RepairIn) :
    nodesHealthy i = true ↔
      atMostPercentRoundedUp Karp.Gen.Reapers.allowedUnhealthyPercent
        ((breakerNodes i).filter (nodeUnhealthy i.policies)).length (breakerNodes i).length = true := by
  unfold nodesHealthy unhealthyCount
  rw [threshold_eq, population_eq]
  have : isUnhealthy i.policies = nodeUnhealthy i.policies := funext (isUnhealthy_eq i.policies)
  rw [this]
  simp only [decide_eq_true_eq]
  exact scaled_roundUp_iff _ _ _

end Karp.Reapers
