/-
Helper lemmas for C16 (`Props/C16.lean`): the liveness pass only issues a Delete from a timeout branch,
`findUnhealthyConditions` returns a matching (policy, condition) pair with the earliest termination time,
the integer form of the rounded-up percentage, and that neither the collector / node repair nor the
specification distinguishes a terminating Node (deletion timestamp set, object still present) from any other.
-/
import Karp.Model.Reapers
import Karp.Spec.Reapers

namespace Karp.Reapers
open Karp.Spec.Reapers

/-! ### Liveness -/

theorem updateHealth_dels (i : LiveIn) (s : LState) : (updateHealth i s).2.dels = s.dels := by
  unfold updateHealth
  cases i.pool <;> simp only <;> cases faultAt i.getFaults s.gets <;> simp only <;>
    (try split) <;> (try cases faultAt i.patchFaults s.patches) <;> simp

/-- a timeout branch issues at most one Delete … -/
theorem timeoutBranch_dels_le (i : LiveIn) (s : LState) :
    s.dels ≤ (timeoutBranch i s).2.dels ∧ (timeoutBranch i s).2.dels ≤ s.dels + 1 := by
  have h := updateHealth_dels i s
  unfold timeoutBranch
  rcases hu : updateHealth i s with ⟨r, s'⟩
  rw [hu] at h
  simp only at h
  cases r <;> simp only
  · cases faultAt i.deleteFaults s'.dels <;> simp <;> omega
  · omega
  · omega

/-- … and none at all when updating the pool's health failed (a failed NodePool read or status write that
    is not NotFound) -/
theorem timeoutBranch_guard (i : LiveIn) (s : LState) (h : (updateHealth i s).1 ≠ .ok) :
    (timeoutBranch i s).2.dels = s.dels := by
  have hd := updateHealth_dels i s
  unfold timeoutBranch
  rcases hu : updateHealth i s with ⟨r, s'⟩
  rw [hu] at h hd
  simp only at h hd
  cases r <;> simp_all

/-- `continue` is only reported after a Delete was issued -/
theorem timeoutBranch_continue (i : LiveIn) (s : LState) :
    (timeoutBranch i s).1 = .continue → (timeoutBranch i s).2.dels = s.dels + 1 := by
  have hd := updateHealth_dels i s
  unfold timeoutBranch
  rcases hu : updateHealth i s with ⟨r, s'⟩
  rw [hu] at hd
  simp only at hd ⊢
  cases r <;> simp only
  · cases faultAt i.deleteFaults s'.dels <;> simp_all
  all_goals simp

/-! ### Node repair -/

/-- invariant of the fold in `findUnhealthyConditions` -/
def FoundOk (ps : List Policy) (conds : List NCond) (r : Option (NCond × Int)) : Prop :=
  ∀ c tol, r = some (c, tol) → ∃ p ∈ ps, policyMatch p conds = some c ∧ p.toleration = tol

theorem findUnhealthy_foldl (conds : List NCond) (all : List Policy) :
    ∀ (ps : List Policy) (acc : Option (NCond × Int)), (∀ p ∈ ps, p ∈ all) → FoundOk all conds acc →
      FoundOk all conds (ps.foldl (fun best p =>
        match policyMatch p conds with
        | none => best
        | some c =>
          match best with
          | none => some (c, p.toleration)
          | some (bc, btol) => if bc.since + btol > c.since + p.toleration then some (c, p.toleration) else best) acc) := by
  intro ps
  induction ps with
  | nil => intro acc _ h; simpa using h
  | cons p ps ih =>
    intro acc hsub hacc
    simp only [List.foldl_cons]
    apply ih
    · intro q hq; exact hsub q (List.mem_cons_of_mem _ hq)
    · have hp : p ∈ all := hsub p (List.mem_cons_self)
      cases hm : policyMatch p conds with
      | none => simpa [hm] using hacc
      | some c =>
        cases acc with
        | none =>
          intro c' tol' h
          simp at h
          exact ⟨p, hp, by rw [hm, h.1], h.2⟩
        | some b =>
          obtain ⟨bc, btol⟩ := b
          simp only
          split
          · intro c' tol' h
            simp at h
            exact ⟨p, hp, by rw [hm, h.1], h.2⟩
          · exact hacc

/-- whatever `findUnhealthyConditions` returns is a condition of the node that matches one of the
    provider's policies, together with that policy's toleration -/
theorem findUnhealthy_sound (ps : List Policy) (conds : List NCond) (c : NCond) (tol : Int)
    (h : findUnhealthy ps conds = some (c, tol)) :
    ∃ p ∈ ps, policyMatch p conds = some c ∧ p.toleration = tol := by
  have := findUnhealthy_foldl conds ps ps none (fun _ h => h) (by intro _ _ h; simp at h)
  exact this c tol h

/-- the model's `policyMatch` and the specification's reading of "the node's condition matches the policy" -/
theorem policyMatch_spec (p : Policy) (conds : List NCond) (c : NCond) (h : policyMatch p conds = some c) :
    conds.find? (fun c => c.type == p.type) = some c ∧ c.status = p.status := by
  unfold policyMatch getCond at h
  split at h
  · rename_i c' hc
    split at h
    · rename_i hs
      simp at h; subst h
      exact ⟨hc, by simpa using hs⟩
    · simp at h
  · simp at h

theorem isUnhealthy_eq (ps : List Policy) (n : RNode) : isUnhealthy ps n = nodeUnhealthy ps n := by
  unfold isUnhealthy nodeUnhealthy
  congr 1
  funext p
  unfold policyMatch getCond
  cases h : List.find? (fun c => c.type == p.type) n.conds with
  | none => simp
  | some c => by_cases hs : c.status = p.status <;> simp [hs]

theorem population_eq (i : RepairIn) : population i = breakerNodes i := by
  unfold population breakerNodes
  cases i.claimPool with
  | none =>
    simp only [List.filter_cons, if_true]
    congr 1
    induction i.others with
    | nil => rfl
    | cons a l ih => simp [← ih]
  | some p => rfl
/-- `u ≤ ⌈pct·n/100⌉` in the model's integer arithmetic and in the specification's division-free form -/
theorem scaled_roundUp_iff (pct u n : Nat) :
    u ≤ scaled pct n true ↔ atMostPercentRoundedUp pct u n = true := by
  unfold scaled atMostPercentRoundedUp
  simp only [if_true, Bool.or_eq_true, beq_iff_eq, decide_eq_true_eq]
  constructor
  · intro h
    by_cases hu : u = 0
    · exact Or.inl hu
    · right
      have : u * 100 ≤ pct * n + 99 := by
        have := Nat.mul_le_mul_right 100 h
        have h2 := Nat.div_mul_le_self (pct * n + 99) 100
        omega
      omega
  · intro h
    rcases h with h | h
    · omega
    · rw [Nat.le_div_iff_mul_le (by decide)]
      omega

/-! ### Garbage collection -/

theorem mem_gcWith (flag : Bool) (i : GCIn) (d : String) (h : d ∈ (gcWith flag i).1) :
    i.listClaimsFault = false ∧ i.providerListFault = false ∧
    ∃ c ∈ i.claims, c.name = d ∧ candidate i c = true ∧ (gcOne flag i c).1 = true := by
  unfold gcWith at h
  split at h
  · simp at h
  · rename_i hf
    simp only [Bool.or_eq_true, not_or, Bool.not_eq_true] at hf
    refine ⟨hf.1, hf.2, ?_⟩
    simp only [List.mem_map, List.mem_filter] at h
    obtain ⟨r, ⟨⟨c, ⟨hc, hcand⟩, hr⟩, hdel⟩, hname⟩ := h
    subst hr
    exact ⟨c, hc, hname, hcand, hdel⟩

theorem candidate_providerLacks (i : GCIn) (c : Claim) (hp : i.providerListFault = false)
    (h : candidate i c = true) : c.registered = .true_ ∧ providerLacks i c = true := by
  unfold candidate at h
  simp only [Bool.and_eq_true, Bool.not_eq_true', beq_iff_eq] at h
  obtain ⟨⟨⟨_, hreg⟩, _⟩, hlive⟩ := h
  refine ⟨hreg, ?_⟩
  unfold providerLacks
  simp only [hp, Bool.not_false, Bool.true_and, List.all_eq_true, Bool.or_eq_true, bne_iff_ne]
  intro p hpm
  by_cases hd : p.deleting = true
  · exact Or.inr hd
  · left
    intro heq
    have : c.pid ∈ livePids i := by
      unfold livePids
      simp only [List.mem_map, List.mem_filter]
      exact ⟨p, ⟨hpm, by simpa using hd⟩, heq⟩
    have hc : (livePids i).contains c.pid = true := by simpa using this
    rw [hc] at hlive
    exact absurd hlive (by decide)

/-- what a successful, unambiguous lookup that lets the Delete through establishes -/
theorem lookup_established (i : GCIn) (c : Claim)
    (h : lookup i c = .notFound ∨ lookup i c = .one false) : nodeAbsentOrNotReady i c = true := by
  unfold nodeAbsentOrNotReady
  unfold lookup at h
  by_cases hp : (c.pid == "") = true
  · simp [hp]
  · simp only [hp, Bool.false_eq_true, if_false] at h
    by_cases hf : i.lookupFault.contains c.pid = true
    · rw [if_pos hf] at h; simp at h
    · simp only [hf, Bool.false_eq_true, if_false] at h
      simp only [hp, hf, Bool.false_or, Bool.not_false, Bool.true_and, List.all_eq_true, Bool.or_eq_true,
        bne_iff_ne, Bool.not_eq_true']
      intro n hn
      by_cases hpid : n.pid = c.pid
      · right
        have hmem : n ∈ nodesOf i c.pid := by
          unfold nodesOf; simp only [List.mem_filter]; exact ⟨hn, by simpa using hpid⟩
        cases hl : nodesOf i c.pid with
        | nil => rw [hl] at hmem; simp at hmem
        | cons a l =>
          rw [hl] at h hmem
          cases l with
          | nil =>
            simp at h
            simp at hmem
            rw [hmem]; exact h
          | cons b l' => simp at h
      · exact Or.inl hpid

theorem lookup_not_duplicate (i : GCIn) (c : Claim) (huniq : ∀ pid, (nodesOf i pid).length ≤ 1) :
    lookup i c ≠ .duplicate := by
  unfold lookup
  split
  · simp
  · split
    · simp
    · have := huniq c.pid
      cases hn : nodesOf i c.pid with
      | nil => simp
      | cons a l =>
        cases l with
        | nil => simp
        | cons b l' => rw [hn] at this; simp at this

/-! ### Liveness: where Deletes come from -/

/-- the launch-timeout half: at most one Delete, only when the launch timeout has passed for a claim that is not
    launched, and it only falls through (untouched) for a launched claim -/
theorem launchPart_spec (i : LiveIn) (l : Tri) (lAt : Int) (s₀ : LState) :
    s₀.dels ≤ (launchPart i l lAt s₀).2.dels ∧ (launchPart i l lAt s₀).2.dels ≤ s₀.dels + 1 ∧
    ((launchPart i l lAt s₀).1 = .continue → (launchPart i l lAt s₀).2 = s₀) ∧
    (s₀.dels < (launchPart i l lAt s₀).2.dels → l ≠ .true_ ∧ launchTimeout ≤ i.now - lAt) := by
  have h1 := timeoutBranch_dels_le i s₀
  unfold launchPart
  by_cases hl : (l != Tri.true_) = true
  · by_cases hto : i.now - lAt < launchTimeout
    · simp [hl, hto]
    · simp only [hl, hto, if_true, if_false]
      rcases hb : timeoutBranch i s₀ with ⟨r, s⟩
      rw [hb] at h1
      simp only at h1
      have hne : l ≠ Tri.true_ := by simpa using hl
      cases r with
      | stop e => exact ⟨h1.1, h1.2, by simp, fun _ => ⟨hne, by omega⟩⟩
      | «continue» => exact ⟨h1.1, h1.2, by simp, fun _ => ⟨hne, by omega⟩⟩
  · simp [hl]

/-- Deletes are only issued by a timeout branch whose timeout has passed -/
theorem liveness_dels (i : LiveIn) (l : Tri) (lAt : Int) (s₀ : LState)
    (h : s₀.dels < (liveness i l lAt s₀).2.dels) :
    i.registered ≠ .true_ ∧
    ((l ≠ .true_ ∧ launchTimeout ≤ i.now - lAt) ∨ registrationTimeout ≤ i.now - i.registeredAt) := by
  have hp := launchPart_spec i l lAt s₀
  unfold liveness at h
  split at h
  · simp at h
  · rename_i hreg
    refine ⟨by simpa using hreg, ?_⟩
    rcases hb : launchPart i l lAt s₀ with ⟨r, s⟩
    rw [hb] at hp h
    simp only at hp h
    cases r with
    | stop e => simp only at h; exact Or.inl (hp.2.2.2 h)
    | «continue» =>
      have hs : s = s₀ := hp.2.2.1 rfl
      subst hs
      simp only at h
      by_cases hr : i.now - i.registeredAt < registrationTimeout
      · simp [hr] at h
      · right; omega

/-- (repaired code) at most ONE Delete per pass: the launch-timeout branch no longer falls through -/
theorem liveness_dels_le (i : LiveIn) (l : Tri) (lAt : Int) (s₀ : LState) :
    (liveness i l lAt s₀).2.dels ≤ s₀.dels + 1 := by
  have hp := launchPart_spec i l lAt s₀
  unfold liveness
  split
  · simp
  · rcases hb : launchPart i l lAt s₀ with ⟨r, s⟩
    rw [hb] at hp
    simp only at hp
    cases r with
    | stop e => simp only; exact hp.2.1
    | «continue» =>
      have hs : s = s₀ := hp.2.2.1 rfl
      subst hs
      simp only
      split
      · simp
      · have h2 := timeoutBranch_dels_le i s
        rcases hb2 : timeoutBranch i s with ⟨r2, s2⟩
        rw [hb2] at h2
        simp only at h2
        cases r2 <;> simp only <;> omega

/-! ### Node repair: the breaker threshold -/

/-- the model's threshold is the rounded-up percentage (uses the regenerated rounding mode) -/
theorem threshold_eq (n : Nat) : threshold n = scaled Karp.Gen.Reapers.allowedUnhealthyPercent n true := rfl

theorem nodesHealthy_iff (i : RepairIn) :
    nodesHealthy i = true ↔
      atMostPercentRoundedUp Karp.Gen.Reapers.allowedUnhealthyPercent
        ((breakerNodes i).filter (nodeUnhealthy i.policies)).length (breakerNodes i).length = true := by
  unfold nodesHealthy unhealthyCount
  rw [threshold_eq, population_eq]
  have : isUnhealthy i.policies = nodeUnhealthy i.policies := funext (isUnhealthy_eq i.policies)
  rw [this]
  simp only [decide_eq_true_eq]
  exact scaled_roundUp_iff _ _ _


/-! ### Terminating Nodes (deletion timestamp set, object still present) -/

/-- the same cluster with the Nodes' deletion timestamps rewritten by `f` -/
def GCIn.withTerminating (i : GCIn) (f : GNode → Bool) : GCIn :=
  { i with nodes := i.nodes.map (fun n => { n with terminating := f n }) }

theorem nodesOf_withTerminating (i : GCIn) (f : GNode → Bool) (pid : String) :
    nodesOf (i.withTerminating f) pid = (nodesOf i pid).map (fun n => { n with terminating := f n }) := by
  unfold nodesOf GCIn.withTerminating
  simp only [List.filter_map]
  rfl

theorem lookup_withTerminating (i : GCIn) (f : GNode → Bool) (c : Claim) :
    lookup (i.withTerminating f) c = lookup i c := by
  unfold lookup
  rw [nodesOf_withTerminating]
  have hlf : (i.withTerminating f).lookupFault = i.lookupFault := rfl
  rw [hlf]
  cases nodesOf i c.pid with
  | nil => rfl
  | cons a l => cases l <;> rfl

theorem gcOne_withTerminating (flag : Bool) (i : GCIn) (f : GNode → Bool) (c : Claim) :
    gcOne flag (i.withTerminating f) c = gcOne flag i c := by
  unfold gcOne
  rw [lookup_withTerminating]
  rfl

theorem gcWith_withTerminating (flag : Bool) (i : GCIn) (f : GNode → Bool) :
    gcWith flag (i.withTerminating f) = gcWith flag i := by
  unfold gcWith
  have h1 : (i.withTerminating f).listClaimsFault = i.listClaimsFault := rfl
  have h2 : (i.withTerminating f).providerListFault = i.providerListFault := rfl
  have h3 : (i.withTerminating f).claims = i.claims := rfl
  have h4 : candidate (i.withTerminating f) = candidate i := rfl
  simp only [h1, h2, h3, h4, gcOne_withTerminating]

theorem gcMayDelete_withTerminating (i : GCIn) (f : GNode → Bool) (c : Claim) :
    gcMayDelete (i.withTerminating f) c = gcMayDelete i c := by
  unfold gcMayDelete nodeAbsentOrNotReady GCIn.withTerminating providerLacks
  simp only [List.all_map]
  rfl

/-- one Node with its deletion timestamp rewritten by `f` -/
def RNode.setTerminating (f : RNode → Bool) (n : RNode) : RNode := { n with terminating := f n }

/-- the same cluster with the Nodes' deletion timestamps rewritten by `f` -/
def RepairIn.withTerminating (i : RepairIn) (f : RNode → Bool) : RepairIn :=
  { i with node := i.node.setTerminating f, others := i.others.map (RNode.setTerminating f) }

theorem population_withTerminating (i : RepairIn) (f : RNode → Bool) :
    population (i.withTerminating f) = (population i).map (RNode.setTerminating f) := by
  unfold population RepairIn.withTerminating
  cases i.claimPool with
  | none => simp
  | some p =>
    simp only [← List.map_cons, List.filter_map]
    rfl

theorem unhealthyCount_withTerminating (i : RepairIn) (f : RNode → Bool) :
    unhealthyCount (i.withTerminating f) = unhealthyCount i := by
  unfold unhealthyCount
  rw [population_withTerminating, List.filter_map, List.length_map]
  rfl

theorem nodesHealthy_withTerminating (i : RepairIn) (f : RNode → Bool) :
    nodesHealthy (i.withTerminating f) = nodesHealthy i := by
  unfold nodesHealthy
  rw [unhealthyCount_withTerminating, population_withTerminating, List.length_map]

theorem repairB_withTerminating (i : RepairIn) (f : RNode → Bool) :
    repairB (i.withTerminating f) = repairB i := by
  unfold repairB
  rw [nodesHealthy_withTerminating]
  rfl

theorem breakerNodes_withTerminating (i : RepairIn) (f : RNode → Bool) :
    breakerNodes (i.withTerminating f) = (breakerNodes i).map (RNode.setTerminating f) := by
  rw [← population_eq, ← population_eq, population_withTerminating]

theorem repairMayDelete_withTerminating (pct : Nat) (i : RepairIn) (f : RNode → Bool) :
    repairMayDelete pct (i.withTerminating f) = repairMayDelete pct i := by
  unfold repairMayDelete breakerClosed
  rw [breakerNodes_withTerminating, List.filter_map, List.length_map, List.length_map]
  rfl

/-! ### Node repair over an evolving cluster -/

/-- every entry of a run is `repairB` on the view of the cluster at that moment -/
theorem runSeq_entries (ps : List Policy) (evs : List REvent) :
    ∀ (st : List SNode) (i : RepairIn) (o : Out) (b : RBranch),
      some (i, o, b) ∈ runSeq ps st evs → o = repair i := by
  induction evs with
  | nil => intro st i o b h; simp [runSeq] at h
  | cons ev rest ih =>
    intro st i o b h
    simp only [runSeq, List.mem_cons] at h
    rcases h with h | h
    · unfold seqStep at h
      cases ev with
      | reconcile k now nlf df =>
        simp only at h
        cases hs : seqIn ps st k now nlf df with
        | none => rw [hs] at h; simp at h
        | some i' =>
          rw [hs] at h
          simp only [Option.some.injEq, Prod.mk.injEq] at h
          obtain ⟨h1, h2, _⟩ := h
          subst h1; subst h2; rfl
      | setCond k c => simp at h
      | terminate k => simp at h
      | gone k => simp at h
    · exact ih _ i o b h

theorem countP_cons_eraseIdx {α : Type} (p : α → Bool) :
    ∀ (l : List α) (k : Nat) (s : α), l[k]? = some s → (s :: l.eraseIdx k).countP p = l.countP p := by
  intro l
  induction l with
  | nil => intro k s h; simp at h
  | cons a l ih =>
    intro k s h
    cases k with
    | zero =>
      simp at h; subst h; simp
    | succ k =>
      simp only [List.getElem?_cons_succ] at h
      have := ih k s h
      simp only [List.eraseIdx_cons_succ, List.countP_cons] at this ⊢
      omega

/-- single pool `p`, every Node present and managed -/
def Uniform (p : String) (st : List SNode) : Prop :=
  ∀ s ∈ st, s.present = true ∧ s.hasClaim = true ∧ s.node.pool = p ∧ s.claimPool = some p

def unh (ps : List Policy) (st : List SNode) : Nat := st.countP (fun s => isUnhealthy ps s.node)
def pending (ps : List Policy) (st : List SNode) : Nat :=
  st.countP (fun s => isUnhealthy ps s.node && !s.claimDeleting)

theorem pending_le_unh (ps : List Policy) (st : List SNode) : pending ps st ≤ unh ps st := by
  unfold pending unh
  apply List.countP_mono_left
  intro s _ h
  simp only [Bool.and_eq_true] at h
  exact h.1

theorem filter_eq_self_of_all {α : Type} (p : α → Bool) (l : List α) (h : ∀ x ∈ l, p x = true) : l.filter p = l :=
  List.filter_eq_self.mpr h

theorem population_all (i : RepairIn) (p : String) (hcp : i.claimPool = some p)
    (hall : ∀ n ∈ i.node :: i.others, n.pool = p) : population i = i.node :: i.others := by
  unfold population
  rw [hcp]
  apply List.filter_eq_self.mpr
  intro n hn
  simpa using hall n hn

/-- in a uniform cluster a reconcile of Node `k` counts the whole cluster -/
theorem seqIn_uniform (ps : List Policy) (p : String) (st : List SNode) (hu : Uniform p st)
    (k : Nat) (now : Int) (nlf df : Fault) (i : RepairIn) (h : seqIn ps st k now nlf df = some i) :
    ∃ s, st[k]? = some s ∧ i.node = s.node ∧ i.claimDeleting = s.claimDeleting ∧ i.policies = ps ∧
      i.deleteFault = df ∧ unhealthyCount i = unh ps st ∧ (population i).length = st.length := by
  unfold seqIn at h
  cases hk : st[k]? with
  | none => rw [hk] at h; simp at h
  | some s =>
    rw [hk] at h
    have hmem : s ∈ st := List.mem_of_getElem? hk
    obtain ⟨hp, hc, hpool, hcp⟩ := hu s hmem
    simp only [hp, Bool.not_true, Bool.false_eq_true, if_false, Option.some.injEq] at h
    have hnode : i.node = s.node := by subst h; rfl
    have hcd : i.claimDeleting = s.claimDeleting := by subst h; rfl
    have hpol : i.policies = ps := by subst h; rfl
    have hdf : i.deleteFault = df := by subst h; rfl
    have hicp : i.claimPool = some p := by subst h; exact hcp
    have hpres : (st.eraseIdx k).filter (·.present) = st.eraseIdx k :=
      List.filter_eq_self.mpr (fun x hx => (hu x (List.mem_of_mem_eraseIdx hx)).1)
    have hothers : i.others = (st.eraseIdx k).map (·.node) := by subst h; simp only [hpres]
    have hpop : population i = (s :: st.eraseIdx k).map (·.node) := by
      rw [population_all i p hicp, hnode, hothers, List.map_cons]
      intro n hn
      rw [hnode, hothers, ← List.map_cons (f := fun x : SNode => x.node)] at hn
      simp only [List.mem_map] at hn
      obtain ⟨x, hx, rfl⟩ := hn
      have hx' : x ∈ st := by
        rcases List.mem_cons.mp hx with h | h
        · rw [h]; exact hmem
        · exact List.mem_of_mem_eraseIdx h
      exact (hu x hx').2.2.1
    refine ⟨s, rfl, hnode, hcd, hpol, hdf, ?_, ?_⟩
    · unfold unhealthyCount
      rw [hpop, hpol, ← List.countP_eq_length_filter, List.countP_map]
      exact countP_cons_eraseIdx _ st k s hk
    · rw [hpop, List.length_map, List.length_cons, List.length_eraseIdx]
      have hlt : k < st.length := by
        rcases List.getElem?_eq_some_iff.mp hk with ⟨h, _⟩; exact h
      simp [hlt]; omega

/-- what a reconcile that issues a Delete has established -/
theorem repair_delete_facts (i : RepairIn) (h : 0 < (repair i).deletes) :
    isUnhealthy i.policies i.node = true ∧ i.claimDeleting = false ∧ nodesHealthy i = true ∧
      (repair i).deletes = 1 := by
  unfold repair repairB at h ⊢
  by_cases h1 : i.claimListFault = true
  · simp [h1] at h
  · simp only [h1, Bool.false_eq_true, if_false] at h ⊢
    by_cases h2 : (i.claims != 1) = true
    · simp [h2] at h
    · simp only [h2, Bool.false_eq_true, if_false] at h ⊢
      cases hf : findUnhealthy i.policies i.node.conds with
      | none => simp [hf] at h
      | some r =>
        obtain ⟨c, tol⟩ := r
        simp only [hf] at h ⊢
        obtain ⟨p, hp, hmatch, _⟩ := findUnhealthy_sound _ _ _ _ hf
        have hun : isUnhealthy i.policies i.node = true := by
          unfold isUnhealthy
          simp only [List.any_eq_true]
          exact ⟨p, hp, by rw [hmatch]; rfl⟩
        by_cases h3 : i.now < c.since + tol
        · simp [h3] at h
        · simp only [h3, if_false] at h ⊢
          cases hn : i.nodeListFault with
          | notFound => simp [hn] at h
          | err => simp [hn] at h
          | conflict => simp [hn] at h
          | none =>
            simp only [hn] at h ⊢
            by_cases h4 : nodesHealthy i = true
            · simp only [h4, Bool.not_true, Bool.false_eq_true, if_false] at h ⊢
              by_cases h5 : (patchNeeded i && i.patchFault != .none) = true
              · simp [h5] at h
              · simp only [h5, Bool.false_eq_true, if_false] at h ⊢
                by_cases h6 : i.claimDeleting = true
                · simp [h6] at h
                · simp only [h6, Bool.false_eq_true, if_false]
                  exact ⟨hun, trivial, trivial, trivial⟩
            · simp [h4] at h

theorem updateAt_eq (st : List SNode) (k : Nat) (f : SNode → SNode) (s : SNode) (h : st[k]? = some s) :
    updateAt st k f = st.set k (f s) := by
  unfold updateAt; rw [h]

theorem uniform_set (p : String) (st : List SNode) (hu : Uniform p st) (k : Nat) (s s' : SNode)
    (hk : st[k]? = some s) (h1 : s'.present = s.present) (h2 : s'.hasClaim = s.hasClaim)
    (h3 : s'.node.pool = s.node.pool) (h4 : s'.claimPool = s.claimPool) : Uniform p (st.set k s') := by
  intro x hx
  rcases List.mem_or_eq_of_mem_set hx with hx | hx
  · exact hu x hx
  · have := hu s (List.mem_of_getElem? hk)
    subst hx
    rw [h1, h2, h3, h4]; exact this

theorem countP_set_same {α : Type} (q : α → Bool) (l : List α) (k : Nat) (s s' : α) (hk : l[k]? = some s)
    (h : q s' = q s) : (l.set k s').countP q = l.countP q := by
  obtain ⟨hlt, hget⟩ := List.getElem?_eq_some_iff.mp hk
  rw [List.countP_set hlt, hget, h]
  have : (if q s = true then 1 else 0) ≤ l.countP q := by
    have := List.boole_getElem_le_countP (p := q) hlt
    rw [hget] at this; exact this
  omega

theorem countP_set_drop {α : Type} (q : α → Bool) (l : List α) (k : Nat) (s s' : α) (hk : l[k]? = some s)
    (hs : q s = true) (hs' : q s' = false) : (l.set k s').countP q + 1 = l.countP q := by
  obtain ⟨hlt, hget⟩ := List.getElem?_eq_some_iff.mp hk
  rw [List.countP_set hlt, hget, hs, hs']
  have : (if q s = true then 1 else 0) ≤ l.countP q := by
    have := List.boole_getElem_le_countP (p := q) hlt
    rw [hget] at this; exact this
  simp only [hs, if_true] at this
  simp
  omega

/-- the events of a quiet stretch: reconciles whose Delete the API server accepts, and Nodes starting to
    terminate; no condition changes, nothing disappears -/
def Quiet : REvent → Prop
  | .reconcile _ _ _ df => df = .none
  | .terminate _ => True
  | _ => False

theorem runSeq_quiet (ps : List Policy) (p : String) (evs : List REvent) :
    ∀ (st : List SNode), Uniform p st → (∀ ev ∈ evs, Quiet ev) →
      totalDeletes (runSeq ps st evs) ≤ pending ps st ∧
      (0 < totalDeletes (runSeq ps st evs) → unh ps st ≤ threshold st.length) := by
  induction evs with
  | nil => intro st _ _; simp [runSeq, totalDeletes]
  | cons ev rest ih =>
    intro st hu hq
    have hqr : ∀ e ∈ rest, Quiet e := fun e he => hq e (List.mem_cons_of_mem _ he)
    have hqe : Quiet ev := hq ev List.mem_cons_self
    cases ev with
    | setCond k c => exact absurd hqe (by simp [Quiet])
    | gone k => exact absurd hqe (by simp [Quiet])
    | terminate k =>
      simp only [runSeq, seqStep, applyEvent, totalDeletes, List.map_cons, List.sum_cons, Nat.zero_add]
      cases hk : st[k]? with
      | none =>
        have : updateAt st k (fun s => { s with node := { s.node with terminating := true } }) = st := by
          unfold updateAt; rw [hk]
        rw [this]; exact ih st hu hqr
      | some s =>
        rw [updateAt_eq st k _ s hk]
        have hu' := uniform_set p st hu k s { s with node := { s.node with terminating := true } } hk rfl rfl rfl rfl
        have := ih _ hu' hqr
        have hp : pending ps (st.set k { s with node := { s.node with terminating := true } }) = pending ps st :=
          countP_set_same _ st k s _ hk rfl
        have hun : unh ps (st.set k { s with node := { s.node with terminating := true } }) = unh ps st :=
          countP_set_same _ st k s _ hk rfl
        rw [hp, hun, List.length_set] at this
        exact this
    | reconcile k now nlf df =>
      have hdf : df = .none := hqe
      subst hdf
      simp only [runSeq, seqStep]
      cases hs : seqIn ps st k now nlf .none with
      | none =>
        simp only [stepDeleted, applyEvent, Bool.false_eq_true, if_false, totalDeletes, List.map_cons, List.sum_cons, Nat.zero_add]
        exact ih st hu hqr
      | some i =>
        obtain ⟨s, hk, hnode, hcd, hpol, _, hcnt, hlen⟩ := seqIn_uniform ps p st hu k now nlf .none i hs
        simp only [totalDeletes, List.map_cons, List.sum_cons]
        by_cases hd : 0 < (repair i).deletes
        · obtain ⟨hun, hndel, hhealthy, hone⟩ := repair_delete_facts i hd
          have hone' : (repairB i).1.deletes = 1 := hone
          have hdel : stepDeleted (.reconcile k now nlf .none) (some (i, (repairB i).1, (repairB i).2)) = true := by
            simp [stepDeleted, hone']
          rw [hdel]
          simp only [applyEvent, if_true]
          rw [updateAt_eq st k _ s hk]
          have hu' := uniform_set p st hu k s { s with claimDeleting := true } hk rfl rfl rfl rfl
          have := ih _ hu' hqr
          have hp : pending ps (st.set k { s with claimDeleting := true }) + 1 = pending ps st := by
            apply countP_set_drop _ st k s _ hk
            · rw [← hnode, ← hcd, ← hpol, hun, hndel]; rfl
            · simp
          have hunh : unh ps (st.set k { s with claimDeleting := true }) = unh ps st :=
            countP_set_same _ st k s _ hk rfl
          rw [hunh, List.length_set] at this
          have hthr : unh ps st ≤ threshold st.length := by
            unfold nodesHealthy at hhealthy
            rw [hcnt, hlen] at hhealthy
            simpa using hhealthy
          refine ⟨?_, fun _ => hthr⟩
          have h1 := this.1
          unfold totalDeletes at h1
          omega
        · have hz : (repairB i).1.deletes = 0 := by
            have : (repair i).deletes = 0 := by omega
            exact this
          have hdel : stepDeleted (.reconcile k now nlf .none) (some (i, (repairB i).1, (repairB i).2)) = false := by
            simp [stepDeleted, hz]
          rw [hdel]
          simp only [applyEvent, Bool.false_eq_true, if_false, hz, Nat.zero_add]
          exact ih st hu hqr

/-! ### node repair: the Node → NodeClaim resolution -/

/-- what `repairTWith true` (the lookup with its early return for a Node without provider id) deleted: the one
    NodeClaim carrying the Node's (non-empty) provider id, and `repairB` on it issued the Delete -/
theorem repairTWith_deleted (i : RepairTIn) (d : String) (h : d ∈ (repairTWith true i).deleted) :
    ∃ c, c ∈ i.claims ∧ c.name = d ∧ i.nodePid ≠ "" ∧ c.pid = i.nodePid ∧ nodeClaimsForWith true i = [c] ∧
      0 < (repair (i.view c)).deletes := by
  unfold repairTWith at h
  split at h
  · simp at h
  · split at h
    · rename_i c hc
      simp only at h
      split at h
      · rename_i hpos
        simp only [List.mem_singleton] at h
        have hmem : c ∈ nodeClaimsForWith true i := by rw [hc]; simp
        unfold nodeClaimsForWith at hmem
        by_cases hp : (i.nodePid == "") = true
        · simp [hp] at hmem
        · simp only [hp, Bool.and_false, Bool.false_eq_true, if_false, List.mem_filter, beq_iff_eq] at hmem
          refine ⟨c, hmem.1, h.symm, ?_, hmem.2, hc, hpos⟩
          simpa using hp
      · simp at h
    · simp at h

/-- the code's lookup is the guarded one, as long as the regenerated control-flow fact says so -/
theorem repairT_eq_guarded (hfact : Karp.Gen.Reapers.nodeClaimLookupSkipsEmptyProviderID = true) (i : RepairTIn) :
    repairT i = repairTWith true i := by
  unfold repairT; rw [hfact]

end Karp.Reapers
