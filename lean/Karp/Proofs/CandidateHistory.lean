/-
Helper lemmas for C07 over histories: the cluster-state entry (`hstep`, in-memory windows and flags) refines the
specification's log (`specStep`), for every event sequence.  Core Lean only.
-/
import Karp.Proofs.CandidateLemmas
import Karp.Spec.ProtectedHistory

namespace Karp.CandidateHistory
open Karp.Candidate Karp.Spec.Protected Karp.Spec.ProtectedHistory Karp.CandidateLemmas

theorem selectedOn_env {w w' : World} (s : StateNode) (m : Method)
    (h1 : w.now = w'.now) (h2 : w.inQueue = w'.inQueue) (h3 : w.pods = w'.pods) (h4 : w.pdbs = w'.pdbs)
    (h5 : w.pool = w'.pool) (h6 : w.buffer = w'.buffer) : selectedOn w s m = selectedOn w' s m := by
  unfold selectedOn newCandidateOn poolResolves
  cases w; cases w'; simp only at h1 h2 h3 h4 h5 h6; subst h1 h2 h3 h4 h5 h6; cases m <;> rfl

theorem latest_ge : ∀ (l : List Int) (t : Int), t ∈ l → ∃ u, latest l = some u ∧ t ≤ u := by
  intro l
  induction l with
  | nil => intro t h; cases h
  | cons a l ih =>
    intro t h
    unfold latest
    cases hl : latest l with
    | none =>
      simp only
      rcases List.mem_cons.mp h with rfl | h'
      · exact ⟨t, rfl, Int.le_refl _⟩
      · obtain ⟨u, hu, _⟩ := ih t h'
        rw [hl] at hu; cases hu
    | some u =>
      simp only
      rcases List.mem_cons.mp h with rfl | h'
      · exact ⟨max t u, rfl, Int.le_max_left _ _⟩
      · obtain ⟨u', hu', hle⟩ := ih t h'
        rw [hl] at hu'; cases hu'
        exact ⟨max a u, rfl, Int.le_trans hle (Int.le_max_right _ _)⟩

theorem latest_append (l : List Int) (n : Int) (h : ∀ t ∈ l, t ≤ n) : latest (l ++ [n]) = some n := by
  induction l with
  | nil => rfl
  | cons a l ih =>
    have hl : latest (l ++ [n]) = some n := ih (fun t ht => h t (List.mem_cons_of_mem _ ht))
    show latest (a :: (l ++ [n])) = some n
    unfold latest
    rw [hl]
    simp only
    have : a ≤ n := h a (List.mem_cons_self)
    rw [Int.max_eq_right this]

theorem accepted_eq (n : Node) : accepted n = nodeTracked n := by
  unfold accepted nodeTracked
  cases n.md.pool <;> cases n.md.it <;> cases n.init <;> rfl

theorem floor_eq (t : Int) : wholeSeconds t = floorSec t := rfl

theorem getLast_append {α} (l : List α) (a : α) : (l ++ [a]).getLast? = some a := by simp

theorem consolidatableAfter_eq (pool : Pool) (c : Claim) (now : Int) (hs : pool.static = false) :
    consolidatableAfter pool c now = (if mayBeConsolidatable pool c now then Cond.true_ else Cond.absent) := by
  unfold consolidatableAfter mayBeConsolidatable underConsolidateAfter elapsedSince
  rw [hs]
  cases hca : pool.consolidateAfter with
  | none => simp
  | some ca =>
    cases hi : c.initialized <;> simp [Cond.isTrue]
    by_cases h0 : ca = 0
    · subst h0; cases c.lastPodEvent <;> simp
    · cases hl : c.lastPodEvent with
      | none =>
        simp only [Option.getD_none]
        by_cases h1 : now - c.initAt < ca
        · have : ¬ c.initAt + ca ≤ now := by omega
          simp [h0, h1, this]
        · have : c.initAt + ca ≤ now := by omega
          simp [h0, h1, this]
      | some t =>
        simp only [Option.getD_some]
        by_cases h1 : now - t < ca
        · have : ¬ t + ca ≤ now := by omega
          simp [h0, h1, this]
        · have : t + ca ≤ now := by omega
          simp [h0, h1, this]

theorem afterController_eq (f : RFaults) (pool : Pool) (c : Claim) (now : Int) :
    afterController f pool c now = reconcileClaimF f pool c now := by
  unfold afterController reconcileClaimF controllerActs
  cases hd : c.deleting
  · cases hp : c.md.pool <;> cases hpr : pool.present <;> cases hs : pool.static <;>
      cases hg : f.poolGet <;> cases hpa : f.patch <;> simp
    rw [consolidatableAfter_eq pool c now hs]
  · simp


/-- the cluster-state entry that a log stands for -/
def absState (b : Int) (l : Log) : HState :=
  { now := l.now,
    sn := if l.tracked then
            some { claim := l.claim, node := l.node, marked := l.marked,
                   nominatedUntil := (latest l.noms).map (fun t => t + nominationWindow b) }
          else none }

/-- invariants of a log -/
structure LogInv (l : Log) : Prop where
  past : ∀ t ∈ l.noms, t ≤ l.now
  clean : l.tracked = false → l.marks = [] ∧ l.noms = []
  visible : ∀ n, l.node = some n → nodeTracked n = true

theorem loginv_init (t : Int) : LogInv { now := t } :=
  ⟨(by intro t h; cases h), (fun _ => ⟨rfl, rfl⟩), (by intro n h; cases h)⟩

theorem abs_init (b t : Int) : absState b { now := t } = { now := t, sn := none } := rfl

theorem getLast_snoc {α} (l : List α) (a : α) : (l ++ [a]).getLast? = some a := by simp

theorem untracked_clean {l : Log} (hclean : l.tracked = false → l.marks = [] ∧ l.noms = [])
    (hc : l.claim = none) (hn : l.node = none) : l.marks = [] ∧ l.noms = [] :=
  hclean (by simp [Log.tracked, hc, hn])

theorem step_abs_eq (b : Int) (pool : Pool) (l : Log) (e : Ev) (h : LogInv l) :
    hstep b pool (absState b l) e = absState b (specStep pool l e) := by
  obtain ⟨hpast, hclean, hvis⟩ := h
  have hl := latest_append l.noms l.now hpast
  cases hc : l.claim <;> cases hn : l.node <;>
    (try have hcl := untracked_clean hclean hc hn) <;>
    cases e <;>
    (try rename_i x; cases x) <;>
    (try rename_i n; cases hnt : nodeTracked n) <;>
    simp_all [hstep, specStep, absState, deliverClaim, Log.tracked, Log.marked, Log.forget, StateNode.fresh,
      accepted_eq, afterController_eq, floor_eq, latest]

theorem step_inv (pool : Pool) (l : Log) (e : Ev) (h : LogInv l) : LogInv (specStep pool l e) := by
  obtain ⟨hpast, hclean, hvis⟩ := h
  cases e with
  | tick d =>
    exact ⟨(by intro t ht; have := hpast t ht; simp only [specStep]; omega), hclean, hvis⟩
  | claim oc =>
    cases oc with
    | some c =>
      refine ⟨hpast, ?_, hvis⟩
      intro h; simp [specStep, Log.tracked] at h
    | none =>
      simp only [specStep]
      split
      · exact ⟨hpast, hclean, hvis⟩
      · split
        · exact loginv_init _
        · rename_i h1 h2
          refine ⟨hpast, ?_, hvis⟩
          intro h; cases hn : l.node <;> simp_all [Log.tracked]
  | node on =>
    cases on with
    | some n =>
      simp only [specStep, accepted_eq]
      split
      · rename_i hnt
        refine ⟨hpast, ?_, ?_⟩
        · intro h; simp [Log.tracked] at h
        · intro n' hn'; simp only [Option.some.injEq] at hn'; subst hn'; exact hnt
      · exact ⟨hpast, hclean, hvis⟩
    | none =>
      simp only [specStep]
      split
      · exact ⟨hpast, hclean, hvis⟩
      · split
        · exact loginv_init _
        · rename_i h1 h2
          refine ⟨hpast, ?_, ?_⟩
          · intro h; cases hc : l.claim <;> simp_all [Log.tracked]
          · intro n' hn'; cases hn'
  | mark =>
    simp only [specStep]
    split
    · rename_i ht
      refine ⟨hpast, ?_, hvis⟩
      intro h; simp [Log.tracked] at h ht; simp_all
    · exact ⟨hpast, hclean, hvis⟩
  | unmark =>
    simp only [specStep]
    split
    · rename_i ht
      refine ⟨hpast, ?_, hvis⟩
      intro h; simp [Log.tracked] at h ht; simp_all
    · exact ⟨hpast, hclean, hvis⟩
  | nominate =>
    simp only [specStep]
    split
    · rename_i ht
      refine ⟨?_, ?_, hvis⟩
      · intro t h
        rcases List.mem_append.mp h with h | h
        · exact hpast t h
        · simp at h; subst h; exact Int.le_refl _
      · intro h; simp [Log.tracked] at h ht; simp_all
    · exact ⟨hpast, hclean, hvis⟩
  | podEvent =>
    refine ⟨hpast, ?_, hvis⟩
    intro h
    apply hclean
    cases hc : l.claim <;> simp_all [specStep, Log.tracked]
  | reconcile f =>
    refine ⟨hpast, ?_, hvis⟩
    intro h
    apply hclean
    cases hc : l.claim <;> simp_all [specStep, Log.tracked]

theorem run_abs (b : Int) (pool : Pool) (es : List Ev) : ∀ (l : Log), LogInv l →
    hrun b pool (absState b l) es = absState b (specRun pool l es) ∧ LogInv (specRun pool l es) := by
  induction es with
  | nil => intro l h; exact ⟨rfl, h⟩
  | cons e es ih =>
    intro l h
    simp only [hrun, specRun]
    rw [step_abs_eq b pool l e h]
    exact ih _ (step_inv pool l e h)

theorem filter_visible {l : Log} (hvis : ∀ n, l.node = some n → nodeTracked n = true) :
    l.node.filter nodeTracked = l.node := by
  cases hn : l.node with
  | none => rfl
  | some n => simp [Option.filter, hvis n hn]

theorem stateNode_world (env : World) (l : Log) (h : LogInv l) (ht : l.tracked = true) :
    stateNode (l.world env) =
      some { claim := l.claim, node := l.node, marked := l.marked,
             nominatedUntil := (latest l.noms).map (fun t => t + nominationWindow env.batchMax) } := by
  unfold stateNode Log.world
  simp only [filter_visible h.visible]
  unfold Log.tracked at ht
  cases hc : l.claim <;> cases hn : l.node <;> simp_all

theorem not_recent_of_latest {l : Log} {w : Int}
    (h : (match latest l.noms with | some t => decide (l.now < t + w) | none => false) = false) :
    l.recentlyNominated w = false := by
  unfold Log.recentlyNominated
  rw [Bool.eq_false_iff]
  intro hany
  rw [List.any_eq_true] at hany
  obtain ⟨t, ht, hlt⟩ := hany
  obtain ⟨u, hu, hle⟩ := latest_ge l.noms t ht
  rw [hu] at h
  simp only [decide_eq_true_eq, decide_eq_false_iff_not] at hlt h
  omega

theorem history_allowed (env : World) (es : List Ev) (t0 : Int) (m : Method)
    (hwf : wellFormed ((specRun env.pool { now := t0 } es).world env) = true)
    (h : hselected env (hrun env.batchMax env.pool { now := t0, sn := none } es) m = true) :
    allowedAfter env (specRun env.pool { now := t0 } es) m = true := by
  obtain ⟨hrun_eq, hinv⟩ := run_abs env.batchMax env.pool es { now := t0 } (loginv_init t0)
  rw [abs_init] at hrun_eq
  rw [hrun_eq] at h
  generalize specRun env.pool { now := t0 } es = l at *
  unfold hselected absState at h
  cases ht : l.tracked with
  | false => simp [ht] at h
  | true =>
    simp only [ht, if_true] at h
    have hsel : selected (l.world env) m = true := by
      unfold selected
      rw [stateNode_world env l hinv ht]
      simp only
      rw [← h]
      exact selectedOn_env _ m rfl rfl rfl rfl rfl rfl
    have hall := selected_allowed hwf hsel
    unfold allowedAfter
    rw [ht, hall]
    simp only [Bool.true_and, Bool.not_eq_true']
    -- "some nomination is younger than the window" is excluded as well
    unfold allowed at hall
    simp only [Bool.and_eq_true, Bool.not_eq_true'] at hall
    have hnl := hall.1.1
    unfold nodeLevelBlocker at hnl
    simp only [Bool.or_eq_false_iff] at hnl
    have hrn := hnl.1.2
    unfold recentlyNominated at hrn
    apply not_recent_of_latest
    exact hrn

theorem allowed_unfold {w : World} {m : Method} (h : allowed w m = true) :
    nodeLevelBlocker w = false ∧ (podLevelBlocker w = false ∨ mayOverride w m = true) ∧
    (isConsolidation m = true → consolidationOk w m = true) := by
  unfold allowed at h
  simp only [Bool.and_eq_true, Bool.not_eq_true', Bool.or_eq_true] at h
  obtain ⟨⟨h1, h2⟩, h3⟩ := h
  refine ⟨h1, h2, ?_⟩
  intro hc
  rcases h3 with h3 | h3
  · rw [hc] at h3; cases h3
  · exact h3

theorem quiet_keeps_claim (pool : Pool) (l : Log) (e : Ev) (c : Claim) (hq : quiet e = true)
    (hc : l.claim = some c) : (specStep pool l e).claim = some c := by
  cases e with
  | tick d => exact hc
  | mark => simp only [specStep]; split <;> exact hc
  | unmark => simp only [specStep]; split <;> exact hc
  | nominate => simp only [specStep]; split <;> exact hc
  | node on =>
    cases on with
    | some n => simp only [specStep]; split <;> exact hc
    | none =>
      simp only [specStep]
      split
      · exact hc
      · split
        · rename_i h; simp [hc] at h
        · exact hc
  | claim _ => cases hq
  | podEvent => cases hq
  | reconcile f => cases hq

theorem quiet_run_keeps_claim (pool : Pool) (es : List Ev) : ∀ (l : Log) (c : Claim),
    (∀ e ∈ es, quiet e = true) → l.claim = some c → (specRun pool l es).claim = some c := by
  induction es with
  | nil => intro l c _ h; exact h
  | cons e es ih =>
    intro l c hq hc
    simp only [specRun]
    exact ih _ c (fun e' he' => hq e' (List.mem_cons_of_mem _ he'))
      (quiet_keeps_claim pool l e c (hq e List.mem_cons_self) hc)

theorem specRun_append (pool : Pool) (es₁ es₂ : List Ev) : ∀ (l : Log),
    specRun pool l (es₁ ++ es₂) = specRun pool (specRun pool l es₁) es₂ := by
  induction es₁ with
  | nil => intro l; rfl
  | cons e es ih => intro l; simp only [List.cons_append, specRun]; exact ih _

/-! ## Commands (c07.commands): the queue and Results.Record as writers of the entry -/

theorem hrun_append (b : Int) (pool : Pool) (es₁ es₂ : List Ev) : ∀ (st : HState),
    hrun b pool st (es₁ ++ es₂) = hrun b pool (hrun b pool st es₁) es₂ := by
  induction es₁ with
  | nil => intro st; rfl
  | cons e es ih => intro st; simp only [List.cons_append, hrun]; exact ih _

/-- every command-level event is exactly the writes `lower` lists -/
theorem qstep_h (env : World) (st : QState) (e : QEv) :
    (qstep env st e).h = hrun env.batchMax env.pool st.h (lower env st e) := by
  unfold qstep
  cases e with
  | base b => cases b <;> rfl
  | record r v n => rfl
  | start m => rfl
  | queue f => cases st.inQueue <;> cases f <;> rfl
  | sync => rfl

theorem qrun_h (env : World) (es : List QEv) : ∀ (st : QState),
    (qrun env st es).h = hrun env.batchMax env.pool st.h (lowerRun env st es) := by
  induction es with
  | nil => intro st; rfl
  | cons e es ih =>
    intro st
    simp only [qrun, lowerRun]
    rw [ih, hrun_append, qstep_h]

/-- a node in the queue is no candidate -/
theorem queued_not_selected (env : World) (st : QState) (m : Method) (hq : st.inQueue = true) :
    qselected env st m = false := by
  unfold qselected hselected
  cases st.h.sn with
  | none => rfl
  | some s => simp [selectedOn, newCandidateOn, envAt, qenv, hq]

/-- without the queue's veto `GetCandidates` is the plain filter -/
theorem qselected_hselected (env : World) (st : QState) (m : Method) (henv : env.inQueue = false)
    (h : qselected env st m = true) : hselected env st.h m = true := by
  cases hq : st.inQueue with
  | true => rw [queued_not_selected env st m hq] at h; cases h
  | false =>
    unfold qselected at h
    have : qenv env st = env := by
      unfold qenv; cases env; simp_all
    rw [this] at h; exact h

def hmarked (st : HState) : Bool :=
  match st.sn with
  | some s => s.marked
  | none => false

/-- events that never release a mark: everything but the unmark and the removal of the objects -/
def keepsMark : Ev → Bool
  | .unmark | .claim none | .node none => false
  | _ => true

theorem hstep_keeps_mark (b : Int) (pool : Pool) (st : HState) (e : Ev) (hk : keepsMark e = true)
    (hm : hmarked st = true) : hmarked (hstep b pool st e) = true := by
  unfold hmarked at hm ⊢
  cases hs : st.sn with
  | none => simp [hs] at hm
  | some s =>
    simp only [hs] at hm
    cases e with
    | tick d => simp [hstep, hs, hm]
    | claim oc =>
      cases oc with
      | some c => simp [hstep, hs, deliverClaim, hm]
      | none => cases hk
    | node on =>
      cases on with
      | some n => cases hnt : nodeTracked n <;> simp [hstep, hnt, hs, hm]
      | none => cases hk
    | mark => simp [hstep, hs]
    | unmark => cases hk
    | nominate => simp [hstep, hs, hm]
    | podEvent =>
      simp only [hstep, hs]
      cases s.claim <;> simp [deliverClaim, hs, hm]
    | reconcile f =>
      simp only [hstep, hs]
      cases s.claim <;> simp [deliverClaim, hs, hm]

theorem hrun_keeps_mark (b : Int) (pool : Pool) (es : List Ev) : ∀ (st : HState),
    (∀ e ∈ es, keepsMark e = true) → hmarked st = true → hmarked (hrun b pool st es) = true := by
  induction es with
  | nil => intro st _ h; exact h
  | cons e es ih =>
    intro st hk hm
    simp only [hrun]
    exact ih _ (fun e' he' => hk e' (List.mem_cons_of_mem _ he'))
      (hstep_keeps_mark b pool st e (hk e List.mem_cons_self) hm)

theorem marked_not_selected (env : World) (st : HState) (m : Method) (hm : hmarked st = true) :
    hselected env st m = false := by
  unfold hmarked at hm
  unfold hselected
  cases hs : st.sn with
  | none => rfl
  | some s =>
    simp only [hs] at hm
    simp [selectedOn, newCandidateOn, StateNode.validateNode, StateNode.markedForDeletion, hm]

/-- command-level events that never release a mark -/
def qkeepsMark : QEv → Bool
  | .base e => keepsMark e
  | .queue .replacementLost => false
  | _ => true

theorem syncEvs_keep (st : QState) : ∀ e ∈ syncEvs st, keepsMark e = true := by
  intro e he
  unfold syncEvs at he
  cases h : apiClaim st <;> simp [h] at he
  subst he; rfl

theorem lower_keeps (env : World) (st : QState) (e : QEv) (hk : qkeepsMark e = true) :
    ∀ b ∈ lower env st e, keepsMark b = true := by
  intro b hb
  cases e with
  | base x =>
    cases x <;> simp only [lower] at hb
    all_goals (try (simp only [List.mem_singleton] at hb; subst hb; exact hk))
    all_goals
      rcases List.mem_append.mp hb with h | h
      · split at h
        · exact syncEvs_keep st b h
        · cases h
      · simp only [List.mem_singleton] at h; subst h; rfl
  | record r v n => simp only [lower] at hb; split at hb <;> simp at hb; subst hb; rfl
  | start m => simp only [lower] at hb; split at hb <;> simp at hb; subst hb; rfl
  | queue f =>
    simp only [lower] at hb
    split at hb
    · rename_i h; cases f <;> simp_all [qkeepsMark]
    · cases hb
  | sync => exact syncEvs_keep st b hb

theorem qstep_keeps_mark (env : World) (st : QState) (e : QEv) (hk : qkeepsMark e = true)
    (hm : hmarked st.h = true) : hmarked (qstep env st e).h = true := by
  rw [qstep_h]
  exact hrun_keeps_mark _ _ _ _ (lower_keeps env st e hk) hm

theorem qrun_keeps_mark (env : World) (es : List QEv) : ∀ (st : QState),
    (∀ e ∈ es, qkeepsMark e = true) → hmarked st.h = true → hmarked (qrun env st es).h = true := by
  induction es with
  | nil => intro st _ h; exact h
  | cons e es ih =>
    intro st hk hm
    simp only [qrun]
    exact ih _ (fun e' he' => hk e' (List.mem_cons_of_mem _ he'))
      (qstep_keeps_mark env st e (hk e List.mem_cons_self) hm)

theorem qmarked_not_selected (env : World) (st : QState) (m : Method) (hm : hmarked st.h = true) :
    qselected env st m = false := marked_not_selected _ _ _ hm

end Karp.CandidateHistory
