/-
Lemmas about the model of `NodePool.Hash()` (`Karp/Model/Hash.lean`): what each struct visit unfolds to for the field
table regenerated from the Go source, permutation invariance of the set / map hashes, and the "no masking" lemmas
behind the partial sensitivity theorem.
-/
import Karp.Model.Hash

namespace Karp.Hash

variable {U : Type}

/-! ### What the walk unfolds to with the regenerated field table

Each of these is `rfl`: evaluating the fold over `Karp.Gen.C15Hash.structs`.  They stop compiling when a hashed struct
gains, loses, renames or re-tags a field — which is the point. -/

theorem structHash_template (P : Prims U) (m s : Option U) :
    structHash P tTemplate [("ObjectMeta", m), ("Spec", s)] =
      inc P "Spec" s (inc P "ObjectMeta" m (P.bytes (utf8 "NodeClaimTemplate"))) := rfl

theorem structHash_meta (P : Prims U) (l a : Option U) :
    structHash P tMeta [("Labels", l), ("Annotations", a)] =
      inc P "Annotations" a (inc P "Labels" l (P.bytes (utf8 "ObjectMeta"))) := rfl

/-- `Requirements` (tagged `hash:"ignore"`) does not occur on the right-hand side -/
theorem structHash_spec (P : Prims U) (a b c d e f : Option U) :
    structHash P tSpec [("Taints", a), ("StartupTaints", b), ("Requirements", c), ("NodeClassRef", d),
      ("TerminationGracePeriod", e), ("ExpireAfter", f)] =
    inc P "ExpireAfter" f (inc P "TerminationGracePeriod" e (inc P "NodeClassRef" d (inc P "StartupTaints" b
      (inc P "Taints" a (P.bytes (utf8 "NodeClaimTemplateSpec")))))) := rfl

/-- `Raw` (tagged `hash:"ignore"`) does not occur on the right-hand side -/
theorem structHash_nillable (P : Prims U) (d r : Option U) :
    structHash P tNillable [("Duration", d), ("Raw", r)] = inc P "Duration" d (P.bytes (utf8 "NillableDuration")) := rfl

theorem structHash_taint (P : Prims U) (k v e t : Option U) :
    structHash P tTaint [("Key", k), ("Value", v), ("Effect", e), ("TimeAdded", t)] =
      inc P "TimeAdded" t (inc P "Effect" e (inc P "Value" v (inc P "Key" k (P.bytes (utf8 "Taint"))))) := rfl

theorem structHash_ref (P : Prims U) (k n g : Option U) :
    structHash P tRef [("Kind", k), ("Name", n), ("Group", g)] =
      inc P "Group" g (inc P "Name" n (inc P "Kind" k (P.bytes (utf8 "NodeClassReference")))) := rfl

theorem structHash_duration (P : Prims U) (d : Option U) :
    structHash P tDuration [("Duration", d)] = inc P "Duration" d (P.bytes (utf8 "Duration")) := rfl

theorem structHash_time (P : Prims U) (t : Option U) :
    structHash P tTime [("Time", t)] = inc P "Time" t (P.bytes (utf8 "Time")) := rfl

/-! ### Lawful primitives: what the theorems assume of `xor` -/

structure Lawful (P : Prims U) : Prop where
  xor_comm : ∀ a b, P.xor a b = P.xor b a
  xor_assoc : ∀ a b c, P.xor (P.xor a b) c = P.xor a (P.xor b c)

theorem fnvPrims_lawful : Lawful fnvPrims :=
  ⟨fun a b => Nat.xor_comm a b, fun a b c => Nat.xor_assoc a b c⟩

theorem Lawful.right_comm {P : Prims U} (h : Lawful P) (z x y : U) :
    P.xor (P.xor z x) y = P.xor (P.xor z y) x := by
  rw [h.xor_assoc, h.xor_comm x y, ← h.xor_assoc]

/-- the set hash does not depend on the order of the elements -/
theorem hSet_perm {P : Prims U} (h : Lawful P) {l₁ l₂ : List U} (p : l₁.Perm l₂) : hSet P l₁ = hSet P l₂ := by
  unfold hSet
  exact List.Perm.foldl_eq' p (fun x _ y _ z => h.right_comm z x y) P.zero

theorem hTaints_perm {P : Prims U} (h : Lawful P) {l₁ l₂ : List Taint} (p : l₁.Perm l₂) :
    hTaints P (some l₁) = hTaints P (some l₂) := by
  simp only [hTaints, Option.map_some]
  rw [hSet_perm h (p.map (hTaint P))]

theorem hMap_perm {P : Prims U} (h : Lawful P) {l₁ l₂ : List (String × String)} (p : l₁.Perm l₂) :
    hMap P (some l₁) = hMap P (some l₂) := by
  simp only [hMap, Option.map_some]
  rw [hSet_perm h (p.map (hEntry P))]

/-! ### Equality of optional collections up to order -/

/-- both nil, or both non-nil and permutations of each other -/
def OptPerm {α : Type} (a b : Option (List α)) : Prop :=
  match a, b with
  | none, none => True
  | some x, some y => x.Perm y
  | _, _ => False

theorem OptPerm.refl {α : Type} (a : Option (List α)) : OptPerm a a := by
  cases a <;> simp [OptPerm]

theorem OptPerm.isNone_eq {α : Type} {a b : Option (List α)} (h : OptPerm a b) : a.isNone = b.isNone := by
  cases a <;> cases b <;> simp_all [OptPerm]

theorem hTaints_optPerm {P : Prims U} (h : Lawful P) {a b : Option (List Taint)} (p : OptPerm a b) :
    hTaints P a = hTaints P b := by
  cases a <;> cases b <;> simp only [OptPerm] at p
  · rfl
  · exact hTaints_perm h p

theorem hMap_optPerm {P : Prims U} (h : Lawful P) {a b : Option (List (String × String))} (p : OptPerm a b) :
    hMap P a = hMap P b := by
  cases a <;> cases b <;> simp only [OptPerm] at p
  · rfl
  · exact hMap_perm h p

/-! ### The template hash, unfolded -/

theorem hMeta_eq (P : Prims U) (t : Template) :
    hMeta P t = if t.metaIsZero then none
      else some (inc P "Annotations" (hMap P t.annotations) (inc P "Labels" (hMap P t.labels) (P.bytes (utf8 "ObjectMeta")))) := by
  unfold hMeta; rw [structHash_meta]

theorem hExpire_eq (P : Prims U) (d : Option Int) (raw : Option String) :
    hExpire P d raw = if d.isNone && raw.isNone then none
      else some (inc P "Duration" (d.map (fun v => P.bytes (i64bytes v))) (P.bytes (utf8 "NillableDuration"))) := by
  unfold hExpire; rw [structHash_nillable]

theorem hSpec_eq (P : Prims U) (t : Template) :
    hSpec P t = if t.specIsZero then none
      else some (inc P "ExpireAfter" (hExpire P t.expireAfter t.expireAfterRaw) (inc P "TerminationGracePeriod" (hTGP P t.tgp)
        (inc P "NodeClassRef" (hRef P t.nodeClassRef) (inc P "StartupTaints" (hTaints P t.startupTaints)
          (inc P "Taints" (hTaints P t.taints) (P.bytes (utf8 "NodeClaimTemplateSpec"))))))) := by
  unfold hSpec; rw [structHash_spec]

theorem hashTemplate_eq (P : Prims U) (t : Template) :
    hashTemplate P t = inc P "Spec" (hSpec P t) (inc P "ObjectMeta" (hMeta P t) (P.bytes (utf8 "NodeClaimTemplate"))) := by
  unfold hashTemplate; rw [structHash_template]

/-- the expire-after hash only looks at whether `Raw` is nil, and not even at that when a duration is set -/
theorem hExpire_raw (P : Prims U) (d : Int) (r r' : Option String) : hExpire P (some d) r = hExpire P (some d) r' := by
  simp [hExpire_eq]

theorem hExpire_raw_isNone (P : Prims U) (d : Option Int) (r r' : Option String) (h : r.isNone = r'.isNone) :
    hExpire P d r = hExpire P d r' := by
  simp [hExpire_eq, h]

/-! ### No masking: with collision-free primitives a changed field value changes the struct hash -/

/-- the named hypothesis of the sensitivity theorem: the primitive hash has no collision (false of any 64-bit hash in
    general; true of FNV on the handful of values of one comparison with overwhelming probability) -/
structure CollisionFree (P : Prims U) : Prop where
  fin_inj : ∀ a b, P.fin a = P.fin b → a = b
  ord_inj : ∀ a b c d, P.ord a b = P.ord c d → a = c ∧ b = d
  xor_cancel : ∀ a b c, P.xor a b = P.xor a c → b = c

theorem inc_acc_inj {P : Prims U} (hL : Lawful P) (hC : CollisionFree P) (n : String) (v : Option U) (h h' : U)
    (e : inc P n v h = inc P n v h') : h = h' := by
  cases v with
  | none => exact e
  | some vh =>
    simp only [inc] at e
    have := hC.fin_inj _ _ e
    rw [hL.xor_comm h, hL.xor_comm h'] at this
    exact hC.xor_cancel _ _ _ this

theorem inc_val_inj {P : Prims U} (hC : CollisionFree P) (n : String) (a b : U) (h : U)
    (e : inc P n (some a) h = inc P n (some b) h) : a = b := by
  simp only [inc] at e
  exact (hC.ord_inj _ _ _ _ (hC.xor_cancel _ _ _ (hC.fin_inj _ _ e))).2

/-! ### Invariance of the template hash -/

/-- the drift-relevant content of two templates agrees up to the order of the maps and lists -/
structure SameUpToOrder (a b : Template) : Prop where
  labels : OptPerm a.labels b.labels
  annotations : OptPerm a.annotations b.annotations
  taints : OptPerm a.taints b.taints
  startupTaints : OptPerm a.startupTaints b.startupTaints
  nodeClassRef : a.nodeClassRef = b.nodeClassRef
  tgp : a.tgp = b.tgp
  expireAfter : a.expireAfter = b.expireAfter

/-- the general invariance statement behind the next three theorems: for every hash primitive set with a commutative,
    associative `xor`, two templates that agree up to order hash alike whatever their `requirements` and the spelling
    of `expireAfter` are — provided the `Spec` field is zero for both or for neither (`reflect.Value.IsZero` looks at
    ignored fields too), and `Raw` is nil for both or neither unless a duration is set. -/
theorem hash_invariant (P : Prims U) (hL : Lawful P) (a b : Template) (h : SameUpToOrder a b)
    (hz : a.specIsZero = b.specIsZero)
    (hraw : a.expireAfter.isSome = true ∨ a.expireAfterRaw.isNone = b.expireAfterRaw.isNone) :
    hashTemplate P a = hashTemplate P b := by
  have hmeta : hMeta P a = hMeta P b := by
    rw [hMeta_eq, hMeta_eq]
    rw [show a.metaIsZero = b.metaIsZero by
      simp only [Template.metaIsZero, h.labels.isNone_eq, h.annotations.isNone_eq],
      hMap_optPerm hL h.labels, hMap_optPerm hL h.annotations]
  have hexp : hExpire P a.expireAfter a.expireAfterRaw = hExpire P b.expireAfter b.expireAfterRaw := by
    rw [← h.expireAfter]
    rcases hraw with hs | hr
    · cases hd : a.expireAfter with
      | none => rw [hd] at hs; simp at hs
      | some d => exact hExpire_raw P d _ _
    · exact hExpire_raw_isNone P _ _ _ hr
  have hspec : hSpec P a = hSpec P b := by
    rw [hSpec_eq, hSpec_eq, hz, hexp, hTaints_optPerm hL h.taints, hTaints_optPerm hL h.startupTaints, h.nodeClassRef, h.tgp]
  rw [hashTemplate_eq, hashTemplate_eq, hmeta, hspec]

theorem isPerm_optPerm {α : Type} [BEq α] [LawfulBEq α] (x y : Option (List α))
    (hp : (x.getD []).isPerm (y.getD []) = true) (hs : (x.isSome == y.isSome) = true) : OptPerm x y := by
  cases x <;> cases y <;> simp [OptPerm] at *
  exact List.isPerm_iff.mp hp

theorem inc_opt_inj {P : Prims U} (hC : CollisionFree P) (n : String) (x y : Option U) (h : U)
    (hs : x.isSome = y.isSome) (e : inc P n x h = inc P n y h) : x = y := by
  cases x <;> cases y <;> simp at hs
  · rfl
  · rw [inc_val_inj hC n _ _ h e]

/-! ### The hypotheses are satisfiable: a collision-free, lawful primitive set (for non-vacuity) -/

def pair (a b : Nat) : Nat := (a + b) * (a + b) + a

theorem sq_succ (s : Nat) : (s + 1) * (s + 1) = s * s + 2 * s + 1 := by
  rw [Nat.add_mul, Nat.mul_add, Nat.one_mul, Nat.mul_one]; omega

theorem pair_sum (a b c d : Nat) (h : pair a b = pair c d) : a + b = c + d := by
  unfold pair at h
  generalize hs : a + b = s at h
  generalize ht : c + d = t at h
  rcases Nat.lt_trichotomy s t with hlt | heq | hgt
  · exfalso
    have h1 : (s + 1) * (s + 1) ≤ t * t := Nat.mul_le_mul hlt hlt
    rw [sq_succ] at h1
    omega
  · exact heq
  · exfalso
    have h1 : (t + 1) * (t + 1) ≤ s * s := Nat.mul_le_mul hgt hgt
    rw [sq_succ] at h1
    omega

theorem pair_inj (a b c d : Nat) (h : pair a b = pair c d) : a = c ∧ b = d := by
  have hs := pair_sum a b c d h
  unfold pair at h
  rw [hs] at h
  omega

theorem nat_xor_cancel (a b c : Nat) (h : a ^^^ b = a ^^^ c) : b = c := by
  have : a ^^^ (a ^^^ b) = a ^^^ (a ^^^ c) := by rw [h]
  rw [← Nat.xor_assoc, ← Nat.xor_assoc, Nat.xor_self, Nat.zero_xor, Nat.zero_xor] at this
  exact this

/-- symbolic primitives over `Nat`: an injective pairing for `ord`, the identity for `fin`, bitwise xor -/
def symPrims : Prims Nat where
  bytes l := l.foldl (fun h b => h * 257 + b + 1) 0
  ord := pair
  fin a := a
  xor := Nat.xor
  zero := 0

theorem symPrims_lawful : Lawful symPrims := ⟨fun a b => Nat.xor_comm a b, fun a b c => Nat.xor_assoc a b c⟩

theorem symPrims_collisionFree : CollisionFree symPrims :=
  ⟨fun _ _ h => h, fun a b c d h => pair_inj a b c d h, fun a b c h => nat_xor_cancel a b c h⟩

end Karp.Hash
