/-
Helper lemmas for C19: insertion sort is a sorted permutation for every strict weak order;
the comparators of `OrderByWeight` and `OrderByPrice` are strict weak orders.
-/
import Karp.Model.WeightOrder
import Karp.Model.PriceOrder

namespace Karp.WeightOrder
open List

variable {α : Type}

/-- what the proofs need of a `less` function (strict weak order) -/
structure StrictWeak (lt : α → α → Bool) : Prop where
  asymm : ∀ a b, lt a b = true → lt b a = false
  negTrans : ∀ a b c, lt a b = false → lt b c = false → lt a c = false

/-- "sorted": no later element is less than an earlier one -/
def Sorted (lt : α → α → Bool) (l : List α) : Prop := l.Pairwise (fun a b => lt b a = false)

theorem sortedBy_iff (lt : α → α → Bool) (l : List α) : sortedBy lt l = true ↔ Sorted lt l := by
  induction l with
  | nil => simp [sortedBy, Sorted]
  | cons x xs ih =>
    simp only [sortedBy, Sorted, Bool.and_eq_true, List.all_eq_true, pairwise_cons, ih]
    constructor
    · rintro ⟨h1, h2⟩; exact ⟨fun y hy => by simpa using h1 y hy, h2⟩
    · rintro ⟨h1, h2⟩; exact ⟨fun y hy => by simpa using h1 y hy, h2⟩

theorem insertBy_perm (lt : α → α → Bool) (x : α) (l : List α) : insertBy lt x l ~ x :: l := by
  induction l with
  | nil => simp [insertBy]
  | cons y ys ih =>
    simp only [insertBy]
    split
    · exact Perm.refl _
    · exact (Perm.cons y ih).trans (Perm.swap x y ys)

theorem sortBy_perm (lt : α → α → Bool) (l : List α) : sortBy lt l ~ l := by
  induction l with
  | nil => simp [sortBy]
  | cons x xs ih => exact (insertBy_perm lt x _).trans (Perm.cons x ih)

theorem insertBy_sorted {lt : α → α → Bool} (h : StrictWeak lt) (x : α) (l : List α)
    (hl : Sorted lt l) : Sorted lt (insertBy lt x l) := by
  induction l with
  | nil => simp [insertBy, Sorted]
  | cons y ys ih =>
    unfold Sorted at hl ih ⊢
    rw [pairwise_cons] at hl
    obtain ⟨hy, hys⟩ := hl
    simp only [insertBy]
    split
    · rename_i hxy
      rw [pairwise_cons, pairwise_cons]
      refine ⟨?_, hy, hys⟩
      intro z hz
      rcases List.mem_cons.mp hz with rfl | hz
      · exact h.asymm _ _ hxy
      · exact h.negTrans _ _ _ (hy z hz) (h.asymm _ _ hxy)
    · rename_i hxy
      rw [pairwise_cons]
      refine ⟨?_, ih hys⟩
      intro z hz
      have := (insertBy_perm lt x ys).mem_iff.mp hz
      rcases List.mem_cons.mp this with rfl | hz
      · simpa using hxy
      · exact hy z hz

theorem sortBy_sorted {lt : α → α → Bool} (h : StrictWeak lt) (l : List α) : Sorted lt (sortBy lt l) := by
  induction l with
  | nil => simp [sortBy, Sorted]
  | cons x xs ih => exact insertBy_sorted h x _ ih

/-! ### the bytewise string order -/

theorem lexLt_irrefl : ∀ a : List Nat, lexLt a a = false
  | [] => rfl
  | x :: xs => by simp [lexLt, lexLt_irrefl xs]

theorem lexLt_asymm : ∀ a b : List Nat, lexLt a b = true → lexLt b a = false
  | [], [] => by simp [lexLt]
  | [], _ :: _ => by simp [lexLt]
  | _ :: _, [] => by simp [lexLt]
  | x :: xs, y :: ys => by
    simp only [lexLt]
    by_cases h1 : x < y
    · have : ¬ y < x := by omega
      simp [h1, this]
    · by_cases h2 : y < x
      · simp [h1, h2]
      · simp only [h1, h2, if_false]
        exact lexLt_asymm xs ys

/-- totality: two names neither of which is below the other are equal -/
theorem lexLt_total : ∀ a b : List Nat, lexLt a b = false → lexLt b a = false → a = b
  | [], [] => by simp
  | [], _ :: _ => by simp [lexLt]
  | _ :: _, [] => by simp [lexLt]
  | x :: xs, y :: ys => by
    simp only [lexLt]
    by_cases h1 : x < y
    · simp [h1]
    · by_cases h2 : y < x
      · simp [h1, h2]
      · simp only [h1, h2, if_false]
        intro ha hb
        have : x = y := by omega
        subst this
        rw [lexLt_total xs ys ha hb]

theorem lexLt_trans : ∀ a b c : List Nat, lexLt a b = true → lexLt b c = true → lexLt a c = true
  | [], [], _ => by simp [lexLt]
  | [], _ :: _, [] => by simp [lexLt]
  | [], _ :: _, _ :: _ => by simp [lexLt]
  | _ :: _, [], _ => by simp [lexLt]
  | _ :: _, _ :: _, [] => by simp [lexLt]
  | x :: xs, y :: ys, z :: zs => by
    simp only [lexLt]
    by_cases h1 : x < y
    · by_cases h3 : y < z
      · have : x < z := by omega
        simp [this]
      · by_cases h4 : z < y
        · simp [h1, h3, h4]
        · have : y = z := by omega
          subst this
          simp [h1]
    · by_cases h2 : y < x
      · simp [h1, h2]
      · have : x = y := by omega
        subst this
        simp only [h1, if_false]
        by_cases h3 : x < z
        · simp [h3]
        · by_cases h4 : z < x
          · simp [h3, h4]
          · simp only [h3, h4, if_false]
            exact lexLt_trans xs ys zs

theorem lexLt_negTrans (a b c : List Nat) (h1 : lexLt a b = false) (h2 : lexLt b c = false) :
    lexLt a c = false := by
  -- a ≥ b ≥ c
  cases hac : lexLt a c with
  | false => rfl
  | true =>
    exfalso
    -- either b < a … or b = a
    cases hba : lexLt b a with
    | false =>
      have := lexLt_total a b h1 hba
      subst this
      rw [hac] at h2; cases h2
    | true =>
      have := lexLt_trans b a c hba hac
      rw [this] at h2; cases h2

/-! ### `before` (OrderByWeight) is a strict total order on (weight, name) -/

theorem before_strictWeak : StrictWeak before := by
  constructor
  · intro a b h
    unfold before at h ⊢
    by_cases hw : a.weight = b.weight
    · simp only [hw, if_true] at h ⊢
      exact lexLt_asymm _ _ h
    · have hw' : ¬ b.weight = a.weight := fun e => hw e.symm
      simp only [hw, hw', if_false, decide_eq_true_eq, decide_eq_false_iff_not] at h ⊢
      omega
  · intro a b c h1 h2
    unfold before at h1 h2 ⊢
    by_cases hab : a.weight = b.weight
    · by_cases hbc : b.weight = c.weight
      · have hac : a.weight = c.weight := hab.trans hbc
        simp only [hab, hbc, if_true] at h1 h2 ⊢
        -- names: b ≥ a … careful with argument order: before a b = lexLt b.name a.name
        exact lexLt_negTrans _ _ _ h2 h1
      · simp only [hab, hbc, if_true, if_false, decide_eq_false_iff_not] at h1 h2 ⊢
        omega
    · by_cases hbc : b.weight = c.weight
      · have hac : ¬ a.weight = c.weight := by rw [← hbc]; exact hab
        simp only [hbc, hac, if_true, if_false, decide_eq_false_iff_not] at h1 h2 ⊢
        omega
      · simp only [hab, hbc, if_false, decide_eq_false_iff_not] at h1 h2
        by_cases hac : a.weight = c.weight
        · omega
        · simp only [hac, if_false, decide_eq_false_iff_not]; omega

/-- two pools neither of which goes before the other are the same (weight, name) -/
theorem before_antisymm (a b : Pool) (h1 : before a b = false) (h2 : before b a = false) : a = b := by
  unfold before at h1 h2
  by_cases hw : a.weight = b.weight
  · simp only [hw, if_true] at h1 h2
    have hn := lexLt_total _ _ h2 h1
    cases a; cases b; simp_all
  · have hw' : ¬ b.weight = a.weight := fun e => hw e.symm
    simp only [hw, hw', if_false, decide_eq_false_iff_not] at h1 h2
    omega

end Karp.WeightOrder

namespace Karp.PriceOrder
open Karp.WeightOrder

theorem priceLt_strictWeak :
    (∀ a b, priceLt a b = true → priceLt b a = false) ∧
    (∀ a b c, priceLt a b = false → priceLt b c = false → priceLt a c = false) := by
  constructor
  · intro a b h
    cases a <;> cases b <;> simp_all [priceLt] <;> omega
  · intro a b c h1 h2
    cases a <;> cases b <;> cases c <;> simp_all [priceLt] <;> omega

theorem cheaper_strictWeak (reqs : List Req) : StrictWeak (cheaper reqs) :=
  ⟨fun _ _ => priceLt_strictWeak.1 _ _, fun _ _ _ => priceLt_strictWeak.2 _ _ _⟩

end Karp.PriceOrder
