/-
C11 helper lemmas: the model projects onto the object-layer system `OC` (simulation up to lookup-equivalence).
-/
import Karp.Proofs.ClusterStateObjs

namespace Karp.ClusterState
open Cluster

theorem get_proj (c : Cluster) (id : String) : Map.get (proj c).nodes id = (Map.get c.nodes id).map SNode.objs :=
  Map.get_mapVals _ _ _

theorem OC.Eqv.refl (a : OC) : a.Eqv a := ⟨fun _ => rfl, rfl, rfl⟩
theorem OC.Eqv.trans {a b c : OC} (h1 : a.Eqv b) (h2 : b.Eqv c) : a.Eqv c :=
  ⟨fun id => (h1.nodes id).trans (h2.nodes id), h1.nn.trans h2.nn, h1.cn.trans h2.cn⟩
theorem OC.Eqv.symm {a b : OC} (h : a.Eqv b) : b.Eqv a := ⟨fun id => (h.nodes id).symm, h.nn.symm, h.cn.symm⟩

/-! ### facts about the carry-over tables the projection relies on (re-checked when the tables are regenerated) -/

theorem carriedN_claim : carriedN "NodeClaim" = true := by decide
theorem carriedN_marked : carriedN "markedForDeletion" = true := by decide
theorem carriedN_nominated : carriedN "nominatedUntil" = true := by decide
theorem carriedC_node (fx : Fixes) : carriedC fx "Node" = true := by simp [carriedC]; decide
theorem carriedC_marked (fx : Fixes) : carriedC fx "markedForDeletion" = true := by simp [carriedC]; decide
theorem carriedC_nominated (fx : Fixes) : carriedC fx "nominatedUntil" = true := by simp [carriedC]; decide

theorem objs_nodeLiteral (node : NodeObj) (old : SNode) :
    (nodeLiteral node old).objs = ⟨some node, old.claim, old.marked, old.nominated⟩ := by
  simp [nodeLiteral, SNode.objs, carriedN_claim, carriedN_marked, carriedN_nominated]

theorem objs_claimLiteral (fx : Fixes) (claim : ClaimObj) (old : SNode) :
    (claimLiteral fx claim old).objs = ⟨old.node, some claim, old.marked, old.nominated⟩ := by
  simp [claimLiteral, SNode.objs, carriedC_node, carriedC_marked, carriedC_nominated]

theorem objs_updateForPod (fx : Fixes) (s : SNode) (p : PodObj) : (s.updateForPod fx p).objs = s.objs := by
  have := updateForPod_fields fx s p
  simp [SNode.objs, this.1, this.2.1, this.2.2.1, this.2.2.2]

theorem objs_cleanupForPod (s : SNode) (k : String) : (s.cleanupForPod k).objs = s.objs := by
  have := cleanupForPod_fields s k
  simp [SNode.objs, this.1, this.2.1, this.2.2.1, this.2.2.2]

/-! ### pod operations are invisible at the object layer -/

/-- `c'` differs from `c` at most in per-pod aggregates and bindings -/
structure PodOnly (c c' : Cluster) : Prop where
  objs : ∀ id, (Map.get c'.nodes id).map SNode.objs = (Map.get c.nodes id).map SNode.objs
  nn : c'.nodeNameToPid = c.nodeNameToPid
  cn : c'.claimNameToPid = c.claimNameToPid
  np : c'.np = c.np
  pr : c'.poolRes = c.poolRes

theorem PodOnly.refl (c : Cluster) : PodOnly c c := ⟨fun _ => rfl, rfl, rfl, rfl, rfl⟩
theorem PodOnly.trans {a b c : Cluster} (h1 : PodOnly a b) (h2 : PodOnly b c) : PodOnly a c :=
  ⟨fun id => (h2.objs id).trans (h1.objs id), h2.nn.trans h1.nn, h2.cn.trans h1.cn, h2.np.trans h1.np, h2.pr.trans h1.pr⟩

theorem PodOnly.eqv {c c' : Cluster} (h : PodOnly c c') : (proj c').Eqv (proj c) :=
  ⟨fun id => by rw [get_proj, get_proj]; exact h.objs id, h.nn, h.cn⟩

theorem podOnly_touch (c : Cluster) (id : String) (sn sn' : SNode) (hg : Map.get c.nodes id = some sn)
    (ho : sn'.objs = sn.objs) (c' : Cluster) (hn : c'.nodes = Map.put c.nodes id sn')
    (h1 : c'.nodeNameToPid = c.nodeNameToPid) (h2 : c'.claimNameToPid = c.claimNameToPid) (h3 : c'.np = c.np)
    (h4 : c'.poolRes = c.poolRes) : PodOnly c c' := by
  refine ⟨?_, h1, h2, h3, h4⟩
  intro id'
  rw [hn, Map.get_put]
  by_cases h : id' = id
  · rw [if_pos h, h, hg]; simp [ho]
  · rw [if_neg h]

theorem cleanupOldBindings_podOnly (c : Cluster) (p : PodObj) : PodOnly c (c.cleanupOldBindings p) := by
  unfold Cluster.cleanupOldBindings
  split
  · split
    · exact PodOnly.refl c
    · split
      · rename_i id sn hb
        exact podOnly_touch c id sn _ (nodeByName_some hb) (objs_cleanupForPod sn p.name) _ rfl rfl rfl rfl rfl
      · exact PodOnly.refl c
  · exact PodOnly.refl c

theorem podCompletion_podOnly (c : Cluster) (k : String) : PodOnly c (c.podCompletion k) := by
  unfold Cluster.podCompletion
  split
  · exact PodOnly.refl c
  · dsimp only
    split
    · exact ⟨fun _ => rfl, rfl, rfl, rfl, rfl⟩
    · rename_i id sn hb
      have hg : Map.get c.nodes id = some sn := nodeByName_some (c := { c with bindings := Map.erase c.bindings k }) hb
      exact podOnly_touch c id sn _ hg (objs_cleanupForPod sn k) _ rfl rfl rfl rfl rfl

theorem podOnly_ite (b : Bool) (c x y : Cluster) (hx : PodOnly c x) (hy : PodOnly c y) : PodOnly c (if b = true then x else y) := by
  cases b <;> simp [hx, hy]

theorem podUsage_podOnly (fx : Fixes) (c : Cluster) (p : PodObj) : PodOnly c (c.podUsage fx p).1 := by
  unfold Cluster.podUsage
  split
  · exact podOnly_ite _ _ _ _ (podCompletion_podOnly c p.name) (PodOnly.refl c)
  · split
    · exact podOnly_ite _ _ _ _ (podCompletion_podOnly c p.name) (PodOnly.refl c)
    · rename_i id sn hb
      have h1 : PodOnly c { c with nodes := Map.put c.nodes id (sn.updateForPod fx p) } :=
        podOnly_touch c id sn _ (nodeByName_some hb) (objs_updateForPod fx sn p) _ rfl rfl rfl rfl rfl
      have h2 := cleanupOldBindings_podOnly { c with nodes := Map.put c.nodes id (sn.updateForPod fx p) } p
      have h3 := PodOnly.trans h1 h2
      exact ⟨h3.objs, h3.nn, h3.cn, h3.np, h3.pr⟩

theorem updatePod_podOnly (fx : Fixes) (c : Cluster) (p : PodObj) : PodOnly c (c.updatePod fx p).1 := by
  unfold Cluster.updatePod
  split
  · exact podCompletion_podOnly c p.name
  · exact podUsage_podOnly fx c p

theorem populate_podOnly (fx : Fixes) (nodeName : String) (pods : List PodObj) :
    ∀ (c : Cluster) (n : SNode), PodOnly c (c.populate fx n nodeName pods).1 ∧ (c.populate fx n nodeName pods).2.objs = n.objs := by
  induction pods with
  | nil => intro c n; exact ⟨PodOnly.refl c, rfl⟩
  | cons p ps ih =>
    intro c n
    unfold Cluster.populate
    split
    · have h1 := cleanupOldBindings_podOnly c p
      have h2 : PodOnly c { (c.cleanupOldBindings p) with bindings := Map.put (c.cleanupOldBindings p).bindings p.name p.node } :=
        ⟨h1.objs, h1.nn, h1.cn, h1.np, h1.pr⟩
      have := ih { (c.cleanupOldBindings p) with bindings := Map.put (c.cleanupOldBindings p).bindings p.name p.node } (n.updateForPod fx p)
      exact ⟨PodOnly.trans h2 this.1, by rw [this.2, objs_updateForPod]⟩
    · exact ih c n

end Karp.ClusterState

namespace Karp.ClusterState
open Cluster

/-- the model result and the object-layer result correspond -/
def Sim (r : M Cluster) (o : Option OC) : Prop :=
  match r, o with
  | .ok c', some o' => (proj c').Eqv o'
  | .error _, none => True
  | _, _ => False

theorem sim_ok {c' : Cluster} {o' : OC} (h : (proj c').Eqv o') : Sim (.ok c') (some o') := h

theorem eqv_get {c : Cluster} {o : OC} (h : (proj c).Eqv o) (id : String) :
    Map.get o.nodes id = (Map.get c.nodes id).map SNode.objs := by
  rw [← h.nodes id, get_proj]

theorem eqv_put {c : Cluster} {o : OC} (h : (proj c).Eqv o) (id : String) (s : SNode) (x : Objs) (hx : s.objs = x)
    (c' : Cluster) (o' : OC) (hn : c'.nodes = Map.put c.nodes id s) (hn' : o'.nodes = Map.put o.nodes id x)
    (h1 : c'.nodeNameToPid = o'.nn) (h2 : c'.claimNameToPid = o'.cn) : (proj c').Eqv o' := by
  refine ⟨?_, h1, h2⟩
  intro id'
  rw [get_proj, hn, hn', Map.get_put, Map.get_put, eqv_get h]
  by_cases hh : id' = id <;> simp [hh, hx]

theorem eqv_erase {c : Cluster} {o : OC} (h : (proj c).Eqv o) (id : String)
    (c' : Cluster) (o' : OC) (hn : c'.nodes = Map.erase c.nodes id) (hn' : o'.nodes = Map.erase o.nodes id)
    (h1 : c'.nodeNameToPid = o'.nn) (h2 : c'.claimNameToPid = o'.cn) : (proj c').Eqv o' := by
  refine ⟨?_, h1, h2⟩
  intro id'
  rw [get_proj, hn, hn', Map.get_erase, Map.get_erase, eqv_get h]
  by_cases hh : id' = id <;> simp [hh]

theorem sim_detachNode (fx : Fixes) (c : Cluster) (o : OC) (h : (proj c).Eqv o) (name id : String) (sn : SNode) :
    (proj (c.detachNode fx name id sn)).Eqv (o.detachNode name id sn.objs) := by
  have hnn : c.nodeNameToPid = o.nn := h.nn
  have hcn : c.claimNameToPid = o.cn := h.cn
  unfold Cluster.detachNode OC.detachNode
  dsimp only
  by_cases hc : sn.claim.isNone = true
  · have hc' : sn.objs.claim.isNone = true := hc
    rw [if_pos hc, if_pos hc']
    exact eqv_erase h id _ _ rfl rfl (by simp [updateNodePoolResources, hnn]) (by simp [updateNodePoolResources, hcn])
  · have hc' : ¬ sn.objs.claim.isNone = true := hc
    rw [if_neg hc, if_neg hc']
    refine eqv_put h id _ _ ?_ _ _ rfl rfl (by simp [updateNodePoolResources, hnn]) (by simp [updateNodePoolResources, hcn])
    by_cases hf : fx.nodeGoneResets = true <;> simp [hf, SNode.objs]

theorem sim_cleanupNode (fx : Fixes) (c : Cluster) (o : OC) (h : (proj c).Eqv o) (name : String) :
    Sim (c.cleanupNode fx name) (o.cleanupNode name) := by
  have hnn : c.nodeNameToPid = o.nn := h.nn
  unfold Cluster.cleanupNode OC.cleanupNode
  rw [← hnn]
  cases hg : Map.get c.nodeNameToPid name with
  | none => exact sim_ok h
  | some id =>
    dsimp only
    by_cases hid : id ≠ ""
    · rw [if_pos hid, if_pos hid, eqv_get h]
      cases hs : Map.get c.nodes id with
      | none => simp [Sim]
      | some sn => exact sim_ok (sim_detachNode fx c o h name id sn)
    · rw [if_neg hid, if_neg hid]; exact sim_ok h

theorem sim_detachClaim (c : Cluster) (o : OC) (h : (proj c).Eqv o) (name id : String) (sn : SNode) :
    (proj ((c.detachClaim id sn).forgetClaim name)).Eqv ((o.detachClaim id sn.objs).forgetClaim name) := by
  have hnn : c.nodeNameToPid = o.nn := h.nn
  have hcn : c.claimNameToPid = o.cn := h.cn
  unfold Cluster.detachClaim OC.detachClaim Cluster.forgetClaim OC.forgetClaim
  by_cases hc : sn.node.isNone = true
  · have hc' : sn.objs.node.isNone = true := hc
    rw [if_pos hc, if_pos hc']
    exact eqv_erase h id _ _ rfl rfl (by simp [updateNodePoolResources, hnn]) (by simp [updateNodePoolResources, hcn])
  · have hc' : ¬ sn.objs.node.isNone = true := hc
    rw [if_neg hc, if_neg hc']
    exact eqv_put h id _ _ (by simp [SNode.objs]) _ _ rfl rfl (by simp [updateNodePoolResources, hnn]) (by simp [updateNodePoolResources, hcn])

theorem sim_forgetClaim (c : Cluster) (o : OC) (h : (proj c).Eqv o) (name : String) :
    (proj (c.forgetClaim name)).Eqv (o.forgetClaim name) := by
  have hcn : c.claimNameToPid = o.cn := h.cn
  refine ⟨?_, h.nn, ?_⟩
  · intro id; exact h.nodes id
  · simp [proj, Cluster.forgetClaim, OC.forgetClaim, hcn]

theorem sim_cleanupNodeClaim (c : Cluster) (o : OC) (h : (proj c).Eqv o) (name : String) :
    Sim (c.cleanupNodeClaim name) (o.cleanupNodeClaim name) := by
  have hcn : c.claimNameToPid = o.cn := h.cn
  unfold Cluster.cleanupNodeClaim OC.cleanupNodeClaim
  rw [← hcn]
  cases hg : Map.get c.claimNameToPid name with
  | none => exact sim_ok (sim_forgetClaim c o h name)
  | some id =>
    dsimp only
    by_cases hid : id ≠ ""
    · rw [if_pos hid, if_pos hid, eqv_get h]
      cases hs : Map.get c.nodes id with
      | none => simp [Sim]
      | some sn => exact sim_ok (sim_detachClaim c o h name id sn)
    · rw [if_neg hid, if_neg hid]; exact sim_ok (sim_forgetClaim c o h name)

theorem objs_getD (c : Cluster) (o : OC) (h : (proj c).Eqv o) (id : String) :
    ((Map.get c.nodes id).getD SNode.new).objs = (Map.get o.nodes id).getD {} := by
  rw [eqv_get h]
  cases Map.get c.nodes id with
  | none => rfl
  | some s => rfl

theorem sim_newStateFromNode (fx : Fixes) (c : Cluster) (o : OC) (h : (proj c).Eqv o) (api : Api) (node : NodeObj) :
    Sim (c.newStateFromNode fx api node) (o.newStateFromNode node) := by
  unfold Cluster.newStateFromNode OC.newStateFromNode
  dsimp only
  generalize hcn : c.populate fx (nodeLiteral node ((Map.get c.nodes node.pid).getD SNode.new)) node.name api.pods.vals = cn
  have hp := populate_podOnly fx node.name api.pods.vals c (nodeLiteral node ((Map.get c.nodes node.pid).getD SNode.new))
  rw [hcn] at hp
  have h1 : (proj cn.1).Eqv o := OC.Eqv.trans hp.1.eqv h
  have hnn : cn.1.nodeNameToPid = o.nn := h1.nn
  have hobjs : cn.2.objs = ⟨some node, ((Map.get o.nodes node.pid).getD {}).claim, ((Map.get o.nodes node.pid).getD {}).marked,
      ((Map.get o.nodes node.pid).getD {}).nominated⟩ := by
    rw [hp.2, objs_nodeLiteral, ← objs_getD c o h]; rfl
  rw [hnn]
  by_cases hrk : rekeyed o.nn node.name node.pid = true
  · rw [if_pos hrk, if_pos hrk]
    have hs := sim_cleanupNode fx cn.1 o h1 node.name
    cases hc2 : cn.1.cleanupNode fx node.name with
    | error e =>
      rw [hc2] at hs
      cases ho2 : o.cleanupNode node.name with
      | none => simp [Sim]
      | some o2 => rw [ho2] at hs; simp [Sim] at hs
    | ok c2 =>
      rw [hc2] at hs
      cases ho2 : o.cleanupNode node.name with
      | none => rw [ho2] at hs; simp [Sim] at hs
      | some o2 =>
        rw [ho2] at hs
        have hs' : (proj c2).Eqv o2 := hs
        apply sim_ok
        unfold Cluster.installNode OC.installNode
        exact eqv_put hs' node.pid cn.2 _ hobjs _ _ rfl rfl (by simp [updateNodePoolResources, hs'.nn.symm]; rfl)
          (by simp [updateNodePoolResources]; exact hs'.cn)
  · rw [if_neg hrk, if_neg hrk]
    apply sim_ok
    unfold Cluster.installNode OC.installNode
    exact eqv_put h1 node.pid cn.2 _ hobjs _ _ rfl rfl (by simp [updateNodePoolResources, hnn])
      (by simp [updateNodePoolResources]; exact h1.cn)

theorem sim_updateNode (fx : Fixes) (c : Cluster) (o : OC) (h : (proj c).Eqv o) (api : Api) (node : NodeObj) :
    Sim (c.updateNode fx api node) (o.updateNode node) := by
  unfold Cluster.updateNode OC.updateNode
  dsimp only
  split
  · exact sim_ok h
  · split
    · exact sim_ok h
    · exact sim_newStateFromNode fx c o h api _

theorem sim_installClaim (fx : Fixes) (c : Cluster) (o : OC) (h : (proj c).Eqv o) (claim : ClaimObj) :
    Sim (c.installClaim fx claim) (o.installClaim claim) := by
  unfold Cluster.installClaim OC.installClaim
  dsimp only
  have hcn : c.claimNameToPid = o.cn := h.cn
  have hobjs : (claimLiteral fx claim ((Map.get c.nodes claim.pid).getD SNode.new)).objs =
      ⟨((Map.get o.nodes claim.pid).getD {}).node, some claim, ((Map.get o.nodes claim.pid).getD {}).marked,
       ((Map.get o.nodes claim.pid).getD {}).nominated⟩ := by
    rw [objs_claimLiteral, ← objs_getD c o h]; rfl
  rw [hcn]
  by_cases hrk : rekeyed o.cn claim.name claim.pid = true
  · rw [if_pos hrk, if_pos hrk]
    have hs := sim_cleanupNodeClaim c o h claim.name
    cases hc2 : c.cleanupNodeClaim claim.name with
    | error e =>
      rw [hc2] at hs
      cases ho2 : o.cleanupNodeClaim claim.name with
      | none => simp [Sim]
      | some o2 => rw [ho2] at hs; simp [Sim] at hs
    | ok c2 =>
      rw [hc2] at hs
      cases ho2 : o.cleanupNodeClaim claim.name with
      | none => rw [ho2] at hs; simp [Sim] at hs
      | some o2 =>
        rw [ho2] at hs
        have hs' : (proj c2).Eqv o2 := hs
        apply sim_ok
        exact eqv_put hs' claim.pid _ _ hobjs _ _ rfl rfl (by simp [updateNodePoolResources]; exact hs'.nn)
          (by simp [updateNodePoolResources]; exact hs'.cn)
  · rw [if_neg hrk, if_neg hrk]
    apply sim_ok
    exact eqv_put h claim.pid _ _ hobjs _ _ rfl rfl (by simp [updateNodePoolResources]; exact h.nn)
      (by simp [updateNodePoolResources]; exact h.cn)

theorem sim_updateNodeClaim (fx : Fixes) (c : Cluster) (o : OC) (h : (proj c).Eqv o) (claim : ClaimObj) :
    Sim (c.updateNodeClaim fx claim) (o.updateNodeClaim claim) := by
  unfold Cluster.updateNodeClaim OC.updateNodeClaim
  have key : Sim (if claim.pid ≠ "" then c.installClaim fx claim else .ok c) (if claim.pid ≠ "" then o.installClaim claim else some o) := by
    by_cases hp : claim.pid ≠ ""
    · rw [if_pos hp, if_pos hp]; exact sim_installClaim fx c o h claim
    · rw [if_neg hp, if_neg hp]; exact sim_ok h
  cases h1 : (if claim.pid ≠ "" then c.installClaim fx claim else .ok c) with
  | error e =>
    rw [h1] at key
    cases h2 : (if claim.pid ≠ "" then o.installClaim claim else some o) with
    | none => simp [Sim]
    | some o2 => rw [h2] at key; simp [Sim] at key
  | ok c2 =>
    rw [h1] at key
    cases h2 : (if claim.pid ≠ "" then o.installClaim claim else some o) with
    | none => rw [h2] at key; simp [Sim] at key
    | some o2 =>
      rw [h2] at key
      have hk : (proj c2).Eqv o2 := key
      apply sim_ok
      refine ⟨fun id => hk.nodes id, hk.nn, ?_⟩
      simp [proj, Cluster.recordClaim]
      rw [show c2.claimNameToPid = o2.cn from hk.cn]

theorem sim_setMark (c : Cluster) (o : OC) (h : (proj c).Eqv o) (pid : String) :
    (proj (c.markForDeletion pid)).Eqv (o.setMark pid true) ∧ (proj (c.unmarkForDeletion pid)).Eqv (o.setMark pid false) := by
  unfold Cluster.markForDeletion Cluster.unmarkForDeletion OC.setMark
  rw [eqv_get h]
  cases hs : Map.get c.nodes pid with
  | none => exact ⟨h, h⟩
  | some sn =>
    dsimp only
    constructor
    · have : (proj { (c.updateNodePoolResources (some sn) (some { sn with marked := true })) with
          nodes := Map.put c.nodes pid { sn with marked := true } }).Eqv
          { o with nodes := Map.put o.nodes pid { sn.objs with marked := true } } :=
        eqv_put h pid _ _ (by simp [SNode.objs]) _ _ rfl rfl (by simp [updateNodePoolResources]; exact h.nn)
          (by simp [updateNodePoolResources]; exact h.cn)
      split
      · exact ⟨this.nodes, this.nn, this.cn⟩
      · exact this
    · have : (proj { (c.updateNodePoolResources (some sn) (some { sn with marked := false })) with
          nodes := Map.put c.nodes pid { sn with marked := false } }).Eqv
          { o with nodes := Map.put o.nodes pid { sn.objs with marked := false } } :=
        eqv_put h pid _ _ (by simp [SNode.objs]) _ _ rfl rfl (by simp [updateNodePoolResources]; exact h.nn)
          (by simp [updateNodePoolResources]; exact h.cn)
      split
      · split
        · exact ⟨this.nodes, this.nn, this.cn⟩
        · exact this
      · exact this

theorem sim_nominate (c : Cluster) (o : OC) (h : (proj c).Eqv o) (pid : String) :
    (proj (c.nominate pid)).Eqv (o.nominate pid) := by
  unfold Cluster.nominate OC.nominate
  rw [eqv_get h]
  cases hs : Map.get c.nodes pid with
  | none => exact h
  | some sn =>
    exact eqv_put h pid _ _ (by simp [SNode.objs]) _ _ rfl rfl h.nn h.cn

/-- one event: the model step projects onto the object-layer step -/
theorem sim_step (fx : Fixes) (c : Cluster) (o : OC) (h : (proj c).Eqv o) (api : Api) (e : Event) :
    match c.step fx api e, o.step api e with
    | .ok (c', _), some o' => (proj c').Eqv o'
    | .error _, none => True
    | _, _ => False := by
  have lift : ∀ (r : RecResult) (m : M Cluster) (x : Option OC), Sim m x →
      match withResult r m, x with
      | .ok (c', _), some o' => (proj c').Eqv o'
      | .error _, none => True
      | _, _ => False := by
    intro r m x hs
    cases m with
    | error e => cases x with
      | none => simp [withResult]
      | some o' => simp [Sim] at hs
    | ok c' => cases x with
      | none => simp [Sim] at hs
      | some o' => simpa [withResult, Sim] using hs
  cases e with
  | recNode name =>
    simp only [Cluster.step, OC.step]
    cases Map.get api.nodes name with
    | none => exact lift _ _ _ (sim_cleanupNode fx c o h name)
    | some n => exact lift _ _ _ (sim_updateNode fx c o h api n)
  | recClaim name =>
    simp only [Cluster.step, OC.step]
    cases Map.get api.claims name with
    | none => exact lift _ _ _ (sim_cleanupNodeClaim c o h name)
    | some cl =>
      dsimp only
      by_cases hm : (!cl.managed) = true
      · rw [if_pos hm, if_pos hm]; exact h
      · rw [if_neg hm, if_neg hm]; exact lift _ _ _ (sim_updateNodeClaim fx c o h cl)
  | recPod name =>
    simp only [Cluster.step, OC.step]
    cases Map.get api.pods name with
    | none => exact OC.Eqv.trans (podCompletion_podOnly c name).eqv h
    | some p => exact OC.Eqv.trans (updatePod_podOnly fx c p).eqv h
  | mark pid => simp only [Cluster.step, OC.step]; exact (sim_setMark c o h pid).1
  | unmark pid => simp only [Cluster.step, OC.step]; exact (sim_setMark c o h pid).2
  | nominate pid => simp only [Cluster.step, OC.step]; exact sim_nominate c o h pid
  | setNode _ | delNode _ | setClaim _ | delClaim _ | setPod _ | delPod _ =>
    simp only [Cluster.step, OC.step]; exact h

end Karp.ClusterState
