/- Lemmas about the TopologyGroup model: association-list map, the emptyDomains index invariant. -/
import Karp.Model.Topo
import Karp.Proofs.ReqLemmas
import Batteries.Data.List.Perm

namespace Karp.Topo
open Karp.Req

theorem cnt?_del (m : DMap) (d x : Val) : (m.del d).cnt? x = if x = d then none else m.cnt? x := by
  induction m with
  | nil => simp [DMap.del, DMap.cnt?]
  | cons p m ih =>
    obtain ⟨k, c⟩ := p
    simp only [DMap.del]
    by_cases hk : k = d
    · simp only [hk, if_true, ih, DMap.cnt?]
      by_cases hx : x = d
      · simp [hx]
      · have : ¬ d = x := fun h => hx h.symm
        simp [hx, this]
    · simp only [hk, if_false, DMap.cnt?, ih]
      by_cases hx : x = d
      · simp [hx]; intro h; exact absurd h hk
      · simp [hx]

theorem cnt?_put (m : DMap) (d x : Val) (c : Nat) :
    (m.put d c).cnt? x = if x = d then some c else m.cnt? x := by
  unfold DMap.put
  simp only [DMap.cnt?, cnt?_del]
  by_cases hx : x = d
  · simp [hx]
  · have : ¬ d = x := fun h => hx h.symm
    simp [hx, this]

theorem mem_keys (m : DMap) (d : Val) : d ∈ m.keys ↔ (m.cnt? d).isSome = true := by
  induction m with
  | nil => simp [DMap.keys, DMap.cnt?]
  | cons p m ih =>
    obtain ⟨k, c⟩ := p
    unfold DMap.keys at *
    by_cases h : k = d
    · simp [DMap.cnt?, h]
    · have : ¬ d = k := fun e => h e.symm
      simp [DMap.cnt?, h, this, ih]

theorem mem_setDel (s : List Val) (d x : Val) : x ∈ setDel s d ↔ x ∈ s ∧ x ≠ d := by
  induction s with
  | nil => simp [setDel]
  | cons y s ih =>
    simp only [setDel]
    by_cases h : y = d
    · simp only [h, if_true, ih, List.mem_cons]
      constructor
      · rintro ⟨h1, h2⟩; exact ⟨Or.inr h1, h2⟩
      · rintro ⟨h1 | h1, h2⟩
        · exact absurd h1 h2
        · exact ⟨h1, h2⟩
    · simp only [h, if_false, List.mem_cons, ih]
      constructor
      · rintro (h1 | ⟨h1, h2⟩)
        · exact ⟨Or.inl h1, by rw [h1]; exact h⟩
        · exact ⟨Or.inr h1, h2⟩
      · rintro ⟨h1 | h1, h2⟩
        · exact Or.inl h1
        · exact Or.inr ⟨h1, h2⟩

theorem nodup_setDel (s : List Val) (d : Val) (h : s.Nodup) : (setDel s d).Nodup := by
  induction s with
  | nil => simp [setDel]
  | cons y s ih =>
    simp only [setDel]
    rw [List.nodup_cons] at h
    by_cases hy : y = d
    · simp only [hy, if_true]; exact ih h.2
    · simp only [hy, if_false, List.nodup_cons]
      exact ⟨fun hm => h.1 ((mem_setDel s d y).1 hm).1, ih h.2⟩

theorem mem_setIns (s : List Val) (d x : Val) : x ∈ setIns s d ↔ x ∈ s ∨ x = d := by
  unfold setIns
  by_cases h : d ∈ s
  · simp only [h, if_true]
    constructor
    · exact Or.inl
    · rintro (h1 | h1)
      · exact h1
      · rw [h1]; exact h
  · simp only [h, if_false, List.mem_cons]
    constructor
    · rintro (h1 | h1); exact Or.inr h1; exact Or.inl h1
    · rintro (h1 | h1); exact Or.inr h1; exact Or.inl h1

theorem nodup_setIns (s : List Val) (d : Val) (h : s.Nodup) : (setIns s d).Nodup := by
  unfold setIns
  by_cases hd : d ∈ s
  · rw [if_pos hd]; exact h
  · rw [if_neg hd]; exact List.nodup_cons.2 ⟨hd, h⟩

theorem keys_del_sub (m : DMap) (d x : Val) : x ∈ (m.del d).keys ↔ x ∈ m.keys ∧ x ≠ d := by
  rw [mem_keys, mem_keys, cnt?_del]
  by_cases h : x = d <;> simp [h]

theorem nodup_del (m : DMap) (d : Val) (h : m.keys.Nodup) : (m.del d).keys.Nodup := by
  induction m with
  | nil => simp [DMap.del, DMap.keys]
  | cons p m ih =>
    obtain ⟨k, c⟩ := p
    have h' : k ∉ DMap.keys m ∧ (DMap.keys m).Nodup := by simpa [DMap.keys] using h
    simp only [DMap.del]
    by_cases hk : k = d
    · simp only [hk, if_true]; exact ih h'.2
    · simp only [hk, if_false]
      show (k :: DMap.keys (DMap.del m d)).Nodup
      rw [List.nodup_cons]
      exact ⟨fun hm => h'.1 ((keys_del_sub m d k).1 hm).1, ih h'.2⟩

theorem nodup_put (m : DMap) (d : Val) (c : Nat) (h : m.keys.Nodup) : (m.put d c).keys.Nodup := by
  unfold DMap.put
  show (d :: (m.del d).keys).Nodup
  rw [List.nodup_cons]
  exact ⟨fun hm => ((keys_del_sub m d d).1 hm).2 rfl, nodup_del m d h⟩

/-- the `emptyDomains` index is exactly the set of registered domains whose count is zero -/
structure TG.Inv (t : TG) : Prop where
  keysNodup  : t.domains.keys.Nodup
  emptyNodup : t.empty.Nodup
  emptyIff   : ∀ d, d ∈ t.empty ↔ t.domains.cnt? d = some 0

theorem inv_record1 (t : TG) (d : Val) (h : t.Inv) : (t.record1 d).Inv := by
  refine ⟨nodup_put _ _ _ h.keysNodup, nodup_setDel _ _ h.emptyNodup, ?_⟩
  intro x
  simp only [TG.record1, mem_setDel, cnt?_put, h.emptyIff]
  by_cases hx : x = d <;> simp [hx]

theorem inv_register1 (t : TG) (d : Val) (h : t.Inv) : (t.register1 d).Inv := by
  unfold TG.register1
  by_cases hs : (t.domains.cnt? d).isSome = true
  · rw [if_pos hs]; exact h
  · rw [if_neg hs]
    refine ⟨nodup_put _ _ _ h.keysNodup, nodup_setIns _ _ h.emptyNodup, ?_⟩
    intro x
    simp only [mem_setIns, cnt?_put, h.emptyIff]
    by_cases hx : x = d <;> simp [hx]

theorem inv_unregister1 (t : TG) (d : Val) (h : t.Inv) : (t.unregister1 d).Inv := by
  refine ⟨nodup_del _ _ h.keysNodup, nodup_setDel _ _ h.emptyNodup, ?_⟩
  intro x
  simp only [TG.unregister1, mem_setDel, cnt?_del, h.emptyIff]
  by_cases hx : x = d <;> simp [hx]

theorem inv_foldl (f : TG → Val → TG) (hf : ∀ t d, t.Inv → (f t d).Inv) (ds : List Val) (t : TG) (h : t.Inv) :
    (ds.foldl f t).Inv := by
  induction ds generalizing t with
  | nil => exact h
  | cons d ds ih => exact ih _ (hf t d h)

theorem inv_step (t : TG) (op : Op) (h : t.Inv) : (t.step op).Inv := by
  cases op with
  | record ds => exact inv_foldl _ inv_record1 ds t h
  | register ds => exact inv_foldl _ inv_register1 ds t h
  | unregister ds => exact inv_foldl _ inv_unregister1 ds t h

theorem inv_run (t : TG) (ops : List Op) (h : t.Inv) : (t.run ops).Inv := by
  unfold TG.run
  induction ops generalizing t with
  | nil => exact h
  | cons o os ih => exact ih _ (inv_step t o h)

theorem inv_new (kind : Kind) (isHost : Bool) (maxSkew : Int) (minDomains : Option Int) (ai : Bool) (ds : List Val) :
    (TG.new kind isHost maxSkew minDomains ai ds).Inv := by
  unfold TG.new TG.register
  apply inv_foldl _ inv_register1
  exact ⟨by simp [DMap.keys], by simp, by intro d; simp [DMap.cnt?]⟩

theorem cnt_of_cnt? (m : DMap) (d : Val) (c : Nat) (h : m.cnt? d = some c) : m.cnt d = c := by
  simp [DMap.cnt, h]

theorem mem_of_cnt? (m : DMap) (d : Val) (c : Nat) (h : m.cnt? d = some c) : (d, c) ∈ m := by
  induction m with
  | nil => simp [DMap.cnt?] at h
  | cons p m ih =>
    obtain ⟨k, c'⟩ := p
    simp only [DMap.cnt?] at h
    by_cases hk : k = d
    · simp only [hk, if_true, Option.some.injEq] at h
      simp [hk, h]
    · simp only [hk, if_false] at h
      exact List.mem_cons_of_mem _ (ih h)

theorem cnt?_of_mem (m : DMap) (hn : m.keys.Nodup) (d : Val) (c : Nat) (h : (d, c) ∈ m) : m.cnt? d = some c := by
  induction m with
  | nil => simp at h
  | cons p m ih =>
    obtain ⟨k, c'⟩ := p
    have hn' : k ∉ DMap.keys m ∧ (DMap.keys m).Nodup := by simpa [DMap.keys] using hn
    simp only [DMap.cnt?]
    rcases List.mem_cons.1 h with h1 | h1
    · simp only [Prod.mk.injEq] at h1
      simp [h1.1, h1.2]
    · by_cases hk : k = d
      · exfalso; apply hn'.1; rw [hk]
        exact List.mem_map.2 ⟨(d, c), h1, rfl⟩
      · simp only [hk, if_false]; exact ih hn'.2 h1

theorem cnt_pos_iff (m : DMap) (d : Val) : 0 < m.cnt d ↔ ∃ c, m.cnt? d = some c ∧ 0 < c := by
  unfold DMap.cnt
  cases h : m.cnt? d with
  | none => simp
  | some c => simp

/-- pigeonhole: when `len(domains) == len(emptyDomains)` every registered domain is empty -/
theorem all_zero_of_len (t : TG) (h : t.Inv) (hl : t.domains.length = t.empty.length) (d : Val) (c : Nat)
    (hc : t.domains.cnt? d = some c) : c = 0 := by
  have hsub : t.empty ⊆ t.domains.keys := by
    intro x hx
    rw [mem_keys, (h.emptyIff x).1 hx]; rfl
  have hsp := List.subperm_of_subset h.emptyNodup hsub
  have hlen : t.domains.keys.length ≤ t.empty.length := by simp [DMap.keys, hl]
  have hp := hsp.perm_of_length_le hlen
  have hd : d ∈ t.domains.keys := by rw [mem_keys, hc]; rfl
  have := (h.emptyIff d).1 (hp.symm.subset hd)
  rw [hc] at this
  exact Option.some.inj this

/-- no registered domain the pod may use holds a matching pod -/
def NoCompat (t : TG) (pod : Req) : Prop :=
  ∀ d c, t.domains.cnt? d = some c → pod.has d = true → c = 0

theorem noCompat_of_anyCompat (t : TG) (pod : Req) (h : t.anyCompat pod = false) : NoCompat t pod := by
  intro d c hc hp
  unfold TG.anyCompat at h
  rw [List.any_eq_false] at h
  have := h (d, c) (mem_of_cnt? _ _ _ hc)
  simp only [hp, Bool.true_and, decide_eq_true_eq] at this
  omega

theorem bootstrap_sound (t : TG) (h : t.Inv) (self : Bool) (pod : Req) (hb : t.bootstrapOK self pod = true) :
    self = true ∧ NoCompat t pod := by
  unfold TG.bootstrapOK at hb
  simp only [Bool.and_eq_true, Bool.or_eq_true, beq_iff_eq, Bool.not_eq_true'] at hb
  refine ⟨hb.1, ?_⟩
  rcases hb.2 with hl | ha
  · intro d c hc _; exact all_zero_of_len t h hl d c hc
  · exact noCompat_of_anyCompat t pod ha

theorem positive_iff (t : TG) (d : Val) : t.positive d = true ↔ 0 < t.domains.cnt d := by
  unfold TG.positive
  rw [cnt_pos_iff]
  cases h : t.domains.cnt? d with
  | none => simp
  | some c => simp

/-! counters under `Record` -/

theorem cnt_record1 (t : TG) (d x : Val) :
    (t.record1 d).domains.cnt x = if x = d then t.domains.cnt d + 1 else t.domains.cnt x := by
  simp only [TG.record1, DMap.cnt, cnt?_put]
  by_cases hx : x = d <;> simp [hx]

theorem cnt_record (t : TG) (ds : List Val) (hn : ds.Nodup) (x : Val) :
    (t.record ds).domains.cnt x = t.domains.cnt x + (if x ∈ ds then 1 else 0) := by
  unfold TG.record
  induction ds generalizing t with
  | nil => simp
  | cons d ds ih =>
    rw [List.nodup_cons] at hn
    simp only [List.foldl_cons]
    rw [ih _ hn.2, cnt_record1]
    by_cases hx : x = d
    · subst hx; simp [hn.1]
    · simp [hx]

/-! the spread minimum -/

theorem le_foldl_min (l : DMap) (a k : Int) :
    k ≤ l.foldl (fun m p => min m (p.2 : Int)) a ↔ k ≤ a ∧ ∀ p ∈ l, k ≤ (p.2 : Int) := by
  induction l generalizing a with
  | nil => simp
  | cons p l ih =>
    simp only [List.foldl_cons, ih, List.mem_cons, forall_eq_or_imp]
    constructor
    · rintro ⟨h1, h2⟩; exact ⟨by omega, by omega, h2⟩
    · rintro ⟨h1, h2, h3⟩; exact ⟨by omega, h3⟩

/-- the kube-scheduler "global minimum": the smallest count over the registered domains that count -/
def gmin (t : TG) (s : Val → Bool) : Int :=
  (t.domains.filter (fun p => s p.1)).foldl (fun m p => min m (p.2 : Int)) maxI32

theorem le_gmin_iff (t : TG) (hn : t.domains.keys.Nodup) (s : Val → Bool) (k : Int) :
    k ≤ gmin t s ↔ k ≤ maxI32 ∧ ∀ d c, t.domains.cnt? d = some c → s d = true → k ≤ (c : Int) := by
  unfold gmin
  rw [le_foldl_min]
  constructor
  · rintro ⟨h1, h2⟩
    refine ⟨h1, fun d c hc hs => ?_⟩
    exact h2 (d, c) (List.mem_filter.2 ⟨mem_of_cnt? _ _ _ hc, hs⟩)
  · rintro ⟨h1, h2⟩
    refine ⟨h1, fun p hp => ?_⟩
    rw [List.mem_filter] at hp
    exact h2 p.1 p.2 (cnt?_of_mem _ hn _ _ hp.1) hp.2

theorem gmin_nonneg (t : TG) (s : Val → Bool) : 0 ≤ gmin t s := by
  unfold gmin
  rw [le_foldl_min]
  exact ⟨by decide, fun p _ => by omega⟩

/-- the floor the code subtracts: zero for hostname, otherwise the global minimum -/
def floor (t : TG) (s : Val → Bool) : Int := if t.isHost then 0 else gmin t s

theorem minCount_le_floor (t : TG) (s : Val → Bool) : t.minCount s ≤ floor t s := by
  unfold TG.minCount floor
  by_cases hh : t.isHost = true
  · simp [hh]
  · have h0 := gmin_nonneg t s
    unfold gmin at h0 ⊢
    simp only [hh]
    cases t.minDomains with
    | none => exact Int.le_refl _
    | some md =>
      by_cases hc : (((t.domains.filter (fun p => s p.1)).length : Nat) : Int) < md
      · simp only [hc, if_true]; exact h0
      · simp only [hc, if_false]; exact Int.le_refl _

theorem le_foldl_min' {α : Type} (f : α → Int) (l : List α) (a k : Int) :
    k ≤ l.foldl (fun m x => min m (f x)) a ↔ k ≤ a ∧ ∀ x ∈ l, k ≤ f x := by
  induction l generalizing a with
  | nil => simp
  | cons p l ih =>
    simp only [List.foldl_cons, ih, List.mem_cons, forall_eq_or_imp]
    constructor
    · rintro ⟨h1, h2⟩; exact ⟨by omega, by omega, h2⟩
    · rintro ⟨h1, h2, h3⟩; exact ⟨by omega, h3⟩

end Karp.Topo
