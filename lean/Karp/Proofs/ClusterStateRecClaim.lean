/-
C11 helper lemmas: a NodeClaim reconcile preserves the object-layer invariant.
-/
import Karp.Proofs.ClusterStateRecNode

namespace Karp.ClusterState
open Karp.Spec.ClusterAbs

theorem get_detachClaim (o : OC) (name id : String) (s : Objs) (id' : String) :
    Map.get ((o.detachClaim id s).forgetClaim name).nodes id' =
      if id' = id then (if s.node.isNone then none else some { s with claim := none }) else Map.get o.nodes id' := by
  unfold OC.detachClaim OC.forgetClaim
  dsimp only
  by_cases hc : s.node.isNone = true
  · rw [if_pos hc, Map.get_erase]; simp [hc]
  · rw [if_neg hc, Map.get_put]; simp [hc]

theorem detachClaim_cn (o : OC) (name id : String) (s : Objs) : ((o.detachClaim id s).forgetClaim name).cn = Map.erase o.cn name := rfl
theorem detachClaim_nn (o : OC) (name id : String) (s : Objs) : ((o.detachClaim id s).forgetClaim name).nn = o.nn := rfl

theorem get_putClaim (o : OC) (cl : ClaimObj) (old : Objs) (id' : String) :
    Map.get (o.putClaim cl old).nodes id' = if id' = cl.pid then some (claimEntry old cl) else Map.get o.nodes id' := by
  unfold OC.putClaim; dsimp only; rw [Map.get_put]

/-- what a NodeClaim reconcile of `name` may change, as far as the other objects are concerned -/
structure ClaimStep (o o' : OC) (name : String) : Prop where
  keepN : ∀ k x v, Map.get o.nodes k = some x → x.node = some v → ∃ x', Map.get o'.nodes k = some x' ∧ x'.node = some v
  keepC : ∀ k x cl, Map.get o.nodes k = some x → x.claim = some cl → cl.name ≠ name →
            ∃ x', Map.get o'.nodes k = some x' ∧ x'.claim = some cl
  cn : ∀ n', n' ≠ name → Map.get o'.cn n' = Map.get o.cn n'
  nn : o'.nn = o.nn
  carry : ∀ id s', Map.get o'.nodes id = some s' →
            s'.marked = ((Map.get o.nodes id).getD {}).marked ∧ s'.nominated = ((Map.get o.nodes id).getD {}).nominated

theorem claimStep_of_cn (o : OC) (name : String) (m : Map String) (hm : ∀ n', n' ≠ name → Map.get m n' = Map.get o.cn n') :
    ClaimStep o { o with cn := m } name :=
  ⟨fun k x v hx hv => ⟨x, hx, hv⟩, fun k x cl hx hc _ => ⟨x, hx, hc⟩, hm, rfl,
   fun id s' hs => by have hs' : Map.get o.nodes id = some s' := hs; rw [hs']; exact ⟨rfl, rfl⟩⟩

theorem nodeCons_of_claimStep {o o' : OC} {api : Api} {name name' : String} (hst : ClaimStep o o' name)
    (hc : NodeCons o api name') : NodeCons o' api name' := by
  unfold NodeCons at *
  rw [hst.nn]
  cases hv : Map.get api.nodes name' with
  | none => rw [hv] at hc; exact hc
  | some v =>
    rw [hv] at hc
    dsimp only at hc ⊢
    cases hk : nodeKey v with
    | none => rw [hk] at hc; exact hc
    | some k =>
      rw [hk] at hc
      dsimp only at hc ⊢
      obtain ⟨x, hx, hxv⟩ := hc
      exact hst.keepN k x _ hx hxv

theorem claimCons_of_claimStep {w : Owners} {o o' : OC} {api : Api} {name name' : String} (hst : ClaimStep o o' name)
    (hapi : ApiOK w api) (hne : name' ≠ name) (hc : ClaimCons o api name') : ClaimCons o' api name' := by
  unfold ClaimCons at *
  rw [hst.cn name' hne]
  cases hv : Map.get api.claims name' with
  | none => rw [hv] at hc; exact hc
  | some cl =>
    rw [hv] at hc
    dsimp only at hc ⊢
    by_cases hm : cl.managed = true
    · rw [if_pos hm] at hc ⊢
      refine ⟨hc.1, fun hp => ?_⟩
      obtain ⟨x, hx, hxc⟩ := hc.2 hp
      have : cl.name ≠ name := by rw [(hapi.claims name' cl hv).1]; exact hne
      exact hst.keepC cl.pid x cl hx hxc this
    · rw [if_neg hm] at hc ⊢; exact hc

theorem claimStep_detach {w : Owners} {o : OC} (h : Struct w o) {name id : String} {s : Objs}
    (hn : Map.get o.cn name = some id) (hid : id ≠ "") (hs : Map.get o.nodes id = some s) :
    ClaimStep o ((o.detachClaim id s).forgetClaim name) name := by
  obtain ⟨s0, cl0, hs0, hc0, hcn0⟩ := (h.cf name id hn).2 hid
  rw [hs] at hs0
  rw [← Option.some.inj hs0] at hc0
  refine ⟨?_, ?_, ?_, rfl, ?_⟩
  · intro k x v hx hv
    by_cases hk : k = id
    · rw [hk, hs] at hx
      rw [← Option.some.inj hx] at hv
      have : ¬ s.node.isNone = true := by rw [hv]; simp
      exact ⟨{ s with claim := none }, by rw [get_detachClaim, if_pos hk]; simp [this], hv⟩
    · exact ⟨x, by rw [get_detachClaim, if_neg hk]; exact hx, hv⟩
  · intro k x cl hx hc hne
    have hk : k ≠ id := by
      intro e
      rw [e, hs] at hx
      rw [← Option.some.inj hx, hc0] at hc
      rw [← Option.some.inj hc] at hne
      exact hne hcn0
    exact ⟨x, by rw [get_detachClaim, if_neg hk]; exact hx, hc⟩
  · intro n' hne
    rw [detachClaim_cn, Map.get_erase, if_neg hne]
  · intro id' s' hs'
    rw [get_detachClaim] at hs'
    by_cases hk : id' = id
    · rw [if_pos hk] at hs'
      by_cases hc : s.node.isNone = true
      · simp [hc] at hs'
      · simp [hc] at hs'
        rw [hk, hs, ← hs']; exact ⟨rfl, rfl⟩
    · rw [if_neg hk] at hs'
      rw [hs']; exact ⟨rfl, rfl⟩

theorem claimStep_put {w : Owners} {o : OC} (h : Struct w o) (cl : ClaimObj) (hw : w.claimOf cl.pid = cl.name) :
    ClaimStep o (o.putClaim cl ((Map.get o.nodes cl.pid).getD {})) cl.name := by
  refine ⟨?_, ?_, ?_, rfl, ?_⟩
  · intro k x v hx hv
    by_cases hk : k = cl.pid
    · refine ⟨_, by rw [get_putClaim, if_pos hk], ?_⟩
      show ((Map.get o.nodes cl.pid).getD {}).node = some v
      rw [← hk, hx]; exact hv
    · exact ⟨x, by rw [get_putClaim, if_neg hk]; exact hx, hv⟩
  · intro k x cl' hx hc hne
    have hk : k ≠ cl.pid := by
      intro e
      have := (h.cb k x cl' hx hc).2.2
      rw [e, hw] at this
      exact hne this.symm
    exact ⟨x, by rw [get_putClaim, if_neg hk]; exact hx, hc⟩
  · intro n' hne
    show Map.get (Map.put o.cn cl.name cl.pid) n' = _
    rw [Map.get_put, if_neg hne]
  · intro id' s' hs'
    rw [get_putClaim] at hs'
    by_cases hk : id' = cl.pid
    · rw [if_pos hk] at hs'
      rw [← Option.some.inj hs', hk]; exact ⟨rfl, rfl⟩
    · rw [if_neg hk] at hs'
      rw [hs']; exact ⟨rfl, rfl⟩

/-- assembling the invariant after a NodeClaim reconcile -/
theorem oinv_of_claimStep {w : Owners} {o o' : OC} {api : Api} {g : Ghost} (h : OInv w o api g) (hapi : ApiOK w api)
    (name : String) (st' : Struct w o') (hst : ClaimStep o o' name) (X : Map String) (m2 : o'.cn = X)
    (n2 : Map.NoDup o'.cn) (hself : ClaimCons o' api name) :
    OInv w o' api ({ (g.clean "c" name) with obsClaims := X } : Ghost).prune := by
  have hm := marks_after (g1 := ({ (g.clean "c" name) with obsClaims := X } : Ghost)) h st'
    (by rw [hst.nn]; exact h.m1) m2 (by rw [hst.nn]; exact h.n1) n2 rfl rfl hst.carry
  refine ⟨st', by rw [hst.nn]; exact h.m1, m2, by rw [hst.nn]; exact h.n1, n2, ?_, ?_, hm.1, hm.2⟩
  · intro name' hx
    have hx' : ("n", name') ∉ (g.clean "c" name).dirty := hx
    rw [mem_clean] at hx'
    have : ("n", name') ∉ g.dirty := by
      intro a; apply hx'; refine ⟨a, ?_⟩
      intro e
      have := (Prod.mk.inj e).1
      revert this; decide
    exact nodeCons_of_claimStep hst (h.cn name' this)
  · intro name' hx
    by_cases hne : name' = name
    · rw [hne]; exact hself
    · have hx' : ("c", name') ∉ (g.clean "c" name).dirty := hx
      rw [mem_clean] at hx'
      have : ("c", name') ∉ g.dirty := by
        intro a; apply hx'; refine ⟨a, ?_⟩
        intro e; exact hne (Prod.mk.inj e).2
      exact claimCons_of_claimStep hst hapi hne (h.cc name' this)

/-- `cleanupNodeClaim` under the structural invariant: never a nil dereference, and what it leaves -/
theorem cleanupNodeClaim_spec {w : Owners} {o : OC} (h : Struct w o) (name : String) :
    ∃ o2, o.cleanupNodeClaim name = some o2 ∧ Struct w o2 ∧ ClaimStep o o2 name ∧ o2.cn = Map.erase o.cn name ∧
      (∀ k, Map.get o.cn name ≠ some k → Map.get o2.nodes k = Map.get o.nodes k) := by
  unfold OC.cleanupNodeClaim
  have forget : Map.get o.cn name = none ∨ Map.get o.cn name = some "" →
      Struct w (o.forgetClaim name) ∧ ClaimStep o (o.forgetClaim name) name ∧ (o.forgetClaim name).cn = Map.erase o.cn name ∧
      (∀ k, Map.get (o.forgetClaim name).nodes k = Map.get o.nodes k) := by
    intro hn
    refine ⟨struct_forgetClaim h hn, ?_, rfl, fun _ => rfl⟩
    exact claimStep_of_cn o name _ (fun n' hne => by rw [Map.get_erase, if_neg hne])
  cases hg : Map.get o.cn name with
  | none =>
    have f := forget (Or.inl hg)
    exact ⟨_, rfl, f.1, f.2.1, f.2.2.1, fun k _ => f.2.2.2 k⟩
  | some id =>
    dsimp only
    by_cases hid : id ≠ ""
    · rw [if_pos hid]
      obtain ⟨s, cl, hs, hc, hcn⟩ := (h.cf name id hg).2 hid
      rw [hs]
      refine ⟨_, rfl, struct_detachClaim h hg hid hs, claimStep_detach h hg hid hs, rfl, ?_⟩
      intro k hk
      rw [get_detachClaim, if_neg (fun e => hk (by rw [e]))]
    · rw [if_neg hid]
      have : id = "" := by
        cases hd : decide (id = "") with
        | true => exact of_decide_eq_true hd
        | false => exact absurd (of_decide_eq_false hd) hid
      have f := forget (Or.inr (by rw [hg, this]))
      exact ⟨_, rfl, f.1, f.2.1, f.2.2.1, fun k _ => f.2.2.2 k⟩

theorem oinv_recClaim {w : Owners} {o : OC} {api : Api} {g : Ghost} (h : OInv w o api g) (hapi : ApiOK w api) (name : String)
    (hw : wClaimStep g api (.recClaim name) = true) :
    ∃ o', o.step api (.recClaim name) = some o' ∧ OInv w o' api (g.step api (.recClaim name)) := by
  simp only [OC.step, Ghost.step]
  cases hv : Map.get api.claims name with
  | none =>
    dsimp only
    obtain ⟨o2, ho2, st2, cs2, hcn2, _⟩ := cleanupNodeClaim_spec h.st name
    refine ⟨o2, ho2, ?_⟩
    have hX : Map.erase (g.clean "c" name).obsClaims name = o2.cn := by
      show Map.erase g.obsClaims name = _
      rw [hcn2, h.m2]
    rw [hX]
    refine oinv_of_claimStep h hapi name st2 cs2 _ rfl (by rw [hcn2]; exact Map.noDup_erase h.n2 name) ?_
    unfold ClaimCons
    rw [hv]; dsimp only
    rw [hcn2, Map.get_erase_self]
  | some cl =>
    dsimp only
    have hclname : cl.name = name := (hapi.claims name cl hv).1
    have hclok : w.okClaim cl := (hapi.claims name cl hv).2
    by_cases hm : cl.managed = true
    · -- a claim of this provider
      have hm' : (!cl.managed) = false := by rw [hm]; rfl
      rw [hm']
      simp only [Bool.false_eq_true, if_false, hm, if_true]
      have hmg : w.managed name = true := by rw [← hclname, hclok.2, hm]
      unfold OC.updateNodeClaim
      by_cases hp : cl.pid ≠ ""
      · rw [if_pos hp]
        have hown : w.claimOf cl.pid = cl.name := hclok.1 hp
        unfold OC.installClaim
        dsimp only
        rw [hclname]
        -- first get rid of the state node the claim was known under (if any)
        have key : ∃ o2, (if Cluster.rekeyed o.cn name cl.pid = true then o.cleanupNodeClaim name else some o) = some o2 ∧
            Struct w o2 ∧ ClaimStep o o2 name ∧ (Map.get o2.cn name = none ∨ Map.get o2.cn name = some cl.pid) ∧
            Map.put o2.cn name cl.pid = Map.put o.cn name cl.pid ∧ Map.NoDup o2.cn ∧
            Map.get o2.nodes cl.pid = Map.get o.nodes cl.pid := by
          by_cases hrk : Cluster.rekeyed o.cn name cl.pid = true
          · rw [if_pos hrk]
            obtain ⟨o2, ho2, st2, cs2, hcn2, hget2⟩ := cleanupNodeClaim_spec h.st name
            refine ⟨o2, ho2, st2, cs2, Or.inl (by rw [hcn2, Map.get_erase_self]), by rw [hcn2, Map.put_erase],
              by rw [hcn2]; exact Map.noDup_erase h.n2 name, ?_⟩
            apply hget2
            unfold Cluster.rekeyed at hrk
            intro e
            rw [e] at hrk
            simp at hrk
          · rw [if_neg hrk]
            refine ⟨o, rfl, h.st, ?_, ?_, rfl, h.n2, rfl⟩
            · exact ⟨fun k x v hx hv => ⟨x, hx, hv⟩, fun k x c hx hc _ => ⟨x, hx, hc⟩, fun _ _ => rfl, rfl,
                fun id s' hs => by rw [hs]; exact ⟨rfl, rfl⟩⟩
            · unfold Cluster.rekeyed at hrk
              cases hg : Map.get o.cn name with
              | none => exact Or.inl rfl
              | some id0 =>
                rw [hg] at hrk
                right
                have : id0 = cl.pid := by simpa using hrk
                rw [this]
        obtain ⟨o2, ho2, st2, cs2, hcn2, hput2, hnd2, hget2⟩ := key
        rw [ho2]
        dsimp only
        refine ⟨o2.putClaim cl ((Map.get o.nodes cl.pid).getD {}), ?_, ?_⟩
        · rw [← hclname]; rfl
        · have st3 := struct_putClaim st2 cl hp hown (by rw [hclname]; exact hmg) (by rw [hclname]; exact hcn2)
          have cs3 := claimStep_put st2 cl hown
          rw [hget2] at st3 cs3
          rw [hclname] at cs3
          have hX : Map.put (g.clean "c" name).obsClaims name cl.pid = (o2.putClaim cl ((Map.get o.nodes cl.pid).getD {})).cn := by
            show Map.put g.obsClaims name cl.pid = Map.put o2.cn cl.name cl.pid
            rw [hclname, hput2, h.m2]
          rw [hX]
          refine oinv_of_claimStep h hapi name st3 ?_ _ rfl ?_ ?_
          · refine ⟨?_, ?_, ?_, ?_, ?_⟩
            · intro k x v hx hv'
              obtain ⟨x1, hx1, hv1⟩ := cs2.keepN k x v hx hv'
              exact cs3.keepN k x1 v hx1 hv1
            · intro k x c hx hc hne
              obtain ⟨x1, hx1, hc1⟩ := cs2.keepC k x c hx hc hne
              exact cs3.keepC k x1 c hx1 hc1 hne
            · intro n' hne; rw [cs3.cn n' hne, cs2.cn n' hne]
            · rw [cs3.nn, cs2.nn]
            · intro id' s' hs'
              rw [get_putClaim] at hs'
              by_cases hk' : id' = cl.pid
              · rw [if_pos hk'] at hs'
                rw [← Option.some.inj hs', hk']; exact ⟨rfl, rfl⟩
              · rw [if_neg hk'] at hs'
                exact cs2.carry id' s' hs'
          · show Map.NoDup (Map.put o2.cn cl.name cl.pid)
            exact Map.noDup_put hnd2 _ _
          · unfold ClaimCons
            rw [hv]; dsimp only; rw [if_pos hm]
            refine ⟨?_, fun _ => ⟨_, by rw [get_putClaim, if_pos rfl], rfl⟩⟩
            show Map.get (Map.put o2.cn cl.name cl.pid) name = some cl.pid
            rw [hclname, Map.get_put_self]
      · -- not launched yet: only the name is recorded
        rw [if_neg hp]
        dsimp only
        have hpe : cl.pid = "" := by
          cases hd : decide (cl.pid = "") with
          | true => exact of_decide_eq_true hd
          | false => exact absurd (of_decide_eq_false hd) hp
        refine ⟨_, rfl, ?_⟩
        have hcn : Map.get o.cn name = none ∨ Map.get o.cn name = some "" := by
          simp only [wClaimStep, hv, hm, hpe] at hw
          rw [h.m2]
          cases hx : Map.get g.obsClaims name with
          | none => exact Or.inl rfl
          | some p =>
            rw [hx] at hw
            right
            have : p = "" := by simpa using hw
            rw [this]
        have st3 := struct_recordUnlaunched h.st hcn hmg
        rw [hclname, hpe]
        have hX : Map.put (g.clean "c" name).obsClaims name "" = ({ o with cn := Map.put o.cn name "" } : OC).cn := by
          show Map.put g.obsClaims name "" = Map.put o.cn name ""
          rw [h.m2]
        rw [hX]
        refine oinv_of_claimStep h hapi name st3 (claimStep_of_cn o name _ (fun n' hne => by rw [Map.get_put, if_neg hne])) _ rfl
          (Map.noDup_put h.n2 _ _) ?_
        unfold ClaimCons
        rw [hv]; dsimp only; rw [if_pos hm]
        refine ⟨?_, fun hx => absurd hpe hx⟩
        show Map.get (Map.put o.cn name "") name = some cl.pid
        rw [Map.get_put_self, hpe]
    · -- a claim of another provider is ignored
      have hm' : (!cl.managed) = true := by
        cases hc : cl.managed with
        | true => exact absurd hc hm
        | false => rfl
      rw [hm']
      simp only [if_true]
      have hmf : cl.managed = false := by
        cases hc : cl.managed with
        | true => exact absurd hc hm
        | false => rfl
      rw [hmf]
      simp only [Bool.false_eq_true, if_false]
      refine ⟨o, rfl, ?_⟩
      have := oinv_of_claimStep h hapi name h.st
        (⟨fun k x v hx hv => ⟨x, hx, hv⟩, fun k x c hx hc _ => ⟨x, hx, hc⟩, fun _ _ => rfl, rfl,
          fun id s' hs => by rw [hs]; exact ⟨rfl, rfl⟩⟩ : ClaimStep o o name) o.cn rfl h.n2 ?_
      · rw [h.m2] at this; exact this
      · unfold ClaimCons
        rw [hv]; dsimp only; rw [hmf]
        simp only [Bool.false_eq_true, if_false]
        cases hx : Map.get o.cn name with
        | none => rfl
        | some id =>
          have := (h.st.cf name id hx).1
          rw [← hclname, hclok.2, hmf] at this
          simp at this

end Karp.ClusterState
