/-
Helper lemmas for C11: association lists (`Map`), string sets, resource vectors.
-/
import Karp.Model.ClusterState

namespace Karp.ClusterState

/-! ## Res -/

theorem Res.ext' {a b : Res} (h1 : a.cpu = b.cpu) (h2 : a.mem = b.mem) (h3 : a.pods = b.pods) (h4 : a.ext = b.ext)
    (h5 : a.nodes = b.nodes) : a = b := by
  cases a; cases b; simp_all

theorem Res.add_zero (a : Res) : a.add Res.zero = a := by
  apply Res.ext' <;> simp [Res.add, Res.zero]
theorem Res.zero_add (a : Res) : Res.zero.add a = a := by
  apply Res.ext' <;> simp [Res.add, Res.zero]
theorem Res.sub_zero (a : Res) : a.sub Res.zero = a := by
  apply Res.ext' <;> simp [Res.sub, Res.zero]
theorem Res.add_comm (a b : Res) : a.add b = b.add a := by
  apply Res.ext' <;> simp [Res.add] <;> omega
theorem Res.add_assoc (a b c : Res) : (a.add b).add c = a.add (b.add c) := by
  apply Res.ext' <;> simp [Res.add] <;> omega
theorem Res.add_sub_cancel (a b : Res) : (a.add b).sub b = a := by
  apply Res.ext' <;> simp [Res.add, Res.sub]
theorem Res.add_sub_comm (a b c : Res) : (a.add b).sub c = (a.sub c).add b := by
  apply Res.ext' <;> simp [Res.add, Res.sub] <;> omega
theorem Res.sub_add_cancel (a b : Res) : (a.sub b).add b = a := by
  apply Res.ext' <;> simp [Res.add, Res.sub]
theorem Res.add_left_comm (a b c : Res) : a.add (b.add c) = b.add (a.add c) := by
  apply Res.ext' <;> simp [Res.add] <;> omega

theorem Res.isZero_iff (a : Res) : a.isZero = true ↔ a = Res.zero := by
  simp [Res.isZero]

/-! ## Map -/

namespace Map
variable {α : Type}

@[simp] theorem get_nil (k : String) : Map.get ([] : Map α) k = none := rfl

theorem get_cons (k' : String) (v : α) (m : Map α) (k : String) :
    Map.get ((k', v) :: m) k = if k' = k then some v else Map.get m k := rfl

theorem erase_nil (k : String) : Map.erase ([] : Map α) k = [] := rfl

theorem erase_cons (k0 : String) (v : α) (m : Map α) (k : String) :
    Map.erase ((k0, v) :: m) k = if k0 = k then Map.erase m k else (k0, v) :: Map.erase m k := by
  by_cases h : k0 = k
  · simp [Map.erase, List.filter, h]
  · simp [Map.erase, List.filter, h]

theorem keys_cons (k0 : String) (v : α) (m : Map α) : Map.keys ((k0, v) :: m) = k0 :: Map.keys m := rfl
theorem keys_nil : Map.keys ([] : Map α) = [] := rfl

theorem get_erase (m : Map α) (k k' : String) :
    Map.get (Map.erase m k) k' = if k' = k then none else Map.get m k' := by
  induction m with
  | nil => simp [erase_nil]
  | cons e m ih =>
    obtain ⟨k0, v⟩ := e
    rw [erase_cons]
    by_cases h0 : k0 = k
    · simp only [h0, if_true, ih, get_cons]
      by_cases h : k' = k
      · simp [h]
      · have : k ≠ k' := fun e => h e.symm
        simp [h, this]
    · simp only [h0, if_false, get_cons, ih]
      by_cases h : k' = k
      · have : k0 ≠ k' := by rw [h]; exact h0
        simp [h, this, h0]
      · simp [h]

theorem get_erase_self (m : Map α) (k : String) : Map.get (Map.erase m k) k = none := by
  simp [get_erase]

theorem get_erase_ne (m : Map α) (k k' : String) (h : k' ≠ k) : Map.get (Map.erase m k) k' = Map.get m k' := by
  simp [get_erase, h]

theorem get_put (m : Map α) (k k' : String) (v : α) :
    Map.get (Map.put m k v) k' = if k' = k then some v else Map.get m k' := by
  unfold Map.put
  rw [get_cons, get_erase]
  by_cases h : k' = k
  · simp [h]
  · have : k ≠ k' := fun e => h e.symm
    simp [h, this]

theorem get_put_self (m : Map α) (k : String) (v : α) : Map.get (Map.put m k v) k = some v := by
  simp [get_put]

theorem get_put_ne (m : Map α) (k k' : String) (v : α) (h : k' ≠ k) : Map.get (Map.put m k v) k' = Map.get m k' := by
  simp [get_put, h]

theorem erase_of_get_none (m : Map α) (k : String) (h : Map.get m k = none) : Map.erase m k = m := by
  induction m with
  | nil => rfl
  | cons e m ih =>
    obtain ⟨k0, v⟩ := e
    rw [get_cons] at h
    by_cases h0 : k0 = k
    · simp [h0] at h
    · simp only [h0, if_false] at h
      rw [erase_cons]; simp [h0, ih h]

theorem erase_erase (m : Map α) (k : String) : Map.erase (Map.erase m k) k = Map.erase m k :=
  erase_of_get_none _ _ (get_erase_self m k)

theorem put_erase (m : Map α) (k : String) (v : α) : Map.put (Map.erase m k) k v = Map.put m k v := by
  simp [Map.put, erase_erase]

theorem has_eq (m : Map α) (k : String) : Map.has m k = (Map.get m k).isSome := rfl

theorem getD_eq (m : Map α) (k : String) (d : α) : Map.getD m k d = (Map.get m k).getD d := rfl

/-- keys are pairwise distinct -/
def NoDup (m : Map α) : Prop := (Map.keys m).Nodup

theorem noDup_nil : NoDup ([] : Map α) := by simp [NoDup, Map.keys]

theorem noDup_cons (k0 : String) (v : α) (m : Map α) : NoDup ((k0, v) :: m) ↔ k0 ∉ Map.keys m ∧ NoDup m := by
  simp [NoDup, keys_cons]

theorem mem_keys_iff (m : Map α) (k : String) : k ∈ Map.keys m ↔ (Map.get m k).isSome = true := by
  induction m with
  | nil => simp [keys_nil]
  | cons e m ih =>
    obtain ⟨k0, v0⟩ := e
    rw [keys_cons, get_cons, List.mem_cons, ih]
    by_cases h0 : k0 = k
    · simp [h0]
    · have : k ≠ k0 := fun e => h0 e.symm
      simp [h0, this]

theorem mem_keys_of_get {m : Map α} {k : String} {v : α} (h : Map.get m k = some v) : k ∈ Map.keys m := by
  rw [mem_keys_iff, h]; rfl

theorem get_none_of_not_mem_keys {m : Map α} {k : String} (h : k ∉ Map.keys m) : Map.get m k = none := by
  rw [mem_keys_iff] at h
  cases hg : Map.get m k with
  | none => rfl
  | some v => simp [hg] at h

theorem mem_keys_erase (m : Map α) (k x : String) : x ∈ Map.keys (Map.erase m k) ↔ x ∈ Map.keys m ∧ x ≠ k := by
  rw [mem_keys_iff, mem_keys_iff, get_erase]
  by_cases h : x = k
  · simp [h]
  · simp [h]

theorem noDup_erase {m : Map α} (h : NoDup m) (k : String) : NoDup (Map.erase m k) := by
  induction m with
  | nil => simpa [erase_nil] using h
  | cons e m ih =>
    obtain ⟨k0, v⟩ := e
    rw [noDup_cons] at h
    rw [erase_cons]
    by_cases h0 : k0 = k
    · simp only [h0, if_true]; exact ih h.2
    · simp only [h0, if_false]
      rw [noDup_cons]
      refine ⟨?_, ih h.2⟩
      rw [mem_keys_erase]
      intro hm; exact h.1 hm.1

theorem noDup_put {m : Map α} (h : NoDup m) (k : String) (v : α) : NoDup (Map.put m k v) := by
  unfold Map.put
  rw [noDup_cons]
  refine ⟨?_, noDup_erase h k⟩
  rw [mem_keys_erase]
  intro hm; exact hm.2 rfl

end Map

/-! ## String sets -/

theorem mem_sInsert (x y : String) (l : List String) : y ∈ sInsert x l ↔ y = x ∨ y ∈ l := by
  unfold sInsert
  by_cases h : l.contains x = true
  · rw [if_pos h]
    constructor
    · intro a; exact Or.inr a
    · intro a
      rcases a with a | a
      · rw [a]; simpa using h
      · exact a
  · rw [if_neg h]; simp

theorem mem_sErase (x y : String) (l : List String) : y ∈ sErase x l ↔ y ≠ x ∧ y ∈ l := by
  unfold sErase
  simp [List.mem_filter]
  exact And.comm

end Karp.ClusterState
