/-
C11 helper lemmas about the specification's ghost (observed snapshot, marks, dirty set).
-/
import Karp.Proofs.ClusterStateStruct

namespace Karp.ClusterState
open Karp.Spec.ClusterAbs

/-! ### association lists: membership vs lookup -/

theorem Map.mem_of_get {α : Type} {m : Map α} {k : String} {v : α} (h : Map.get m k = some v) : (k, v) ∈ m := by
  induction m with
  | nil => simp at h
  | cons e m ih =>
    obtain ⟨k0, v0⟩ := e
    rw [Map.get_cons] at h
    by_cases h0 : k0 = k
    · rw [if_pos h0] at h
      rw [h0, Option.some.inj h]; exact List.mem_cons_self
    · rw [if_neg h0] at h
      exact List.mem_cons_of_mem _ (ih h)

theorem Map.get_of_mem {α : Type} {m : Map α} {k : String} {v : α} (hn : Map.NoDup m) (h : (k, v) ∈ m) : Map.get m k = some v := by
  induction m with
  | nil => simp at h
  | cons e m ih =>
    obtain ⟨k0, v0⟩ := e
    rw [Map.noDup_cons] at hn
    rw [Map.get_cons]
    rcases List.mem_cons.mp h with h | h
    · have h1 : k = k0 := (Prod.mk.inj h).1
      have h2 : v = v0 := (Prod.mk.inj h).2
      rw [if_pos h1.symm, h2]
    · have : k0 ≠ k := by
        intro e
        apply hn.1
        rw [e]
        exact Map.mem_keys_of_get (ih hn.2 h)
      rw [if_neg this]; exact ih hn.2 h

theorem Map.any_val_iff {m : Map String} (hn : Map.NoDup m) (id : String) :
    m.any (fun e => decide (e.2 = id)) = true ↔ ∃ name, Map.get m name = some id := by
  rw [List.any_eq_true]
  constructor
  · intro ⟨e, he, hd⟩
    obtain ⟨k, v⟩ := e
    have : v = id := by simpa using hd
    exact ⟨k, this ▸ Map.get_of_mem hn he⟩
  · intro ⟨name, hg⟩
    exact ⟨(name, id), Map.mem_of_get hg, by simp⟩

/-! ### tracked provider ids -/

theorem tracked_iff {w : Owners} {o : OC} {g : Ghost} (h : Struct w o) (m1 : o.nn = g.obsNodes) (m2 : o.cn = g.obsClaims)
    (n1 : Map.NoDup o.nn) (n2 : Map.NoDup o.cn) (id : String) :
    g.tracked id = true ↔ (Map.get o.nodes id).isSome = true := by
  unfold Ghost.tracked
  rw [← m1, ← m2]
  simp only [Bool.and_eq_true, Bool.or_eq_true, decide_eq_true_eq]
  rw [Map.any_val_iff n1, Map.any_val_iff n2]
  constructor
  · intro ⟨hid, hx⟩
    rcases hx with ⟨name, hg⟩ | ⟨name, hg⟩
    · obtain ⟨s, _, hs, _, _⟩ := h.nf name id hg
      rw [hs]; rfl
    · obtain ⟨s, _, hs, _, _⟩ := (h.cf name id hg).2 hid
      rw [hs]; rfl
  · intro hs
    cases hg : Map.get o.nodes id with
    | none => rw [hg] at hs; simp at hs
    | some s =>
      have hid : id ≠ "" := by intro e; rw [e, h.k0] at hg; simp at hg
      refine ⟨hid, ?_⟩
      rcases h.ne id s hg with hn | hc
      · cases hv : s.node with
        | none => rw [hv] at hn; simp at hn
        | some v => exact Or.inl ⟨v.name, (h.nb id s v hg hv).1⟩
      · cases hv : s.claim with
        | none => rw [hv] at hc; simp at hc
        | some cl => exact Or.inr ⟨cl.name, (h.cb id s cl hg hv).1⟩

/-! ### dirty keys -/

theorem mem_soil (g : Ghost) (k n : String) (x : String × String) : x ∈ (g.soil k n).dirty ↔ x = (k, n) ∨ x ∈ g.dirty := by
  unfold Ghost.soil
  by_cases h : g.dirty.contains (k, n) = true
  · rw [if_pos h]
    constructor
    · intro a; exact Or.inr a
    · intro a
      rcases a with a | a
      · rw [a]; simpa using h
      · exact a
  · rw [if_neg h]; simp

theorem mem_clean (g : Ghost) (k n : String) (x : String × String) : x ∈ (g.clean k n).dirty ↔ x ∈ g.dirty ∧ x ≠ (k, n) := by
  unfold Ghost.clean
  simp [List.mem_filter]

theorem prune_dirty (g : Ghost) : g.prune.dirty = g.dirty := rfl
theorem prune_obsNodes (g : Ghost) : g.prune.obsNodes = g.obsNodes := rfl
theorem prune_obsClaims (g : Ghost) : g.prune.obsClaims = g.obsClaims := rfl

theorem contains_filter (l : List String) (p : String → Bool) (x : String) :
    (l.filter p).contains x = (l.contains x && p x) := by
  induction l with
  | nil => simp
  | cons a l ih =>
    by_cases ha : p a = true
    · rw [List.filter_cons_of_pos ha]
      simp only [List.contains_cons, ih]
      by_cases hx : x = a
      · subst hx; simp [ha]
      · have : (x == a) = false := by simpa using hx
        simp [this]
    · rw [List.filter_cons_of_neg ha]
      simp only [List.contains_cons, ih]
      by_cases hx : x = a
      · subst hx
        have : p x = false := by simpa using ha
        simp [this]
      · have : (x == a) = false := by simpa using hx
        simp [this]

theorem contains_sInsert (l : List String) (x y : String) : (sInsert x l).contains y = (decide (y = x) || l.contains y) := by
  have := mem_sInsert x y l
  by_cases h : y ∈ sInsert x l
  · have h' := this.mp h
    rw [List.contains_iff_mem.mpr h]
    rcases h' with h' | h'
    · simp [h']
    · rw [List.contains_iff_mem.mpr h']; simp
  · have h' : ¬ (y = x ∨ y ∈ l) := fun a => h (this.mpr a)
    have h1 : ¬ y = x := fun a => h' (Or.inl a)
    have h2 : ¬ y ∈ l := fun a => h' (Or.inr a)
    have e1 : (sInsert x l).contains y = false := by
      cases hc : (sInsert x l).contains y with
      | false => rfl
      | true => exact absurd (List.contains_iff_mem.mp hc) h
    have e2 : l.contains y = false := by
      cases hc : l.contains y with
      | false => rfl
      | true => exact absurd (List.contains_iff_mem.mp hc) h2
    rw [e1, e2]; simp [h1]

theorem contains_sErase (l : List String) (x y : String) : (sErase x l).contains y = (!decide (y = x) && l.contains y) := by
  unfold sErase
  rw [contains_filter]
  by_cases h : y = x
  · simp [h]
  · simp [h, Bool.and_comm]

end Karp.ClusterState
