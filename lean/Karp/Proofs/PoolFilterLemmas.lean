/-
Helper lemmas for the NodePool filter of `Provisioner.NewScheduler` (Model/PoolFilter) against the specification's
reading of "ready NodePool" (Spec/PoolPass.readyCondition).  Used by Props/C19.
-/
import Karp.Model.PoolFilter
import Karp.Spec.PoolPass

namespace Karp.PoolFilter
open List

/-- `ConditionSet.IsTrue(Ready)` (first stored condition of the type, nil-safe) agrees with the specification's
    "the pool reports `Ready` and reports it as `True`" on every list that stores the root condition at most once -/
theorem isTrue_ready_eq (cs : List Cond)
    (huniq : (cs.filter (fun c => c.type == readyType)).length ≤ 1) :
    isTrue cs [readyType] = Karp.Spec.PoolPass.readyCondition (cs.map (fun c => (c.type, c.status))) := by
  unfold isTrue get Karp.Spec.PoolPass.readyCondition
  simp only [all_cons, all_nil, Bool.and_true, any_map, all_map]
  induction cs with
  | nil => rfl
  | cons c cs ih =>
    by_cases hc : (c.type == readyType) = true
    · have hnone : ∀ d ∈ cs, (d.type == readyType) = false := by
        intro d hd
        cases hdt : (d.type == readyType) with
        | false => rfl
        | true =>
          have : 0 < (cs.filter (fun c => c.type == readyType)).length :=
            length_pos_of_mem (mem_filter.mpr ⟨hd, hdt⟩)
          simp only [filter_cons, hc, if_true, length_cons] at huniq
          omega
      have hany : cs.any ((fun c => c.1 == "Ready" && c.2 == "True") ∘ fun c => (c.type, c.status)) = false := by
        rw [any_eq_false]
        intro d hd
        have := hnone d hd
        simp only [readyType] at this
        simp [this]
      have hall : cs.all ((fun c => !(c.1 == "Ready") || c.2 == "True") ∘ fun c => (c.type, c.status)) = true := by
        rw [all_eq_true]
        intro d hd
        have := hnone d hd
        simp only [readyType] at this
        simp [this]
      have hc' : (c.type == "Ready") = true := hc
      simp only [find?_cons, hc, condIsTrue, any_cons, all_cons, hany, hall, Function.comp, hc']
      cases (c.status == "True") <;> rfl
    · have hcf : (c.type == readyType) = false := by simpa using hc
      have huniq' : (cs.filter (fun c => c.type == readyType)).length ≤ 1 := by
        simpa only [filter_cons, hcf, Bool.false_eq_true, if_false] using huniq
      have := ih huniq'
      have hc' : (c.type == "Ready") = false := hcf
      simp only [find?_cons, hcf, any_cons, all_cons, Function.comp, hc'] at this ⊢
      simpa using this

end Karp.PoolFilter
