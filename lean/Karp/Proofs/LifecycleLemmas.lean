/-
Helper lemmas for C14: what each phase of the modelled `Controller.Reconcile` does to the parts of the
world and of the in-memory NodeClaim that the invariants talk about.
-/
import Karp.Model.Lifecycle
set_option linter.unusedSimpArgs false
namespace Karp.Lifecycle

/-! projections of the small context updates -/
section ctx
variable (c : Ctx) (s : Site) (o : Outcome) (st : Tri) (r : Reason)
@[simp] theorem call_w : (c.call s o).w = c.w := rfl
@[simp] theorem call_mem : (c.call s o).mem = c.mem := rfl
@[simp] theorem call_errs : (c.call s o).errs = c.errs := rfl
@[simp] theorem call_errsNF : (c.call s o).errsNF = c.errsNF := rfl
@[simp] theorem call_results : (c.call s o).results = c.results := rfl
@[simp] theorem call_calls : (c.call s o).calls = c.calls ++ [⟨s, o⟩] := rfl
@[simp] theorem setL_w : (c.setL st r).w = c.w := rfl
@[simp] theorem setR_w : (c.setR st r).w = c.w := rfl
@[simp] theorem setI_w : (c.setI st r).w = c.w := rfl
@[simp] theorem setL_calls : (c.setL st r).calls = c.calls := rfl
@[simp] theorem setR_calls : (c.setR st r).calls = c.calls := rfl
@[simp] theorem setI_calls : (c.setI st r).calls = c.calls := rfl
@[simp] theorem setL_errs : (c.setL st r).errs = c.errs := rfl
@[simp] theorem setR_errs : (c.setR st r).errs = c.errs := rfl
@[simp] theorem setI_errs : (c.setI st r).errs = c.errs := rfl
@[simp] theorem setL_errsNF : (c.setL st r).errsNF = c.errsNF := rfl
@[simp] theorem setR_errsNF : (c.setR st r).errsNF = c.errsNF := rfl
@[simp] theorem setI_errsNF : (c.setI st r).errsNF = c.errsNF := rfl
@[simp] theorem setL_results : (c.setL st r).results = c.results := rfl
@[simp] theorem setR_results : (c.setR st r).results = c.results := rfl
@[simp] theorem setI_results : (c.setI st r).results = c.results := rfl
@[simp] theorem setL_mem : (c.setL st r).mem = { c.mem with conds := { c.mem.conds with l := c.mem.conds.l.set st r c.w.now } } := rfl
@[simp] theorem setR_mem : (c.setR st r).mem = { c.mem with conds := { c.mem.conds with r := c.mem.conds.r.set st r c.w.now } } := rfl
@[simp] theorem setI_mem : (c.setI st r).mem = { c.mem with conds := { c.mem.conds with i := c.mem.conds.i.set st r c.w.now } } := rfl
end ctx

/-! the NodePool read (`updateNodePoolRegistrationHealth`) -/

/-- what the NodePool read adds to the call log -/
def poolCalls (f : Faults) : List Call :=
  if f.poolGet = .unlabelled then [] else [⟨.poolGet, f.poolGet.toOutcome⟩]

@[simp] theorem poolRead_w (f : Faults) (c : Ctx) : (poolRead f c).w = c.w := by unfold poolRead; split <;> rfl
@[simp] theorem poolRead_mem (f : Faults) (c : Ctx) : (poolRead f c).mem = c.mem := by unfold poolRead; split <;> rfl
@[simp] theorem poolRead_errs (f : Faults) (c : Ctx) : (poolRead f c).errs = c.errs := by unfold poolRead; split <;> rfl
@[simp] theorem poolRead_errsNF (f : Faults) (c : Ctx) : (poolRead f c).errsNF = c.errsNF := by unfold poolRead; split <;> rfl
@[simp] theorem poolRead_results (f : Faults) (c : Ctx) : (poolRead f c).results = c.results := by unfold poolRead; split <;> rfl
@[simp] theorem poolRead_calls (f : Faults) (c : Ctx) : (poolRead f c).calls = c.calls ++ poolCalls f := by
  unfold poolRead poolCalls; split <;> simp [Ctx.call]

@[simp] theorem poolHealth_w (f : Faults) (c : Ctx) : (poolHealth f c).1.w = c.w := by
  unfold poolHealth; simp only []; split <;> simp
@[simp] theorem poolHealth_mem (f : Faults) (c : Ctx) : (poolHealth f c).1.mem = c.mem := by
  unfold poolHealth; simp only []; split <;> simp
@[simp] theorem poolHealth_errsNF (f : Faults) (c : Ctx) : (poolHealth f c).1.errsNF = c.errsNF := by
  unfold poolHealth; simp only []; split <;> simp
@[simp] theorem poolHealth_calls (f : Faults) (c : Ctx) : (poolHealth f c).1.calls = c.calls ++ poolCalls f := by
  unfold poolHealth; simp only []; split <;> simp
theorem poolHealth_errs (f : Faults) (c : Ctx) (h : c.errs = true) : (poolHealth f c).1.errs = true := by
  unfold poolHealth; simp only []; split <;> simp [h]
theorem poolHealth_proceed (f : Faults) (c : Ctx) (h : (poolHealth f c).2 = .proceed) :
    (poolHealth f c).1.errs = c.errs ∧ (poolHealth f c).1.results = c.results := by
  unfold poolHealth at h ⊢; simp only [] at h ⊢; split at h <;> simp_all

@[simp] theorem regSuccess_w (f : Faults) (c : Ctx) : (regSuccess f c).w = c.w := by simp [regSuccess]
@[simp] theorem regSuccess_mem (f : Faults) (c : Ctx) :
    (regSuccess f c).mem = { c.mem with conds := { c.mem.conds with r := c.mem.conds.r.set .true_ .registered c.w.now }, nodeName := true } := by
  simp [regSuccess]
@[simp] theorem regSuccess_errsNF (f : Faults) (c : Ctx) : (regSuccess f c).errsNF = c.errsNF := by simp [regSuccess]
@[simp] theorem regSuccess_calls (f : Faults) (c : Ctx) : (regSuccess f c).calls = c.calls ++ poolCalls f := by simp [regSuccess]
theorem regSuccess_errs (f : Faults) (c : Ctx) (h : c.errs = true) : (regSuccess f c).errs = true := by
  unfold regSuccess; exact poolHealth_errs f _ (by simpa using h)

@[simp] theorem Cond.set_status (c : Cond) (st : Tri) (r : Reason) (now : Nat) : (c.set st r now).status = st := rfl

/-- the part of the world the invariants talk about -/
structure Core where
  cache : Bool
  instances : Nat
  finEver : Bool
  views : List Claim
  conds : Conds
  pid : Bool
  plabels : Bool
  fin : Bool
deriving DecidableEq

def World.core (w : World) : Core :=
  ⟨w.cache, w.instances, w.finEver, w.views, w.claim.conds, w.claim.providerID, w.claim.provLabels, w.claim.finalizer⟩

theorem deleted_core (c : Claim) : c.deleted.conds = c.conds ∧ c.deleted.providerID = c.providerID ∧
    c.deleted.provLabels = c.provLabels ∧ c.deleted.finalizer = c.finalizer := by
  unfold Claim.deleted; split <;> simp

section del
variable (f : Faults) (c : Ctx)
@[simp] theorem deleteClaim_core : (deleteClaim f c).w.core = c.w.core := by
  unfold deleteClaim; simp only []; split <;> simp [World.core, deleted_core]
@[simp] theorem deleteClaim_nodes : (deleteClaim f c).w.nodes = c.w.nodes := by
  unfold deleteClaim; simp only []; split <;> simp
@[simp] theorem deleteClaim_now : (deleteClaim f c).w.now = c.w.now := by
  unfold deleteClaim; simp only []; split <;> simp
@[simp] theorem deleteClaim_mem : (deleteClaim f c).mem = c.mem := by
  unfold deleteClaim; simp only []; split <;> simp
@[simp] theorem deleteClaim_errs : (deleteClaim f c).errs = c.errs := by
  unfold deleteClaim; simp only []; split <;> simp
@[simp] theorem deleteClaim_errsNF : (deleteClaim f c).errsNF = c.errsNF := by
  unfold deleteClaim; simp only []; split <;> simp
@[simp] theorem deleteClaim_results : (deleteClaim f c).results = c.results := by
  unfold deleteClaim; simp only []; split <;> simp
@[simp] theorem deleteClaim_calls : (deleteClaim f c).calls = c.calls ++ [⟨.claimDelete, claimDeleteOutcome f c.w⟩] := by
  unfold deleteClaim; simp only []; split <;> simp
end del

section cap
variable (f : Faults) (o : Outcome) (c : Ctx)
@[simp] theorem capacityError_core : (capacityError f o c).w.core = c.w.core := by
  unfold capacityError; simp only []; split <;> simp
@[simp] theorem capacityError_nodes : (capacityError f o c).w.nodes = c.w.nodes := by
  unfold capacityError; simp only []; split <;> simp
@[simp] theorem capacityError_now : (capacityError f o c).w.now = c.w.now := by
  unfold capacityError; simp only []; split <;> simp
@[simp] theorem capacityError_mem : (capacityError f o c).mem = c.mem := by
  unfold capacityError; simp only []; split <;> simp
end cap

section tmo
variable (f : Faults) (c : Ctx)
@[simp] theorem timeoutDelete_core : (timeoutDelete f c).w.core = c.w.core := by
  unfold timeoutDelete; simp only []; split; · simp
  split <;> simp
@[simp] theorem timeoutDelete_nodes : (timeoutDelete f c).w.nodes = c.w.nodes := by
  unfold timeoutDelete; simp only []; split; · simp
  split <;> simp
@[simp] theorem timeoutDelete_now : (timeoutDelete f c).w.now = c.w.now := by
  unfold timeoutDelete; simp only []; split; · simp
  split <;> simp
@[simp] theorem timeoutDelete_mem : (timeoutDelete f c).mem = c.mem := by
  unfold timeoutDelete; simp only []; split; · simp
  split <;> simp
@[simp] theorem timeoutDelete_errsNF : (timeoutDelete f c).errsNF = c.errsNF := by
  unfold timeoutDelete; simp only []; split; · simp
  split <;> simp
theorem timeoutDelete_errs (h : c.errs = true) : (timeoutDelete f c).errs = true := by
  unfold timeoutDelete; simp only []; split; · exact poolHealth_errs f c h
  split
  · simp [poolHealth_errs f c h]
  · simp
end tmo


/-- what `Launch.Reconcile` did, by case -/
inductive LaunchCase | keptTrue | keptFalse | cacheHit | created | failed
deriving DecidableEq, Repr

def launchCase (co : CreateOutcome) (c : Ctx) : LaunchCase :=
  match c.mem.conds.l.status with
  | .true_ => .keptTrue
  | .false_ => .keptFalse
  | .unknown => if c.w.cache then .cacheHit else if co = .ok then .created else .failed

def launchCache : LaunchCase → Bool → Bool
  | .keptTrue, _ => false
  | .created, _ => true
  | .cacheHit, _ => true
  | _, b => b

def launchInst : LaunchCase → Nat → Nat
  | .created, n => n + 1
  | _, n => n

/-- the in-memory NodeClaim after `Launch.Reconcile`, as far as `Launched`, the provider id and labels go -/
def LaunchMem (lc : LaunchCase) (m0 m : Claim) : Prop :=
  match lc with
  | .keptTrue | .keptFalse => m.conds.l = m0.conds.l ∧ m.providerID = m0.providerID ∧ m.provLabels = m0.provLabels
  | .cacheHit | .created => m.conds.l.status = .true_ ∧ m.providerID = true ∧ m.provLabels = true
  | .failed => m.conds.l.status = .unknown ∧ m.providerID = m0.providerID ∧ m.provLabels = m0.provLabels

theorem launch_world (f : Faults) (co : CreateOutcome) (c : Ctx) :
    (launch f co c).w.finEver = c.w.finEver ∧ (launch f co c).w.views = c.w.views ∧
    (launch f co c).w.claim.conds = c.w.claim.conds ∧ (launch f co c).w.claim.providerID = c.w.claim.providerID ∧
    (launch f co c).w.claim.provLabels = c.w.claim.provLabels ∧ (launch f co c).w.claim.finalizer = c.w.claim.finalizer ∧
    (launch f co c).w.cache = launchCache (launchCase co c) c.w.cache ∧
    (launch f co c).w.instances = launchInst (launchCase co c) c.w.instances := by
  have hcap : ∀ (o : Outcome) (c' : Ctx), (capacityError f o c').w.core = c'.w.core := fun o c' => capacityError_core f o c'
  unfold launch launchCase
  simp only []
  cases hs : c.mem.conds.l.status <;> simp [hs, launchCache, launchInst]
  · by_cases hc : c.w.cache = true
    · simp [hc, launchSuccess, launchCache, launchInst]
    · cases co
      case ok => simp [hc, launchSuccess, launchCache, launchInst]
      case ice =>
        have := hcap .ice { c with mem := { c.mem with conds := { c.mem.conds with init := true } } }
        simp [World.core] at this
        simp [hc, launchCache, launchInst, this]
      case ncnr =>
        have := hcap .ncnr { c with mem := { c.mem with conds := { c.mem.conds with init := true } } }
        simp [World.core] at this
        simp [hc, launchCache, launchInst, this]
      case generic => simp [hc, launchCache, launchInst]
      case createErr => simp [hc, launchCache, launchInst]

theorem launch_nodes (f : Faults) (co : CreateOutcome) (c : Ctx) :
    (launch f co c).w.nodes = c.w.nodes ∧ (launch f co c).w.now = c.w.now := by
  unfold launch
  simp only []
  cases hs : c.mem.conds.l.status <;> simp [hs]
  · by_cases hc : c.w.cache = true
    · simp [hc, launchSuccess]
    · cases co <;> simp [hc, launchSuccess]

theorem launch_mem (f : Faults) (co : CreateOutcome) (c : Ctx) :
    (launch f co c).mem.conds.r = c.mem.conds.r ∧ (launch f co c).mem.conds.i = c.mem.conds.i ∧
    (launch f co c).mem.finalizer = c.mem.finalizer ∧ (launch f co c).mem.deleting = c.mem.deleting ∧
    (launch f co c).mem.present = c.mem.present ∧ (launch f co c).mem.nodeName = c.mem.nodeName ∧
    (launch f co c).mem.conds.init = true ∧ LaunchMem (launchCase co c) c.mem (launch f co c).mem := by
  unfold launch launchCase LaunchMem
  simp only []
  cases hs : c.mem.conds.l.status <;> simp [hs]
  · by_cases hc : c.w.cache = true
    · simp [hc, launchSuccess]
    · cases co <;> simp [hc, launchSuccess, hs]

/-! ### registration -/

theorem regSuccess_facts (f : Faults) (c : Ctx) : (regSuccess f c).w = c.w ∧ (regSuccess f c).mem.conds.r.status = .true_ ∧
    (regSuccess f c).mem.conds.l = c.mem.conds.l ∧ (regSuccess f c).mem.conds.i = c.mem.conds.i ∧
    (regSuccess f c).mem.conds.init = c.mem.conds.init ∧ (regSuccess f c).mem.finalizer = c.mem.finalizer ∧
    (regSuccess f c).mem.deleting = c.mem.deleting ∧ (regSuccess f c).mem.present = c.mem.present ∧
    (regSuccess f c).mem.providerID = c.mem.providerID ∧ (regSuccess f c).mem.provLabels = c.mem.provLabels := by
  simp

theorem registerOne_core (sp : Spec) (f : Faults) (c : Ctx) (n : Node) :
    (registerOne sp f c n).w.core = c.w.core ∧ (registerOne sp f c n).w.now = c.w.now := by
  unfold registerOne
  simp only []
  split; · simp
  split <;> simp [World.core]

theorem registerOne_mem (sp : Spec) (f : Faults) (c : Ctx) (n : Node) :
    let m := (registerOne sp f c n).mem
    m.conds.l = c.mem.conds.l ∧ m.conds.i = c.mem.conds.i ∧ m.conds.init = c.mem.conds.init ∧ m.finalizer = c.mem.finalizer ∧
    m.deleting = c.mem.deleting ∧ m.present = c.mem.present ∧ m.providerID = c.mem.providerID ∧ m.provLabels = c.mem.provLabels := by
  unfold registerOne
  simp only []
  split; · simp
  split <;> simp

theorem registerOne_true (sp : Spec) (f : Faults) (c : Ctx) (n : Node) (hn : c.w.nodes = [n])
    (h : (registerOne sp f c n).mem.conds.r.status = .true_) (h0 : c.mem.conds.r.status ≠ .true_) :
    (registerOne sp f c n).w.nodes = [registerNode sp c.mem n] := by
  unfold registerOne at h ⊢
  simp only [] at h ⊢
  by_cases he : registerNode sp c.mem n = n
  · simp [he, hn]
  · simp only [he, if_false] at h ⊢
    split at h <;> simp_all

theorem registration_core (sp : Spec) (f : Faults) (c : Ctx) : (registration sp f c).w.core = c.w.core ∧
    (registration sp f c).w.now = c.w.now := by
  unfold registration
  split; · simp
  split; · simp
  split; · simp
  split
  · simp
  · exact registerOne_core sp f c _
  · simp

theorem registration_mem (sp : Spec) (f : Faults) (c : Ctx) :
    let m := (registration sp f c).mem
    m.conds.l = c.mem.conds.l ∧ m.conds.i = c.mem.conds.i ∧ m.conds.init = c.mem.conds.init ∧ m.finalizer = c.mem.finalizer ∧
    m.deleting = c.mem.deleting ∧ m.present = c.mem.present ∧ m.providerID = c.mem.providerID ∧ m.provLabels = c.mem.provLabels := by
  unfold registration
  split; · simp
  split; · simp
  split; · simp
  split
  · simp
  · exact registerOne_mem sp f c _
  · simp

theorem registration_skip (sp : Spec) (f : Faults) (c : Ctx) (h : c.mem.conds.r.status ≠ .unknown) :
    registration sp f c = c := by
  unfold registration; simp [h]

/-- Registered goes true only through a successful registration of exactly one node -/
theorem registration_true (sp : Spec) (f : Faults) (c : Ctx)
    (h : (registration sp f c).mem.conds.r.status = .true_) (h0 : c.mem.conds.r.status ≠ .true_) :
    c.mem.providerID = true ∧ ∃ n, c.w.nodes = [n] ∧ (registration sp f c).w.nodes = [registerNode sp c.mem n] := by
  unfold registration at h ⊢
  split at h; · simp_all
  split at h; · simp_all
  split at h; · simp_all
  rename_i h1 h2 h3
  simp only [h1, h2, h3]
  simp at h2
  refine ⟨h2, ?_⟩
  split at h
  · simp_all
  · rename_i n hn
    refine ⟨n, hn, ?_⟩
    simp [hn]
    exact registerOne_true sp f c n hn h h0
  · simp_all


/-! ### initialization -/

theorem initOne_core (f : Faults) (c : Ctx) (n : Node) :
    (initOne f c n).w.core = c.w.core ∧ (initOne f c n).w.now = c.w.now := by
  unfold initOne
  split; · simp [initSuccess]
  split <;> simp [initSuccess, World.core]

theorem initOne_mem (f : Faults) (c : Ctx) (n : Node) :
    let m := (initOne f c n).mem
    m.conds.l = c.mem.conds.l ∧ m.conds.r = c.mem.conds.r ∧ m.conds.init = c.mem.conds.init ∧ m.finalizer = c.mem.finalizer ∧
    m.deleting = c.mem.deleting ∧ m.present = c.mem.present ∧ m.providerID = c.mem.providerID ∧
    m.provLabels = c.mem.provLabels ∧ m.nodeName = c.mem.nodeName := by
  unfold initOne
  split; · simp [initSuccess]
  split <;> simp [initSuccess]

theorem initOne_nodes (f : Faults) (c : Ctx) (n : Node) (hn : c.w.nodes = [n]) :
    (initOne f c n).w.nodes = [n] ∨ (initOne f c n).w.nodes = [{ n with initLabel := true }] := by
  unfold initOne
  split; · simp [initSuccess, hn]
  split <;> simp [initSuccess, hn]

theorem initOne_true (f : Faults) (c : Ctx) (n : Node) (hn : c.w.nodes = [n])
    (h : (initOne f c n).mem.conds.i.status = .true_) (h0 : c.mem.conds.i.status ≠ .true_) :
    (initOne f c n).w.nodes = [{ n with initLabel := true }] := by
  unfold initOne at h ⊢
  by_cases hl : n.initLabel = true
  · have : { n with initLabel := true } = n := by cases n; simp_all
    simp [hl, initSuccess, hn, this]
  · simp only [hl] at h ⊢
    cases hf : f.nodePatch with
    | none => simp [hf, initSuccess]
    | some e => cases e <;> simp_all [initSuccess]

theorem nodeForInit_some (f : Faults) (c : Ctx) (n : Node) (h : nodeForInit f c = some n) : c.w.nodes = [n] := by
  unfold nodeForInit at h
  split at h; · simp at h
  split at h; · simp at h
  split at h <;> simp_all

theorem initialization_core (sp : Spec) (f : Faults) (c : Ctx) : (initialization sp f c).w.core = c.w.core ∧
    (initialization sp f c).w.now = c.w.now := by
  unfold initialization
  split; · simp
  split; · simp
  split; · simp
  split; · simp
  exact initOne_core f c _

theorem initialization_mem (sp : Spec) (f : Faults) (c : Ctx) :
    let m := (initialization sp f c).mem
    m.conds.l = c.mem.conds.l ∧ m.conds.r = c.mem.conds.r ∧ m.conds.init = c.mem.conds.init ∧ m.finalizer = c.mem.finalizer ∧
    m.deleting = c.mem.deleting ∧ m.present = c.mem.present ∧ m.providerID = c.mem.providerID ∧
    m.provLabels = c.mem.provLabels ∧ m.nodeName = c.mem.nodeName := by
  unfold initialization
  split; · simp
  split; · simp
  split; · simp
  split; · simp
  exact initOne_mem f c _

theorem initialization_skip (sp : Spec) (f : Faults) (c : Ctx) (h : c.mem.conds.i.status ≠ .unknown) :
    initialization sp f c = c := by
  unfold initialization; simp [h]

theorem initialization_nodes (sp : Spec) (f : Faults) (c : Ctx) :
    (initialization sp f c).w.nodes = c.w.nodes ∨
    ∃ n, c.w.nodes = [n] ∧ (initialization sp f c).w.nodes = [{ n with initLabel := true }] := by
  unfold initialization
  split; · simp
  split; · simp
  split; · simp
  split; · simp
  rename_i n hn _ _
  have hn' := nodeForInit_some f c n hn
  rcases initOne_nodes f c n hn' with h | h
  · left; rw [h, hn']
  · right; exact ⟨n, hn', h⟩

/-- Initialized goes true only when Registered is true and the one node passes every check -/
theorem initialization_true (sp : Spec) (f : Faults) (c : Ctx)
    (h : (initialization sp f c).mem.conds.i.status = .true_) (h0 : c.mem.conds.i.status ≠ .true_) :
    c.mem.conds.r.status = .true_ ∧
    ∃ n, c.w.nodes = [n] ∧ initBlocker sp n = none ∧ (initialization sp f c).w.nodes = [{ n with initLabel := true }] := by
  unfold initialization at h ⊢
  split at h; · simp_all
  split at h; · simp_all
  rename_i h1 h2
  simp only [h1, h2]
  simp at h2
  refine ⟨h2, ?_⟩
  split at h; · simp_all
  rename_i n hn
  have hn' := nodeForInit_some f c n hn
  split at h; · simp_all
  rename_i hb
  refine ⟨n, hn', hb, ?_⟩
  simp [hn, hb]
  exact initOne_true f c n hn' h h0

/-! ### liveness -/

theorem livenessLaunch_facts (f : Faults) (c : Ctx) :
    (livenessLaunch f c).1.w.core = c.w.core ∧ (livenessLaunch f c).1.w.nodes = c.w.nodes ∧
    (livenessLaunch f c).1.w.now = c.w.now ∧ (livenessLaunch f c).1.mem = c.mem := by
  unfold livenessLaunch
  split; · simp
  split; · simp
  simp

theorem liveness_facts (f : Faults) (c : Ctx) :
    (liveness f c).w.core = c.w.core ∧ (liveness f c).w.nodes = c.w.nodes ∧
    (liveness f c).w.now = c.w.now ∧ (liveness f c).mem = c.mem := by
  unfold liveness
  split; · simp
  simp only []
  have h := livenessLaunch_facts f c
  split; · exact h
  split; · simpa using h
  simpa using h


/-! ### the two patches -/

theorem persist_world (stored : Claim) (f : Faults) (c : Ctx) :
    let r := persist stored f c
    r.w.views = c.w.views ∧ r.w.cache = c.w.cache ∧ r.w.instances = c.w.instances ∧ r.w.finEver = c.w.finEver ∧
    r.w.nodes = c.w.nodes ∧
    (r.w.claim = c.w.claim ∨ r.w.claim = mergeMeta stored c.mem c.w.claim ∨
      r.w.claim = mergeStatus stored c.mem (mergeMeta stored c.mem c.w.claim)) := by
  unfold persist
  split; · simp
  simp only []
  split; · simp
  split <;> simp

theorem persist_unchanged (stored : Claim) (f : Faults) (c : Ctx) (h : c.mem = stored) :
    (persist stored f c).w = c.w := by
  unfold persist; simp [h]

/-- the in-memory NodeClaim after the four sub-reconcilers -/
def runMem (sp : Spec) (f : Faults) (co : CreateOutcome) (w0 : World) (m0 : Claim) (calls : List Call) : Claim :=
  (liveness f (initialization sp f (registration sp f (launch f co { w := w0, mem := m0, calls := calls })))).mem

/-- ... and right after `Launch.Reconcile` (what registration syncs onto the node) -/
def launchMemOf (f : Faults) (co : CreateOutcome) (w0 : World) (m0 : Claim) (calls : List Call) : Claim :=
  (launch f co { w := w0, mem := m0, calls := calls }).mem

/-- what the whole pass over the sub-reconcilers and the two patches does, in terms of the launch case -/
theorem runSubs_facts (sp : Spec) (f : Faults) (co : CreateOutcome) (w0 : World) (m0 : Claim) (calls : List Call) :
    (runSubs sp f co w0 m0 calls).w.views = w0.views ∧ (runSubs sp f co w0 m0 calls).w.finEver = w0.finEver ∧
    (runSubs sp f co w0 m0 calls).w.claim.finalizer = w0.claim.finalizer ∧
    (runSubs sp f co w0 m0 calls).w.cache = launchCache (launchCase co { w := w0, mem := m0, calls := calls }) w0.cache ∧
    (runSubs sp f co w0 m0 calls).w.instances = launchInst (launchCase co { w := w0, mem := m0, calls := calls }) w0.instances ∧
    ∃ mem : Claim, mem = runMem sp f co w0 m0 calls ∧
      LaunchMem (launchCase co { w := w0, mem := m0, calls := calls }) m0 mem ∧
      mem.finalizer = m0.finalizer ∧
      (mem.conds.r.status = .true_ → m0.conds.r.status = .true_ ∨ mem.providerID = true) ∧
      (mem.conds.i.status = .true_ → m0.conds.i.status = .true_ ∨ mem.conds.r.status = .true_) ∧
      (m0.conds.r.status = .true_ → mem.conds.r.status = .true_) ∧
      (m0.conds.i.status = .true_ → mem.conds.i.status = .true_) ∧
      (mem = m0 → (runSubs sp f co w0 m0 calls).w.claim.conds = w0.claim.conds ∧
        (runSubs sp f co w0 m0 calls).w.claim.providerID = w0.claim.providerID ∧
        (runSubs sp f co w0 m0 calls).w.claim.provLabels = w0.claim.provLabels) ∧
      (((runSubs sp f co w0 m0 calls).w.claim.conds = w0.claim.conds ∧
        (runSubs sp f co w0 m0 calls).w.claim.providerID = w0.claim.providerID ∧
          ((runSubs sp f co w0 m0 calls).w.claim.provLabels = w0.claim.provLabels ∨
           (runSubs sp f co w0 m0 calls).w.claim.provLabels =
             (if m0.provLabels = mem.provLabels then w0.claim.provLabels else mem.provLabels))) ∨
       ((runSubs sp f co w0 m0 calls).w.claim.conds = (if m0.conds = mem.conds then w0.claim.conds else mem.conds) ∧
        (runSubs sp f co w0 m0 calls).w.claim.providerID =
          (if m0.providerID = mem.providerID then w0.claim.providerID else mem.providerID) ∧
        (runSubs sp f co w0 m0 calls).w.claim.provLabels =
          (if m0.provLabels = mem.provLabels then w0.claim.provLabels else mem.provLabels))) := by
  unfold runMem
  -- the contexts after each phase
  generalize hc0 : ({ w := w0, mem := m0, calls := calls } : Ctx) = c0
  have hw0 : c0.w = w0 := by rw [← hc0]
  have hm0 : c0.mem = m0 := by rw [← hc0]
  generalize hc1 : launch f co c0 = c1
  generalize hc2 : registration sp f c1 = c2
  generalize hc3 : initialization sp f c2 = c3
  generalize hc4 : liveness f c3 = c4
  have hr : runSubs sp f co w0 m0 calls = persist m0 f c4 := by
    unfold runSubs; simp only []; rw [hc0, hc1, hc2, hc3, hc4]
  rw [hr]
  have hL := launch_world f co c0
  have hLm := launch_mem f co c0
  have hR := registration_core sp f c1
  have hRm := registration_mem sp f c1
  have hI := initialization_core sp f c2
  have hIm := initialization_mem sp f c2
  have hV := liveness_facts f c3
  have hP := persist_world m0 f c4
  rw [hc1, hw0] at hL
  rw [hc1, hm0] at hLm
  rw [hc2] at hR hRm
  rw [hc3] at hI hIm
  rw [hc4] at hV
  simp only [] at hRm hIm hP
  generalize launchCase co c0 = lc at hL hLm ⊢
  obtain ⟨hPv, hPc, hPi, hPf, _, hPclaim⟩ := hP
  have hcore4 : c4.w.core = c1.w.core := by rw [hV.1, hI.1, hR.1]
  have e := hcore4
  simp only [World.core, Core.mk.injEq] at e
  obtain ⟨e1, e2, e3, e4, e5, e6, e7, e8⟩ := e
  obtain ⟨l1, l2, l3, l4, l5, l6, l7, l8⟩ := hL
  have hmem4 : c4.mem = c3.mem := hV.2.2.2
  have hfin : c4.w.claim.finalizer = w0.claim.finalizer := e8.trans l6
  have hconds : c4.w.claim.conds = w0.claim.conds := e5.trans l3
  have hpid : c4.w.claim.providerID = w0.claim.providerID := e6.trans l4
  have hpl : c4.w.claim.provLabels = w0.claim.provLabels := e7.trans l5
  have hclaimfin : (persist m0 f c4).w.claim.finalizer = w0.claim.finalizer := by
    rw [← hfin]
    rcases hPclaim with h | h | h <;> rw [h] <;> simp [mergeMeta, mergeStatus]
  refine ⟨hPv.trans (e4.trans l2), hPf.trans (e3.trans l1), hclaimfin, hPc.trans (e1.trans l7), hPi.trans (e2.trans l8), c4.mem, rfl, ?_⟩
  -- memory facts
  have ml : c4.mem.conds.l = c1.mem.conds.l := by rw [hmem4, hIm.1, hRm.1]
  have mp : c4.mem.providerID = c1.mem.providerID := by rw [hmem4, hIm.2.2.2.2.2.2.1, hRm.2.2.2.2.2.2.1]
  have mpl : c4.mem.provLabels = c1.mem.provLabels := by rw [hmem4, hIm.2.2.2.2.2.2.2.1, hRm.2.2.2.2.2.2.2]
  have mf : c4.mem.finalizer = m0.finalizer := by rw [hmem4, hIm.2.2.2.1, hRm.2.2.2.1, hLm.2.2.1]
  have mr : c4.mem.conds.r = c2.mem.conds.r := by rw [hmem4, hIm.2.1]
  refine ⟨?_, mf, ?_, ?_, ?_, ?_, ?_, ?_⟩
  · have := hLm.2.2.2.2.2.2.2
    unfold LaunchMem at this ⊢
    rw [ml, mp, mpl]; exact this
  · intro h
    rw [mr] at h
    by_cases h0 : c1.mem.conds.r.status = .true_
    · left; rw [← hLm.1]; exact h0
    · right; rw [mp]; rw [← hc2] at h; exact (registration_true sp f c1 h h0).1
  · intro h
    rw [hmem4] at h
    by_cases h0 : c2.mem.conds.i.status = .true_
    · left; rw [← hLm.2.1, ← hRm.2.1]; exact h0
    · right; rw [mr]; rw [← hc3] at h; exact (initialization_true sp f c2 h h0).1
  · intro h
    have h1 : c1.mem.conds.r.status ≠ .unknown := by rw [hLm.1, h]; simp
    rw [mr, ← hc2, registration_skip sp f c1 h1, hLm.1]; exact h
  · intro h
    have h2 : c2.mem.conds.i.status ≠ .unknown := by rw [hRm.2.1, hLm.2.1, h]; simp
    rw [hmem4, ← hc3, initialization_skip sp f c2 h2, hRm.2.1, hLm.2.1]; exact h
  · intro he
    rw [persist_unchanged m0 f c4 he]; exact ⟨hconds, hpid, hpl⟩
  · rcases hPclaim with h | h | h
    · left; rw [h]; exact ⟨hconds, hpid, Or.inl hpl⟩
    · left; rw [h]; simp [mergeMeta, hconds, hpid, hpl]
    · right; rw [h]; simp [mergeMeta, mergeStatus, hconds, hpid, hpl]

/-- the Node objects after the pass, when Registered / Initialized went true in it -/
theorem runSubs_nodes (sp : Spec) (f : Faults) (co : CreateOutcome) (w0 : World) (m0 : Claim) (calls : List Call) :
    ((runMem sp f co w0 m0 calls).conds.r.status = .true_ → m0.conds.r.status ≠ .true_ →
      (launchMemOf f co w0 m0 calls).provLabels = (runMem sp f co w0 m0 calls).provLabels ∧
      ∃ n, (runSubs sp f co w0 m0 calls).w.nodes = [registerNode sp (launchMemOf f co w0 m0 calls) n] ∨
           (runSubs sp f co w0 m0 calls).w.nodes = [{ registerNode sp (launchMemOf f co w0 m0 calls) n with initLabel := true }]) ∧
    ((runMem sp f co w0 m0 calls).conds.i.status = .true_ → m0.conds.i.status ≠ .true_ →
      ∃ n, initBlocker sp n = none ∧ (runSubs sp f co w0 m0 calls).w.nodes = [{ n with initLabel := true }]) := by
  unfold runMem launchMemOf
  generalize hc0 : ({ w := w0, mem := m0, calls := calls } : Ctx) = c0
  have hm0 : c0.mem = m0 := by rw [← hc0]
  generalize hc1 : launch f co c0 = c1
  generalize hc2 : registration sp f c1 = c2
  generalize hc3 : initialization sp f c2 = c3
  generalize hc4 : liveness f c3 = c4
  have hr : runSubs sp f co w0 m0 calls = persist m0 f c4 := by
    unfold runSubs; simp only []; rw [hc0, hc1, hc2, hc3, hc4]
  rw [hr]
  have hLm := launch_mem f co c0
  have hRm := registration_mem sp f c1
  have hIm := initialization_mem sp f c2
  have hIn := initialization_nodes sp f c2
  have hV := liveness_facts f c3
  have hP := persist_world m0 f c4
  rw [hc1, hm0] at hLm
  rw [hc2] at hRm
  rw [hc3] at hIm hIn
  rw [hc4] at hV
  simp only [] at hRm hIm hP
  have hnodes : (persist m0 f c4).w.nodes = c3.w.nodes := hP.2.2.2.2.1.trans hV.2.1
  have hmem4 : c4.mem = c3.mem := hV.2.2.2
  constructor
  · intro h h0
    rw [hmem4, hIm.2.1] at h
    have h0' : c1.mem.conds.r.status ≠ .true_ := by rw [hLm.1]; exact h0
    rw [← hc2] at h
    obtain ⟨_, n, hn, hn'⟩ := registration_true sp f c1 h h0'
    rw [hc2] at hn'
    refine ⟨by rw [hmem4, hIm.2.2.2.2.2.2.2.1, hRm.2.2.2.2.2.2.2], n, ?_⟩
    rw [hnodes]
    rcases hIn with hsame | ⟨n2, hn2, hn2'⟩
    · left; rw [hsame, hn']
    · right; rw [hn2']
      rw [hn'] at hn2
      simp at hn2
      rw [hn2]
  · intro h h0
    rw [hmem4] at h
    have h0' : c2.mem.conds.i.status ≠ .true_ := by rw [hRm.2.1, hLm.2.1]; exact h0
    rw [← hc3] at h
    obtain ⟨_, n, _, hb, hn'⟩ := initialization_true sp f c2 h h0'
    rw [hc3] at hn'
    exact ⟨n, hb, by rw [hnodes, hn']⟩

/-! ### the call log -/

/-- the provider `Create` calls in a log -/
def creates (l : List Call) : List Call := l.filter (fun c => c.site == .create)

@[simp] theorem creates_append (a b : List Call) : creates (a ++ b) = creates a ++ creates b := by
  simp [creates]

/-- what `Launch.Reconcile` asks of the provider, by case -/
def launchCreates (co : CreateOutcome) : LaunchCase → List Call
  | .created => [⟨.create, .ok⟩]
  | .failed => [⟨.create, co.toOutcome⟩]
  | _ => []

theorem creates_poolCalls (f : Faults) : creates (poolCalls f) = [] := by
  unfold poolCalls; split <;> simp [creates]

theorem deleteClaim_calls' (f : Faults) (c : Ctx) : ∃ rest, (deleteClaim f c).calls = c.calls ++ rest ∧ creates rest = [] :=
  ⟨_, deleteClaim_calls f c, by simp [creates]⟩

theorem launch_calls (f : Faults) (co : CreateOutcome) (c : Ctx) :
    ∃ rest, (launch f co c).calls = c.calls ++ rest ∧ creates rest = launchCreates co (launchCase co c) := by
  unfold launch launchCase
  simp only []
  cases hs : c.mem.conds.l.status
  · by_cases hc : c.w.cache = true
    · exact ⟨[], by simp [hs, hc, launchSuccess], by simp [hs, hc, launchCreates, creates]⟩
    · cases co
      case ok => exact ⟨[⟨.create, .ok⟩], by simp [hs, hc, launchSuccess], by simp [hs, hc, launchCreates, creates]⟩
      case ice =>
        refine ⟨[⟨.create, .ice⟩, ⟨.claimDelete, claimDeleteOutcome f c.w⟩], ?_, by simp [hs, hc, launchCreates, creates, CreateOutcome.toOutcome]⟩
        simp [hs, hc, capacityError]
        split <;> simp
      case ncnr =>
        refine ⟨[⟨.create, .ncnr⟩, ⟨.claimDelete, claimDeleteOutcome f c.w⟩], ?_, by simp [hs, hc, launchCreates, creates, CreateOutcome.toOutcome]⟩
        simp [hs, hc, capacityError]
        split <;> simp
      case generic => exact ⟨[⟨.create, .generic⟩], by simp [hs, hc], by simp [hs, hc, launchCreates, creates, CreateOutcome.toOutcome]⟩
      case createErr => exact ⟨[⟨.create, .createErr⟩], by simp [hs, hc], by simp [hs, hc, launchCreates, creates, CreateOutcome.toOutcome]⟩
  · exact ⟨[], by simp [hs], by simp [hs, launchCreates, creates]⟩
  · exact ⟨[], by simp [hs], by simp [hs, launchCreates, creates]⟩

theorem registerOne_calls (sp : Spec) (f : Faults) (c : Ctx) (n : Node) :
    ∃ rest, (registerOne sp f c n).calls = c.calls ++ rest ∧ creates rest = [] := by
  unfold registerOne
  simp only []
  split; · exact ⟨poolCalls f, by simp, creates_poolCalls f⟩
  split
  · exact ⟨[⟨.nodePatchLock, .ok⟩] ++ poolCalls f, by simp, by rw [creates_append, creates_poolCalls]; simp [creates]⟩
  · exact ⟨[⟨.nodePatchLock, .conflict⟩], by simp, by simp [creates]⟩
  · exact ⟨[⟨.nodePatchLock, .notFound⟩], by simp, by simp [creates]⟩
  · exact ⟨[⟨.nodePatchLock, .other⟩], by simp, by simp [creates]⟩

theorem registration_calls (sp : Spec) (f : Faults) (c : Ctx) :
    ∃ rest, (registration sp f c).calls = c.calls ++ rest ∧ creates rest = [] := by
  unfold registration
  split; · exact ⟨[], by simp, rfl⟩
  split; · exact ⟨[], by simp, rfl⟩
  split; · exact ⟨[], by simp, rfl⟩
  split
  · exact ⟨[], by simp, rfl⟩
  · exact registerOne_calls sp f c _
  · exact ⟨[], by simp, rfl⟩

theorem initOne_calls (f : Faults) (c : Ctx) (n : Node) :
    ∃ rest, (initOne f c n).calls = c.calls ++ rest ∧ creates rest = [] := by
  unfold initOne
  split; · exact ⟨[], by simp [initSuccess], rfl⟩
  cases hf : f.nodePatch with
  | none => exact ⟨[⟨.nodePatch, .ok⟩], by simp [initSuccess], by simp [creates]⟩
  | some e =>
    cases e
    · exact ⟨[⟨.nodePatch, .conflict⟩], by simp [Err.toOutcome], by simp [creates]⟩
    · exact ⟨[⟨.nodePatch, .notFound⟩], by simp, by simp [creates]⟩
    · exact ⟨[⟨.nodePatch, .other⟩], by simp [Err.toOutcome], by simp [creates]⟩

theorem initialization_calls (sp : Spec) (f : Faults) (c : Ctx) :
    ∃ rest, (initialization sp f c).calls = c.calls ++ rest ∧ creates rest = [] := by
  unfold initialization
  split; · exact ⟨[], by simp, rfl⟩
  split; · exact ⟨[], by simp, rfl⟩
  split; · exact ⟨[], by simp, rfl⟩
  split; · exact ⟨[], by simp, rfl⟩
  exact initOne_calls f c _

theorem timeoutDelete_calls (f : Faults) (c : Ctx) :
    ∃ rest, (timeoutDelete f c).calls = c.calls ++ rest ∧ creates rest = [] := by
  unfold timeoutDelete
  simp only []
  split; · exact ⟨poolCalls f, by simp, creates_poolCalls f⟩
  have hc : creates (poolCalls f ++ [⟨.claimDelete, claimDeleteOutcome f c.w⟩]) = [] := by
    rw [creates_append, creates_poolCalls]; simp [creates]
  split
  · exact ⟨poolCalls f ++ [⟨.claimDelete, claimDeleteOutcome f c.w⟩], by simp, hc⟩
  · exact ⟨poolCalls f ++ [⟨.claimDelete, claimDeleteOutcome f c.w⟩], by simp, hc⟩

theorem livenessLaunch_calls (f : Faults) (c : Ctx) :
    ∃ rest, (livenessLaunch f c).1.calls = c.calls ++ rest ∧ creates rest = [] := by
  unfold livenessLaunch
  split; · exact ⟨[], by simp, rfl⟩
  split; · exact ⟨[], by simp, rfl⟩
  exact timeoutDelete_calls f c

theorem liveness_calls (f : Faults) (c : Ctx) :
    ∃ rest, (liveness f c).calls = c.calls ++ rest ∧ creates rest = [] := by
  unfold liveness
  split; · exact ⟨[], by simp, rfl⟩
  simp only []
  obtain ⟨r1, h1, h1'⟩ := livenessLaunch_calls f c
  split; · exact ⟨r1, h1, h1'⟩
  split; · exact ⟨r1, by simp [h1], h1'⟩
  obtain ⟨r2, h2, h2'⟩ := timeoutDelete_calls f (livenessLaunch f c).1
  exact ⟨r1 ++ r2, by rw [h2, h1]; simp, by rw [creates_append, h1', h2']; rfl⟩

theorem persist_calls (stored : Claim) (f : Faults) (c : Ctx) :
    ∃ rest, (persist stored f c).calls = c.calls ++ rest ∧ creates rest = [] := by
  unfold persist
  split; · exact ⟨[], by simp, rfl⟩
  simp only []
  split; · exact ⟨[⟨.metaPatch, claimPatchOutcome f.metaPatch c.w⟩], by simp, by simp [creates]⟩
  split
  · exact ⟨[⟨.metaPatch, claimPatchOutcome f.metaPatch c.w⟩, ⟨.statusPatch, claimPatchOutcome f.statusPatch
      { c.w with claim := mergeMeta stored c.mem c.w.claim }⟩], by simp, by simp [creates]⟩
  · exact ⟨[⟨.metaPatch, claimPatchOutcome f.metaPatch c.w⟩, ⟨.statusPatch, claimPatchOutcome f.statusPatch
      { c.w with claim := mergeMeta stored c.mem c.w.claim }⟩], by simp, by simp [creates]⟩

/-- the pass appends to the log it was given; the provider `Create` calls it adds are those of the launch case -/
theorem runSubs_calls (sp : Spec) (f : Faults) (co : CreateOutcome) (w0 : World) (m0 : Claim) (calls : List Call) :
    ∃ rest, (runSubs sp f co w0 m0 calls).calls = calls ++ rest ∧
      creates rest = launchCreates co (launchCase co { w := w0, mem := m0, calls := calls }) := by
  unfold runSubs
  simp only []
  obtain ⟨r1, h1, h1'⟩ := launch_calls f co { w := w0, mem := m0, calls := calls }
  obtain ⟨r2, h2, h2'⟩ := registration_calls sp f (launch f co { w := w0, mem := m0, calls := calls })
  obtain ⟨r3, h3, h3'⟩ := initialization_calls sp f (registration sp f (launch f co { w := w0, mem := m0, calls := calls }))
  obtain ⟨r4, h4, h4'⟩ := liveness_calls f (initialization sp f (registration sp f (launch f co { w := w0, mem := m0, calls := calls })))
  obtain ⟨r5, h5, h5'⟩ := persist_calls m0 f (liveness f (initialization sp f (registration sp f (launch f co { w := w0, mem := m0, calls := calls }))))
  refine ⟨r1 ++ r2 ++ r3 ++ r4 ++ r5, ?_, ?_⟩
  · rw [h5, h4, h3, h2, h1]; simp
  · simp [h1', h2', h3', h4', h5']

/-! ### `truncateMessage` -/

theorem cutBytes_exact (ws : List Nat) : ∀ k, k ≤ textBytes ws →
    textBytes (cutBytes k ws).1 + (cutBytes k ws).2 = k := by
  induction ws with
  | nil => intro k h; simp [textBytes] at h; subst h; simp [cutBytes, textBytes]
  | cons w ws ih =>
    intro k h
    unfold cutBytes
    split
    · rename_i hw
      have h' : k - w ≤ textBytes ws := by simp [textBytes] at h ⊢; omega
      have := ih (k - w) h'
      simp [textBytes] at this ⊢
      omega
    · simp [textBytes]

theorem cutBytes_prefix (ws : List Nat) : ∀ k, (cutBytes k ws).1 <+: ws := by
  induction ws with
  | nil => intro k; simp [cutBytes]
  | cons w ws ih =>
    intro k
    unfold cutBytes
    split
    · simpa using ih (k - w)
    · simp

end Karp.Lifecycle
