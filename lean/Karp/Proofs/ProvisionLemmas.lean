/-
Lemmas for C04 (`Karp/Model/Provision.lean`): first-index search, label-congruence of `Compatible`, the stepwise
re-admission of a set of pods by an existing node, association-list lemmas for the Synced gate.
-/
import Karp.Model.Provision
import Karp.Proofs.Sched
set_option linter.unusedSimpArgs false
namespace Karp.Provision
open Karp.Req Karp.Scn Karp.Sched

/-! ### `firstIdx` -/

theorem firstIdx_none {α : Type} (f : α → Bool) : ∀ (l : List α), firstIdx f l = none → ∀ x ∈ l, f x = false := by
  intro l
  induction l with
  | nil => intro _ x hx; cases hx
  | cons a as ih =>
    intro h x hx
    unfold firstIdx at h
    by_cases ha : f a = true
    · simp [ha] at h
    · simp only [ha, Bool.false_eq_true, if_false, Option.map_eq_none_iff] at h
      cases hx with
      | head => simpa using ha
      | tail _ hmem => exact ih h x hmem

theorem firstIdx_some {α : Type} (f : α → Bool) : ∀ (l : List α) (i : Nat), firstIdx f l = some i →
    ∃ x, l[i]? = some x ∧ f x = true := by
  intro l
  induction l with
  | nil => intro i h; simp [firstIdx] at h
  | cons a as ih =>
    intro i h
    unfold firstIdx at h
    by_cases ha : f a = true
    · simp only [ha, if_true, Option.some.injEq] at h
      subst h
      exact ⟨a, by simp, ha⟩
    · simp only [ha, Bool.false_eq_true, if_false, Option.map_eq_some_iff] at h
      obtain ⟨j, hj, rfl⟩ := h
      obtain ⟨x, hx1, hx2⟩ := ih j hj
      exact ⟨x, by simpa using hx1, hx2⟩

/-! ### `Compatible` against a node's labels only reads the labels of the keys the pod mentions -/

theorem all_congr_mem {α : Type} (l : List α) (f g : α → Bool) (h : ∀ x ∈ l, f x = g x) : l.all f = l.all g := by
  induction l with
  | nil => rfl
  | cons a as ih =>
    simp only [List.all_cons]
    rw [h a (by simp), ih (fun x hx => h x (by simp [hx]))]

theorem intersects_congr (A A' B : Reqs) (h : ∀ p ∈ B, A.lookup p.1 = A'.lookup p.1) :
    A.intersects B = A'.intersects B := by
  unfold Reqs.intersects
  apply all_congr_mem
  intro p hp
  obtain ⟨k, r⟩ := p
  have := h (k, r) hp
  simp only at this
  simp only [this]

theorem compatible_congr (A A' B : Reqs) (U : List String) (h : ∀ p ∈ B, A.lookup p.1 = A'.lookup p.1) :
    A.compatible B U = A'.compatible B U := by
  unfold Reqs.compatible
  rw [intersects_congr A A' B h]
  congr 1
  apply all_congr_mem
  intro p hp
  obtain ⟨k, r⟩ := p
  have := h (k, r) hp
  simp only at this
  simp only [Reqs.hasKey, this]

/-- two label sets that agree on every key of the requirement set are interchangeable for `ExistingNode.CanAdd` -/
theorem compatible_labels_congr (ls ls' : Labels) (R : Reqs) (h : ∀ p ∈ R, ls.lookup p.1 = ls'.lookup p.1) :
    (labelReqs ls).compatible R [] = (labelReqs ls').compatible R [] := by
  apply compatible_congr
  intro p hp
  rw [lookup_labelReqs, lookup_labelReqs, h p hp]

/-! ### Re-admission, one pod after the other -/

/-- `ExistingNode.CanAdd` / `Add` over a list of pods, in order: `none` as soon as one is refused -/
def addAll : ExNode → List PodD → Option ExNode
  | n, [] => some n
  | n, p :: rest => if existingCanAdd n p then addAll (existingAdd n p) rest else none

/-- the host-port check of every pod against the ports in use when it arrives -/
def portsChain : List HostPort → List PodD → Bool
  | _, [] => true
  | used, p :: rest => portsFree used p.ports && portsChain (used ++ p.ports) rest

def sumCPU (ps : List PodD) : Int := (ps.map (·.cpu)).sum
def sumMem (ps : List PodD) : Int := (ps.map (·.mem)).sum

theorem sumCPU_nonneg (ps : List PodD) (h : ∀ p ∈ ps, 0 ≤ p.cpu) : 0 ≤ sumCPU ps := by
  induction ps with
  | nil => simp [sumCPU]
  | cons p rest ih =>
    have h1 := h p (by simp)
    have h2 := ih (fun q hq => h q (by simp [hq]))
    simp only [sumCPU, List.map_cons, List.sum_cons] at *
    omega

theorem sumMem_nonneg (ps : List PodD) (h : ∀ p ∈ ps, 0 ≤ p.mem) : 0 ≤ sumMem ps := by
  induction ps with
  | nil => simp [sumMem]
  | cons p rest ih =>
    have h1 := h p (by simp)
    have h2 := ih (fun q hq => h q (by simp [hq]))
    simp only [sumMem, List.map_cons, List.sum_cons] at *
    omega

/-- **re-admission**: a node whose taints every pod tolerates, whose labels are compatible with every pod, whose
    remaining resources cover the SUM of the pods' requests, and on which the pods' host ports were free in this order,
    accepts the pods one after the other — each `ExistingNode.CanAdd` succeeds in the state left by the previous `Add`. -/
theorem addAll_succeeds : ∀ (ps : List PodD) (n : ExNode),
    (∀ p ∈ ps, toleratesAll p.tolerations n.taints = true) →
    (∀ p ∈ ps, (labelReqs n.labels).compatible (podReqs p.exprs) [] = true) →
    portsChain n.ports ps = true →
    (∀ p ∈ ps, 0 ≤ p.cpu ∧ 0 ≤ p.mem) →
    sumCPU ps ≤ n.remCPU → sumMem ps ≤ n.remMem → (ps.length : Int) ≤ n.remPods →
    ∃ n', addAll n ps = some n' := by
  intro ps
  induction ps with
  | nil => intro n _ _ _ _ _ _ _; exact ⟨n, rfl⟩
  | cons p rest ih =>
    intro n htol hlab hports hnn hcpu hmem hpods
    have hp_nn := hnn p (by simp)
    have hrest_cpu : 0 ≤ sumCPU rest := sumCPU_nonneg rest (fun q hq => (hnn q (by simp [hq])).1)
    have hrest_mem : 0 ≤ sumMem rest := sumMem_nonneg rest (fun q hq => (hnn q (by simp [hq])).2)
    simp only [sumCPU, List.map_cons, List.sum_cons] at hcpu hrest_cpu
    simp only [sumMem, List.map_cons, List.sum_cons] at hmem hrest_mem
    simp only [List.length_cons, Int.natCast_add, Int.natCast_one] at hpods
    simp only [portsChain, Bool.and_eq_true] at hports
    have hcan : existingCanAdd n p = true := by
      unfold existingCanAdd
      simp only [Bool.and_eq_true]
      refine ⟨⟨⟨htol p (by simp), hports.1⟩, ?_⟩, hlab p (by simp)⟩
      simp only [fits, Bool.and_eq_true, decide_eq_true_eq]
      have : (0 : Int) ≤ (rest.length : Int) := Int.natCast_nonneg _
      refine ⟨⟨by omega, by omega⟩, by omega⟩
    simp only [addAll, hcan, if_true]
    apply ih (existingAdd n p)
    · intro q hq; simpa [existingAdd] using htol q (by simp [hq])
    · intro q hq; simpa [existingAdd] using hlab q (by simp [hq])
    · simpa [existingAdd] using hports.2
    · intro q hq; exact hnn q (by simp [hq])
    · simp only [existingAdd, sumCPU]; omega
    · simp only [existingAdd, sumMem]; omega
    · simp only [existingAdd]; omega

/-! ### Refusal is stable: what a pass has added to a node can only make it refuse more -/

theorem portsFree_append (used extra new : List HostPort) (h : portsFree (used ++ extra) new = true) :
    portsFree used new = true := by
  unfold portsFree at *
  rw [List.all_eq_true] at *
  intro p hp
  have := h p hp
  simp only [List.any_append, Bool.not_eq_true', Bool.or_eq_false_iff] at this
  simp only [Bool.not_eq_true']
  exact this.1

theorem canAdd_of_canAdd_after (n : ExNode) (q p : PodD) (hq : 0 ≤ q.cpu ∧ 0 ≤ q.mem)
    (h : existingCanAdd (existingAdd n q) p = true) : existingCanAdd n p = true := by
  unfold existingCanAdd at *
  simp only [Bool.and_eq_true] at *
  obtain ⟨⟨⟨h1, h2⟩, h3⟩, h4⟩ := h
  refine ⟨⟨⟨by simpa [existingAdd] using h1, portsFree_append n.ports q.ports p.ports (by simpa [existingAdd] using h2)⟩, ?_⟩,
    by simpa [existingAdd] using h4⟩
  simp only [fits, existingAdd, Bool.and_eq_true, decide_eq_true_eq] at h3 ⊢
  have a := of_decide_eq_true h3.1.1
  have b := of_decide_eq_true h3.1.2
  have c := of_decide_eq_true h3.2
  refine ⟨⟨by omega, by omega⟩, by omega⟩

/-! ### Association lists for the Synced gate -/

theorem lookup_setKV (k v k' : String) : ∀ (l : List (String × String)),
    (setKV k v l).lookup k' = if k' = k then some v else l.lookup k' := by
  intro l
  induction l with
  | nil =>
    simp only [setKV, List.lookup_cons, List.lookup_nil]
    by_cases h : k' = k
    · subst h; simp
    · have : (k' == k) = false := by simpa using h
      simp [this, h]
  | cons p ps ih =>
    obtain ⟨a, b⟩ := p
    simp only [setKV]
    by_cases hak : (a == k) = true
    · have hak' : a = k := by simpa using hak
      subst hak'
      simp only [hak, if_true, List.lookup_cons]
      by_cases h : k' = a
      · subst h; simp
      · have : (k' == a) = false := by simpa using h
        simp [this, h]
    · simp only [hak, Bool.false_eq_true, if_false, List.lookup_cons]
      by_cases h' : (k' == a) = true
      · have e : k' = a := by simpa using h'
        subst e
        have : ¬ (k' = k) := by intro e; subst e; simp at hak
        simp [this]
      · simp only [h', ih]

theorem mem_of_lookup (l : List (String × String)) (k v : String) (h : l.lookup k = some v) : (k, v) ∈ l := by
  induction l with
  | nil => simp at h
  | cons p ps ih =>
    obtain ⟨a, b⟩ := p
    simp only [List.lookup_cons] at h
    by_cases hk : (k == a) = true
    · have e : k = a := by simpa using hk
      subst e
      simp only [hk] at h
      have : b = v := by simpa using h
      subst this
      simp
    · simp only [hk] at h
      exact List.mem_cons_of_mem _ (ih h)

theorem lookup_filter_ne (l : List (String × String)) (name k : String) (hne : k ≠ name) :
    (l.filter (fun kv => kv.1 != name)).lookup k = l.lookup k := by
  induction l with
  | nil => rfl
  | cons p ps ih =>
    obtain ⟨a, b⟩ := p
    by_cases ha : a = name
    · subst ha
      have : (k == a) = false := by simpa using hne
      simp [List.filter, List.lookup_cons, this, ih]
    · have : (a != name) = true := by simpa using ha
      simp only [List.filter, this, List.lookup_cons, ih]

theorem noneUnlaunched_false_of_lookup (l : List (String × String)) (k : String) (h : l.lookup k = some "") :
    noneUnlaunched l = false := by
  have hm := mem_of_lookup l k "" h
  unfold noneUnlaunched
  rw [Bool.eq_false_iff]
  intro hall
  have := List.all_eq_true.mp hall (k, "") hm
  simp at this

/-! ### A NodeClaim recorded without provider id blocks every pass -/

/-- NodeClaim `name` is recorded by cluster state without a provider id -/
def Unlaunched (name : String) (s : Sync) : Prop := s.claims.lookup name = some ""

theorem synced_false_of_unlaunched (s : Sync) (name : String) (h : Unlaunched name s) : s.synced = (false, s) := by
  have hn := noneUnlaunched_false_of_lookup s.claims name h
  unfold Sync.synced
  by_cases hs : s.hasSynced = true
  · simp [hs, hn]
  · simp [hs, hn]

/-- the event launches or deletes NodeClaim `name` -/
def touches (name : String) : Ev → Bool
  | .launch n _ => n == name
  | .delete n => n == name
  | _ => false

theorem step_keeps_unlaunched (name : String) (st : Sync × List Sync) (e : Ev) (h : Unlaunched name st.1)
    (he : touches name e = false) : Unlaunched name (step st e).1 ∧ (step st e).2 = st.2 := by
  cases e with
  | create n =>
    refine ⟨?_, rfl⟩
    simp only [Unlaunched, step, Sync.updateNodeClaim, lookup_setKV]
    by_cases hn : name = n
    · simp [hn]
    · simp only [hn, if_false]; exact h
  | launch n pid =>
    have hne : name ≠ n := by
      intro e; subst e; simp [touches] at he
    refine ⟨?_, rfl⟩
    simp only [Unlaunched, step]
    split
    · simp only [Sync.updateNodeClaim, lookup_setKV, hne, if_false]; exact h
    · exact h
  | delete n =>
    have hne : name ≠ n := by
      intro e; subst e; simp [touches] at he
    refine ⟨?_, rfl⟩
    simp only [Unlaunched, step, Sync.deleteNodeClaim]
    rw [lookup_filter_ne _ n name hne]; exact h
  | nodeSeen n =>
    refine ⟨?_, rfl⟩
    simp only [Unlaunched, step, Sync.updateNode]
    split <;> exact h
  | reconcile =>
    simp only [step, synced_false_of_unlaunched st.1 name h]
    exact ⟨h, by simp⟩

end Karp.Provision
