/-
Lemmas for C15 about
* the launch under failing API writes (`Karp.Drift.launchReconcile`): an invariant over all histories of reconciles;
* `instanceTypeNotFound` and the availability of offerings.
Core Lean only.
-/
import Karp.Model.Drift

namespace Karp.Drift

/-! ### Labels as maps: two label lists are the same map when every lookup agrees -/

def SameMap (a b : Labels) : Prop := ∀ k, a.lookup k = b.lookup k

theorem SameMap.refl (a : Labels) : SameMap a a := fun _ => rfl

theorem lookup_populate (a p : Labels) (k : String) :
    (populateLabels a p).lookup k = (a.lookup k).or (p.lookup k) := by
  unfold populateLabels assign
  rw [List.lookup_append]

/-- merging the provider's answer into labels that are the original ones, or that already contain the answer, gives the
    original labels with the answer merged in (the merge is idempotent) -/
theorem populate_sameMap (l0 p a : Labels) (h : SameMap a l0 ∨ SameMap a (populateLabels l0 p)) :
    SameMap (populateLabels a p) (populateLabels l0 p) := by
  intro k
  rw [lookup_populate, lookup_populate]
  rcases h with h | h
  · rw [h k]
  · rw [h k, lookup_populate]
    cases l0.lookup k <;> cases p.lookup k <;> rfl

/-! ### The launch invariant -/

/-- what holds of the stored NodeClaim and the launch cache in every state reachable from a fresh NodeClaim with labels
    `l0` whose provider answers `Create` with `p` -/
structure LaunchInv (l0 p : Labels) (s : LaunchSt) : Prop where
  /-- the cache holds nothing or the provider's answer -/
  cache : s.cache = none ∨ s.cache = some p
  /-- `Create` was not called yet and nothing is cached or launched, or it was called exactly once and its answer is
      still cached or the NodeClaim is Launched -/
  creates : (s.creates = 0 ∧ s.cache = none ∧ s.launched = false) ∨
            (s.creates = 1 ∧ (s.cache = some p ∨ s.launched = true))
  /-- the stored labels are the original ones or the original ones with the provider's answer merged in … -/
  labels : SameMap s.labels l0 ∨ SameMap s.labels (populateLabels l0 p)
  /-- … and a NodeClaim that is Launched carries the provider's answer -/
  launched : s.launched = true → SameMap s.labels (populateLabels l0 p)

theorem launchInv_init (l0 p : Labels) : LaunchInv l0 p { labels := l0 } :=
  ⟨Or.inl rfl, Or.inl ⟨rfl, rfl, rfl⟩, Or.inl (SameMap.refl _), fun h => by cases h⟩

theorem launchInv_step (l0 p : Labels) (s : LaunchSt) (f : Nat) (h : LaunchInv l0 p s) :
    LaunchInv l0 p (launchReconcile s p f).1 := by
  unfold launchReconcile
  by_cases h1 : (!s.finalizer && f == 1) = true
  · simp only [h1, if_true]; exact h
  · simp only [h1, if_false, Bool.false_eq_true]
    by_cases hl : s.launched = true
    · -- already launched: only the cache entry goes
      simp only [hl, if_true]
      refine ⟨Or.inl rfl, ?_, h.labels, fun _ => h.launched hl⟩
      rcases h.creates with ⟨_, _, h3⟩ | ⟨h1', _⟩
      · rw [hl] at h3; cases h3
      · exact Or.inr ⟨h1', Or.inr rfl⟩
    · have hl' : s.launched = false := by simpa using hl
      simp only [hl', Bool.false_eq_true, if_false]
      -- the answer that is merged: the cached one or the provider's — `p` either way; `Create` is called at most once
      have hc : s.cache.getD p = p ∧ (if s.cache.isSome = true then s.creates else s.creates + 1) = 1 := by
        rcases h.creates with ⟨c0, cn, _⟩ | ⟨c1, hc | hc⟩
        · rw [cn, c0]; exact ⟨rfl, rfl⟩
        · rw [hc, c1]; exact ⟨rfl, rfl⟩
        · rw [hl'] at hc; cases hc
      rw [hc.1, hc.2]
      by_cases h2 : (f == (if s.finalizer = true then 0 else 1) + 1) = true
      · simp only [h2, if_true]
        exact ⟨Or.inr rfl, Or.inr ⟨rfl, Or.inl rfl⟩, h.labels, fun hx => by cases hx⟩
      · simp only [h2, if_false, Bool.false_eq_true]
        have hm := populate_sameMap l0 p s.labels h.labels
        by_cases h3 : (f == (if s.finalizer = true then 0 else 1) + 2) = true
        · simp only [h3, if_true]
          exact ⟨Or.inr rfl, Or.inr ⟨rfl, Or.inl rfl⟩, Or.inr hm, fun _ => hm⟩
        · simp only [h3, if_false, Bool.false_eq_true]
          exact ⟨Or.inr rfl, Or.inr ⟨rfl, Or.inl rfl⟩, Or.inr hm, fun _ => hm⟩

theorem launchInv_final (l0 p : Labels) (fs : List Nat) (s : LaunchSt) (h : LaunchInv l0 p s) :
    LaunchInv l0 p (launchFinal s p fs) := by
  induction fs generalizing s with
  | nil => exact h
  | cons f rest ih => exact ih _ (launchInv_step l0 p s f h)

theorem launchInv_run (l0 p : Labels) (fs : List Nat) (s : LaunchSt) (h : LaunchInv l0 p s) :
    ∀ r ∈ launchRun s p fs, LaunchInv l0 p r.1 := by
  induction fs generalizing s with
  | nil => intro r hr; cases hr
  | cons f rest ih =>
    intro r hr
    simp only [launchRun, List.mem_cons] at hr
    rcases hr with hr | hr
    · rw [hr]; exact launchInv_step l0 p s f h
    · exact ih _ (launchInv_step l0 p s f h) r hr

/-- a reconcile none of whose writes fails launches the NodeClaim (or finds it launched) -/
theorem launch_clean_reconcile (s : LaunchSt) (p : Labels) :
    (launchReconcile s p 0).1.launched = true ∧ (launchReconcile s p 0).2 = false := by
  unfold launchReconcile
  by_cases hl : s.launched = true
  · simp [hl]
  · have hl' : s.launched = false := by simpa using hl
    by_cases hf : s.finalizer = true <;> simp [hl', hf]

/-! ### `instanceTypeNotFound` does not read availability -/

/-- the catalogue with every availability flag forgotten -/
def listed (its : List ITD) : List (String × List Karp.Req.Reqs) := its.map (fun it => (it.name, it.offerings.map (·.reqs)))

theorem find_listed (its its' : List ITD) (h : listed its = listed its') (n : String) :
    (its.find? (fun it => it.name == n)).map (fun it => it.offerings.map (·.reqs)) =
    (its'.find? (fun it => it.name == n)).map (fun it => it.offerings.map (·.reqs)) := by
  induction its generalizing its' with
  | nil =>
    cases its' with
    | nil => rfl
    | cons b bs => simp [listed] at h
  | cons a as ih =>
    cases its' with
    | nil => simp [listed] at h
    | cons b bs =>
      simp only [listed, List.map_cons, List.cons.injEq, Prod.mk.injEq] at h
      obtain ⟨⟨hn, ho⟩, ht⟩ := h
      simp only [List.find?_cons, hn]
      cases hb : (b.name == n)
      · exact ih bs ht
      · simp [ho]

theorem instanceTypeNotFound_listed (its its' : List ITD) (h : listed its = listed its') (labels : Labels)
    (wk rl : List String) : instanceTypeNotFound its labels wk rl = instanceTypeNotFound its' labels wk rl := by
  have hf := find_listed its its' h ((labels.lookup instanceTypeKey).getD "")
  unfold instanceTypeNotFound
  cases ha : its.find? (fun it => it.name == (labels.lookup instanceTypeKey).getD "") with
  | none =>
    cases hb : its'.find? (fun it => it.name == (labels.lookup instanceTypeKey).getD "") with
    | none => rfl
    | some b => rw [ha, hb] at hf; cases hf
  | some a =>
    cases hb : its'.find? (fun it => it.name == (labels.lookup instanceTypeKey).getD "") with
    | none => rw [ha, hb] at hf; cases hf
    | some b =>
      rw [ha, hb] at hf
      simp only [Option.map_some, Option.some.injEq] at hf
      have e : ∀ (R : Karp.Req.Reqs) (x : ITD), (x.offerings.any (fun o => R.compatible o.reqs wk)) =
          ((x.offerings.map (·.reqs)).any (fun o => R.compatible o wk)) := by
        intro R x; rw [List.any_map]; rfl
      simp only [e, hf]

end Karp.Drift
