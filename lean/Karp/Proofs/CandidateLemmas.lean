/-
Helper lemmas for C07: the model's predicates (code shape: early returns, first-failure loops) agree with the
specification's declarative predicates, and what `selected` entails.  Core Lean only.
-/
import Karp.Model.Candidate
import Karp.Spec.Protected

namespace Karp.CandidateLemmas
open Karp.Candidate Karp.Spec.Protected Karp.Gen

theorem dnd_eq (now : Int) (p : Pod) : dndActive now p = annotationActive now p := by
  unfold dndActive annotationActive
  cases h : p.dnd with
  | none => rfl
  | true_ => rfl
  | bad => rfl
  | dur d =>
    simp only
    by_cases hd : d ≤ 0
    · have : ¬ d > 0 := by omega
      simp [hd, this]
    · have : d > 0 := by omega
      cases hs : p.start with
      | none => simp [hd, this]
      | some s =>
        simp only [hd, this, if_false, decide_true, Bool.true_and]
        by_cases h1 : now - s < d
        · have : now < s + d := by omega
          simp [h1, this]
        · have : ¬ now < s + d := by omega
          simp [h1, this]

theorem active_eq (p : Pod) : isActive p = running p := by
  unfold isActive running; cases p.terminal <;> cases p.terminating <;> rfl

theorem evictable_eq (now : Int) (p : Pod) : isEvictable now p = wouldEvict now p := by
  unfold isEvictable wouldEvict
  rw [active_eq, dnd_eq]
  cases running p <;> cases p.mirror <;> cases p.tol.tolerates <;> cases annotationActive now p <;> rfl

theorem matches_eq (b : Pdb) (p : Pod) : b.matches p = selects b p := by
  unfold Pdb.matches selects
  cases b.sel <;> rfl

theorem resched_eq (p : Pod) : isReschedulable p = mustMove p := by
  unfold isReschedulable mustMove; rw [active_eq]

theorem cost_eq (p : Pod) : costPositive p = contributes p := by
  unfold costPositive contributes scaledCost costScale; rfl

theorem pdbEvictable_eq (now : Int) (pdbs : List Pdb) (p : Pod) :
    (pdbEvictable now pdbs p).2 = !(wouldEvict now p && evictionRefused pdbs p) := by
  unfold pdbEvictable evictionRefused
  rw [evictable_eq]
  have hm : (pdbs.filter (fun b => b.matches p)) = (pdbs.filter (fun b => selects b p)) := by
    congr 1; funext b; exact matches_eq b p
  rw [hm]
  cases hw : wouldEvict now p with
  | false => simp
  | true =>
    simp only [Bool.not_true, Bool.false_eq_true, if_false, Bool.true_and]
    generalize pdbs.filter (fun b => selects b p) = ms
    match ms with
    | [] => simp
    | [b] =>
      simp only [List.length_singleton, List.any_cons, List.any_nil, Bool.or_false]
      have h1 : ¬ (1 > 1) := by omega
      have h2 : ¬ (1 ≥ 2) := by omega
      simp only [h1, h2, if_false, decide_false, Bool.false_or]
      cases b.alwaysAllow <;> cases p.notReady <;> by_cases h0 : b.allowed == 0 <;> simp [h0]
    | b :: c :: rest =>
      have h1 : (b :: c :: rest).length > 1 := by simp
      have h2 : (b :: c :: rest).length ≥ 2 := by simp
      simp

theorem canEvict_eq (now : Int) (pdbs : List Pdb) (ps : List Pod) :
    (canEvictPods now pdbs ps).2 = ps.all (fun p => !(wouldEvict now p && evictionRefused pdbs p)) := by
  induction ps with
  | nil => rfl
  | cons p ps ih =>
    unfold canEvictPods
    simp only [List.all_cons]
    rw [← pdbEvictable_eq]
    cases h : (pdbEvictable now pdbs p).2 with
    | true => simp [ih]
    | false => simp [h]

theorem all_not_any {α} (l : List α) (f : α → Bool) : l.all (fun x => !f x) = !l.any f := by
  induction l with
  | nil => rfl
  | cons a l ih => simp [List.all_cons, List.any_cons, ih, Bool.not_or]

theorem validatePods_eq (s : StateNode) (w : World) (h : s.node.isSome = true) :
    s.validatePods w.now w.pods w.pdbs = !podLevelBlocker w := by
  unfold StateNode.validatePods StateNode.pods podLevelBlocker podDoNotDisrupt pdbBlocks hosted
  have hn : s.node.isNone = false := by cases hs : s.node <;> simp_all
  simp only [hn, Bool.false_eq_true, if_false]
  rw [canEvict_eq, all_not_any]
  have : (w.pods.filter (·.onNode)).all (isDisruptable w.now)
      = !(w.pods.filter (·.onNode)).any (fun p => running p && annotationActive w.now p) := by
    rw [← all_not_any]
    congr 1; funext p
    unfold isDisruptable; rw [active_eq, dnd_eq]
    cases running p <;> cases annotationActive w.now p <;> rfl
  rw [this]
  cases (w.pods.filter (·.onNode)).any (fun p => running p && annotationActive w.now p) <;> simp

theorem isEmpty_eq (s : StateNode) (w : World) (h : s.node.isSome = true) :
    isEmpty s w.pods = (hosted w).all (fun p => !(mustMove p && contributes p)) := by
  unfold isEmpty StateNode.pods hosted
  have hn : s.node.isNone = false := by cases hs : s.node <;> simp_all
  simp only [hn, Bool.false_eq_true, if_false]
  generalize w.pods.filter (·.onNode) = l
  induction l with
  | nil => rfl
  | cons p l ih =>
    simp only [List.filter_cons, List.all_cons]
    rw [← ih, ← resched_eq, ← cost_eq]
    cases isReschedulable p <;> simp

/-- what `stateNode w = some s` says about `s` -/
theorem stateNode_some {w : World} {s : StateNode} (h : stateNode w = some s) :
    s.claim = w.claim ∧ s.node = w.node.filter nodeTracked ∧ s.marked = w.marked ∧
    s.nominatedUntil = w.nominatedAt.map (fun t => t + nominationWindow w.batchMax) := by
  unfold stateNode at h
  simp only at h
  split at h
  · cases h
  · cases h; exact ⟨rfl, rfl, rfl, rfl⟩

theorem filter_some {α} {o : Option α} {p : α → Bool} {a : α} (h : o.filter p = some a) : o = some a := by
  cases o with
  | none => simp at h
  | some b =>
    simp only [Option.filter] at h
    split at h
    · exact h
    · cases h

theorem window_eq (w : World) : nominationWindow w.batchMax = window w := rfl

/-- a node that passes `ValidateNodeDisruptable` and resolves its pool carries none of the node-level blockers -/
theorem node_ok {w : World} {s : StateNode} {md : Meta} (hwf : wellFormed w = true)
    (hs : stateNode w = some s) (hq : w.inQueue = false) (hv : s.validateNode w.now = true)
    (hmd : s.md = some md) (hp : poolResolves w md = true) :
    nodeLevelBlocker w = false ∧ s.node.isSome = true ∧ (∃ n, w.node = some n ∧ md = n.md) := by
  obtain ⟨hc, hn, hm, hnom⟩ := stateNode_some hs
  unfold StateNode.validateNode at hv
  cases hcl : s.claim with
  | none => simp [hcl] at hv
  | some c =>
  cases hnd : s.node with
  | none => simp [hcl, hnd] at hv
  | some n =>
  have hwn : w.node = some n := filter_some (hn ▸ hnd)
  have hwc : w.claim = some c := hc ▸ hcl
  simp only [hcl, hnd, Option.isNone_some, Bool.false_eq_true, if_false] at hv
  have hinit : s.initialized = true := by
    cases h : s.initialized <;> simp [h] at hv ⊢
  have hmfd : s.markedForDeletion = false := by
    cases h : s.markedForDeletion <;> simp [hinit, h] at hv ⊢
  have hnomi : s.nominated w.now = false := by
    cases h : s.nominated w.now <;> simp [hinit, hmfd, h] at hv ⊢
  simp only [hinit, hmfd, hnomi, hmd, Bool.not_true, Bool.false_eq_true, if_false] at hv
  have hdnd : (md.dnd == Ann.true_) = false := by
    cases h : (md.dnd == Ann.true_) <;> simp [h] at hv ⊢
  -- initialized ⇒ label true ⇒ (well-formed) registered ⇒ the Node's metadata is what counts
  have hni : n.init = .true_ := by
    unfold StateNode.initialized StateNode.managed at hinit
    simp [hcl, hnd] at hinit; exact hinit
  have hreg : n.reg = .true_ := by
    unfold wellFormed at hwf
    simp [hwn, hni] at hwf; exact hwf
  have hmdn : md = n.md := by
    unfold StateNode.md StateNode.registered StateNode.managed at hmd
    simp [hcl, hnd, hreg] at hmd; exact hmd.symm
  unfold poolResolves at hp
  simp only [Bool.and_eq_true, beq_iff_eq] at hp
  obtain ⟨⟨⟨hpool, hpres⟩, hman⟩, hits⟩ := hp
  rw [hmdn] at hpool hdnd
  have h1 : unmanaged w = false := by
    unfold unmanaged; simp [hwc, hwn, hpool, hpres, hman]
  have h2 : uninitialized w = false := by
    unfold uninitialized; simp [hwn, hni]
  have hmark : w.marked = false := by
    unfold StateNode.markedForDeletion at hmfd
    rw [hm] at hmfd
    cases h : w.marked <;> simp [h] at hmfd ⊢
  have h3 : deleting w = false := by
    unfold StateNode.markedForDeletion StateNode.deleted at hmfd
    simp only [hcl, hnd, Bool.or_eq_false_iff] at hmfd
    have h := hmfd.2.1
    unfold deleting
    simp only [hmark, hq, hwc, Bool.false_or]
    cases hcd : c.deleting <;> cases hct : c.terminating <;> simp [hcd, hct, Cond.isTrue] at h ⊢
  have h4 : recentlyNominated w = false := by
    unfold StateNode.nominated at hnomi
    rw [hnom] at hnomi
    unfold recentlyNominated
    cases hna : w.nominatedAt with
    | none => rfl
    | some t =>
      simp only [hna, Option.map_some] at hnomi
      rw [window_eq] at hnomi
      exact hnomi
  have h5 : nodeDoNotDisrupt w = false := by
    unfold nodeDoNotDisrupt; simp only [hwn]; exact hdnd
  refine ⟨?_, by simp, n, hwn, hmdn⟩
  unfold nodeLevelBlocker
  simp [h1, h2, h3, h4, h5]

theorem eventual_isDrift (m : Method) (h : classOf m = .eventual) : isDrift m = true := by
  cases m <;> first | rfl | (exfalso; revert h; decide)

theorem selectedOn_unfold {w : World} {s : StateNode} {m : Method} (h : selectedOn w s m = true) :
    ∃ md, newCandidateOn w s (classOf m) = .ok ∧ s.md = some md ∧ shouldDisruptOn w s md m = true := by
  unfold selectedOn at h
  simp only [Bool.and_eq_true, beq_iff_eq] at h
  cases hmd : s.md with
  | none => simp [hmd] at h
  | some md =>
    simp only [hmd] at h
    exact ⟨md, h.1, rfl, h.2⟩

theorem selected_unfold {w : World} {m : Method} (h : selected w m = true) :
    ∃ s md, stateNode w = some s ∧ newCandidateOn w s (classOf m) = .ok ∧ s.md = some md ∧
      shouldDisruptOn w s md m = true := by
  unfold selected at h
  cases hs : stateNode w with
  | none => simp [hs] at h
  | some s =>
    simp only [hs] at h
    obtain ⟨md, h1, h2, h3⟩ := selectedOn_unfold h
    exact ⟨s, md, rfl, h1, h2, h3⟩

theorem newCandidate_ok {w : World} {s : StateNode} {cls : Class} (h : newCandidateOn w s cls = .ok) :
    w.inQueue = false ∧ s.validateNode w.now = true ∧
    ∃ md, s.md = some md ∧ poolResolves w md = true ∧
      (s.validatePods w.now w.pods w.pdbs = true ∨
       (s.tgp = true ∧ cls = .eventual)) := by
  unfold newCandidateOn at h
  cases hq : w.inQueue with
  | true => simp [hq] at h
  | false =>
  cases hv : s.validateNode w.now with
  | false => simp [hq, hv] at h
  | true =>
  cases hmd : s.md with
  | none => simp [hq, hv, hmd] at h
  | some md =>
  cases hp : poolResolves w md with
  | false => simp [hq, hv, hmd, hp] at h
  | true =>
  refine ⟨rfl, rfl, md, (by first | rfl | exact hmd), (by first | rfl | exact hp), ?_⟩
  simp only [hq, hv, hmd, hp, Bool.not_true, Bool.false_eq_true, if_false] at h
  cases hvp : s.validatePods w.now w.pods w.pdbs with
  | true => exact Or.inl rfl
  | false =>
    right
    simp only [hvp, Bool.false_eq_true, if_false] at h
    split at h
    · rename_i hc
      simp only [Bool.and_eq_true, beq_iff_eq] at hc
      exact hc
    · cases h

theorem tgp_eq {w : World} {s : StateNode} (hcl : s.claim = w.claim) : s.tgp = hasTGP w := by
  unfold StateNode.tgp hasTGP
  rw [hcl]
  cases w.claim <;> rfl

theorem selected_allowed {w : World} {m : Method} (hwf : wellFormed w = true) (h : selected w m = true) :
    allowed w m = true := by
  obtain ⟨s, md, hs, hc, hmd, hsd⟩ := selected_unfold h
  obtain ⟨hq, hv, md', hmd', hp, hpods⟩ := newCandidate_ok hc
  have : md' = md := by rw [hmd] at hmd'; cases hmd'; rfl
  subst this
  obtain ⟨hnl, hnode, n, hwn, hmdn⟩ := node_ok hwf hs hq hv hmd hp
  obtain ⟨hcl, _, _, _⟩ := stateNode_some hs
  unfold allowed
  have hpod : (!podLevelBlocker w || mayOverride w m) = true := by
    rcases hpods with hvp | ⟨htgp, hcls⟩
    · rw [validatePods_eq s w hnode] at hvp
      simp [hvp]
    · unfold mayOverride
      rw [eventual_isDrift m hcls, ← tgp_eq hcl, htgp]
      simp
  have hcons : (!isConsolidation m || consolidationOk w m) = true := by
    have hE := isEmpty_eq s w hnode
    have hcc : ∀ b, claimCond s (·.consolidatable) = b → consolidatable w = b := by
      intro b hb
      unfold claimCond at hb
      unfold consolidatable
      rw [← hcl]
      cases hsc : s.claim with
      | none => simpa [hsc] using hb
      | some c =>
        simp only [hsc] at hb ⊢
        cases hcc : c.consolidatable <;> simp_all [Cond.isTrue]
    cases m with
    | drift => rfl
    | staticDrift => rfl
    | emptiness =>
      unfold shouldDisruptOn at hsd
      simp only [isConsolidation, Bool.not_true, Bool.false_or]
      cases hst : w.pool.static <;> simp [hst] at hsd
      cases hen : consolidationEnabled w <;> simp [hen] at hsd
      have hb : w.buffer = 0 := by omega
      unfold consolidationOk empty
      unfold consolidationEnabled at hen
      rw [← hE, hsd.2.1, hcc true hsd.2.2, hst, hen, hb]
      simp
    | multi =>
      unfold shouldDisruptOn at hsd
      simp only [isConsolidation, Bool.not_true, Bool.false_or]
      cases hst : w.pool.static <;> simp [hst] at hsd
      obtain ⟨_, _, _, hen, hne, hpol, hco⟩ := hsd
      unfold consolidationOk
      unfold consolidationEnabled at hen
      rw [hcc true hco, hst, hen]
      simp [hpol]
    | single =>
      unfold shouldDisruptOn at hsd
      simp only [isConsolidation, Bool.not_true, Bool.false_or]
      cases hst : w.pool.static <;> simp [hst] at hsd
      obtain ⟨_, _, _, hen, hne, hpol, hco⟩ := hsd
      unfold consolidationOk
      unfold consolidationEnabled at hen
      rw [hcc true hco, hst, hen]
      simp [hpol]
  simp [hnl, hpod, hcons]

end Karp.CandidateLemmas
