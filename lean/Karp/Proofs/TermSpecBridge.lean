/-
Bridge between the model's vocabulary (`Karp.Term`) and the independent specification (`Karp.Spec.Finalize`) for C09:
how a model observation / world is read as a ground-truth snapshot, and that the model's predicates (`waitingPods`,
`pendingVAs`, `elapsed`) imply the specification's (`drained`, `volumesOk`).  Uses the regenerated constants: if the
"stuck terminating" buffer or its comparison changes in the source, `abs_stuck` no longer proves.
-/
import Karp.Proofs.TermWorldLemmas
import Karp.Spec.Finalize

namespace Karp.C09
open Karp.Term Karp.Gen
open Karp.Spec.Finalize (NodeSnap ClaimSnap nodeRemovalOk claimRemovalOk instanceDeleteOk orphaned)

theorem stuck_terminating_constants : Finalize.stuckTerminatingNs = 60 * 1000000000 ∧ Finalize.stuckTerminatingStrict = true := by decide

/-! ## From the model's observation to the specification's snapshot -/

/-- the model's pod as the specification sees it (a tolerating pod is given the universal toleration) -/
def absPod (p : Pod) : Karp.Spec.Finalize.Pod :=
  { tolerations := if p.tolerates then [{ key := "", opExists := true, value := "", effect := "" }] else [],
    static := p.mirror, phase := if p.terminal then "Succeeded" else "Running", deletedAt := p.deletedAt,
    pvs := match p.pv with | some k => [k] | none => [] }

theorem abs_canDrain (p : Pod) : (absPod p).canDrain = (!p.tolerates && !p.mirror) := by
  cases h : p.tolerates <;> simp [absPod, Karp.Spec.Finalize.Pod.canDrain, h, Karp.Spec.Finalize.Toleration.tolerates]

theorem abs_completed (p : Pod) : (absPod p).completed = p.terminal := by
  cases h : p.terminal <;> simp [absPod, Karp.Spec.Finalize.Pod.completed, h]

theorem abs_stuck (now : Int) (p : Pod) : (absPod p).stuckTerminating now = p.stuck now := by
  unfold Karp.Spec.Finalize.Pod.stuckTerminating Pod.stuck absPod
  cases p.deletedAt with
  | none => rfl
  | some d =>
    simp only [cmpGt, stuck_terminating_constants.2, if_true, Karp.Spec.Finalize.stuckAfterNs]
    have : ((Finalize.stuckTerminatingNs : Nat) : Int) = 60 * 1000000000 := by
      rw [stuck_terminating_constants.1]; rfl
    rw [this]
    simp only [gt_iff_lt]

theorem abs_holdsDrain (now : Int) (p : Pod) : (absPod p).holdsDrain now = p.waiting now := by
  unfold Karp.Spec.Finalize.Pod.holdsDrain Pod.waiting Pod.drainable
  rw [abs_canDrain, abs_completed, abs_stuck]
  cases p.tolerates <;> cases p.mirror <;> cases p.terminal <;> cases p.stuck now <;> rfl


/-- the ground-truth snapshot of a node as the specification judges it -/
def nodeSnap (now : Int) (tainted ready : Bool) (claims : Nat) (deadline : Option Int) (pods : List Pod) (vas : List VA) (instanceGone : Bool) : NodeSnap :=
  { now := now, tainted := tainted, ready := ready, claims := claims, deadline := deadline,
    pods := (pods.filter (·.onNode)).map absPod, vas := (vas.filter (·.onNode)).map (·.pv), instanceGone := instanceGone }

theorem snap_drained (now : Int) (t r : Bool) (k : Nat) (dl : Option Int) (pods : List Pod) (vas : List VA) (g : Bool)
    (h : waitingPods now pods = []) : (nodeSnap now t r k dl pods vas g).drained = true := by
  unfold NodeSnap.drained nodeSnap
  simp only [List.all_map, List.all_eq_true, List.mem_filter, Function.comp]
  intro p ⟨hp, hon⟩
  rw [abs_holdsDrain]
  unfold waitingPods at h
  rw [List.filter_eq_nil_iff] at h
  have := h p hp
  simp only [hon, Bool.true_and] at this
  simpa using this

theorem snap_deadline (now : Int) (t r : Bool) (k : Nat) (dl : Option Int) (pods : List Pod) (vas : List VA) (g : Bool) :
    (nodeSnap now t r k dl pods vas g).deadlinePassed = elapsed now dl := by
  unfold NodeSnap.deadlinePassed nodeSnap elapsed
  cases dl <;> rfl

theorem contains_filterMap_pv (l : List Pod) (k : Nat) (h : (l.filterMap (·.pv)).contains k = true) :
    ∃ p, p ∈ l ∧ p.pv = some k := by
  rw [List.contains_iff_mem, List.mem_filterMap] at h
  exact h

theorem snap_volumes (now : Int) (t r : Bool) (k : Nat) (dl : Option Int) (pods : List Pod) (vas : List VA) (g : Bool)
    (h : pendingVAs now .ok pods vas = [] ∨ elapsed now dl = true) : (nodeSnap now t r k dl pods vas g).volumesOk = true := by
  unfold NodeSnap.volumesOk
  rw [snap_deadline]
  rcases h with h | h
  · simp only [Bool.or_eq_true]
    left
    unfold nodeSnap
    simp only [List.all_map, List.all_eq_true, List.mem_filter, Function.comp]
    intro v ⟨hv, hon⟩
    unfold pendingVAs at h
    rw [List.filter_eq_nil_iff] at h
    have hv' := h v (by simp [hv, hon])
    unfold Karp.Spec.Finalize.blockingVA
    cases hpv : v.pv with
    | none => rfl
    | some j =>
      simp only [hpv, Bool.not_eq_true, Bool.not_eq_false'] at hv'
      simp only [Bool.not_not]
      unfold shieldedPVs at hv'
      simp only [if_true] at hv'
      obtain ⟨p, hpm, hpk⟩ := contains_filterMap_pv _ _ hv'
      rw [List.mem_filter] at hpm
      obtain ⟨hp, hpc⟩ := hpm
      simp only [List.any_map, List.any_eq_true, List.mem_filter, Function.comp]
      simp only [Bool.and_eq_true] at hpc
      refine ⟨p, ⟨hp, hpc.1⟩, ?_⟩
      rw [abs_canDrain, abs_stuck]
      have hd := hpc.2
      unfold Pod.drainable at hd
      have hpv2 : p.pv = some j := hpk
      simp only [absPod, hpv2, List.contains_cons, List.contains_nil, Bool.or_false, beq_self_eq_true, Bool.and_true]
      revert hd
      cases p.tolerates <;> cases p.mirror <;> cases p.stuck now <;> simp
  · simp [h]


theorem pendingVAs_mono (now : Int) (fault : Fault) (pods : List Pod) (vas : List VA)
    (h : pendingVAs now fault pods vas = []) : pendingVAs now .ok pods vas = [] := by
  by_cases hf : fault = .ok
  · rw [← hf]; exact h
  · unfold pendingVAs at h ⊢
    rw [List.filter_eq_nil_iff] at h ⊢
    intro v hv
    have := h v hv
    unfold shieldedPVs at this
    simp only [hf, if_false] at this
    cases hpv : v.pv with
    | none => simp
    | some k => simp [hpv] at this

/-! ## Worlds as snapshots; the specification's verdict on a step -/

/-- number of NodeClaims that carry the Node's provider id -/
def claimCount (w : World) (n : NodeObs) : Nat := (if n.hasPid then w.claimObs.filter (·.mine) else []).length

/-- the ground truth of the world at the instant a pass of the node termination controller acts (the taint patch, if
    any, precedes the stages and the finalizer removal within the pass) -/
def nodeSnapAt (w : World) (n : NodeObs) (o : NodeOut) : NodeSnap :=
  nodeSnap w.now (n.tainted || o.taintPatched) n.ready (claimCount w n) (termOf (nodeClaimOf n w.claimObs)) w.pods w.vas (w.inst = .gone)

/-- the claim's snapshot with "launched" read as "the claim records a provider id" -/
def claimSnapRecorded (w : World) (c : ClaimW) : ClaimSnap :=
  { registered := c.st.registered = .true_, nodes := (w.nodeRefs.filter (·.mine)).length, launched := c.st.pid,
    instanceGone := w.inst = .gone }

/-- the claim's snapshot with the ground truth: launched = an instance exists for it or it records a provider id -/
def claimSnapTruth (w : World) (c : ClaimW) : ClaimSnap :=
  { registered := c.st.registered = .true_, nodes := (w.nodeRefs.filter (·.mine)).length,
    launched := c.st.pid || w.instanceExists, instanceGone := !w.instanceExists }

/-- the specification's verdict on one step: every finalizer removal and every provider `Delete` issued by the node
    termination controller in this step is judged on the ground truth of the world it happens in -/
def stepOk (w : World) : Event → Bool
  | .reconcileNode f p =>
    match w.node with
    | none => true
    | some n =>
      (!(w.nodePass n f p).removed || nodeRemovalOk (nodeSnapAt w n (w.nodePass n f p))) &&
      (!((w.nodePass n f p).calls.contains Act.providerDelete) || instanceDeleteOk (nodeSnapAt w n (w.nodePass n f p)))
  | .reconcileClaim f p =>
    match w.claim with
    | none => true
    | some c => !(w.claimPass c f p).removed || claimRemovalOk (claimSnapRecorded w c)
  | _ => true

def historyOk (w : World) : List Event → Bool
  | [] => true
  | e :: es => stepOk w e && historyOk (step w e) es

theorem world_single_claim (w : World) (n : NodeObs) (h : (nodeClaimOf n w.claimObs).isSome = false) : claimCount w n = 0 := by
  revert h
  unfold claimCount nodeClaimOf World.claimObs
  cases w.claim with
  | none => cases n.hasPid <;> simp
  | some c => cases n.hasPid <;> cases hp : c.st.pid <;> simp [hp]

theorem world_nodes_of_claim (w : World) (c : ClaimW) (h : c.st.pid = false) (hc : w.claim = some c) :
    w.nodeRefs.filter (·.mine) = [] := by
  unfold World.nodeRefs
  rw [hc]
  cases w.node <;> simp [h]

theorem inv_trace (es : List Event) : ∀ (w : World), Inv w → launchesPersist w es = true → ∀ w' ∈ trace w es, Inv w' := by
  induction es with
  | nil => intro w _ _ w' hw'; simp [trace] at hw'
  | cons e es ih =>
    intro w h hp w' hw'
    simp only [launchesPersist, Bool.and_eq_true] at hp
    simp only [trace, List.mem_cons] at hw'
    rcases hw' with rfl | hw'
    · exact inv_step w e h hp.1
    · exact ih _ (inv_step w e h hp.1) hp.2 w' hw'


end Karp.C09
