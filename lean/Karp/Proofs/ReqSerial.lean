/-
Lemmas about serialising a requirement to node-selector entries and parsing it back (C13),
and about `strconv.FormatInt` / `strconv.Atoi` round-tripping.
-/
import Karp.Proofs.ReqLemmas
set_option linter.unusedSimpArgs false
namespace Karp.Req
open Karp.Spec.K8s

theorem digitChar_not_sign : ∀ d, d < 10 → digitChar d ≠ '-' ∧ digitChar d ≠ '+' := by decide

theorem natDigits_head (f n : Nat) : ∃ d rest, d < 10 ∧ natDigits f n = digitChar d :: rest := by
  induction f generalizing n with
  | zero => exact ⟨0, [], by omega, rfl⟩
  | succ f ih =>
    simp only [natDigits]
    by_cases hn : n < 10
    · exact ⟨n, [], hn, by simp [hn]⟩
    · obtain ⟨d, rest, hd, he⟩ := ih (n / 10)
      exact ⟨d, rest ++ [digitChar (n % 10)], hd, by simp [hn, he]⟩

theorem atoiChars_unsigned (c : Char) (rest : List Char) (h1 : c ≠ '-') (h2 : c ≠ '+') :
    atoiChars (c :: rest) =
      match parseNat (c :: rest) 0 with
      | none => (0, false)
      | some n => if (n : Int) ≤ maxInt then ((n : Int), true) else (maxInt, false) := by
  unfold atoiChars
  split
  · rename_i heq; simp at heq
  · rename_i heq; simp at heq; exact absurd heq.1 h1
  · rename_i heq; simp at heq; exact absurd heq.1 h2
  · rfl

/-- `Atoi(FormatInt(i)) = i` for every int64 -/
theorem atoi_renderInt (i : Int) (h1 : minInt ≤ i) (h2 : i ≤ maxInt) : atoi (renderInt i) = some i := by
  unfold renderInt
  have hp := parseNat_natDigits i.natAbs i.natAbs (Nat.le_refl _)
  by_cases hneg : i < 0
  · simp only [hneg, if_true, atoi, atoiRaw, String.toList_ofList]
    simp only [atoiChars, hp]
    have hne : (natDigits i.natAbs i.natAbs).isEmpty = false := by
      obtain ⟨d, rest, _, he⟩ := natDigits_head i.natAbs i.natAbs
      simp [he]
    simp only [hne]
    have hle : (i.natAbs : Int) ≤ -minInt := by simp only [minInt] at *; omega
    simp only [hle, if_true]
    simp
    omega
  · simp only [hneg, if_false, atoi, atoiRaw, String.toList_ofList]
    obtain ⟨d, rest, hd, he⟩ := natDigits_head i.natAbs i.natAbs
    rw [he] at hp ⊢
    obtain ⟨hs1, hs2⟩ := digitChar_not_sign d hd
    rw [atoiChars_unsigned _ _ hs1 hs2, hp]
    have hle : (i.natAbs : Int) ≤ maxInt := by simp only [maxInt] at *; omega
    simp only [hle, if_true]
    simp
    omega

def selHas (sels : List Sel) (v : Val) : Bool := sels.all (fun s => k8sMatch s.op s.values (some v))
def accHas (acc : Option Req) (v : Val) : Bool := match acc with | none => true | some e => e.has v

/-- a serialisable selector: validated operands, never the (non-minValues-preserving) `Gt`/`Lt` forms -/
def Sel.ok (s : Sel) (k : String) (m : Option Int) : Prop :=
  validOperands s.op s.values = true ∧ s.op ≠ .gt ∧ s.op ≠ .lt ∧ s.key = k ∧ s.minValues = m

theorem maxOpt_self (m : Option Int) : maxOpt m m = m := by
  cases m <;> simp [maxOpt]

theorem new_ok_of_valid (s : Sel) (k : String) (m : Option Int) (h : s.ok k m) :
    ∃ r, Req.new s.key s.op s.minValues s.values = .ok r ∧ r.minValues = m ∧ r.key = normalizeKey k := by
  obtain ⟨hv, hgt, hlt, hk, hm⟩ := h
  cases hop : s.op with
  | in_ | notIn | exists_ | doesNotExist =>
    all_goals (simp only [Req.new]; exact ⟨_, rfl, hm, by rw [hk]⟩)
  | other => rw [hop] at hv; simp [validOperands] at hv
  | gt => exact absurd hop hgt
  | lt => exact absurd hop hlt
  | gte | lte =>
    all_goals
      rw [hop] at hv
      cases hvals : s.values with
      | nil => rw [hvals] at hv; simp [validOperands] at hv
      | cons n rest => simp only [Req.new, List.map_cons]; exact ⟨_, rfl, hm, by rw [hk]⟩

theorem fromSelectors_spec (k : String) (m : Option Int) (sels : List Sel) :
    ∀ (acc : Option Req), (∀ s ∈ sels, s.ok k m) → (∀ e, acc = some e → e.minValues = m ∧ e.key = normalizeKey k) →
    ∃ res, sels.foldlM (fun (acc : Option Req) (s : Sel) => do
        let r ← Req.new s.key s.op s.minValues s.values
        match acc with
        | none => pure (some r)
        | some e => pure (some (r.inter e))) acc = (.ok res : Except NewErr (Option Req))
      ∧ (∀ v, accHas res v = (accHas acc v && selHas sels v))
      ∧ (∀ e, res = some e → e.minValues = m ∧ e.key = normalizeKey k)
      ∧ (res.isSome = (acc.isSome || !sels.isEmpty)) := by
  induction sels with
  | nil =>
    intro acc _ hacc
    exact ⟨acc, rfl, by intro v; simp [selHas], hacc, by simp⟩
  | cons s rest ih =>
    intro acc hs hacc
    obtain ⟨r, hr, hrm, hrk⟩ := new_ok_of_valid s k m (hs s (List.mem_cons_self))
    have hhas : ∀ v, r.has v = k8sMatch s.op s.values (some v) :=
      fun v => has_new s.key s.op s.minValues s.values r v (hs s (List.mem_cons_self)).1 hr
    simp only [List.foldlM_cons, hr, bind, Except.bind]
    cases acc with
    | none =>
      obtain ⟨res, h1, h2, h3, h4⟩ := ih (some r) (fun s' hs' => hs s' (List.mem_cons_of_mem _ hs'))
        (by intro e he; cases he; exact ⟨hrm, hrk⟩)
      refine ⟨res, h1, ?_, h3, ?_⟩
      · intro v; rw [h2 v]; simp [accHas, selHas, hhas]
      · simp [h4]
    | some e =>
      obtain ⟨hem, hek⟩ := hacc e rfl
      obtain ⟨res, h1, h2, h3, h4⟩ := ih (some (r.inter e)) (fun s' hs' => hs s' (List.mem_cons_of_mem _ hs'))
        (by
          intro e' he'; cases he'
          refine ⟨by rw [minValues_inter, hrm, hem, maxOpt_self], ?_⟩
          unfold Req.inter; simp only []; split
          · exact hrk
          · split <;> exact hrk)
      refine ⟨res, h1, ?_, h3, ?_⟩
      · intro v; rw [h2 v]; simp only [accHas, selHas, has_inter, hhas, List.all_cons]
        cases k8sMatch s.op s.values (some v) <;> cases e.has v <;> simp
      · simp [h4]
theorem cmp_render_gte (g : Int) (v : Val) (h1 : minInt ≤ g) (h2 : g ≤ maxInt) :
    k8sMatch .gte [renderInt g] (some v) = withinBounds v (some g) none := by
  simp only [k8sMatch, cmpMatch, atoi_renderInt g h1 h2, withinBounds_eq]
  cases atoi v with
  | none => simp
  | some i => simp [geOk, leOk]

theorem cmp_render_lte (l : Int) (v : Val) (h1 : minInt ≤ l) (h2 : l ≤ maxInt) :
    k8sMatch .lte [renderInt l] (some v) = withinBounds v none (some l) := by
  simp only [k8sMatch, cmpMatch, atoi_renderInt l h1 h2, withinBounds_eq]
  cases atoi v with
  | none => simp
  | some i => simp [geOk, leOk]

theorem within_split (v : Val) (g l : Option Int) :
    withinBounds v g l = (withinBounds v g none && withinBounds v none l) := by
  simp only [withinBounds_eq]
  cases atoi v with
  | none => cases g <;> cases l <;> rfl
  | some i => cases g <;> cases l <;> simp [geOk, leOk]

/-- the emitted selector list means, under Kubernetes semantics, exactly what the requirement admits -/
theorem selHas_toSelectors (r : Req) (h : r.WF) (v : Val) : selHas r.toSelectors v = r.has v := by
  obtain ⟨⟨hg, hl⟩, _, hcnb⟩ := h
  unfold Req.toSelectors selHas Req.has
  cases hgte : r.gte with
  | none =>
    cases hlte : r.lte with
    | none =>
      cases hc : r.complement <;> cases hv : r.values <;> simp [k8sMatch]
    | some l =>
      obtain ⟨l1, l2⟩ := hl l hlte
      have e2 := cmp_render_lte l v l1 l2
      have hc : r.complement = true := by
        cases hc : r.complement with
        | true => rfl
        | false => have := (hcnb hc).2; rw [hlte] at this; cases this
      cases hv : r.values with
      | nil => simp [hc, e2]
      | cons x xs =>
        simp only [hc, List.nil_append, List.cons_append, List.isEmpty_cons, Bool.not_false, Bool.and_true, if_true,
          List.all_cons, List.all_nil, e2, Bool.false_eq_true, if_false]
        simp [k8sMatch, Bool.and_comm]
  | some g =>
    obtain ⟨g1, g2⟩ := hg g hgte
    have e1 := cmp_render_gte g v g1 g2
    have hc : r.complement = true := by
      cases hc : r.complement with
      | true => rfl
      | false => have := (hcnb hc).1; rw [hgte] at this; cases this
    cases hlte : r.lte with
    | none =>
      cases hv : r.values with
      | nil => simp [hc, e1]
      | cons x xs =>
        simp only [hc, List.nil_append, List.cons_append, List.append_nil, List.isEmpty_cons, Bool.not_false, Bool.and_true,
          if_true, List.all_cons, List.all_nil, e1, Bool.false_eq_true, if_false]
        simp [k8sMatch, Bool.and_comm]
    | some l =>
      obtain ⟨l1, l2⟩ := hl l hlte
      have e2 := cmp_render_lte l v l1 l2
      rw [within_split v (some g) (some l)]
      cases hv : r.values with
      | nil => simp [hc, e1, e2]
      | cons x xs =>
        simp only [hc, List.nil_append, List.cons_append, List.append_nil, List.isEmpty_cons, Bool.not_false, Bool.and_true,
          if_true, List.all_cons, List.all_nil, e1, e2, Bool.false_eq_true, if_false]
        simp only [k8sMatch]
        generalize withinBounds v (some g) none = a
        generalize withinBounds v none (some l) = b
        generalize (x :: xs).contains v = c
        cases a <;> cases b <;> cases c <;> rfl
theorem valid_render (i : Int) (h1 : minInt ≤ i) (h2 : i ≤ maxInt) (op : Op) (hop : op = .gte ∨ op = .lte) :
    validOperands op [renderInt i] = true := by
  rcases hop with h | h <;> subst h <;> simp [validOperands, atoi_renderInt i h1 h2]

/-- every emitted selector is serialisable: validated operands, the requirement's key and minValues -/
theorem toSelectors_ok (r : Req) (h : r.WF) : ∀ s ∈ r.toSelectors, s.ok r.key r.minValues := by
  obtain ⟨⟨hg, hl⟩, _, _⟩ := h
  intro s hs
  unfold Req.toSelectors at hs
  cases hgte : r.gte with
  | none =>
    cases hlte : r.lte with
    | none =>
      simp only [hgte, hlte, List.append_nil, List.isEmpty_nil, if_true] at hs
      cases hc : r.complement <;> cases hv : r.values <;> simp [hc, hv] at hs <;> subst hs <;>
        exact ⟨by simp [validOperands], by simp, by simp, rfl, rfl⟩
    | some l =>
      obtain ⟨l1, l2⟩ := hl l hlte
      simp only [hgte, hlte, List.nil_append, List.isEmpty_cons, Bool.false_eq_true, if_false, List.mem_append,
        List.mem_cons, List.not_mem_nil, or_false] at hs
      rcases hs with hs | hs
      · subst hs; exact ⟨valid_render l l1 l2 _ (Or.inr rfl), by simp, by simp, rfl, rfl⟩
      · split at hs
        · simp at hs; subst hs; exact ⟨by simp [validOperands], by simp, by simp, rfl, rfl⟩
        · simp at hs
  | some g =>
    obtain ⟨g1, g2⟩ := hg g hgte
    cases hlte : r.lte with
    | none =>
      simp only [hgte, hlte, List.append_nil, List.isEmpty_cons, Bool.false_eq_true, if_false, List.mem_append,
        List.mem_cons, List.not_mem_nil, or_false] at hs
      rcases hs with hs | hs
      · subst hs; exact ⟨valid_render g g1 g2 _ (Or.inl rfl), by simp, by simp, rfl, rfl⟩
      · split at hs
        · simp at hs; subst hs; exact ⟨by simp [validOperands], by simp, by simp, rfl, rfl⟩
        · simp at hs
    | some l =>
      obtain ⟨l1, l2⟩ := hl l hlte
      simp only [hgte, hlte, List.cons_append, List.nil_append, List.isEmpty_cons, Bool.false_eq_true, if_false,
        List.mem_append, List.mem_cons, List.not_mem_nil, or_false] at hs
      rcases hs with hs | hs | hs
      · subst hs; exact ⟨valid_render g g1 g2 _ (Or.inl rfl), by simp, by simp, rfl, rfl⟩
      · subst hs; exact ⟨valid_render l l1 l2 _ (Or.inr rfl), by simp, by simp, rfl, rfl⟩
      · split at hs
        · simp at hs; subst hs; exact ⟨by simp [validOperands], by simp, by simp, rfl, rfl⟩
        · simp at hs

theorem toSelectors_ne_nil (r : Req) : r.toSelectors.isEmpty = false := by
  unfold Req.toSelectors
  cases r.gte <;> cases r.lte <;> cases r.complement <;> cases r.values <;> simp

/-- **round trip**: parsing the serialised entries back yields a requirement with the same key, the same
    `minValues` and exactly the same admitted values -/
theorem roundtrip (r : Req) (h : r.WF) (hk : normalizeKey r.key = r.key) :
    ∃ r', fromSelectors r.toSelectors = .ok (some r') ∧ r'.key = r.key ∧ r'.minValues = r.minValues ∧
      ∀ v, r'.has v = r.has v := by
  obtain ⟨res, h1, h2, h3, h4⟩ :=
    fromSelectors_spec r.key r.minValues r.toSelectors none (toSelectors_ok r h) (by intro e he; cases he)
  rw [toSelectors_ne_nil] at h4
  cases res with
  | none => simp at h4
  | some r' =>
    obtain ⟨hm, hkey⟩ := h3 r' rfl
    refine ⟨r', h1, by rw [hkey, hk], hm, ?_⟩
    intro v
    have := h2 v
    simp only [accHas, Bool.true_and] at this
    rw [this, selHas_toSelectors r h v]
theorem operator_complement (r : Req) :
    (r.complement = true → r.operator = .notIn ∨ r.operator = .exists_) ∧
    (r.complement = false → r.operator = .in_ ∨ r.operator = .doesNotExist) := by
  unfold Req.operator
  constructor
  · intro h; simp only [h, if_true]; split <;> simp
  · intro h; simp only [h, Bool.false_eq_true, if_false]; split <;> simp

/-- **`Any()` never returns a value the requirement rejects** -/
theorem any_sound (r : Req) (h : r.WF) (out : Val) (ha : r.anyAllowed out = true) :
    out = "" ∨ r.has out = true := by
  unfold Req.anyAllowed at ha
  cases hc : r.complement with
  | false =>
    obtain ⟨hg, hl⟩ := h.concreteNoBounds hc
    rcases (operator_complement r).2 hc with hop | hop
    · rw [hop] at ha
      right
      simp only [Req.has, hc, hg, hl, withinBounds_none, Bool.and_true, Bool.false_eq_true, if_false]
      exact ha
    · rw [hop] at ha; left; simpa using ha
  | true =>
    have key : r.anyRange out = true := by
      rcases (operator_complement r).1 hc with hop | hop <;> (rw [hop] at ha; exact ha)
    unfold Req.anyRange at key
    by_cases hw : wrap64 (r.anyHi - r.anyLo) ≤ 0
    · left; simpa [hw] using key
    · simp only [hw, if_false] at key
      by_cases he : (out == "") = true
      · left; simpa using he
      · right
        simp only [he, Bool.false_eq_true, if_false] at key
        cases hv : atoi out with
        | none => rw [hv] at key; simp at key
        | some i =>
          rw [hv] at key
          simp only [Bool.and_eq_true, decide_eq_true_eq, Bool.not_eq_true'] at key
          obtain ⟨⟨⟨hlo, hhi⟩, _⟩, hnc⟩ := key
          simp only [Req.has, hc, if_true, hnc, Bool.not_false, Bool.true_and, withinBounds_eq, hv, Bool.and_eq_true]
          constructor
          · cases hg : r.gte with
            | none => rfl
            | some g => simp only [Req.anyLo, hg, Option.getD_some] at hlo; simp [geOk]; exact hlo
          · cases hl : r.lte with
            | none => rfl
            | some l =>
              simp only [Req.anyHi, hl] at hhi
              have := (h.inRange.2 l hl).2
              simp only [leOk, decide_eq_true_eq]
              split at hhi <;> omega

end Karp.Req
