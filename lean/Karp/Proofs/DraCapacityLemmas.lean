/-
Helper lemmas for the consumable-capacity part of C17: the model of `consumable_capacity.go`
(`Karp/Model/DraCapacity.lean`) against the rules of resource.k8s.io/v1 as the specification states them
(`Karp.Spec.DraExclusive.SDim.consumption`).  Core Lean only.
-/
import Karp.Model.DraCapacity
import Karp.Spec.DraExclusive

namespace Karp.DraCapacity
open Karp.Spec.DraExclusive

/-- what API validation (resource.k8s.io/v1) guarantees of a request policy, as far as the rules need it -/
structure ValidDim (d : SDim) : Prop where
  oneOf : d.values = [] ∨ d.range = none
  sorted : d.values.Pairwise (· ≤ ·)
  needsDefault : (d.values ≠ [] ∨ d.range ≠ none) → ∃ dv, d.default = some dv
  defaultValid : ∀ dv, d.default = some dv → d.values ≠ [] → dv ∈ d.values
  stepPos : ∀ mn mx s, d.range = some (mn, mx, some s) → 0 < s
  defaultMax : ∀ mn m st dv, d.range = some (mn, some m, st) → d.default = some dv → dv ≤ m

theorem foldl_min_of_le (a : Int) (l : List Int) (h : ∀ b ∈ l, a ≤ b) : l.foldl min a = a := by
  induction l with
  | nil => rfl
  | cons b t ih =>
    have hb : a ≤ b := h b (by simp)
    have : min a b = a := by omega
    simp only [List.foldl_cons, this]
    exact ih (fun c hc => h c (by simp [hc]))

/-- on an ascending list the least value ≥ r is the first one -/
theorem leastAbove_sorted (r : Int) (vs : List Int) (hs : vs.Pairwise (· ≤ ·)) :
    leastAbove r vs = vs.find? (fun v => r ≤ v) := by
  unfold leastAbove
  have hf : (vs.filter (fun v => decide (r ≤ v))).Pairwise (· ≤ ·) := hs.filter _
  rw [← List.head?_filter]
  cases hl : vs.filter (fun v => decide (r ≤ v)) with
  | nil => simp
  | cons v rest =>
    rw [hl] at hf
    simp only [List.head?_cons]
    rw [foldl_min_of_le v rest (fun b hb => List.rel_of_pairwise_cons hf hb)]

theorem roundUpRange_spec (r mn s : Int) (mx : Option Int) (hr : ¬ r < mn) :
    roundUpRange r { min := mn, max := mx, step := some s } = (if (r - mn) % s == 0 then r else r + (s - (r - mn) % s)) := by
  have ha : 0 ≤ r - mn := by omega
  simp only [roundUpRange, hr, if_false, Int.tdiv_eq_ediv_of_nonneg ha, Int.tmod_eq_emod_of_nonneg ha]
  have key := Int.mul_ediv_add_emod (r - mn) s
  by_cases h0 : (r - mn) % s = 0
  · simp [h0] at key ⊢; omega
  · simp [h0, Int.mul_add]; omega

theorem tmod_grid (mn s n : Int) (hs : 0 < s) (hn : 0 ≤ n) : Int.tmod (mn + s * n - mn) s = 0 := by
  have : mn + s * n - mn = s * n := by omega
  rw [this, Int.tmod_eq_emod_of_nonneg (Int.mul_nonneg (by omega) hn)]
  exact Int.mul_emod_right s n

theorem roundUpRange_on_grid (r mn s : Int) (mx : Option Int) (hs : 0 < s) :
    Int.tmod (roundUpRange r { min := mn, max := mx, step := some s } - mn) s = 0 := by
  by_cases hr : r < mn
  · simp [roundUpRange, hr]
  · have ha : 0 ≤ r - mn := by omega
    have hq : 0 ≤ (r - mn) / s := Int.ediv_nonneg ha (by omega)
    simp only [roundUpRange, hr, if_false, Int.tdiv_eq_ediv_of_nonneg ha]
    split
    · exact tmod_grid mn s _ hs (by omega)
    · exact tmod_grid mn s _ hs hq

def capMax (mx : Option Int) (c : Int) : Option Int :=
  match mx with
  | none => some c
  | some m => if c > m then none else some c

def stepOff (st : Option Int) (x : Int) : Bool :=
  match st with
  | some s => Int.tmod x s != 0
  | none => false

def maxOff (mx : Option Int) (c : Int) : Bool :=
  match mx with
  | some m => decide (c > m)
  | none => false

theorem violateValidRange_eq (c mn : Int) (mx st : Option Int) :
    violateValidRange c ⟨mn, mx, st⟩ = (maxOff mx c || stepOff st (c - mn)) := by
  cases st <;> cases mx <;> rfl

/-- the model on a range policy with a default, given that the rounded amount is on the step grid -/
theorem consumedDim_range (cap dv r mn : Int) (mx st : Option Int) (hmax : ∀ m, mx = some m → dv ≤ m)
    (hgrid : stepOff st (roundUpRange r ⟨mn, mx, st⟩ - mn) = false) :
    consumedDim (some r) (Dim.ofFields cap (some dv) [] (some (mn, mx, st))) = capMax mx (roundUpRange r ⟨mn, mx, st⟩) := by
  have hofs : Dim.ofFields cap (some dv) [] (some (mn, mx, st)) = ⟨cap, some ⟨some dv, [], some ⟨mn, mx, st⟩⟩⟩ := by
    simp [Dim.ofFields]
  rw [hofs]
  simp only [consumedDim, calculateConsumedCapacity, violatesPolicy, violateValidRange_eq]
  generalize roundUpRange r ⟨mn, mx, st⟩ = c at hgrid
  cases mx with
  | none => simp [capMax, maxOff, hgrid]
  | some m =>
    have := hmax m rfl
    by_cases hcm : c > m
    · have hne : dv ≠ c := by omega
      simp [capMax, maxOff, hcm, hne, hgrid]
    · simp [capMax, maxOff, hcm, hgrid]

/-- `computeConsumedCapacity` (model of the Go code) computes, for every API-valid request policy and every request,
    exactly what the rules of resource.k8s.io/v1 say -/
theorem consumedDim_refines (d : SDim) (h : ValidDim d) (req : Option Int) :
    consumedDim req (Dim.ofFields d.cap d.default d.values d.range) = d.consumption req := by
  obtain ⟨dim, cap, pre, default, values, range⟩ := d
  cases req with
  | none =>
    cases default with
    | some dv =>
      simp [consumedDim, calculateConsumedCapacity, fillEmptyRequest, Dim.ofFields, violatesPolicy, SDim.consumption]
    | none =>
      have hv : values = [] := by
        cases values with
        | nil => rfl
        | cons a t => obtain ⟨dv, hdv⟩ := h.needsDefault (Or.inl (by simp)); simp at hdv
      have hr : range = none := by
        cases range with
        | none => rfl
        | some g => obtain ⟨dv, hdv⟩ := h.needsDefault (Or.inr (by simp)); simp at hdv
      subst hv; subst hr
      simp [consumedDim, calculateConsumedCapacity, fillEmptyRequest, Dim.ofFields, violatesPolicy, SDim.consumption]
  | some r =>
    cases values with
    | cons a t =>
      have hrange : range = none := by
        rcases h.oneOf with h1 | h1
        · simp at h1
        · exact h1
      subst hrange
      obtain ⟨dv, hdv⟩ := h.needsDefault (Or.inl (by simp))
      simp only at hdv
      subst hdv
      have hmem : dv ∈ a :: t := h.defaultValid dv rfl (by simp)
      have hsp : SDim.consumption ⟨dim, cap, pre, some dv, a :: t, none⟩ (some r) = (a :: t).find? (fun v => r ≤ v) := by
        simp only [SDim.consumption, List.isEmpty_cons, Bool.not_false, if_true]
        exact leastAbove_sorted r (a :: t) h.sorted
      rw [hsp]
      cases hfind : (a :: t).find? (fun v => decide (r ≤ v)) with
      | some v =>
        have hv : v ∈ a :: t := List.mem_of_find?_eq_some hfind
        simp [consumedDim, calculateConsumedCapacity, Dim.ofFields, roundUpValidValues, hfind, violatesPolicy, violateValidValues]
        intro _ hna
        rcases List.mem_cons.mp hv with h1 | h1
        · exact absurd h1 hna
        · exact h1
      | none =>
        have hall := List.find?_eq_none.mp hfind
        have hne : dv ≠ r := by
          intro e; subst e
          exact hall dv hmem (by simp)
        have hc : r ∉ a :: t := fun hin => hall r hin (by simp)
        simp [consumedDim, calculateConsumedCapacity, Dim.ofFields, roundUpValidValues, hfind, violatesPolicy, violateValidValues, hne]
        exact ⟨fun e => hc (by simp [e]), fun e => hc (by simp [e])⟩
    | nil =>
      cases range with
      | none =>
        cases default <;>
          simp [consumedDim, calculateConsumedCapacity, Dim.ofFields, violatesPolicy, SDim.consumption]
      | some g =>
        obtain ⟨mn, mx, st⟩ := g
        obtain ⟨dv, hdv⟩ := h.needsDefault (Or.inr (by simp))
        simp only at hdv
        subst hdv
        have hstep : ∀ s, st = some s → 0 < s := fun s hs => h.stepPos mn mx s (by simp [hs])
        have hmax : ∀ m, mx = some m → dv ≤ m := fun m hm => h.defaultMax mn m st dv (by simp [hm]) rfl
        clear h
        have hgrid : stepOff st (roundUpRange r ⟨mn, mx, st⟩ - mn) = false := by
          cases st with
          | none => rfl
          | some s => simp [stepOff, roundUpRange_on_grid r mn s mx (hstep s rfl)]
        have hm := consumedDim_range cap dv r mn mx st hmax hgrid
        have hs : SDim.consumption ⟨dim, cap, pre, some dv, [], some (mn, mx, st)⟩ (some r) =
            capMax mx (roundUpRange r ⟨mn, mx, st⟩) := by
          by_cases hr : r < mn
          · cases st <;> cases mx <;> simp [SDim.consumption, roundUpRange, hr, capMax]
          · cases st with
            | none => cases mx <;> simp [SDim.consumption, roundUpRange, hr, capMax]
            | some s => rw [roundUpRange_spec r mn s mx hr]; cases mx <;> simp [SDim.consumption, hr, capMax]
        rw [hm, hs]

/-- by the rules a share is never less than what was asked for -/
theorem consumption_ge (dim : String) (cap pre : Int) (default : Option Int) (values : List Int)
    (range : Option (Int × Option Int × Option Int)) (hs : values.Pairwise (· ≤ ·))
    (hp : ∀ mn mx s, range = some (mn, mx, some s) → 0 < s) (r c : Int)
    (hc : SDim.consumption ⟨dim, cap, pre, default, values, range⟩ (some r) = some c) : r ≤ c := by
  cases values with
  | cons a t =>
    simp only [SDim.consumption, List.isEmpty_cons, Bool.not_false, if_true] at hc
    rw [leastAbove_sorted r (a :: t) hs] at hc
    have := List.find?_some hc
    simpa using this
  | nil =>
    cases range with
    | none => simp [SDim.consumption] at hc; omega
    | some g =>
      obtain ⟨mn, mx, st⟩ := g
      by_cases hr : r < mn
      · cases mx with
        | none => cases st <;> (simp [SDim.consumption, hr] at hc; omega)
        | some m => cases st <;> (simp [SDim.consumption, hr] at hc; omega)
      · cases st with
        | none =>
          cases mx with
          | none => simp [SDim.consumption, hr] at hc; omega
          | some m => simp [SDim.consumption, hr] at hc; omega
        | some s =>
          have hpos := hp mn mx s rfl
          have h1 := Int.emod_lt_of_pos (r - mn) hpos
          have h2 := Int.emod_nonneg (r - mn) (by omega : s ≠ 0)
          by_cases h0 : (r - mn) % s = 0
          · cases mx with
            | none => simp [SDim.consumption, hr, h0] at hc; omega
            | some m => simp [SDim.consumption, hr, h0] at hc; omega
          · cases mx with
            | none => simp [SDim.consumption, hr, h0] at hc; omega
            | some m => simp [SDim.consumption, hr, h0] at hc; omega

/-- whatever is offered to the guard, in whatever order: what is booked never exceeds the capacity -/
theorem admitAll_le (total : Int) (cs : List Int) : ∀ used, used ≤ total → admitAll total used cs ≤ total := by
  induction cs with
  | nil => intro used h; exact h
  | cons c rest ih =>
    intro used h
    simp only [admitAll]
    apply ih
    by_cases hf : fits total used c = true
    · simp only [hf, if_true]
      simp only [fits, Bool.not_eq_true', decide_eq_false_iff_not] at hf
      omega
    · simp only [hf]
      exact h

end Karp.DraCapacity
