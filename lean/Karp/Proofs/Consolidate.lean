/-
Helper lemmas for C06 (consolidation): the fold behind `MostExpensive`/`Cheapest`, the precedence loop of
`WorstLaunchPrice`, `Requirements.Add` lookups, the effect of the spot pin on offering compatibility, the price
filter, inversion of `computeConsolidation` / `computeSpotToSpotConsolidation` / the multi-node step, the same-type
bound, the reserved pin of `FinalizeScheduling`, validation, minValues and the emptiness sum.  Core Lean only.
-/
import Karp.Model.Consolidate
import Karp.Proofs.ReqLemmas

namespace Karp.Consolidate
open Karp.Req

/-! ### `dearest` / `cheapest` -/

theorem foldl_max_spec (l : List Offering) (m : Nat) :
    m ≤ l.foldl (fun m x => if x.price > m then x.price else m) m ∧
    ∀ o ∈ l, o.price ≤ l.foldl (fun m x => if x.price > m then x.price else m) m := by
  induction l generalizing m with
  | nil => simp
  | cons a l ih =>
    simp only [List.foldl_cons, List.mem_cons]
    by_cases hc : a.price > m
    · simp only [hc, if_true]
      have h := ih a.price
      refine ⟨by omega, ?_⟩
      intro o ho
      rcases ho with rfl | ho
      · exact h.1
      · exact h.2 o ho
    · simp only [hc, if_false]
      have h := ih m
      refine ⟨h.1, ?_⟩
      intro o ho
      rcases ho with rfl | ho
      · omega
      · exact h.2 o ho

theorem dearest_ge (l : List Offering) (p : Nat) (h : dearest l = some p) : ∀ o ∈ l, o.price ≤ p := by
  cases l with
  | nil => simp [dearest] at h
  | cons a l =>
    simp only [dearest, Option.some.injEq] at h
    intro o ho
    rcases List.mem_cons.mp ho with rfl | ho
    · rw [← h]; exact (foldl_max_spec l _).1
    · rw [← h]; exact (foldl_max_spec l _).2 o ho

theorem foldl_min_spec (l : List Offering) (m : Nat) :
    l.foldl (fun m x => if x.price < m then x.price else m) m ≤ m ∧
    ∀ o ∈ l, l.foldl (fun m x => if x.price < m then x.price else m) m ≤ o.price := by
  induction l generalizing m with
  | nil => simp
  | cons a l ih =>
    simp only [List.foldl_cons, List.mem_cons]
    by_cases hc : a.price < m
    · simp only [hc, if_true]
      have h := ih a.price
      refine ⟨by omega, ?_⟩
      intro o ho
      rcases ho with rfl | ho
      · exact h.1
      · exact h.2 o ho
    · simp only [hc, if_false]
      have h := ih m
      refine ⟨h.1, ?_⟩
      intro o ho
      rcases ho with rfl | ho
      · omega
      · exact h.2 o ho

theorem cheapest_le (l : List Offering) (p : Nat) (h : cheapest l = some p) : ∀ o ∈ l, p ≤ o.price := by
  cases l with
  | nil => simp [cheapest] at h
  | cons a l =>
    simp only [cheapest, Option.some.injEq] at h
    intro o ho
    rcases List.mem_cons.mp ho with rfl | ho
    · rw [← h]; exact (foldl_min_spec l _).1
    · rw [← h]; exact (foldl_min_spec l _).2 o ho

/-! ### `worstLoop` over the generated precedence list -/

theorem worstLoop_prec (ofs : List Offering) :
    worstLoop ofs Karp.Gen.C06Facts.worstLaunchPrecedence =
      if (ofs.filter (·.ct == reserved)).isEmpty then
        if (ofs.filter (·.ct == spot)).isEmpty then
          if (ofs.filter (·.ct == onDemand)).isEmpty then none else dearest (ofs.filter (·.ct == onDemand))
        else dearest (ofs.filter (·.ct == spot))
      else dearest (ofs.filter (·.ct == reserved)) := by
  rfl

theorem filter_isEmpty_false {p : Offering → Bool} {l : List Offering} {o : Offering} (ho : o ∈ l) (hp : p o = true) :
    (l.filter p).isEmpty = false := by
  have : o ∈ l.filter p := List.mem_filter.mpr ⟨ho, hp⟩
  cases h : l.filter p with
  | nil => rw [h] at this; cases this
  | cons _ _ => rfl

/-- the worst-case price covers an offering of the class that is tried first -/
theorem worst_covers (ofs : List Offering) (p : Nat)
    (h : worstLoop ofs Karp.Gen.C06Facts.worstLaunchPrecedence = some p) (o : Offering) (ho : o ∈ ofs)
    (hc : o.ct = reserved ∨
          (o.ct = spot ∧ ∀ x ∈ ofs, x.ct ≠ reserved) ∨
          (o.ct = onDemand ∧ (∀ x ∈ ofs, x.ct ≠ reserved) ∧ ∀ x ∈ ofs, x.ct ≠ spot)) :
    o.price ≤ p := by
  rw [worstLoop_prec] at h
  by_cases hr : (ofs.filter (·.ct == reserved)).isEmpty = true
  · rw [if_pos hr] at h
    have noRes : ∀ x ∈ ofs, x.ct ≠ reserved := by
      intro x hx hxr
      have := filter_isEmpty_false (p := (·.ct == reserved)) hx (by simp [hxr])
      rw [this] at hr; cases hr
    by_cases hs : (ofs.filter (·.ct == spot)).isEmpty = true
    · rw [if_pos hs] at h
      have noSpot : ∀ x ∈ ofs, x.ct ≠ spot := by
        intro x hx hxs
        have := filter_isEmpty_false (p := (·.ct == spot)) hx (by simp [hxs])
        rw [this] at hs; cases hs
      by_cases hd : (ofs.filter (·.ct == onDemand)).isEmpty = true
      · rw [if_pos hd] at h; cases h
      · rw [if_neg hd] at h
        rcases hc with hc | ⟨hc, _⟩ | ⟨hc, _, _⟩
        · exact absurd hc (noRes o ho)
        · exact absurd hc (noSpot o ho)
        · exact dearest_ge _ p h o (List.mem_filter.mpr ⟨ho, by simp [hc]⟩)
    · rw [if_neg hs] at h
      rcases hc with hc | ⟨hc, _⟩ | ⟨_, _, hns⟩
      · exact absurd hc (noRes o ho)
      · exact dearest_ge _ p h o (List.mem_filter.mpr ⟨ho, by simp [hc]⟩)
      · exfalso
        cases hf : ofs.filter (·.ct == spot) with
        | nil => rw [hf] at hs; exact hs rfl
        | cons x _ =>
          have hx : x ∈ ofs.filter (·.ct == spot) := by rw [hf]; exact List.mem_cons_self
          have := List.mem_filter.mp hx
          exact hns x this.1 (by simpa using this.2)
  · rw [if_neg hr] at h
    rcases hc with hc | ⟨_, hnr⟩ | ⟨_, hnr, _⟩
    · exact dearest_ge _ p h o (List.mem_filter.mpr ⟨ho, by simp [hc]⟩)
    all_goals
      exfalso
      cases hf : ofs.filter (·.ct == reserved) with
      | nil => rw [hf] at hr; exact hr rfl
      | cons x _ =>
        have hx : x ∈ ofs.filter (·.ct == reserved) := by rw [hf]; exact List.mem_cons_self
        have := List.mem_filter.mp hx
        exact hnr x this.1 (by simpa using this.2)

/-! ### `Reqs.set` / `Reqs.add1` lookups -/

theorem lookup_set_same (R : Reqs) (k : String) (r : Req) : (R.set k r).lookup k = some r := by
  induction R with
  | nil => simp [Reqs.set]
  | cons a R ih =>
    obtain ⟨k', r'⟩ := a
    by_cases h : k' = k
    · subst h; simp [Reqs.set]
    · have hne : (k == k') = false := by simp [Ne.symm h]
      simp [Reqs.set, h, List.lookup, hne, ih]

theorem lookup_set_other (R : Reqs) (k k2 : String) (r : Req) (h : k2 ≠ k) : (R.set k r).lookup k2 = R.lookup k2 := by
  induction R with
  | nil =>
    have : (k2 == k) = false := by simp [h]
    simp [Reqs.set, List.lookup, this]
  | cons a R ih =>
    obtain ⟨k', r'⟩ := a
    by_cases h' : k' = k
    · subst h'
      have : (k2 == k') = false := by simp [h]
      simp [Reqs.set, List.lookup, this]
    · simp only [Reqs.set, h', if_false, List.lookup]
      cases k2 == k' <;> simp [ih]

theorem lookup_add1_same (R : Reqs) (q : Req) :
    (R.add1 q).lookup q.key = some (match R.lookup q.key with | some e => q.inter e | none => q) := by
  unfold Reqs.add1
  cases h : R.lookup q.key with
  | none => simp [lookup_set_same]
  | some e => simp [lookup_set_same]

theorem lookup_add1_other (R : Reqs) (q : Req) (k : String) (h : k ≠ q.key) : (R.add1 q).lookup k = R.lookup k := by
  unfold Reqs.add1
  cases R.lookup q.key <;> simp [lookup_set_other _ _ _ _ h]

/-! ### offering compatibility -/

theorem admitsIn_get (R : Reqs) (k v : String) : admitsIn R k v = (R.get k).has v := by
  unfold admitsIn Reqs.get
  cases R.lookup k with
  | none => simp [Req.has, withinBounds]
  | some r => rfl

theorem spotReq_has (v : String) : spotReq.has v = (v == spot) := by
  simp [spotReq, Req.has, withinBounds, List.contains, List.elem]
  cases v == spot <;> rfl

theorem spotReq_key : spotReq.key = ctKey := rfl

theorem admitsIn_add1_spot_ct (R : Reqs) (v : String) :
    admitsIn (R.add1 spotReq) ctKey v = (admitsIn R ctKey v && (v == spot)) := by
  have h := lookup_add1_same R spotReq
  rw [spotReq_key] at h
  unfold admitsIn
  rw [h]
  cases R.lookup ctKey with
  | none => simp [spotReq_has]
  | some e => simp [has_inter, spotReq_has, Bool.and_comm]

theorem admitsIn_add1_spot_other (R : Reqs) (k v : String) (hk : k ≠ ctKey) :
    admitsIn (R.add1 spotReq) k v = admitsIn R k v := by
  unfold admitsIn
  rw [lookup_add1_other R spotReq k (by rw [spotReq_key]; exact hk)]

theorem admitsAbsent_add1_spot_other (R : Reqs) (k : String) (hk : k ≠ ctKey) :
    admitsAbsent (R.add1 spotReq) k = admitsAbsent R k := by
  unfold admitsAbsent
  rw [lookup_add1_other R spotReq k (by rw [spotReq_key]; exact hk)]

theorem zone_ne_ct : zoneKey ≠ ctKey := by decide

/-- pinning the capacity type to spot keeps exactly the spot launches -/
theorem compat_add1_spot (ridKey : String) (hrid : ridKey ≠ ctKey) (R : Reqs) (o : Offering) :
    offeringCompat ridKey (R.add1 spotReq) o = (offeringCompat ridKey R o && (o.ct == spot)) := by
  unfold offeringCompat
  rw [admitsIn_add1_spot_ct, admitsIn_add1_spot_other R zoneKey _ zone_ne_ct,
      admitsIn_add1_spot_other R ridKey _ hrid, admitsAbsent_add1_spot_other R ridKey hrid]
  cases admitsIn R zoneKey o.zone <;> cases admitsIn R ctKey o.ct <;> cases (o.ct == spot) <;> simp


/-! ### the price filter -/

theorem priceLt_some (x : Option Nat) (m : Nat) (h : priceLt x (some m) = true) : ∃ p, x = some p ∧ p < m := by
  cases x with
  | none => simp [priceLt] at h
  | some p => exact ⟨p, rfl, by simpa [priceLt] using h⟩

theorem removeByPrice_eq (ridKey : String) (R : Reqs) (maxP : Option Nat) (its kept : List IType)
    (h : removeByPrice ridKey R maxP its = some kept) :
    kept = its.filter (fun it => priceLt (launchPrice ridKey R it) maxP) ∧
    (satisfiesMinValues R kept).2 = false := by
  unfold removeByPrice at h
  simp only at h
  split at h
  · cases h
  · rename_i hs
    have := Option.some.inj h
    subst this
    exact ⟨rfl, by simpa using hs⟩

/-- every option the filter keeps has a worst-case launch price strictly below the bound, and is one of the inputs -/
theorem removeByPrice_mem (ridKey : String) (R : Reqs) (m : Nat) (its kept : List IType)
    (h : removeByPrice ridKey R (some m) its = some kept) (it : IType) (hit : it ∈ kept) :
    it ∈ its ∧ ∃ p, launchPrice ridKey R it = some p ∧ p < m := by
  have := (removeByPrice_eq ridKey R (some m) its kept h).1
  subst this
  have := List.mem_filter.mp hit
  exact ⟨this.1, priceLt_some _ _ this.2⟩

/-- an offering of the capacity-type class `WorstLaunchPrice` looks at is covered by the launch price -/
theorem launch_bound (ridKey : String) (R : Reqs) (it : IType) (p : Nat) (h : launchPrice ridKey R it = some p)
    (o : Offering) (ho : o ∈ it.offerings) (hav : o.available = true) (hcomp : offeringCompat ridKey R o = true)
    (hc : o.ct = reserved ∨
          (o.ct = spot ∧ ∀ x ∈ it.offerings, x.available = true → offeringCompat ridKey R x = true → x.ct ≠ reserved) ∨
          (o.ct = onDemand ∧ (∀ x ∈ it.offerings, x.available = true → offeringCompat ridKey R x = true → x.ct ≠ reserved) ∧
            ∀ x ∈ it.offerings, x.available = true → offeringCompat ridKey R x = true → x.ct ≠ spot)) :
    o.price ≤ p := by
  unfold launchPrice worstLaunchPrice at h
  have mem : ∀ x, x ∈ compatible ridKey R (available it.offerings) ↔ (x ∈ it.offerings ∧ x.available = true) ∧ offeringCompat ridKey R x = true := by
    intro x; simp only [compatible, available, List.mem_filter]
  refine worst_covers _ p h o ((mem o).mpr ⟨⟨ho, hav⟩, hcomp⟩) ?_
  rcases hc with hc | ⟨hc, h1⟩ | ⟨hc, h1, h2⟩
  · exact Or.inl hc
  · exact Or.inr (Or.inl ⟨hc, fun x hx => h1 x ((mem x).mp hx).1.1 ((mem x).mp hx).1.2 ((mem x).mp hx).2⟩)
  · exact Or.inr (Or.inr ⟨hc, fun x hx => h1 x ((mem x).mp hx).1.1 ((mem x).mp hx).1.2 ((mem x).mp hx).2,
      fun x hx => h2 x ((mem x).mp hx).1.1 ((mem x).mp hx).1.2 ((mem x).mp hx).2⟩)

/-- what is assumed of the claim the scheduler hands over (provider contract + the reserved pin of
    `FinalizeScheduling`, see `finalize_pins`) -/
structure ClaimHyps (ridKey : String) (c : Claim) : Prop where
  /-- every launchable offering is reserved, spot or on-demand -/
  cts : ∀ it ∈ c.its, ∀ o ∈ it.offerings, o.available = true → offeringCompat ridKey c.reqs o = true →
    o.ct = reserved ∨ o.ct = spot ∨ o.ct = onDemand
  /-- a claim that can still launch into a reservation has been pinned to `reserved` by the scheduler -/
  pinned : ∀ it ∈ c.its, ∀ o ∈ it.offerings, o.available = true → offeringCompat ridKey c.reqs o = true → o.ct = reserved →
    (c.reqs.get ctKey).has spot = false ∧ (c.reqs.get ctKey).has onDemand = false

theorem compat_ct (ridKey : String) (R : Reqs) (o : Offering) (h : offeringCompat ridKey R o = true) :
    (R.get ctKey).has o.ct = true := by
  unfold offeringCompat at h
  rw [← admitsIn_get]
  cases h1 : admitsIn R zoneKey o.zone <;> cases h2 : admitsIn R ctKey o.ct <;> simp_all

/-- the general (not spot-to-spot) branch: filter with the simulation's requirements, then pin to spot when both
    spot and on-demand were possible -/
theorem general_branch_price (ridKey : String) (hrid : ridKey ≠ ctKey) (c : Claim) (hyp : ClaimHyps ridKey c)
    (m : Nat) (kept : List IType) (h : removeByPrice ridKey c.reqs (some m) c.its = some kept)
    (it : IType) (hit : it ∈ kept) (o : Offering) (ho : o ∈ it.offerings) (hav : o.available = true)
    (hcomp : offeringCompat ridKey
      (if (c.reqs.get ctKey).has spot && (c.reqs.get ctKey).has onDemand then c.reqs.add1 spotReq else c.reqs) o = true) :
    o.price < m := by
  obtain ⟨hin, p, hp, hlt⟩ := removeByPrice_mem ridKey c.reqs m c.its kept h it hit
  have noRes_of (hs : (c.reqs.get ctKey).has spot = true ∨ (c.reqs.get ctKey).has onDemand = true) :
      ∀ x ∈ it.offerings, x.available = true → offeringCompat ridKey c.reqs x = true → x.ct ≠ reserved := by
    intro x hx hxa hxc hxr
    have := hyp.pinned it hin x hx hxa hxc hxr
    rcases hs with hs | hs
    · rw [this.1] at hs; cases hs
    · rw [this.2] at hs; cases hs
  by_cases hpin : ((c.reqs.get ctKey).has spot && (c.reqs.get ctKey).has onDemand) = true
  · rw [if_pos hpin, compat_add1_spot ridKey hrid] at hcomp
    have hc0 : offeringCompat ridKey c.reqs o = true := by
      cases h1 : offeringCompat ridKey c.reqs o <;> simp_all
    have hspot : o.ct = spot := by
      cases h1 : (o.ct == spot) with
      | true => simpa using h1
      | false => rw [h1] at hcomp; simp at hcomp
    have hs : (c.reqs.get ctKey).has spot = true := by
      cases h1 : (c.reqs.get ctKey).has spot <;> simp_all
    have := launch_bound ridKey c.reqs it p hp o ho hav hc0 (Or.inr (Or.inl ⟨hspot, noRes_of (Or.inl hs)⟩))
    omega
  · rw [if_neg hpin] at hcomp
    have hhas := compat_ct ridKey c.reqs o hcomp
    have hb : o.price ≤ p := by
      rcases hyp.cts it hin o ho hav hcomp with hr | hs | hd
      · exact launch_bound ridKey c.reqs it p hp o ho hav hcomp (Or.inl hr)
      · rw [hs] at hhas
        exact launch_bound ridKey c.reqs it p hp o ho hav hcomp (Or.inr (Or.inl ⟨hs, noRes_of (Or.inl hhas)⟩))
      · rw [hd] at hhas
        refine launch_bound ridKey c.reqs it p hp o ho hav hcomp (Or.inr (Or.inr ⟨hd, noRes_of (Or.inr hhas), ?_⟩))
        intro x hx hxa hxc hxs
        have hx' := compat_ct ridKey c.reqs x hxc
        rw [hxs] at hx'
        apply hpin
        simp [hx', hhas]
    omega

/-- the spot-to-spot branch: the requirements are pinned to spot BEFORE the filter, so every launch it permits is a
    spot launch and `WorstLaunchPrice` is the dearest of them -/
theorem spot_branch_price (ridKey : String) (hrid : ridKey ≠ ctKey) (R : Reqs) (its : List IType)
    (m : Nat) (kept : List IType) (h : removeByPrice ridKey (R.add1 spotReq) (some m) its = some kept)
    (it : IType) (hit : it ∈ kept) (o : Offering) (ho : o ∈ it.offerings) (hav : o.available = true)
    (hcomp : offeringCompat ridKey (R.add1 spotReq) o = true) :
    o.price < m := by
  obtain ⟨_, p, hp, hlt⟩ := removeByPrice_mem ridKey _ m its kept h it hit
  have isSpot : ∀ x, offeringCompat ridKey (R.add1 spotReq) x = true → x.ct = spot := by
    intro x hx
    rw [compat_add1_spot ridKey hrid] at hx
    cases h1 : (x.ct == spot) with
    | true => simpa using h1
    | false => rw [h1] at hx; simp at hx
  have hne : spot ≠ reserved := by decide
  have := launch_bound ridKey (R.add1 spotReq) it p hp o ho hav hcomp
    (Or.inr (Or.inl ⟨isSpot o hcomp, fun x _ _ hxc hxr => hne ((isSpot x hxc).symm.trans hxr)⟩))
  omega

/-! ### inversion of `compute` -/

/-- the two ways `spotToSpot` yields a replacement -/
theorem spotToSpot_inv (ridKey : String) (gate : Bool) (nC : Nat) (c : Claim) (price : Nat) (R' : Reqs) (kept : List IType) (n : Nat)
    (h : spotToSpot ridKey gate nC c price = .replace R' kept n) :
    gate = true ∧ R' = c.reqs.add1 spotReq ∧
    removeByPrice ridKey R' (some price) (compatibleTypes ridKey R' c.its) = some kept ∧ kept ≠ [] ∧
    ((1 < nC ∧ n = kept.length) ∨ (nC ≤ 1 ∧ minSpot ≤ kept.length ∧ minSpot ≤ n)) := by
  unfold spotToSpot at h
  by_cases hg : gate = true
  · simp only [hg, Bool.not_true, Bool.false_eq_true, if_false] at h
    cases hr : removeByPrice ridKey (c.reqs.add1 spotReq) (some price) (compatibleTypes ridKey (c.reqs.add1 spotReq) c.its) with
    | none => rw [hr] at h; cases h
    | some k =>
      rw [hr] at h
      simp only at h
      by_cases he : k.isEmpty = true
      · rw [if_pos he] at h; cases h
      · rw [if_neg he] at h
        have hne : k ≠ [] := by intro hk; subst hk; exact he rfl
        by_cases hn : nC > 1
        · rw [if_pos hn] at h
          injection h with h1 h2 h3
          subst h1 h2 h3
          exact ⟨hg, rfl, hr, hne, Or.inl ⟨hn, rfl⟩⟩
        · rw [if_neg hn] at h
          by_cases hl : k.length < minSpot
          · rw [if_pos hl] at h; cases h
          · rw [if_neg hl] at h
            by_cases hm : hasMinValues (c.reqs.add1 spotReq) = true
            · rw [if_pos hm] at h
              injection h with h1 h2 h3
              subst h1 h2 h3
              exact ⟨hg, rfl, hr, hne, Or.inr ⟨by omega, by omega, Nat.le_max_left _ _⟩⟩
            · rw [if_neg hm] at h
              injection h with h1 h2 h3
              subst h1 h2 h3
              exact ⟨hg, rfl, hr, hne, Or.inr ⟨by omega, by omega, Nat.le_refl _⟩⟩
  · have : gate = false := by cases gate <;> simp_all
    subst this
    simp at h

inductive Branch (ridKey : String) (gate : Bool) (cands : List Cand) (c : Claim) (R' : Reqs) (kept : List IType) (n : Nat) : Prop
  | spot (hs : (cands.all (fun cn => cn.ct == spot) && (c.reqs.get ctKey).has spot) = true)
      (hg : gate = true) (hR : R' = c.reqs.add1 spotReq)
      (hk : removeByPrice ridKey R' (some (sumPrices cands)) (compatibleTypes ridKey R' c.its) = some kept)
      (hne : kept ≠ [])
      (hn : (1 < cands.length ∧ n = kept.length) ∨ (cands.length ≤ 1 ∧ minSpot ≤ kept.length ∧ minSpot ≤ n))
  | general (hs : (cands.all (fun cn => cn.ct == spot) && (c.reqs.get ctKey).has spot) = false)
      (hk : removeByPrice ridKey c.reqs (some (sumPrices cands)) c.its = some kept)
      (hne : kept ≠ [])
      (hR : R' = if (c.reqs.get ctKey).has spot && (c.reqs.get ctKey).has onDemand then c.reqs.add1 spotReq else c.reqs)
      (hn : n = kept.length)

theorem compute_replace_inv (ridKey : String) (gate : Bool) (cands : List Cand) (sim : Sim) (R' : Reqs) (kept : List IType) (n : Nat)
    (h : compute ridKey gate cands sim = .replace R' kept n) :
    sim.allScheduled = true ∧ ∃ c, sim.claims = [c] ∧ Branch ridKey gate cands c R' kept n := by
  unfold compute at h
  by_cases ha : sim.allScheduled = true
  · simp only [ha, Bool.not_true, Bool.false_eq_true, if_false] at h
    refine ⟨ha, ?_⟩
    cases hcl : sim.claims with
    | nil => rw [hcl] at h; cases h
    | cons c rest =>
      cases rest with
      | cons _ _ => rw [hcl] at h; cases h
      | nil =>
        rw [hcl] at h
        simp only at h
        refine ⟨c, rfl, ?_⟩
        by_cases hs : (cands.all (fun cn => cn.ct == spot) && (c.reqs.get ctKey).has spot) = true
        · rw [if_pos hs] at h
          obtain ⟨hg, hR, hk, hne, hn⟩ := spotToSpot_inv ridKey gate cands.length c (sumPrices cands) R' kept n h
          exact Branch.spot hs hg hR hk hne hn
        · rw [if_neg hs] at h
          have hs' : (cands.all (fun cn => cn.ct == spot) && (c.reqs.get ctKey).has spot) = false := by
            cases hx : (cands.all (fun cn => cn.ct == spot) && (c.reqs.get ctKey).has spot) <;> simp_all
          cases hr : removeByPrice ridKey c.reqs (some (sumPrices cands)) c.its with
          | none => rw [hr] at h; cases h
          | some k =>
            rw [hr] at h
            simp only at h
            by_cases he : k.isEmpty = true
            · rw [if_pos he] at h; cases h
            · rw [if_neg he] at h
              have hne : k ≠ [] := by intro hk; subst hk; exact he rfl
              injection h with h1 h2 h3
              subst h1 h2 h3
              exact Branch.general hs' hr hne rfl rfl
  · have : sim.allScheduled = false := by cases hx : sim.allScheduled <;> simp_all
    rw [this] at h
    simp at h

theorem spotToSpot_ne_delete (ridKey : String) (gate : Bool) (nC : Nat) (c : Claim) (price : Nat) :
    spotToSpot ridKey gate nC c price ≠ .delete := by
  intro h
  unfold spotToSpot at h
  by_cases hg : gate = true
  · simp only [hg, Bool.not_true, Bool.false_eq_true, if_false] at h
    cases hr : removeByPrice ridKey (c.reqs.add1 spotReq) (some price) (compatibleTypes ridKey (c.reqs.add1 spotReq) c.its) with
    | none => rw [hr] at h; cases h
    | some k =>
      rw [hr] at h
      simp only at h
      by_cases he : k.isEmpty = true
      · rw [if_pos he] at h; cases h
      · rw [if_neg he] at h
        by_cases hn : nC > 1
        · rw [if_pos hn] at h; cases h
        · rw [if_neg hn] at h
          by_cases hl : k.length < minSpot
          · rw [if_pos hl] at h; cases h
          · rw [if_neg hl] at h
            by_cases hm : hasMinValues (c.reqs.add1 spotReq) = true
            · rw [if_pos hm] at h; cases h
            · rw [if_neg hm] at h; cases h
  · have : gate = false := by cases gate <;> simp_all
    subst this
    simp at h

theorem compute_delete_inv (ridKey : String) (gate : Bool) (cands : List Cand) (sim : Sim)
    (h : compute ridKey gate cands sim = .delete) : sim.allScheduled = true ∧ sim.claims = [] := by
  unfold compute at h
  by_cases ha : sim.allScheduled = true
  · simp only [ha, Bool.not_true, Bool.false_eq_true, if_false] at h
    refine ⟨ha, ?_⟩
    cases hcl : sim.claims with
    | nil => rfl
    | cons c rest =>
      exfalso
      cases rest with
      | cons _ _ => rw [hcl] at h; cases h
      | nil =>
        rw [hcl] at h
        simp only at h
        by_cases hs : (cands.all (fun cn => cn.ct == spot) && (c.reqs.get ctKey).has spot) = true
        · rw [if_pos hs] at h
          exact spotToSpot_ne_delete _ _ _ _ _ h
        · rw [if_neg hs] at h
          cases hr : removeByPrice ridKey c.reqs (some (sumPrices cands)) c.its with
          | none => rw [hr] at h; cases h
          | some k =>
            rw [hr] at h
            simp only at h
            by_cases he : k.isEmpty = true
            · rw [if_pos he] at h; cases h
            · rw [if_neg he] at h; cases h
  · have : sim.allScheduled = false := by cases hx : sim.allScheduled <;> simp_all
    rw [this] at h
    simp at h

/-! ### `compatibleTypes` -/

theorem compatibleTypes_mem (ridKey : String) (R : Reqs) (its : List IType) (it : IType) (h : it ∈ compatibleTypes ridKey R its) :
    it ∈ its ∧ ∃ o ∈ it.offerings, o.available = true ∧ offeringCompat ridKey R o = true := by
  have := List.mem_filter.mp h
  refine ⟨this.1, ?_⟩
  obtain ⟨o, ho, hc⟩ := List.any_eq_true.mp this.2
  have := List.mem_filter.mp ho
  exact ⟨o, this.1, this.2, hc⟩

/-! ### multi-node: the same-type bound -/

def sameTypeStep (cands : List Cand) (m : Option Nat) (it : IType) : Option Nat :=
  if cands.any (fun c => c.itName == it.name) then
    let p := (typePrice cands it.name).getD 0
    if priceLt (some p) m then some p else m
  else m

theorem sameTypeMax_eq (cands : List Cand) (its : List IType) :
    sameTypeMax cands its = its.foldl (sameTypeStep cands) none := rfl

theorem sameTypeStep_le (cands : List Cand) (a : Nat) (it : IType) :
    ∃ r, sameTypeStep cands (some a) it = some r ∧ r ≤ a := by
  unfold sameTypeStep
  by_cases h : cands.any (fun c => c.itName == it.name) = true
  · rw [if_pos h]
    by_cases h2 : priceLt (some ((typePrice cands it.name).getD 0)) (some a) = true
    · simp only [h2, if_true]
      exact ⟨_, rfl, by have := h2; simp [priceLt] at this; omega⟩
    · simp only [h2]
      exact ⟨a, rfl, Nat.le_refl _⟩
  · rw [if_neg h]; exact ⟨a, rfl, Nat.le_refl _⟩

theorem foldl_sameType_some (cands : List Cand) (its : List IType) (a : Nat) :
    ∃ r, its.foldl (sameTypeStep cands) (some a) = some r ∧ r ≤ a := by
  induction its generalizing a with
  | nil => exact ⟨a, rfl, Nat.le_refl _⟩
  | cons it its ih =>
    obtain ⟨r, hr, hle⟩ := sameTypeStep_le cands a it
    simp only [List.foldl_cons, hr]
    obtain ⟨r', hr', hle'⟩ := ih r
    exact ⟨r', hr', by omega⟩

theorem foldl_sameType_le (cands : List Cand) (its : List IType) (acc : Option Nat) (it' : IType) (hin : it' ∈ its)
    (hc : cands.any (fun c => c.itName == it'.name) = true) :
    ∃ r, its.foldl (sameTypeStep cands) acc = some r ∧ r ≤ (typePrice cands it'.name).getD 0 := by
  induction its generalizing acc with
  | nil => cases hin
  | cons it its ih =>
    simp only [List.foldl_cons]
    rcases List.mem_cons.mp hin with rfl | hin
    · -- the step at `it'` leaves an accumulator ≤ its price
      have : ∃ b, sameTypeStep cands acc it' = some b ∧ b ≤ (typePrice cands it'.name).getD 0 := by
        unfold sameTypeStep
        rw [if_pos hc]
        cases acc with
        | none => simp [priceLt]
        | some a =>
          by_cases h2 : priceLt (some ((typePrice cands it'.name).getD 0)) (some a) = true
          · simp only [h2, if_true]; exact ⟨_, rfl, Nat.le_refl _⟩
          · simp only [h2]
            refine ⟨a, rfl, ?_⟩
            simp [priceLt] at h2; omega
      obtain ⟨b, hb, hble⟩ := this
      rw [hb]
      obtain ⟨r, hr, hle⟩ := foldl_sameType_some cands its b
      exact ⟨r, hr, by omega⟩
    · exact ih _ hin

theorem sameTypeMax_le (cands : List Cand) (its : List IType) (it' : IType) (hin : it' ∈ its)
    (hc : cands.any (fun c => c.itName == it'.name) = true) :
    ∃ r, sameTypeMax cands its = some r ∧ r ≤ (typePrice cands it'.name).getD 0 :=
  foldl_sameType_le cands its none it' hin hc

theorem multiStep_replace_inv (ridKey : String) (gate : Bool) (cands : List Cand) (sim : Sim) (R : Reqs) (kept : List IType) (n : Nat)
    (h : multiStep ridKey gate cands sim = .replace R kept n) :
    ∃ kept0 n0, compute ridKey gate cands sim = .replace R kept0 n0 ∧
      removeByPrice ridKey R (sameTypeMax cands (kept0.take n0)) (kept0.take n0) = some kept ∧ kept ≠ [] ∧ n = kept.length := by
  unfold multiStep at h
  cases hc : compute ridKey gate cands sim with
  | noop => rw [hc] at h; cases h
  | delete => rw [hc] at h; cases h
  | replace R0 kept0 n0 =>
    rw [hc] at h
    simp only at h
    cases hr : removeByPrice ridKey R0 (sameTypeMax cands (kept0.take n0)) (kept0.take n0) with
    | none => rw [hr] at h; cases h
    | some k =>
      rw [hr] at h
      simp only at h
      by_cases he : k.isEmpty = true
      · rw [if_pos he] at h; cases h
      · rw [if_neg he] at h
        have hne : k ≠ [] := by intro hk; subst hk; exact he rfl
        injection h with h1 h2 h3
        subst h1 h2 h3
        exact ⟨kept0, n0, rfl, hr, hne, rfl⟩

theorem multiStep_delete_inv (ridKey : String) (gate : Bool) (cands : List Cand) (sim : Sim)
    (h : multiStep ridKey gate cands sim = .delete) : compute ridKey gate cands sim = .delete := by
  unfold multiStep at h
  cases hc : compute ridKey gate cands sim with
  | noop => rw [hc] at h; cases h
  | delete => rfl
  | replace R0 kept0 n0 =>
    rw [hc] at h
    simp only at h
    cases hr : removeByPrice ridKey R0 (sameTypeMax cands (kept0.take n0)) (kept0.take n0) with
    | none => rw [hr] at h; cases h
    | some k =>
      rw [hr] at h
      simp only at h
      by_cases he : k.isEmpty = true
      · rw [if_pos he] at h; cases h
      · rw [if_neg he] at h; cases h

/-! ### emptiness -/

theorem podCostSum_nonneg (pods : List PodCost) : 0 ≤ podCostSum pods := by
  induction pods with
  | nil => simp [podCostSum]
  | cons p ps ih =>
    simp only [podCostSum, List.map_cons, List.sum_cons] at ih ⊢
    have : 0 ≤ max 0 (evictionCostScaled p) := Int.le_max_left _ _
    omega

theorem podCostSum_le_zero (pods : List PodCost) : podCostSum pods ≤ 0 ↔ ∀ p ∈ pods, evictionCostScaled p ≤ 0 := by
  induction pods with
  | nil => simp [podCostSum]
  | cons p ps ih =>
    have hn := podCostSum_nonneg ps
    simp only [podCostSum, List.map_cons, List.sum_cons, List.mem_cons, forall_eq_or_imp] at ih hn ⊢
    rw [← ih]
    have h0 : 0 ≤ max 0 (evictionCostScaled p) := Int.le_max_left _ _
    have h1 : evictionCostScaled p ≤ max 0 (evictionCostScaled p) := Int.le_max_right _ _
    constructor
    · intro h; constructor <;> omega
    · intro ⟨h2, h3⟩
      have : max 0 (evictionCostScaled p) = 0 := by
        rw [Int.max_def]; split <;> omega
      omega

/-- the clamp to `[-10, 10]` never changes the sign: the cost is positive iff the unclamped sum is -/
theorem evictionCost_pos_iff (p : PodCost) :
    0 < evictionCostScaled p ↔ 0 < (2 : Int) ^ 27 + p.delCost.getD 0 + 4 * p.prio.getD 0 := by
  unfold evictionCostScaled costScale
  simp only [Karp.Gen.C06Facts.evictionBase, Karp.Gen.C06Facts.evictionDelExp, Karp.Gen.C06Facts.evictionPrioExp,
    Karp.Gen.C06Facts.evictionClampLo, Karp.Gen.C06Facts.evictionClampHi]
  have hm : max 27 25 = 27 := by decide
  have e27 : (2 : Int) ^ 27 = 134217728 := by decide
  have e0 : (2 : Int) ^ (27 - 27) = 1 := by decide
  have e2 : (2 : Int) ^ (27 - 25) = 4 := by decide
  simp only [hm, e27, e0, e2]
  generalize p.delCost.getD 0 = d
  generalize p.prio.getD 0 = q
  split
  · omega
  · split <;> omega

/-! ### the scheduler's reserved pin -/

theorem reservedReq_has (v : String) : reservedReq.has v = (v == reserved) := by
  simp [reservedReq, Req.has, withinBounds, List.contains, List.elem]
  cases v == reserved <;> rfl

theorem get_finalize_ct (ridKey : String) (hrid : ridKey ≠ ctKey) (R : Reqs) (ofs : List Offering) (hne : ofs ≠ []) :
    (finalize ridKey R ofs).get ctKey = reservedReq := by
  unfold finalize
  have : ofs.isEmpty = false := by cases ofs <;> simp_all
  simp only [this, Bool.false_eq_true, if_false]
  unfold Reqs.get
  rw [lookup_add1_other _ _ ctKey (by simpa using Ne.symm hrid), lookup_set_same]

/-- with the `ReservedCapacity` gate on (and reservations that still have capacity), a claim that can launch into a
    reservation leaves the scheduler pinned to `reserved`: the `pinned` hypothesis of `ClaimHyps` -/
theorem finalize_pins (ridKey : String) (hrid : ridKey ≠ ctKey) (R0 : Reqs) (its : List IType)
    (it : IType) (hit : it ∈ its) (o : Offering) (ho : o ∈ it.offerings) (hav : o.available = true)
    (hcomp : offeringCompat ridKey (finalize ridKey R0 (offeringsToReserve ridKey true R0 its)) o = true)
    (hres : o.ct = reserved) :
    ((finalize ridKey R0 (offeringsToReserve ridKey true R0 its)).get ctKey).has spot = false ∧
    ((finalize ridKey R0 (offeringsToReserve ridKey true R0 its)).get ctKey).has onDemand = false := by
  by_cases hne : offeringsToReserve ridKey true R0 its = []
  · exfalso
    rw [hne] at hcomp
    have hc0 : offeringCompat ridKey R0 o = true := by simpa [finalize] using hcomp
    have : o ∈ offeringsToReserve ridKey true R0 its := by
      unfold offeringsToReserve
      simp only [Bool.not_true, Bool.false_eq_true, if_false, List.mem_flatMap, List.mem_filter]
      exact ⟨it, hit, ho, by simp [hres, hav, hc0]⟩
    rw [hne] at this; cases this
  · rw [get_finalize_ct ridKey hrid R0 _ hne, reservedReq_has, reservedReq_has]
    exact ⟨by decide, by decide⟩

/-! ### validation -/

theorem validateCommand_replace (R : Reqs) (names : List String) (re : Sim)
    (h : validateCommand (some (R, names)) re = true) :
    re.allScheduled = true ∧ ∃ c, re.claims = [c] ∧ (∀ n ∈ names, n ∈ c.its.map (·.name)) ∧ reqsSubset R c.reqs = true := by
  unfold validateCommand at h
  cases ha : re.allScheduled with
  | false => rw [ha] at h; simp at h
  | true =>
    rw [ha] at h
    refine ⟨rfl, ?_⟩
    cases hc : re.claims with
    | nil => rw [hc] at h; simp at h
    | cons c rest =>
      cases rest with
      | cons _ _ => rw [hc] at h; simp at h
      | nil =>
        rw [hc] at h
        have h2 : namesSubset names (c.its.map (·.name)) = true ∧ reqsSubset R c.reqs = true := by simpa using h
        refine ⟨c, rfl, ?_, h2.2⟩
        intro n hn
        have := h2.1
        unfold namesSubset at this
        have := List.all_eq_true.mp this n hn
        simpa using this

theorem validateCommand_delete (re : Sim) (h : validateCommand none re = true) :
    re.allScheduled = true ∧ re.claims = [] := by
  unfold validateCommand at h
  cases ha : re.allScheduled with
  | false => rw [ha] at h; simp at h
  | true =>
    rw [ha] at h
    refine ⟨rfl, ?_⟩
    cases hc : re.claims with
    | nil => rfl
    | cons c rest =>
      cases rest with
      | cons _ _ => rw [hc] at h; simp at h
      | nil => rw [hc] at h; simp at h

/-! ### minValues -/

theorem firstSatisfying_spec (mk : List (String × Int)) (its : List IType) (fuel i r : Nat)
    (h : firstSatisfying mk its fuel i = some r) : i ≤ r ∧ r < i + fuel ∧ minSatisfied mk (its.take r) = true := by
  induction fuel generalizing i with
  | zero => simp [firstSatisfying] at h
  | succ f ih =>
    unfold firstSatisfying at h
    by_cases hs : minSatisfied mk (its.take i) = true
    · rw [if_pos hs] at h
      have := Option.some.inj h
      subst this
      exact ⟨Nat.le_refl _, by omega, hs⟩
    · rw [if_neg hs] at h
      have := ih (i + 1) h
      exact ⟨by omega, by omega, this.2.2⟩

/-- when `SatisfiesMinValues` reports no error on a non-empty list with floors, the prefix it names meets every floor -/
theorem satisfiesMinValues_ok (R : Reqs) (its : List IType) (h : (satisfiesMinValues R its).2 = false)
    (hmk : hasMinValues R = true) (hne : its ≠ []) :
    1 ≤ (satisfiesMinValues R its).1 ∧ (satisfiesMinValues R its).1 ≤ its.length ∧
    minSatisfied (minKeys R) (its.take (satisfiesMinValues R its).1) = true := by
  unfold satisfiesMinValues at h ⊢
  have hk : (minKeys R).isEmpty = false := by
    unfold hasMinValues at hmk; cases hx : (minKeys R).isEmpty <;> simp_all
  simp only [hk, Bool.false_eq_true, if_false] at h ⊢
  cases hf : firstSatisfying (minKeys R) its its.length 1 with
  | none =>
    rw [hf] at h
    simp only at h
    have : its.isEmpty = false := by cases its <;> simp_all
    simp [this] at h
  | some r =>
    have := firstSatisfying_spec _ _ _ _ _ hf
    simp only
    exact ⟨this.1, by omega, this.2.2⟩
end Karp.Consolidate
